//! h_min: op-script harness for the `decaf377` crate built WITHOUT default
//! features (u32 fiat field backend + `min_curve`).  See ../PROTOCOL.md.
//!
//! Every op calls exactly one public item of the crate, using fully-qualified
//! trait syntax where the crate has several impls of the same operator.

use std::hash::{Hash, Hasher};
use std::io::{self, BufRead, Write};
use std::iter::{Product, Sum};
use std::ops::{
    Add, AddAssign, Div, DivAssign, Mul, MulAssign, Neg, Sub, SubAssign,
};
use std::panic::{catch_unwind, AssertUnwindSafe};
use std::sync::{Arc, Mutex};
use std::time::{Duration, Instant};

use decaf377::{Element, Encoding, EncodingError, Fp, Fq, Fr};
use rand_core::{CryptoRng, RngCore};
use subtle::{Choice, ConditionallySelectable, ConstantTimeEq};
use zeroize::Zeroize;

// ---------------------------------------------------------------------------
// plumbing
// ---------------------------------------------------------------------------

#[allow(dead_code)]
enum Fail {
    Bad,
    Unsup,
}
use Fail::Bad;

struct Out {
    s: String,
    el: Option<Element>,
}
type R = Result<Out, Fail>;
type OpFn = Box<dyn Fn(&Ctx) -> R>;
type Ops = Vec<(String, OpFn)>;

fn reg(ops: &mut Ops, name: &str, f: impl Fn(&Ctx) -> R + 'static) {
    ops.push((name.to_string(), Box::new(f)));
}

struct Ctx<'a> {
    a: &'a [&'a str],
    res: &'a [Option<Element>],
}

// ---- hex helpers ----------------------------------------------------------

fn hexval(c: u8) -> Option<u8> {
    match c {
        b'0'..=b'9' => Some(c - b'0'),
        b'a'..=b'f' => Some(c - b'a' + 10),
        _ => None,
    }
}

fn bytes_to_hex(b: &[u8]) -> String {
    if b.is_empty() {
        return "-".to_string();
    }
    let mut s = String::with_capacity(b.len() * 2);
    for x in b {
        s.push_str(&format!("{:02x}", x));
    }
    s
}

fn hex_to_bytes(s: &str) -> Result<Vec<u8>, Fail> {
    if s == "-" {
        return Ok(vec![]);
    }
    let s = s.as_bytes();
    if s.is_empty() || s.len() % 2 != 0 {
        return Err(Bad);
    }
    let mut out = Vec::with_capacity(s.len() / 2);
    for p in s.chunks(2) {
        let h = hexval(p[0]).ok_or(Bad)?;
        let l = hexval(p[1]).ok_or(Bad)?;
        out.push(h << 4 | l);
    }
    Ok(out)
}

/// Hex integer -> little-endian byte array of exactly `n` bytes.
fn hexint_to_le(s: &str, n: usize) -> Result<Vec<u8>, Fail> {
    let b = s.as_bytes();
    if b.is_empty() {
        return Err(Bad);
    }
    let mut digits = Vec::with_capacity(b.len());
    for &c in b {
        digits.push(hexval(c).ok_or(Bad)?);
    }
    // strip leading zeros
    let first = digits.iter().position(|&d| d != 0).unwrap_or(digits.len());
    let digits = &digits[first..];
    if digits.len() > 2 * n {
        return Err(Bad);
    }
    let mut out = vec![0u8; n];
    for (i, &d) in digits.iter().rev().enumerate() {
        out[i / 2] |= d << (4 * (i % 2));
    }
    Ok(out)
}

/// Little-endian bytes -> hex integer without leading zeros.
fn le_to_hexint(b: &[u8]) -> String {
    let mut s = String::new();
    for x in b.iter().rev() {
        if s.is_empty() {
            if *x != 0 {
                s.push_str(&format!("{:x}", x));
            }
        } else {
            s.push_str(&format!("{:02x}", x));
        }
    }
    if s.is_empty() {
        s.push('0');
    }
    s
}

fn parse_u(s: &str, bits: u32) -> Result<u128, Fail> {
    let le = hexint_to_le(s, 16)?;
    let mut a = [0u8; 16];
    a.copy_from_slice(&le);
    let v = u128::from_le_bytes(a);
    if bits < 128 && (v >> bits) != 0 {
        return Err(Bad);
    }
    Ok(v)
}

fn limbs_to_str(l: &[u64]) -> String {
    if l.is_empty() {
        return "-".to_string();
    }
    l.iter()
        .map(|x| format!("{:x}", x))
        .collect::<Vec<_>>()
        .join(",")
}

// ---- field abstraction (harness side only: parse / print) ------------------

trait Fld: Copy + Sized + PartialEq {
    const N8: usize;
    /// the crate's deliberately non-canonical marker value (only Fq has one)
    fn is_marker(&self) -> bool {
        false
    }
    fn from_le_checked(b: &[u8]) -> Result<Self, EncodingError>;
    fn le(&self) -> Vec<u8>;
    /// Harness extension: special tokens accepted in place of an `F`.
    fn special(_s: &str) -> Option<Self> {
        None
    }
}

impl Fld for Fq {
    const N8: usize = 32;
    fn from_le_checked(b: &[u8]) -> Result<Self, EncodingError> {
        let mut a = [0u8; 32];
        a.copy_from_slice(b);
        Fq::from_bytes_checked(&a)
    }
    fn le(&self) -> Vec<u8> {
        self.to_bytes_le().to_vec()
    }
    fn special(s: &str) -> Option<Self> {
        if s == "sentinel" {
            Some(Fq::SENTINEL)
        } else {
            None
        }
    }
    fn is_marker(&self) -> bool {
        *self == Fq::SENTINEL
    }
}
impl Fld for Fr {
    const N8: usize = 32;
    fn from_le_checked(b: &[u8]) -> Result<Self, EncodingError> {
        let mut a = [0u8; 32];
        a.copy_from_slice(b);
        Fr::from_bytes_checked(&a)
    }
    fn le(&self) -> Vec<u8> {
        self.to_bytes_le().to_vec()
    }
}
impl Fld for Fp {
    const N8: usize = 48;
    fn from_le_checked(b: &[u8]) -> Result<Self, EncodingError> {
        let mut a = [0u8; 48];
        a.copy_from_slice(b);
        Fp::from_bytes_checked(&a)
    }
    fn le(&self) -> Vec<u8> {
        self.to_bytes_le().to_vec()
    }
}

fn parse_f<T: Fld>(s: &str) -> Result<T, Fail> {
    if let Some(x) = T::special(s) {
        return Ok(x);
    }
    let le = hexint_to_le(s, T::N8)?;
    T::from_le_checked(&le).map_err(|_| Bad)
}

/// Canonical integer of a field element.  A value whose internal representation is not the one the checked parser produces for its own
/// bytes (an unreduced residue: `==`, `inverse`, hashing would treat it as a different element) is flagged.
fn show_f<T: Fld>(x: &T) -> String {
    let h = le_to_hexint(&x.le());
    match T::from_le_checked(&x.le()) {
        Ok(y) if y == *x && *x == y => h,
        _ if x.is_marker() => h,
        _ => format!("NONCANONICAL:{}", h),
    }
}

fn show_el(e: &Element) -> String {
    let (x, y, z, t) = e.verif_coords();
    format!("{},{},{},{}", show_f(&x), show_f(&y), show_f(&z), show_f(&t))
}

// ---- result constructors ----------------------------------------------------

fn oks(s: String) -> R {
    Ok(Out { s, el: None })
}
fn okf<T: Fld>(x: T) -> R {
    oks(show_f(&x))
}
fn okb(b: bool) -> R {
    oks(if b { "1" } else { "0" }.to_string())
}
fn okbytes(b: &[u8]) -> R {
    oks(bytes_to_hex(b))
}
fn oklimbs(l: &[u64]) -> R {
    oks(limbs_to_str(l))
}
fn okstr(s: String) -> R {
    oks(format!("\"{}\"", s))
}
fn oke(e: Element) -> R {
    Ok(Out {
        s: show_el(&e),
        el: Some(e),
    })
}
fn okres_e(r: Result<Element, EncodingError>) -> R {
    match r {
        Ok(e) => Ok(Out {
            s: format!("OK {}", show_el(&e)),
            el: Some(e),
        }),
        Err(e) => oks(format!("ERR {:?}", e)),
    }
}
fn okopt_f<T: Fld>(o: Option<T>) -> R {
    match o {
        Some(x) => oks(format!("SOME {}", show_f(&x))),
        None => oks("NONE".to_string()),
    }
}
fn okord(o: std::cmp::Ordering) -> R {
    oks(match o {
        std::cmp::Ordering::Less => "-1",
        std::cmp::Ordering::Equal => "0",
        std::cmp::Ordering::Greater => "1",
    }
    .to_string())
}

// ---- operand accessors -------------------------------------------------------

impl<'a> Ctx<'a> {
    fn need(&self, n: usize) -> Result<(), Fail> {
        if self.a.len() == n {
            Ok(())
        } else {
            Err(Bad)
        }
    }
    fn f<T: Fld>(&self, i: usize) -> Result<T, Fail> {
        parse_f(self.a[i])
    }
    fn flist<T: Fld>(&self, i: usize) -> Result<Vec<T>, Fail> {
        let s = self.a[i];
        if s == "-" {
            return Ok(vec![]);
        }
        s.split(';').map(parse_f).collect()
    }
    fn el(&self, i: usize) -> Result<Element, Fail> {
        let s = self.a[i];
        if let Some(k) = s.strip_prefix('$') {
            let k: usize = k.parse().map_err(|_| Bad)?;
            return self.res.get(k).copied().flatten().ok_or(Bad);
        }
        let parts: Vec<&str> = s.split(',').collect();
        if parts.len() != 4 {
            return Err(Bad);
        }
        let x: Fq = parse_f(parts[0])?;
        let y: Fq = parse_f(parts[1])?;
        let z: Fq = parse_f(parts[2])?;
        let t: Fq = parse_f(parts[3])?;
        Ok(Element::verif_from_coords(x, y, z, t))
    }
    fn bytes(&self, i: usize) -> Result<Vec<u8>, Fail> {
        hex_to_bytes(self.a[i])
    }
    fn bytes32(&self, i: usize) -> Result<[u8; 32], Fail> {
        let b = self.bytes(i)?;
        <[u8; 32]>::try_from(&b[..]).map_err(|_| Bad)
    }
    fn limbs(&self, i: usize) -> Result<Vec<u64>, Fail> {
        let s = self.a[i];
        if s == "-" {
            return Ok(vec![]);
        }
        s.split(',')
            .map(|l| parse_u(l, 64).map(|v| v as u64))
            .collect()
    }
    fn bit(&self, i: usize) -> Result<bool, Fail> {
        match self.a[i] {
            "0" => Ok(false),
            "1" => Ok(true),
            _ => Err(Bad),
        }
    }
    fn uint(&self, i: usize, bits: u32) -> Result<u128, Fail> {
        parse_u(self.a[i], bits)
    }
}

// ---- recording hasher ---------------------------------------------------------

struct RecHasher(Vec<u8>);
impl Hasher for RecHasher {
    fn finish(&self) -> u64 {
        0
    }
    fn write(&mut self, b: &[u8]) {
        self.0.extend_from_slice(b)
    }
    fn write_u8(&mut self, i: u8) {
        self.0.extend_from_slice(&i.to_le_bytes())
    }
    fn write_u16(&mut self, i: u16) {
        self.0.extend_from_slice(&i.to_le_bytes())
    }
    fn write_u32(&mut self, i: u32) {
        self.0.extend_from_slice(&i.to_le_bytes())
    }
    fn write_u64(&mut self, i: u64) {
        self.0.extend_from_slice(&i.to_le_bytes())
    }
    fn write_u128(&mut self, i: u128) {
        self.0.extend_from_slice(&i.to_le_bytes())
    }
    fn write_usize(&mut self, i: usize) {
        self.0.extend_from_slice(&(i as u64).to_le_bytes())
    }
    fn write_i8(&mut self, i: i8) {
        self.0.extend_from_slice(&i.to_le_bytes())
    }
    fn write_i16(&mut self, i: i16) {
        self.0.extend_from_slice(&i.to_le_bytes())
    }
    fn write_i32(&mut self, i: i32) {
        self.0.extend_from_slice(&i.to_le_bytes())
    }
    fn write_i64(&mut self, i: i64) {
        self.0.extend_from_slice(&i.to_le_bytes())
    }
    fn write_i128(&mut self, i: i128) {
        self.0.extend_from_slice(&i.to_le_bytes())
    }
    fn write_isize(&mut self, i: isize) {
        self.0.extend_from_slice(&(i as i64).to_le_bytes())
    }
}

// ---- byte-replay RNG ------------------------------------------------------------

/// Replays the given bytes, then yields zeros forever.
struct ReplayRng {
    buf: Vec<u8>,
    pos: usize,
}
impl RngCore for ReplayRng {
    fn next_u32(&mut self) -> u32 {
        let mut b = [0u8; 4];
        self.fill_bytes(&mut b);
        u32::from_le_bytes(b)
    }
    fn next_u64(&mut self) -> u64 {
        let mut b = [0u8; 8];
        self.fill_bytes(&mut b);
        u64::from_le_bytes(b)
    }
    fn fill_bytes(&mut self, dest: &mut [u8]) {
        for d in dest.iter_mut() {
            *d = if self.pos < self.buf.len() {
                self.buf[self.pos]
            } else {
                0
            };
            self.pos = self.pos.saturating_add(1);
        }
    }
    fn try_fill_bytes(&mut self, dest: &mut [u8]) -> Result<(), rand_core::Error> {
        self.fill_bytes(dest);
        Ok(())
    }
}
impl CryptoRng for ReplayRng {}

// ---------------------------------------------------------------------------
// field ops (instantiated for fq / fr / fp)
// ---------------------------------------------------------------------------

/// `<f>.<name>.{v,r,m}`: `impl Tr<T> for T`, `impl Tr<&T> for T`, `impl Tr<&mut T> for T`
macro_rules! bin_forms {
    ($ops:ident, $p:literal, $T:ty, $name:literal, $Tr:ident, $m:ident) => {
        reg($ops, concat!($p, ".", $name, ".v"), |c| {
            c.need(2)?;
            let a: $T = c.f(0)?;
            let b: $T = c.f(1)?;
            okf(<$T as $Tr<$T>>::$m(a, b))
        });
        reg($ops, concat!($p, ".", $name, ".r"), |c| {
            c.need(2)?;
            let a: $T = c.f(0)?;
            let b: $T = c.f(1)?;
            okf(<$T as $Tr<&$T>>::$m(a, &b))
        });
        reg($ops, concat!($p, ".", $name, ".m"), |c| {
            c.need(2)?;
            let a: $T = c.f(0)?;
            let mut b: $T = c.f(1)?;
            okf(<$T as $Tr<&mut $T>>::$m(a, &mut b))
        });
    };
}

/// `<f>.<name>_assign.{v,r,m}`
macro_rules! assign_forms {
    ($ops:ident, $p:literal, $T:ty, $name:literal, $Tr:ident, $m:ident) => {
        reg($ops, concat!($p, ".", $name, ".v"), |c| {
            c.need(2)?;
            let mut a: $T = c.f(0)?;
            let b: $T = c.f(1)?;
            <$T as $Tr<$T>>::$m(&mut a, b);
            okf(a)
        });
        reg($ops, concat!($p, ".", $name, ".r"), |c| {
            c.need(2)?;
            let mut a: $T = c.f(0)?;
            let b: $T = c.f(1)?;
            <$T as $Tr<&$T>>::$m(&mut a, &b);
            okf(a)
        });
        reg($ops, concat!($p, ".", $name, ".m"), |c| {
            c.need(2)?;
            let mut a: $T = c.f(0)?;
            let mut b: $T = c.f(1)?;
            <$T as $Tr<&mut $T>>::$m(&mut a, &mut b);
            okf(a)
        });
    };
}

macro_rules! const_f {
    ($ops:ident, $p:literal, $T:ty, $($name:ident),*) => {
        $( reg($ops, concat!($p, ".const.", stringify!($name)), |c| {
            c.need(0)?;
            okf(<$T>::$name)
        }); )*
    };
}
macro_rules! const_limbs {
    ($ops:ident, $p:literal, $T:ty, $($name:ident),*) => {
        $( reg($ops, concat!($p, ".const.", stringify!($name)), |c| {
            c.need(0)?;
            oklimbs(&<$T>::$name)
        }); )*
    };
}
macro_rules! const_u32 {
    ($ops:ident, $p:literal, $T:ty, $($name:ident),*) => {
        $( reg($ops, concat!($p, ".const.", stringify!($name)), |c| {
            c.need(0)?;
            let v: u32 = <$T>::$name;
            oks(format!("{}", v))
        }); )*
    };
}

macro_rules! field_ops {
    ($ops:ident, $p:literal, $T:ty, $N8:expr) => {
        // --- operators: src/fields/<f>/ops.rs --------------------------------
        bin_forms!($ops, $p, $T, "add", Add, add);
        bin_forms!($ops, $p, $T, "sub", Sub, sub);
        bin_forms!($ops, $p, $T, "mul", Mul, mul);
        bin_forms!($ops, $p, $T, "div", Div, div);
        assign_forms!($ops, $p, $T, "add_assign", AddAssign, add_assign);
        assign_forms!($ops, $p, $T, "sub_assign", SubAssign, sub_assign);
        assign_forms!($ops, $p, $T, "mul_assign", MulAssign, mul_assign);
        assign_forms!($ops, $p, $T, "div_assign", DivAssign, div_assign);
        reg($ops, concat!($p, ".neg"), |c| {
            c.need(1)?;
            let a: $T = c.f(0)?;
            okf(<$T as Neg>::neg(a))
        });
        reg($ops, concat!($p, ".sum.v"), |c| {
            c.need(1)?;
            let v: Vec<$T> = c.flist(0)?;
            okf(<$T as Sum<$T>>::sum(v.into_iter()))
        });
        reg($ops, concat!($p, ".sum.r"), |c| {
            c.need(1)?;
            let v: Vec<$T> = c.flist(0)?;
            okf(<$T as Sum<&$T>>::sum(v.iter()))
        });
        reg($ops, concat!($p, ".product.v"), |c| {
            c.need(1)?;
            let v: Vec<$T> = c.flist(0)?;
            okf(<$T as Product<$T>>::product(v.into_iter()))
        });
        reg($ops, concat!($p, ".product.r"), |c| {
            c.need(1)?;
            let v: Vec<$T> = c.flist(0)?;
            okf(<$T as Product<&$T>>::product(v.iter()))
        });
        reg($ops, concat!($p, ".sum.lazy"), |c| {
            c.need(1)?;
            let v: Vec<$T> = c.flist(0)?;
            okf(<$T as Sum<$T>>::sum(v.into_iter().filter(|_| true)))
        });
        reg($ops, concat!($p, ".product.lazy"), |c| {
            c.need(1)?;
            let v: Vec<$T> = c.flist(0)?;
            okf(<$T as Product<&$T>>::product(v.iter().filter(|_| true)))
        });
        reg($ops, concat!($p, ".cmp"), |c| {
            c.need(2)?;
            let a: $T = c.f(0)?;
            let b: $T = c.f(1)?;
            okord(<$T as Ord>::cmp(&a, &b))
        });
        reg($ops, concat!($p, ".partial_cmp"), |c| {
            c.need(2)?;
            let a: $T = c.f(0)?;
            let b: $T = c.f(1)?;
            match <$T as PartialOrd>::partial_cmp(&a, &b) {
                Some(o) => {
                    let r = okord(o)?;
                    oks(format!("SOME {}", r.s))
                }
                None => oks("NONE".to_string()),
            }
        });
        reg($ops, concat!($p, ".eq"), |c| {
            c.need(2)?;
            let a: $T = c.f(0)?;
            let b: $T = c.f(1)?;
            okb(<$T as PartialEq>::eq(&a, &b))
        });
        reg($ops, concat!($p, ".hash"), |c| {
            c.need(1)?;
            let a: $T = c.f(0)?;
            let mut h = RecHasher(Vec::new());
            <$T as Hash>::hash(&a, &mut h);
            okbytes(&h.0)
        });
        reg($ops, concat!($p, ".default"), |c| {
            c.need(0)?;
            okf(<$T as Default>::default())
        });
        reg($ops, concat!($p, ".debug"), |c| {
            c.need(1)?;
            let a: $T = c.f(0)?;
            okstr(format!("{:?}", a))
        });
        reg($ops, concat!($p, ".from_u128"), |c| {
            c.need(1)?;
            let v = c.uint(0, 128)?;
            okf(<$T as From<u128>>::from(v))
        });
        reg($ops, concat!($p, ".from_u64"), |c| {
            c.need(1)?;
            let v = c.uint(0, 64)? as u64;
            okf(<$T as From<u64>>::from(v))
        });
        reg($ops, concat!($p, ".from_u32"), |c| {
            c.need(1)?;
            let v = c.uint(0, 32)? as u32;
            okf(<$T as From<u32>>::from(v))
        });
        reg($ops, concat!($p, ".from_u16"), |c| {
            c.need(1)?;
            let v = c.uint(0, 16)? as u16;
            okf(<$T as From<u16>>::from(v))
        });
        reg($ops, concat!($p, ".from_u8"), |c| {
            c.need(1)?;
            let v = c.uint(0, 8)? as u8;
            okf(<$T as From<u8>>::from(v))
        });
        reg($ops, concat!($p, ".from_bool"), |c| {
            c.need(1)?;
            let v = c.bit(0)?;
            okf(<$T as From<bool>>::from(v))
        });
        // --- inherent: src/fields/<f>.rs and src/fields/<f>/u32/wrapper.rs -----
        reg($ops, concat!($p, ".square"), |c| {
            c.need(1)?;
            let a: $T = c.f(0)?;
            okf(<$T>::square(&a))
        });
        reg($ops, concat!($p, ".inverse"), |c| {
            c.need(1)?;
            let a: $T = c.f(0)?;
            okopt_f(<$T>::inverse(&a))
        });
        reg($ops, concat!($p, ".from_le_bytes_mod_order"), |c| {
            c.need(1)?;
            let b = c.bytes(0)?;
            okf(<$T>::from_le_bytes_mod_order(&b))
        });
        reg($ops, concat!($p, ".from_bytes_checked"), |c| {
            c.need(1)?;
            let b = c.bytes(0)?;
            let a = <[u8; $N8]>::try_from(&b[..]).map_err(|_| Bad)?;
            match <$T>::from_bytes_checked(&a) {
                Ok(x) => oks(format!("OK {}", show_f(&x))),
                Err(e) => oks(format!("ERR {:?}", e)),
            }
        });
        reg($ops, concat!($p, ".to_bytes"), |c| {
            c.need(1)?;
            let a: $T = c.f(0)?;
            okbytes(&<$T>::to_bytes(&a))
        });
        reg($ops, concat!($p, ".to_bytes_le"), |c| {
            c.need(1)?;
            let a: $T = c.f(0)?;
            okbytes(&<$T>::to_bytes_le(&a))
        });
        reg($ops, concat!($p, ".rand"), |c| {
            c.need(1)?;
            let b = c.bytes(0)?;
            let mut rng = ReplayRng { buf: b, pos: 0 };
            okf(<$T>::rand(&mut rng))
        });
        // inherent by-value arithmetic of the wrapper (pub fn add/sub/mul/neg);
        // these shadow the operator traits under method-call syntax.
        reg($ops, concat!($p, ".inh.add"), |c| {
            c.need(2)?;
            let a: $T = c.f(0)?;
            let b: $T = c.f(1)?;
            okf(<$T>::add(a, &b))
        });
        reg($ops, concat!($p, ".inh.sub"), |c| {
            c.need(2)?;
            let a: $T = c.f(0)?;
            let b: $T = c.f(1)?;
            okf(<$T>::sub(a, &b))
        });
        reg($ops, concat!($p, ".inh.mul"), |c| {
            c.need(2)?;
            let a: $T = c.f(0)?;
            let b: $T = c.f(1)?;
            okf(<$T>::mul(a, &b))
        });
        reg($ops, concat!($p, ".inh.neg"), |c| {
            c.need(1)?;
            let a: $T = c.f(0)?;
            okf(<$T>::neg(a))
        });
        reg($ops, concat!($p, ".zeroize"), |c| {
            c.need(1)?;
            let mut a: $T = c.f(0)?;
            <$T as Zeroize>::zeroize(&mut a);
            okf(a)
        });
        // --- constants ------------------------------------------------------------
        const_f!(
            $ops,
            $p,
            $T,
            ZERO,
            ONE,
            MULTIPLICATIVE_GENERATOR,
            TWO_ADIC_ROOT_OF_UNITY,
            FIELD_SIZE_POWER_OF_TWO
        );
        const_limbs!(
            $ops,
            $p,
            $T,
            MODULUS_LIMBS,
            MODULUS_MINUS_ONE_DIV_TWO_LIMBS,
            TRACE_LIMBS,
            TRACE_MINUS_ONE_DIV_TWO_LIMBS
        );
        const_u32!($ops, $p, $T, MODULUS_BIT_SIZE, TWO_ADICITY);
    };
}

fn build_field_ops(ops: &mut Ops) {
    field_ops!(ops, "fq", Fq, 32);
    field_ops!(ops, "fr", Fr, 32);
    field_ops!(ops, "fp", Fp, 48);

    // fq-only ------------------------------------------------------------------
    const_f!(ops, "fq", Fq, QUADRATIC_NON_RESIDUE_TO_TRACE, SENTINEL);
    reg(ops, "fq.const.ZETA", |c| {
        c.need(0)?;
        okf(decaf377::ZETA)
    });
    reg(ops, "fq.power", |c| {
        c.need(2)?;
        let a: Fq = c.f(0)?;
        let l = c.limbs(1)?;
        okf(Fq::power(&a, l))
    });
    reg(ops, "fq.ct_eq", |c| {
        c.need(2)?;
        let a: Fq = c.f(0)?;
        let b: Fq = c.f(1)?;
        okb(bool::from(<Fq as ConstantTimeEq>::ct_eq(&a, &b)))
    });
    reg(ops, "fq.select", |c| {
        c.need(3)?;
        let a: Fq = c.f(0)?;
        let b: Fq = c.f(1)?;
        let ch = c.bit(2)?;
        okf(<Fq as ConditionallySelectable>::conditional_select(
            &a,
            &b,
            Choice::from(ch as u8),
        ))
    });
    reg(ops, "fq.sqrt_ratio_zeta", |c| {
        c.need(2)?;
        let a: Fq = c.f(0)?;
        let b: Fq = c.f(1)?;
        let (ok, r) = Fq::non_arkworks_sqrt_ratio_zeta(&a, &b);
        oks(format!("{} {}", if ok { 1 } else { 0 }, show_f(&r)))
    });
    reg(ops, "fq.from_montgomery_limbs", |c| {
        c.need(1)?;
        let l = c.limbs(0)?;
        let a = <[u64; 4]>::try_from(&l[..]).map_err(|_| Bad)?;
        okf(Fq::from_montgomery_limbs(a))
    });

    // fp-only ------------------------------------------------------------------
    const_f!(
        ops,
        "fp",
        Fp,
        QUADRATIC_NON_RESIDUE_TO_TRACE,
        QUADRATIC_NON_RESIDUE,
        MINUS_ONE
    );
}

// ---------------------------------------------------------------------------
// element ops
// ---------------------------------------------------------------------------

/// two-element operand op
macro_rules! el2 {
    ($ops:ident, $name:literal, |$a:ident, $b:ident| $body:expr) => {
        reg($ops, $name, |c| {
            c.need(2)?;
            #[allow(unused_mut)]
            let mut $a: Element = c.el(0)?;
            let $b: Element = c.el(1)?;
            oke($body)
        });
    };
}

/// element + Fr scalar op (operands always written `E F`)
macro_rules! smul {
    ($ops:ident, $name:literal, |$a:ident, $s:ident| $body:expr) => {
        reg($ops, $name, |c| {
            c.need(2)?;
            #[allow(unused_mut)]
            let mut $a: Element = c.el(0)?;
            let $s: Fr = c.f(1)?;
            oke($body)
        });
    };
}

fn build_element_ops(ops: &mut Ops) {
    reg(ops, "el.const.GENERATOR", |c| {
        c.need(0)?;
        oke(Element::GENERATOR)
    });
    reg(ops, "el.const.IDENTITY", |c| {
        c.need(0)?;
        oke(Element::IDENTITY)
    });

    // --- decoding ---------------------------------------------------------------
    reg(ops, "el.dec", |c| {
        c.need(1)?;
        let b = c.bytes32(0)?;
        okres_e(Encoding(b).vartime_decompress())
    });
    reg(ops, "el.dec.tf_enc", |c| {
        c.need(1)?;
        let b = c.bytes32(0)?;
        okres_e(<Element as TryFrom<Encoding>>::try_from(Encoding(b)))
    });
    reg(ops, "el.dec.tf_encref", |c| {
        c.need(1)?;
        let b = c.bytes32(0)?;
        let enc = Encoding(b);
        okres_e(<Element as TryFrom<&Encoding>>::try_from(&enc))
    });
    reg(ops, "el.dec.tf_arr", |c| {
        c.need(1)?;
        let b = c.bytes32(0)?;
        okres_e(<Element as TryFrom<[u8; 32]>>::try_from(b))
    });
    reg(ops, "el.dec.tf_slice", |c| {
        c.need(1)?;
        let b = c.bytes(0)?;
        okres_e(<Element as TryFrom<&[u8]>>::try_from(&b[..]))
    });
    reg(ops, "el.dec.enc_tf_slice", |c| {
        c.need(1)?;
        let b = c.bytes(0)?;
        okres_e(
            <Encoding as TryFrom<&[u8]>>::try_from(&b[..]).and_then(|e| e.vartime_decompress()),
        )
    });

    // --- encoding ---------------------------------------------------------------
    reg(ops, "el.enc", |c| {
        c.need(1)?;
        let e = c.el(0)?;
        okbytes(&e.vartime_compress().0)
    });
    reg(ops, "el.enc.to_field", |c| {
        c.need(1)?;
        let e = c.el(0)?;
        okf(e.vartime_compress_to_field())
    });
    reg(ops, "el.enc.from_elem", |c| {
        c.need(1)?;
        let e = c.el(0)?;
        okbytes(&<Encoding as From<Element>>::from(e).0)
    });
    reg(ops, "el.enc.from_ref", |c| {
        c.need(1)?;
        let e = c.el(0)?;
        okbytes(&<Encoding as From<&Element>>::from(&e).0)
    });
    reg(ops, "el.enc.arr_from", |c| {
        c.need(1)?;
        let e = c.el(0)?;
        okbytes(&<[u8; 32] as From<Element>>::from(e))
    });

    // --- add / sub: element.rs (`impl Add for Element`) and ops.rs ----------------
    el2!(ops, "el.add.EE", |a, b| <Element as Add<Element>>::add(a, b));
    el2!(ops, "el.add.Ee", |a, b| <Element as Add<&Element>>::add(a, &b));
    el2!(ops, "el.add.eE", |a, b| <&Element as Add<Element>>::add(&a, b));
    el2!(ops, "el.add.ee", |a, b| <&Element as Add<&Element>>::add(&a, &b));
    el2!(ops, "el.add_assign.E", |a, b| {
        <Element as AddAssign<Element>>::add_assign(&mut a, b);
        a
    });
    el2!(ops, "el.add_assign.e", |a, b| {
        <Element as AddAssign<&Element>>::add_assign(&mut a, &b);
        a
    });
    el2!(ops, "el.sub.EE", |a, b| <Element as Sub<Element>>::sub(a, b));
    el2!(ops, "el.sub.Ee", |a, b| <Element as Sub<&Element>>::sub(a, &b));
    el2!(ops, "el.sub.eE", |a, b| <&Element as Sub<Element>>::sub(&a, b));
    el2!(ops, "el.sub.ee", |a, b| <&Element as Sub<&Element>>::sub(&a, &b));
    el2!(ops, "el.sub_assign.E", |a, b| {
        <Element as SubAssign<Element>>::sub_assign(&mut a, b);
        a
    });
    el2!(ops, "el.sub_assign.e", |a, b| {
        <Element as SubAssign<&Element>>::sub_assign(&mut a, &b);
        a
    });
    reg(ops, "el.neg", |c| {
        c.need(1)?;
        let e = c.el(0)?;
        oke(<Element as Neg>::neg(e))
    });
    reg(ops, "el.double", |c| {
        c.need(1)?;
        let e = c.el(0)?;
        oke(Element::double(e))
    });

    // --- predicates ---------------------------------------------------------------
    reg(ops, "el.eq", |c| {
        c.need(2)?;
        let a = c.el(0)?;
        let b = c.el(1)?;
        okb(<Element as PartialEq>::eq(&a, &b))
    });
    reg(ops, "el.is_identity", |c| {
        c.need(1)?;
        let a = c.el(0)?;
        okb(a.is_identity())
    });
    reg(ops, "el.eq_identity", |c| {
        c.need(1)?;
        let a = c.el(0)?;
        okb(a == Element::IDENTITY)
    });

    // --- scalar multiplication by Fr: every Mul / MulAssign impl in ops.rs -----------
    smul!(ops, "el.smul.Ef", |a, s| <Element as Mul<Fr>>::mul(a, s));
    smul!(ops, "el.smul.Er", |a, s| <Element as Mul<&Fr>>::mul(a, &s));
    smul!(ops, "el.smul.ef", |a, s| <&Element as Mul<Fr>>::mul(&a, s));
    smul!(ops, "el.smul.er", |a, s| <&Element as Mul<&Fr>>::mul(&a, &s));
    smul!(ops, "el.smul.fE", |a, s| <Fr as Mul<Element>>::mul(s, a));
    smul!(ops, "el.smul.fe", |a, s| <Fr as Mul<&Element>>::mul(s, &a));
    smul!(ops, "el.smul.rE", |a, s| <&Fr as Mul<Element>>::mul(&s, a));
    smul!(ops, "el.smul.re", |a, s| <&Fr as Mul<&Element>>::mul(&s, &a));
    smul!(ops, "el.smul.assign_f", |a, s| {
        <Element as MulAssign<Fr>>::mul_assign(&mut a, s);
        a
    });
    smul!(ops, "el.smul.assign_r", |a, s| {
        <Element as MulAssign<&Fr>>::mul_assign(&mut a, &s);
        a
    });

    // --- maps to the curve -------------------------------------------------------------
    reg(ops, "el.elligator", |c| {
        c.need(1)?;
        let r: Fq = c.f(0)?;
        oke(Element::encode_to_curve(&r))
    });
    reg(ops, "el.hash_to_curve", |c| {
        c.need(2)?;
        let r1: Fq = c.f(0)?;
        let r2: Fq = c.f(1)?;
        oke(Element::hash_to_curve(&r1, &r2))
    });

    // --- min only -------------------------------------------------------------------------
    reg(ops, "el.scalar_mul", |c| {
        c.need(2)?;
        let e = c.el(0)?;
        let l = c.limbs(1)?;
        oke(Element::scalar_mul(e, &l))
    });
    reg(ops, "el.scalar_mul_vartime", |c| {
        c.need(2)?;
        let e = c.el(0)?;
        let l = c.limbs(1)?;
        oke(Element::scalar_mul_vartime(e, &l))
    });
    reg(ops, "el.select", |c| {
        c.need(3)?;
        let a = c.el(0)?;
        let b = c.el(1)?;
        let ch = c.bit(2)?;
        oke(<Element as ConditionallySelectable>::conditional_select(
            &a,
            &b,
            Choice::from(ch as u8),
        ))
    });
}

// ---------------------------------------------------------------------------
// driver
// ---------------------------------------------------------------------------

fn main() {
    let mut ops: Ops = Vec::new();
    build_field_ops(&mut ops);
    build_element_ops(&mut ops);

    let argv: Vec<String> = std::env::args().collect();
    if argv.len() > 1 && argv[1] == "--list-ops" {
        let out = io::stdout();
        let mut out = out.lock();
        for (n, _) in &ops {
            writeln!(out, "{}", n).unwrap();
        }
        return;
    }

    std::panic::set_hook(Box::new(|_| {}));

    let table: std::collections::HashMap<&str, &OpFn> =
        ops.iter().map(|(n, f)| (n.as_str(), f)).collect();

    // Watchdog: an op that runs longer than H_OP_TIMEOUT_MS (default 60000,
    // 0 = disabled) makes the harness print `TIMEOUT` for that line and exit(3).
    let timeout_ms: u64 = std::env::var("H_OP_TIMEOUT_MS")
        .ok()
        .and_then(|s| s.parse().ok())
        .unwrap_or(60_000);
    let busy: Arc<Mutex<Option<Instant>>> = Arc::new(Mutex::new(None));
    if timeout_ms > 0 {
        let busy = busy.clone();
        std::thread::spawn(move || loop {
            std::thread::sleep(Duration::from_millis(25));
            let g = busy.lock().unwrap();
            if let Some(t0) = *g {
                if t0.elapsed() > Duration::from_millis(timeout_ms) {
                    let out = io::stdout();
                    let mut out = out.lock();
                    let _ = writeln!(out, "TIMEOUT");
                    let _ = out.flush();
                    std::process::exit(3);
                }
            }
        });
    }

    let reader: Box<dyn BufRead> = if argv.len() > 1 {
        match std::fs::File::open(&argv[1]) {
            Ok(f) => Box::new(io::BufReader::new(f)),
            Err(e) => {
                eprintln!("cannot open {}: {}", argv[1], e);
                std::process::exit(2);
            }
        }
    } else {
        Box::new(io::BufReader::new(io::stdin()))
    };

    let mut results: Vec<Option<Element>> = Vec::new();
    for line in reader.lines() {
        let line = match line {
            Ok(l) => l,
            Err(_) => break,
        };
        let line = line.trim();
        if line.is_empty() || line.starts_with('#') {
            continue;
        }
        let toks: Vec<&str> = line.split_whitespace().collect();
        let (text, el) = match table.get(toks[0]) {
            None => ("UNSUPPORTED".to_string(), None),
            Some(f) => {
                let ctx = Ctx {
                    a: &toks[1..],
                    res: &results,
                };
                *busy.lock().unwrap() = Some(Instant::now());
                let r = catch_unwind(AssertUnwindSafe(|| f(&ctx)));
                *busy.lock().unwrap() = None;
                match r {
                    Err(_) => ("PANIC".to_string(), None),
                    Ok(Err(Fail::Bad)) => ("BADINPUT".to_string(), None),
                    Ok(Err(Fail::Unsup)) => ("UNSUPPORTED".to_string(), None),
                    Ok(Ok(o)) => (o.s, o.el),
                }
            }
        };
        results.push(el);
        let out = io::stdout();
        let mut out = out.lock();
        let _ = writeln!(out, "{}", text);
        let _ = out.flush();
    }
}
