//! h_ark: op-script driver for the arkworks build of `decaf377` (see ../PROTOCOL.md).
#![allow(non_snake_case, unused_mut, unused_imports, dead_code)]

#[macro_use]
mod macros;
mod bls;
mod elems;
mod fields;
mod g16;
mod r1;
mod util;

use std::io::{Read, Write};
use std::panic::{catch_unwind, AssertUnwindSafe};

use util::{Args, Bad, Map, St};

fn main() {
    std::panic::set_hook(Box::new(|_| {}));
    let mut m = Map::new();
    fields::reg(&mut m);
    elems::reg(&mut m);
    r1::reg(&mut m);
    bls::reg(&mut m);
    g16::reg(&mut m);

    let argv: Vec<String> = std::env::args().collect();
    let mut out = std::io::stdout();
    if argv.len() > 1 && argv[1] == "--list-ops" {
        for k in m.keys() {
            writeln!(out, "{}", k).unwrap();
        }
        return;
    }
    let mut input = String::new();
    if argv.len() > 1 {
        input = std::fs::read_to_string(&argv[1]).expect("cannot read script");
    } else {
        std::io::stdin().read_to_string(&mut input).expect("cannot read stdin");
    }

    // Watchdog: an op that runs longer than H_OP_TIMEOUT_MS (default 60000, 0 = disabled) makes the harness
    // print `TIMEOUT` for that line and exit(3).
    let timeout_ms: u64 = std::env::var("H_OP_TIMEOUT_MS").ok().and_then(|s| s.parse().ok()).unwrap_or(60_000);
    let busy: std::sync::Arc<std::sync::Mutex<Option<std::time::Instant>>> = std::sync::Arc::new(std::sync::Mutex::new(None));
    if timeout_ms > 0 {
        let busy = busy.clone();
        std::thread::spawn(move || loop {
            std::thread::sleep(std::time::Duration::from_millis(25));
            let g = busy.lock().unwrap();
            if let Some(t0) = *g {
                if t0.elapsed() > std::time::Duration::from_millis(timeout_ms) {
                    let mut o = std::io::stdout();
                    let _ = writeln!(o, "TIMEOUT");
                    let _ = o.flush();
                    std::process::exit(3);
                }
            }
        });
    }

    let mut results: Vec<St> = Vec::new();
    for line in input.lines() {
        let l = line.trim();
        if l.is_empty() || l.starts_with('#') {
            continue;
        }
        let (opname, rest) = match l.find(char::is_whitespace) {
            Some(i) => (&l[..i], &l[i..]),
            None => (l, ""),
        };
        let (text, st) = match m.get(opname) {
            None => ("UNSUPPORTED".to_string(), St::No),
            Some(f) => {
                let mut a = Args::new(rest, &results);
                *busy.lock().unwrap() = Some(std::time::Instant::now());
                let r_ = catch_unwind(AssertUnwindSafe(|| f(&mut a)));
                *busy.lock().unwrap() = None;
                match r_ {
                    Err(_) => ("PANIC".to_string(), St::No),
                    Ok(Err(Bad::Input)) => ("BADINPUT".to_string(), St::No),
                    Ok(Err(Bad::Unsupported)) => ("UNSUPPORTED".to_string(), St::No),
                    Ok(Ok(r)) => (r.s, r.st),
                }
            }
        };
        writeln!(out, "{}", text.replace('\n', "\\n")).unwrap();
        out.flush().unwrap();
        results.push(st);
    }
}
