//! Value syntax (PROTOCOL.md "Value syntax"), operand cursor, result printers,
//! replay RNG and recording hasher.

use std::collections::BTreeMap;
use std::fmt::Display;

use ark_ec::CurveGroup;
use ark_serialize::SerializationError;
use decaf377::{Element, EncodingError, Fp, Fq, Fr};

pub type AffinePoint = <Element as CurveGroup>::Affine;

pub enum Bad {
    Input,
    Unsupported,
}

#[derive(Clone, Copy)]
pub enum St {
    No,
    El(Element),
    Af(AffinePoint),
}

pub struct Ret {
    pub s: String,
    pub st: St,
}
pub type R = Result<Ret, Bad>;
pub type OpFn = Box<dyn Fn(&mut Args) -> R>;
pub type Map = BTreeMap<String, OpFn>;

// ---------------------------------------------------------------- fields

pub trait HF: Sized + Copy + PartialEq {
    const N8: usize;
    /// the crate's deliberately non-canonical marker value (only Fq has one)
    fn is_marker(&self) -> bool {
        false
    }
    fn from_le_checked(b: &[u8]) -> Option<Self>;
    fn le_bytes(&self) -> Vec<u8>;
}

macro_rules! impl_hf {
    ($F:ty, $n:expr, $marker:expr) => {
        impl HF for $F {
            const N8: usize = $n;
            fn is_marker(&self) -> bool {
                let f: fn(&$F) -> bool = $marker;
                f(self)
            }
            fn from_le_checked(b: &[u8]) -> Option<Self> {
                let a: [u8; $n] = b.try_into().ok()?;
                <$F>::from_bytes_checked(&a).ok()
            }
            fn le_bytes(&self) -> Vec<u8> {
                self.to_bytes_le().to_vec()
            }
        }
    };
}
impl_hf!(Fq, 32, |x| *x == Fq::SENTINEL);
impl_hf!(Fr, 32, |_| false);
impl_hf!(Fp, 48, |_| false);

/// hex integer (no leading zeros required) -> little-endian bytes padded to `n`.
pub fn hexint_to_le(s: &str, n: usize) -> Result<Vec<u8>, Bad> {
    if s.is_empty() || !s.bytes().all(|c| c.is_ascii_hexdigit()) {
        return Err(Bad::Input);
    }
    let padded = if s.len() % 2 == 1 { format!("0{}", s) } else { s.to_string() };
    let be = hex::decode(padded).map_err(|_| Bad::Input)?;
    let be: Vec<u8> = be.into_iter().skip_while(|b| *b == 0).collect();
    if be.len() > n {
        return Err(Bad::Input);
    }
    let mut le: Vec<u8> = be.into_iter().rev().collect();
    le.resize(n, 0);
    Ok(le)
}

pub fn le_to_hexint(b: &[u8]) -> String {
    let be: Vec<u8> = b.iter().rev().cloned().collect();
    let h = hex::encode(be);
    let t = h.trim_start_matches('0');
    if t.is_empty() { "0".to_string() } else { t.to_string() }
}

pub fn parse_f<T: HF>(s: &str) -> Result<T, Bad> {
    T::from_le_checked(&hexint_to_le(s, T::N8)?).ok_or(Bad::Input)
}

/// Canonical integer of a field element; a value whose internal representation is not the one the checked parser produces for its own
/// bytes (an unreduced residue) is flagged.
pub fn fs<T: HF>(x: &T) -> String {
    let h = le_to_hexint(&x.le_bytes());
    match T::from_le_checked(&x.le_bytes()) {
        Some(y) if y == *x && *x == y => h,
        _ if x.is_marker() => h,
        _ => format!("NONCANONICAL:{}", h),
    }
}

pub fn parse_bytes(s: &str) -> Result<Vec<u8>, Bad> {
    if s == "-" {
        return Ok(vec![]);
    }
    hex::decode(s).map_err(|_| Bad::Input)
}

pub fn bys(b: &[u8]) -> String {
    if b.is_empty() { "-".to_string() } else { hex::encode(b) }
}

pub fn parse_limbs(s: &str) -> Result<Vec<u64>, Bad> {
    if s == "-" {
        return Ok(vec![]);
    }
    s.split(',').map(|t| u64::from_str_radix(t, 16).map_err(|_| Bad::Input)).collect()
}

pub fn lms(l: &[u64]) -> String {
    if l.is_empty() {
        return "-".to_string();
    }
    l.iter().map(|x| format!("{:x}", x)).collect::<Vec<_>>().join(",")
}

pub fn arr32(b: &[u8]) -> Result<[u8; 32], Bad> {
    b.try_into().map_err(|_| Bad::Input)
}

// ---------------------------------------------------------------- points

pub fn af_to_el(a: &AffinePoint) -> Element {
    let (x, y) = a.verif_coords();
    Element::verif_from_coords(x, y, Fq::ONE, x * y)
}

pub fn parse_el(t: &str, res: &[St]) -> Result<Element, Bad> {
    if let Some(k) = t.strip_prefix('$') {
        let k: usize = k.parse().map_err(|_| Bad::Input)?;
        return match res.get(k) {
            Some(St::El(e)) => Ok(*e),
            Some(St::Af(a)) => Ok(af_to_el(a)),
            _ => Err(Bad::Input),
        };
    }
    let p: Vec<&str> = t.split(',').collect();
    if p.len() != 4 {
        return Err(Bad::Input);
    }
    Ok(Element::verif_from_coords(parse_f(p[0])?, parse_f(p[1])?, parse_f(p[2])?, parse_f(p[3])?))
}

pub fn parse_af(t: &str, res: &[St]) -> Result<AffinePoint, Bad> {
    if let Some(k) = t.strip_prefix('$') {
        let k: usize = k.parse().map_err(|_| Bad::Input)?;
        return match res.get(k) {
            Some(St::Af(a)) => Ok(*a),
            // a projective result is only usable as an affine operand when Z = 1
            Some(St::El(e)) => {
                let (x, y, z, _) = e.verif_coords();
                if z == Fq::ONE { Ok(AffinePoint::verif_from_coords(x, y)) } else { Err(Bad::Input) }
            }
            _ => Err(Bad::Input),
        };
    }
    let p: Vec<&str> = t.split(',').collect();
    if p.len() != 2 {
        return Err(Bad::Input);
    }
    Ok(AffinePoint::verif_from_coords(parse_f(p[0])?, parse_f(p[1])?))
}

pub fn els(e: &Element) -> String {
    let (x, y, z, t) = e.verif_coords();
    format!("{},{},{},{}", fs(&x), fs(&y), fs(&z), fs(&t))
}

pub fn afs(a: &AffinePoint) -> String {
    let (x, y) = a.verif_coords();
    format!("{},{}", fs(&x), fs(&y))
}

// ---------------------------------------------------------------- operand cursor

pub struct Args<'a> {
    pub t: Vec<&'a str>,
    pub i: usize,
    pub res: &'a [St],
    pub rest: &'a str,
}

impl<'a> Args<'a> {
    pub fn new(rest: &'a str, res: &'a [St]) -> Self {
        Args { t: rest.split_whitespace().collect(), i: 0, res, rest }
    }
    pub fn next(&mut self) -> Result<&'a str, Bad> {
        let t = *self.t.get(self.i).ok_or(Bad::Input)?;
        self.i += 1;
        Ok(t)
    }
    pub fn done(&self) -> Result<(), Bad> {
        if self.i == self.t.len() { Ok(()) } else { Err(Bad::Input) }
    }
    /// Remove and return the value of a `key=value` token (anywhere among the remaining tokens).
    pub fn opt(&mut self, key: &str) -> Option<&'a str> {
        let pre = format!("{}=", key);
        let pos = (self.i..self.t.len()).find(|&j| self.t[j].starts_with(&pre))?;
        let tok = self.t.remove(pos);
        Some(&tok[pre.len()..])
    }
    /// The whole remainder of the line, with one pair of surrounding double quotes removed.
    pub fn rest_string(&mut self) -> Result<String, Bad> {
        self.i = self.t.len();
        let s = self.rest.trim();
        if s.len() >= 2 && s.starts_with('"') && s.ends_with('"') {
            Ok(s[1..s.len() - 1].to_string())
        } else {
            Err(Bad::Input)
        }
    }
    pub fn f<T: HF>(&mut self) -> Result<T, Bad> {
        parse_f(self.next()?)
    }
    pub fn el(&mut self) -> Result<Element, Bad> {
        let t = self.next()?;
        parse_el(t, self.res)
    }
    pub fn af(&mut self) -> Result<AffinePoint, Bad> {
        let t = self.next()?;
        parse_af(t, self.res)
    }
    pub fn bytes(&mut self) -> Result<Vec<u8>, Bad> {
        parse_bytes(self.next()?)
    }
    pub fn limbs(&mut self) -> Result<Vec<u64>, Bad> {
        parse_limbs(self.next()?)
    }
    pub fn boolean(&mut self) -> Result<bool, Bad> {
        match self.next()? {
            "0" => Ok(false),
            "1" => Ok(true),
            _ => Err(Bad::Input),
        }
    }
    pub fn u128(&mut self) -> Result<u128, Bad> {
        u128::from_str_radix(self.next()?, 16).map_err(|_| Bad::Input)
    }
    fn list<T>(&mut self, f: impl Fn(&str, &[St]) -> Result<T, Bad>) -> Result<Vec<T>, Bad> {
        let t = self.next()?;
        if t == "-" {
            return Ok(vec![]);
        }
        t.split(';').map(|x| f(x, self.res)).collect()
    }
    pub fn el_list(&mut self) -> Result<Vec<Element>, Bad> {
        self.list(parse_el)
    }
    pub fn af_list(&mut self) -> Result<Vec<AffinePoint>, Bad> {
        self.list(parse_af)
    }
    pub fn f_list<T: HF>(&mut self) -> Result<Vec<T>, Bad> {
        self.list(|s, _| parse_f::<T>(s))
    }
}

// ---------------------------------------------------------------- printers

pub fn rs(s: String) -> R {
    Ok(Ret { s, st: St::No })
}
pub fn rf<T: HF>(x: T) -> R {
    rs(fs(&x))
}
pub fn rel(e: Element) -> R {
    Ok(Ret { s: els(&e), st: St::El(e) })
}
pub fn raf(a: AffinePoint) -> R {
    Ok(Ret { s: afs(&a), st: St::Af(a) })
}
pub fn rb(b: bool) -> R {
    rs(if b { "1" } else { "0" }.to_string())
}
pub fn rby<B: AsRef<[u8]>>(b: B) -> R {
    rs(bys(b.as_ref()))
}
pub fn rq(s: String) -> R {
    rs(format!("{:?}", s))
}
pub fn rl<L: AsRef<[u64]>>(l: L) -> R {
    rs(lms(l.as_ref()))
}
pub fn ru<N: Display>(n: N) -> R {
    rs(format!("{}", n))
}
pub fn ropt<T: HF>(o: Option<T>) -> R {
    rs(match o {
        Some(x) => format!("SOME {}", fs(&x)),
        None => "NONE".to_string(),
    })
}
pub fn ropt_af(o: Option<AffinePoint>) -> R {
    match o {
        Some(a) => Ok(Ret { s: format!("SOME {}", afs(&a)), st: St::Af(a) }),
        None => rs("NONE".to_string()),
    }
}
pub fn rres_el(r: Result<Element, EncodingError>) -> R {
    match r {
        Ok(e) => Ok(Ret { s: format!("OK {}", els(&e)), st: St::El(e) }),
        Err(e) => rs(format!("ERR {:?}", e)),
    }
}
pub fn rres_f<T: HF>(r: Result<T, EncodingError>) -> R {
    rs(match r {
        Ok(x) => format!("OK {}", fs(&x)),
        Err(e) => format!("ERR {:?}", e),
    })
}
pub fn serr(e: &SerializationError) -> &'static str {
    match e {
        SerializationError::NotEnoughSpace => "NotEnoughSpace",
        SerializationError::InvalidData => "InvalidData",
        SerializationError::UnexpectedFlags => "UnexpectedFlags",
        SerializationError::IoError(_) => "IoError",
    }
}
pub fn rser_el(r: Result<Element, SerializationError>) -> R {
    match r {
        Ok(e) => Ok(Ret { s: format!("OK {}", els(&e)), st: St::El(e) }),
        Err(e) => rs(format!("ERR Ser:{}", serr(&e))),
    }
}
pub fn rser_af(r: Result<AffinePoint, SerializationError>) -> R {
    match r {
        Ok(a) => Ok(Ret { s: format!("OK {}", afs(&a)), st: St::Af(a) }),
        Err(e) => rs(format!("ERR Ser:{}", serr(&e))),
    }
}
pub fn rser_f<T: HF>(r: Result<T, SerializationError>) -> R {
    rs(match r {
        Ok(x) => format!("OK {}", fs(&x)),
        Err(e) => format!("ERR Ser:{}", serr(&e)),
    })
}
/// `OK <bytes>` / `ERR Ser:<variant>`
pub fn rser_by(r: Result<Vec<u8>, SerializationError>) -> R {
    rs(match r {
        Ok(b) => format!("OK {}", bys(&b)),
        Err(e) => format!("ERR Ser:{}", serr(&e)),
    })
}
pub fn raf_list(v: Vec<AffinePoint>) -> R {
    if v.is_empty() {
        return rs("-".to_string());
    }
    rs(v.iter().map(afs).collect::<Vec<_>>().join(";"))
}

// ---------------------------------------------------------------- RNG / hasher

/// Replays `buf` byte by byte; afterwards either zeros (`zeros = true`) or a
/// xorshift64 byte stream: state x0 = 0x9E3779B97F4A7C15 ^ len(buf); for each
/// byte: x ^= x<<13; x ^= x>>7; x ^= x<<17; output = x & 0xff.
/// next_u32 / next_u64 read 4 / 8 bytes little-endian from the same stream.
pub struct ReplayRng {
    buf: Vec<u8>,
    pos: usize,
    x: u64,
    zeros: bool,
}

impl ReplayRng {
    pub fn zeros(buf: Vec<u8>) -> Self {
        ReplayRng { x: 0, buf, pos: 0, zeros: true }
    }
    pub fn xorshift(buf: Vec<u8>) -> Self {
        ReplayRng { x: 0x9E37_79B9_7F4A_7C15u64 ^ (buf.len() as u64), buf, pos: 0, zeros: false }
    }
    fn byte(&mut self) -> u8 {
        if self.pos < self.buf.len() {
            self.pos += 1;
            return self.buf[self.pos - 1];
        }
        if self.zeros {
            return 0;
        }
        self.x ^= self.x << 13;
        self.x ^= self.x >> 7;
        self.x ^= self.x << 17;
        (self.x & 0xff) as u8
    }
}

impl rand_core::RngCore for ReplayRng {
    fn next_u32(&mut self) -> u32 {
        let mut b = [0u8; 4];
        self.fill_bytes(&mut b);
        u32::from_le_bytes(b)
    }
    fn next_u64(&mut self) -> u64 {
        let mut b = [0u8; 8];
        self.fill_bytes(&mut b);
        u64::from_le_bytes(b)
    }
    fn fill_bytes(&mut self, dest: &mut [u8]) {
        for d in dest.iter_mut() {
            *d = self.byte();
        }
    }
    fn try_fill_bytes(&mut self, dest: &mut [u8]) -> Result<(), rand_core::Error> {
        self.fill_bytes(dest);
        Ok(())
    }
}
impl rand_core::CryptoRng for ReplayRng {}

/// Records every byte written (integer writes arrive as native = little-endian bytes).
#[derive(Default)]
pub struct RecHasher(pub Vec<u8>);

impl std::hash::Hasher for RecHasher {
    fn finish(&self) -> u64 {
        0
    }
    fn write(&mut self, bytes: &[u8]) {
        self.0.extend_from_slice(bytes);
    }
}

pub fn sha256_hex(b: &[u8]) -> String {
    use sha2::Digest;
    hex::encode(sha2::Sha256::digest(b))
}
