//! r1cs gadget ops.  Every op synthesises in a fresh `ConstraintSystem<Fq>`.
//!
//! Output: `sat=<0|1|ERR> ncons=<n> ninst=<n> nwit=<n>` then op-specific values.
//!  * gadget returned `Err(e)`      -> `err=<SynthesisError variant>`
//!  * unsatisfied system            -> trailing `first_unsat=<index of first violated constraint>`
//!  * element valued output         -> `val=<X,Y|ERR|PANIC> raw=<X,Y|ERR>`
//!    (`val` from `R1CSVar::value()`, which asserts curve membership; `raw`
//!    recovered from `ToBitsGadget::to_bits_le` *after* the statistics were taken)
//! Options (anywhere after the op name): `hint=<b>,<F>[;<b>,<F>|;-]...` queue of
//! isqrt hint overrides (`-` = honest), `enc=<F>[;...]` queue of encoding
//! overrides for witness allocation, `coords=<X,Y>` (r1.new only).
//! Hints are armed *after* the inputs were allocated (so they hit the gadget
//! under test) except for the allocation gadgets `new*` / `lazy*`, where they
//! are armed before allocation.

use std::ops::{Add, AddAssign, Sub, SubAssign};
use std::panic::{catch_unwind, AssertUnwindSafe};

use ark_ff::PrimeField;
use ark_r1cs_std::prelude::*;
use ark_r1cs_std::R1CSVar;
use ark_relations::r1cs::{ConstraintMatrices, ConstraintSystem, ConstraintSystemRef, SynthesisError};
use decaf377::r1cs::fqvar_ext::{verif_hints, FqVarExtension};
use decaf377::r1cs::{ElementVar, FqVar};
use decaf377::{Element, Fq};

use crate::util::*;

type Cs = ConstraintSystemRef<Fq>;
type SR<T> = Result<T, SynthesisError>;

pub enum OV {
    Unit,
    El(ElementVar),
    /// element plus its in-circuit encoding (computed after the statistics)
    ElEnc(ElementVar),
    Fq(FqVar),
    Bo(Boolean<Fq>),
    BoFq(Boolean<Fq>, FqVar),
    Bits(Vec<Boolean<Fq>>),
    Bytes(Vec<UInt8<Fq>>),
    Lazy { steps: Vec<usize>, vals: Vec<OV> },
    /// history on one variable: constraint counts after each step, and the values read (at the time of the read)
    Hist { steps: Vec<usize>, reads: Vec<String> },
}

#[derive(Default)]
pub struct Hints {
    isqrt: Vec<Option<(bool, Fq)>>,
    enc: Vec<Option<Fq>>,
}
thread_local! {
    /// the constraint system of the running op, and the number of witnesses allocated when the inputs were in place (set by `arm`)
    static CUR_CS: std::cell::RefCell<Option<Cs>> = std::cell::RefCell::new(None);
    static W0: std::cell::Cell<usize> = std::cell::Cell::new(0);
}
impl Hints {
    fn arm(&self) {
        verif_hints::set_isqrt_hints(&self.isqrt);
        verif_hints::set_enc_hints(&self.enc);
        CUR_CS.with(|c| {
            if let Some(cs) = c.borrow().as_ref() {
                W0.with(|w| w.set(cs.num_witness_variables()));
            }
        });
    }
}
struct Guard;
impl Drop for Guard {
    fn drop(&mut self) {
        verif_hints::set_isqrt_hints(&[]);
        verif_hints::set_enc_hints(&[]);
    }
}

type Gad = Box<dyn FnOnce(Cs, &Hints) -> SR<OV>>;

fn parse_mode(s: &str) -> Result<AllocationMode, Bad> {
    match s {
        "const" => Ok(AllocationMode::Constant),
        "input" => Ok(AllocationMode::Input),
        "witness" => Ok(AllocationMode::Witness),
        _ => Err(Bad::Input),
    }
}

fn parse_hints(g: &mut Args) -> Result<Hints, Bad> {
    let mut h = Hints::default();
    if let Some(v) = g.opt("hint") {
        for part in v.split(';') {
            if part == "-" {
                h.isqrt.push(None);
                continue;
            }
            let p: Vec<&str> = part.split(',').collect();
            if p.len() != 2 {
                return Err(Bad::Input);
            }
            let b = match p[0] {
                "0" => false,
                "1" => true,
                _ => return Err(Bad::Input),
            };
            h.isqrt.push(Some((b, parse_f::<Fq>(p[1])?)));
        }
    }
    if let Some(v) = g.opt("enc") {
        for part in v.split(';') {
            h.enc.push(if part == "-" { None } else { Some(parse_f::<Fq>(part)?) });
        }
    }
    Ok(h)
}

fn al_el(cs: &Cs, e: Element, mode: AllocationMode) -> SR<ElementVar> {
    <ElementVar as AllocVar<Element, Fq>>::new_variable(cs.clone(), || Ok(e), mode)
}
fn al_fq(cs: &Cs, x: Fq, mode: AllocationMode) -> SR<FqVar> {
    FqVar::new_variable(cs.clone(), || Ok(x), mode)
}
fn al_bo(cs: &Cs, b: bool, mode: AllocationMode) -> SR<Boolean<Fq>> {
    Boolean::new_variable(cs.clone(), || Ok(b), mode)
}

pub const GADGETS: &[&str] = &[
    "decode", "encode", "elligator", "isqrt", "is_negative", "is_nonnegative", "abs",
    "add", "add.ref", "add.const", "add_assign", "add_assign.ref", "add_assign.const",
    "sub", "sub.ref", "sub.const", "sub_assign", "sub_assign.ref", "sub_assign.const",
    "neg", "double", "double_in_place", "scalar_mul", "is_eq", "enforce_equal", "enforce_not_equal",
    "cond_enforce_equal", "cond_enforce_not_equal", "select", "new", "new_omit", "new_affine",
    "new_fq", "zero", "constant", "enforce_prime_order", "to_bits", "to_bytes", "lazy", "lazy.enc",
    "hist", "hist.enc",
    "is_eq.mixed", "is_neq.mixed", "enforce_equal.mixed", "enforce_not_equal.mixed", "cond_enforce_equal.mixed", "cond_enforce_not_equal.mixed",
];

macro_rules! el2 {
    ($g:ident, |$a:ident, $b:ident| $body:expr) => {{
        let mode = parse_mode($g.next()?)?;
        let ea = $g.el()?;
        let eb = $g.el()?;
        Box::new(move |cs: Cs, h: &Hints| -> SR<OV> {
            #[allow(unused_mut)]
            let mut $a = al_el(&cs, ea, mode)?;
            let $b = al_el(&cs, eb, mode)?;
            h.arm();
            $body
        }) as Gad
    }};
}
/// like el2, but the second operand is allocated as a CONSTANT (it keeps its internal representative: a witness / input is re-decoded
/// in circuit to the canonical one), so the two operands can be different representatives of one element
macro_rules! el2m {
    ($g:ident, |$a:ident, $b:ident| $body:expr) => {{
        let mode = parse_mode($g.next()?)?;
        let ea = $g.el()?;
        let eb = $g.el()?;
        Box::new(move |cs: Cs, h: &Hints| -> SR<OV> {
            #[allow(unused_mut)]
            let mut $a = al_el(&cs, ea, mode)?;
            let $b = al_el(&cs, eb, AllocationMode::Constant)?;
            h.arm();
            $body
        }) as Gad
    }};
}
/// second operand is a plain (out of circuit) `Element`
macro_rules! el1c {
    ($g:ident, |$a:ident, $b:ident| $body:expr) => {{
        let mode = parse_mode($g.next()?)?;
        let ea = $g.el()?;
        let $b = $g.el()?;
        Box::new(move |cs: Cs, h: &Hints| -> SR<OV> {
            #[allow(unused_mut)]
            let mut $a = al_el(&cs, ea, mode)?;
            h.arm();
            $body
        }) as Gad
    }};
}
macro_rules! el1 {
    ($g:ident, |$a:ident| $body:expr) => {{
        let mode = parse_mode($g.next()?)?;
        let ea = $g.el()?;
        Box::new(move |cs: Cs, h: &Hints| -> SR<OV> {
            #[allow(unused_mut)]
            let mut $a = al_el(&cs, ea, mode)?;
            h.arm();
            $body
        }) as Gad
    }};
}
macro_rules! fq1 {
    ($g:ident, |$a:ident| $body:expr) => {{
        let mode = parse_mode($g.next()?)?;
        let x = $g.f::<Fq>()?;
        Box::new(move |cs: Cs, h: &Hints| -> SR<OV> {
            let $a = al_fq(&cs, x, mode)?;
            h.arm();
            $body
        }) as Gad
    }};
}

fn lazy_steps(cs: &Cs, v: ElementVar, ops: &str) -> SR<OV> {
    let mut steps = vec![cs.num_constraints()];
    let mut vals = vec![];
    for ch in ops.chars() {
        match ch {
            'e' => {
                // `negate` goes through `LazyElementVar::element()` and adds no constraint of its own
                let _ = <ElementVar as CurveVar<Element, Fq>>::negate(&v)?;
                vals.push(OV::El(v.clone()));
            }
            _ => vals.push(OV::Fq(v.compress_to_field()?)),
        }
        steps.push(cs.num_constraints());
    }
    Ok(OV::Lazy { steps, vals })
}

pub const HIST_OPS: &str = "ecvaAksSjdnpmqxiuXWYZ";

/// A history of wrapper operations on ONE `ElementVar` `v` (second operand: the variable `w` / the constant `eb`):
///  e force element   c read compress_to_field()   v read value()
///  a v += w (owned)  A v += &w   k v += eb (constant)      s v -= w   S v -= &w   j v -= eb
///  d double_in_place n v = v.negate()   p v = v + w   m v = v - &w   q v = select(true, v, w)   x v = v.clone()
///  i read v.is_eq(&w)   u v.enforce_equal(&w)
///  X clone v, double the clone in place   W the same on w   Y v.double() (result dropped)   Z clone v, += &w on the clone, compress it
fn hist_steps(cs: &Cs, mut v: ElementVar, w: ElementVar, eb: Element, ops: &str) -> SR<OV> {
    let mut steps = vec![cs.num_constraints()];
    let mut reads = vec![];
    for ch in ops.chars() {
        match ch {
            'e' => {
                let _ = <ElementVar as CurveVar<Element, Fq>>::negate(&v)?;
            }
            'c' => reads.push(format!("c:{}", val_fq(&v.compress_to_field()?))),
            'v' => reads.push(format!("v:{}", val_el(&v))),
            'a' => <ElementVar as AddAssign<ElementVar>>::add_assign(&mut v, w.clone()),
            'A' => <ElementVar as AddAssign<&ElementVar>>::add_assign(&mut v, &w),
            'k' => <ElementVar as AddAssign<Element>>::add_assign(&mut v, eb),
            's' => <ElementVar as SubAssign<ElementVar>>::sub_assign(&mut v, w.clone()),
            'S' => <ElementVar as SubAssign<&ElementVar>>::sub_assign(&mut v, &w),
            'j' => <ElementVar as SubAssign<Element>>::sub_assign(&mut v, eb),
            'd' => <ElementVar as CurveVar<Element, Fq>>::double_in_place(&mut v)?,
            'n' => v = <ElementVar as CurveVar<Element, Fq>>::negate(&v)?,
            'p' => v = <ElementVar as Add<ElementVar>>::add(v.clone(), w.clone()),
            'm' => v = <ElementVar as Sub<&ElementVar>>::sub(v.clone(), &w),
            'q' => v = ElementVar::conditionally_select(&Boolean::constant(true), &v, &w)?,
            'i' => reads.push(format!("b:{}", val_bo(&v.is_eq(&w)?))),
            'u' => v.enforce_equal(&w)?,
            // operations on CLONES of v / w that must leave v and w themselves untouched (natively these are no-ops: Element is Copy)
            'X' => {
                let mut t = v.clone();
                <ElementVar as CurveVar<Element, Fq>>::double_in_place(&mut t)?;
            }
            'W' => {
                let mut t = w.clone();
                <ElementVar as CurveVar<Element, Fq>>::double_in_place(&mut t)?;
            }
            'Y' => {
                let _ = <ElementVar as CurveVar<Element, Fq>>::double(&v)?;
            }
            'Z' => {
                let mut t = v.clone();
                <ElementVar as AddAssign<&ElementVar>>::add_assign(&mut t, &w);
                let _ = t.compress_to_field()?;
            }
            _ => v = v.clone(),
        }
        steps.push(cs.num_constraints());
    }
    Ok(OV::Hist { steps, reads })
}

fn build(name: &str, g: &mut Args) -> Result<Gad, Bad> {
    let coords = g.opt("coords");
    if coords.is_some() && name != "new" {
        return Err(Bad::Input);
    }
    Ok(match name {
        "decode" => fq1!(g, |s| Ok(OV::El(ElementVar::decompress_from_field(s)?))),
        "elligator" => fq1!(g, |r| Ok(OV::El(ElementVar::encode_to_curve(&r)?))),
        "isqrt" => fq1!(g, |x| {
            let (b, y) = x.isqrt()?;
            Ok(OV::BoFq(b, y))
        }),
        "is_negative" => fq1!(g, |x| Ok(OV::Bo(x.is_negative()?))),
        "is_nonnegative" => fq1!(g, |x| Ok(OV::Bo(x.is_nonnegative()?))),
        "abs" => fq1!(g, |x| Ok(OV::Fq(x.abs()?))),
        "encode" => el1!(g, |a| Ok(OV::Fq(a.compress_to_field()?))),
        "add" => el2!(g, |a, b| Ok(OV::El(<ElementVar as Add<ElementVar>>::add(a, b)))),
        "add.ref" => el2!(g, |a, b| Ok(OV::El(<ElementVar as Add<&ElementVar>>::add(a, &b)))),
        "add.const" => el1c!(g, |a, b| Ok(OV::El(<ElementVar as Add<Element>>::add(a, b)))),
        "add_assign" => el2!(g, |a, b| {
            <ElementVar as AddAssign<ElementVar>>::add_assign(&mut a, b);
            Ok(OV::El(a))
        }),
        "add_assign.ref" => el2!(g, |a, b| {
            <ElementVar as AddAssign<&ElementVar>>::add_assign(&mut a, &b);
            Ok(OV::El(a))
        }),
        "add_assign.const" => el1c!(g, |a, b| {
            <ElementVar as AddAssign<Element>>::add_assign(&mut a, b);
            Ok(OV::El(a))
        }),
        "sub" => el2!(g, |a, b| Ok(OV::El(<ElementVar as Sub<ElementVar>>::sub(a, b)))),
        "sub.ref" => el2!(g, |a, b| Ok(OV::El(<ElementVar as Sub<&ElementVar>>::sub(a, &b)))),
        "sub.const" => el1c!(g, |a, b| Ok(OV::El(<ElementVar as Sub<Element>>::sub(a, b)))),
        "sub_assign" => el2!(g, |a, b| {
            <ElementVar as SubAssign<ElementVar>>::sub_assign(&mut a, b);
            Ok(OV::El(a))
        }),
        "sub_assign.ref" => el2!(g, |a, b| {
            <ElementVar as SubAssign<&ElementVar>>::sub_assign(&mut a, &b);
            Ok(OV::El(a))
        }),
        "sub_assign.const" => el1c!(g, |a, b| {
            <ElementVar as SubAssign<Element>>::sub_assign(&mut a, b);
            Ok(OV::El(a))
        }),
        "neg" => el1!(g, |a| Ok(OV::El(<ElementVar as CurveVar<Element, Fq>>::negate(&a)?))),
        "double" => el1!(g, |a| Ok(OV::El(<ElementVar as CurveVar<Element, Fq>>::double(&a)?))),
        "double_in_place" => el1!(g, |a| {
            <ElementVar as CurveVar<Element, Fq>>::double_in_place(&mut a)?;
            Ok(OV::El(a))
        }),
        "enforce_prime_order" => el1!(g, |a| {
            <ElementVar as CurveVar<Element, Fq>>::enforce_prime_order(&a)?;
            Ok(OV::Unit)
        }),
        "to_bits" => el1!(g, |a| Ok(OV::Bits(a.to_bits_le()?))),
        "to_bytes" => el1!(g, |a| Ok(OV::Bytes(a.to_bytes()?))),
        "scalar_mul" => {
            let mode = parse_mode(g.next()?)?;
            let e = g.el()?;
            let l = g.limbs()?;
            Box::new(move |cs: Cs, h: &Hints| -> SR<OV> {
                let a = al_el(&cs, e, mode)?;
                let mut bits = vec![];
                for limb in l.iter() {
                    for i in 0..64 {
                        bits.push(al_bo(&cs, (limb >> i) & 1 == 1, mode)?);
                    }
                }
                h.arm();
                Ok(OV::El(<ElementVar as CurveVar<Element, Fq>>::scalar_mul_le(&a, bits.iter())?))
            })
        }
        "is_eq" => el2!(g, |a, b| Ok(OV::Bo(a.is_eq(&b)?))),
        "enforce_equal" => el2!(g, |a, b| {
            a.enforce_equal(&b)?;
            Ok(OV::Unit)
        }),
        "enforce_not_equal" => el2!(g, |a, b| {
            a.enforce_not_equal(&b)?;
            Ok(OV::Unit)
        }),
        "is_eq.mixed" => el2m!(g, |a, b| Ok(OV::Bo(a.is_eq(&b)?))),
        "is_neq.mixed" => el2m!(g, |a, b| Ok(OV::Bo(a.is_neq(&b)?))),
        "enforce_equal.mixed" => el2m!(g, |a, b| {
            a.enforce_equal(&b)?;
            Ok(OV::Unit)
        }),
        "enforce_not_equal.mixed" => el2m!(g, |a, b| {
            a.enforce_not_equal(&b)?;
            Ok(OV::Unit)
        }),
        "cond_enforce_equal.mixed" => el2m!(g, |a, b| {
            a.conditional_enforce_equal(&b, &Boolean::TRUE)?;
            Ok(OV::Unit)
        }),
        "cond_enforce_not_equal.mixed" => el2m!(g, |a, b| {
            a.conditional_enforce_not_equal(&b, &Boolean::TRUE)?;
            Ok(OV::Unit)
        }),
        "cond_enforce_equal" | "cond_enforce_not_equal" | "select" => {
            let mode = parse_mode(g.next()?)?;
            let c = g.boolean()?;
            let ea = g.el()?;
            let eb = g.el()?;
            let which = name.to_string();
            Box::new(move |cs: Cs, h: &Hints| -> SR<OV> {
                let c = al_bo(&cs, c, mode)?;
                let a = al_el(&cs, ea, mode)?;
                let b = al_el(&cs, eb, mode)?;
                h.arm();
                match which.as_str() {
                    "select" => Ok(OV::El(ElementVar::conditionally_select(&c, &a, &b)?)),
                    "cond_enforce_equal" => {
                        a.conditional_enforce_equal(&b, &c)?;
                        Ok(OV::Unit)
                    }
                    _ => {
                        a.conditional_enforce_not_equal(&b, &c)?;
                        Ok(OV::Unit)
                    }
                }
            })
        }
        "new" => {
            let mode = parse_mode(g.next()?)?;
            let e = g.el()?;
            // coords=X,Y: witness the affine coordinates (X,Y) while the encoding
            // hint stays the (out of circuit) encoding of E, unless enc= is given too.
            let alt = match coords {
                None => None,
                Some(c) => {
                    let a = parse_af(c, &[])?;
                    Some((af_to_el(&a), e.vartime_compress_to_field()))
                }
            };
            Box::new(move |cs: Cs, h: &Hints| -> SR<OV> {
                let mut hh = Hints { isqrt: h.isqrt.clone(), enc: h.enc.clone() };
                let mut e = e;
                if let Some((e2, s)) = alt {
                    e = e2;
                    if hh.enc.is_empty() {
                        hh.enc.push(Some(s));
                    }
                }
                hh.arm();
                Ok(OV::ElEnc(al_el(&cs, e, mode)?))
            })
        }
        "new_omit" => {
            let mode = parse_mode(g.next()?)?;
            let e = g.el()?;
            Box::new(move |cs: Cs, h: &Hints| -> SR<OV> {
                h.arm();
                Ok(OV::ElEnc(<ElementVar as CurveVar<Element, Fq>>::new_variable_omit_prime_order_check(cs.clone(), || Ok(e), mode)?))
            })
        }
        "new_affine" => {
            let mode = parse_mode(g.next()?)?;
            let a = g.af()?;
            Box::new(move |cs: Cs, h: &Hints| -> SR<OV> {
                h.arm();
                Ok(OV::ElEnc(<ElementVar as AllocVar<AffinePoint, Fq>>::new_variable(cs.clone(), || Ok(a), mode)?))
            })
        }
        "new_fq" => {
            let mode = parse_mode(g.next()?)?;
            let s = g.f::<Fq>()?;
            Box::new(move |cs: Cs, h: &Hints| -> SR<OV> {
                h.arm();
                Ok(OV::ElEnc(<ElementVar as AllocVar<Fq, Fq>>::new_variable(cs.clone(), || Ok(s), mode)?))
            })
        }
        "zero" => Box::new(move |_cs: Cs, _h: &Hints| -> SR<OV> { Ok(OV::El(<ElementVar as CurveVar<Element, Fq>>::zero())) }),
        "constant" => {
            let e = g.el()?;
            Box::new(move |_cs: Cs, _h: &Hints| -> SR<OV> { Ok(OV::El(<ElementVar as CurveVar<Element, Fq>>::constant(e))) })
        }
        "lazy" => {
            let mode = parse_mode(g.next()?)?;
            let e = g.el()?;
            let ops = g.next().unwrap_or("").to_string();
            if !ops.chars().all(|c| c == 'e' || c == 'c') {
                return Err(Bad::Input);
            }
            Box::new(move |cs: Cs, h: &Hints| -> SR<OV> {
                h.arm();
                let v = al_el(&cs, e, mode)?;
                lazy_steps(&cs, v, &ops)
            })
        }
        "lazy.enc" => {
            let mode = parse_mode(g.next()?)?;
            let s = g.f::<Fq>()?;
            let ops = g.next().unwrap_or("").to_string();
            if !ops.chars().all(|c| c == 'e' || c == 'c') {
                return Err(Bad::Input);
            }
            Box::new(move |cs: Cs, h: &Hints| -> SR<OV> {
                h.arm();
                let v = <ElementVar as AllocVar<Fq, Fq>>::new_variable(cs.clone(), || Ok(s), mode)?;
                lazy_steps(&cs, v, &ops)
            })
        }
        "hist" => {
            let mode = parse_mode(g.next()?)?;
            let e = g.el()?;
            let eb = g.el()?;
            let ops = g.next().unwrap_or("").to_string();
            if !ops.chars().all(|c| HIST_OPS.contains(c)) {
                return Err(Bad::Input);
            }
            Box::new(move |cs: Cs, h: &Hints| -> SR<OV> {
                h.arm();
                let v = al_el(&cs, e, mode)?;
                let w = al_el(&cs, eb, mode)?;
                hist_steps(&cs, v, w, eb, &ops)
            })
        }
        "hist.enc" => {
            let mode = parse_mode(g.next()?)?;
            let s = g.f::<Fq>()?;
            let eb = g.el()?;
            let ops = g.next().unwrap_or("").to_string();
            if !ops.chars().all(|c| HIST_OPS.contains(c)) {
                return Err(Bad::Input);
            }
            Box::new(move |cs: Cs, h: &Hints| -> SR<OV> {
                h.arm();
                let v = <ElementVar as AllocVar<Fq, Fq>>::new_variable(cs.clone(), || Ok(s), mode)?;
                let w = al_el(&cs, eb, mode)?;
                hist_steps(&cs, v, w, eb, &ops)
            })
        }
        _ => return Err(Bad::Unsupported),
    })
}

// ---------------------------------------------------------------- value extraction

fn quiet<T>(f: impl FnOnce() -> T) -> Option<T> {
    catch_unwind(AssertUnwindSafe(f)).ok()
}

fn val_el(v: &ElementVar) -> String {
    match quiet(|| v.value()) {
        None => "PANIC".to_string(),
        Some(Err(_)) => "ERR".to_string(),
        Some(Ok(e)) => {
            let (x, y, z, _) = e.verif_coords();
            if z == Fq::ONE { format!("{},{}", fs(&x), fs(&y)) } else { els(&e) }
        }
    }
}

fn bits_to_fq(bits: &[Boolean<Fq>]) -> Option<Fq> {
    let mut bytes = vec![0u8; 32];
    for (i, b) in bits.iter().enumerate() {
        if b.value().ok()? {
            bytes[i / 8] |= 1 << (i % 8);
        }
    }
    Some(Fq::from_le_bytes_mod_order(&bytes))
}

/// Raw affine coordinates of the variable, through `to_bits_le` (x bits then y bits).
fn raw_el(v: &ElementVar) -> String {
    let n = <Fq as PrimeField>::MODULUS_BIT_SIZE as usize;
    match quiet(|| v.to_bits_le()) {
        Some(Ok(bits)) if bits.len() == 2 * n => match (bits_to_fq(&bits[..n]), bits_to_fq(&bits[n..])) {
            (Some(x), Some(y)) => format!("{},{}", fs(&x), fs(&y)),
            _ => "ERR".to_string(),
        },
        _ => "ERR".to_string(),
    }
}

fn val_fq(v: &FqVar) -> String {
    match quiet(|| v.value()) {
        Some(Ok(x)) => fs(&x),
        Some(Err(_)) => "ERR".to_string(),
        None => "PANIC".to_string(),
    }
}

fn val_bo(v: &Boolean<Fq>) -> String {
    match quiet(|| v.value()) {
        Some(Ok(x)) => (x as u8).to_string(),
        Some(Err(_)) => "ERR".to_string(),
        None => "PANIC".to_string(),
    }
}

fn val_enc(v: &ElementVar) -> String {
    match quiet(|| v.compress_to_field()) {
        Some(Ok(s)) => val_fq(&s),
        Some(Err(e)) => format!("ERR:{:?}", e),
        None => "PANIC".to_string(),
    }
}

fn render(ov: &OV, keyed: bool) -> String {
    let k = |s: &str| if keyed { s.to_string() } else { String::new() };
    match ov {
        OV::Unit => String::new(),
        OV::El(v) => {
            if keyed {
                format!("val={} raw={}", val_el(v), raw_el(v))
            } else {
                val_el(v)
            }
        }
        OV::ElEnc(v) => format!("val={} raw={} enc={}", val_el(v), raw_el(v), val_enc(v)),
        OV::Fq(v) => format!("{}{}", k("val="), val_fq(v)),
        OV::Bo(v) => format!("{}{}", k("val="), val_bo(v)),
        OV::BoFq(b, y) => format!("{}{},{}", k("val="), val_bo(b), val_fq(y)),
        OV::Bits(bits) => {
            let mut bytes = vec![0u8; (bits.len() + 7) / 8];
            let mut ok = true;
            for (i, b) in bits.iter().enumerate() {
                match b.value() {
                    Ok(true) => bytes[i / 8] |= 1 << (i % 8),
                    Ok(false) => {}
                    Err(_) => ok = false,
                }
            }
            format!("nbits={} {}{}", bits.len(), k("val="), if ok { bys(&bytes) } else { "ERR".to_string() })
        }
        OV::Bytes(v) => {
            let bytes: Option<Vec<u8>> = v.iter().map(|b| b.value().ok()).collect();
            format!("{}{}", k("val="), bytes.map(|b| bys(&b)).unwrap_or("ERR".to_string()))
        }
        OV::Hist { steps, reads } => format!(
            "steps={} reads={}",
            steps.iter().map(|s| s.to_string()).collect::<Vec<_>>().join(","),
            if reads.is_empty() { "-".to_string() } else { reads.join(";") }
        ),
        OV::Lazy { steps, vals } => format!(
            "steps={} vals={}",
            steps.iter().map(|s| s.to_string()).collect::<Vec<_>>().join(","),
            if vals.is_empty() { "-".to_string() } else { vals.iter().map(|v| render(v, false)).collect::<Vec<_>>().join(";") }
        ),
    }
}

/// Canonical single-line dump of `to_matrices()`:
/// `ninst=<n>;nwit=<n>;ncons=<n>;A=[row|row|...];B=[...];C=[...]`, row = `coeff:idx,coeff:idx,...`
/// (coeff = canonical hex, idx decimal; instance variables first, then witnesses).
fn dump(mx: &ConstraintMatrices<Fq>) -> String {
    let mat = |m: &Vec<Vec<(Fq, usize)>>| {
        m.iter()
            .map(|row| row.iter().map(|(c, i)| format!("{}:{}", fs(c), i)).collect::<Vec<_>>().join(","))
            .collect::<Vec<_>>()
            .join("|")
    };
    format!(
        "ninst={};nwit={};ncons={};A=[{}];B=[{}];C=[{}]",
        mx.num_instance_variables,
        mx.num_witness_variables,
        mx.num_constraints,
        mat(&mx.a),
        mat(&mx.b),
        mat(&mx.c)
    )
}

/// `Some(None)` = satisfied, `Some(Some(i))` = constraint `i` is the first violated one.
fn check_sat(cs: &Cs) -> Option<Option<usize>> {
    let mx = cs.to_matrices()?;
    let z: Vec<Fq> = {
        let b = cs.borrow()?;
        b.instance_assignment.iter().chain(b.witness_assignment.iter()).cloned().collect()
    };
    let ev = |row: &Vec<(Fq, usize)>| -> Option<Fq> {
        let mut acc = Fq::ZERO;
        for (c, i) in row {
            acc += *c * *z.get(*i)?;
        }
        Some(acc)
    };
    for i in 0..mx.num_constraints {
        if ev(&mx.a[i])? * ev(&mx.b[i])? != ev(&mx.c[i])? {
            return Some(Some(i));
        }
    }
    Some(None)
}

/// The "non-unique bits" forgery.  Inputs (instance variables and the witnesses allocated before the gadget ran) stay fixed.  For every
/// window of 253 consecutive boolean witnesses allocated by the gadget that reads (most or least significant bit first) as an integer n < p with n + p < 2^253, the window is overwritten with the bits of n + p; later witnesses are
/// re-solved constraint by constraint (a violated constraint whose highest later witness occurs in exactly one of its three rows is
/// repaired by solving for that witness: this recomputes dependent selects, products and the observation witnesses).  If the forged
/// assignment satisfies every constraint although the honest one did not, or with different observed outputs, the gadget is unsound.
/// Output: `nforge=<windows tried> unsound=<0|1> [at=<witness index> honest=<obs;...> forged=<obs;...>]`.
fn forge(cs: &Cs, obs: &[usize], honest_sat: bool) -> String {
    let mx = match cs.to_matrices() {
        Some(m) => m,
        None => return "nforge=0 unsound=0".to_string(),
    };
    let z0: Vec<Fq> = {
        let b = cs.borrow().unwrap();
        b.instance_assignment.iter().chain(b.witness_assignment.iter()).cloned().collect()
    };
    let ninst = mx.num_instance_variables;
    let w0 = W0.with(|w| w.get());
    let isb = |v: &Fq| *v == Fq::ZERO || *v == Fq::ONE;
    let nw = z0.len() - ninst;
    let mut cands = vec![];
    let mut i = w0;
    while i < nw {
        if isb(&z0[ninst + i]) {
            let mut j = i;
            while j < nw && isb(&z0[ninst + j]) {
                j += 1;
            }
            let mut k = i;
            while k + 253 <= j {
                cands.push(k);
                k += 253;
            }
            i = j;
        } else {
            i += 1;
        }
    }
    let ev = |row: &Vec<(Fq, usize)>, z: &Vec<Fq>| -> Fq {
        let mut acc = Fq::ZERO;
        for (c, i) in row {
            acc += *c * z[*i];
        }
        acc
    };
    let p = num_bigint::BigUint::from_bytes_le(&{
        use ark_ff::BigInteger;
        <Fq as PrimeField>::MODULUS.to_bytes_le()
    });
    let two253 = num_bigint::BigUint::from(1u8) << 253;
    let honest_obs: Vec<String> = obs.iter().map(|o| fs(&z0[ninst + *o])).collect();
    let mut tried = 0;
    let mut dbg = String::new();
    let cands2: Vec<(usize, bool)> = cands.iter().flat_map(|k| [(*k, true), (*k, false)]).collect();
    for (k, be) in cands2 {
        // position of bit t (t = 0: most significant) inside the window, for both allocation orders
        let pos = |t: usize| if be { k + t } else { k + 252 - t };
        let mut n = num_bigint::BigUint::from(0u8);
        for t in 0..253 {
            n = (n << 1) + num_bigint::BigUint::from(if z0[ninst + pos(t)] == Fq::ONE { 1u8 } else { 0u8 });
        }
        if std::env::var("FORGE_DEBUG").is_ok() { dbg.push_str(&format!("[k={} be={} n={:x}]", k, be, n)); }
        if n >= p {
            continue;
        }
        let m = &n + &p;
        if m >= two253 {
            continue;
        }
        tried += 1;
        let mut z = z0.clone();
        for t in 0..253 {
            z[ninst + pos(t)] = if m.bit((252 - t) as u64) { Fq::ONE } else { Fq::ZERO };
        }
        let first_free = ninst + k + 253;
        for _pass in 0..4 {
            let mut changed = false;
            for ci in 0..mx.num_constraints {
                let (a, b, c) = (ev(&mx.a[ci], &z), ev(&mx.b[ci], &z), ev(&mx.c[ci], &z));
                if a * b == c {
                    continue;
                }
                // the highest later witness of this constraint
                let mut best: Option<usize> = None;
                for row in [&mx.a[ci], &mx.b[ci], &mx.c[ci]] {
                    for (_, v) in row.iter() {
                        if *v >= first_free && best.map_or(true, |bv| *v > bv) {
                            best = Some(*v);
                        }
                    }
                }
                let v = match best {
                    Some(v) => v,
                    None => continue,
                };
                let coef = |row: &Vec<(Fq, usize)>| -> Fq { row.iter().filter(|(_, i)| *i == v).map(|(c, _)| *c).sum() };
                let (ca, cb, cc) = (coef(&mx.a[ci]), coef(&mx.b[ci]), coef(&mx.c[ci]));
                let nz = [ca, cb, cc].iter().filter(|x| **x != Fq::ZERO).count();
                if nz != 1 {
                    continue;
                }
                use ark_ff::Field;
                if cc != Fq::ZERO {
                    z[v] += (a * b - c) * cc.inverse().unwrap();
                    changed = true;
                } else if ca != Fq::ZERO && b != Fq::ZERO {
                    z[v] += (c * b.inverse().unwrap() - a) * ca.inverse().unwrap();
                    changed = true;
                } else if cb != Fq::ZERO && a != Fq::ZERO {
                    z[v] += (c * a.inverse().unwrap() - b) * cb.inverse().unwrap();
                    changed = true;
                }
            }
            if !changed {
                break;
            }
        }
        let sat = (0..mx.num_constraints).all(|ci| ev(&mx.a[ci], &z) * ev(&mx.b[ci], &z) == ev(&mx.c[ci], &z));
        if sat {
            let forged_obs: Vec<String> = obs.iter().map(|o| fs(&z[ninst + *o])).collect();
            if !honest_sat || forged_obs != honest_obs {
                return format!(
                    "nforge={} unsound=1 at={} honest={} forged={}",
                    tried,
                    k,
                    if honest_obs.is_empty() { "-".to_string() } else { honest_obs.join(";") },
                    if forged_obs.is_empty() { "-".to_string() } else { forged_obs.join(";") }
                );
            }
        }
    }
    format!("nforge={} unsound=0{}", tried, dbg)
}

#[derive(Clone, Copy, PartialEq)]
enum How {
    Vals,
    Shape,
    /// like Shape, but synthesised in `SynthesisMode::Setup` (no assignments available), as key generation does
    ShapeSetup,
    Dump,
    /// after the honest synthesis, try the "non-unique bit decomposition" forgery on every run of 253 boolean witnesses the gadget allocated
    Forge,
}

fn run(name: &str, g: &mut Args, how: How) -> R {
    let hints = parse_hints(g)?;
    let gad = build(name, g)?;
    g.done()?;
    let cs = ConstraintSystem::<Fq>::new_ref();
    if how == How::ShapeSetup {
        cs.set_mode(ark_relations::r1cs::SynthesisMode::Setup);
    }
    CUR_CS.with(|c| *c.borrow_mut() = Some(cs.clone()));
    W0.with(|w| w.set(0));
    let res = {
        let _guard = Guard;
        gad(cs.clone(), &hints)
    };
    CUR_CS.with(|c| *c.borrow_mut() = None);
    // Forge: make field / boolean outputs observable as witnesses  o_k  with the constraint  out_k = o_k
    let mut obs: Vec<usize> = vec![];
    if how == How::Forge {
        if let Ok(ov) = &res {
            let comps: Vec<FqVar> = match ov {
                OV::Fq(x) => vec![x.clone()],
                OV::Bo(b) => vec![FqVar::from(b.clone())],
                OV::BoFq(b, y) => vec![FqVar::from(b.clone()), y.clone()],
                _ => vec![],
            };
            for c in comps {
                let idx = cs.num_witness_variables();
                if let Ok(o) = FqVar::new_witness(cs.clone(), || c.value()) {
                    if c.enforce_equal(&o).is_ok() {
                        obs.push(idx);
                    }
                }
            }
        }
    }
    cs.finalize();
    // Same verdict as `cs.is_satisfied()`, computed from the matrices so that nothing is
    // written to stderr (ark-relations prints a trace hint for every unsatisfied system).
    let (sat, first_unsat) = match check_sat(&cs) {
        Some(None) => ("1", None),
        Some(Some(i)) => ("0", Some(i)),
        None => ("ERR", None),
    };
    let mut out = format!(
        "sat={} ncons={} ninst={} nwit={}",
        sat,
        cs.num_constraints(),
        cs.num_instance_variables(),
        cs.num_witness_variables()
    );
    if let Err(e) = &res {
        out.push_str(&format!(" err={:?}", e));
    }
    let tail = first_unsat.map(|i| format!(" first_unsat={}", i)).unwrap_or_default();
    match how {
        How::Vals => {
            if let Ok(ov) = &res {
                let s = render(ov, true);
                if !s.is_empty() {
                    out.push(' ');
                    out.push_str(&s);
                }
            }
        }
        How::Forge => {
            out.push(' ');
            out.push_str(&forge(&cs, &obs, sat == "1"));
        }
        How::Shape | How::ShapeSetup | How::Dump => {
            let d = cs.to_matrices().map(|m| dump(&m));
            match (how, d) {
                (_, None) => out.push_str(" sha=NONE"),
                (How::Shape | How::ShapeSetup, Some(d)) => out.push_str(&format!(" sha={}", sha256_hex(d.as_bytes()))),
                (_, Some(d)) => out.push_str(&format!(" dump={}", d)),
            }
        }
    }
    out.push_str(&tail);
    rs(out)
}

pub fn reg(m: &mut Map) {
    for n in GADGETS {
        op!(m, format!("r1.{}", n), |g| run(n, g, How::Vals));
    }
    op!(m, "r1.shape", |g| {
        let n = g.next()?.to_string();
        run(&n, g, How::Shape)
    });
    op!(m, "r1.shape.setup", |g| {
        let n = g.next()?.to_string();
        run(&n, g, How::ShapeSetup)
    });
    op!(m, "r1.forge", |g| {
        let n = g.next()?.to_string();
        run(&n, g, How::Forge)
    });
    op!(m, "r1.dump", |g| {
        let n = g.next()?.to_string();
        run(&n, g, How::Dump)
    });
}
