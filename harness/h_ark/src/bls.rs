//! Pairing ops: `decaf377::Bls12_377` (ours) against `ark_bls12_377::Bls12_377` (reference).
//! The BLS12-377 scalar field is `decaf377::Fq` (ours) / `ark_bls12_377::Fr` (reference);
//! scalars are converted through their canonical little-endian bytes.

use ark_ec::pairing::Pairing;
use ark_ec::{AffineRepr, CurveGroup, Group};
use ark_ff::PrimeField;
use ark_serialize::{CanonicalDeserialize, CanonicalSerialize};
use decaf377::Fq;

use crate::util::*;

type OE = decaf377::Bls12_377;
type RE = ark_bls12_377::Bls12_377;
type OG1 = <OE as Pairing>::G1;
type OG2 = <OE as Pairing>::G2;
type RG1 = <RE as Pairing>::G1;
type RG2 = <RE as Pairing>::G2;

fn rfr(x: &Fq) -> ark_bls12_377::Fr {
    ark_bls12_377::Fr::from_le_bytes_mod_order(&x.to_bytes_le())
}

fn ser<T: CanonicalSerialize>(t: &T) -> Vec<u8> {
    let mut v = Vec::new();
    t.serialize_compressed(&mut v).expect("serialize to vec");
    v
}

fn both(a: Vec<u8>, b: Vec<u8>, hash: bool) -> String {
    if hash {
        format!("ours={} ref={}", sha256_hex(&a), sha256_hex(&b))
    } else {
        format!("ours={} ref={}", bys(&a), bys(&b))
    }
}

fn rt<A: CanonicalSerialize + CanonicalDeserialize>(b: &[u8]) -> String {
    match A::deserialize_compressed(b) {
        Ok(p) => format!("OK:{}", bys(&ser(&p))),
        Err(e) => format!("ERR:Ser:{}", serr(&e)),
    }
}

pub fn reg(m: &mut Map) {
    opx!(m, "bls.g1.gen", (), rs, both(ser(&OG1::generator().into_affine()), ser(&RG1::generator().into_affine()), false));
    opx!(m, "bls.g2.gen", (), rs, both(ser(&OG2::generator().into_affine()), ser(&RG2::generator().into_affine()), false));
    opx!(m, "bls.g1.mul", (x: fq), rs, both(ser(&(OG1::generator() * x).into_affine()), ser(&(RG1::generator() * rfr(&x)).into_affine()), false));
    opx!(m, "bls.g2.mul", (x: fq), rs, both(ser(&(OG2::generator() * x).into_affine()), ser(&(RG2::generator() * rfr(&x)).into_affine()), false));
    opx!(m, "bls.pair", (a: fq, b: fq), rs, {
        let o = OE::pairing(OG1::generator() * a, OG2::generator() * b);
        let r = RE::pairing(RG1::generator() * rfr(&a), RG2::generator() * rfr(&b));
        both(ser(&o), ser(&r), true)
    });
    // full serialisation of GT (1152 hex digits per engine) instead of its hash
    opx!(m, "bls.pair.raw", (a: fq, b: fq), rs, {
        let o = OE::pairing(OG1::generator() * a, OG2::generator() * b);
        let r = RE::pairing(RG1::generator() * rfr(&a), RG2::generator() * rfr(&b));
        both(ser(&o), ser(&r), false)
    });
    // cofactor maps of both groups (COFACTOR, COFACTOR_INV of the curve configurations) and subgroup membership.  `clear_cofactor` is NOT
    // compared: the reference overrides it with the effective cofactor (x - 1), the crate keeps the default (multiplication by the full cofactor);
    // both clear the cofactor, the images differ by a unit multiple (bls.g?.clear_cofactor shows both), and C16 does not list it
    opx!(m, "bls.g1.cofactor", (x: fq), rs, {
        let o = (OG1::generator() * x).into_affine(); let r = (RG1::generator() * rfr(&x)).into_affine();
        let mut ov = ser(&o.mul_by_cofactor()); ov.extend(ser(&o.mul_by_cofactor_inv())); ov.push(o.is_in_correct_subgroup_assuming_on_curve() as u8);
        let mut rv = ser(&r.mul_by_cofactor()); rv.extend(ser(&r.mul_by_cofactor_inv())); rv.push(r.is_in_correct_subgroup_assuming_on_curve() as u8);
        both(ov, rv, true)
    });
    opx!(m, "bls.g2.cofactor", (x: fq), rs, {
        let o = (OG2::generator() * x).into_affine(); let r = (RG2::generator() * rfr(&x)).into_affine();
        let mut ov = ser(&o.mul_by_cofactor()); ov.extend(ser(&o.mul_by_cofactor_inv())); ov.push(o.is_in_correct_subgroup_assuming_on_curve() as u8);
        let mut rv = ser(&r.mul_by_cofactor()); rv.extend(ser(&r.mul_by_cofactor_inv())); rv.push(r.is_in_correct_subgroup_assuming_on_curve() as u8);
        both(ov, rv, true)
    });
    opx!(m, "bls.g1.mul_by_cofactor", (x: fq), rs, {
        let o = (OG1::generator() * x).into_affine(); let r = (RG1::generator() * rfr(&x)).into_affine();
        both(ser(&o.mul_by_cofactor()), ser(&r.mul_by_cofactor()), true)
    });
    opx!(m, "bls.g1.mul_by_cofactor_inv", (x: fq), rs, {
        let o = (OG1::generator() * x).into_affine(); let r = (RG1::generator() * rfr(&x)).into_affine();
        both(ser(&o.mul_by_cofactor_inv()), ser(&r.mul_by_cofactor_inv()), true)
    });
    opx!(m, "bls.g1.clear_cofactor", (x: fq), rs, {
        let o = (OG1::generator() * x).into_affine(); let r = (RG1::generator() * rfr(&x)).into_affine();
        both(ser(&o.clear_cofactor()), ser(&r.clear_cofactor()), true)
    });
    opx!(m, "bls.g1.in_subgroup", (x: fq), rs, {
        let o = (OG1::generator() * x).into_affine(); let r = (RG1::generator() * rfr(&x)).into_affine();
        both(vec![o.is_in_correct_subgroup_assuming_on_curve() as u8], vec![r.is_in_correct_subgroup_assuming_on_curve() as u8], true)
    });
    opx!(m, "bls.g2.mul_by_cofactor", (x: fq), rs, {
        let o = (OG2::generator() * x).into_affine(); let r = (RG2::generator() * rfr(&x)).into_affine();
        both(ser(&o.mul_by_cofactor()), ser(&r.mul_by_cofactor()), true)
    });
    opx!(m, "bls.g2.mul_by_cofactor_inv", (x: fq), rs, {
        let o = (OG2::generator() * x).into_affine(); let r = (RG2::generator() * rfr(&x)).into_affine();
        both(ser(&o.mul_by_cofactor_inv()), ser(&r.mul_by_cofactor_inv()), true)
    });
    opx!(m, "bls.g2.clear_cofactor", (x: fq), rs, {
        let o = (OG2::generator() * x).into_affine(); let r = (RG2::generator() * rfr(&x)).into_affine();
        both(ser(&o.clear_cofactor()), ser(&r.clear_cofactor()), true)
    });
    opx!(m, "bls.g2.in_subgroup", (x: fq), rs, {
        let o = (OG2::generator() * x).into_affine(); let r = (RG2::generator() * rfr(&x)).into_affine();
        both(vec![o.is_in_correct_subgroup_assuming_on_curve() as u8], vec![r.is_in_correct_subgroup_assuming_on_curve() as u8], true)
    });
    // the target field used AS A FIELD (tower configuration: Frobenius coefficients, non-residues): both engines on e(aG1, bG2)
    opx!(m, "bls.gt.frobenius", (k: u128, a: fq, b: fq), rs, {
        use ark_ff::Field;
        let o = OE::pairing(OG1::generator() * a, OG2::generator() * b).0.frobenius_map(k as usize);
        let r = RE::pairing(RG1::generator() * rfr(&a), RG2::generator() * rfr(&b)).0.frobenius_map(k as usize);
        both(ser(&o), ser(&r), true)
    });
    opx!(m, "bls.gt.field_ops", (a: fq, b: fq, c: fq), rs, {
        use ark_ff::Field;
        let o1 = OE::pairing(OG1::generator() * a, OG2::generator() * b).0;
        let o2 = OE::pairing(OG1::generator() * c, OG2::generator()).0;
        let r1 = RE::pairing(RG1::generator() * rfr(&a), RG2::generator() * rfr(&b)).0;
        let r2 = RE::pairing(RG1::generator() * rfr(&c), RG2::generator()).0;
        // sum, product, inverse of the sum, square, and the coordinates' own Frobenius (Fq6 / Fq2 level)
        let mut ov = ser(&(o1 + o2)); ov.extend(ser(&(o1 * o2))); ov.extend(ser(&(o1 + o2).inverse().unwrap_or(o1))); ov.extend(ser(&(o1 + o2).square()));
        let mut rv = ser(&(r1 + r2)); rv.extend(ser(&(r1 * r2))); rv.extend(ser(&(r1 + r2).inverse().unwrap_or(r1))); rv.extend(ser(&(r1 + r2).square()));
        for k in 0..7usize {
            ov.extend(ser(&(o1 + o2).c0.frobenius_map(k))); ov.extend(ser(&(o1 + o2).c1.c2.frobenius_map(k)));
            rv.extend(ser(&(r1 + r2).c0.frobenius_map(k))); rv.extend(ser(&(r1 + r2).c1.c2.frobenius_map(k)));
        }
        both(ov, rv, true)
    });
    // pairing of arbitrary (compressed, validated) points
    opx!(m, "bls.pair.bytes", (p: by, q: by), rs, {
        let o = match (<OE as Pairing>::G1Affine::deserialize_compressed(&p[..]), <OE as Pairing>::G2Affine::deserialize_compressed(&q[..])) {
            (Ok(p), Ok(q)) => sha256_hex(&ser(&OE::pairing(p, q))),
            _ => "ERR".to_string(),
        };
        let r = match (<RE as Pairing>::G1Affine::deserialize_compressed(&p[..]), <RE as Pairing>::G2Affine::deserialize_compressed(&q[..])) {
            (Ok(p), Ok(q)) => sha256_hex(&ser(&RE::pairing(p, q))),
            _ => "ERR".to_string(),
        };
        format!("ours={} ref={}", o, r)
    });
    opx!(m, "bls.g1.roundtrip", (b: by), rs, format!("ours={} ref={}", rt::<<OE as Pairing>::G1Affine>(&b), rt::<<RE as Pairing>::G1Affine>(&b)));
    opx!(m, "bls.g2.roundtrip", (b: by), rs, format!("ours={} ref={}", rt::<<OE as Pairing>::G2Affine>(&b), rt::<<RE as Pairing>::G2Affine>(&b)));
    opx!(m, "bls.g1.zero", (), rs, both(ser(&<OE as Pairing>::G1Affine::zero()), ser(&<RE as Pairing>::G1Affine::zero()), false));
}
