//! Groth16 with the repository's PINNED keys (tests/test_vectors/*): the seven circuits of tests/groth16_gadgets.rs are
//! taken verbatim from that file (`include!`, so a change of a circuit there is picked up), proved with the pinned proving
//! key and verified with the pinned verifying key.
//!
//! `g16.<circuit> <witness args> [pub=<F>[;<F>]]` -> `proved=<0|1> verified=<0|1|ERR> ninst=<n>`
//!   verification uses the honest public input unless `pub=` overrides it (one field element per instance variable).
#![allow(dead_code, unused_imports, non_snake_case)]

include!("/repo/tests/groth16_gadgets.rs");

use crate::util::{Args, Bad, Map, Ret, St, R};

fn run_g16<C: ConstraintSynthesizer<Fq>>(
    pk: &ProvingKey<Bls12_377>,
    vk: &VerifyingKey<Bls12_377>,
    circuit: C,
    honest_inputs: Vec<Fq>,
    over: Option<Vec<Fq>>,
) -> R {
    let mut rng = OsRng;
    let proof = std::panic::catch_unwind(std::panic::AssertUnwindSafe(|| {
        Groth16::<Bls12_377, LibsnarkReduction>::prove(pk, circuit, &mut rng)
    }));
    let proof = match proof {
        Ok(Ok(p)) => p,
        Ok(Err(e)) => return crate::util::rs(format!("proved=0 err={}", format!("{:?}", e).replace(' ', "_"))),
        Err(_) => return crate::util::rs("proved=0 err=PANIC".to_string()),
    };
    let pvk = Groth16::<Bls12_377, LibsnarkReduction>::process_vk(vk).map_err(|_| Bad::Input)?;
    let inputs = over.unwrap_or(honest_inputs);
    let v = match Groth16::<Bls12_377, LibsnarkReduction>::verify_with_processed_vk(&pvk, &inputs, &proof) {
        Ok(true) => "1",
        Ok(false) => "0",
        Err(_) => "ERR",
    };
    crate::util::rs(format!("proved=1 verified={} ninst={}", v, inputs.len()))
}

fn over(g: &mut Args) -> Result<Option<Vec<Fq>>, Bad> {
    match g.opt("pub") {
        None => Ok(None),
        Some(s) => Ok(Some(s.split(';').map(crate::util::parse_f::<Fq>).collect::<Result<Vec<_>, _>>()?)),
    }
}

pub fn reg(m: &mut Map) {
    op!(m, "g16.discrete_log", |g| {
        let o = over(g)?;
        let b = g.bytes()?;
        g.done()?;
        let scalar: [u8; 32] = b.try_into().map_err(|_| Bad::Input)?;
        let public = Fr::from_le_bytes_mod_order(&scalar[..]) * Element::GENERATOR;
        run_g16(&DISCRETE_LOG_PK, &DISCRETE_LOG_VK, DiscreteLogCircuit { scalar, public }, public.to_field_elements().unwrap(), o)
    });
    op!(m, "g16.compression", |g| {
        let o = over(g)?;
        let point = g.el()?;
        g.done()?;
        let field_element = point.vartime_compress_to_field();
        run_g16(&COMPRESSION_PK, &COMPRESSION_VK, CompressionCircuit { point, field_element }, field_element.to_field_elements().unwrap(), o)
    });
    op!(m, "g16.decompression", |g| {
        let o = over(g)?;
        let point = g.el()?;
        g.done()?;
        let field_element = point.vartime_compress_to_field();
        run_g16(&DECOMPRESSION_PK, &DECOMPRESSION_VK, DecompressionCircuit { point, field_element }, point.to_field_elements().unwrap(), o)
    });
    op!(m, "g16.elligator", |g| {
        let o = over(g)?;
        let field_element = g.f::<Fq>()?;
        g.done()?;
        let point = Element::encode_to_curve(&field_element);
        run_g16(&ELLIGATOR_PK, &ELLIGATOR_VK, ElligatorCircuit { field_element, point }, point.to_field_elements().unwrap(), o)
    });
    op!(m, "g16.public_element_input", |g| {
        let o = over(g)?;
        let point = g.el()?;
        g.done()?;
        run_g16(&PUBLIC_ELEMENT_INPUT_PK, &PUBLIC_ELEMENT_INPUT_VK, PublicElementInput { point }, point.to_field_elements().unwrap(), o)
    });
    op!(m, "g16.negation", |g| {
        let o = over(g)?;
        let pos = g.el()?;
        g.done()?;
        let public_neg = -pos;
        run_g16(&NEGATION_PK, &NEGATION_VK, NegationCircuit { pos, public_neg }, public_neg.to_field_elements().unwrap(), o)
    });
    op!(m, "g16.add_assign_add", |g| {
        let o = over(g)?;
        let a = g.el()?;
        let b = g.el()?;
        g.done()?;
        let c = a + b;
        let d = a - b;
        let mut inputs = c.to_field_elements().unwrap();
        inputs.extend(d.to_field_elements().unwrap());
        run_g16(&ADD_ASSIGN_ADD_PK, &ADD_ASSIGN_ADD_VK, AddAssignAddCircuit { a, b, c, d }, inputs, o)
    });
}
