//! Field ops for Fq / Fr / Fp (PROTOCOL.md "fields" + ark-only `<f>.ark.*`).

use std::cmp::Ordering;
use std::hash::Hash;
use std::iter::{Product, Sum};
use std::ops::{Add, AddAssign, Div, DivAssign, Mul, MulAssign, Neg, Sub, SubAssign};
use std::str::FromStr;

use ark_ec::short_weierstrass::SWFlags;
use ark_ec::twisted_edwards::TEFlags;
use ark_ff::{FftField, Field, LegendreSymbol, One, PrimeField, SqrtPrecomputation, UniformRand, Zero};
use ark_serialize::{
    CanonicalDeserialize, CanonicalDeserializeWithFlags, CanonicalSerialize,
    CanonicalSerializeWithFlags, Compress, EmptyFlags,
};
use decaf377::{Fp, Fq, Fr};
use subtle::{Choice, ConditionallySelectable, ConstantTimeEq};
use zeroize::Zeroize;

use crate::util::*;

/// Every binary operator form of `src/fields/<f>/ops.rs`: right operand owned (`v`), `&` (`r`), `&mut` (`m`).
macro_rules! fbin {
    ($m:ident, $p:literal, $n:literal, $Tr:ident, $me:ident, $TrA:ident, $meA:ident) => {
        opx!($m, concat!($p, ".", $n, ".v"), (a: ff, b: ff), rf, <F as $Tr<F>>::$me(a, b));
        opx!($m, concat!($p, ".", $n, ".r"), (a: ff, b: ff), rf, <F as $Tr<&F>>::$me(a, &b));
        opx!($m, concat!($p, ".", $n, ".m"), (a: ff, b: ff), rf, <F as $Tr<&mut F>>::$me(a, &mut b));
        opx!($m, concat!($p, ".", $n, "_assign.v"), (a: ff, b: ff), rf, {
            <F as $TrA<F>>::$meA(&mut a, b);
            a
        });
        opx!($m, concat!($p, ".", $n, "_assign.r"), (a: ff, b: ff), rf, {
            <F as $TrA<&F>>::$meA(&mut a, &b);
            a
        });
        opx!($m, concat!($p, ".", $n, "_assign.m"), (a: ff, b: ff), rf, {
            <F as $TrA<&mut F>>::$meA(&mut a, &mut b);
            a
        });
    };
}

macro_rules! fconst {
    ($m:ident, $p:literal, F: $($n:ident)*; L: $($l:ident)*; U: $($u:ident)*) => {
        $( opx!($m, concat!($p, ".const.", stringify!($n)), (), rf, F::$n); )*
        $( opx!($m, concat!($p, ".const.", stringify!($l)), (), rl, F::$l); )*
        $( opx!($m, concat!($p, ".const.", stringify!($u)), (), ru, F::$u); )*
    };
}

macro_rules! ser_flags {
    ($m:ident, $p:literal, $($name:literal => $flag:expr),*) => {
        $( opx!($m, concat!($p, ".ark.ser_flags.", $name), (a: ff), rs, {
            let mut v = Vec::new();
            match a.serialize_with_flags(&mut v, $flag) {
                Ok(()) => bys(&v),
                Err(e) => format!("ERR Ser:{}", serr(&e)),
            }
        }); )*
    };
}

macro_rules! deser_flags {
    ($m:ident, $p:literal, $($name:literal => $Fl:ty),*) => {
        $( opx!($m, concat!($p, ".ark.deser_flags.", $name), (b: by), rs, {
            match <F as CanonicalDeserializeWithFlags>::deserialize_with_flags::<_, $Fl>(&b[..]) {
                Ok((x, fl)) => format!("OK {} {}", fs(&x), FlagName::name(&fl)),
                Err(e) => format!("ERR Ser:{}", serr(&e)),
            }
        }); )*
    };
}

trait FlagName {
    fn name(&self) -> &'static str;
}
impl FlagName for EmptyFlags {
    fn name(&self) -> &'static str {
        "EmptyFlags"
    }
}
impl FlagName for TEFlags {
    fn name(&self) -> &'static str {
        match self {
            TEFlags::XIsPositive => "XIsPositive",
            TEFlags::XIsNegative => "XIsNegative",
        }
    }
}
impl FlagName for SWFlags {
    fn name(&self) -> &'static str {
        match self {
            SWFlags::YIsPositive => "YIsPositive",
            SWFlags::YIsNegative => "YIsNegative",
            SWFlags::PointAtInfinity => "PointAtInfinity",
        }
    }
}

fn sqrt_precomp<T: Field + HF>(p: &Option<SqrtPrecomputation<T>>) -> String {
    match p {
        None => "NONE".to_string(),
        Some(SqrtPrecomputation::TonelliShanks {
            two_adicity,
            quadratic_nonresidue_to_trace,
            trace_of_modulus_minus_one_div_two,
        }) => format!(
            "TonelliShanks two_adicity={} quadratic_nonresidue_to_trace={} trace_of_modulus_minus_one_div_two={}",
            two_adicity,
            fs(quadratic_nonresidue_to_trace),
            lms(trace_of_modulus_minus_one_div_two)
        ),
        Some(SqrtPrecomputation::Case3Mod4 { modulus_plus_one_div_four }) => {
            format!("Case3Mod4 modulus_plus_one_div_four={}", lms(modulus_plus_one_div_four))
        }
        Some(_) => "UNKNOWN".to_string(),
    }
}

macro_rules! field_ops {
    ($fname:ident, $p:literal, $F:ty, $N:literal) => {
        pub fn $fname(m: &mut Map) {
            type F = $F;
            type BI = ark_ff::BigInt<$N>;

            // ---- operators (src/fields/<f>/ops.rs)
            fbin!(m, $p, "add", Add, add, AddAssign, add_assign);
            fbin!(m, $p, "sub", Sub, sub, SubAssign, sub_assign);
            fbin!(m, $p, "mul", Mul, mul, MulAssign, mul_assign);
            fbin!(m, $p, "div", Div, div, DivAssign, div_assign);
            opx!(m, concat!($p, ".neg"), (a: ff), rf, <F as Neg>::neg(a));
            opx!(m, concat!($p, ".sum.v"), (v: ffs), rf, <F as Sum<F>>::sum(v.into_iter()));
            opx!(m, concat!($p, ".sum.r"), (v: ffs), rf, <F as Sum<&F>>::sum(v.iter()));
            opx!(m, concat!($p, ".product.v"), (v: ffs), rf, <F as Product<F>>::product(v.into_iter()));
            opx!(m, concat!($p, ".product.r"), (v: ffs), rf, <F as Product<&F>>::product(v.iter()));
            opx!(m, concat!($p, ".sum.lazy"), (v: ffs), rf, <F as Sum<F>>::sum(v.into_iter().filter(|_| true)));
            opx!(m, concat!($p, ".product.lazy"), (v: ffs), rf, <F as Product<&F>>::product(v.iter().filter(|_| true)));
            opx!(m, concat!($p, ".cmp"), (a: ff, b: ff), ru, match <F as Ord>::cmp(&a, &b) {
                Ordering::Less => -1,
                Ordering::Equal => 0,
                Ordering::Greater => 1,
            });
            opx!(m, concat!($p, ".partial_cmp"), (a: ff, b: ff), rs, match <F as PartialOrd>::partial_cmp(&a, &b) {
                Some(Ordering::Less) => "SOME -1".to_string(),
                Some(Ordering::Equal) => "SOME 0".to_string(),
                Some(Ordering::Greater) => "SOME 1".to_string(),
                None => "NONE".to_string(),
            });
            opx!(m, concat!($p, ".eq"), (a: ff, b: ff), rb, <F as PartialEq>::eq(&a, &b));
            opx!(m, concat!($p, ".hash"), (a: ff), rby, {
                let mut h = RecHasher::default();
                <F as Hash>::hash(&a, &mut h);
                h.0
            });
            opx!(m, concat!($p, ".default"), (), rf, <F as Default>::default());
            opx!(m, concat!($p, ".debug"), (a: ff), rq, format!("{:?}", a));
            opx!(m, concat!($p, ".from_u128"), (x: u128), rf, <F as From<u128>>::from(x));
            opx!(m, concat!($p, ".from_u64"), (x: u128), rf, <F as From<u64>>::from(u64::try_from(x).map_err(|_| Bad::Input)?));
            opx!(m, concat!($p, ".from_u32"), (x: u128), rf, <F as From<u32>>::from(u32::try_from(x).map_err(|_| Bad::Input)?));
            opx!(m, concat!($p, ".from_u16"), (x: u128), rf, <F as From<u16>>::from(u16::try_from(x).map_err(|_| Bad::Input)?));
            opx!(m, concat!($p, ".from_u8"), (x: u128), rf, <F as From<u8>>::from(u8::try_from(x).map_err(|_| Bad::Input)?));
            opx!(m, concat!($p, ".from_bool"), (x: bo), rf, <F as From<bool>>::from(x));

            // ---- inherent API (src/fields/<f>.rs, wrapper.rs)
            opx!(m, concat!($p, ".square"), (a: ff), rf, F::square(&a));
            opx!(m, concat!($p, ".inverse"), (a: ff), ropt, F::inverse(&a));
            opx!(m, concat!($p, ".add.inherent"), (a: ff, b: ff), rf, F::add(a, &b));
            opx!(m, concat!($p, ".sub.inherent"), (a: ff, b: ff), rf, F::sub(a, &b));
            opx!(m, concat!($p, ".mul.inherent"), (a: ff, b: ff), rf, F::mul(a, &b));
            opx!(m, concat!($p, ".neg.inherent"), (a: ff), rf, F::neg(a));
            opx!(m, concat!($p, ".from_le_bytes_mod_order"), (b: by), rf, F::from_le_bytes_mod_order(&b));
            opx!(m, concat!($p, ".from_bytes_checked"), (b: by), rres_f, {
                let a: [u8; <F as HF>::N8] = b[..].try_into().map_err(|_| Bad::Input)?;
                F::from_bytes_checked(&a)
            });
            opx!(m, concat!($p, ".to_bytes"), (a: ff), rby, F::to_bytes(&a));
            opx!(m, concat!($p, ".to_bytes_le"), (a: ff), rby, F::to_bytes_le(&a));
            opx!(m, concat!($p, ".rand"), (b: by), rf, F::rand(&mut ReplayRng::zeros(b)));
            opx!(m, concat!($p, ".zeroize"), (a: ff), rf, {
                <F as Zeroize>::zeroize(&mut a);
                a
            });

            // ---- arkworks traits (src/fields/<f>/arkworks.rs)
            opx!(m, concat!($p, ".sqrt"), (a: ff), ropt, <F as Field>::sqrt(&a));
            opx!(m, concat!($p, ".legendre"), (a: ff), ru, match <F as Field>::legendre(&a) {
                LegendreSymbol::Zero => 0,
                LegendreSymbol::QuadraticResidue => 1,
                LegendreSymbol::QuadraticNonResidue => -1,
            });
            opx!(m, concat!($p, ".pow"), (a: ff, l: lm), rf, <F as Field>::pow(&a, &l));
            opx!(m, concat!($p, ".ark.double"), (a: ff), rf, <F as Field>::double(&a));
            opx!(m, concat!($p, ".ark.double_in_place"), (a: ff), rf, {
                <F as Field>::double_in_place(&mut a);
                a
            });
            opx!(m, concat!($p, ".ark.neg_in_place"), (a: ff), rf, {
                <F as Field>::neg_in_place(&mut a);
                a
            });
            opx!(m, concat!($p, ".ark.square"), (a: ff), rf, <F as Field>::square(&a));
            opx!(m, concat!($p, ".ark.square_in_place"), (a: ff), rf, {
                <F as Field>::square_in_place(&mut a);
                a
            });
            opx!(m, concat!($p, ".ark.inverse"), (a: ff), ropt, <F as Field>::inverse(&a));
            opx!(m, concat!($p, ".ark.inverse_in_place"), (a: ff), ropt, <F as Field>::inverse_in_place(&mut a).map(|x| *x));
            opx!(m, concat!($p, ".ark.frobenius_map"), (a: ff, k: u128), rf, {
                <F as Field>::frobenius_map_in_place(&mut a, k as usize);
                a
            });
            opx!(m, concat!($p, ".ark.is_zero"), (a: ff), rb, <F as Zero>::is_zero(&a));
            opx!(m, concat!($p, ".ark.is_one"), (a: ff), rb, <F as One>::is_one(&a));
            opx!(m, concat!($p, ".ark.zero"), (), rf, <F as Zero>::zero());
            opx!(m, concat!($p, ".ark.one"), (), rf, <F as One>::one());
            opx!(m, concat!($p, ".ark.from_bigint"), (l: lm), ropt, {
                let a: [u64; $N] = l[..].try_into().map_err(|_| Bad::Input)?;
                <F as PrimeField>::from_bigint(BI::new(a))
            });
            opx!(m, concat!($p, ".ark.into_bigint"), (a: ff), rl, <F as PrimeField>::into_bigint(a).0);
            opx!(m, concat!($p, ".ark.from_bigint_conv"), (l: lm), rf, {
                let a: [u64; $N] = l[..].try_into().map_err(|_| Bad::Input)?;
                <F as From<BI>>::from(BI::new(a))
            });
            opx!(m, concat!($p, ".ark.into_bigint_conv"), (a: ff), rl, <BI as From<F>>::from(a).0);
            opx!(m, concat!($p, ".ark.from_be_bytes_mod_order"), (b: by), rf, <F as PrimeField>::from_be_bytes_mod_order(&b));
            opx!(m, concat!($p, ".ark.from_le_bytes_mod_order"), (b: by), rf, <F as PrimeField>::from_le_bytes_mod_order(&b));
            opx!(m, concat!($p, ".ark.from_str"), (s: rest), rs, match <F as FromStr>::from_str(&s) {
                Ok(x) => format!("OK {}", fs(&x)),
                Err(_) => "ERR".to_string(),
            });
            opx!(m, concat!($p, ".ark.display"), (a: ff), rq, format!("{}", a));
            opx!(m, concat!($p, ".ark.from_biguint"), (t: tok), rf, {
                let n = num_bigint::BigUint::parse_bytes(t.as_bytes(), 16).ok_or(Bad::Input)?;
                <F as From<num_bigint::BigUint>>::from(n)
            });
            opx!(m, concat!($p, ".ark.into_biguint"), (a: ff), rs, <num_bigint::BigUint as From<F>>::from(a).to_str_radix(16));
            opx!(m, concat!($p, ".ark.ser"), (a: ff), rby, {
                let mut v = Vec::new();
                a.serialize_compressed(&mut v).map_err(|_| Bad::Input)?;
                v
            });
            opx!(m, concat!($p, ".ark.ser_uncompressed"), (a: ff), rby, {
                let mut v = Vec::new();
                a.serialize_uncompressed(&mut v).map_err(|_| Bad::Input)?;
                v
            });
            opx!(m, concat!($p, ".ark.serialized_size"), (a: ff), ru, a.serialized_size(Compress::Yes));
            opx!(m, concat!($p, ".ark.deser"), (b: by), rser_f, <F as CanonicalDeserialize>::deserialize_compressed(&b[..]));
            opx!(m, concat!($p, ".ark.deser.drip"), (b: by), rser_f, <F as CanonicalDeserialize>::deserialize_compressed(crate::elems::Drip(&b[..])));
            opx!(m, concat!($p, ".ark.deser_uncompressed"), (b: by), rser_f, <F as CanonicalDeserialize>::deserialize_uncompressed(&b[..]));
            ser_flags!(m, $p,
                "EmptyFlags" => EmptyFlags,
                "TEFlags.XIsPositive" => TEFlags::XIsPositive,
                "TEFlags.XIsNegative" => TEFlags::XIsNegative,
                "SWFlags.YIsPositive" => SWFlags::YIsPositive,
                "SWFlags.YIsNegative" => SWFlags::YIsNegative,
                "SWFlags.PointAtInfinity" => SWFlags::PointAtInfinity);
            deser_flags!(m, $p, "EmptyFlags" => EmptyFlags, "TEFlags" => TEFlags, "SWFlags" => SWFlags);
            opx!(m, concat!($p, ".ark.from_random_bytes"), (b: by), ropt, <F as Field>::from_random_bytes(&b));
            opx!(m, concat!($p, ".ark.from_base_prime_field_elems"), (v: ffs), ropt, <F as Field>::from_base_prime_field_elems(&v));
            opx!(m, concat!($p, ".ark.characteristic"), (), rl, <F as Field>::characteristic());
            opx!(m, concat!($p, ".ark.extension_degree"), (), ru, <F as Field>::extension_degree());
            opx!(m, concat!($p, ".ark.rand"), (b: by), rf, <F as UniformRand>::rand(&mut ReplayRng::xorshift(b)));
            opx!(m, concat!($p, ".ark.const.MODULUS"), (), rl, <F as PrimeField>::MODULUS.0);
            opx!(m, concat!($p, ".ark.const.MODULUS_MINUS_ONE_DIV_TWO"), (), rl, <F as PrimeField>::MODULUS_MINUS_ONE_DIV_TWO.0);
            opx!(m, concat!($p, ".ark.const.MODULUS_BIT_SIZE"), (), ru, <F as PrimeField>::MODULUS_BIT_SIZE);
            opx!(m, concat!($p, ".ark.const.TRACE"), (), rl, <F as PrimeField>::TRACE.0);
            opx!(m, concat!($p, ".ark.const.TRACE_MINUS_ONE_DIV_TWO"), (), rl, <F as PrimeField>::TRACE_MINUS_ONE_DIV_TWO.0);
            opx!(m, concat!($p, ".ark.const.GENERATOR"), (), rf, <F as FftField>::GENERATOR);
            opx!(m, concat!($p, ".ark.const.TWO_ADICITY"), (), ru, <F as FftField>::TWO_ADICITY);
            opx!(m, concat!($p, ".ark.const.TWO_ADIC_ROOT_OF_UNITY"), (), rf, <F as FftField>::TWO_ADIC_ROOT_OF_UNITY);
            opx!(m, concat!($p, ".ark.const.SMALL_SUBGROUP_BASE"), (), rs, match <F as FftField>::SMALL_SUBGROUP_BASE {
                Some(x) => format!("SOME {}", x),
                None => "NONE".to_string(),
            });
            opx!(m, concat!($p, ".ark.const.SMALL_SUBGROUP_BASE_ADICITY"), (), rs, match <F as FftField>::SMALL_SUBGROUP_BASE_ADICITY {
                Some(x) => format!("SOME {}", x),
                None => "NONE".to_string(),
            });
            opx!(m, concat!($p, ".ark.const.LARGE_SUBGROUP_ROOT_OF_UNITY"), (), ropt, <F as FftField>::LARGE_SUBGROUP_ROOT_OF_UNITY);
            opx!(m, concat!($p, ".ark.const.ZERO"), (), rf, <F as Field>::ZERO);
            opx!(m, concat!($p, ".ark.const.ONE"), (), rf, <F as Field>::ONE);
            opx!(m, concat!($p, ".ark.const.SQRT_PRECOMP"), (), rs, sqrt_precomp(&<F as Field>::SQRT_PRECOMP));
        }
    };
}

field_ops!(reg_fq_common, "fq", Fq, 4);
field_ops!(reg_fr_common, "fr", Fr, 4);
field_ops!(reg_fp_common, "fp", Fp, 6);

pub fn reg(m: &mut Map) {
    reg_fq_common(m);
    reg_fr_common(m);
    reg_fp_common(m);
    {
        type F = Fq;
        fconst!(m, "fq",
            F: ZERO ONE SENTINEL QUADRATIC_NON_RESIDUE_TO_TRACE MULTIPLICATIVE_GENERATOR TWO_ADIC_ROOT_OF_UNITY FIELD_SIZE_POWER_OF_TWO;
            L: MODULUS_LIMBS MODULUS_MINUS_ONE_DIV_TWO_LIMBS TRACE_LIMBS TRACE_MINUS_ONE_DIV_TWO_LIMBS;
            U: MODULUS_BIT_SIZE TWO_ADICITY);
        // not an associated constant, but the only other public Fq constant of the crate
        opx!(m, "fq.const.ZETA", (), rf, decaf377::ZETA);
        // Fq-only API
        opx!(m, "fq.power", (a: fq, l: lm), rf, Fq::power(&a, &l));
        opx!(m, "fq.from_montgomery_limbs", (l: lm), rf, {
            let a: [u64; 4] = l[..].try_into().map_err(|_| Bad::Input)?;
            Fq::from_montgomery_limbs(a)
        });
        opx!(m, "fq.ct_eq", (a: fq, b: fq), rb, bool::from(<Fq as ConstantTimeEq>::ct_eq(&a, &b)));
        opx!(m, "fq.select", (a: fq, b: fq, c: bo), rf, <Fq as ConditionallySelectable>::conditional_select(&a, &b, Choice::from(c as u8)));
        opx!(m, "fq.sqrt_ratio_zeta", (a: fq, b: fq), rs, {
            let (sq, y) = Fq::sqrt_ratio_zeta(&a, &b);
            format!("{} {}", sq as u8, fs(&y))
        });
    }
    {
        type F = Fr;
        fconst!(m, "fr",
            F: ZERO ONE MULTIPLICATIVE_GENERATOR TWO_ADIC_ROOT_OF_UNITY FIELD_SIZE_POWER_OF_TWO;
            L: MODULUS_LIMBS MODULUS_MINUS_ONE_DIV_TWO_LIMBS TRACE_LIMBS TRACE_MINUS_ONE_DIV_TWO_LIMBS;
            U: MODULUS_BIT_SIZE TWO_ADICITY);
    }
    {
        type F = Fp;
        fconst!(m, "fp",
            F: ZERO ONE MINUS_ONE QUADRATIC_NON_RESIDUE QUADRATIC_NON_RESIDUE_TO_TRACE MULTIPLICATIVE_GENERATOR TWO_ADIC_ROOT_OF_UNITY FIELD_SIZE_POWER_OF_TWO;
            L: MODULUS_LIMBS MODULUS_MINUS_ONE_DIV_TWO_LIMBS TRACE_LIMBS TRACE_MINUS_ONE_DIV_TWO_LIMBS;
            U: MODULUS_BIT_SIZE TWO_ADICITY);
    }
}
