//! Element / AffinePoint / Encoding ops.

use std::hash::Hash;
use std::iter::Sum;
use std::ops::{Add, AddAssign, Mul, MulAssign, Neg, Sub, SubAssign};

use ark_ec::{AffineRepr, CurveGroup, Group, ScalarMul, VariableBaseMSM};
use ark_ff::{ToConstraintField, UniformRand, Zero};
use ark_serialize::{CanonicalDeserialize, CanonicalSerialize, Compress, Valid, Validate};
use decaf377::{Element, Encoding, Fq, Fr};
use zeroize::Zeroize;

use crate::util::*;

fn ser_vec<T: CanonicalSerialize>(t: &T, c: Compress) -> Result<Vec<u8>, ark_serialize::SerializationError> {
    let mut v = Vec::new();
    t.serialize_with_mode(&mut v, c)?;
    Ok(v)
}

/// native mirror of the `r1.hist` wrapper history (same operation letters; see r1.rs)
fn native_hist(mut v: Element, b: Element, ops: &str) -> String {
    let mut reads = vec![];
    for ch in ops.chars() {
        match ch {
            'c' => reads.push(format!("c:{}", fs(&v.vartime_compress_to_field()))),
            'v' => reads.push(format!("v:{}", els(&v))),
            'a' | 'A' | 'k' => v += b,
            's' | 'S' | 'j' => v -= b,
            'd' => { <Element as Group>::double_in_place(&mut v); }
            'n' => v = -v,
            'p' => v = v + b,
            'm' => v = v - b,
            'i' => reads.push(format!("b:{}", (v == b) as u8)),
            'u' => reads.push(format!("u:{}", (v == b) as u8)),   // enforce_equal: satisfiable exactly when equal
            _ => {}
        }
    }
    if reads.is_empty() { "-".to_string() } else { reads.join(";") }
}

pub fn reg(m: &mut Map) {
    opx!(m, "el.hist", (a: el, b: el, ops: tok), rs, native_hist(a, b, ops));
    opx!(m, "el.hist.enc", (s: fq, b: el, ops: tok), rs, {
        match Encoding(s.to_bytes()).vartime_decompress() {
            Ok(a) => native_hist(a, b, ops),
            Err(_) => "ERR".to_string(),
        }
    });
    // ------------------------------------------------------------ constants
    opx!(m, "el.const.GENERATOR", (), rel, Element::GENERATOR);
    opx!(m, "el.const.IDENTITY", (), rel, Element::IDENTITY);
    opx!(m, "el.const.default", (), rel, <Element as Default>::default());
    opx!(m, "el.const.zero", (), rel, <Element as Zero>::zero());
    opx!(m, "el.const.generator", (), rel, <Element as Group>::generator());
    opx!(m, "af.const.zero", (), raf, <AffinePoint as AffineRepr>::zero());
    opx!(m, "af.const.generator", (), raf, <AffinePoint as AffineRepr>::generator());
    opx!(m, "af.const.default", (), raf, <AffinePoint as Default>::default());

    // ------------------------------------------------------------ decoding / encoding
    opx!(m, "el.dec", (b: by), rres_el, Encoding(arr32(&b)?).vartime_decompress());
    opx!(m, "el.dec.decompress", (b: by), rres_el, {
        #[allow(deprecated)]
        let r = Encoding(arr32(&b)?).decompress();
        r
    });
    opx!(m, "el.dec.tf_enc", (b: by), rres_el, <Element as TryFrom<Encoding>>::try_from(Encoding(arr32(&b)?)));
    opx!(m, "el.dec.tf_encref", (b: by), rres_el, <Element as TryFrom<&Encoding>>::try_from(&Encoding(arr32(&b)?)));
    opx!(m, "el.dec.tf_arr", (b: by), rres_el, <Element as TryFrom<[u8; 32]>>::try_from(arr32(&b)?));
    opx!(m, "el.dec.tf_slice", (b: by), rres_el, <Element as TryFrom<&[u8]>>::try_from(&b[..]));
    opx!(m, "el.dec.enc_tf_slice", (b: by), rres_el, <Encoding as TryFrom<&[u8]>>::try_from(&b[..]).and_then(|e| e.vartime_decompress()));
    opx!(m, "el.enc", (e: el), rby, e.vartime_compress().0);
    opx!(m, "el.enc.to_field", (e: el), rf, e.vartime_compress_to_field());
    opx!(m, "el.enc.from_elem", (e: el), rby, <Encoding as From<Element>>::from(e).0);
    opx!(m, "el.enc.from_ref", (e: el), rby, <Encoding as From<&Element>>::from(&e).0);
    opx!(m, "el.enc.arr_from", (e: el), rby, <[u8; 32] as From<Element>>::from(e));
    opx!(m, "enc.from_arr", (b: by), rby, <Encoding as From<[u8; 32]>>::from(arr32(&b)?).0);
    opx!(m, "enc.into_arr", (b: by), rby, <[u8; 32] as From<Encoding>>::from(Encoding(arr32(&b)?)));
    opx!(m, "enc.default", (), rby, <Encoding as Default>::default().0);
    opx!(m, "enc.debug", (b: by), rq, format!("{:?}", Encoding(arr32(&b)?)));
    opx!(m, "enc.ser", (b: by), rser_by, ser_vec(&Encoding(arr32(&b)?), Compress::Yes));
    opx!(m, "enc.deser", (b: by), rser_by, <Encoding as CanonicalDeserialize>::deserialize_compressed(&b[..]).map(|e| e.0.to_vec()));
    opx!(m, "enc.deser_uncompressed", (b: by), rser_by, <Encoding as CanonicalDeserialize>::deserialize_uncompressed(&b[..]).map(|e| e.0.to_vec()));

    // ------------------------------------------------------------ Element (+|-) Element, src/ark_curve/ops/projective.rs
    opx!(m, "el.add.ee", (a: el, b: el), rel, <&Element as Add<&Element>>::add(&a, &b));
    opx!(m, "el.add.Ee", (a: el, b: el), rel, <Element as Add<&Element>>::add(a, &b));
    opx!(m, "el.add.eE", (a: el, b: el), rel, <&Element as Add<Element>>::add(&a, b));
    opx!(m, "el.add.EE", (a: el, b: el), rel, <Element as Add<Element>>::add(a, b));
    opx!(m, "el.add_assign.e", (a: el, b: el), rel, {
        <Element as AddAssign<&Element>>::add_assign(&mut a, &b);
        a
    });
    opx!(m, "el.add_assign.E", (a: el, b: el), rel, {
        <Element as AddAssign<Element>>::add_assign(&mut a, b);
        a
    });
    opx!(m, "el.sub.ee", (a: el, b: el), rel, <&Element as Sub<&Element>>::sub(&a, &b));
    opx!(m, "el.sub.Ee", (a: el, b: el), rel, <Element as Sub<&Element>>::sub(a, &b));
    opx!(m, "el.sub.eE", (a: el, b: el), rel, <&Element as Sub<Element>>::sub(&a, b));
    opx!(m, "el.sub.EE", (a: el, b: el), rel, <Element as Sub<Element>>::sub(a, b));
    opx!(m, "el.sub_assign.e", (a: el, b: el), rel, {
        <Element as SubAssign<&Element>>::sub_assign(&mut a, &b);
        a
    });
    opx!(m, "el.sub_assign.E", (a: el, b: el), rel, {
        <Element as SubAssign<Element>>::sub_assign(&mut a, b);
        a
    });
    opx!(m, "el.neg", (a: el), rel, <Element as Neg>::neg(a));

    // ------------------------------------------------------------ Element * Fr
    opx!(m, "el.smul.assign_r", (a: el, s: fr), rel, {
        <Element as MulAssign<&Fr>>::mul_assign(&mut a, &s);
        a
    });
    opx!(m, "el.smul.assign_f", (a: el, s: fr), rel, {
        <Element as MulAssign<Fr>>::mul_assign(&mut a, s);
        a
    });
    opx!(m, "el.smul.er", (a: el, s: fr), rel, <&Element as Mul<&Fr>>::mul(&a, &s));
    opx!(m, "el.smul.re", (a: el, s: fr), rel, <&Fr as Mul<&Element>>::mul(&s, &a));
    opx!(m, "el.smul.Er", (a: el, s: fr), rel, <Element as Mul<&Fr>>::mul(a, &s));
    opx!(m, "el.smul.ef", (a: el, s: fr), rel, <&Element as Mul<Fr>>::mul(&a, s));
    opx!(m, "el.smul.Ef", (a: el, s: fr), rel, <Element as Mul<Fr>>::mul(a, s));
    opx!(m, "el.smul.fe", (a: el, s: fr), rel, <Fr as Mul<&Element>>::mul(s, &a));
    opx!(m, "el.smul.rE", (a: el, s: fr), rel, <&Fr as Mul<Element>>::mul(&s, a));
    opx!(m, "el.smul.fE", (a: el, s: fr), rel, <Fr as Mul<Element>>::mul(s, a));

    // ------------------------------------------------------------ mixed Element / AffinePoint (projective.rs)
    opx!(m, "el.add.Ea", (a: el, b: af), rel, <Element as Add<&AffinePoint>>::add(a, &b));
    opx!(m, "el.add.EA", (a: el, b: af), rel, <Element as Add<AffinePoint>>::add(a, b));
    opx!(m, "el.add.AA", (a: af, b: af), rel, <AffinePoint as Add<AffinePoint>>::add(a, b));
    opx!(m, "el.add.AE", (a: af, b: el), rel, <AffinePoint as Add<Element>>::add(a, b));
    opx!(m, "el.add.Ae", (a: af, b: el), rel, <AffinePoint as Add<&Element>>::add(a, &b));
    opx!(m, "el.add_assign.Ea", (a: el, b: af), rel, {
        <Element as AddAssign<&AffinePoint>>::add_assign(&mut a, &b);
        a
    });
    opx!(m, "el.add_assign.EA", (a: el, b: af), rel, {
        <Element as AddAssign<AffinePoint>>::add_assign(&mut a, b);
        a
    });
    opx!(m, "el.sub_assign.Ea", (a: el, b: af), rel, {
        <Element as SubAssign<&AffinePoint>>::sub_assign(&mut a, &b);
        a
    });
    opx!(m, "el.sub_assign.EA", (a: el, b: af), rel, {
        <Element as SubAssign<AffinePoint>>::sub_assign(&mut a, b);
        a
    });
    opx!(m, "el.sub.Ea", (a: el, b: af), rel, <Element as Sub<&AffinePoint>>::sub(a, &b));
    opx!(m, "el.sub.EA", (a: el, b: af), rel, <Element as Sub<AffinePoint>>::sub(a, b));

    // ------------------------------------------------------------ AffinePoint ops, src/ark_curve/ops/affine.rs
    opx!(m, "af.add.aa", (a: af, b: af), raf, <&AffinePoint as Add<&AffinePoint>>::add(&a, &b));
    opx!(m, "af.add.Aa", (a: af, b: af), rel, <AffinePoint as Add<&AffinePoint>>::add(a, &b));
    opx!(m, "af.add.aA", (a: af, b: af), raf, <&AffinePoint as Add<AffinePoint>>::add(&a, b));
    opx!(m, "af.add_assign.Aa", (a: af, b: af), raf, {
        <AffinePoint as AddAssign<&AffinePoint>>::add_assign(&mut a, &b);
        a
    });
    opx!(m, "af.add_assign.AA", (a: af, b: af), raf, {
        <AffinePoint as AddAssign<AffinePoint>>::add_assign(&mut a, b);
        a
    });
    opx!(m, "af.sub.aa", (a: af, b: af), raf, <&AffinePoint as Sub<&AffinePoint>>::sub(&a, &b));
    opx!(m, "af.sub.Aa", (a: af, b: af), raf, <AffinePoint as Sub<&AffinePoint>>::sub(a, &b));
    opx!(m, "af.sub.aA", (a: af, b: af), raf, <&AffinePoint as Sub<AffinePoint>>::sub(&a, b));
    opx!(m, "af.sub.AA", (a: af, b: af), raf, <AffinePoint as Sub<AffinePoint>>::sub(a, b));
    opx!(m, "af.sub_assign.Aa", (a: af, b: af), raf, {
        <AffinePoint as SubAssign<&AffinePoint>>::sub_assign(&mut a, &b);
        a
    });
    opx!(m, "af.sub_assign.AA", (a: af, b: af), raf, {
        <AffinePoint as SubAssign<AffinePoint>>::sub_assign(&mut a, b);
        a
    });
    opx!(m, "af.neg", (a: af), raf, <AffinePoint as Neg>::neg(a));
    opx!(m, "af.smul.assign_r", (a: af, s: fr), raf, {
        <AffinePoint as MulAssign<&Fr>>::mul_assign(&mut a, &s);
        a
    });
    opx!(m, "af.smul.assign_f", (a: af, s: fr), raf, {
        <AffinePoint as MulAssign<Fr>>::mul_assign(&mut a, s);
        a
    });
    opx!(m, "af.smul.ar", (a: af, s: fr), raf, <&AffinePoint as Mul<&Fr>>::mul(&a, &s));
    opx!(m, "af.smul.ra", (a: af, s: fr), raf, <&Fr as Mul<&AffinePoint>>::mul(&s, &a));
    opx!(m, "af.smul.Ar", (a: af, s: fr), rel, <AffinePoint as Mul<&Fr>>::mul(a, &s));
    opx!(m, "af.smul.af", (a: af, s: fr), raf, <&AffinePoint as Mul<Fr>>::mul(&a, s));
    opx!(m, "af.smul.Af", (a: af, s: fr), rel, <AffinePoint as Mul<Fr>>::mul(a, s));
    opx!(m, "af.smul.fa", (a: af, s: fr), raf, <Fr as Mul<&AffinePoint>>::mul(s, &a));
    opx!(m, "af.smul.rA", (a: af, s: fr), raf, <&Fr as Mul<AffinePoint>>::mul(&s, a));
    opx!(m, "af.smul.fA", (a: af, s: fr), raf, <Fr as Mul<AffinePoint>>::mul(s, a));

    // ------------------------------------------------------------ Sum impls (element/projective.rs, element/affine.rs)
    opx!(m, "el.sum.E", (v: els), rel, <Element as Sum<Element>>::sum(v.into_iter()));
    opx!(m, "el.sum.e", (v: els), rel, <Element as Sum<&Element>>::sum(v.iter()));
    opx!(m, "el.sum.A", (v: afs), rel, <Element as Sum<AffinePoint>>::sum(v.into_iter()));
    opx!(m, "el.sum.a", (v: afs), rel, <Element as Sum<&AffinePoint>>::sum(v.iter()));
    // iterators without a lower size bound
    opx!(m, "el.sum.E.lazy", (v: els), rel, <Element as Sum<Element>>::sum(v.into_iter().filter(|_| true)));
    opx!(m, "el.sum.e.lazy", (v: els), rel, <Element as Sum<&Element>>::sum(v.iter().filter(|_| true)));
    opx!(m, "el.sum.A.lazy", (v: afs), rel, <Element as Sum<AffinePoint>>::sum(v.into_iter().filter(|_| true)));
    opx!(m, "el.sum.a.lazy", (v: afs), rel, <Element as Sum<&AffinePoint>>::sum(v.iter().filter(|_| true)));

    // ------------------------------------------------------------ predicates, formatting, hashing
    opx!(m, "el.eq", (a: el, b: el), rb, <Element as PartialEq>::eq(&a, &b));
    opx!(m, "el.is_identity", (a: el), rb, a.is_identity());
    opx!(m, "el.eq_identity", (a: el), rb, a == Element::IDENTITY);
    opx!(m, "el.eq_default", (a: el), rb, a == <Element as Default>::default());
    opx!(m, "el.is_zero", (a: el), rb, <Element as Zero>::is_zero(&a));
    opx!(m, "el.hash", (a: el), rby, {
        let mut h = RecHasher::default();
        <Element as Hash>::hash(&a, &mut h);
        h.0
    });
    opx!(m, "el.debug", (a: el), rq, format!("{:?}", a));
    opx!(m, "el.display", (a: el), rq, format!("{}", a));
    opx!(m, "el.negate", (a: el), rel, a.negate());
    opx!(m, "el.double", (a: el), rel, <Element as Group>::double(&a));
    opx!(m, "el.double_in_place", (a: el), rel, {
        <Element as Group>::double_in_place(&mut a);
        a
    });
    opx!(m, "el.zeroize", (a: el), rel, {
        <Element as Zeroize>::zeroize(&mut a);
        a
    });
    opx!(m, "el.check", (a: el), rs, match <Element as Valid>::check(&a) {
        Ok(()) => "OK".to_string(),
        Err(e) => format!("ERR Ser:{}", serr(&e)),
    });
    opx!(m, "af.eq", (a: af, b: af), rb, <AffinePoint as PartialEq>::eq(&a, &b));
    opx!(m, "af.hash", (a: af), rby, {
        let mut h = RecHasher::default();
        <AffinePoint as Hash>::hash(&a, &mut h);
        h.0
    });
    opx!(m, "af.is_zero", (a: af), rb, <AffinePoint as AffineRepr>::is_zero(&a));
    opx!(m, "af.xy", (a: af), rs, match <AffinePoint as AffineRepr>::xy(&a) {
        Some((x, y)) => format!("SOME {},{}", fs(x), fs(y)),
        None => "NONE".to_string(),
    });
    opx!(m, "af.x", (a: af), rs, match <AffinePoint as AffineRepr>::x(&a) {
        Some(x) => format!("SOME {}", fs(x)),
        None => "NONE".to_string(),
    });
    opx!(m, "af.y", (a: af), rs, match <AffinePoint as AffineRepr>::y(&a) {
        Some(y) => format!("SOME {}", fs(y)),
        None => "NONE".to_string(),
    });
    opx!(m, "af.debug", (a: af), rq, format!("{:?}", a));
    opx!(m, "af.display", (a: af), rq, format!("{}", a));
    opx!(m, "af.zeroize", (a: af), raf, {
        <AffinePoint as Zeroize>::zeroize(&mut a);
        a
    });
    opx!(m, "af.check", (a: af), rs, match <AffinePoint as Valid>::check(&a) {
        Ok(()) => "OK".to_string(),
        Err(e) => format!("ERR Ser:{}", serr(&e)),
    });

    // ------------------------------------------------------------ serialization
    opx!(m, "el.ser", (a: el), rser_by, ser_vec(&a, Compress::Yes));
    opx!(m, "el.ser_uncompressed", (a: el), rser_by, ser_vec(&a, Compress::No));
    opx!(m, "el.serialized_size", (a: el), ru, a.serialized_size(Compress::Yes));
    opx!(m, "el.serialized_size_uncompressed", (a: el), ru, a.serialized_size(Compress::No));
    opx!(m, "el.deser", (b: by), rser_el, <Element as CanonicalDeserialize>::deserialize_compressed(&b[..]));
    opx!(m, "el.ser.drip", (a: el), rser_by, ser_drip(&a));
    opx!(m, "af.ser.drip", (a: af), rser_by, ser_drip(&a));
    opx!(m, "enc.ser.drip", (b: by), rser_by, ser_drip(&Encoding(arr32(&b)?)));
    opx!(m, "el.deser.drip", (b: by), rser_el, <Element as CanonicalDeserialize>::deserialize_compressed(Drip(&b[..])));
    opx!(m, "af.deser.drip", (b: by), rser_af, <AffinePoint as CanonicalDeserialize>::deserialize_compressed(Drip(&b[..])));
    opx!(m, "enc.deser.drip", (b: by), rser_by, <Encoding as CanonicalDeserialize>::deserialize_compressed(Drip(&b[..])).map(|e| e.0.to_vec()));
    opx!(m, "el.deser_uncompressed", (b: by), rser_el, <Element as CanonicalDeserialize>::deserialize_uncompressed(&b[..]));
    opx!(m, "el.deser_unchecked", (b: by), rser_el, <Element as CanonicalDeserialize>::deserialize_with_mode(&b[..], Compress::Yes, Validate::No));
    opx!(m, "af.ser", (a: af), rser_by, ser_vec(&a, Compress::Yes));
    opx!(m, "af.ser_uncompressed", (a: af), rser_by, ser_vec(&a, Compress::No));
    opx!(m, "af.serialized_size", (a: af), ru, a.serialized_size(Compress::Yes));
    opx!(m, "af.serialized_size_uncompressed", (a: af), ru, a.serialized_size(Compress::No));
    opx!(m, "af.deser", (b: by), rser_af, <AffinePoint as CanonicalDeserialize>::deserialize_compressed(&b[..]));
    opx!(m, "af.deser_uncompressed", (b: by), rser_af, <AffinePoint as CanonicalDeserialize>::deserialize_uncompressed(&b[..]));
    opx!(m, "af.deser_unchecked", (b: by), rser_af, <AffinePoint as CanonicalDeserialize>::deserialize_with_mode(&b[..], Compress::Yes, Validate::No));

    // ------------------------------------------------------------ conversions
    opx!(m, "el.to_affine", (a: el), raf, <AffinePoint as From<Element>>::from(a));
    opx!(m, "el.to_affine_ref", (a: el), raf, <AffinePoint as From<&Element>>::from(&a));
    opx!(m, "el.into_affine", (a: el), raf, <Element as CurveGroup>::into_affine(a));
    opx!(m, "af.to_element", (a: af), rel, <Element as From<AffinePoint>>::from(a));
    opx!(m, "af.to_element_ref", (a: af), rel, <Element as From<&AffinePoint>>::from(&a));
    opx!(m, "af.into_group", (a: af), rel, <AffinePoint as AffineRepr>::into_group(a));
    opx!(m, "el.normalize_batch", (v: els), raf_list, <Element as CurveGroup>::normalize_batch(&v));
    opx!(m, "el.batch_convert_to_mul_base", (v: els), raf_list, <Element as ScalarMul>::batch_convert_to_mul_base(&v));

    // ------------------------------------------------------------ scalar multiplication, MSM
    opx!(m, "el.mul_bigint", (a: el, l: lm), rel, <Element as Group>::mul_bigint(&a, &l));
    opx!(m, "af.mul_bigint", (a: af, l: lm), rel, <AffinePoint as AffineRepr>::mul_bigint(&a, &l));
    opx!(m, "el.msm_vartime", (s: frs, p: els), rel, Element::vartime_multiscalar_mul(s.iter(), p.iter()));
    op!(m, "el.msm", |g| {
        let bases = g.af_list()?;
        let scalars = g.f_list::<Fr>()?;
        g.done()?;
        match <Element as VariableBaseMSM>::msm(&bases, &scalars) {
            Ok(e) => Ok(Ret { s: format!("OK {}", els(&e)), st: St::El(e) }),
            Err(n) => rs(format!("ERR {}", n)),
        }
    });
    opx!(m, "el.msm_unchecked", (bases: afs, scalars: frs), rel, <Element as VariableBaseMSM>::msm_unchecked(&bases, &scalars));
    opx!(m, "af.from_random_bytes", (b: by), ropt_af, <AffinePoint as AffineRepr>::from_random_bytes(&b));
    opx!(m, "af.clear_cofactor", (a: af), raf, <AffinePoint as AffineRepr>::clear_cofactor(&a));
    opx!(m, "af.mul_by_cofactor_to_group", (a: af), rel, <AffinePoint as AffineRepr>::mul_by_cofactor_to_group(&a));
    opx!(m, "af.mul_by_cofactor", (a: af), raf, <AffinePoint as AffineRepr>::mul_by_cofactor(&a));
    opx!(m, "af.mul_by_cofactor_inv", (a: af), raf, <AffinePoint as AffineRepr>::mul_by_cofactor_inv(&a));

    // ------------------------------------------------------------ maps, randomness
    opx!(m, "el.elligator", (r: fq), rel, Element::encode_to_curve(&r));
    opx!(m, "el.hash_to_curve", (a: fq, b: fq), rel, Element::hash_to_curve(&a, &b));
    opx!(m, "el.rand", (b: by), rel, <Element as UniformRand>::rand(&mut ReplayRng::xorshift(b)));
    opx!(m, "af.rand", (b: by), raf, <AffinePoint as UniformRand>::rand(&mut ReplayRng::xorshift(b)));
    opx!(m, "el.to_field_elements", (a: el), rs, match <Element as ToConstraintField<Fq>>::to_field_elements(&a) {
        Some(v) if v.is_empty() => "SOME -".to_string(),
        Some(v) => format!("SOME {}", v.iter().map(fs).collect::<Vec<_>>().join(";")),
        None => "NONE".to_string(),
    });
}

/// a writer that accepts at most `k` bytes per `write` call (short writes are legal for `Write`)
pub struct DripW(pub Vec<u8>, pub usize);
impl ark_std::io::Write for DripW {
    fn write(&mut self, buf: &[u8]) -> ark_std::io::Result<usize> {
        let n = core::cmp::min(self.1, buf.len());
        self.0.extend_from_slice(&buf[..n]);
        Ok(n)
    }
    fn flush(&mut self) -> ark_std::io::Result<()> {
        Ok(())
    }
}
/// serialise through short-writing sinks (1, 5, 31 bytes per call) and into a slice that is too short (must be an error):
/// the three outputs and the verdict of the short slice, concatenated
fn ser_drip<T: CanonicalSerialize>(t: &T) -> Result<Vec<u8>, ark_serialize::SerializationError> {
    let mut out = Vec::new();
    for k in [1usize, 5, 31] {
        let mut w = DripW(Vec::new(), k);
        t.serialize_with_mode(&mut w, Compress::Yes)?;
        out.extend_from_slice(&w.0);
    }
    let mut short = [0u8; 16];
    out.push(if t.serialize_with_mode(&mut short[..], Compress::Yes).is_err() { 1 } else { 0 });
    Ok(out)
}

/// a reader that delivers one byte per `read` call (short reads are legal for `Read`)
pub struct Drip<'a>(pub &'a [u8]);
impl<'a> ark_std::io::Read for Drip<'a> {
    fn read(&mut self, buf: &mut [u8]) -> ark_std::io::Result<usize> {
        if self.0.is_empty() || buf.is_empty() {
            return Ok(0);
        }
        buf[0] = self.0[0];
        self.0 = &self.0[1..];
        Ok(1)
    }
}
