//! Registration macros.  `op!` registers a closure under a name; `opx!` is a
//! tiny DSL: `opx!(map, "name", (a: kind, b: kind), printer, expr)` parses the
//! operands in order, checks that no operand is left over, evaluates `expr`
//! and hands the result to `printer`.

macro_rules! op {
    ($m:expr, $name:expr, |$g:ident| $body:expr) => {
        $m.insert(
            String::from($name),
            Box::new(move |$g: &mut $crate::util::Args| -> $crate::util::R { $body })
                as $crate::util::OpFn,
        );
    };
}

/// Operand kinds.  `ff`/`ffs` refer to a type alias `F` in scope at the call site.
macro_rules! arg {
    ($g:ident, el) => { $g.el()? };
    ($g:ident, af) => { $g.af()? };
    ($g:ident, fq) => { $g.f::<decaf377::Fq>()? };
    ($g:ident, fr) => { $g.f::<decaf377::Fr>()? };
    ($g:ident, fp) => { $g.f::<decaf377::Fp>()? };
    ($g:ident, ff) => { $g.f::<F>()? };
    ($g:ident, by) => { $g.bytes()? };
    ($g:ident, lm) => { $g.limbs()? };
    ($g:ident, bo) => { $g.boolean()? };
    ($g:ident, els) => { $g.el_list()? };
    ($g:ident, afs) => { $g.af_list()? };
    ($g:ident, fqs) => { $g.f_list::<decaf377::Fq>()? };
    ($g:ident, frs) => { $g.f_list::<decaf377::Fr>()? };
    ($g:ident, ffs) => { $g.f_list::<F>()? };
    ($g:ident, u128) => { $g.u128()? };
    ($g:ident, tok) => { $g.next()? };
    ($g:ident, rest) => { $g.rest_string()? };
}

macro_rules! opx {
    ($m:expr, $name:expr, ($($v:ident : $k:ident),*), $out:ident, $body:expr) => {
        op!($m, $name, |g| {
            $( let mut $v = arg!(g, $k); )*
            g.done()?;
            $out($body)
        });
    };
}
