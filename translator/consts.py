#!/usr/bin/env python3
"""consts.py — extract every literal constant of the decaf377 crate (and the
reference constants of ark-bls12-377 / ark-ed-on-bls12-377 from the cargo
registry) into Gallina (coq/Generated/Consts.v).

Every `const NAME: T = <init>;` / `static NAME: T = <init>;` in the listed files
becomes   Definition c_<file>__<scope>__<NAME> : cval := <structured term>.
The initialiser is parsed structurally (paths, calls, arrays, literals,
MontFp!("..") macros, struct literals); anything outside that grammar becomes
(CExpr "<raw text>") and is listed in `unparsed_names`, so that the Coq side can
insist that no constant it has a theorem about is unparsed and that every
extracted name is accounted for.
"""
import re, sys, os, glob

REPO = os.environ.get('VERIF_REPO', '/repo')

REPO_FILES = [
    'src/fields/fq.rs', 'src/fields/fr.rs', 'src/fields/fp.rs',
    'src/fields/fq/arkworks.rs', 'src/fields/fr/arkworks.rs', 'src/fields/fp/arkworks.rs',
    'src/fields/fq/u64/wrapper.rs', 'src/fields/fr/u64/wrapper.rs', 'src/fields/fp/u64/wrapper.rs',
    'src/fields/fq/u32/wrapper.rs', 'src/fields/fr/u32/wrapper.rs', 'src/fields/fp/u32/wrapper.rs',
    'src/ark_curve/edwards.rs', 'src/ark_curve/constants.rs', 'src/min_curve/constants.rs',
    'src/min_curve/element.rs', 'src/ark_curve/element/projective.rs',
    'src/ark_curve/bls12_377.rs', 'src/ark_curve/invsqrt.rs',
]

def registry_files():
    out = []
    for pat in ('ark-bls12-377-0.4.0/src/curves/g1.rs', 'ark-bls12-377-0.4.0/src/curves/g2.rs',
                'ark-bls12-377-0.4.0/src/curves/mod.rs',
                'ark-bls12-377-0.4.0/src/fields/fq.rs', 'ark-bls12-377-0.4.0/src/fields/fr.rs',
                'ark-bls12-377-0.4.0/src/fields/fq2.rs', 'ark-bls12-377-0.4.0/src/fields/fq6.rs',
                'ark-bls12-377-0.4.0/src/fields/fq12.rs',
                'ark-ed-on-bls12-377-0.4.0/src/curves/mod.rs',
                'ark-ed-on-bls12-377-0.4.0/src/fields/fq.rs', 'ark-ed-on-bls12-377-0.4.0/src/fields/fr.rs'):
        g = glob.glob(os.path.expanduser('~/.cargo/registry/src/*/' + pat))
        if g: out.append(g[0])
    return out

# ---------------------------------------------------------------- tokenizer
TOK = re.compile(r'''
    (?P<ws>\s+)
  | (?P<str>"(?:[^"\\]|\\.)*")
  | (?P<num>0x[0-9a-fA-F_]+(?:u8|u16|u32|u64|u128|usize|i32|i64)?|0b[01_]+(?:u8|u16|u32|u64|u128|usize|i32|i64)?|[0-9][0-9_]*(?:u8|u16|u32|u64|u128|usize|i32|i64)?)
  | (?P<life>'[a-zA-Z_][a-zA-Z0-9_]*(?!'))
  | (?P<id>[A-Za-z_][A-Za-z0-9_]*!?)
  | (?P<op>::|->|=>|==|!=|<=|>=|&&|\|\||<<|>>|\+=|-=|\*=|/=|[-+*/%^!&|=<>@.,;:#?$~(){}\[\]])
''', re.X)

def strip_comments(s):
    s = re.sub(r'/\*.*?\*/', ' ', s, flags=re.S)
    out = []
    for line in s.split('\n'):
        # drop // comments (strings in these files never contain //)
        i = line.find('//')
        out.append(line if i < 0 else line[:i])
    return '\n'.join(out)

def tokenize(s):
    toks = []; pos = 0
    while pos < len(s):
        m = TOK.match(s, pos)
        if not m:
            toks.append(('op', s[pos])); pos += 1; continue
        pos = m.end()
        k = m.lastgroup
        if k == 'ws': continue
        toks.append((k, m.group(k)))
    return toks

# ---------------------------------------------------------------- const finder
def find_consts(toks):
    """yield (scope, name, typ_tokens, init_tokens)"""
    res = []
    scope_stack = []   # (depth_at_open, scopename)
    depth = 0
    i = 0; n = len(toks)
    pending_scope = None
    while i < n:
        k, v = toks[i]
        if k == 'id' and v == 'impl' and (i == 0 or toks[i-1][1] not in ('::',)):
            # collect header until '{'
            j = i + 1; hdr = []
            ang = 0
            while j < n and not (toks[j][1] == '{' and ang <= 0):
                if toks[j][1] == '<': ang += 1
                if toks[j][1] == '>': ang -= 1
                if toks[j][1] == '>>': ang -= 2
                hdr.append(toks[j][1]); j += 1
            h = ' '.join(hdr)
            h = re.sub(r'^<[^>]*>\s*', '', h)           # generics of the impl
            h = re.sub(r'\bwhere\b.*$', '', h)
            names = re.findall(r'[A-Za-z_][A-Za-z0-9_]*', re.sub(r'<.*?>', '', h))
            names = [x for x in names if x not in ('for', 'a', 'b', 'core', 'ops', 'crate', 'ark_ff', 'ark_ec')]
            if ' for ' in ' ' + h + ' ':
                sc = '_for_'.join([names[0], names[-1]]) if len(names) >= 2 else '_'.join(names)
            else:
                sc = names[-1] if names else 'impl'
            pending_scope = sc
            i = j; continue
        if k == 'id' and v in ('mod', 'fn', 'trait', 'struct', 'enum') :
            # skip to '{' or ';' ; fn bodies are skipped entirely (no consts of interest inside tests)
            pass
        if v == '{':
            depth += 1
            if pending_scope is not None:
                scope_stack.append((depth, pending_scope)); pending_scope = None
        elif v == '}':
            if scope_stack and scope_stack[-1][0] == depth: scope_stack.pop()
            depth -= 1
        elif k == 'id' and v in ('const', 'static') and i + 2 < n and toks[i+1][0] == 'id' and toks[i+2][1] == ':' \
                and toks[i+1][1] not in ('fn',):
            name = toks[i+1][1]
            j = i + 3; typ = []
            d = 0
            while j < n and not (toks[j][1] == '=' and d == 0):
                if toks[j][1] in '([{<': d += 1
                if toks[j][1] in ')]}>': d -= 1
                if toks[j][1] == '>>': d -= 2
                if toks[j][1] == ';' and d <= 0: break
                if d < 0 or (d == 0 and toks[j][1] == ','): break
                typ.append(toks[j]); j += 1
            if j < n and toks[j][1] == '=':
                j += 1; init = []; d = 0
                while j < n and not (toks[j][1] == ';' and d == 0):
                    if toks[j][1] in '([{': d += 1
                    if toks[j][1] in ')]}': d -= 1
                    init.append(toks[j]); j += 1
                scope = scope_stack[-1][1] if scope_stack else 'top'
                res.append((scope, name, typ, init))
                i = j; continue
        i += 1
    return res

# ---------------------------------------------------------------- initialiser parser
class PErr(Exception): pass

def coqstr(s): return '"' + s.replace('"', '""') + '"'

class P:
    def __init__(self, toks): self.t = toks; self.i = 0
    def peek(self, o=0): return self.t[self.i+o] if self.i+o < len(self.t) else ('eof', '')
    def next(self): x = self.peek(); self.i += 1; return x
    def expect(self, v):
        if self.peek()[1] != v: raise PErr('expected %s got %s' % (v, self.peek()))
        self.i += 1
    def parse(self):
        e = self.arith(0)
        if self.peek()[0] != 'eof': raise PErr('trailing ' + repr(self.peek()))
        return e
    def num(self, v):
        v = re.sub(r'(u8|u16|u32|u64|u128|usize|i32|i64)$', '', v.replace('_', '')) if not v.startswith('0x') else re.sub(r'(u8|u16|u32|u64|u128|usize|i32|i64)$', '', v.replace('_', ''))
        return int(v, 16) if v.startswith('0x') else int(v)
    def arith(self, lvl):
        # + - (lvl 0), * / (lvl 1) over unary expressions; used at top level and inside parentheses
        if lvl == 2: return self.expr()
        e = self.arith(lvl + 1)
        ops = {'+': 'add', '-': 'sub'} if lvl == 0 else {'*': 'mul', '/': 'div'}
        while self.peek()[1] in ops:
            o = ops[self.next()[1]]
            r = self.arith(lvl + 1)
            e = 'CNode "%s" [%s; %s]' % (o, e, r)
        return e
    def expr(self):
        k, v = self.peek()
        if v == '&': self.next(); return self.expr()
        if v == '*': self.next(); return self.expr()
        if v == '-':
            self.next(); e = self.expr(); return 'CNode "neg" [%s]' % e
        if k == 'num': self.next(); return 'CInt (%d)' % self.num(v)
        if k == 'str': self.next(); return 'CStr %s' % coqstr(v[1:-1])
        if v == '[':
            self.next(); items = []
            if self.peek()[1] == ']': self.next(); return 'CList []'
            first = self.expr()
            if self.peek()[1] == ';':
                self.next(); cnt = self.expr(); self.expect(']')
                return 'CNode "repeat" [%s; %s]' % (first, cnt)
            items.append(first)
            while self.peek()[1] == ',':
                self.next()
                if self.peek()[1] == ']': break
                items.append(self.expr())
            self.expect(']')
            ints = [re.match(r'^CInt \((-?\d+)\)$', x) for x in items]
            if all(ints): return 'CInts [%s]' % '; '.join(m.group(1) for m in ints)
            return 'CList [%s]' % '; '.join(items)
        if v == '(':
            self.next(); items = []
            while self.peek()[1] != ')':
                items.append(self.arith(0))
                if self.peek()[1] == ',': self.next()
            self.expect(')')
            return items[0] if len(items) == 1 else 'CNode "tuple" [%s]' % '; '.join(items)
        if v == '|':   # closure  || body
            self.next(); self.expect('|'); return self.expr()
        if v == '||': self.next(); return self.expr()
        if v == '{':   # block: { let x: T = e; x.into() }  -> e
            self.next()
            if self.peek()[1] == 'let':
                self.next(); self.next()
                if self.peek()[1] == ':':
                    self.next()
                    while self.peek()[1] != '=': self.next()
                self.expect('='); e = self.expr(); self.expect(';')
                # tail: ident(.method())* — ignore conversions
                while self.peek()[1] != '}':
                    self.next()
                self.expect('}'); return e
            e = self.expr(); self.expect('}'); return e
        if k == 'id':
            path = [self.next()[1]]
            while self.peek()[1] == '::' or self.peek()[1] == '<':
                if self.peek()[1] == '<':
                    d = 0
                    while True:
                        x = self.next()[1]
                        if x == '<': d += 1
                        elif x == '>': d -= 1
                        elif x == '>>': d -= 2
                        if d <= 0: break
                    continue
                self.next()
                if self.peek()[1] == '<': continue
                path.append(self.next()[1])
            name = '::'.join(path)
            if name.endswith('!'):   # macro
                self.expect('('); args = []
                while self.peek()[1] != ')':
                    args.append(self.expr())
                    if self.peek()[1] == ',': self.next()
                self.expect(')')
                if name.endswith('MontFp!') and len(args) == 1 and args[0].startswith('CStr "'):
                    s = args[0][6:-1]
                    neg = s.startswith('-')
                    return 'CDec (%s%s)' % ('-' if neg else '', s.lstrip('-'))
                return 'CNode %s [%s]' % (coqstr(name), '; '.join(args))
            e = None
            if self.peek()[1] == '(':
                self.next(); args = []
                while self.peek()[1] != ')':
                    args.append(self.expr())
                    if self.peek()[1] == ',': self.next()
                self.expect(')')
                if name.endswith('from_montgomery_limbs') and len(args) == 1 and args[0].startswith('CInts'):
                    e = 'CMont %s %s' % (coqstr(name.rsplit('::', 1)[0] if '::' in name else 'Self'), args[0][6:])
                elif name in ('Lazy::new', 'BigInt', 'ark_ff::BigInt', 'BigInt::new', 'Some') and len(args) == 1:
                    e = args[0]
                else:
                    e = 'CNode %s [%s]' % (coqstr(name), '; '.join(args))
            elif self.peek()[1] == '{' and name[0].isupper() and self.peek(1)[0] == 'id' and self.peek(2)[1] == ':':
                self.next(); fields = []
                while self.peek()[1] != '}':
                    fn = self.next()[1]; self.expect(':'); fe = self.expr()
                    fields.append('CNode %s [%s]' % (coqstr(fn), fe))
                    if self.peek()[1] == ',': self.next()
                self.expect('}')
                e = 'CNode %s [%s]' % (coqstr('struct ' + name), '; '.join(fields))
            else:
                if name in ('true', 'false'): e = 'CBool %s' % name
                else: e = 'CRef %s' % coqstr(name)
            if self.peek()[1] == '.':
                raise PErr('method call')
            return e
        raise PErr('unexpected %r' % (self.peek(),))

def raw(toks): return ' '.join(v for _, v in toks)

def extract(path, tag):
    s = strip_comments(open(path).read())
    # drop #[cfg(test)] modules
    s = re.sub(r'#\[cfg\(test\)\]\s*(?:pub\s+)?mod\s+\w+\s*;', ' ', s)
    s = re.split(r'#\[cfg\((?:all\()?test', s)[0]
    toks = tokenize(s)
    out = []
    for scope, name, typ, init in find_consts(toks):
        try:
            term = P(init).parse(); ok = True
        except PErr as e:
            term = 'CExpr %s' % coqstr(raw(init)); ok = False
        out.append((tag, scope, name, raw(typ), term, ok))
    return out

def sanitize(x): return re.sub(r'[^A-Za-z0-9_]', '_', x)

def main(outpath):
    recs = []
    for f in REPO_FILES:
        p = os.path.join(REPO, f)
        if not os.path.exists(p):
            recs.append((sanitize(f[4:]), 'MISSING', 'FILE', '', 'CExpr "missing file"', False)); continue
        recs += extract(p, sanitize(f[4:]))
    for p in registry_files():
        m = re.search(r'/(ark-[a-z0-9-]+)-0\.4\.0/src/(.*)$', p)
        recs += extract(p, 'ref_' + sanitize(m.group(1)) + '_' + sanitize(m.group(2)))
    lines = ['(* GENERATED by translator/consts.py from the current source tree — do not edit *)',
             'Require Import ZArith List String. From D377 Require Import Model.CVal.',
             'Import ListNotations. Open Scope Z_scope. Open Scope string_scope.', '']
    seen = {}
    names = []
    for tag, scope, name, typ, term, ok in recs:
        ident = 'c_%s__%s__%s' % (tag, sanitize(scope), name)
        if ident in seen:
            seen[ident] += 1; ident = '%s__dup%d' % (ident, seen[ident])
        else: seen[ident] = 0
        lines.append('Definition %s : cval := %s.' % (ident, term))
        names.append((ident, ok, typ))
    lines.append('')
    lines.append('Definition all_consts : list (string * cval) := [')
    lines.append(';\n'.join('  (%s, %s)' % (coqstr(i), i) for i, _, _ in names))
    lines.append('].')
    lines.append('Definition unparsed_names : list string := [%s].' % '; '.join(coqstr(i) for i, ok, _ in names if not ok))
    txt = '\n'.join(lines) + '\n'
    old = open(outpath).read() if os.path.exists(outpath) else None
    if old != txt:
        os.makedirs(os.path.dirname(outpath), exist_ok=True)
        open(outpath, 'w').write(txt)
    return names

if __name__ == '__main__':
    out = sys.argv[1] if len(sys.argv) > 1 else '/verif/coq/Generated/Consts.v'
    ns = main(out)
    print('%d constants (%d unparsed) -> %s' % (len(ns), sum(1 for _, ok, _ in ns if not ok), out))
