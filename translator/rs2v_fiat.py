#!/usr/bin/env python3
"""rs2v_fiat.py — translate the straight-line fiat-crypto code of the 32-bit backend (src/fields/{fq,fr,fp}/u32/fiat.rs)
into Gallina over Z with the machine semantics written out: every `+ - * << !` is wrapped to the Rust type it is computed in
(release-build semantics: two's complement wrap-around), every `as` is a truncating / sign-reinterpreting cast, `&`, `|`, `>>`
are the integer operations (arithmetic shift on signed values).  The four primitives (addcarryx, subborrowx, mulx, cmovznz)
are translated from their own bodies in the same file, not assumed.
Output: coq/Generated/Fiat{Fq,Fr,Fp}.v.  Proofs/FiatProofs.v + Props/C10.v prove, for ALL limb values, that the translated add / sub /
opp / selectznz / nonzero / to_bytes / from_bytes compute exact modular arithmetic / the little-endian byte form.
Anything outside the grammar below is a TRANSLATION-ERROR (reported, the function is left out)."""
import re, sys, os

REPO = os.environ.get('VERIF_REPO', '/repo')

class TranslationError(Exception): pass

TYPES = {'u8': 'U8', 'i8': 'I8', 'u32': 'U32', 'u64': 'U64', 'i64': 'I64', 'u128': 'U128', 'i128': 'I128', 'u16': 'U16', 'i16': 'I16', 'i32': 'I32'}

# which functions are translated per field (prefix substituted); the primitives come first
PRIMS = ['addcarryx_u32', 'subborrowx_u32', 'mulx_u32', 'cmovznz_u32']
FUNCS = ['add', 'sub', 'opp', 'nonzero', 'selectznz', 'to_bytes', 'from_bytes', 'set_one', 'msat']

TOK = re.compile(r'\s*(0x[0-9a-fA-F_]+|[0-9][0-9_]*|[A-Za-z_][A-Za-z0-9_]*|<<|>>|&mut|[-+*&|!()\[\];:,=.])')

def tokenize(s):
    s = re.sub(r'//[^\n]*', '', s)
    s = re.sub(r'/\*.*?\*/', '', s, flags=re.S)
    out = []; i = 0
    while i < len(s):
        m = TOK.match(s, i)
        if not m:
            if s[i:].strip() == '': break
            raise TranslationError('cannot tokenize near %r' % s[i:i + 30])
        out.append(m.group(1)); i = m.end()
    return out

class P:
    def __init__(self, toks, aliases, env, fns):
        self.t = toks; self.i = 0; self.aliases = aliases; self.env = env; self.fns = fns
    def peek(self, k=0): return self.t[self.i + k] if self.i + k < len(self.t) else None
    def eat(self, x=None):
        tk = self.peek()
        if tk is None or (x is not None and tk != x): raise TranslationError('expected %r, found %r' % (x, tk))
        self.i += 1; return tk
    def ty(self, name):
        name = self.aliases.get(name, name)
        if name not in TYPES: raise TranslationError('type %s outside the subset' % name)
        return TYPES[name]
    # precedence (low -> high): |  &  << >>  + -  *  as  unary
    def expr(self): return self.p_or()
    def binl(self, sub, ops):
        l = sub()
        while self.peek() in ops:
            op = self.eat(); r = sub(); l = self.mk(op, l, r)
        return l
    def p_or(self): return self.binl(self.p_and, ('|',))
    def p_and(self): return self.binl(self.p_shift, ('&',))
    def p_shift(self): return self.binl(self.p_add, ('<<', '>>'))
    def p_add(self): return self.binl(self.p_mul, ('+', '-'))
    def p_mul(self): return self.binl(self.p_as, ('*',))
    def p_as(self):
        e = self.p_un()
        while self.peek() == 'as':
            self.eat(); t = self.ty(self.eat()); e = ('(cast %s %s)' % (t, e[0]), t)
        return e
    def p_un(self):
        tk = self.peek()
        if tk == '!':
            self.eat(); e = self.p_un()
            if e[1] is None: raise TranslationError('! on an untyped literal')
            return ('(wrap %s (Z.lnot %s))' % (e[1], e[0]), e[1])
        if tk == '(':
            self.eat(); e = self.expr(); self.eat(')'); return e
        if tk == '-': raise TranslationError('unary minus outside the subset')
        self.eat()
        if re.match(r'0x', tk): return ('%d' % int(tk.replace('_', ''), 16), None)
        if re.match(r'[0-9]', tk): return ('%d' % int(tk.replace('_', '')), None)
        if self.peek() == '[':
            self.eat(); idx = self.eat(); self.eat(']')
            if not idx.isdigit(): raise TranslationError('non-literal index')
            if tk not in self.env: raise TranslationError('unknown array %s' % tk)
            return ('(nth %s %s 0)' % (idx, tk), self.env[tk][1])
        if tk not in self.env: raise TranslationError('unknown variable %s' % tk)
        if self.env[tk][0] != 'scalar': raise TranslationError('array %s used as a scalar' % tk)
        return (tk, self.env[tk][1])
    def mk(self, op, l, r):
        t = l[1] if l[1] is not None else r[1]
        if l[1] is not None and r[1] is not None and l[1] != r[1] and op not in ('<<', '>>'):
            raise TranslationError('operands of %s have different types %s / %s' % (op, l[1], r[1]))
        if op in ('<<', '>>'): t = l[1]
        a, b = l[0], r[0]
        if t is None: raise TranslationError('untyped operation %s' % op)
        if op == '+': return ('(wrap %s (%s + %s))' % (t, a, b), t)
        if op == '-': return ('(wrap %s (%s - %s))' % (t, a, b), t)
        if op == '*': return ('(wrap %s (%s * %s))' % (t, a, b), t)
        if op == '&': return ('(Z.land %s %s)' % (a, b), t)
        if op == '|': return ('(Z.lor %s %s)' % (a, b), t)
        if op == '>>': return ('(Z.shiftr %s %s)' % (a, b), t)
        if op == '<<': return ('(wrap %s (Z.shiftl %s %s))' % (t, a, b), t)
        raise TranslationError('operator %s' % op)

def parse_sig(sig, aliases, structs):
    """-> list of (name, kind, elemtype, length, is_out)"""
    params = []
    for part in re.split(r',\s*(?![^\[]*\])', sig.strip().rstrip(',')):
        part = part.strip()
        if not part: continue
        m = re.match(r'(\w+)\s*:\s*(&mut\s+|&\s*)?(.*)$', part, flags=re.S)
        if not m: raise TranslationError('parameter %r' % part)
        name, ref, ty = m.group(1), (m.group(2) or '').strip(), m.group(3).strip()
        is_out = ref.startswith('&mut')
        if ty in structs: ty = structs[ty]
        ma = re.match(r'\[\s*(\w+)\s*;\s*(\d+)\s*\]$', ty)
        if ma:
            et = aliases.get(ma.group(1), ma.group(1))
            if et not in TYPES: raise TranslationError('element type %s' % et)
            params.append((name, 'array', TYPES[et], int(ma.group(2)), is_out))
        else:
            t = aliases.get(ty, ty)
            if t not in TYPES: raise TranslationError('parameter type %s' % ty)
            params.append((name, 'scalar', TYPES[t], 0, is_out))
    return params

def translate_file(path, prefix):
    src = open(path).read()
    aliases = dict(re.findall(r'pub type (\w+) = (\w+);', src))
    structs = {m.group(1): m.group(2).strip() for m in re.finditer(r'pub struct (\w+)\(pub (\[[^\]]+\])\);', src)}
    fns = {}; out = []; errors = []; sigs = {}
    for short in PRIMS + FUNCS:
        name = prefix + short
        m = re.search(r'pub fn %s\s*\((.*?)\)\s*\{(.*?)\n\}' % re.escape(name), src, flags=re.S)
        if not m:
            if short in PRIMS or short in ('add', 'sub', 'opp'): errors.append('TRANSLATION-ERROR rs2v_fiat: %s not found in %s' % (name, path))
            continue
        try:
            params = parse_sig(m.group(1), aliases, structs)
            outs = [p for p in params if p[4]]; ins = [p for p in params if not p[4]]
            env = {p[0]: (p[1], p[2]) for p in ins}
            lines = []; assigned = {p[0]: ({} if p[1] == 'array' else None) for p in outs}
            body = re.sub(r'//[^\n]*', '', m.group(2))
            for st in [s.strip() for s in body.split(';') if s.strip()]:
                st1 = ' '.join(st.split())
                mm = re.match(r'let mut (\w+)\s*:\s*(\w+)\s*=\s*0$', st1)
                if mm: continue
                mm = re.match(r'let (\w+)\s*:\s*(\w+)\s*=\s*(.*)$', st1)
                if mm:
                    v, t, e = mm.group(1), mm.group(2), mm.group(3)
                    t = aliases.get(t, t)
                    if t not in TYPES: raise TranslationError('type %s' % t)
                    pe = P(tokenize(e), aliases, env, fns); ex = pe.expr()
                    if pe.peek() is not None: raise TranslationError('trailing tokens in %r' % e)
                    if ex[1] is not None and ex[1] != TYPES[t]: raise TranslationError('let %s: declared %s, expression has %s' % (v, t, ex[1]))
                    lines.append('let %s := %s in' % (v, ex[0])); env[v] = ('scalar', TYPES[t]); continue
                mm = re.match(r'\*(\w+)\s*=\s*(.*)$', st1)
                if mm:
                    o, e = mm.group(1), mm.group(2)
                    if o not in assigned or assigned[o] is not None and not isinstance(assigned[o], str): raise TranslationError('assignment to %s' % o)
                    pe = P(tokenize(e), aliases, env, fns); ex = pe.expr()
                    ot = [p for p in outs if p[0] == o][0][2]
                    if ex[1] is not None and ex[1] != ot: raise TranslationError('*%s: type %s expected, %s found' % (o, ot, ex[1]))
                    assigned[o] = ex[0]; continue
                mm = re.match(r'(\w+)\[(\d+)\]\s*=\s*(.*)$', st1)
                if mm:
                    o, idx, e = mm.group(1), int(mm.group(2)), mm.group(3)
                    if o not in assigned or not isinstance(assigned[o], dict): raise TranslationError('indexed assignment to %s' % o)
                    pe = P(tokenize(e), aliases, env, fns); ex = pe.expr()
                    ot = [p for p in outs if p[0] == o][0][2]
                    if ex[1] is not None and ex[1] != ot: raise TranslationError('%s[%d]: type %s expected, %s found' % (o, idx, ot, ex[1]))
                    if idx in assigned[o]: raise TranslationError('%s[%d] assigned twice' % (o, idx))
                    assigned[o][idx] = ex[0]; continue
                mm = re.match(r'(\w+)\s*\((.*)\)$', st1)
                if mm and mm.group(1) in sigs:
                    callee = mm.group(1); cps = sigs[callee]
                    args = [a.strip() for a in re.split(r',\s*(?![^()]*\))', mm.group(2).strip().rstrip(',')) if a.strip()]
                    # re-split respecting nested parentheses
                    args = []; depth = 0; cur = ''
                    for ch in mm.group(2):
                        if ch == ',' and depth == 0: args.append(cur.strip()); cur = ''; continue
                        if ch in '([': depth += 1
                        if ch in ')]': depth -= 1
                        cur += ch
                    if cur.strip(): args.append(cur.strip())
                    if len(args) != len(cps): raise TranslationError('call of %s: %d arguments for %d parameters' % (callee, len(args), len(cps)))
                    outvars = []; inexprs = []
                    for a, cp in zip(args, cps):
                        if cp[4]:
                            ma = re.match(r'&mut (\w+)$', a)
                            if not ma or cp[1] != 'scalar': raise TranslationError('out argument %r' % a)
                            outvars.append((ma.group(1), cp[2]))
                        else:
                            if cp[1] != 'scalar': raise TranslationError('array argument in call of %s' % callee)
                            pe = P(tokenize(a), aliases, env, fns); ex = pe.expr()
                            if pe.peek() is not None: raise TranslationError('trailing tokens in %r' % a)
                            if ex[1] is not None and ex[1] != cp[2]: raise TranslationError('argument %r of %s: %s expected, %s found' % (a, callee, cp[2], ex[1]))
                            inexprs.append(ex[0])
                    call = '(%s %s)' % (callee, ' '.join(inexprs))
                    if len(outvars) == 1:
                        lines.append('let %s := %s in' % (outvars[0][0], call))
                    elif len(outvars) == 2:
                        lines.append('let %s := fst %s in' % (outvars[0][0], call))
                        lines.append('let %s := snd %s in' % (outvars[1][0], call))
                    else: raise TranslationError('call with %d outputs' % len(outvars))
                    for v, t in outvars: env[v] = ('scalar', t)
                    continue
                raise TranslationError('statement outside the subset: %r' % st1[:80])
            rets = []
            for p in outs:
                a = assigned[p[0]]
                if p[1] == 'array':
                    if sorted(a.keys()) != list(range(p[3])): raise TranslationError('%s: not every index of %s assigned' % (name, p[0]))
                    rets.append('[' + '; '.join(a[i] for i in range(p[3])) + ']')
                else:
                    if a is None: raise TranslationError('%s: output %s never assigned' % (name, p[0]))
                    rets.append(a)
            ret = rets[0] if len(rets) == 1 else '(' + ', '.join(rets) + ')'
            ps = ' '.join('(%s : %s)' % (p[0], 'list Z' if p[1] == 'array' else 'Z') for p in ins)
            rt = ' * '.join('list Z' if p[1] == 'array' else 'Z' for p in outs)
            out.append('Definition %s %s : %s :=\n  %s\n  %s.\n' % (name, ps, rt, '\n  '.join(lines), ret))
            sigs[name] = params
        except TranslationError as e:
            errors.append('TRANSLATION-ERROR rs2v_fiat: %s (%s): %s' % (name, os.path.relpath(path, REPO), e))
            out.append('(* %s: NOT TRANSLATED: %s *)\n' % (name, e))
    return out, errors, len(sigs)

HEADER = '''(* GENERATED by translator/rs2v_fiat.py from %s — do not edit. *)
Require Import ZArith List.
From D377 Require Import Model.FiatPrelude.
Import ListNotations.
Open Scope Z_scope.
'''

def main(outdir):
    allerr = []; total = 0
    for fld, mod in (('fq', 'FiatFq'), ('fr', 'FiatFr'), ('fp', 'FiatFp')):
        path = os.path.join(REPO, 'src/fields/%s/u32/fiat.rs' % fld)
        outp = os.path.join(outdir, mod + '.v')
        try:
            defs, errs, n = translate_file(path, fld + '_')
        except Exception as e:
            defs, errs, n = [], ['TRANSLATION-ERROR rs2v_fiat: %s: %s' % (path, e)], 0
        allerr += errs; total += n
        txt = HEADER % ('src/fields/%s/u32/fiat.rs' % fld) + '\n'.join(defs)
        if not os.path.exists(outp) or open(outp).read() != txt: open(outp, 'w').write(txt)
    for e in allerr: print(e)
    print('rs2v_fiat: %d functions, %d errors -> %s/Fiat{Fq,Fr,Fp}.v' % (total, len(allerr), outdir))
    return 0

if __name__ == '__main__':
    sys.exit(main(sys.argv[1] if len(sys.argv) > 1 else '/verif/coq/Generated'))
