#!/usr/bin/env python3
"""rs2v_gadgets.py — translate the R1CS gadget bodies (src/ark_curve/r1cs/{fqvar_ext,inner}.rs) to Gallina in the
"satisfiability + values" semantics of coq/Model/Gadgets.v:

  * an FqVar / Boolean variable is translated to its VALUE (an element of F / a bool);
  * every r1cs-std primitive is translated to the value it forces plus the condition under which its constraints are
    satisfiable, accumulated in the boolean `sat`:
        a * b, a + b, a - b, x.square()?, x.negate()?      -> field operations (always satisfiable)
        x.inverse()?                                       -> inv x,        sat &&= (x <> 0)
        x.is_eq(&y)?                                       -> feqb x y      (Boolean determined by the constraints)
        FqVar::conditionally_select(&c, &a, &b)?           -> if c then a else b
        a.conditional_enforce_equal(&b, &c)?               -> sat &&= (c -> a = b)
        b.enforce_equal(&Boolean::TRUE)?                   -> sat &&= b
        p.and(&q)?, p.or(&q)?, p.not()                     -> && || negb
        x.is_negative()? / is_nonnegative()?               -> neg x / negb (neg x)   (lowest bit of the canonical bits)
        x.abs()?                                           -> gabs neg x
        x.to_bits_le()?                                    -> bits_le x   (the UNIQUE little-endian bit decomposition: r1cs-std enforces
                                                              that the bits denote an integer below the modulus); bits[i] -> nth i bits false.
                                                              `to_non_unique_bits_le` has no translation: its bits are the prover's choice.
        Boolean::new_witness(cs, || Ok(v)) / FqVar::new_witness(cs, || Ok(v))   -> the witnessed value v
  * the out-of-circuit square root in `isqrt` (`Fq::sqrt_ratio_zeta(&ONE, &den)`) is replaced by the HINT parameters
    (hint_ws, hint_y): the prover is free to witness anything; `x.isqrt()?` inside another gadget becomes a call of the
    generated isqrt on the gadget's hint parameters;
  * statements guarded by #[cfg(decaf377_verif)] (the verification hooks) are skipped.
Anything else raises TranslationError (reported as a broken tie)."""
import re, sys, os
sys.path.insert(0, os.path.dirname(os.path.abspath(__file__)))
from rs2v import *
import rs2v

class GTr:
    def __init__(self, cfg):
        self.cfg = cfg; self.ty = dict(cfg.get('types', {})); self.pre = []
    def typeof(self, n):
        if n.k == 'var': return self.ty.get(n.name, 'F')
        if n.k == 'un': return 'B' if n.op == '!' else self.typeof(n.a)
        if n.k == 'mcall':
            if n.name in ('is_eq', 'is_negative', 'is_nonnegative', 'and', 'or', 'not'): return 'B'
            if n.name == 'to_bits_le': return 'L'
            if n.name in ('clone', 'unwrap_or'): return self.typeof(n.e)
            return 'F'
        if n.k == 'try': return self.typeof(n.e)
        if n.k == 'index': return 'B'
        if n.k == 'call' and n.f in ('Boolean::new_witness',): return 'B'
        if n.k == 'call' and n.f.endswith('conditionally_select'): return self.typeof(n.args[1])
        return 'F'
    def e(self, n):
        k = n.k
        if k == 'try': return self.e(n.e)
        if k == 'int': return '(fofZ %d)' % n.v
        if k == 'var':
            nm = n.name
            if nm in getattr(self, 'blockenv', {}): return self.blockenv[nm]
            c = self.cfg['consts'].get(nm)
            if c: return c
            if nm == 'self': return 'self_'
            if nm in ('Fq::ONE',): return '1'
            if nm in ('Boolean::TRUE', 'Boolean::<Fq>::TRUE'): return 'true'
            if nm in ('Boolean::FALSE', 'Boolean::<Fq>::FALSE'): return 'false'
            if '::' in nm: raise TranslationError('unknown path %s' % nm)
            return rs2v.RESERVED and (nm + '_' if nm in rs2v.RESERVED else nm)
        if k == 'un':
            if n.op in ('*', '&'): return self.e(n.a)
            if n.op == '-': return '(- (%s))' % self.e(n.a)
            if n.op == '!': return '(negb %s)' % self.e(n.a)
        if k == 'bin':
            a = self.e(n.a); b = self.e(n.b)
            if n.op in ('+', '-', '*'): return '(%s %s %s)' % (a, n.op, b)
            raise TranslationError('gadget binary operator %s' % n.op)
        if k == 'tuple': return '(%s)' % ', '.join(self.e(x) for x in n.items)
        if k == 'closure': return self.e(n.body)
        if k == 'blockexpr':      # a block used as a value (the body of a witness closure): lets + tail expression, no constraints of its own
            # local lets are inlined (by substitution), so that a side condition raised inside (the inverse must exist) is expressed
            # over the variables of the enclosing scope
            saved = dict(getattr(self, 'blockenv', {})); self.blockenv = dict(saved)
            try:
                for st in n.body:
                    if st.k == 'let' and st.pat.k == 'pvar': self.blockenv[st.pat.name] = self.e(st.e)
                    elif st.k == 'exprstmt': return self.e(st.e)
                    else: raise TranslationError('statement in a value block')
                raise TranslationError('value block without tail expression')
            finally:
                self.blockenv = saved
        if k == 'mcall':
            m = n.name
            if m in ('clone', 'cs'): return self.e(n.e) if m == 'clone' else 'tt'
            x = self.e(n.e)
            if m == 'value': return x
            if m == 'unwrap_or': return x
            if m == 'square': return '(%s * %s)' % (x, x)
            if m == 'double': return '(%s + %s)' % (x, x)
            if m == 'negate': return '(- (%s))' % x
            if m == 'inverse':
                self.pre.append('negb (feqb %s 0)' % x); return '(inv %s)' % x
            if m == 'is_eq':
                y = self.e(n.args[0])
                return '(Bool.eqb %s %s)' % (x, y) if self.typeof(n.e) == 'B' else '(feqb %s %s)' % (x, y)
            if m == 'not': return '(negb %s)' % x
            if m == 'and': return '(%s && %s)' % (x, self.e(n.args[0]))
            if m == 'or': return '(%s || %s)' % (x, self.e(n.args[0]))
            if m == 'is_negative': return '(neg %s)' % x
            if m == 'is_nonnegative': return '(negb (neg %s))' % x
            if m == 'abs': return '(gabs neg %s)' % x
            if m == 'to_bits_le': return '(bits_le %s)' % x
            if m == 'isqrt':
                # a nested call of the (generated) isqrt gadget on this gadget's hint pair
                self.pre.append('fst (isqrt_gen %s hint_ws hint_y)' % x)
                return '(snd (isqrt_gen %s hint_ws hint_y))' % x
            raise TranslationError('gadget method .%s()' % m)
        if k == 'call':
            f = n.f
            if f in ('Ok',): return self.e(n.args[0])
            if f in ('FqVar::zero',): return '0'
            if f in ('FqVar::one',): return '1'
            if f in ('FqVar::constant',): return self.e(n.args[0])
            if f in ('FqVar::new_constant',): return self.e(n.args[1])
            if f in ('Boolean::new_witness', 'FqVar::new_witness', 'F::new_witness'): return self.e(n.args[1])
            if f in ('P::BaseField::one',): return '1'
            if f == 'FqVar::conditionally_select':
                c, a, b = [self.e(x) for x in n.args]; return '(if %s then %s else %s)' % (c, a, b)
            if f in ('Fq::sqrt_ratio_zeta',):
                if self.cfg.get('const_mode'): return '(sr %s %s)' % (self.e(n.args[0]), self.e(n.args[1]))
                return '(hint_ws, hint_y)'
            if f in ('Boolean::constant',): return self.e(n.args[0])
            if f == 'Fq::from' and n.args[0].k == 'int': return '(fofZ %d)' % n.args[0].v
            if f in ('AffineVar::new',): return '(%s, %s)' % (self.e(n.args[0]), self.e(n.args[1]))
            raise TranslationError('gadget call %s' % f)
        if k == 'index':
            if self.typeof(n.e) != 'L' or n.ix.k != 'int': raise TranslationError('gadget index expression')
            return '(List.nth %d %s false)' % (n.ix.v, self.e(n.e))
        if k == 'struct':
            d = dict(n.fields)
            if set(d) == {'inner'}: return self.e(d['inner'])
        if k == 'field':
            if n.name in ('x', 'y') and n.e.k == 'field' and n.e.name == 'inner': return 'self_' + n.name
            if n.name in ('x', 'y') and n.e.k == 'var' and n.e.name in ('this', 'other', 'self'): return '%s_%s' % (n.e.name, n.name)
            raise TranslationError('gadget field .%s' % n.name)
        raise TranslationError('gadget expression kind %s' % k)
    def pat(self, p):
        if p.k == 'pvar':
            nm = p.name
            if nm in rs2v.RESERVED: nm += '_'
            return nm
        if p.k == 'ptuple': return "'(%s)" % ', '.join(self.pat(q).lstrip("'") for q in p.items)
        raise TranslationError('pattern')
    def flush(self):
        out = ''.join('let sat := sat && (%s) in\n    ' % c for c in self.pre); self.pre = []; return out
    def stmts(self, ss):
        if not ss: raise TranslationError('gadget without result')
        s, rest = ss[0], ss[1:]
        if s.k == 'skip': return self.stmts(rest)
        if s.k == 'let':
            if s.e is None: return self.stmts(rest)
            rhs = self.e(s.e); pre = self.flush()
            if s.pat.k == 'pvar': self.ty[s.pat.name] = self.typeof(s.e)
            elif s.pat.k == 'ptuple' and len(s.pat.items) == 2:
                a, b = s.pat.items
                if a.k == 'pvar': self.ty[a.name] = 'B'
            return pre + 'let %s := %s in\n    %s' % (self.pat(s.pat), rhs, self.stmts(rest))
        if s.k == 'assign' and s.lhs.k == 'field' and s.lhs.e.k == 'var' and s.lhs.e.name == 'self' and s.op == '=':
            rhs = self.e(s.rhs); pre = self.flush()
            if not rest: return pre + 'let self_%s := %s in\n    (sat, (self_x, self_y))' % (s.lhs.name, rhs)
            return pre + 'let self_%s := %s in\n    %s' % (s.lhs.name, rhs, self.stmts(rest))
        if s.k == 'assign':
            v = s.lhs.name if s.lhs.k == 'var' else None
            if v is None: raise TranslationError('gadget assignment target')
            rhs = self.e(s.rhs) if s.op == '=' else self.e(N('bin', op=s.op[:-1], a=s.lhs, b=s.rhs))
            pre = self.flush()
            return pre + 'let %s := %s in\n    %s' % (v, rhs, self.stmts(rest))
        if s.k == 'return':
            if rest: raise TranslationError('statements after return')
            v = self.e(s.e); pre = self.flush()
            return pre + '(sat, %s)' % v
        if s.k == 'exprstmt':
            e = s.e
            inner = e.e if e.k == 'try' else e
            if inner.k == 'mcall' and inner.name == 'conditional_enforce_equal':
                a = self.e(inner.e); b = self.e(inner.args[0]); c = self.e(inner.args[1]); pre = self.flush()
                cond = 'implb %s (feqb %s %s)' % (c, a, b)
                return pre + 'let sat := sat && (%s) in\n    %s' % (cond, self.stmts(rest))
            if inner.k == 'mcall' and inner.name == 'mul_equals':      # x.mul_equals(a, b): x * a = b
                x = self.e(inner.e); a = self.e(inner.args[0]); b = self.e(inner.args[1]); pre = self.flush()
                return pre + 'let sat := sat && (feqb (%s * %s) %s) in\n    %s' % (x, a, b, self.stmts(rest))
            if inner.k == 'mcall' and inner.name == 'enforce_equal':
                a = self.e(inner.e); b = self.e(inner.args[0]); pre = self.flush()
                cond = a if b == 'true' else '(Bool.eqb %s %s)' % (a, b)
                return pre + 'let sat := sat && (%s) in\n    %s' % (cond, self.stmts(rest))
            if not rest:
                v = self.e(e); pre = self.flush()
                return pre + '(sat, %s)' % v
            raise TranslationError('gadget expression statement')
        raise TranslationError('gadget statement kind %s' % s.k)

CONSTS = {'P::COEFF_A': 'cA', 'P::COEFF_D': 'cD', 'ZETA': 'zeta', 'Fq::ONE': '1', 'Decaf377EdwardsConfig::COEFF_A': 'cA', 'Decaf377EdwardsConfig::COEFF_D': 'cD', 'D4': 'D4'}
GTARGETS = [
  ('is_nonnegative_gen', 'src/ark_curve/r1cs/fqvar_ext.rs', 'is_nonnegative', 'impl FqVarExtension for FqVar', '(self_ : F) : bool * bool', {}),
  ('is_negative_gen', 'src/ark_curve/r1cs/fqvar_ext.rs', 'is_negative', 'impl FqVarExtension for FqVar', '(self_ : F) : bool * bool', {}),
  ('abs_gen', 'src/ark_curve/r1cs/fqvar_ext.rs', 'abs', 'impl FqVarExtension for FqVar', '(self_ : F) : bool * F', {}),
  ('isqrt_gen', 'src/ark_curve/r1cs/fqvar_ext.rs', 'isqrt', 'impl FqVarExtension for FqVar', '(self_ : F) (hint_ws : bool) (hint_y : F) : bool * (bool * F)', {}),
  ('decode_gen', 'src/ark_curve/r1cs/inner.rs', 'decompress_from_field', None, '(s_var : F) (hint_ws : bool) (hint_y : F) : bool * (F * F)', {}),
  ('encode_gen', 'src/ark_curve/r1cs/inner.rs', 'compress_to_field', None, '(self_x self_y : F) (hint_ws : bool) (hint_y : F) : bool * F', {}),
  ('elligator_gen', 'src/ark_curve/r1cs/inner.rs', 'elligator_map', None, '(r_0_var : F) (hint_ws : bool) (hint_y : F) : bool * (F * F)', {}),
]
HEADER = '''(* GENERATED by translator/rs2v_gadgets.py from the current gadget sources — do not edit.
   Semantics of the translation: see translator/rs2v_gadgets.py (values + accumulated satisfiability). *)
Require Import ZArith List Bool.
From D377 Require Import Base.FieldSec Model.Decaf Model.Gadgets.
Section GeneratedGadgets.
  Context {AF : AField}.
  Variables (cA cD zeta : F).
  Variable neg : F -> bool.
  Variable sr : F -> F -> bool * F.
  Variable bits_le : F -> list bool.     (* ToBitsGadget::to_bits_le: the unique (range-checked) little-endian bits *)
  Local Notation "0" := zero. Local Notation "1" := one.
  Local Infix "+" := add. Local Infix "*" := mul. Local Infix "-" := sub.
  Local Notation "- x" := (opp x).
  Local Notation gabs := (@gabs AF).
'''

def split_constant_path(body):
    """`if let FqVar::Constant(x) = self { BLOCK }` at the top of a gadget: the fast path for constant inputs.  Returns
    (name of x, BLOCK, body without the if-let) or (None, None, body)."""
    m = re.search(r'\bif\s+let\s+FqVar::Constant\(\s*(\w+)\s*\)\s*=\s*self\s*\{', body)
    if not m: return None, None, body
    i = m.end() - 1; d = 0; k = i
    while k < len(body):
        if body[k] == '{': d += 1
        elif body[k] == '}':
            d -= 1
            if d == 0: break
        k += 1
    return m.group(1), body[i + 1:k], body[:m.start()] + body[k + 1:]

def r1cs_std_dir():
    import glob
    lock = open(os.path.join(REPO, 'Cargo.lock')).read()
    m = re.search(r'name = "ark-r1cs-std"\s*\nversion = "([^"]+)"', lock)
    if not m: raise TranslationError('ark-r1cs-std not found in Cargo.lock')
    home = os.environ.get('CARGO_HOME', os.path.expanduser('~/.cargo'))
    ds = sorted(glob.glob(os.path.join(home, 'registry', 'src', '*', 'ark-r1cs-std-' + m.group(1))))
    if not ds: raise TranslationError('ark-r1cs-std-%s sources not found in the cargo registry' % m.group(1))
    return ds[0], m.group(1)

def braces(src, j):
    d = 0; k = j
    while True:
        if src[k] == '{': d += 1
        elif src[k] == '}':
            d -= 1
            if d == 0: return k
        k += 1

def affinevar_bodies():
    """the non-constant branches of AffineVar + AffineVar and AffineVar::double_in_place of the DEPENDENCY ark-r1cs-std (twisted Edwards)"""
    d, ver = r1cs_std_dir()
    src = strip_comments(open(os.path.join(d, 'src/groups/curves/twisted_edwards/mod.rs')).read())
    def clean(b):
        b = re.sub(r'let cs = [^;]*;', '', b)
        b = re.sub(r'ark_relations::ns!\(cs, "[^"]*"\)', 'cs', b)
        b = b.replace('.ok_or(SynthesisError::DivisionByZero)?', '').replace('.unwrap()', '')
        return b
    i = src.index("AddAssign,\n    add_assign,\n    |this: &'a AffineVar<P, F>, other: &'a AffineVar<P, F>| {")
    j = src.index('{', i); body = src[j + 1:braces(src, j)]
    e = body.index('} else {'); j2 = e + len('} else ')
    add = body[j2 + 1:braces(body, j2)]
    _, dbl = find_fn(src, 'double_in_place', 'impl<P, F> CurveVar<TEProjective<P>')
    e = dbl.index('} else {'); j2 = e + len('} else ')
    dbl = dbl[j2 + 1:braces(dbl, j2)]
    return ver, clean(add), clean(dbl)

def parse_with_hooks_skipped(body):
    # drop statements guarded by #[cfg(decaf377_verif)]
    body = re.sub(r'#\[cfg\(decaf377_verif\)\]\s*let[^;]*;', '', body)
    return parse_body(body)

def main(outdir):
    parts = [HEADER]; errors = []
    for name, path, fn, hint, sig, extra in GTARGETS:
        try:
            src = strip_comments(open(os.path.join(REPO, path)).read())
            src = re.split(r'#\[cfg\((?:all\()?test', src)[0]
            _, body = find_fn(src, fn, hint)
            cvar, cblock, body = split_constant_path(body)
            if cvar is not None:
                # the constant-input fast path is translated on its own (no hints: the value is computed out of circuit)
                gc = GTr({'consts': CONSTS, 'const_mode': True})
                cval = gc.stmts(parse_body(cblock))
                parts.append('  Definition %s_const (%s : F) : bool * (bool * F) :=\n    let sat := true in\n    %s.\n' % (name, cvar, cval))
            ast = parse_with_hooks_skipped(body)
            g = GTr({'consts': CONSTS})
            val = g.stmts(ast)
            parts.append('  Definition %s %s :=\n    let sat := true in\n    %s.\n' % (name, sig, val))
        except (TranslationError, ValueError, IndexError, KeyError) as e:
            errors.append('%s (%s::%s): %r' % (name, path, fn, e))
            parts.append('  (* TRANSLATION FAILED for %s: %s *)\n' % (name, str(e).replace('*)', '* )')))
    # the dependency: ark-r1cs-std AffineVar arithmetic used by every element operation of the gadgets
    try:
        ver, addb, dblb = affinevar_bodies()
        parts.append('  (* ark-r1cs-std %s, twisted_edwards::AffineVar: non-constant branches of `+` and `double_in_place` *)' % ver)
        g = GTr({'consts': CONSTS}); val = g.stmts(parse_body(addb))
        parts.append('  Definition affinevar_add_gen (this_x this_y other_x other_y : F) : bool * (F * F) :=\n    let sat := true in\n    %s.\n' % val)
        g = GTr({'consts': CONSTS}); val = g.stmts(parse_body(dblb))
        parts.append('  Definition affinevar_double_gen (self_x self_y : F) : bool * (F * F) :=\n    let sat := true in\n    %s.\n' % val)
    except (TranslationError, ValueError, IndexError, KeyError) as e:
        errors.append('affinevar (ark-r1cs-std): %r' % e)
        parts.append('  (* TRANSLATION FAILED for affinevar: %s *)\n' % str(e).replace('*)', '* )'))
    parts.append('End GeneratedGadgets.\n')
    txt = '\n'.join(parts); out = os.path.join(outdir, 'GadgetsGen.v')
    old = open(out).read() if os.path.exists(out) else None
    if old != txt: open(out, 'w').write(txt)
    for e in errors: print('TRANSLATION-ERROR ' + e)
    print('rs2v_gadgets: %d gadgets, %d errors -> %s' % (len(GTARGETS) + 2, len(errors), out))
    return 1 if errors else 0

if __name__ == '__main__':
    sys.exit(main(sys.argv[1] if len(sys.argv) > 1 else '/verif/coq/Generated'))
