#!/usr/bin/env python3
"""rs2v.py — translate the arithmetic core of decaf377 (a small subset of Rust) to Gallina.

For each function listed in TARGETS the body is parsed (tokenizer + recursive-descent parser for the
subset described in DESIGN.md §2.2) and emitted as a Gallina definition inside a Section over an
abstract field (`Context {AF : AField}`), with Section Variables for the curve constants, the sign
function, the square-root routine and the point constructor.  Anything outside the subset raises
TranslationError: the tie is then reported as broken — never silently skipped.

Semantics of the translation (the trusted part, mirrored in coq/Model/GenPrelude.v):
  Fq values            -> elements of F;   + - * unary-  -> add sub mul opp;   a / b -> mul a (inv b)
  x.square()           -> x * x            x.double() -> x + x      x.abs() -> fabs x
  x.is_negative()      -> neg x            x.is_zero() / == ZERO    -> feqb
  Fq::ONE *ONE         -> 1    Fq::ZERO -> 0   *TWO -> two   Fq::from(4u32) -> fofZ 4
  u64/usize/u8 values  -> Z with >> << & + - as shiftr shiftl land add sub (no wrap needed where used)
  let / let mut / assignment / compound assignment  -> let-rebinding (SSA by shadowing)
  if c { assignments } [else { assignments }]       -> one `let v := if c then .. else ..` per assigned variable
  if c { return e; } rest                            -> if c then e else rest
  for x in <range or slice> { body }                 -> fold_left over the list of indices / elements with the
                                                        tuple of assigned outer variables as state
  Ok(e)/Some(e) -> Some e    Err(_)/None -> None    e? (in let) -> match e with Some .. | None => None
  references, derefs, clones, `as` casts between integer types are erased
"""
import re, sys, os
sys.path.insert(0, os.path.dirname(os.path.abspath(__file__)))
from consts import tokenize, strip_comments

REPO = os.environ.get('VERIF_REPO', '/repo')

class TranslationError(Exception): pass

# ------------------------------------------------------------------ source slicing
def find_fn(src, fn_name, impl_hint=None, nth=0):
    """Return the text of `fn fn_name ... { body }` (the nth match, optionally after the first occurrence of impl_hint)."""
    start = 0
    if impl_hint:
        start = src.find(impl_hint)
        if start < 0: raise TranslationError('impl hint %r not found' % impl_hint)
    pat = re.compile(r'\bfn\s+' + re.escape(fn_name) + r'\b')
    ms = [m for m in pat.finditer(src, start)]
    if len(ms) <= nth: raise TranslationError('fn %s not found' % fn_name)
    i = ms[nth].start()
    j = src.index('{', i)
    # the signature may contain '{' only in where-clauses/generics: not in our targets
    depth = 0; k = j
    while True:
        c = src[k]
        if c == '{': depth += 1
        elif c == '}':
            depth -= 1
            if depth == 0: break
        k += 1
    return src[i:j], src[j + 1:k]

# ------------------------------------------------------------------ AST
class N:
    def __init__(self, k, **kw): self.k = k; self.__dict__.update(kw)
    def __repr__(self): return 'N(%s,%s)' % (self.k, {a: b for a, b in self.__dict__.items() if a != 'k'})

BINPREC = {'||': 1, '&&': 2, '==': 3, '!=': 3, '<': 3, '>': 3, '<=': 3, '>=': 3, '|': 4, '^': 5, '&': 6,
           '<<': 7, '>>': 7, '+': 8, '-': 8, '*': 9, '/': 9, '%': 9}

class Parser:
    def __init__(self, toks): self.t = toks; self.i = 0
    def peek(self, o=0): return self.t[self.i + o] if self.i + o < len(self.t) else ('eof', '')
    def next(self): x = self.peek(); self.i += 1; return x
    def at(self, v): return self.peek()[1] == v
    def expect(self, v):
        if not self.at(v): raise TranslationError('expected %r, got %r (token %d)' % (v, self.peek(), self.i))
        self.i += 1
    # ---- statements
    def block_body(self):
        stmts = []
        while not self.at('}') and self.peek()[0] != 'eof':
            stmts.append(self.stmt())
        return stmts
    def block(self):
        self.expect('{'); b = self.block_body(); self.expect('}'); return b
    def skip_type(self, stops):
        d = 0
        while True:
            v = self.peek()[1]
            if d == 0 and v in stops: return
            if v in '([<': d += 1
            if v in ')]>': d -= 1
            if v == '>>': d -= 2
            if self.peek()[0] == 'eof': raise TranslationError('eof in type')
            self.next()
    def pattern(self):
        k, v = self.peek()
        if v == '(':
            self.next(); items = []
            while not self.at(')'):
                items.append(self.pattern())
                if self.at(','): self.next()
            self.expect(')'); return N('ptuple', items=items)
        if v == 'mut':
            self.next(); q = self.pattern(); q.mut = True; return q
        if v == '&': self.next(); return self.pattern()
        if k == 'id':
            name = self.next()[1]
            while self.at('::'): self.next(); name += '::' + self.next()[1]
            if self.at('{'):
                self.next(); fields = []
                while not self.at('}'):
                    f = self.next()[1]
                    if self.at(':'): self.next(); p = self.pattern()
                    else: p = N('pvar', name=f)
                    fields.append((f, p))
                    if self.at(','): self.next()
                self.expect('}'); return N('pstruct', name=name, fields=fields)
            return N('pvar', name=name)
        raise TranslationError('pattern: %r' % (self.peek(),))
    def stmt(self):
        k, v = self.peek()
        if v == '#':   # attribute
            self.next(); self.expect('[')
            d = 1
            while d:
                x = self.next()[1]
                d += (x == '[') - (x == ']')
            return self.stmt()
        if v == 'const' and self.peek(1)[0] == 'id' and self.peek(2)[1] == ':':
            self.next(); p = self.pattern()
            self.next(); self.skip_type(('=',)); self.expect('='); e = self.expr(); self.expect(';')
            return N('let', pat=p, e=e)
        if v == 'let':
            self.next(); p = self.pattern()
            if self.at(':'): self.next(); self.skip_type(('=', ';'))
            e = None
            if self.at('='): self.next(); e = self.expr()
            self.expect(';'); return N('let', pat=p, e=e)
        if v == 'return':
            self.next(); e = None if self.at(';') else self.expr()
            if self.at(';'): self.next()
            return N('return', e=e)
        if v == 'for':
            self.next(); p = self.pattern(); self.expect('in'); it = self.expr(nostruct=True); b = self.block()
            return N('for', pat=p, it=it, body=b)
        if v == 'while':
            raise TranslationError('while loops are outside the subset')
        if v == 'if':
            e = self.if_expr()
            if self.at(';'): self.next()
            return N('exprstmt', e=e, tail=not (self.peek()[1] != '}'))
        if v in ('debug_assert!', 'debug_assert_eq!', 'assert!', 'assert_eq!'):
            self.next(); self.expect('(')
            d = 1
            while d:
                x = self.next()[1]
                d += (x == '(') - (x == ')')
            if self.at(';'): self.next()
            return N('skip')
        e = self.expr()
        if self.peek()[1] in ('=', '+=', '-=', '*=', '/=', '<<=', '>>='):
            op = self.next()[1]; r = self.expr()
            if not self.at('}'): self.expect(';')
            return N('assign', lhs=e, op=op, rhs=r)
        if self.at(';'):
            self.next(); return N('exprstmt', e=e, tail=False)
        return N('exprstmt', e=e, tail=True)
    # ---- expressions
    def if_expr(self):
        self.expect('if'); c = self.expr(nostruct=True); t = self.block(); f = None
        if self.at('else'):
            self.next()
            if self.at('if'): f = [N('exprstmt', e=self.if_expr(), tail=True)]
            else: f = self.block()
        return N('if', c=c, t=t, f=f)
    def expr(self, prec=0, nostruct=False):
        lhs = self.unary(nostruct)
        while True:
            k, v = self.peek()
            if v == 'as':
                self.next(); self.skip_type((')', ',', ';', '}', ']', '==', '!=', '&&', '||', '+', '-', '*', '/', '&', '|', '>>', '<<', '{', '=', '<', '>'))
                continue
            if v == '..' or v == '..=':
                raise TranslationError('range not parenthesised')
            if v == '.' and self.peek(1)[1] == '.':   # range a..b / a..=b (tokenised as '.' '.')
                if prec > 0: return lhs
                self.next(); self.next(); incl = False
                if self.at('='): self.next(); incl = True
                hi = self.expr(1, nostruct)
                lhs = N('range', lo=lhs, hi=hi, incl=incl); continue
            if v in BINPREC and BINPREC[v] > prec:
                # '&' as binary and; '*' as binary mul
                self.next(); rhs = self.expr(BINPREC[v], nostruct)
                lhs = N('bin', op=v, a=lhs, b=rhs); continue
            return lhs
    def unary(self, nostruct):
        k, v = self.peek()
        if v == '-': self.next(); return N('un', op='-', a=self.unary(nostruct))
        if v == '!': self.next(); return N('un', op='!', a=self.unary(nostruct))
        if v == '&':
            self.next()
            if self.at('mut'): self.next()
            return self.unary(nostruct)
        if v == '*': self.next(); return N('un', op='*', a=self.unary(nostruct))
        return self.postfix(self.atom(nostruct), nostruct)
    def args(self):
        self.expect('('); a = []
        while not self.at(')'):
            a.append(self.expr())
            if self.at(','): self.next()
        self.expect(')'); return a
    def postfix(self, e, nostruct):
        while True:
            v = self.peek()[1]
            if v == '.' and self.peek(1)[1] != '.':
                self.next(); k2, name = self.next()
                if k2 == 'num':
                    e = N('field', e=e, name=name); continue
                if self.at('::'):   # turbofish
                    self.next(); self.skip_type(('(',))
                if self.at('('):
                    e = N('mcall', e=e, name=name, args=self.args())
                else:
                    e = N('field', e=e, name=name)
                continue
            if v == '[':
                self.next()
                if self.at('.') and self.peek(1)[1] == '.':   # [..]
                    self.next(); self.next(); self.expect(']'); continue
                ix = self.expr(); self.expect(']'); e = N('index', e=e, ix=ix); continue
            if v == '?': self.next(); e = N('try', e=e); continue
            return e
    def atom(self, nostruct):
        k, v = self.peek()
        if k == 'num':
            self.next()
            s = re.sub(r'(u8|u16|u32|u64|u128|usize|i32|i64)$', '', v.replace('_', ''))
            return N('int', v=int(s, 16) if s.startswith('0x') else (int(s[2:], 2) if s.startswith('0b') else int(s)))
        if v == '(':
            self.next(); items = []
            while not self.at(')'):
                items.append(self.expr())
                if self.at(','): self.next()
            self.expect(')')
            return items[0] if len(items) == 1 else N('tuple', items=items)
        if v == 'if': return self.if_expr()
        if v == '{': return N('blockexpr', body=self.block())
        if v == '|' or v == '||':
            # closure: only allowed as an (ignored) argument of map_err
            if v == '||': self.next()
            else:
                self.next()
                while not self.at('|'): self.next()
                self.next()
            return N('closure', body=self.expr())
        if k == 'id':
            name = self.next()[1]
            while self.at('::') or (self.at('<') and name in ('Self::scalar_mul_both', 'Self')):
                if self.at('<'):
                    self.skip_generic(); continue
                self.next()
                if self.at('<'): name += '::' + self.generic_text(); continue
                name += '::' + self.next()[1]
            if name.endswith('!'):
                raise TranslationError('macro %s outside the subset' % name)
            if self.at('('):
                return N('call', f=name, args=self.args())
            if self.at('{') and not nostruct and name[0].isupper():
                self.next(); fields = []
                while not self.at('}'):
                    f = self.next()[1]
                    if self.at(':'): self.next(); fe = self.expr()
                    else: fe = N('var', name=f)
                    fields.append((f, fe))
                    if self.at(','): self.next()
                self.expect('}'); return N('struct', name=name, fields=fields)
            return N('var', name=name)
        raise TranslationError('unexpected token %r' % (self.peek(),))
    def generic_text(self):
        d = 0; out = ''
        while True:
            x = self.next()[1]; out += x
            if x == '<': d += 1
            elif x == '>': d -= 1
            elif x == '>>': d -= 2
            if d <= 0: return out
    def skip_generic(self): self.generic_text()

def parse_body(text):
    toks = tokenize(strip_comments(text))
    p = Parser(toks)
    b = p.block_body()
    if p.peek()[0] != 'eof': raise TranslationError('trailing tokens at %d: %r' % (p.i, p.peek()))
    return b

# ------------------------------------------------------------------ translation
FIELD_CONSTS = {  # Rust path -> Gallina term
    'Fq::ONE': '1', 'Fq::ZERO': '0', 'ONE': '1', 'TWO': 'two', 'Self::ONE': '1', 'Self::ZERO': '0',
}

RESERVED = {'F', 'Z', 'N', 'S', 'O', 'I', 'Q'}

class Tr:
    """Translate one function body.  cfg: dict with
         params: [(rust_name, gallina_name, type)]   type in {'F','B','Z','P','LZ'}
         consts: {rust path: (gallina term, type)}
         ret: 'F' | 'P' | 'optP' | 'BF' | 'B'
         self_is: gallina name for `self` (type P or F)"""
    def __init__(self, cfg):
        self.cfg = cfg
        self.ty = {}
        self.alias = {}
        for r, g, t in cfg.get('params', []): self.ty[g] = t; self.alias[r] = g
        self.consts = dict(cfg.get('consts', {}))
    # -- types
    def typeof(self, n):
        k = n.k
        if k == 'int': return 'Z'
        if k == 'var':
            nm = self.alias.get(n.name, n.name)
            if n.name in self.consts: return self.consts[n.name][1]
            if n.name in FIELD_CONSTS: return 'F'
            return self.ty.get(nm, 'F')
        if k == 'un': return 'B' if n.op == '!' else self.typeof(n.a)
        if k == 'bin':
            if n.op in ('==', '!=', '&&', '||', '<', '>', '<=', '>='): return 'B'
            return self.typeof(n.a)
        if k == 'mcall':
            if n.name in ('is_negative', 'is_nonnegative', 'is_zero', 'ct_eq', 'is_identity'): return 'B'
            if n.name == 'pow': return self.typeof(n.e)
            if n.name == 'into': return self.typeof(n.e)
            if n.name in ('square', 'abs', 'double', 'pow', 'inverse', 'unwrap', 'clone', 'pow_le_limbs', 'our_sqrt'): return self.typeof(n.e) if n.name in ('unwrap', 'clone') else ('F' if self.typeof(n.e) != 'P' else 'P')
            return self.typeof(n.e)
        if k == 'field':
            if n.name in ('x', 'y', 'z', 't'): return 'F'
            if n.name in ('inner', '0'): return self.typeof(n.e)
            return 'F'
        if k == 'call':
            if n.f in self.cfg.get('calls', {}): return self.cfg['calls'][n.f][1]
            if n.f in ('Fq::from', 'Fq::conditional_select'): return 'F'
            if n.f in ('Choice::from',): return self.typeof(n.args[0])
            return 'F'
        if k == 'if':
            return 'F'
        if k == 'index':
            if n.e.k == 'field' and n.e.e.k == 'var' and n.e.e.name in self.cfg.get('tables', ()):
                return 'Z' if n.e.name == 's_lookup' else 'F'
            return 'Z'
        return 'F'
    # -- expressions
    def e(self, n):
        k = n.k
        if k == 'int': return str(n.v) if n.v >= 0 else '(%d)' % n.v
        if k == 'var':
            if n.name in self.alias: return self.alias[n.name]
            if n.name in self.consts: return self.consts[n.name][0]
            if n.name in FIELD_CONSTS: return FIELD_CONSTS[n.name]
            if n.name == 'true': return 'true'
            if n.name == 'false': return 'false'
            if n.name == 'self': return self.cfg['self_is']
            if '::' in n.name: raise TranslationError('unknown path %s' % n.name)
            return n.name
        if k == 'un':
            if n.op == '*': return self.e(n.a)
            if n.op == '-':
                a = self.e(n.a)
                return '(- %s)' % (a if re.match(r'^[A-Za-z_0-9\']+$', a) and not a.isdigit() else '(%s)' % a)
            if n.op == '!':
                return '(negb %s)' % self.e(n.a)
        if k == 'bin':
            ta = self.typeof(n.a); a = self.e(n.a); b = self.e(n.b)
            if n.op in ('+', '-', '*'):
                if ta == 'P':
                    if n.op == '+': return '(%s %s %s)' % (self.cfg['calls']['__add__'][0], a, b)
                    raise TranslationError('point op %s' % n.op)
                if ta == 'Z': return '(%s %s %s)%%Z' % (a, n.op, b)
                return '(%s %s %s)' % (a, n.op, b)
            if n.op == '/':
                if ta == 'Z': return '(%s / %s)%%Z' % (a, b)
                return '(%s * inv %s)' % (a, b)
            if n.op in ('==', '!='):
                if ta == 'B': r = '(Bool.eqb %s %s)' % (a, b)
                elif ta == 'Z': r = '(Z.eqb %s %s)' % (a, b)
                elif ta == 'P': r = '(%s %s %s)' % (self.cfg['calls']['__eq__'][0], a, b)
                else: r = '(feqb %s %s)' % (a, b)
                return r if n.op == '==' else '(negb %s)' % r
            if n.op == '&&': return '(%s && %s)' % (a, b)
            if n.op == '||': return '(%s || %s)' % (a, b)
            if n.op == '>>': return '(Z.shiftr %s %s)' % (a, b)
            if n.op == '<<': return '(Z.shiftl %s %s)' % (a, b)
            if n.op == '&':
                if ta == 'B': return '(%s && %s)' % (a, b)
                return '(Z.land %s %s)' % (a, b)
            raise TranslationError('binary operator %s' % n.op)
        if k == 'mcall':
            x = self.e(n.e); tx = self.typeof(n.e)
            m = n.name
            if m in ('clone', 'borrow', 'into', 'unwrap', 'as_ref', 'iter', 'into_iter', 'expect', 'map_err'): return x
            if m == 'square': return '(%s * %s)' % (x, x)
            if m == 'double':
                if tx == 'P': return '(%s %s)' % (self.cfg['calls']['__double__'][0], x)
                return '(%s + %s)' % (x, x)
            if m == 'abs': return '(fabs neg %s)' % x
            if m == 'is_negative': return '(neg %s)' % x
            if m == 'is_nonnegative': return '(negb (neg %s))' % x
            if m == 'is_zero':
                if tx == 'P' and 'is_zero_P' in self.cfg.get('methods', {}): return '(%s %s)' % (self.cfg['methods']['is_zero_P'], x)
                return '(feqb %s 0)' % x
            if m == 'is_one': return '(feqb %s 1)' % x
            if m == 'ct_eq': return '(feqb %s %s)' % (x, self.e(n.args[0]))
            if m == 'pow_le_limbs': return '(%s %s %s)' % (self.cfg['calls']['pow_le_limbs'][0], x, self.e(n.args[0]))
            if m == 'our_sqrt': return '(%s %s)' % (self.cfg['calls']['our_sqrt'][0], x)
            if m == 'rev': return '(rev %s)' % x
            if m == 'inverse': return '(inv %s)' % x
            if m == 'pow':
                if tx == 'Z': return '(2 ^ %s)%%Z' % self.e(n.args[0]) if x == '2' else '(%s ^ %s)%%Z' % (x, self.e(n.args[0]))
                return '(fpow %s %s)' % (x, self.e(n.args[0]))
            raise TranslationError('method .%s() outside the subset' % m)
        if k == 'field':
            if self.cfg.get('mutself') and n.e.k == 'var' and n.e.name == 'self' and n.name in ('x', 'y', 'z', 't'):
                return 'self_' + n.name          # current value of the (mutable) field
            x = self.e(n.e)
            if n.name in ('inner', '0'): return x
            if n.name in ('x', 'y') and n.e.k == 'var' and n.e.name in self.cfg.get('affine_vars', ()): return '(a%s %s)' % (n.name.upper(), x)
            if n.name in ('x', 'y', 'z', 't'): return '(p%s %s)' % (n.name.upper(), x)
            raise TranslationError('field .%s' % n.name)
        if k == 'call':
            f = n.f
            if f in self.cfg.get('calls', {}):
                return '(%s %s)' % (self.cfg['calls'][f][0], ' '.join(self.e(a) for a in n.args))
            if f == 'Fq::from' and n.args[0].k == 'int': return '(fofZ %d)' % n.args[0].v
            if f in ('Fq::zero', 'Fq::one') and not n.args: return '0' if f == 'Fq::zero' else '1'
            if f in ('Ok', 'Some'): return '(Some %s)' % self.e(n.args[0])
            if f == 'Err': return 'None'
            if f == 'Choice::from': return self.e(n.args[0])
            if f in ('Fq::conditional_select', 'Self::conditional_select', 'Element::conditional_select'):
                a, b, c = [self.e(x) for x in n.args]
                tc = self.typeof(n.args[2])
                cond = c if tc == 'B' else '(Z.eqb %s 1)' % c
                return '(if %s then %s else %s)' % (cond, b, a)
            raise TranslationError('call to %s outside the subset' % f)
        if k == 'struct':
            d = dict(n.fields)
            if set(d) == {'x', 'y', 'z', 't'}:
                return '(%s %s %s %s %s)' % (self.cfg['mk'], self.e(d['x']), self.e(d['y']), self.e(d['z']), self.e(d['t']))
            if set(d) == {'inner'}: return self.e(d['inner'])
            raise TranslationError('struct literal %s' % n.name)
        if k == 'tuple': return '(%s)' % ', '.join(self.e(x) for x in n.items)
        if k == 'if':
            if n.f is None: raise TranslationError('if-expression without else')
            return '(if %s then %s else %s)' % (self.e(n.c), self.block_value(n.t), self.block_value(n.f))
        if k == 'blockexpr': return self.block_value(n.body)
        if k == 'index':
            if n.e.k == 'field' and n.e.e.k == 'var' and n.e.e.name in self.cfg.get('tables', ()):
                return '(tab (%s T) %s)' % ({'nonsquare_lookup': 'nonsq'}.get(n.e.name, n.e.name), self.e(n.ix))
            return '(nthZ %s %s)' % (self.e(n.e), self.e(n.ix))
        if k == 'range':
            lo = self.e(n.lo); hi = self.e(n.hi)
            return '(zrange %s %s)' % (lo, '(%s + 1)%%Z' % hi if n.incl else hi)
        if k == 'try': raise TranslationError('`?` outside a let')
        raise TranslationError('expression kind %s' % k)
    def block_value(self, stmts):
        return self.stmts(stmts, None)
    # -- assigned variables of a statement list (for if/for merging)
    def assigned(self, stmts, declared=None):
        declared = set(declared or ())
        out = []
        for s in stmts:
            if s.k == 'let':
                for v in self.pvars(s.pat): declared.add(v)
            elif s.k == 'assign':
                v = self.lhs_var(s.lhs)
                if v not in declared and v not in out: out.append(v)
            elif s.k == 'exprstmt' and s.e.k == 'if':
                for br in (s.e.t, s.e.f or []):
                    for v in self.assigned(br, declared):
                        if v not in out: out.append(v)
            elif s.k == 'for':
                for v in self.assigned(s.body, declared):
                    if v not in out: out.append(v)
        return out
    def pvars(self, p):
        if p.k == 'pvar': return [p.name]
        if p.k == 'ptuple': return [v for q in p.items for v in self.pvars(q)]
        if p.k == 'pstruct': return [v for _, q in p.fields for v in self.pvars(q)]
        return []
    def lhs_var(self, e):
        if e.k == 'var': return self.alias.get(e.name, e.name)
        if e.k == 'un' and e.op == '*': return self.lhs_var(e.a)
        if e.k == 'field' and e.e.k == 'var' and e.e.name == 'self' and e.name in ('x', 'y', 'z', 't'):
            return 'self.' + e.name
        raise TranslationError('assignment target outside the subset')
    def pat(self, p):
        if p.k == 'pvar':
            if p.name in RESERVED: self.alias[p.name] = p.name + '_'; return p.name + '_'
            return p.name if p.name != '_' else '_'
        if p.k == 'ptuple': return "'(%s)" % ', '.join(self.pat(q).lstrip("'") for q in p.items)
        raise TranslationError('pattern')
    # -- statements: returns the Gallina expression for `stmts; k` where k is the continuation value (or None)
    def stmts(self, stmts, k):
        if not stmts:
            if k is None: raise TranslationError('block without value')
            return k
        s, rest = stmts[0], stmts[1:]
        if s.k == 'skip': return self.stmts(rest, k)
        if s.k == 'let':
            if s.e is None:   # declaration only: `let sgn;`
                return self.stmts(rest, k)
            if s.pat.k == 'pstruct':
                src = self.e(s.e); out = []
                for f, q in s.pat.fields:
                    out.append('let %s := (p%s %s) in' % (self.pat(q), f.upper(), src))
                    self.ty[q.name] = 'F'
                return '\n    '.join(out) + '\n    ' + self.stmts(rest, k)
            if s.e.k == 'index' and s.e.e.k == 'field' and s.e.e.name == 's_lookup' and s.e.e.e.k == 'var' and s.e.e.e.name in self.cfg.get('tables', ()):
                self.ty[s.pat.name] = 'Z'
                return 'bind (s_lookup T %s) (fun %s =>\n    %s)' % (self.e(s.e.ix), self.pat(s.pat), self.stmts(rest, k))
            if s.e.k == 'try':
                inner = self.e(s.e.e)
                self.settype(s.pat, s.e.e, opt=True)
                return 'match %s with\n    | None => None\n    | Some %s =>\n    %s\n    end' % (inner, self.pat(s.pat).lstrip("'"), self.stmts(rest, k))
            # alias `let p = &self.inner;`
            if s.pat.k == 'pvar' and not getattr(s.pat, 'mut', False) and self.typeof(s.e) == 'P' and s.e.k in ('field', 'var', 'un'):
                self.alias[s.pat.name] = self.e(s.e); return self.stmts(rest, k)
            rhs = self.e(s.e)
            self.settype(s.pat, s.e)
            return 'let %s := %s in\n    %s' % (self.pat(s.pat), rhs, self.stmts(rest, k))
        if s.k == 'assign':
            v = self.lhs_var(s.lhs)
            cur = N('var', name=v) if not v.startswith('self.') else s.lhs
            if s.op == '=': rhs = self.e(s.rhs)
            else: rhs = self.e(N('bin', op=s.op[:-1], a=cur, b=s.rhs))
            if v.startswith('self.'):
                if not self.cfg.get('mutself'): raise TranslationError('field assignment handled by caller')
                return 'let self_%s := %s in\n    %s' % (v[5:], rhs, self.stmts(rest, k))
            if s.op == '=' and v not in self.ty: self.ty[v] = self.typeof(s.rhs)
            return 'let %s := %s in\n    %s' % (v, rhs, self.stmts(rest, k))
        if s.k == 'return':
            return ('(Some %s)' % self.e(s.e)) if self.cfg.get('option_ret') else self.e(s.e)
        if s.k == 'exprstmt' and self.cfg.get('mutself') and not rest and s.e.k == 'var' and s.e.name == 'self':
            return self.cfg['k']
        if s.k == 'exprstmt':
            e = s.e
            if e.k == 'if':
                # early return?
                if self.has_return(e.t) and e.f is None:
                    return '(if %s then %s else\n    %s)' % (self.e(e.c), self.stmts(e.t, None), self.stmts(rest, k))
                if not rest and k is None:
                    if e.f is None: raise TranslationError('if without else as value')
                    return '(if %s then %s else %s)' % (self.e(e.c), self.stmts(e.t, None), self.stmts(e.f, None))
                vs = self.assigned([s])
                if not vs: raise TranslationError('if statement without effect')
                c = self.e(e.c)
                out = []
                tmap = self.branch_assigns(e.t, vs); fmap = self.branch_assigns(e.f or [], vs)
                for v in vs:
                    out.append('let %s := if %s then %s else %s in' % (v, c, tmap[v], fmap[v]))
                    if v not in self.ty:
                        self.ty[v] = self.branch_type(e.t, v)
                if len(vs) > 1:
                    # all right-hand sides must not depend on variables assigned earlier in the same if
                    for i, v in enumerate(vs):
                        for w in vs[:i]:
                            if re.search(r'\b%s\b' % re.escape(w), tmap[v] + fmap[v]) and (tmap[v] != v or fmap[v] != v):
                                if tmap[v] != v and re.search(r'\b%s\b' % re.escape(w), tmap[v]) or fmap[v] != v and re.search(r'\b%s\b' % re.escape(w), fmap[v]):
                                    raise TranslationError('dependent assignments in one if (%s uses %s)' % (v, w))
                return '\n    '.join(out) + '\n    ' + self.stmts(rest, k)
            if e.k == 'blockexpr' and not rest: return self.stmts(e.body, k)
            if not rest and (s.tail or k is None):
                return ('(Some %s)' % self.e(e)) if self.cfg.get('option_ret') else self.e(e)
            raise TranslationError('expression statement without effect')
        if s.k == 'for':
            vs = self.assigned(s.body)
            if not vs: raise TranslationError('loop without effect')
            it = self.e(s.it)
            if s.it.k == 'var' and self.typeof(s.it) not in ('LZ',):
                pass
            x = self.pat(s.pat)
            if s.pat.k == 'pvar':
                self.ty[s.pat.name] = self.cfg.get('loop_var_type', 'Z')
                if self.cfg.get('loop_var_type') == 'B': x = '(%s : bool)' % x
            st = vs[0] if len(vs) == 1 else "'(%s)" % ', '.join(vs)
            stv = vs[0] if len(vs) == 1 else '(%s)' % ', '.join(vs)
            body = self.stmts(s.body, stv)
            return 'let %s := fold_left (fun %s %s =>\n    %s%s) %s %s in\n    %s' % (
                st, ('st' if len(vs) > 1 else vs[0]), x, ("let %s := st in " % st if len(vs) > 1 else ''), body, it, stv, self.stmts(rest, k))
        raise TranslationError('statement kind %s' % s.k)
    def has_return(self, stmts):
        return any(s.k == 'return' for s in stmts)
    def branch_assigns(self, stmts, vs):
        m = {v: v for v in vs}
        for s in stmts:
            if s.k == 'skip': continue
            if s.k == 'exprstmt' and s.e.k == 'if':
                c = self.e(s.e.c)
                tm = self.branch_assigns(s.e.t, vs); fm = self.branch_assigns(s.e.f or [], vs)
                for v in vs:
                    if tm[v] != v or fm[v] != v:
                        if m[v] != v: raise TranslationError('nested if after assignment of %s' % v)
                        m[v] = '(if %s then %s else %s)' % (c, tm[v], fm[v])
                continue
            if s.k != 'assign': raise TranslationError('only assignments are allowed in a merging if-branch')
            v = self.lhs_var(s.lhs)
            if m[v] != v: raise TranslationError('variable %s assigned twice in one branch' % v)
            if s.op == '=': m[v] = self.e(s.rhs)
            else: m[v] = self.e(N('bin', op=s.op[:-1], a=N('var', name=v), b=s.rhs))
        return m
    def branch_type(self, stmts, v):
        for s in stmts:
            if s.k == 'assign' and self.lhs_var(s.lhs) == v: return self.typeof(s.rhs)
        return 'F'
    def settype(self, p, e, opt=False):
        if p.k == 'pvar':
            self.ty[p.name] = self.typeof(e)
        elif p.k == 'ptuple':
            t = self.cfg.get('calls', {}).get(e.f, (None, None, None))[2] if e.k == 'call' else None
            for i, q in enumerate(p.items):
                if q.k == 'pvar': self.ty[q.name] = (t[i] if t else 'F')

def translate(src_text, fn_name, cfg, impl_hint=None, nth=0):
    sig, body = find_fn(src_text, fn_name, impl_hint, nth)
    ast = parse_body(body)
    if 'skip_stmts' in cfg: ast = ast[cfg['skip_stmts']:]
    tr = Tr(cfg)
    pre = cfg.get('pre', '')
    out = tr.stmts(ast, cfg.get('k'))
    return pre + out

# ------------------------------------------------------------------ targets
CURVE_CALLS_ARK = {'Fq::sqrt_ratio_zeta': ('sr', 'BF', ('B', 'F'))}
CURVE_CALLS_MIN = {'Fq::non_arkworks_sqrt_ratio_zeta': ('sr', 'BF', ('B', 'F'))}

ARK_CONSTS = {'Decaf377EdwardsConfig::COEFF_A': ('cA', 'F'), 'Decaf377EdwardsConfig::COEFF_D': ('cD', 'F'), 'ZETA': ('zeta', 'F'),
              'A': ('cA', 'F'), 'D': ('cD', 'F'), 'EncodingError::InvalidEncoding': ('tt', 'U')}
MIN_CONSTS = {'COEFF_A': ('cA', 'F'), 'COEFF_D': ('cD', 'F'), 'COEFF_K': ('cK', 'F'), 'ZETA': ('zeta', 'F'), 'A': ('cA', 'F'), 'D': ('cD', 'F'),
              'EncodingError::InvalidEncoding': ('tt', 'U'), 'Self::IDENTITY': ('(mk 0 1 1 0)', 'P'), 'Fq::TWO_ADICITY': ('two_adicity', 'Z'),
              'Fq::TRACE_MINUS_ONE_DIV_TWO_LIMBS': ('trace_m1_d2', 'LZ'), 'Fq::QUADRATIC_NON_RESIDUE_TO_TRACE': ('qnr_to_trace', 'F'),
              'Fq::MODULUS_MINUS_ONE_DIV_TWO_LIMBS': ('mod_m1_d2', 'LZ'), 'Fq::ZERO': ('0', 'F')}

def ark_new(args): return 'mk'

TARGETS = [
  # (gallina name, file, fn, kwargs, cfg)
  ('ark_decode', 'src/ark_curve/encoding.rs', 'vartime_decompress', {},
     dict(params=[('s', 's', 'F')], consts=ARK_CONSTS, calls={**CURVE_CALLS_ARK, 'EdwardsProjective::new': ('mk_xytz', 'P')}, self_is='self', mk='mk',
          drop_until_let='s', strip_try_let=True, sig='(s : F) : option pt')),
  ('ark_encode', 'src/ark_curve/encoding.rs', 'vartime_compress_to_field', {},
     dict(params=[], consts=ARK_CONSTS, calls=CURVE_CALLS_ARK, self_is='self', mk='mk', sig='(self : pt) : F', selfty='P')),
  ('ark_elligator', 'src/ark_curve/elligator.rs', 'elligator_map', {},
     dict(params=[('r_0', 'r_0', 'F')], consts=ARK_CONSTS, calls={**CURVE_CALLS_ARK, 'EdwardsProjective::new': ('mk_xytz', 'P')}, self_is='self', mk='mk',
          sig='(r_0 : F) : pt', drop_after_let='result', k='result')),
  ('min_decode', 'src/min_curve/element.rs', 'vartime_decompress', {},
     dict(params=[('s', 's', 'F')], consts=MIN_CONSTS, calls={**CURVE_CALLS_MIN, 'Element::new': ('mk', 'P')}, self_is='self', mk='mk',
          drop_until_let='s', sig='(s : F) : option pt')),
  ('min_encode', 'src/min_curve/element.rs', 'vartime_compress_to_field', {},
     dict(params=[], consts=MIN_CONSTS, calls=CURVE_CALLS_MIN, self_is='self', mk='mk', sig='(self : pt) : F', selfty='P')),
  ('min_elligator', 'src/min_curve/element.rs', 'elligator_map', {},
     dict(params=[('r_0', 'r_0', 'F')], consts=MIN_CONSTS, calls={**CURVE_CALLS_MIN, 'Self::new': ('mk', 'P')}, self_is='self', mk='mk', sig='(r_0 : F) : pt')),
  ('min_add', 'src/min_curve/element.rs', 'add', {'impl_hint': 'impl Add for Element'},
     dict(params=[('other', 'other', 'P')], consts=MIN_CONSTS, calls={'Self::new': ('mk', 'P')}, self_is='self', mk='mk', sig='(self other : pt) : pt', selfty='P')),
  ('min_double', 'src/min_curve/element.rs', 'double', {},
     dict(params=[], consts=MIN_CONSTS, calls={'Self::new': ('mk', 'P')}, self_is='self', mk='mk', sig='(self : pt) : pt', selfty='P')),
  ('min_eq', 'src/min_curve/element.rs', 'eq', {'impl_hint': 'impl PartialEq for Element'},
     dict(params=[('other', 'other', 'P')], consts=MIN_CONSTS, calls={}, self_is='self', mk='mk', sig='(self other : pt) : bool', selfty='P')),
  ('min_is_identity', 'src/min_curve/element.rs', 'is_identity', {},
     dict(params=[], consts=MIN_CONSTS, calls={}, self_is='self', mk='mk', sig='(self : pt) : bool', selfty='P')),
  ('ark_eq', 'src/ark_curve/element/projective.rs', 'eq', {'impl_hint': 'impl PartialEq for Element'},
     dict(params=[('other', 'other', 'P')], consts=ARK_CONSTS, calls={}, self_is='self', mk='mk', sig='(self other : pt) : bool', selfty='P')),
  ('ark_is_identity', 'src/ark_curve/element/projective.rs', 'is_identity', {},
     dict(params=[], consts=ARK_CONSTS, calls={}, self_is='self', mk='mk', sig='(self : pt) : bool', selfty='P')),
  ('fq_power', 'src/fields/fq.rs', 'power', {},
     dict(params=[('exp', 'exp', 'LZ')], consts=dict(MIN_CONSTS), calls={}, self_is='self', mk='mk', sig='(self : F) (exp : list Z) : F', selfty='F')),
  ('min_pow_le_limbs', 'src/min_curve/invsqrt.rs', 'pow_le_limbs', {},
     dict(params=[('limbs', 'limbs', 'LZ')], consts=MIN_CONSTS, calls={}, self_is='self', mk='mk', sig='(self : F) (limbs : list Z) : F', selfty='F')),
  ('min_our_sqrt', 'src/min_curve/invsqrt.rs', 'our_sqrt', {},
     dict(params=[], consts=MIN_CONSTS, calls={'pow_le_limbs': ('min_pow_le_limbs', 'F')}, self_is='self', mk='mk', sig='(self : F) : F', selfty='F')),
  ('min_sqrt_ratio', 'src/min_curve/invsqrt.rs', 'non_arkworks_sqrt_ratio_zeta', {},
     dict(params=[('num', 'num', 'F'), ('den', 'den', 'F')], consts=MIN_CONSTS, calls={'pow_le_limbs': ('min_pow_le_limbs', 'F'), 'our_sqrt': ('min_our_sqrt', 'F')},
          self_is='self', mk='mk', sig='(num den : F) : bool * F')),
  ('min_scalar_mul_both', 'src/min_curve/element.rs', 'scalar_mul_both', {},
     dict(params=[('le_bits', 'le_bits', 'LZ'), ('CT', 'CT', 'B')], consts=MIN_CONSTS,
          calls={'__add__': ('min_add', 'P'), '__double__': ('min_double', 'P')}, self_is='self', mk='mk',
          sig='(CT : bool) (self : pt) (le_bits : list Z) : pt', selfty='P')),
  ('ark_sqrt_ratio', 'src/ark_curve/invsqrt.rs', 'sqrt_ratio_zeta', {},
     dict(params=[('num', 'num', 'F'), ('den', 'den', 'F')], consts={'N': ('cN', 'Z'), 'M_MINUS_ONE_DIV_TWO': ('m_minus_one_div_two', 'Z'), 'ONE': ('1', 'F')},
          calls={}, self_is='self', mk='mk', tables=('SQRT_LOOKUP_TABLES',), option_ret=True,
          sig='(T : tables) (cN m_minus_one_div_two : Z) (num den : F) : option (bool * F)')),
  ('sign_abs', 'src/sign.rs', 'abs', {},
     dict(params=[], consts={}, calls={}, self_is='self', mk='mk', sig='(self : F) : F', selfty='F')),
]

HEADER = '''(* GENERATED by translator/rs2v.py from the current source tree — do not edit.
   One Gallina definition per Rust function; see translator/rs2v.py for the translation rules. *)
Require Import ZArith List Bool.
From D377 Require Import Base.FieldSec Model.Decaf Model.Sqrt Model.GenPrelude.
Import ListNotations.

Section Generated.
  Context {AF : AField}.
  Variables (cA cD cK zeta : F).
  Variable neg : F -> bool.
  Variable sr : F -> F -> bool * F.
  Variable mk : F -> F -> F -> F -> pt.          (* point constructor: arguments x y z t *)
  Variables (two_adicity : Z) (trace_m1_d2 mod_m1_d2 : list Z) (qnr_to_trace : F).
  Local Notation "0" := zero. Local Notation "1" := one.
  Local Infix "+" := add. Local Infix "*" := mul. Local Infix "-" := sub.
  Local Notation "- x" := (opp x).
  Local Notation mk_xytz := (fun x y t z => mk x y z t).   (* ark-ec Projective::new takes (x, y, t, z) *)
'''

def mentions(n, name):
    if isinstance(n, N):
        if n.k == 'var' and n.name == name: return True
        return any(mentions(v, name) for v in n.__dict__.values())
    if isinstance(n, (list, tuple)): return any(mentions(v, name) for v in n)
    return False

def preprocess(ast, cfg):
    if 'drop_until_let' in cfg:
        # the byte-level prefix of decompress (high-bit check on self.0[31], deserialisation of s) is modelled in
        # Model/Bytes.v; the field-level function starts with s as a parameter
        nm = cfg['drop_until_let']; out = []; found = False
        for i, s in enumerate(ast):
            if found: out.append(s); continue
            if s.k == 'let' and s.pat.k == 'pvar' and s.pat.name == nm: found = True; continue
            if s.k == 'exprstmt' and s.e.k == 'if' and mentions(s.e.c, 'self'): continue
            out.append(s)
        if not found: raise TranslationError('let %s not found' % nm)
        return out
    if 'drop_after_let' in cfg:
        nm = cfg['drop_after_let']
        for i, s in enumerate(ast):
            if s.k == 'let' and s.pat.k == 'pvar' and s.pat.name == nm:
                return ast[:i + 1]
        raise TranslationError('let %s not found' % nm)
    return ast

def desugar_inplace(ast):
    """`x.double_in_place();` as a statement (ark-ec mutating API) becomes the assignment `x = x.double()`"""
    out = []
    for s in ast:
        if s.k == 'exprstmt' and s.e.k == 'mcall' and s.e.name == 'double_in_place' and s.e.e.k == 'var':
            out.append(N('assign', lhs=s.e.e, op='=', rhs=N('mcall', e=s.e.e, name='double', args=[])))
        elif s.k == 'exprstmt' and s.e.k == 'if':
            out.append(N('exprstmt', e=N('if', c=s.e.c, t=desugar_inplace(s.e.t), f=desugar_inplace(s.e.f) if s.e.f else s.e.f)))
        elif s.k == 'for':
            d = dict(s.__dict__); d['body'] = desugar_inplace(s.body); d.pop('k'); out.append(N('for', **d))
        else: out.append(s)
    return out

def gen_one(name, path, fn, kw, cfg):
    src = strip_comments(open(os.path.join(REPO, path)).read())
    src = re.split(r'#\[cfg\((?:all\()?test', src)[0]
    sig, body = find_fn(src, fn, kw.get('impl_hint'), kw.get('nth', 0))
    ast = preprocess(parse_body(body), cfg)
    if cfg.get('inplace'): ast = desugar_inplace(ast)
    tr = Tr(cfg)
    if cfg.get('selfty'): tr.ty['self'] = cfg['selfty']
    val = tr.stmts(ast, cfg.get('k'))
    if cfg.get('mutself'):
        val = ''.join('let self_%s := (p%s self) in\n    ' % (c, c.upper()) for c in 'xyzt') + val
    return '  Definition %s %s :=\n    %s.\n' % (name, cfg['sig'], val)

def main(outdir):
    parts = [HEADER]; errors = []
    for name, path, fn, kw, cfg in TARGETS:
        try:
            parts.append(gen_one(name, path, fn, kw, cfg))
        except (TranslationError, ValueError, IndexError, KeyError) as e:
            errors.append('%s (%s::%s): %r' % (name, path, fn, e))
            parts.append('  (* TRANSLATION FAILED for %s: %s *)\n' % (name, str(e).replace('*)', '* )')))
    parts.append('End Generated.\n')
    txt = '\n'.join(parts)
    out = os.path.join(outdir, 'Curve.v')
    old = open(out).read() if os.path.exists(out) else None
    if old != txt: open(out, 'w').write(txt)
    for e in errors: print('TRANSLATION-ERROR ' + e)
    print('rs2v: %d functions, %d errors -> %s' % (len(TARGETS), len(errors), out))
    return 1 if errors else 0

if __name__ == '__main__':
    sys.exit(main(sys.argv[1] if len(sys.argv) > 1 else '/verif/coq/Generated'))
