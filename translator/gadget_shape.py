#!/usr/bin/env python3
"""gadget_shape.py — static check supporting C15: in the R1CS gadget sources, values obtained from `.value()` (the
witness assignment, absent in setup mode) may flow only into the closures that provide witness values; they must never
reach an `if`/`match`/`while`/`for` condition or an index, otherwise the generated constraint system would depend on the
input.  Emits coq/Generated/GadgetShape.v: one record per gadget function with the tainted control-flow sites found."""
import re, sys, os
sys.path.insert(0, os.path.dirname(os.path.abspath(__file__)))
from consts import strip_comments
REPO = os.environ.get('VERIF_REPO', '/repo')
FILES = ['src/ark_curve/r1cs/fqvar_ext.rs', 'src/ark_curve/r1cs/inner.rs', 'src/ark_curve/r1cs/element.rs', 'src/ark_curve/r1cs/lazy.rs', 'src/ark_curve/r1cs/ops.rs', 'src/ark_curve/r1cs.rs']

def functions(src):
    out = []
    for m in re.finditer(r'\bfn\s+(\w+)', src):
        i = src.find('{', m.end())
        semi = src.find(';', m.end())
        if i < 0 or (0 <= semi < i): continue
        d = 0; k = i
        while k < len(src):
            if src[k] == '{': d += 1
            elif src[k] == '}':
                d -= 1
                if d == 0: break
            k += 1
        out.append((m.group(1), src[i + 1:k], src[m.end():i]))
    return out

VAR_RET = re.compile(r'Var\b|Boolean\s*<|UInt8\s*<|Result\s*<\s*\(\s*\)|Self\b|Namespace|ConstraintSystemRef')
def value_returning(fns):
    """names of helper functions that hand a WITNESS VALUE (not a circuit variable) back to their caller: their body reads `.value()` / `f()`
    outside closures and their return type is not a circuit-variable type.  A call of such a helper is a source of the taint analysis
    (one level of interprocedural flow; helpers calling helpers are closed under iteration)."""
    names = set(); changed = True
    while changed:
        changed = False
        for name, body, sig in fns:
            if name in names or name in ('value', 'cs'): continue
            m = re.search(r'->\s*(.*)$', sig, flags=re.S)
            if not m or VAR_RET.search(m.group(1)): continue
            b = strip_closures(body)
            if re.search(r'\.value\(\)|\bf\(\)', b) or any(re.search(r'\b%s\s*\(' % re.escape(n), b) for n in names):
                names.add(name); changed = True
    return names

def strip_closures(body):
    """remove the bodies of closures `|| ...` / `|x| ...` (values may flow there: that is how witnesses are provided)"""
    res = ''; i = 0
    while i < len(body):
        m = re.compile(r'\|\|\s*|\|[^|\n]*\|\s*').match(body, i)
        if m and (i == 0 or body[i - 1] in '(,= \n'):
            j = m.end()
            if j < len(body) and body[j] == '{':
                d = 0
                while j < len(body):
                    if body[j] == '{': d += 1
                    elif body[j] == '}':
                        d -= 1
                        if d == 0: j += 1; break
                    j += 1
            else:
                d = 0
                while j < len(body):
                    c = body[j]
                    if c in '([{': d += 1
                    elif c in ')]}':
                        if d == 0: break
                        d -= 1
                    elif c in ',;' and d == 0: break
                    j += 1
            res += ' CLOSURE '; i = j; continue
        res += body[i]; i += 1
    return res

def analyse(name, body, helpers=()):
    b = strip_closures(body)
    src_re = r'\.value\(\)|\bf\(\)' + ''.join(r'|\b%s\s*\(' % re.escape(h) for h in helpers)
    tainted = set()
    # `if let PAT = EXPR {` headers are not plain let-statements: drop them for the taint propagation (their scrutinee is
    # inspected as a control-flow site below)
    stmts = re.split(r';', re.sub(r'\b(if|while)\s+let\b[^{]*\{', ' ', b))
    changed = True
    while changed:
        changed = False
        for s in stmts:
            m = re.search(r'\blet\s+(?:mut\s+)?(\(?[\w\s,]+\)?)\s*(?::[^=]+)?=\s*(.*)$', s, flags=re.S)
            if not m: continue
            rhs = m.group(2)
            if re.search(src_re, rhs) or any(re.search(r'\b%s\b' % re.escape(t), rhs) for t in tainted):
                for v in re.findall(r'\w+', m.group(1)):
                    if v not in ('mut',) and v not in tainted: tainted.add(v); changed = True
    sites = []
    for m in re.finditer(r'\b(if|while|match)\b\s*([^{]*)\{', b):
        cond = m.group(2)
        # `if let PAT = EXPR` / `while let PAT = EXPR`: only EXPR is inspected — the names in PAT are fresh bindings
        # (matching on the KIND of a variable, e.g. FqVar::Constant(_), is part of the circuit description, not of the witness)
        ml = re.match(r'\s*let\b(.*?)=(?!=)(.*)$', cond, flags=re.S)
        if ml: cond = ml.group(2)
        if re.search(src_re, cond) or any(re.search(r'\b%s\b' % re.escape(t), cond) for t in tainted):
            sites.append('%s %s' % (m.group(1), ' '.join(cond.split())[:80]))
    for m in re.finditer(r'\[([^\]]*)\]', b):
        if any(re.search(r'\b%s\b' % re.escape(t), m.group(1)) for t in tainted): sites.append('index ' + m.group(1)[:40])
    return sorted(tainted), sites

def main(out):
    recs = []; srcs = []
    for f in FILES:
        p = os.path.join(REPO, f)
        if not os.path.exists(p): recs.append((f, 'MISSING', [], ['missing file'])); continue
        src = strip_comments(open(p).read())
        src = re.split(r'#\[cfg\((?:all\()?test', src)[0]
        src = re.sub(r'#\[cfg\(decaf377_verif\)\]\s*pub mod verif_hints\s*\{.*', '', src, flags=re.S)
        srcs.append((f, src))
    allf = [x for f, src in srcs for x in functions(src)]
    helpers = sorted(value_returning(allf))
    for f, src in srcs:
        for name, body, sig in functions(src):
            t, s = analyse(name, body, [h for h in helpers if h != name]); recs.append((f, name, t, s))
    q = lambda s: '"' + s.replace('"', '""') + '"'
    lines = ['(* GENERATED by translator/gadget_shape.py from the current source tree — do not edit *)',
             'Require Import List String. Import ListNotations. Open Scope string_scope.', '',
             '(* (file, function, variables derived from .value(), control-flow sites that depend on them) *)',
             'Definition gadget_functions : list (string * string * list string * list string) := [']
    lines.append(';\n'.join('  (%s, %s, [%s], [%s])' % (q(f), q(n), '; '.join(q(x) for x in t), '; '.join(q(x) for x in s)) for f, n, t, s in recs))
    lines.append('].')
    txt = '\n'.join(lines) + '\n'
    old = open(out).read() if os.path.exists(out) else None
    if old != txt: open(out, 'w').write(txt)
    print('gadget_shape: %d functions, %d with value-dependent control flow -> %s' % (len(recs), sum(1 for r in recs if r[3]), out))

if __name__ == '__main__':
    main(sys.argv[1] if len(sys.argv) > 1 else '/verif/coq/Generated/GadgetShape.v')
