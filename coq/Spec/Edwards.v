(* Specification layer: the affine twisted Edwards group law  a x^2 + y^2 = 1 + d x^2 y^2,
   extended projective representatives, and the decaf validity predicate.  Definitions only. *)
Require Import ZArith Bool.
From D377 Require Import Base.FieldSec Model.Decaf.

Section Edwards.
  Context {AF : AField}.
  Variables (a d : F).
  Local Notation "0" := zero. Local Notation "1" := one.
  Local Infix "+" := add. Local Infix "*" := mul. Local Infix "-" := sub. Local Infix "/" := div.
  Local Notation "- x" := (opp x).

  Definition on_curve (p : apt) : Prop :=
    a * (aX p * aX p) + aY p * aY p = 1 + d * (aX p * aX p) * (aY p * aY p).

  (* reference group law (ristretto.sage QuotientEdwardsPoint.__add__ / __neg__) *)
  Definition ed_add (p q : apt) : apt :=
    mkapt ((aX p * aY q + aY p * aX q) / (1 + d * aX p * aY p * aX q * aY q))
          ((aY p * aY q - a * aX p * aX q) / (1 - d * aX p * aY p * aX q * aY q)).
  Definition ed_neg (p : apt) : apt := mkapt (- aX p) (aY p).
  Definition ed_zero : apt := mkapt 0 1.
  Definition ed_sub (p q : apt) : apt := ed_add p (ed_neg q).

  (* k-fold sum, k a natural number *)
  Fixpoint ed_nsmul (k : nat) (p : apt) : apt :=
    match k with O => ed_zero | S k' => ed_add p (ed_nsmul k' p) end.

  (* extended projective representative (X:Y:Z:T) of (X/Z, Y/Z) *)
  Definition wf (p : pt) : Prop :=
    pZ p <> 0 /\ pX p * pY p = pZ p * pT p /\
    a * (pX p * pX p) + pY p * pY p = pZ p * pZ p + d * (pT p * pT p).
  Definition aff (p : pt) : apt := mkapt (pX p / pZ p) (pY p / pZ p).

  (* two curve points represent the same decaf element iff they differ by the 2-torsion point (0,-1):
     (x,y) ~ (-x,-y).  On the curve this is equivalent to x1*y2 = y1*x2 (see Proofs/Edwards.v). *)
  Definition coset_eq (p q : apt) : Prop :=
    (aX p = aX q /\ aY p = aY q) \/ (aX p = - aX q /\ aY p = - aY q).

  (* decaf validity: on the curve and in the image of doubling / of the Jacobi quartic, i.e.
     (a - d)(a - d y^2) is a square  (projectively: (a-d)(a Z^2 - d Y^2)) *)
  Definition is_square (x : F) : Prop := exists w, w * w = x.
  Definition valid (p : pt) : Prop :=
    wf p /\ is_square ((a - d) * (a * (pZ p * pZ p) - d * (pY p * pY p))).
  Definition avalid (p : apt) : Prop :=
    on_curve p /\ is_square ((a - d) * (a - d * (aY p * aY p))).
End Edwards.
