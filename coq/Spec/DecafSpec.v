(* Specification layer: transcription of Decaf_1_1_Point.{decodeSpec, encodeSpec, elligatorSpec} of
   /repo/ristretto.sage (cofactor 4, isoMagic = 1).  The sage code calls sqrt()/is_square(); here the
   square root is an existentially quantified witness with the sign the sage code selects, so the
   specification does not depend on any square-root algorithm. *)
Require Import ZArith Bool.
From D377 Require Import Base.FieldSec Model.Decaf Spec.Edwards.

Section DecafSpec.
  Context {AF : AField}.
  Variables (a d zeta : F).
  Variable neg : F -> bool.             (* negative(x) = lobit(x) *)
  Local Notation "0" := zero. Local Notation "1" := one.
  Local Infix "+" := add. Local Infix "*" := mul. Local Infix "-" := sub. Local Infix "/" := div.
  Local Notation "- x" := (opp x).

  (* xsqrt(x): the non-negative square root *)
  Definition xsqrt_of (x w : F) : Prop := w * w = x /\ neg w = false.

  (* decodeSpec(s), after bytesToGf(mustBePositive): s is a non-negative field element.
       if s == 0: identity
       t = xsqrt(a^2 s^4 + 2(a-2d) s^2 + 1); altx = 2 s / t; if negative(altx): t = -t
       x = 2s/(1+a s^2);  y = (1 - a s^2)/t
     Divisions by zero (t = 0 or 1 + a s^2 = 0) are errors in sage, i.e. rejections. *)
  Definition decodeSpec (s : F) (p : apt) : Prop :=
    neg s = false /\
    ((s = 0 /\ p = mkapt 0 1) \/
     (s <> 0 /\ exists t,
        t * t = a * a * (s * s * s * s) + two * (a - two * d) * (s * s) + 1 /\
        t <> 0 /\ 1 + a * (s * s) <> 0 /\
        neg (two * s / t) = false /\
        p = mkapt (two * s / (1 + a * (s * s))) ((1 - a * (s * s)) / t))).

  (* encodeSpec(x,y):
       if x == 0 or y == 0: return 0
       sr = xsqrt(1 - a x^2); altx = x y / sr
       s = (1+sr)/x if negative(altx) else (1-sr)/x;  return |s|  (gfToBytes mustBePositive) *)
  Definition fabs_spec (x : F) : F := if neg x then - x else x.
  Definition encodeSpec (p : apt) (s : F) : Prop :=
    ((aX p = 0 \/ aY p = 0) /\ s = 0) \/
    (aX p <> 0 /\ aY p <> 0 /\ exists w, xsqrt_of (1 - a * (aX p * aX p)) w /\
       s = fabs_spec (if neg (aX p * aY p / w) then (1 + w) / aX p else (1 - w) / aX p)).

  (* fromJacobiQuartic(s,t) *)
  Definition fromJacobiQuartic (s t : F) : apt :=
    if feqb s 0 then mkapt 0 1
    else mkapt (two * s / (1 + a * (s * s))) ((1 - a * (s * s)) / t).

  (* elligatorSpec(r0):
       r = qnr r0^2; den = (d r - (d-a)) ((d-a) r - d); if den == 0: identity
       n1 = (r+1)(a-2d)/den; n2 = r n1
       if is_square(n1): s = xsqrt(n1),  t = -(r-1)(a-2d)^2/den - 1
       else:             s = -xsqrt(n2), t = r(r-1)(a-2d)^2/den - 1
       return fromJacobiQuartic(s,t) *)
  Definition elligatorSpec (r0 : F) (p : apt) : Prop :=
    let r := zeta * (r0 * r0) in
    let den := (d * r - (d - a)) * ((d - a) * r - d) in
    (den = 0 /\ p = mkapt 0 1) \/
    (den <> 0 /\
     let n1 := (r + 1) * (a - two * d) / den in
     let n2 := r * n1 in
     ((exists w, xsqrt_of n1 w /\
         p = fromJacobiQuartic w (- (r - 1) * ((a - two * d) * (a - two * d)) / den - 1)) \/
      (~ is_square n1 /\ exists w, xsqrt_of n2 w /\
         p = fromJacobiQuartic (- w) (r * (r - 1) * ((a - two * d) * (a - two * d)) / den - 1)))).

  (* The four-case contract of sqrt_ratio_zeta (C09) *)
  Definition sqrt_ratio_contract (sr : F -> F -> bool * F) : Prop :=
    (forall den, sr 0 den = (true, 0)) /\
    (forall num, num <> 0 -> sr num 0 = (false, 0)) /\
    (forall num den, num <> 0 -> den <> 0 ->
       let '(b, y) := sr num den in
       (b = true /\ y * y * den = num) \/ (b = false /\ y * y * den = zeta * num)) /\
    (forall num den, num <> 0 -> den <> 0 -> fst (sr num den) = true <-> is_square (num / den)).
End DecafSpec.
