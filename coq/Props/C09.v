(* Property C09 — the square-root-of-ratio routine meets its four-case contract on every input, and never panics. *)
Require Import ZArith List Bool.
From D377 Require Import Base.Certs Base.ZpField Base.FieldSec Base.Fields Model.Decaf Model.Sqrt Model.Concrete.
From D377 Require Import Spec.Edwards Spec.DecafSpec Proofs.Instance Proofs.Final Tie.SqrtArk.
From D377 Require Generated.Curve.
Local Existing Instance FqF.

(* sqrt_ratio_contract zeta sr  (Spec/DecafSpec.v):
     sr 0 den = (true, 0);  num <> 0 -> sr num 0 = (false, 0);
     num, den <> 0 -> (b = true /\ y^2 den = num) \/ (b = false /\ y^2 den = zeta num);
     num, den <> 0 -> (b = true <-> num/den is a square) *)
(* constant-time Tonelli-Shanks of the minimal build — on the code regenerated from src/min_curve/invsqrt.rs *)
Lemma contract_ext (z : Fq) (sr sr' : Fq -> Fq -> bool * Fq) :
  (forall n d, sr n d = sr' n d) -> sqrt_ratio_contract z sr' -> sqrt_ratio_contract z sr.
Proof.
  intros E (C1 & C2 & C3 & C4). unfold sqrt_ratio_contract. split; [|split; [|split]].
  - intro den. rewrite E. apply C1.
  - intros num H. rewrite E. apply C2, H.
  - intros num den H H0. rewrite E. apply C3; assumption.
  - intros num den H H0. rewrite E. apply C4; assumption.
Qed.
Theorem C09_min_contract : sqrt_ratio_contract ark_ZETA gen_min_sr.
Proof. exact (contract_ext ark_ZETA gen_min_sr min_sr gen_min_sr_eq min_sr_contract). Qed.
(* table-driven routine of the arkworks build, on the code regenerated from src/ark_curve/invsqrt.rs (sqrt_ratio_zeta);
   the table construction SquareRootTables::new is a hand model (Model/Sqrt.v mk_tables) *)
Definition gen_ark_sr_opt (num den : Fq) : option (bool * Fq) :=
  Generated.Curve.ark_sqrt_ratio ark_tables ark_N ark_M_MINUS_ONE_DIV_TWO num den.
Definition gen_ark_sr (num den : Fq) : bool * Fq := match gen_ark_sr_opt num den with Some r => r | None => (false, zero) end.
Lemma gen_ark_sr_opt_eq n d : gen_ark_sr_opt n d = ark_sr_opt n d.
Proof. unfold gen_ark_sr_opt, ark_sr_opt. exact (@tie_ark_sqrt_ratio FqF ark_tables ark_N ark_M_MINUS_ONE_DIV_TWO n d). Qed.
Lemma gen_ark_sr_eq n d : gen_ark_sr n d = ark_sr n d.
Proof. unfold gen_ark_sr, ark_sr. rewrite gen_ark_sr_opt_eq. reflexivity. Qed.
Theorem C09_ark_generated_contract : sqrt_ratio_contract ark_ZETA gen_ark_sr.
Proof. exact (contract_ext ark_ZETA gen_ark_sr ark_sr gen_ark_sr_eq ark_sr_contract). Qed.
Theorem C09_ark_generated_never_panics : forall num den : Fq, exists r, gen_ark_sr_opt num den = Some r.
Proof. intros n d. rewrite gen_ark_sr_opt_eq. exact (ark_sr_total n d). Qed.
(* the same statements for the hand model ( of src/ark_curve/invsqrt.rs incl. the table construction) *)
Theorem C09_ark_contract : sqrt_ratio_contract ark_ZETA ark_sr.
Proof. exact ark_sr_contract. Qed.
Theorem C09_ark_never_panics : forall num den : Fq, exists r, ark_sr_opt num den = Some r.
Proof. exact ark_sr_total. Qed.
(* zeta is a quadratic non-residue, so the two outcomes are exclusive *)
Theorem C09_zeta_nonsquare : forall w : Fq, mul w w <> ark_ZETA.
Proof. exact zeta_ns. Qed.
