(* Property C12 — the arkworks and the minimal backend are observationally identical.
   Corollaries of the per-backend theorems (both refine the same specification) over the definitions regenerated
   from the two source trees; field parsing/serialisation/arithmetic: both backends are tied to the single model
   Model/FieldTable.v by the correspondence check (C10, C11) and additionally compared directly with each other. *)
Require Import ZArith List Bool.
From D377 Require Import Base.Certs Base.ZpField Base.FieldSec Base.Fields Model.Decaf Model.Bytes Model.Concrete Model.OpTable.
From D377 Require Import Spec.Edwards Spec.DecafSpec Proofs.Instance Proofs.Final Proofs.Reach Props.C01 Props.C02 Props.C03 Props.C04 Props.C05 Props.C07.
Local Existing Instance FqF.

(* decoding: same verdict, same element (identical coordinates) *)
Theorem C12_decode : forall s, gen_ark_decode s = gen_min_decode s.
Proof. exact C02_builds_agree. Qed.
(* encoding: identical field value, hence identical bytes, on every valid representative *)
Theorem C12_encode : forall P, validP P -> gen_ark_encode P = gen_min_encode P.
Proof.
  intros P V.
  destruct (C01_ark_dec_enc P V) as [P' [Hd He]].
  rewrite C12_decode in Hd.
  pose proof (C01_min_enc_dec _ _ Hd) as H1.            (* gen_min_encode P' = gen_ark_encode P *)
  pose proof (C01_decoded_valid_min _ _ Hd) as V'.
  rewrite <- H1. symmetry. exact (C03_min_respects_eq P P' V V' He).
Qed.
(* constants *)
Theorem C12_constants : min_A = ark_A /\ min_D = ark_D /\ min_ZETA = ark_ZETA /\ min_K = mul two ark_D /\ min_GEN = ark_GEN.
Proof.
  split; [rewrite min_A_is_m1, ark_A_is_m1; reflexivity|].
  split; [exact min_D_is_ark_D|split; [exact min_ZETA_is_ark_ZETA|split; [exact min_K_is_2D|exact min_GEN_is_ark_GEN]]].
Qed.
(* group operations: the same affine point *)
Theorem C12_add : forall p q, wfP p -> wfP q -> aff (gen_min_add p q) = aff (ark_add ark_D p q).
Proof. intros p q Wp Wq. rewrite (proj2 (C04_min_add p q Wp Wq)), (proj2 (C04_ark_add p q Wp Wq)). reflexivity. Qed.
Theorem C12_double : forall p, wfP p -> aff (gen_min_double p) = aff (ark_double p).
Proof. intros p W. rewrite (proj2 (C04_min_double p W)), (proj2 (C04_ark_double p W)). reflexivity. Qed.
(* scalar multiplication, any integer length, both ladders *)
Theorem C12_scalar_mul : forall ct p l, wfP p -> SqrtTS.limbs_ok l -> aff (gen_min_scalar_mul ct p l) = aff (ark_mul_bigint p l).
Proof. exact C05_builds_agree. Qed.
(* Elligator: both equal the specification; identical group element *)
Theorem C12_elligator : forall r0, r0 <> zero -> aff (gen_min_elligator r0) = aff (gen_ark_elligator_raw r0) \/
  (exists p p', ESpec r0 p /\ ESpec r0 p' /\ p = aff (gen_min_elligator r0) /\ p' = aff (gen_ark_elligator_raw r0)).
Proof.
  intros r0 H. right. exists (aff (gen_min_elligator r0)), (aff (gen_ark_elligator_raw r0)).
  split; [exact (C07_min_spec_exact r0 H)|split; [exact (C07_ark_spec_exact r0 H)|split; reflexivity]].
Qed.
