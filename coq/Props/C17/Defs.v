(* C17 — published constants are consistent with the moduli and curve they describe.
   Every check is a boolean computed from the *extracted* constant (Generated/Consts.v)
   and from values recomputed from the modulus alone. *)
Require Import ZArith List String Bool.
From D377 Require Import Model.CVal.
Import ListNotations.
Open Scope string_scope. Open Scope Z_scope. Open Scope bool_scope.

Record field_consts := {
  fc_B : cval; fc_N8 : cval; fc_N32 : cval; fc_N64 : cval;
  fc_MOD : cval; fc_HALF : cval; fc_BITS : cval; fc_TRACE : cval; fc_HTRACE : cval; fc_ADICITY : cval;
  fc_QNRT : option cval; fc_GEN : cval; fc_ROOT : cval; fc_FSP2 : cval;
  (* arkworks trait constants (forwarders) *)
  fa_MOD : cval; fa_HALF : cval; fa_BITS : cval; fa_TRACE : cval; fa_HTRACE : cval; fa_SQRT : cval;
  fa_ZERO : cval; fa_ONE : cval; fa_GEN : cval; fa_ADICITY : cval; fa_ROOT : cval;
  fa_SSB : cval; fa_SSBA : cval; fa_LSR : cval;
  (* u64 wrapper *)
  f64_N : cval; f64_ZERO : cval; f64_ONE : cval;
  (* u32 wrapper *)
  f32_N : cval; f32_ZERO : cval; f32_ONE : cval; f32_I : cval
}.

Definition u32_lits (c : cval) : list Z :=
  match c with CNode _ [CNode _ [CInts l]] => l | _ => [] end.

Definition ceil_div_expr (k d : Z) : cval := CNode "div" [CNode "add" [CRef "B"; CInt k]; CInt d].

Section Field.
  Variables (nm ty : string) (m : Z) (n64 n32 : nat) (g qnr : Z) (fs : list (Z * Z)) (fc : field_consts).
  Let lbl (s : string) := String.append nm (String.append "." s).
  Let n8 := (bit_size m + 7) / 8.

  Definition sqrt_precomp_expected : cval :=
    if (m mod 4 =? 3) && (two_adicity m =? 1) then
      CNode "struct SqrtPrecomputation::Case3Mod4"
        [CNode "modulus_plus_one_div_four" [CInts (map (fun i => ((m + 1) / 4 / 2 ^ (64 * Z.of_nat i)) mod 2 ^ 64) (seq 0 n64))]]
    else
      CNode "struct SqrtPrecomputation::TonelliShanks"
        [CNode "two_adicity" [CRef "Self::TWO_ADICITY"];
         CNode "quadratic_nonresidue_to_trace" [CRef "Self::QUADRATIC_NON_RESIDUE_TO_TRACE"];
         CNode "trace_of_modulus_minus_one_div_two" [CRef "Self::TRACE_MINUS_ONE_DIV_TWO_LIMBS"]].

  Definition field_checks : list (string * bool) :=
    [ (lbl "B", int_is (fc_B fc) (bit_size m));
      (lbl "N_8", cval_eqb (fc_N8 fc) (ceil_div_expr 7 8));
      (lbl "N_32", cval_eqb (fc_N32 fc) (ceil_div_expr 31 32) && (Z.of_nat n32 =? (bit_size m + 31) / 32));
      (lbl "N_64", cval_eqb (fc_N64 fc) (ceil_div_expr 63 64) && (Z.of_nat n64 =? (bit_size m + 63) / 64));
      (lbl "MODULUS_LIMBS", ints_are (fc_MOD fc) n64 m);
      (lbl "MODULUS_MINUS_ONE_DIV_TWO_LIMBS", ints_are (fc_HALF fc) n64 ((m - 1) / 2));
      (lbl "MODULUS_BIT_SIZE", int_is (fc_BITS fc) (bit_size m));
      (lbl "TRACE_LIMBS", ints_are (fc_TRACE fc) n64 (trace m));
      (lbl "TRACE_MINUS_ONE_DIV_TWO_LIMBS", ints_are (fc_HTRACE fc) n64 ((trace m - 1) / 2));
      (lbl "TWO_ADICITY", int_is (fc_ADICITY fc) (two_adicity m) && (2 ^ two_adicity m * trace m =? m - 1) && Z.odd (trace m));
      (lbl "QUADRATIC_NON_RESIDUE_TO_TRACE",
         match fc_QNRT fc with
         | Some c => mont_is m n64 c (powm qnr (trace m) m) && least_qnr m qnr
         | None => (two_adicity m =? 1)   (* only the 3 mod 4 field may omit it *)
         end);
      (lbl "MULTIPLICATIVE_GENERATOR", mont_is m n64 (fc_GEN fc) g && prim_root m g fs);
      (lbl "TWO_ADIC_ROOT_OF_UNITY", mont_is m n64 (fc_ROOT fc) (powm g (trace m) m));
      (lbl "FIELD_SIZE_POWER_OF_TWO", mont_is m n64 (fc_FSP2 fc) (2 ^ (8 * n8) mod m));
      (lbl "ark.MODULUS", is_ref (fa_MOD fc) "Self::MODULUS_LIMBS");
      (lbl "ark.MODULUS_MINUS_ONE_DIV_TWO", is_ref (fa_HALF fc) "Self::MODULUS_MINUS_ONE_DIV_TWO_LIMBS");
      (lbl "ark.MODULUS_BIT_SIZE", is_ref (fa_BITS fc) "Self::MODULUS_BIT_SIZE");
      (lbl "ark.TRACE", is_ref (fa_TRACE fc) "Self::TRACE_LIMBS");
      (lbl "ark.TRACE_MINUS_ONE_DIV_TWO", is_ref (fa_HTRACE fc) "Self::TRACE_MINUS_ONE_DIV_TWO_LIMBS");
      (lbl "ark.SQRT_PRECOMP", cval_eqb (fa_SQRT fc) sqrt_precomp_expected);
      (lbl "ark.ZERO", is_ref (fa_ZERO fc) "Self::ZERO");
      (lbl "ark.ONE", is_ref (fa_ONE fc) "Self::ONE");
      (lbl "ark.GENERATOR", is_ref (fa_GEN fc) "Self::MULTIPLICATIVE_GENERATOR");
      (lbl "ark.TWO_ADICITY", is_ref (fa_ADICITY fc) "Self::TWO_ADICITY");
      (lbl "ark.TWO_ADIC_ROOT_OF_UNITY", is_ref (fa_ROOT fc) "Self::TWO_ADIC_ROOT_OF_UNITY");
      (lbl "ark.SMALL_SUBGROUP_BASE", is_ref (fa_SSB fc) "None");
      (lbl "ark.SMALL_SUBGROUP_BASE_ADICITY", is_ref (fa_SSBA fc) "None");
      (lbl "ark.LARGE_SUBGROUP_ROOT_OF_UNITY", is_ref (fa_LSR fc) "None");
      (lbl "u64.N", is_ref (f64_N fc) "N_64");
      (lbl "u64.ZERO", cval_eqb (f64_ZERO fc) (CNode "Self" [CNode (String.append "Arkworks" (String.append ty "::new")) [CNode "repeat" [CInt 0; CRef "N"]]]));
      (lbl "u64.ONE", cval_eqb (f64_ONE fc) (CNode "Self" [CNode (String.append "Arkworks" (String.append ty "::new")) [CNode "BigInt::one" []]]));
      (lbl "u32.N", is_ref (f32_N fc) "N_32");
      (lbl "u32.ZERO", cval_eqb (f32_ZERO fc) (CNode "Self" [CNode (String.append "fiat::" (String.append ty "MontgomeryDomainFieldElement")) [CNode "repeat" [CInt 0; CRef "N"]]]));
      (lbl "u32.ONE", mont_repr m 32 n32 (u32_lits (f32_ONE fc)) 1);
      (lbl "u32.I", cval_eqb (f32_I fc) (CNode "div" [CNode "add" [CNode "mul" [CInt 49; CRef "B"]; CInt 57]; CInt 17]))
    ].
End Field.

Definition all_true (l : list (string * bool)) : bool := forallb snd l.
Definition failing (l : list (string * bool)) : list string := map fst (filter (fun c => negb (snd c)) l).

Lemma all_true_spec l : all_true l = true -> forall n b, In (n, b) l -> b = true.
Proof.
  unfold all_true. intros H n b Hin. rewrite forallb_forall in H. exact (H (n, b) Hin).
Qed.
