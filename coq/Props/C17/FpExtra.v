(* C17: extra Fp constants (MINUS_ONE, QUADRATIC_NON_RESIDUE) of both wrappers *)
Require Import ZArith List String Bool.
From D377 Require Import Base.Certs Model.CVal Generated.Consts Props.C17.Defs.
Import ListNotations. Open Scope string_scope. Open Scope Z_scope. Open Scope bool_scope.

Definition p_Rinv : Z := Eval vm_compute in powm (2 ^ 384 mod p) (p - 2) p.
Definition fp_extra_checks : list (string * bool) :=
  [ ("p_Rinv", rinv_ok p 6 p_Rinv);
    ("fp.MINUS_ONE(u64)", mont_is p 6 c_fields_fp_u64_wrapper_rs__Fp__MINUS_ONE (p - 1));
    ("fp.QUADRATIC_NON_RESIDUE(u64)", mont_is p 6 c_fields_fp_u64_wrapper_rs__Fp__QUADRATIC_NON_RESIDUE (p - 5) && is_qnr p (p - 5));
    ("fp.MINUS_ONE(u32)", mont_repr p 32 12 (u32_lits c_fields_fp_u32_wrapper_rs__Fp__MINUS_ONE) (p - 1));
    ("fp.QUADRATIC_NON_RESIDUE(u32)", mont_repr p 32 12 (u32_lits c_fields_fp_u32_wrapper_rs__Fp__QUADRATIC_NON_RESIDUE) (p - 5)) ].
Definition fp_extra_covered : list string :=
  [ "c_fields_fp_u64_wrapper_rs__Fp__MINUS_ONE"; "c_fields_fp_u64_wrapper_rs__Fp__QUADRATIC_NON_RESIDUE";
    "c_fields_fp_u32_wrapper_rs__Fp__MINUS_ONE"; "c_fields_fp_u32_wrapper_rs__Fp__QUADRATIC_NON_RESIDUE" ].
