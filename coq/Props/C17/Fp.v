(* C17, field Fp: instantiation of the generic checks on the extracted constants *)
Require Import ZArith List String Bool Znumtheory.
From D377 Require Import Base.Certs Model.CVal Generated.Consts Props.C17.Defs.
Import ListNotations. Open Scope string_scope. Open Scope Z_scope.

Definition fp_factors : list (Z * Z) := [(2, 46); (3, 1); (7, 1); (13, 1); (53, 1); (409, 1); (499, 1); (2557, 1); (6633514200929891813, 1); (73387170334035996766247648424745786170238574695861388454532790956181, 1)].
Lemma fp_factors_prime : Forall (fun f => prime (fst f)) fp_factors.
Proof. unfold fp_factors. repeat (apply Forall_cons; [cbn [fst]; first [exact prime_2 | exact prime_3 | exact prime_7 | exact prime_13 | exact prime_53 | exact prime_409 | exact prime_499 | exact prime_2557 | exact prime_6633514200929891813 | exact prime_73387170334035996766247648424745786170238574695861388454532790956181]|]). apply Forall_nil. Qed.

Definition fp_consts : field_consts := {|
  fc_B := c_fields_fp_rs__top__B;
  fc_N8 := c_fields_fp_rs__top__N_8;
  fc_N32 := c_fields_fp_rs__top__N_32;
  fc_N64 := c_fields_fp_rs__top__N_64;
  fc_MOD := c_fields_fp_rs__Fp__MODULUS_LIMBS;
  fc_HALF := c_fields_fp_rs__Fp__MODULUS_MINUS_ONE_DIV_TWO_LIMBS;
  fc_BITS := c_fields_fp_rs__Fp__MODULUS_BIT_SIZE;
  fc_TRACE := c_fields_fp_rs__Fp__TRACE_LIMBS;
  fc_HTRACE := c_fields_fp_rs__Fp__TRACE_MINUS_ONE_DIV_TWO_LIMBS;
  fc_ADICITY := c_fields_fp_rs__Fp__TWO_ADICITY;
  fc_QNRT := Some c_fields_fp_rs__Fp__QUADRATIC_NON_RESIDUE_TO_TRACE;
  fc_GEN := c_fields_fp_rs__Fp__MULTIPLICATIVE_GENERATOR;
  fc_ROOT := c_fields_fp_rs__Fp__TWO_ADIC_ROOT_OF_UNITY;
  fc_FSP2 := c_fields_fp_rs__Fp__FIELD_SIZE_POWER_OF_TWO;
  fa_MOD := c_fields_fp_arkworks_rs__PrimeField_for_Fp__MODULUS;
  fa_HALF := c_fields_fp_arkworks_rs__PrimeField_for_Fp__MODULUS_MINUS_ONE_DIV_TWO;
  fa_BITS := c_fields_fp_arkworks_rs__PrimeField_for_Fp__MODULUS_BIT_SIZE;
  fa_TRACE := c_fields_fp_arkworks_rs__PrimeField_for_Fp__TRACE;
  fa_HTRACE := c_fields_fp_arkworks_rs__PrimeField_for_Fp__TRACE_MINUS_ONE_DIV_TWO;
  fa_SQRT := c_fields_fp_arkworks_rs__Field_for_Fp__SQRT_PRECOMP;
  fa_ZERO := c_fields_fp_arkworks_rs__Field_for_Fp__ZERO;
  fa_ONE := c_fields_fp_arkworks_rs__Field_for_Fp__ONE;
  fa_GEN := c_fields_fp_arkworks_rs__FftField_for_Fp__GENERATOR;
  fa_ADICITY := c_fields_fp_arkworks_rs__FftField_for_Fp__TWO_ADICITY;
  fa_ROOT := c_fields_fp_arkworks_rs__FftField_for_Fp__TWO_ADIC_ROOT_OF_UNITY;
  fa_SSB := c_fields_fp_arkworks_rs__FftField_for_Fp__SMALL_SUBGROUP_BASE;
  fa_SSBA := c_fields_fp_arkworks_rs__FftField_for_Fp__SMALL_SUBGROUP_BASE_ADICITY;
  fa_LSR := c_fields_fp_arkworks_rs__FftField_for_Fp__LARGE_SUBGROUP_ROOT_OF_UNITY;
  f64_N := c_fields_fp_u64_wrapper_rs__top__N;
  f64_ZERO := c_fields_fp_u64_wrapper_rs__Fp__ZERO;
  f64_ONE := c_fields_fp_u64_wrapper_rs__Fp__ONE;
  f32_N := c_fields_fp_u32_wrapper_rs__top__N;
  f32_ZERO := c_fields_fp_u32_wrapper_rs__Fp__ZERO;
  f32_ONE := c_fields_fp_u32_wrapper_rs__Fp__ONE;
  f32_I := c_fields_fp_u32_wrapper_rs__Fp__I |}.

Definition fp_checks : list (string * bool) := field_checks "fp" "Fp" p 6 12 15 5 fp_factors fp_consts.

Definition fp_covered : list string := ["c_fields_fp_rs__top__B"; "c_fields_fp_rs__top__N_8"; "c_fields_fp_rs__top__N_32"; "c_fields_fp_rs__top__N_64"; "c_fields_fp_rs__Fp__MODULUS_LIMBS"; "c_fields_fp_rs__Fp__MODULUS_MINUS_ONE_DIV_TWO_LIMBS"; "c_fields_fp_rs__Fp__MODULUS_BIT_SIZE"; "c_fields_fp_rs__Fp__TRACE_LIMBS"; "c_fields_fp_rs__Fp__TRACE_MINUS_ONE_DIV_TWO_LIMBS"; "c_fields_fp_rs__Fp__TWO_ADICITY"; "c_fields_fp_rs__Fp__QUADRATIC_NON_RESIDUE_TO_TRACE"; "c_fields_fp_rs__Fp__MULTIPLICATIVE_GENERATOR"; "c_fields_fp_rs__Fp__TWO_ADIC_ROOT_OF_UNITY"; "c_fields_fp_rs__Fp__FIELD_SIZE_POWER_OF_TWO"; "c_fields_fp_arkworks_rs__PrimeField_for_Fp__MODULUS"; "c_fields_fp_arkworks_rs__PrimeField_for_Fp__MODULUS_MINUS_ONE_DIV_TWO"; "c_fields_fp_arkworks_rs__PrimeField_for_Fp__MODULUS_BIT_SIZE"; "c_fields_fp_arkworks_rs__PrimeField_for_Fp__TRACE"; "c_fields_fp_arkworks_rs__PrimeField_for_Fp__TRACE_MINUS_ONE_DIV_TWO"; "c_fields_fp_arkworks_rs__Field_for_Fp__SQRT_PRECOMP"; "c_fields_fp_arkworks_rs__Field_for_Fp__ZERO"; "c_fields_fp_arkworks_rs__Field_for_Fp__ONE"; "c_fields_fp_arkworks_rs__FftField_for_Fp__GENERATOR"; "c_fields_fp_arkworks_rs__FftField_for_Fp__TWO_ADICITY"; "c_fields_fp_arkworks_rs__FftField_for_Fp__TWO_ADIC_ROOT_OF_UNITY"; "c_fields_fp_arkworks_rs__FftField_for_Fp__SMALL_SUBGROUP_BASE"; "c_fields_fp_arkworks_rs__FftField_for_Fp__SMALL_SUBGROUP_BASE_ADICITY"; "c_fields_fp_arkworks_rs__FftField_for_Fp__LARGE_SUBGROUP_ROOT_OF_UNITY"; "c_fields_fp_u64_wrapper_rs__top__N"; "c_fields_fp_u64_wrapper_rs__Fp__ZERO"; "c_fields_fp_u64_wrapper_rs__Fp__ONE"; "c_fields_fp_u32_wrapper_rs__top__N"; "c_fields_fp_u32_wrapper_rs__Fp__ZERO"; "c_fields_fp_u32_wrapper_rs__Fp__ONE"; "c_fields_fp_u32_wrapper_rs__Fp__I"].

