(* C17: the checks of Props/C17/Fr.v all evaluate to true *)
From D377 Require Import Props.C17.Defs Props.C17.Fr.
Theorem fr_checks_ok : all_true fr_checks = true.
Proof. vm_compute. reflexivity. Qed.
