(* C17, field Fq: instantiation of the generic checks on the extracted constants *)
Require Import ZArith List String Bool Znumtheory.
From D377 Require Import Base.Certs Model.CVal Generated.Consts Props.C17.Defs.
Import ListNotations. Open Scope string_scope. Open Scope Z_scope.

Definition fq_factors : list (Z * Z) := [(2, 47); (3, 1); (5, 1); (7, 1); (13, 1); (499, 1); (9586122913090633729, 2); (958612291309063373, 1)].
Lemma fq_factors_prime : Forall (fun f => prime (fst f)) fq_factors.
Proof. unfold fq_factors. repeat (apply Forall_cons; [cbn [fst]; first [exact prime_2 | exact prime_3 | exact prime_5 | exact prime_7 | exact prime_13 | exact prime_499 | exact prime_9586122913090633729 | exact prime_958612291309063373]|]). apply Forall_nil. Qed.

Definition fq_consts : field_consts := {|
  fc_B := c_fields_fq_rs__top__B;
  fc_N8 := c_fields_fq_rs__top__N_8;
  fc_N32 := c_fields_fq_rs__top__N_32;
  fc_N64 := c_fields_fq_rs__top__N_64;
  fc_MOD := c_fields_fq_rs__Fq__MODULUS_LIMBS;
  fc_HALF := c_fields_fq_rs__Fq__MODULUS_MINUS_ONE_DIV_TWO_LIMBS;
  fc_BITS := c_fields_fq_rs__Fq__MODULUS_BIT_SIZE;
  fc_TRACE := c_fields_fq_rs__Fq__TRACE_LIMBS;
  fc_HTRACE := c_fields_fq_rs__Fq__TRACE_MINUS_ONE_DIV_TWO_LIMBS;
  fc_ADICITY := c_fields_fq_rs__Fq__TWO_ADICITY;
  fc_QNRT := Some c_fields_fq_rs__Fq__QUADRATIC_NON_RESIDUE_TO_TRACE;
  fc_GEN := c_fields_fq_rs__Fq__MULTIPLICATIVE_GENERATOR;
  fc_ROOT := c_fields_fq_rs__Fq__TWO_ADIC_ROOT_OF_UNITY;
  fc_FSP2 := c_fields_fq_rs__Fq__FIELD_SIZE_POWER_OF_TWO;
  fa_MOD := c_fields_fq_arkworks_rs__PrimeField_for_Fq__MODULUS;
  fa_HALF := c_fields_fq_arkworks_rs__PrimeField_for_Fq__MODULUS_MINUS_ONE_DIV_TWO;
  fa_BITS := c_fields_fq_arkworks_rs__PrimeField_for_Fq__MODULUS_BIT_SIZE;
  fa_TRACE := c_fields_fq_arkworks_rs__PrimeField_for_Fq__TRACE;
  fa_HTRACE := c_fields_fq_arkworks_rs__PrimeField_for_Fq__TRACE_MINUS_ONE_DIV_TWO;
  fa_SQRT := c_fields_fq_arkworks_rs__Field_for_Fq__SQRT_PRECOMP;
  fa_ZERO := c_fields_fq_arkworks_rs__Field_for_Fq__ZERO;
  fa_ONE := c_fields_fq_arkworks_rs__Field_for_Fq__ONE;
  fa_GEN := c_fields_fq_arkworks_rs__FftField_for_Fq__GENERATOR;
  fa_ADICITY := c_fields_fq_arkworks_rs__FftField_for_Fq__TWO_ADICITY;
  fa_ROOT := c_fields_fq_arkworks_rs__FftField_for_Fq__TWO_ADIC_ROOT_OF_UNITY;
  fa_SSB := c_fields_fq_arkworks_rs__FftField_for_Fq__SMALL_SUBGROUP_BASE;
  fa_SSBA := c_fields_fq_arkworks_rs__FftField_for_Fq__SMALL_SUBGROUP_BASE_ADICITY;
  fa_LSR := c_fields_fq_arkworks_rs__FftField_for_Fq__LARGE_SUBGROUP_ROOT_OF_UNITY;
  f64_N := c_fields_fq_u64_wrapper_rs__top__N;
  f64_ZERO := c_fields_fq_u64_wrapper_rs__Fq__ZERO;
  f64_ONE := c_fields_fq_u64_wrapper_rs__Fq__ONE;
  f32_N := c_fields_fq_u32_wrapper_rs__top__N;
  f32_ZERO := c_fields_fq_u32_wrapper_rs__Fq__ZERO;
  f32_ONE := c_fields_fq_u32_wrapper_rs__Fq__ONE;
  f32_I := c_fields_fq_u32_wrapper_rs__Fq__I |}.

Definition fq_checks : list (string * bool) := field_checks "fq" "Fq" q 4 8 22 11 fq_factors fq_consts.

Definition fq_covered : list string := ["c_fields_fq_rs__top__B"; "c_fields_fq_rs__top__N_8"; "c_fields_fq_rs__top__N_32"; "c_fields_fq_rs__top__N_64"; "c_fields_fq_rs__Fq__MODULUS_LIMBS"; "c_fields_fq_rs__Fq__MODULUS_MINUS_ONE_DIV_TWO_LIMBS"; "c_fields_fq_rs__Fq__MODULUS_BIT_SIZE"; "c_fields_fq_rs__Fq__TRACE_LIMBS"; "c_fields_fq_rs__Fq__TRACE_MINUS_ONE_DIV_TWO_LIMBS"; "c_fields_fq_rs__Fq__TWO_ADICITY"; "c_fields_fq_rs__Fq__QUADRATIC_NON_RESIDUE_TO_TRACE"; "c_fields_fq_rs__Fq__MULTIPLICATIVE_GENERATOR"; "c_fields_fq_rs__Fq__TWO_ADIC_ROOT_OF_UNITY"; "c_fields_fq_rs__Fq__FIELD_SIZE_POWER_OF_TWO"; "c_fields_fq_arkworks_rs__PrimeField_for_Fq__MODULUS"; "c_fields_fq_arkworks_rs__PrimeField_for_Fq__MODULUS_MINUS_ONE_DIV_TWO"; "c_fields_fq_arkworks_rs__PrimeField_for_Fq__MODULUS_BIT_SIZE"; "c_fields_fq_arkworks_rs__PrimeField_for_Fq__TRACE"; "c_fields_fq_arkworks_rs__PrimeField_for_Fq__TRACE_MINUS_ONE_DIV_TWO"; "c_fields_fq_arkworks_rs__Field_for_Fq__SQRT_PRECOMP"; "c_fields_fq_arkworks_rs__Field_for_Fq__ZERO"; "c_fields_fq_arkworks_rs__Field_for_Fq__ONE"; "c_fields_fq_arkworks_rs__FftField_for_Fq__GENERATOR"; "c_fields_fq_arkworks_rs__FftField_for_Fq__TWO_ADICITY"; "c_fields_fq_arkworks_rs__FftField_for_Fq__TWO_ADIC_ROOT_OF_UNITY"; "c_fields_fq_arkworks_rs__FftField_for_Fq__SMALL_SUBGROUP_BASE"; "c_fields_fq_arkworks_rs__FftField_for_Fq__SMALL_SUBGROUP_BASE_ADICITY"; "c_fields_fq_arkworks_rs__FftField_for_Fq__LARGE_SUBGROUP_ROOT_OF_UNITY"; "c_fields_fq_u64_wrapper_rs__top__N"; "c_fields_fq_u64_wrapper_rs__Fq__ZERO"; "c_fields_fq_u64_wrapper_rs__Fq__ONE"; "c_fields_fq_u32_wrapper_rs__top__N"; "c_fields_fq_u32_wrapper_rs__Fq__ZERO"; "c_fields_fq_u32_wrapper_rs__Fq__ONE"; "c_fields_fq_u32_wrapper_rs__Fq__I"].

