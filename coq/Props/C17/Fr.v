(* C17, field Fr: instantiation of the generic checks on the extracted constants *)
Require Import ZArith List String Bool Znumtheory.
From D377 Require Import Base.Certs Model.CVal Generated.Consts Props.C17.Defs.
Import ListNotations. Open Scope string_scope. Open Scope Z_scope.

Definition fr_factors : list (Z * Z) := [(2, 1); (1553, 1); (1282495723, 1); (4153589585267, 1); (127594226306900005382664386181896662579473947460767, 1)].
Lemma fr_factors_prime : Forall (fun f => prime (fst f)) fr_factors.
Proof. unfold fr_factors. repeat (apply Forall_cons; [cbn [fst]; first [exact prime_2 | exact prime_1553 | exact prime_1282495723 | exact prime_4153589585267 | exact prime_127594226306900005382664386181896662579473947460767]|]). apply Forall_nil. Qed.

Definition fr_consts : field_consts := {|
  fc_B := c_fields_fr_rs__top__B;
  fc_N8 := c_fields_fr_rs__top__N_8;
  fc_N32 := c_fields_fr_rs__top__N_32;
  fc_N64 := c_fields_fr_rs__top__N_64;
  fc_MOD := c_fields_fr_rs__Fr__MODULUS_LIMBS;
  fc_HALF := c_fields_fr_rs__Fr__MODULUS_MINUS_ONE_DIV_TWO_LIMBS;
  fc_BITS := c_fields_fr_rs__Fr__MODULUS_BIT_SIZE;
  fc_TRACE := c_fields_fr_rs__Fr__TRACE_LIMBS;
  fc_HTRACE := c_fields_fr_rs__Fr__TRACE_MINUS_ONE_DIV_TWO_LIMBS;
  fc_ADICITY := c_fields_fr_rs__Fr__TWO_ADICITY;
  fc_QNRT := None;
  fc_GEN := c_fields_fr_rs__Fr__MULTIPLICATIVE_GENERATOR;
  fc_ROOT := c_fields_fr_rs__Fr__TWO_ADIC_ROOT_OF_UNITY;
  fc_FSP2 := c_fields_fr_rs__Fr__FIELD_SIZE_POWER_OF_TWO;
  fa_MOD := c_fields_fr_arkworks_rs__PrimeField_for_Fr__MODULUS;
  fa_HALF := c_fields_fr_arkworks_rs__PrimeField_for_Fr__MODULUS_MINUS_ONE_DIV_TWO;
  fa_BITS := c_fields_fr_arkworks_rs__PrimeField_for_Fr__MODULUS_BIT_SIZE;
  fa_TRACE := c_fields_fr_arkworks_rs__PrimeField_for_Fr__TRACE;
  fa_HTRACE := c_fields_fr_arkworks_rs__PrimeField_for_Fr__TRACE_MINUS_ONE_DIV_TWO;
  fa_SQRT := c_fields_fr_arkworks_rs__Field_for_Fr__SQRT_PRECOMP;
  fa_ZERO := c_fields_fr_arkworks_rs__Field_for_Fr__ZERO;
  fa_ONE := c_fields_fr_arkworks_rs__Field_for_Fr__ONE;
  fa_GEN := c_fields_fr_arkworks_rs__FftField_for_Fr__GENERATOR;
  fa_ADICITY := c_fields_fr_arkworks_rs__FftField_for_Fr__TWO_ADICITY;
  fa_ROOT := c_fields_fr_arkworks_rs__FftField_for_Fr__TWO_ADIC_ROOT_OF_UNITY;
  fa_SSB := c_fields_fr_arkworks_rs__FftField_for_Fr__SMALL_SUBGROUP_BASE;
  fa_SSBA := c_fields_fr_arkworks_rs__FftField_for_Fr__SMALL_SUBGROUP_BASE_ADICITY;
  fa_LSR := c_fields_fr_arkworks_rs__FftField_for_Fr__LARGE_SUBGROUP_ROOT_OF_UNITY;
  f64_N := c_fields_fr_u64_wrapper_rs__top__N;
  f64_ZERO := c_fields_fr_u64_wrapper_rs__Fr__ZERO;
  f64_ONE := c_fields_fr_u64_wrapper_rs__Fr__ONE;
  f32_N := c_fields_fr_u32_wrapper_rs__top__N;
  f32_ZERO := c_fields_fr_u32_wrapper_rs__Fr__ZERO;
  f32_ONE := c_fields_fr_u32_wrapper_rs__Fr__ONE;
  f32_I := c_fields_fr_u32_wrapper_rs__Fr__I |}.

Definition fr_checks : list (string * bool) := field_checks "fr" "Fr" r 4 8 5 5 fr_factors fr_consts.

Definition fr_covered : list string := ["c_fields_fr_rs__top__B"; "c_fields_fr_rs__top__N_8"; "c_fields_fr_rs__top__N_32"; "c_fields_fr_rs__top__N_64"; "c_fields_fr_rs__Fr__MODULUS_LIMBS"; "c_fields_fr_rs__Fr__MODULUS_MINUS_ONE_DIV_TWO_LIMBS"; "c_fields_fr_rs__Fr__MODULUS_BIT_SIZE"; "c_fields_fr_rs__Fr__TRACE_LIMBS"; "c_fields_fr_rs__Fr__TRACE_MINUS_ONE_DIV_TWO_LIMBS"; "c_fields_fr_rs__Fr__TWO_ADICITY"; "c_fields_fr_rs__Fr__MULTIPLICATIVE_GENERATOR"; "c_fields_fr_rs__Fr__TWO_ADIC_ROOT_OF_UNITY"; "c_fields_fr_rs__Fr__FIELD_SIZE_POWER_OF_TWO"; "c_fields_fr_arkworks_rs__PrimeField_for_Fr__MODULUS"; "c_fields_fr_arkworks_rs__PrimeField_for_Fr__MODULUS_MINUS_ONE_DIV_TWO"; "c_fields_fr_arkworks_rs__PrimeField_for_Fr__MODULUS_BIT_SIZE"; "c_fields_fr_arkworks_rs__PrimeField_for_Fr__TRACE"; "c_fields_fr_arkworks_rs__PrimeField_for_Fr__TRACE_MINUS_ONE_DIV_TWO"; "c_fields_fr_arkworks_rs__Field_for_Fr__SQRT_PRECOMP"; "c_fields_fr_arkworks_rs__Field_for_Fr__ZERO"; "c_fields_fr_arkworks_rs__Field_for_Fr__ONE"; "c_fields_fr_arkworks_rs__FftField_for_Fr__GENERATOR"; "c_fields_fr_arkworks_rs__FftField_for_Fr__TWO_ADICITY"; "c_fields_fr_arkworks_rs__FftField_for_Fr__TWO_ADIC_ROOT_OF_UNITY"; "c_fields_fr_arkworks_rs__FftField_for_Fr__SMALL_SUBGROUP_BASE"; "c_fields_fr_arkworks_rs__FftField_for_Fr__SMALL_SUBGROUP_BASE_ADICITY"; "c_fields_fr_arkworks_rs__FftField_for_Fr__LARGE_SUBGROUP_ROOT_OF_UNITY"; "c_fields_fr_u64_wrapper_rs__top__N"; "c_fields_fr_u64_wrapper_rs__Fr__ZERO"; "c_fields_fr_u64_wrapper_rs__Fr__ONE"; "c_fields_fr_u32_wrapper_rs__top__N"; "c_fields_fr_u32_wrapper_rs__Fr__ZERO"; "c_fields_fr_u32_wrapper_rs__Fr__ONE"; "c_fields_fr_u32_wrapper_rs__Fr__I"].

