(* C17, curve constants of both backends (ark_curve/{constants,edwards}.rs, min_curve/{constants,element}.rs) *)
Require Import ZArith List String Bool.
From D377 Require Import Base.Certs Model.CVal Generated.Consts Props.C17.Defs.
Import ListNotations. Open Scope string_scope. Open Scope Z_scope. Open Scope bool_scope.

Definition q_Rinv : Z := Eval vm_compute in powm (2 ^ 256 mod q) (q - 2) q.
Definition qv (c : cval) : Z := mont_val q q_Rinv c.
Definition qm (c : cval) : bool := mont_limbs_ok q 4 c.
Definition zeta_v : Z := 2841681278031794617739547238867782961338435681360110683443920362658525667816.
Definition a_v : Z := q - 1.
Definition d_v : Z := 3021.

Definition struct_field (c : cval) (f : string) : cval :=
  match c with
  | CNode _ fields =>
      match find (fun x => match x with CNode g _ => String.eqb g f | _ => false end) fields with
      | Some (CNode _ [v]) => v | _ => CExpr "missing"
      end
  | _ => CExpr "missing"
  end.

Definition on_curve (x y : Z) : bool := ((a_v * x * x + y * y - 1 - d_v * x * x * y * y) mod q =? 0).

Definition curve_checks : list (string * bool) :=
  let A := c_ark_curve_edwards_rs__TECurveConfig_for_Decaf377EdwardsConfig__COEFF_A in
  let D := c_ark_curve_edwards_rs__TECurveConfig_for_Decaf377EdwardsConfig__COEFF_D in
  let MA := c_ark_curve_edwards_rs__MontCurveConfig_for_Decaf377EdwardsConfig__COEFF_A in
  let MB := c_ark_curve_edwards_rs__MontCurveConfig_for_Decaf377EdwardsConfig__COEFF_B in
  let BX := c_ark_curve_constants_rs__top__B_X in
  let BY := c_ark_curve_constants_rs__top__B_Y in
  let BT := c_ark_curve_constants_rs__top__B_T in
  let MG := c_min_curve_element_rs__Element__GENERATOR in
  [ ("q_Rinv", rinv_ok q 4 q_Rinv);
    ("edwards.COFACTOR", cval_eqb c_ark_curve_edwards_rs__CurveConfig_for_Decaf377EdwardsConfig__COFACTOR (CInts [1]));
    ("edwards.COFACTOR_INV", is_ref c_ark_curve_edwards_rs__CurveConfig_for_Decaf377EdwardsConfig__COFACTOR_INV "Fr::ONE");
    ("edwards.COEFF_A", qm A && (qv A =? a_v));
    ("edwards.COEFF_D", qm D && (qv D =? d_v));
    ("edwards.d_nonsquare", is_qnr q d_v && is_qnr q ((a_v - d_v) mod q) && is_qr q a_v);
    ("edwards.GENERATOR", cval_eqb c_ark_curve_edwards_rs__TECurveConfig_for_Decaf377EdwardsConfig__GENERATOR
                             (CNode "EdwardsAffine::new_unchecked" [CRef "GENERATOR_X"; CRef "GENERATOR_Y"]));
    ("edwards.Mont.COEFF_A", qm MA && ((qv MA * (a_v - d_v) - 2 * (a_v + d_v)) mod q =? 0));
    ("edwards.Mont.COEFF_B", qm MB && ((qv MB * (a_v - d_v) - 4) mod q =? 0));
    ("constants.ONE", is_ref c_ark_curve_constants_rs__top__ONE "Fq::ONE");
    ("constants.TWO", cval_eqb c_ark_curve_constants_rs__top__TWO (CExpr "Lazy :: new ( || Fq :: ONE + Fq :: ONE )"));
    ("constants.ZETA", qm c_ark_curve_constants_rs__top__ZETA && (qv c_ark_curve_constants_rs__top__ZETA =? zeta_v) && is_qnr q zeta_v);
    ("constants.N", int_is c_ark_curve_constants_rs__top__N (two_adicity q));
    ("constants.M", cval_eqb c_ark_curve_constants_rs__top__M (CDec (trace q)));
    ("constants.M_MINUS_ONE_DIV_TWO", cval_eqb c_ark_curve_constants_rs__top__M_MINUS_ONE_DIV_TWO (CDec ((trace q - 1) / 2)));
    ("constants.ZETA_TO_ONE_MINUS_M_DIV_TWO",
       match c_ark_curve_constants_rs__top__ZETA_TO_ONE_MINUS_M_DIV_TWO with
       | CNode "from_ark_fq" [CDec v] => (0 <=? v) && (v <? q) && ((v * powm zeta_v ((trace q - 1) / 2) q) mod q =? 1)
       | _ => false end);
    ("constants.G", cval_eqb c_ark_curve_constants_rs__top__G (CExpr "Lazy :: new ( || ZETA . pow ( * M ) )"));
    ("constants.SQRT_W", int_is c_ark_curve_constants_rs__top__SQRT_W 8);
    ("constants.B_X/B_Y on curve", qm BX && qm BY && on_curve (qv BX) (qv BY));
    ("constants.B_T", qm BT && (qv BT =? (qv BX * qv BY) mod q));
    ("constants.B_Z", is_ref c_ark_curve_constants_rs__top__B_Z "Fq::ONE");
    ("constants.GENERATOR_X", cval_eqb c_ark_curve_constants_rs__top__GENERATOR_X BX);
    ("constants.GENERATOR_Y", cval_eqb c_ark_curve_constants_rs__top__GENERATOR_Y BY);
    ("constants.R", cval_eqb c_ark_curve_constants_rs__top__R (CNode "from_ark_fr" [CDec r]));
    ("invsqrt.SQRT_LOOKUP_TABLES", cval_eqb c_ark_curve_invsqrt_rs__top__SQRT_LOOKUP_TABLES (CNode "SquareRootTables::new" []));
    ("ark.Element.GENERATOR", cval_eqb c_ark_curve_element_projective_rs__Element__GENERATOR
        (CNode "struct Self" [CNode "inner" [CNode "EdwardsProjective::new_unchecked" [CRef "B_X"; CRef "B_Y"; CRef "B_T"; CRef "B_Z"]]]));
    ("ark.Element.IDENTITY", cval_eqb c_ark_curve_element_projective_rs__Element__IDENTITY
        (CNode "struct Self" [CNode "inner" [CNode "EdwardsProjective::new_unchecked" [CRef "Fq::ZERO"; CRef "Fq::ONE"; CRef "Fq::ZERO"; CRef "Fq::ONE"]]]));
    ("min.ZETA", cval_eqb c_min_curve_constants_rs__top__ZETA c_ark_curve_constants_rs__top__ZETA);
    ("min.ZETA_TO_TRACE", qm c_min_curve_constants_rs__top__ZETA_TO_TRACE && (qv c_min_curve_constants_rs__top__ZETA_TO_TRACE =? powm zeta_v (trace q) q));
    ("min.COEFF_A", cval_eqb c_min_curve_constants_rs__top__COEFF_A A);
    ("min.COEFF_D", cval_eqb c_min_curve_constants_rs__top__COEFF_D D);
    ("min.COEFF_K", qm c_min_curve_constants_rs__top__COEFF_K && (qv c_min_curve_constants_rs__top__COEFF_K =? (2 * d_v) mod q));
    ("min.AffinePoint.IDENTITY", cval_eqb c_min_curve_element_rs__AffinePoint__IDENTITY
        (CNode "struct Self" [CNode "x" [CRef "Fq::ZERO"]; CNode "y" [CRef "Fq::ONE"]]));
    ("min.Element.IDENTITY", cval_eqb c_min_curve_element_rs__Element__IDENTITY
        (CNode "struct Self" [CNode "x" [CRef "Fq::ZERO"]; CNode "y" [CRef "Fq::ONE"]; CNode "z" [CRef "Fq::ONE"]; CNode "t" [CRef "Fq::ZERO"]]));
    ("min.Element.GENERATOR",
        cval_eqb (struct_field MG "x") (CMont "Fq" (get_mont BX)) && cval_eqb (struct_field MG "y") (CMont "Fq" (get_mont BY))
        && cval_eqb (struct_field MG "t") (CMont "Fq" (get_mont BT)) && is_ref (struct_field MG "z") "Fq::ONE");
    ("min.Element.A", is_ref c_min_curve_element_rs__Element__A "COEFF_A");
    ("min.Element.D", is_ref c_min_curve_element_rs__Element__D "COEFF_D");
    ("fq.SENTINEL(u64)", cval_eqb c_fields_fq_u64_wrapper_rs__Fq__SENTINEL (CNode "Self::from_montgomery_limbs" [CNode "repeat" [CRef "u64::MAX"; CRef "N_64"]]) && (q <=? 2 ^ 256 - 1));
    ("fq.SENTINEL(u32)", cval_eqb c_fields_fq_u32_wrapper_rs__Fq__SENTINEL (CNode "Self::from_montgomery_limbs" [CNode "repeat" [CRef "u64::MAX"; CRef "N_64"]]))
  ].

Definition curve_covered : list string :=
  [ "c_ark_curve_edwards_rs__CurveConfig_for_Decaf377EdwardsConfig__COFACTOR";
    "c_ark_curve_edwards_rs__CurveConfig_for_Decaf377EdwardsConfig__COFACTOR_INV";
    "c_ark_curve_edwards_rs__TECurveConfig_for_Decaf377EdwardsConfig__COEFF_A";
    "c_ark_curve_edwards_rs__TECurveConfig_for_Decaf377EdwardsConfig__COEFF_D";
    "c_ark_curve_edwards_rs__TECurveConfig_for_Decaf377EdwardsConfig__GENERATOR";
    "c_ark_curve_edwards_rs__MontCurveConfig_for_Decaf377EdwardsConfig__COEFF_A";
    "c_ark_curve_edwards_rs__MontCurveConfig_for_Decaf377EdwardsConfig__COEFF_B";
    "c_ark_curve_constants_rs__top__ONE"; "c_ark_curve_constants_rs__top__TWO"; "c_ark_curve_constants_rs__top__ZETA";
    "c_ark_curve_constants_rs__top__N"; "c_ark_curve_constants_rs__top__M"; "c_ark_curve_constants_rs__top__M_MINUS_ONE_DIV_TWO";
    "c_ark_curve_constants_rs__top__ZETA_TO_ONE_MINUS_M_DIV_TWO"; "c_ark_curve_constants_rs__top__G"; "c_ark_curve_constants_rs__top__SQRT_W";
    "c_ark_curve_constants_rs__top__B_X"; "c_ark_curve_constants_rs__top__B_Y"; "c_ark_curve_constants_rs__top__B_T"; "c_ark_curve_constants_rs__top__B_Z";
    "c_ark_curve_constants_rs__top__GENERATOR_X"; "c_ark_curve_constants_rs__top__GENERATOR_Y"; "c_ark_curve_constants_rs__top__R";
    "c_ark_curve_invsqrt_rs__top__SQRT_LOOKUP_TABLES";
    "c_ark_curve_element_projective_rs__Element__GENERATOR"; "c_ark_curve_element_projective_rs__Element__IDENTITY";
    "c_min_curve_constants_rs__top__ZETA"; "c_min_curve_constants_rs__top__ZETA_TO_TRACE"; "c_min_curve_constants_rs__top__COEFF_A";
    "c_min_curve_constants_rs__top__COEFF_D"; "c_min_curve_constants_rs__top__COEFF_K";
    "c_min_curve_element_rs__AffinePoint__IDENTITY"; "c_min_curve_element_rs__Element__IDENTITY"; "c_min_curve_element_rs__Element__GENERATOR";
    "c_min_curve_element_rs__Element__A"; "c_min_curve_element_rs__Element__D";
    "c_fields_fq_u64_wrapper_rs__Fq__SENTINEL"; "c_fields_fq_u32_wrapper_rs__Fq__SENTINEL" ].

