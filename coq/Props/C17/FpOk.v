(* C17: the checks of Props/C17/Fp.v all evaluate to true *)
From D377 Require Import Props.C17.Defs Props.C17.Fp.
Theorem fp_checks_ok : all_true fp_checks = true.
Proof. vm_compute. reflexivity. Qed.
