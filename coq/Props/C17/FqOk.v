(* C17: the checks of Props/C17/Fq.v all evaluate to true *)
From D377 Require Import Props.C17.Defs Props.C17.Fq.
Theorem fq_checks_ok : all_true fq_checks = true.
Proof. vm_compute. reflexivity. Qed.
