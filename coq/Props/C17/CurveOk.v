(* C17: the checks of Props/C17/Curve.v all evaluate to true *)
From D377 Require Import Props.C17.Defs Props.C17.Curve.
Theorem curve_checks_ok : all_true curve_checks = true.
Proof. vm_compute. reflexivity. Qed.
