(* Property C15 (partial): circuit shape is input-independent and matches the pinned Groth16 keys.
   What Coq covers:
   (1) a kernel-checked statement over the facts that translator/gadget_shape.py extracts from the current gadget
       sources: no variable derived from a witness value (the result of value() or of the value closure f) reaches
       an if / match / while condition or an index; such values flow only into the closures that supply witness
       assignments.  The only value-related branching is on the AVAILABILITY of the value (match on the Ok / Err of f).
       This is the discipline that makes ark-r1cs-std circuits input-independent; it is a static fact about the
       source, re-extracted on every run.
   (2) the lazily evaluated variable emits each conversion at most once, in every forcing order (C13_lazy theorems).
   What is NOT modelled (checked by enumeration on the implementation, see vlib/props/C15.py): the constraint
   matrices themselves (digest of to_matrices per gadget over structured inputs), the public-input variable, and
   Groth16 prove/verify with the pinned keys (outside any model: pairings, QAP reduction). *)
Require Import List String Bool.
From D377 Require Import Generated.GadgetShape.
Import ListNotations. Open Scope string_scope.

Definition allowed_site (s : string) : bool := String.eqb s "match f()".
Definition offending : list (string * string * list string) :=
  flat_map (fun r => match r with (f, n, _, sites) =>
                       match filter (fun s => negb (allowed_site s)) sites with [] => [] | bad => [(f, n, bad)] end end) gadget_functions.

Theorem C15_no_value_dependent_control_flow : offending = [].
Proof. vm_compute. reflexivity. Qed.
(* non-vacuity: the extractor does see the gadget functions and the value-derived variables of isqrt *)
Theorem C15_extractor_sees_hints :
  existsb (fun r => match r with (_, n, tainted, _) => String.eqb n "isqrt" && existsb (String.eqb "was_square") tainted && existsb (String.eqb "y") tainted end) gadget_functions = true
  /\ Nat.leb 40 (List.length gadget_functions) = true.
Proof. split; vm_compute; reflexivity. Qed.
