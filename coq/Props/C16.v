(* Property C16 (partial) — the BLS12-377 engine configured over the crate's own fields equals the reference engine.
   What is PROVED here: every configuration constant of src/ark_curve/bls12_377.rs (extension-field non-residues,
   Frobenius coefficient tables, curve coefficients, generators, cofactors and their inverses, the curve parameter X,
   its sign, the twist type) denotes the same field element / integer as the corresponding constant of the reference
   crate ark-bls12-377 0.4.0 (both extracted from source on every run), and the generators satisfy their curve
   equations.  What is ARGUED outside Coq (trusted): ark_ec::bls12::Bls12<Config> is generic code that is a function of
   these constants and of the field implementations (C10/C11), so equal constants give equal outputs; bilinearity and
   non-degeneracy of the reference pairing are not re-proved.  The harness additionally compares generators,
   (de)serialisation, scalar multiples and pairing outputs of the two engines byte for byte. *)
Require Import ZArith List String Bool.
From D377 Require Import Base.Certs Model.CVal Generated.Consts Props.C17.Defs.
Import ListNotations. Open Scope string_scope. Open Scope Z_scope. Open Scope bool_scope.

Definition p_Rinv : Z := Eval vm_compute in powm (2 ^ 384 mod p) (p - 2) p.
Definition q_Rinv : Z := Eval vm_compute in powm (2 ^ 256 mod q) (q - 2) q.

Definition lookup (name : string) : cval :=
  match find (fun nc => String.eqb (fst nc) name) all_consts with Some nc => snd nc | None => CExpr "missing" end.

(* normal form: integers reduced into their field, structure tags unified between the two crates, references resolved *)
Definition tag_norm (t : string) : string :=
  if (String.eqb t "Fp2::new" || String.eqb t "Fq2::new") then "F2"
  else if (String.eqb t "Fp6::new" || String.eqb t "Fq6::new") then "F6"
  else if (String.eqb t "Affine::new_unchecked" || String.eqb t "G1SWAffine::new_unchecked" || String.eqb t "G2Affine::new_unchecked") then "Affine"
  else t.

Fixpoint norm (fuel : nat) (ours : bool) (c : cval) : cval :=
  match fuel with
  | O => CExpr "fuel"
  | S f =>
    let fix norm_list (l : list cval) : list cval := match l with [] => [] | x :: r => norm f ours x :: norm_list r end in
    match c with
    | CMont ty l =>
        if Nat.eqb (List.length l) 6 then (if mont_limbs_ok p 6 c then CInt (mont_val p p_Rinv c) else CExpr "bad limbs")
        else (if mont_limbs_ok q 4 c then CInt (mont_val q q_Rinv c) else CExpr "bad limbs")
    | CDec z => CInt (if z <? 0 then z mod p else z)
    | CInt z => CInt z
    | CInts l => CInts l
    | CBool b => CBool b
    | CList l => CList (norm_list l)
    | CNode t l => CNode (tag_norm t) (norm_list l)
    | CRef r =>
        if (String.eqb r "Fp::ONE" || String.eqb r "Fq::ONE") then CInt 1
        else if (String.eqb r "Fp::ZERO" || String.eqb r "Fq::ZERO") then CInt 0
        else if String.eqb r "Fp::MINUS_ONE" then CInt (p - 1)
        else if String.eqb r "Fp::QUADRATIC_NON_RESIDUE" then norm f ours c_fields_fp_u64_wrapper_rs__Fp__QUADRATIC_NON_RESIDUE
        else if (String.eqb r "Fp2::ZERO" || String.eqb r "Fq2::ZERO") then CNode "F2" [CInt 0; CInt 0]
        else if (String.eqb r "Fp2::ONE" || String.eqb r "Fq2::ONE") then CNode "F2" [CInt 1; CInt 0]
        else if (String.eqb r "OurG1Config::COEFF_A" || String.eqb r "g1::Config::COEFF_A") then CInt 0
        else if String.eqb r "TwistType::D" then CRef r
        else if ours then norm f ours (lookup (String.append "c_ark_curve_bls12_377_rs__top__" r))
        else (match lookup (String.append "c_ref_ark_bls12_377_curves_g1_rs__top__" r) with
              | CExpr _ => norm f ours (lookup (String.append "c_ref_ark_bls12_377_curves_g2_rs__top__" r))
              | v => norm f ours v end)
    | other => other
    end
  end.

Definition same (a b : cval) : bool := cval_eqb (norm 8 true a) (norm 8 false b).
Definition no_junk (a : cval) : bool :=
  let fix ok (fuel : nat) (c : cval) : bool :=
    match fuel with O => false | S f =>
      match c with CExpr _ => false | CMont _ _ => false | CDec _ => false
                 | CList l => forallb (ok f) l | CNode _ l => forallb (ok f) l | _ => true end end in
  ok 12%nat (norm 8 true a).

Definition pairs : list (string * cval * cval) :=
  [ ("Fp2.NONRESIDUE", c_ark_curve_bls12_377_rs__Fp2Config_for_F2Config__NONRESIDUE, c_ref_ark_bls12_377_fields_fq2_rs__Fp2Config_for_Fq2Config__NONRESIDUE);
    ("Fp2.FROBENIUS_COEFF_FP2_C1", c_ark_curve_bls12_377_rs__Fp2Config_for_F2Config__FROBENIUS_COEFF_FP2_C1, c_ref_ark_bls12_377_fields_fq2_rs__Fp2Config_for_Fq2Config__FROBENIUS_COEFF_FP2_C1);
    ("Fp6.NONRESIDUE", c_ark_curve_bls12_377_rs__Fp6Config_for_F6Config__NONRESIDUE, c_ref_ark_bls12_377_fields_fq6_rs__Fp6Config_for_Fq6Config__NONRESIDUE);
    ("Fp6.FROBENIUS_COEFF_FP6_C1", c_ark_curve_bls12_377_rs__Fp6Config_for_F6Config__FROBENIUS_COEFF_FP6_C1, c_ref_ark_bls12_377_fields_fq6_rs__Fp6Config_for_Fq6Config__FROBENIUS_COEFF_FP6_C1);
    ("Fp6.FROBENIUS_COEFF_FP6_C2", c_ark_curve_bls12_377_rs__Fp6Config_for_F6Config__FROBENIUS_COEFF_FP6_C2, c_ref_ark_bls12_377_fields_fq6_rs__Fp6Config_for_Fq6Config__FROBENIUS_COEFF_FP6_C2);
    ("Fp12.NONRESIDUE", c_ark_curve_bls12_377_rs__Fp12Config_for_F12Config__NONRESIDUE, c_ref_ark_bls12_377_fields_fq12_rs__Fp12Config_for_Fq12Config__NONRESIDUE);
    ("Fp12.FROBENIUS_COEFF_FP12_C1", c_ark_curve_bls12_377_rs__Fp12Config_for_F12Config__FROBENIUS_COEFF_FP12_C1, c_ref_ark_bls12_377_fields_fq12_rs__Fp12Config_for_Fq12Config__FROBENIUS_COEFF_FP12_C1);
    ("G1.COFACTOR", c_ark_curve_bls12_377_rs__CurveConfig_for_OurG1Config__COFACTOR, c_ref_ark_bls12_377_curves_g1_rs__CurveConfig_for_Config__COFACTOR);
    ("G1.COFACTOR_INV", c_ark_curve_bls12_377_rs__CurveConfig_for_OurG1Config__COFACTOR_INV, c_ref_ark_bls12_377_curves_g1_rs__CurveConfig_for_Config__COFACTOR_INV);
    ("G1_GENERATOR_X", c_ark_curve_bls12_377_rs__top__G1_GENERATOR_X, c_ref_ark_bls12_377_curves_g1_rs__top__G1_GENERATOR_X);
    ("G1_GENERATOR_Y", c_ark_curve_bls12_377_rs__top__G1_GENERATOR_Y, c_ref_ark_bls12_377_curves_g1_rs__top__G1_GENERATOR_Y);
    ("G1.COEFF_A", c_ark_curve_bls12_377_rs__SWCurveConfig_for_OurG1Config__COEFF_A, c_ref_ark_bls12_377_curves_g1_rs__SWCurveConfig_for_Config__COEFF_A);
    ("G1.COEFF_B", c_ark_curve_bls12_377_rs__SWCurveConfig_for_OurG1Config__COEFF_B, c_ref_ark_bls12_377_curves_g1_rs__SWCurveConfig_for_Config__COEFF_B);
    ("G1.GENERATOR", c_ark_curve_bls12_377_rs__SWCurveConfig_for_OurG1Config__GENERATOR, c_ref_ark_bls12_377_curves_g1_rs__SWCurveConfig_for_Config__GENERATOR);
    ("G2.COFACTOR", c_ark_curve_bls12_377_rs__CurveConfig_for_OurG2Config__COFACTOR, c_ref_ark_bls12_377_curves_g2_rs__CurveConfig_for_Config__COFACTOR);
    ("G2.COFACTOR_INV", c_ark_curve_bls12_377_rs__CurveConfig_for_OurG2Config__COFACTOR_INV, c_ref_ark_bls12_377_curves_g2_rs__CurveConfig_for_Config__COFACTOR_INV);
    ("G2_GENERATOR_X", c_ark_curve_bls12_377_rs__top__G2_GENERATOR_X, c_ref_ark_bls12_377_curves_g2_rs__top__G2_GENERATOR_X);
    ("G2_GENERATOR_Y", c_ark_curve_bls12_377_rs__top__G2_GENERATOR_Y, c_ref_ark_bls12_377_curves_g2_rs__top__G2_GENERATOR_Y);
    ("G2.COEFF_A", c_ark_curve_bls12_377_rs__SWCurveConfig_for_OurG2Config__COEFF_A, c_ref_ark_bls12_377_curves_g2_rs__SWCurveConfig_for_Config__COEFF_A);
    ("G2.COEFF_B", c_ark_curve_bls12_377_rs__SWCurveConfig_for_OurG2Config__COEFF_B, c_ref_ark_bls12_377_curves_g2_rs__SWCurveConfig_for_Config__COEFF_B);
    ("G2.GENERATOR", c_ark_curve_bls12_377_rs__SWCurveConfig_for_OurG2Config__GENERATOR, c_ref_ark_bls12_377_curves_g2_rs__SWCurveConfig_for_Config__GENERATOR);
    ("X", c_ark_curve_bls12_377_rs__Bls12Config_for_Config__X, c_ref_ark_bls12_377_curves_mod_rs__Bls12Config_for_Config__X);
    ("X_IS_NEGATIVE", c_ark_curve_bls12_377_rs__Bls12Config_for_Config__X_IS_NEGATIVE, c_ref_ark_bls12_377_curves_mod_rs__Bls12Config_for_Config__X_IS_NEGATIVE);
    ("TWIST_TYPE", c_ark_curve_bls12_377_rs__Bls12Config_for_Config__TWIST_TYPE, c_ref_ark_bls12_377_curves_mod_rs__Bls12Config_for_Config__TWIST_TYPE) ].

Definition eq_checks : list (string * bool) := map (fun t => (fst (fst t), same (snd (fst t)) (snd t) && no_junk (snd (fst t)))) pairs.

(* defining equations, independent of the reference crate *)
Definition gi (c : cval) : Z := match norm 8 true c with CInt z => z | _ => -1 end.
Definition f2 (c : cval) : Z * Z := match norm 8 true c with CNode _ [CInt a; CInt b] => (a, b) | _ => (-1, -1) end.
(* Fp2 = Fp[u]/(u^2 - nr) *)
Definition nr2 : Z := gi c_ark_curve_bls12_377_rs__Fp2Config_for_F2Config__NONRESIDUE.
Definition f2_mul (x y : Z * Z) : Z * Z := ((fst x * fst y + nr2 * (snd x * snd y)) mod p, (fst x * snd y + snd x * fst y) mod p).
Definition f2_add (x y : Z * Z) : Z * Z := ((fst x + fst y) mod p, (snd x + snd y) mod p).
Definition f2_eqb (x y : Z * Z) : bool := (fst x =? fst y) && (snd x =? snd y).
Definition def_checks : list (string * bool) :=
  let g1x := gi c_ark_curve_bls12_377_rs__top__G1_GENERATOR_X in let g1y := gi c_ark_curve_bls12_377_rs__top__G1_GENERATOR_Y in
  let g2x := f2 c_ark_curve_bls12_377_rs__top__G2_GENERATOR_X in let g2y := f2 c_ark_curve_bls12_377_rs__top__G2_GENERATOR_Y in
  let b2 := f2 c_ark_curve_bls12_377_rs__SWCurveConfig_for_OurG2Config__COEFF_B in
  let h1 := limbs64 (get_ints c_ark_curve_bls12_377_rs__CurveConfig_for_OurG1Config__COFACTOR) in
  let h2 := limbs64 (get_ints c_ark_curve_bls12_377_rs__CurveConfig_for_OurG2Config__COFACTOR) in
  let x := limbs64 (get_ints c_ark_curve_bls12_377_rs__Bls12Config_for_Config__X) in
  [ ("p_Rinv", rinv_ok p 6 p_Rinv); ("q_Rinv", rinv_ok q 4 q_Rinv);
    ("G1 generator on y^2 = x^3 + 1", ((g1y * g1y - (g1x * g1x * g1x + 1)) mod p =? 0));
    ("G2 generator on y^2 = x^3 + B'", f2_eqb (f2_mul g2y g2y) (f2_add (f2_mul g2x (f2_mul g2x g2x)) b2));
    ("Fp2 non-residue is -5 and a non-square", (nr2 =? p - 5) && is_qnr p nr2);
    ("G1 cofactor * inverse = 1 mod q", ((h1 * gi c_ark_curve_bls12_377_rs__CurveConfig_for_OurG1Config__COFACTOR_INV) mod q =? 1));
    ("G2 cofactor * inverse = 1 mod q", ((h2 * gi c_ark_curve_bls12_377_rs__CurveConfig_for_OurG2Config__COFACTOR_INV) mod q =? 1));
    ("G1 cofactor = (x-1)^2/3", (3 * h1 =? (x - 1) * (x - 1)));
    ("q = x^4 - x^2 + 1", (q =? x * x * x * x - x * x + 1));
    ("p = (x-1)^2 (x^4 - x^2 + 1)/3 + x", (3 * (p - x) =? (x - 1) * (x - 1) * q)) ].

Definition c16_covered : list string :=
  [ "c_ark_curve_bls12_377_rs__Fp2Config_for_F2Config__NONRESIDUE"; "c_ark_curve_bls12_377_rs__Fp2Config_for_F2Config__FROBENIUS_COEFF_FP2_C1";
    "c_ark_curve_bls12_377_rs__Fp6Config_for_F6Config__NONRESIDUE"; "c_ark_curve_bls12_377_rs__Fp6Config_for_F6Config__FROBENIUS_COEFF_FP6_C1";
    "c_ark_curve_bls12_377_rs__Fp6Config_for_F6Config__FROBENIUS_COEFF_FP6_C2"; "c_ark_curve_bls12_377_rs__Fp12Config_for_F12Config__NONRESIDUE";
    "c_ark_curve_bls12_377_rs__Fp12Config_for_F12Config__FROBENIUS_COEFF_FP12_C1"; "c_ark_curve_bls12_377_rs__CurveConfig_for_OurG1Config__COFACTOR";
    "c_ark_curve_bls12_377_rs__CurveConfig_for_OurG1Config__COFACTOR_INV"; "c_ark_curve_bls12_377_rs__top__G1_GENERATOR_X"; "c_ark_curve_bls12_377_rs__top__G1_GENERATOR_Y";
    "c_ark_curve_bls12_377_rs__SWCurveConfig_for_OurG1Config__COEFF_A"; "c_ark_curve_bls12_377_rs__SWCurveConfig_for_OurG1Config__COEFF_B";
    "c_ark_curve_bls12_377_rs__SWCurveConfig_for_OurG1Config__GENERATOR"; "c_ark_curve_bls12_377_rs__CurveConfig_for_OurG2Config__COFACTOR";
    "c_ark_curve_bls12_377_rs__CurveConfig_for_OurG2Config__COFACTOR_INV"; "c_ark_curve_bls12_377_rs__top__G2_GENERATOR_X"; "c_ark_curve_bls12_377_rs__top__G2_GENERATOR_Y";
    "c_ark_curve_bls12_377_rs__SWCurveConfig_for_OurG2Config__COEFF_A"; "c_ark_curve_bls12_377_rs__SWCurveConfig_for_OurG2Config__COEFF_B";
    "c_ark_curve_bls12_377_rs__SWCurveConfig_for_OurG2Config__GENERATOR"; "c_ark_curve_bls12_377_rs__Bls12Config_for_Config__X";
    "c_ark_curve_bls12_377_rs__Bls12Config_for_Config__X_IS_NEGATIVE"; "c_ark_curve_bls12_377_rs__Bls12Config_for_Config__TWIST_TYPE" ].
Definition c16_uncovered : list string :=
  names_covered (filter (fun nc => String.prefix "c_ark_curve_bls12_377_rs__" (fst nc)) all_consts) c16_covered.

Theorem C16_constants_equal_reference : forall name b, In (name, b) eq_checks -> b = true.
Proof. apply all_true_spec. vm_compute. reflexivity. Qed.
Theorem C16_defining_equations : forall name b, In (name, b) def_checks -> b = true.
Proof. apply all_true_spec. vm_compute. reflexivity. Qed.
Theorem C16_every_engine_constant_covered : c16_uncovered = [].
Proof. vm_compute. reflexivity. Qed.
