(* Property C04 — every form of addition, subtraction and negation computes the group law (both builds).
   Reference law: the affine twisted Edwards addition of Spec/Edwards.v (ristretto.sage __add__/__neg__).
   [wfP p]: extended coordinates with Z <> 0, X*Y = Z*T, on the curve.  [aff p] = (X/Z, Y/Z). *)
Require Import ZArith List Bool.
From D377 Require Import Base.Certs Base.ZpField Base.FieldSec Base.Fields Model.Decaf Model.Concrete Model.OpTable.
From D377 Require Import Spec.Edwards Proofs.Instance Proofs.Final Proofs.Reach Proofs.Projective Proofs.EdwardsLaw Tie.Dep.
From D377 Require Generated.Dep.
Local Existing Instance FqF.

Definition E_add := ed_add fq_a ark_D.
Definition E_neg := @ed_neg FqF.
Definition E_zero := @ed_zero FqF.
Definition onC := on_curve fq_a ark_D.
Lemma a_is_square : exists sa : Fq, mul sa sa = fq_a. Proof. exact m1_sq. Qed.

(* --- formulas of the arkworks build (ark-ec Projective/Affine, a = -1) --- *)
Theorem C04_ark_add : forall p q, wfP p -> wfP q -> wfP (ark_add ark_D p q) /\ aff (ark_add ark_D p q) = E_add (aff p) (aff q).
Proof. exact (@ark_add_correct FqF ark_D d_ns m1_sq add11_nz). Qed.
Theorem C04_ark_mixed_add : forall p q, wfP p -> onC q -> wfP (ark_madd ark_D p q) /\ aff (ark_madd ark_D p q) = E_add (aff p) q.
Proof. exact (@ark_madd_correct FqF ark_D d_ns m1_sq add11_nz). Qed.
Theorem C04_ark_double : forall p, wfP p -> wfP (ark_double p) /\ aff (ark_double p) = E_add (aff p) (aff p).
Proof. exact (@ark_double_correct FqF ark_D d_ns m1_sq add11_nz). Qed.
Theorem C04_neg : forall p, wfP p -> wfP (pneg p) /\ aff (pneg p) = E_neg (aff p).
Proof. exact (@pneg_correct FqF ark_D). Qed.
Theorem C04_ark_sub : forall p q, wfP p -> wfP q -> wfP (ark_sub ark_D p q) /\ aff (ark_sub ark_D p q) = E_add (aff p) (E_neg (aff q)).
Proof. exact (@ark_sub_correct FqF ark_D d_ns m1_sq add11_nz). Qed.
Theorem C04_of_affine : forall q, onC q -> wfP (of_affine q) /\ aff (of_affine q) = q.
Proof. exact (@of_affine_correct FqF ark_D). Qed.
Theorem C04_to_affine : forall p, wfP p -> to_affine p = aff p /\ onC (to_affine p).
Proof. exact (@to_affine_correct FqF ark_D). Qed.
(* --- the formulas above ARE the code of the dependency: ark-ec's Projective/Affine arithmetic as translated from the sources of
   the version pinned by Cargo.lock (Generated/Dep.v, regenerated on every run), with the crate's own `mul_by_a` and COEFF_D --- *)
Definition dep_mul_by_a := @Generated.Dep.cfg_mul_by_a FqF.
Theorem C04_dependency_add : forall p q, Generated.Dep.dep_add ark_D mkpt dep_mul_by_a p q = ark_add ark_D p q.
Proof. exact (@tie_dep_add FqF ark_D). Qed.
Theorem C04_dependency_mixed_add : forall p q, Generated.Dep.dep_madd ark_D mkpt dep_mul_by_a p q = ark_madd ark_D p q.
Proof. exact (@tie_dep_madd FqF ark_D). Qed.
Theorem C04_dependency_double : forall p, Generated.Dep.dep_double mkpt dep_mul_by_a p = ark_double p.
Proof. exact (@tie_dep_double FqF). Qed.
Theorem C04_dependency_neg : forall p, Generated.Dep.dep_neg mkpt p = pneg p.
Proof. exact (@tie_dep_neg FqF). Qed.
Theorem C04_dependency_conversions : forall p q,
  Generated.Dep.dep_from_affine mkpt q = of_affine q /\ Generated.Dep.dep_to_affine p = to_affine p /\ Generated.Dep.dep_is_zero p = ark_is_zero p.
Proof. intros p q. repeat split. Qed.
(* --- formulas of the minimal build, on the definitions regenerated from the source --- *)
Theorem C04_min_add : forall p q, wfP p -> wfP q -> wfP (gen_min_add p q) /\ aff (gen_min_add p q) = E_add (aff p) (aff q).
Proof. intros p q. rewrite gen_min_add_eq. exact (@min_add_correct FqF ark_D d_ns m1_sq add11_nz min_K p q min_K_is_2D). Qed.
Theorem C04_min_double : forall p, wfP p -> wfP (gen_min_double p) /\ aff (gen_min_double p) = E_add (aff p) (aff p).
Proof. intro p. rewrite gen_min_double_eq. exact (@min_double_correct FqF ark_D d_ns m1_sq add11_nz p). Qed.
Theorem C04_identity : wfP identity /\ aff identity = E_zero.
Proof. exact (@identity_correct FqF ark_D). Qed.

(* --- the reference law is an abelian group law on curve points: neutral, inverse, commutative, ASSOCIATIVE --- *)
Theorem C04_law_closed : forall p q, onC p -> onC q -> onC (E_add p q).
Proof. exact (@ed_add_on_curve FqF fq_a ark_D a_is_square d_ns add11_nz). Qed.
Theorem C04_law_neutral : forall p, E_add E_zero p = p.
Proof. exact (@ed_add_zero_l FqF fq_a ark_D). Qed.
Theorem C04_law_inverse : forall p, onC p -> E_add p (E_neg p) = E_zero.
Proof. exact (@ed_add_neg_r FqF fq_a ark_D a_is_square d_ns add11_nz). Qed.
Theorem C04_law_comm : forall p q, E_add p q = E_add q p.
Proof. exact (@ed_add_comm FqF fq_a ark_D). Qed.
Theorem C04_law_assoc : forall p q r, onC p -> onC q -> onC r -> E_add (E_add p q) r = E_add p (E_add q r).
Proof. exact (@ed_add_assoc FqF fq_a ark_D a_is_square d_ns add11_nz). Qed.
(* results do not depend on the coset representative of the operands *)
Theorem C04_law_coset : forall p p' q q', coset_eq p p' -> coset_eq q q' -> coset_eq (E_add p q) (E_add p' q').
Proof. exact (@coset_eq_add FqF fq_a ark_D). Qed.
Theorem C04_wf_on_curve : forall p, wfP p -> onC (aff p).
Proof. exact (@wf_on_curve FqF ark_D). Qed.
(* P - P is the identity element (as a coset), P + identity = P *)
Theorem C04_sub_self : forall p, wfP p -> aff (ark_sub ark_D p p) = E_zero.
Proof.
  intros p W. destruct (C04_ark_sub p p W W) as [_ E]. rewrite E. apply C04_law_inverse. exact (C04_wf_on_curve p W).
Qed.
