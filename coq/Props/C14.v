(* Property C14 — R1CS gadgets are sound against adversarial prover hints.
   For EVERY value of the hints (was_square, y) and of the witnessed coordinates/encoding, a satisfied gadget
   returns the native result — EXCEPT for the one recorded finding: the inverse-square-root gadget accepts
   (true, y) with y^2 = 1 when its argument is 0, so the in-circuit decoder accepts s = -1 (= q - 1) and returns the
   non-point (0,0).  Theorems *_sound exclude exactly that class; theorems *_refuted exhibit it. *)
Require Import ZArith List Bool.
From D377 Require Import Base.Certs Base.ZpField Base.FieldSec Base.Fields Model.Decaf Model.Gadgets Model.Concrete.
From D377 Require Import Spec.Edwards Spec.DecafSpec Proofs.Instance Proofs.Final Proofs.GadgetProofs Props.C13.
From D377 Require Import Generated.GadgetsGen Tie.Gadgets Tie.GadgetsSign.
Local Existing Instance FqF.

Lemma fq_neg_m1 : fq_neg (opp one) = false. Proof. reflexivity. Qed.
Definition g_isqrt := @isqrt_sat FqF ark_ZETA.
Definition g_decode := @decode_g FqF ark_D ark_ZETA fq_neg.
Definition g_encode := @encode_g FqF fq_a ark_D ark_ZETA fq_neg.
Definition g_elligator := @elligator_g FqF fq_a ark_D ark_ZETA fq_neg.
Definition g_new_witness := @new_witness_g FqF fq_a ark_D ark_ZETA fq_neg.

(* ---- the gadget bodies as translated from the current sources (Generated/GadgetsGen.v) ARE the model below:
   every theorem of C13 and C14 about g_isqrt / g_decode / g_encode / g_elligator is a theorem about the generated code.
   The constants are the ones extracted from the source (ark_A = COEFF_A, ark_D = COEFF_D, ark_ZETA = ZETA). ---- *)
Definition gen_isqrt := @isqrt_gen FqF ark_ZETA.
Definition gen_isqrt_const := @isqrt_gen_const FqF ark_sr.
Definition gen_decode := @decode_gen FqF ark_D ark_ZETA fq_neg.
Definition gen_encode := @encode_gen FqF ark_A ark_D ark_ZETA fq_neg.
Definition gen_elligator := @elligator_gen FqF ark_A ark_D ark_ZETA fq_neg.
(* the sign gadgets, generated from fqvar_ext.rs: is_nonnegative reads bit 0 of the range-checked bit decomposition of its input *)
Definition fq_bits_le (x : Fq) : list bool := map (fun i => Z.testbit (val x) (Z.of_nat i)) (seq 0 253).
Lemma fq_bits_le_0 : forall x, List.nth 0 (fq_bits_le x) false = fq_neg x.
Proof. intro x. unfold fq_bits_le, fq_neg. cbn [seq map List.nth]. apply Z.bit0_odd. Qed.
Theorem C14_generated_sign : forall x,
  @is_nonnegative_gen FqF fq_bits_le x = (true, negb (fq_neg x)) /\
  @is_negative_gen FqF fq_neg x = (true, fq_neg x) /\
  @abs_gen FqF fq_neg x = (true, @gabs FqF fq_neg x).
Proof.
  intro x. split; [exact (@is_nonnegative_gen_is FqF fq_neg fq_bits_le fq_bits_le_0 x)|].
  split; [exact (@is_negative_gen_is FqF fq_neg x) | exact (@abs_gen_is FqF fq_neg x)].
Qed.
Theorem C14_generated_isqrt : forall x ws y, gen_isqrt x ws y = (g_isqrt x ws y, (ws, y)).
Proof.
  intros x ws y. unfold gen_isqrt, g_isqrt.
  pose proof (@isqrt_gen_sat FqF ark_ZETA x ws y) as H1. pose proof (@isqrt_gen_out FqF ark_ZETA x ws y) as H2.
  destruct (@isqrt_gen FqF ark_ZETA x ws y) as [b o]. cbn [fst snd] in H1, H2. rewrite H1, H2. reflexivity.
Qed.
Theorem C14_generated_isqrt_const : forall x, gen_isqrt_const x = (true, ark_sr one x).
Proof. exact (@isqrt_gen_const_is FqF ark_sr). Qed.
Theorem C14_generated_decode : forall s ws y, gen_decode s ws y = let '(sat, gx, gy) := g_decode s ws y in (sat, (gx, gy)).
Proof. exact (@decode_gen_is FqF ark_D ark_ZETA fq_neg). Qed.
Theorem C14_generated_encode : forall x y ws v, gen_encode x y ws v = g_encode x y ws v.
Proof. unfold gen_encode, g_encode. rewrite ark_A_is_m1. exact (@encode_gen_is FqF fq_a ark_D ark_ZETA fq_neg). Qed.
Theorem C14_generated_elligator : forall r0 ws y, gen_elligator r0 ws y = let '(sat, gx, gy) := g_elligator r0 ws y in (sat, (gx, gy)).
Proof. unfold gen_elligator, g_elligator. rewrite ark_A_is_m1. exact (@elligator_gen_is FqF fq_a ark_D ark_ZETA fq_neg). Qed.

(* inverse square root: sound for every non-zero argument, whatever the hint *)
Theorem C14_isqrt_sound : forall x ws y, g_isqrt x ws y = true -> x <> zero ->
  (ws = true /\ mul (mul y y) x = one) \/ (ws = false /\ mul (mul y y) x = ark_ZETA).
Proof. exact (@isqrt_sound FqF ark_ZETA). Qed.
Theorem C14_isqrt_at_zero : forall ws y, g_isqrt zero ws y = true <-> (ws = true /\ mul y y = one) \/ (ws = false /\ y = zero).
Proof. exact (@isqrt_zero_iff FqF ark_ZETA). Qed.
(* KNOWN FINDING (witness): at argument 0 the hint (true, 1) satisfies the constraints; the contract demands (false, 0) *)
Theorem C14_isqrt_refuted : g_isqrt zero true one = true.
Proof. exact (@isqrt_unsound_at_zero FqF ark_ZETA). Qed.

(* decode: for every hint, a satisfied decoder returns the natively decoded element (same x; same y except that at
   s = 0 it may return the other representative (0,-1) of the identity) — provided s <> -1 *)
Theorem C14_decode_sound : forall s ws v x y, s <> opp one -> g_decode s ws v = (true, x, y) ->
  exists P, n_decode s = Some P /\ x = pX P /\ (y = pY P \/ (s = zero /\ y = opp (pY P))).
Proof.
  exact (@decode_g_sound FqF ark_D ark_ZETA fq_neg ark_sr ark_sr_contract zeta_ns fq_neg0 fq_neg_opp fq_neg_m1 fq_two_nz d_ns).
Qed.
(* KNOWN FINDING (witness): s = -1 is decoded in circuit, to the non-point (0,0), while native decoding rejects it *)
Theorem C14_decode_refuted :
  fst (fst (g_decode (opp one) true one)) = true /\ snd (fst (g_decode (opp one) true one)) = zero /\
  snd (g_decode (opp one) true one) = zero /\ n_decode (opp one) = None.
Proof. exact (@decode_g_minus_one FqF ark_D ark_ZETA fq_neg ark_sr ark_sr_contract fq_neg_m1). Qed.

(* encode and Elligator: sound for every hint, unconditionally *)
Theorem C14_encode_sound : forall x y ws v s, on_curve fq_a ark_D (mkapt x y) -> g_encode x y ws v = (true, s) ->
  s = n_encode (of_affine (mkapt x y)).
Proof. exact (@encode_g_sound FqF ark_D ark_ZETA fq_neg ark_sr ark_sr_contract zeta_ns fq_neg0 fq_neg_opp amd_ns). Qed.
Theorem C14_elligator_sound : forall r0 iss isri x y, g_elligator r0 iss isri = (true, x, y) -> mkapt x y = aff (n_elligator r0).
Proof.
  exact (@elligator_g_sound FqF ark_D ark_ZETA fq_neg ark_sr ark_sr_contract zeta_ns fq_neg_opp d_ns dma_ns m1_sq a2d_nz ratio1).
Qed.

(* witness allocation: whatever coordinates, encoding and hints the prover offers, the returned variable is the
   decoding of the offered encoding and is decaf-equal to the offered coordinates, which lie on the curve — if s' <> -1 *)
Theorem C14_new_witness_sound : forall px py s' ws v x y, s' <> opp one -> g_new_witness px py s' ws v = (true, x, y) ->
  exists P, n_decode s' = Some P /\ x = pX P /\ (y = pY P \/ (s' = zero /\ y = opp (pY P))) /\
            mul x py = mul px y /\ on_curve fq_a ark_D (mkapt px py).
Proof.
  exact (@new_witness_sound FqF ark_D ark_ZETA fq_neg ark_sr ark_sr_contract zeta_ns fq_neg0 fq_neg_opp fq_neg_m1 fq_two_nz d_ns).
Qed.
(* KNOWN FINDING (same class): with the offered encoding -1 the allocation of ANY curve point is satisfied and returns (0,0) *)
Theorem C14_new_witness_refuted : forall px py, @on_curve_g FqF fq_a ark_D px py = true ->
  g_new_witness px py (opp one) true one = (true, zero, zero).
Proof. exact (@new_witness_minus_one FqF ark_D ark_ZETA fq_neg ark_sr ark_sr_contract fq_neg_m1). Qed.
