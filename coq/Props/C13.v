(* Property C13 — R1CS gadgets compute what the native code computes, and are complete (honest synthesis).
   Gadget semantics: Model/Gadgets.v (satisfiability and output values as functions of inputs and prover hints);
   native functions: the models of Element::{decompress, compress_to_field, elligator_map} (Model/Decaf.v),
   instantiated with the out-of-circuit square root the gadgets call (ark_sr). *)
Require Import ZArith List Bool.
From D377 Require Import Base.Certs Base.ZpField Base.FieldSec Base.Fields Model.Decaf Model.Gadgets Model.Wrapper Model.Concrete.
From D377 Require Import Spec.Edwards Spec.DecafSpec Proofs.Instance Proofs.Final Proofs.GadgetProofs Proofs.WrapperProofs Proofs.WrapperNative Proofs.Codec Proofs.EdwardsLaw Proofs.Ladder Tie.Gadgets.
From D377 Require Generated.GadgetsGen.
Local Existing Instance FqF.

Definition g_decode_honest := @decode_honest FqF ark_D ark_ZETA fq_neg ark_sr.
Definition g_encode_honest := @encode_honest FqF fq_a ark_D ark_ZETA fq_neg ark_sr.
Definition g_elligator_honest := @elligator_honest FqF fq_a ark_D ark_ZETA fq_neg ark_sr.
Definition n_decode := decode ark_D fq_neg ark_sr.
Definition n_encode := encode fq_a ark_D fq_neg ark_sr.
Definition n_elligator := elligator fq_a ark_D ark_ZETA fq_neg ark_sr.

(* honest in-circuit decode is satisfied exactly when native decode succeeds, with the same coordinates *)
Theorem C13_decode : forall s,
  let '(sat, x, y) := g_decode_honest s in
  (sat = true <-> exists P, n_decode s = Some P) /\ (forall P, n_decode s = Some P -> x = pX P /\ y = pY P).
Proof. exact (@decode_honest_iff FqF ark_D ark_ZETA fq_neg ark_sr ark_sr_contract). Qed.
(* honest in-circuit encode is always satisfied and returns the native field encoding *)
Theorem C13_encode : forall x y, g_encode_honest x y = (true, n_encode (of_affine (mkapt x y))).
Proof. exact (@encode_honest_eq FqF ark_D ark_ZETA fq_neg ark_sr ark_sr_contract). Qed.
(* honest in-circuit Elligator is always satisfied and returns the affine form of the native result *)
Theorem C13_elligator : forall r0, g_elligator_honest r0 = (true, aX (aff (n_elligator r0)), aY (aff (n_elligator r0))).
Proof.
  exact (@elligator_honest_eq FqF ark_D ark_ZETA fq_neg ark_sr ark_sr_contract zeta_ns fq_neg0 fq_neg_opp fq_two_nz d_ns dma_ns m1_sq a2d_nz ratio1).
Qed.
(* honest hints always satisfy the inverse-square-root gadget *)
Theorem C13_isqrt_complete : forall x, let '(ws, y) := ark_sr one x in @isqrt_sat FqF ark_ZETA x ws y = true.
Proof. exact (@isqrt_complete FqF ark_ZETA ark_sr ark_sr_contract). Qed.

(* the lazily evaluated variable: forcing order and repetition change neither what has been emitted nor emit anything twice *)
Theorem C13_lazy_append_only : forall st ops ops',
  lazy_run st (ops ++ ops') =
  (fst (lazy_run (fst (lazy_run st ops)) ops'), snd (lazy_run st ops) ++ snd (lazy_run (fst (lazy_run st ops)) ops')).
Proof. exact lazy_run_app. Qed.
Theorem C13_lazy_once : forall st ops,
  (count_occ lazy_event_dec (snd (lazy_run st ops)) EvDecode <= 1)%nat /\ (count_occ lazy_event_dec (snd (lazy_run st ops)) EvEncode <= 1)%nat.
Proof. exact lazy_events_once. Qed.
Theorem C13_lazy_idempotent : forall st o, lazy_step (fst (lazy_step st o)) o = (fst (lazy_step st o), nil).
Proof. exact lazy_force_idem. Qed.

(* ---- histories on one ElementVar (Model/Wrapper.v: cache state WITH values; += -= double_in_place negate + - select
   clone, compress_to_field, value, in any order) against the same history on a native group element ---- *)
Definition w_run := @wrun FqF fq_a ark_D ark_ZETA fq_neg ark_sr.
Definition w_inv := @winv FqF ark_D fq_neg ark_sr.
Definition w_abs := @wabs FqF ark_D fq_neg ark_sr.
Definition w_op_ok := @op_ok FqF ark_D.
Definition n_enc (p : apt) : Fq := n_encode (of_affine p).
Definition n_run := @nrun FqF (ed_add fq_a ark_D) (@ed_neg FqF) n_enc.
(* a variable that starts on the curve, or from a decodable encoding (with a cache that agrees with its element):
   all constraints stay satisfied, the variable denotes the native result, every value read is the native value *)
Theorem C13_history : forall ops w, w_inv (snd w) -> Forall w_op_ok ops ->
  fst (fst (w_run w ops)) = fst w /\ w_inv (snd (fst (w_run w ops))) /\
  w_abs (snd (fst (w_run w ops))) = fst (n_run (w_abs (snd w)) ops) /\
  snd (w_run w ops) = snd (n_run (w_abs (snd w)) ops).
Proof.
  exact (@wrun_refines FqF ark_D ark_ZETA fq_neg ark_sr ark_sr_contract zeta_ns fq_neg0 fq_neg_opp fq_two_nz d_ns amd_ns m1_sq).
Qed.
(* the same statement against the NATIVE element in extended projective coordinates: a variable holding the valid element P, driven through
   any history whose operands are valid native elements, stays satisfied, ends denoting the native result, and every compress_to_field /
   value read is n_encode / the affine point of the native element at that moment (ark_add, ark_sub, ark_double, pneg = the ark-ec
   formulas, tied to the dependency source by Tie/Dep.v) *)
Definition p_run := @prun FqF ark_D fq_neg ark_sr.
Definition p_ok := @pop_ok FqF ark_D.
Theorem C13_history_native : forall ops P b, validP P -> Forall p_ok ops ->
  let w := (b, WElt (aff P)) in
  fst (fst (w_run w (map (@to_wop FqF) ops))) = b /\
  w_abs (snd (fst (w_run w (map (@to_wop FqF) ops)))) = aff (fst (p_run P ops)) /\
  snd (w_run w (map (@to_wop FqF) ops)) = snd (p_run P ops).
Proof.
  exact (@gadget_history_is_native_history FqF ark_D ark_ZETA fq_neg ark_sr ark_sr_contract zeta_ns fq_neg0 fq_neg_opp fq_two_nz d_ns amd_ns m1_sq).
Qed.
(* forcing the encoding / the element / reading / cloning, in any order and any number of times, changes no value *)
Theorem C13_forcing_changes_no_value : forall ops w, w_inv (snd w) -> forallb (@is_force FqF) ops = true ->
  w_abs (snd (fst (w_run w ops))) = w_abs (snd w) /\ fst (fst (w_run w ops)) = fst w.
Proof.
  exact (@forcing_changes_no_value FqF ark_D ark_ZETA fq_neg ark_sr ark_sr_contract zeta_ns fq_neg0 fq_neg_opp fq_two_nz d_ns amd_ns m1_sq).
Qed.
(* completeness the other way: a variable allocated from a non-decodable field element is unsatisfied as soon as
   any operation needs its element *)
Theorem C13_invalid_encoding_unsat : forall s ops b, n_decode s = None -> existsb (@needs_elt FqF) ops = true ->
  fst (fst (w_run (b, WEnc s) ops)) = false.
Proof. exact (@invalid_encoding_unsat FqF ark_D ark_ZETA fq_neg ark_sr ark_sr_contract). Qed.
(* non-vacuity: the all-zero encoding and the identity point satisfy the invariant *)
Example C13_history_nonvacuous : w_inv (WEnc zero) /\ w_inv (WElt (mkapt zero one)).
Proof.
  split.
  - exists identity. unfold n_decode. exact (@Codec.decode_zero FqF ark_D fq_neg ark_sr fq_neg0 ark_sr_11).
  - exact (@EdwardsLaw.ed_zero_on_curve FqF fq_a ark_D).
Qed.

(* ---- the element arithmetic of the history model (gadd / gdbl of Model/Wrapper.v) IS the code of the dependency: ark-r1cs-std's
   twisted-Edwards AffineVar `+` and `double_in_place`, translated from the registry sources of the version pinned by Cargo.lock with the
   crate's COEFF_A / COEFF_D (Generated/GadgetsGen.v); on curve points the constraints they add are satisfied ---- *)
Theorem C13_dependency_affinevar_values : forall p q,
  snd (@Generated.GadgetsGen.affinevar_add_gen FqF ark_A ark_D (aX p) (aY p) (aX q) (aY q)) = (aX (gadd fq_a ark_D p q), aY (gadd fq_a ark_D p q)) /\
  snd (@Generated.GadgetsGen.affinevar_double_gen FqF ark_A (aX p) (aY p)) = (aX (gdbl fq_a p), aY (gdbl fq_a p)).
Proof.
  intros p q. rewrite ark_A_is_m1. split; [exact (@affinevar_add_values FqF fq_a ark_D p q)|exact (@affinevar_double_values FqF fq_a p)].
Qed.
Theorem C13_dependency_affinevar_add_satisfied : forall p q, on_curve fq_a ark_D p -> on_curve fq_a ark_D q ->
  fst (@Generated.GadgetsGen.affinevar_add_gen FqF ark_A ark_D (aX p) (aY p) (aX q) (aY q)) = true.
Proof.
  intros p q Hp Hq. rewrite ark_A_is_m1.
  destruct (@denoms_nonzero FqF fq_a ark_D m1_sq d_ns fq_two_nz p q Hp Hq) as [H1 H2].
  exact (@affinevar_add_sat' FqF fq_a ark_D p q H1 H2).
Qed.

(* the scalar-multiplication gadget (CurveVar::scalar_mul_le, the ark-r1cs-std default ladder over the AffineVar arithmetic above): for EVERY
   little-endian bit string, of any length, the output is the k-fold sum of the input point, k the integer the bits denote — i.e. what the
   native scalar multiplication returns (C05) *)
Theorem C13_scalar_mul_gadget : forall P bits, on_curve fq_a ark_D P ->
  @gscalar_mul_le FqF fq_a ark_D P bits = ed_nsmul fq_a ark_D (Ladder.le_nat bits) P.
Proof.
  exact (@gscalar_mul_le_correct FqF ark_D fq_two_nz d_ns m1_sq).
Qed.
