(* Property C17: published constants are consistent with the moduli and curve they describe.
   This file contains only the property theorems; all content is in Props/C17/*.v. *)
Require Import ZArith List String Bool.
From D377 Require Import Base.Certs Model.CVal Generated.Consts Props.C17.Defs Props.C17.Fq Props.C17.Fr Props.C17.Fp Props.C17.Curve Props.C17.FpExtra
  Props.C17.FqOk Props.C17.FrOk Props.C17.FpOk Props.C17.CurveOk.
Import ListNotations. Open Scope string_scope. Open Scope Z_scope. Open Scope bool_scope.

Lemma fp_extra_checks_ok : all_true fp_extra_checks = true.
Proof. vm_compute. reflexivity. Qed.

Definition all_checks : list (string * bool) :=
  fq_checks ++ fr_checks ++ fp_checks ++ curve_checks ++ fp_extra_checks.

(* constants of the crate (reference-crate constants, prefix c_ref_, and the BLS12-377 engine
   configuration, which C16 covers one by one, are not C17's) *)
Definition is_c17_name (s : string) : bool :=
  negb (String.prefix "c_ref_" s) && negb (String.prefix "c_ark_curve_bls12_377_rs__" s).
Definition c17_covered : list string := fq_covered ++ fr_covered ++ fp_covered ++ curve_covered ++ fp_extra_covered.
Definition c17_uncovered : list string :=
  names_covered (filter (fun nc => is_c17_name (fst nc)) all_consts) c17_covered.

(* ---- the property ---- *)
Theorem C17_constants_consistent : forall name b, In (name, b) all_checks -> b = true.
Proof.
  intros name b H. unfold all_checks in H. repeat (apply in_app_or in H; destruct H as [H|H]).
  - exact (all_true_spec _ fq_checks_ok _ _ H).
  - exact (all_true_spec _ fr_checks_ok _ _ H).
  - exact (all_true_spec _ fp_checks_ok _ _ H).
  - exact (all_true_spec _ curve_checks_ok _ _ H).
  - exact (all_true_spec _ fp_extra_checks_ok _ _ H).
Qed.

(* every literal constant the extractor finds in the C17 anchor files has a check *)
Theorem C17_every_constant_covered : c17_uncovered = [].
Proof. vm_compute. reflexivity. Qed.

(* no constant with a check is outside the extractor's grammar, except the two Lazy expressions
   that are compared textually *)
Theorem C17_unparsed : filter is_c17_name unparsed_names =
  ["c_ark_curve_constants_rs__top__TWO"; "c_ark_curve_constants_rs__top__G"].
Proof. vm_compute. reflexivity. Qed.

(* the factor lists used for the primitive-root checks consist of primes *)
Theorem C17_factor_lists_prime :
  Forall (fun f => Znumtheory.prime (fst f)) (fq_factors ++ fr_factors ++ fp_factors).
Proof. repeat (apply Forall_app; split); [exact fq_factors_prime | exact fr_factors_prime | exact fp_factors_prime]. Qed.

Theorem C17_moduli_prime : Znumtheory.prime q /\ Znumtheory.prime r /\ Znumtheory.prime p.
Proof. exact (conj q_prime (conj r_prime p_prime)). Qed.
