(* Property C03 — the encoding depends only on the group element and equals the specified encoding (both builds). *)
Require Import ZArith List Bool.
From D377 Require Import Base.Certs Base.ZpField Base.FieldSec Base.Fields Model.Decaf Model.Bytes Model.Concrete Model.OpTable.
From D377 Require Import Spec.Edwards Spec.DecafSpec Proofs.Instance Proofs.Final Proofs.Reach Proofs.ByteLevel Proofs.Projective Props.C01.
Local Existing Instance FqF.
Open Scope Z_scope.

Lemma mul_swap_l (x y l : Fq) : mul x (mul l y) = mul y (mul l x).
Proof. destruct (@Ffield FqF) as [[_ _ _ _ Mc Ma _ _ _] _ _ _]. rewrite !Ma, (Mc x l), (Mc y l), <- !Ma, (Mc x y). reflexivity. Qed.

(* eqE is the crate's own equality X1*Y2 == Y1*X2; on valid points it is exactly "same coset {P, P+T2}" *)
Theorem C03_eq_is_coset : forall P Q, validP P -> validP Q -> (eqE P Q = true <-> coset_eq (aff P) (aff Q)).
Proof. intros P Q [WP _] [WQ _]. exact (@eqE_correct FqF ark_D d_ns add11_nz P Q WP WQ). Qed.

Theorem C03_ark_respects_eq : forall P Q, validP P -> validP Q -> eqE P Q = true -> gen_ark_encode P = gen_ark_encode Q.
Proof. intros P Q. rewrite (gen_ark_encode_eq P), (gen_ark_encode_eq Q), (ark_encode_is P), (ark_encode_is Q). exact (F_encode_respects_eq ark_sr ark_sr_contract P Q). Qed.
Theorem C03_min_respects_eq : forall P Q, validP P -> validP Q -> eqE P Q = true -> gen_min_encode P = gen_min_encode Q.
Proof. intros P Q. rewrite (gen_min_encode_eq P), (gen_min_encode_eq Q), (min_encode_is P), (min_encode_is Q). exact (F_encode_respects_eq min_sr min_sr_contract P Q). Qed.
Theorem C03_ark_injective : forall P Q, validP P -> validP Q -> gen_ark_encode P = gen_ark_encode Q -> eqE P Q = true.
Proof. intros P Q. rewrite (gen_ark_encode_eq P), (gen_ark_encode_eq Q), (ark_encode_is P), (ark_encode_is Q). exact (F_encode_injective ark_sr ark_sr_contract P Q). Qed.
Theorem C03_min_injective : forall P Q, validP P -> validP Q -> gen_min_encode P = gen_min_encode Q -> eqE P Q = true.
Proof. intros P Q. rewrite (gen_min_encode_eq P), (gen_min_encode_eq Q), (min_encode_is P), (min_encode_is Q). exact (F_encode_injective min_sr min_sr_contract P Q). Qed.

(* the field form is Decaf_1_1_Point.encodeSpec of the affine point, including the final sign normalisation *)
Theorem C03_ark_is_spec : forall P, validP P -> encodeSpec fq_a fq_neg (aff P) (gen_ark_encode P).
Proof. intros P. rewrite gen_ark_encode_eq, ark_encode_is. exact (F_encode_is_spec ark_sr ark_sr_contract P). Qed.
Theorem C03_min_is_spec : forall P, validP P -> encodeSpec fq_a fq_neg (aff P) (gen_min_encode P).
Proof. intros P. rewrite gen_min_encode_eq, min_encode_is. exact (F_encode_is_spec min_sr min_sr_contract P). Qed.
Theorem C03_nonnegative : forall P, fq_neg (gen_ark_encode P) = false /\ fq_neg (gen_min_encode P) = false.
Proof.
  intro P. rewrite gen_ark_encode_eq, ark_encode_is, gen_min_encode_eq, min_encode_is.
  split; [exact (F_encode_nonneg ark_sr P)|exact (F_encode_nonneg min_sr P)].
Qed.

(* particular representatives named by the property: projective rescaling, the other coset member, affine round trip *)
Theorem C03_rescaling : forall P l, validP P -> l <> zero ->
  let P' := mkpt (mul l (pX P)) (mul l (pY P)) (mul l (pZ P)) (mul l (pT P)) in validP P' /\ eqE P P' = true.
Proof.
  intros P l V Hl P'. split; [exact (@valid_scale FqF ark_D l P V Hl)|].
  unfold eqE, P'. cbn [pX pY]. apply feqb_true. apply mul_swap_l.
Qed.

(* byte form: canonical little-endian form of the field form, top three bits clear, 32 bytes *)
Theorem C03_ark_bytes : forall P, length (compress_ark P) = 32%nat /\ bytes_ok (compress_ark P) = true /\
  of_le_bytes (compress_ark P) = val (ark_encode P) /\ Z.shiftr (List.nth 31 (compress_ark P) 0) 5 = 0.
Proof. exact (bytes_compress_canonical ark_encode). Qed.
Theorem C03_min_bytes : forall P, length (compress_min P) = 32%nat /\ bytes_ok (compress_min P) = true /\
  of_le_bytes (compress_min P) = val (min_encode P) /\ Z.shiftr (List.nth 31 (compress_min P) 0) 5 = 0.
Proof. exact (bytes_compress_canonical min_encode). Qed.
