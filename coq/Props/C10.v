(* Property C10 — field arithmetic is exact arithmetic mod p in all three fields, both backends.
   The model of the field API (Model/FieldTable.v: every operator/method form = one function on canonical
   integers) is proved to be exact modular arithmetic for EVERY prime modulus m, hence for q, r and p (proved
   prime in Base/Certs.v); that the two backends (u64 arkworks Montgomery, u32 fiat-crypto) implement this model is
   established by the correspondence check (every impl of ops.rs individually, boundary operands), not by proof. *)
Require Import ZArith List Bool Znumtheory.
From D377 Require Import Base.Certs Base.ZpField Base.Fields Model.CVal Model.Bytes Model.FieldTable Proofs.FieldLemmas Tie.FieldPower.
From D377 Require Generated.Curve.
From D377 Require Import Model.FiatPrelude Generated.FiatFq Generated.FiatFr Generated.FiatFp Proofs.FiatPrims Proofs.FiatLemmas Proofs.FiatSpecs.
Import ListNotations.
Open Scope Z_scope.

Section AnyPrime.
  Variable m : Z.
  Hypothesis m_gt1 : 1 < m.
  Hypothesis m_prime : prime m.

  Theorem C10_add : forall x y, 0 <= fadd m x y < m /\ fadd m x y = (x + y) mod m.
  Proof. exact (fadd_spec m m_gt1). Qed.
  Theorem C10_sub : forall x y, 0 <= fsub m x y < m /\ fsub m x y = (x - y) mod m.
  Proof. exact (fsub_spec m m_gt1). Qed.
  Theorem C10_mul : forall x y, 0 <= fmul m x y < m /\ fmul m x y = (x * y) mod m.
  Proof. exact (fmul_spec m m_gt1). Qed.
  Theorem C10_neg : forall x, 0 <= fneg m x < m /\ fneg m x = (- x) mod m.
  Proof. exact (fneg_spec m m_gt1). Qed.
  (* inverse / division: x * x^-1 = 1 for x <> 0 (the table returns None / panics for 0) *)
  Theorem C10_inverse : forall x, x mod m <> 0 -> fmul m x (finv m x) = 1 /\ 0 <= finv m x < m.
  Proof. intros x H. split; [exact (finv_correct_mod m m_gt1 m_prime x H)|exact (finv_range m m_gt1 x)]. Qed.
  (* sums and products over iterators *)
  Theorem C10_sum : forall l, fold_left (fadd m) l 0 = (fold_right Z.add 0 l) mod m.
  Proof. exact (sum_spec m m_gt1). Qed.
  Theorem C10_product : forall l, fold_left (fmul m) l (1 mod m) = (fold_right Z.mul 1 l) mod m.
  Proof. exact (product_spec m). Qed.
  (* exponentiation honours the whole multi-limb exponent *)
  Theorem C10_power : forall x limbs, Forall (fun l => 0 <= l < 2 ^ 64) limbs -> power m x limbs = x ^ (limbs64 limbs) mod m.
  Proof. exact (power_spec m m_gt1). Qed.
  Theorem C10_pow : forall a e, 0 <= e -> powm a e m = a ^ e mod m.
  Proof. intros a e He. apply powm_spec; [|exact He]. pose proof m_gt1. auto with zarith. Qed.
End AnyPrime.

Lemma q_gt1' : 1 < q. Proof. reflexivity. Qed.
Lemma r_gt1' : 1 < r. Proof. reflexivity. Qed.
Lemma p_gt1' : 1 < p. Proof. reflexivity. Qed.
(* instances used by the three fields of the crate *)
Theorem C10_fields_are_prime_fields : prime q /\ prime r /\ prime p.
Proof. exact (conj q_prime (conj r_prime p_prime)). Qed.
Theorem C10_fq_inverse : forall x, x mod q <> 0 -> fmul q x (finv q x) = 1 /\ 0 <= finv q x < q.
Proof. exact (C10_inverse q q_gt1' q_prime). Qed.
Theorem C10_fr_inverse : forall x, x mod r <> 0 -> fmul r x (finv r x) = 1 /\ 0 <= finv r x < r.
Proof. exact (C10_inverse r r_gt1' r_prime). Qed.
Theorem C10_fp_inverse : forall x, x mod p <> 0 -> fmul p x (finv p x) = 1 /\ 0 <= finv p x < p.
Proof. exact (C10_inverse p p_gt1' p_prime). Qed.
(* Fq::power as regenerated from src/fields/fq.rs on every run (translator/rs2v.py, Tie/FieldPower.v): for every base and every list of 64-bit
   limbs the loop nest of the source returns base^(the whole multi-limb exponent) mod q *)
Theorem C10_generated_power : forall (x : Fq) limbs, Forall (fun l => 0 <= l < 2 ^ 64) limbs ->
  val (@Generated.Curve.fq_power FqF x limbs) = (val x) ^ (limbs64 limbs) mod q.
Proof. intros x limbs H. rewrite tie_fq_power. exact (C10_power q q_gt1' (val x) limbs H). Qed.

(* The 32-bit backend: the four fiat-crypto primitives every field operation of that backend is built from — add with carry, subtract with
   borrow, 32x32 -> 64 multiplication, constant-time move — as TRANSLATED from the bodies in src/fields/{fq,fr,fp}/u32/fiat.rs on every run
   (translator/rs2v_fiat.py: two's-complement wrap-around of every operation in its Rust type, truncating casts, arithmetic shifts) compute,
   for ALL arguments in range: (c + x + y) mod 2^32 and its carry; (x - c - y) mod 2^32 and its borrow; the low and high word of x * y; x or y.
   The limb-wise selection built from them returns exactly one of its two operands.  (The multi-limb Montgomery multiplication, squaring,
   conversion and divstep bodies built from these primitives are exercised by the correspondence, not proved.) *)
Theorem C10_fiat_fq_primitives :
  addcarryx_ok fq_addcarryx_u32 /\ subborrowx_ok fq_subborrowx_u32 /\ mulx_ok fq_mulx_u32 /\ cmovznz_ok fq_cmovznz_u32.
Proof. exact (conj fq_addcarryx_spec (conj fq_subborrowx_spec (conj fq_mulx_spec fq_cmovznz_spec))). Qed.
Theorem C10_fiat_fr_primitives :
  addcarryx_ok fr_addcarryx_u32 /\ subborrowx_ok fr_subborrowx_u32 /\ mulx_ok fr_mulx_u32 /\ cmovznz_ok fr_cmovznz_u32.
Proof. exact (conj fr_addcarryx_spec (conj fr_subborrowx_spec (conj fr_mulx_spec fr_cmovznz_spec))). Qed.
Theorem C10_fiat_fp_primitives :
  addcarryx_ok fp_addcarryx_u32 /\ subborrowx_ok fp_subborrowx_u32 /\ mulx_ok fp_mulx_u32 /\ cmovznz_ok fp_cmovznz_u32.
Proof. exact (conj fp_addcarryx_spec (conj fp_subborrowx_spec (conj fp_mulx_spec fp_cmovznz_spec))). Qed.
Theorem C10_fiat_selectznz : forall c, 0 <= c <= 1 ->
  (forall a b, limbs_ok 8 a -> limbs_ok 8 b -> fq_selectznz c a b = if c =? 0 then a else b) /\
  (forall a b, limbs_ok 8 a -> limbs_ok 8 b -> fr_selectznz c a b = if c =? 0 then a else b) /\
  (forall a b, limbs_ok 12 a -> limbs_ok 12 b -> fp_selectznz c a b = if c =? 0 then a else b).
Proof. intros c Hc. exact (conj (fun a b => fq_selectznz_spec c a b Hc) (conj (fun a b => fr_selectznz_spec c a b Hc) (fun a b => fp_selectznz_spec c a b Hc))). Qed.
(* Multi-limb addition of the 32-bit backend (Fq, Fr: 8 limbs; Fp: 12 limbs): the straight-line body of fq_add / fr_add / fp_add as regenerated
   from fiat.rs — n add-with-carry, n+1 subtract-with-borrow against the modulus limbs written in the source, n constant-time moves — returns, for ALL limb
   values in range with both operands below the modulus, limbs in range whose value is (a + b) mod m: the canonical (reduced) sum.  Since the
   Montgomery form x |-> x * 2^256 mod m is additive, this is exact field addition on the represented values.  The modulus is the one proved
   prime in Base/Certs.v: a wrong modulus limb in the source breaks this theorem. *)
Theorem C10_fiat_fq_add : forall a b, limbs_ok 8 a -> limbs_ok 8 b -> ev a < q -> ev b < q ->
  limbs_ok 8 (fq_add a b) /\ ev (fq_add a b) = (ev a + ev b) mod q.
Proof. exact fq_add_spec. Qed.
Theorem C10_fiat_fr_add : forall a b, limbs_ok 8 a -> limbs_ok 8 b -> ev a < r -> ev b < r ->
  limbs_ok 8 (fr_add a b) /\ ev (fr_add a b) = (ev a + ev b) mod r.
Proof. exact fr_add_spec. Qed.
Theorem C10_fiat_fp_add : forall a b, limbs_ok 12 a -> limbs_ok 12 b -> ev a < p -> ev b < p ->
  limbs_ok 12 (fp_add a b) /\ ev (fp_add a b) = (ev a + ev b) mod p.
Proof. exact fp_add_spec. Qed.
(* Multi-limb subtraction (Fq, Fr): 8 subtract-with-borrow, the all-ones / zero mask chosen by the final borrow, 8 add-with-carry of the
   masked modulus limbs — (a - b) mod m for all in-range limb values. *)
Theorem C10_fiat_fq_sub : forall a b, limbs_ok 8 a -> limbs_ok 8 b -> ev a < q -> ev b < q ->
  limbs_ok 8 (fq_sub a b) /\ ev (fq_sub a b) = (ev a - ev b) mod q.
Proof. exact fq_sub_spec. Qed.
Theorem C10_fiat_fr_sub : forall a b, limbs_ok 8 a -> limbs_ok 8 b -> ev a < r -> ev b < r ->
  limbs_ok 8 (fr_sub a b) /\ ev (fr_sub a b) = (ev a - ev b) mod r.
Proof. exact fr_sub_spec. Qed.
(* Negation (Fq, Fr): (- a) mod m for all in-range limb values; in particular the negation of zero is the canonical zero. *)
Theorem C10_fiat_fq_opp : forall a, limbs_ok 8 a -> ev a < q -> limbs_ok 8 (fq_opp a) /\ ev (fq_opp a) = (- ev a) mod q.
Proof. exact fq_opp_spec. Qed.
Theorem C10_fiat_fr_opp : forall a, limbs_ok 8 a -> ev a < r -> limbs_ok 8 (fr_opp a) /\ ev (fr_opp a) = (- ev a) mod r.
Proof. exact fr_opp_spec. Qed.
Theorem C10_fiat_fp_sub : forall a b, limbs_ok 12 a -> limbs_ok 12 b -> ev a < p -> ev b < p ->
  limbs_ok 12 (fp_sub a b) /\ ev (fp_sub a b) = (ev a - ev b) mod p.
Proof. exact fp_sub_spec. Qed.
Theorem C10_fiat_fp_opp : forall a, limbs_ok 12 a -> ev a < p -> limbs_ok 12 (fp_opp a) /\ ev (fp_opp a) = (- ev a) mod p.
Proof. exact fp_opp_spec. Qed.
(* the hypotheses are satisfiable and the wrap-around case is exercised: (q - 1) + 2 = 1 *)
Example C10_fiat_fq_add_run :
  let a := [0; 168919040; 3489660929; 1504343806; 1547153409; 1622428958; 2586617174; 313222494] in
  let b := [2; 0; 0; 0; 0; 0; 0; 0] in
  ev a = q - 1 /\ ev a < q /\ ev b < q /\ fq_add a b = [1; 0; 0; 0; 0; 0; 0; 0].
Proof. vm_compute. repeat split. Qed.
(* non-vacuity: the statements speak about the concrete translated code *)
Example C10_fiat_primitives_run :
  fq_addcarryx_u32 1 4294967295 4294967295 = (4294967295, 1) /\ fq_subborrowx_u32 1 0 4294967295 = (0, 1) /\
  fr_mulx_u32 4294967295 4294967295 = (1, 4294967294) /\ fp_cmovznz_u32 1 7 9 = 9.
Proof. vm_compute. repeat split. Qed.
