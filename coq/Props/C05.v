(* Property C05 — scalar multiplication is the Z/r-module action; all elements have order | r.
   [E_nsmul k P] is the k-fold sum of the affine point P under the reference law (Spec/Edwards.v).
   Scalars are little-endian u64 limb lists of ARBITRARY length (limbs_ok: every limb in [0, 2^64));
   Fr scalars are the four limbs of the canonical value. *)
Require Import ZArith List Bool Lia.
From D377 Require Import Base.Certs Base.ZpField Base.FieldSec Base.Fields Model.Decaf Model.Sqrt Model.Concrete Model.OpTable.
From D377 Require Import Spec.Edwards Proofs.Instance Proofs.Final Proofs.Reach Proofs.SqrtTS Proofs.Ladder Proofs.EdwardsLaw Proofs.Projective Tie.Scalar.
From D377 Require Generated.Curve Generated.Consts Generated.Dep Model.CVal.
Local Existing Instance FqF.
Open Scope Z_scope.

Definition E_nsmul := ed_nsmul fq_a ark_D.
Definition E_add := ed_add fq_a ark_D.

(* the model functions of the op tables ARE the ladders proved in Proofs/Ladder.v *)
Lemma ark_mul_bigint_is p l : ark_mul_bigint p l = Ladder.mul_bigint ark_D p l. Proof. reflexivity. Qed.
Lemma ark_mul_affine_is p l : ark_mul_affine p l = Ladder.mul_affine ark_D p l. Proof. reflexivity. Qed.
Lemma min_scalar_mul_is p l : min_scalar_mul p l = Ladder.scalar_mul_lsb min_K p l. Proof. reflexivity. Qed.

(* arkworks build: Group::mul_bigint (MSB-first double-and-add of ark-ec), any integer length *)
Theorem C05_ark_mul_bigint : forall p l, wfP p -> limbs_ok l ->
  wfP (ark_mul_bigint p l) /\ aff (ark_mul_bigint p l) = E_nsmul (nval l) (aff p).
Proof. intros p l. rewrite ark_mul_bigint_is. exact (@mul_bigint_correct FqF ark_D d_ns m1_sq add11_nz p l). Qed.
Theorem C05_ark_mul_affine : forall P l, on_curve fq_a ark_D P -> limbs_ok l ->
  wfP (ark_mul_affine P l) /\ aff (ark_mul_affine P l) = E_nsmul (nval l) P.
Proof. intros P l. rewrite ark_mul_affine_is. exact (@mul_affine_correct FqF ark_D d_ns m1_sq add11_nz P l). Qed.

(* the two ladders above ARE the code of the dependency: TECurveConfig::mul_projective / mul_affine of the ark-ec version pinned by
   Cargo.lock, translated from the registry sources together with the addition and doubling they call (Generated/Dep.v); the only
   hand-written ingredient is the bit iterator `bits_be_nlz` = ark_ff::BitIteratorBE::without_leading_zeros *)
Theorem C05_dependency_mul_projective : forall p l,
  Generated.Dep.dep_mul_projective ark_D mkpt (@Generated.Dep.cfg_mul_by_a FqF) bits_be_nlz p l = ark_mul_bigint p l.
Proof. reflexivity. Qed.
Theorem C05_dependency_mul_affine : forall P l,
  Generated.Dep.dep_mul_affine ark_D mkpt (@Generated.Dep.cfg_mul_by_a FqF) bits_be_nlz P l = ark_mul_affine P l.
Proof. reflexivity. Qed.

(* minimal build: scalar_mul / scalar_mul_vartime (LSB-first), on the loop regenerated from the source, both CT variants *)
Definition gen_min_scalar_mul (ct : bool) : pt -> list Z -> pt := Generated.Curve.min_scalar_mul_both min_K mkpt ct.
Lemma gen_min_scalar_mul_eq ct p l : gen_min_scalar_mul ct p l = min_scalar_mul p l.
Proof. unfold gen_min_scalar_mul. rewrite (@tie_min_scalar_mul_both FqF min_K ct p l). reflexivity. Qed.
Theorem C05_min_scalar_mul : forall ct p l, wfP p -> limbs_ok l ->
  wfP (gen_min_scalar_mul ct p l) /\ aff (gen_min_scalar_mul ct p l) = E_nsmul (nval l) (aff p).
Proof.
  intros ct p l. rewrite gen_min_scalar_mul_eq, min_scalar_mul_is.
  exact (@scalar_mul_lsb_correct FqF ark_D d_ns m1_sq add11_nz min_K p l min_K_is_2D).
Qed.
(* constant-time and variable-time ladders, and the two builds, agree *)
Theorem C05_builds_agree : forall ct p l, wfP p -> limbs_ok l -> aff (gen_min_scalar_mul ct p l) = aff (ark_mul_bigint p l).
Proof.
  intros ct p l. rewrite gen_min_scalar_mul_eq, min_scalar_mul_is, ark_mul_bigint_is.
  exact (@scalar_mul_lsb_as_bigint FqF ark_D d_ns m1_sq add11_nz min_K p l min_K_is_2D).
Qed.

(* additive and multiplicative in the scalar *)
Theorem C05_additive : forall p l1 l2 l3, wfP p -> limbs_ok l1 -> limbs_ok l2 -> limbs_ok l3 ->
  limbs_value l3 = limbs_value l1 + limbs_value l2 ->
  aff (ark_mul_bigint p l3) = E_add (aff (ark_mul_bigint p l1)) (aff (ark_mul_bigint p l2)).
Proof. intros p l1 l2 l3. rewrite !ark_mul_bigint_is. exact (@mul_bigint_add FqF ark_D d_ns m1_sq add11_nz p l1 l2 l3). Qed.
Theorem C05_multiplicative : forall p l1 l2 l3, wfP p -> limbs_ok l1 -> limbs_ok l2 -> limbs_ok l3 ->
  limbs_value l3 = limbs_value l1 * limbs_value l2 ->
  aff (ark_mul_bigint p l3) = aff (ark_mul_bigint (ark_mul_bigint p l2) l1).
Proof. intros p l1 l2 l3. rewrite !ark_mul_bigint_is. exact (@mul_bigint_mul FqF ark_D d_ns m1_sq add11_nz p l1 l2 l3). Qed.
(* independent of the coset representative of the base *)
Theorem C05_coset : forall p p' l, wfP p -> wfP p' -> limbs_ok l -> coset_eq (aff p) (aff p') ->
  coset_eq (aff (ark_mul_bigint p l)) (aff (ark_mul_bigint p' l)).
Proof. intros p p' l. rewrite !ark_mul_bigint_is. exact (@mul_bigint_coset FqF ark_D d_ns m1_sq add11_nz p p' l). Qed.

(* multi-scalar multiplication = sum of the individual products (Element::vartime_multiscalar_mul) *)
Lemma fr_limbs_ok k : limbs_ok (fr_limbs k).
Proof.
  unfold limbs_ok, fr_limbs. apply Forall_forall. intros x Hx. apply in_map_iff in Hx. destruct Hx as [i [<- _]].
  apply Z.mod_pos_bound. reflexivity.
Qed.
Theorem C05_msm : forall ks ps, Forall wfP ps ->
  wfP (ark_msm_vartime ks ps) /\
  aff (ark_msm_vartime ks ps) =
  fold_left (fun e (kp : Z * pt) => E_add e (E_nsmul (nval (fr_limbs (fst kp))) (aff (snd kp)))) (combine ks ps) (aff identity).
Proof.
  intros ks ps Hps. unfold ark_msm_vartime, ark_smul.
  assert (HF : Forall (fun kp : Z * pt => limbs_ok (fr_limbs (fst kp)) /\ wf (opp one) ark_D (snd kp)) (combine ks ps)).
  { apply Forall_forall. intros [k p] Hin. split; [apply fr_limbs_ok|].
    apply in_combine_r in Hin. rewrite Forall_forall in Hps. exact (Hps p Hin). }
  exact (@msm_fold_correct FqF ark_D d_ns m1_sq add11_nz Z fr_limbs (combine ks ps) HF identity (proj1 (@identity_correct FqF ark_D))).
Qed.

(* the value of an Fr scalar is its canonical integer *)
Lemma fr_limbs_value k : limbs_value (fr_limbs k) = k mod r.
Proof.
  unfold fr_limbs, limbs_value. cbn [seq map fold_right].
  pose proof (Z.mod_pos_bound k r ltac:(reflexivity)) as Hb.
  assert (Hr : r < 2 ^ 256) by reflexivity.
  set (v := k mod r) in *. change (2 ^ (64 * Z.of_nat 0)) with 1. change (2 ^ (64 * Z.of_nat 1)) with (2 ^ 64).
  change (2 ^ (64 * Z.of_nat 2)) with (2 ^ 128). change (2 ^ (64 * Z.of_nat 3)) with (2 ^ 192).
  rewrite Z.div_1_r.
  assert (H4 : v / 2 ^ 192 < 2 ^ 64) by (apply Z.div_lt_upper_bound; lia).
  rewrite (Z.mod_small (v / 2 ^ 192)) by (split; [apply Z.div_pos; lia|exact H4]).
  Z.div_mod_to_equations. lia.
Qed.

(* the conventional generator has order exactly r: [r]G is the identity element, G is not, r is prime
   (r as the limb constant Fr::MODULUS_LIMBS extracted from the source) *)
Definition r_limbs : list Z := CVal.get_ints Generated.Consts.c_fields_fr_rs__Fr__MODULUS_LIMBS.
Lemma r_limbs_value : limbs_value r_limbs = r. Proof. vm_compute. reflexivity. Qed.
Lemma r_limbs_ok : limbs_ok r_limbs. Proof. unfold limbs_ok. repeat constructor; vm_compute; try discriminate; reflexivity. Qed.
Lemma rG_is_identity_aux : b2z (is_identity (ark_mul_bigint ark_GEN r_limbs)) = 1. Proof. vm_compute. reflexivity. Qed.
Lemma nval_r_limbs : nval r_limbs = Z.to_nat r.
Proof. unfold nval. rewrite r_limbs_value. reflexivity. Qed.
Local Opaque r Z.to_nat nval.
Theorem C05_generator_order :
  is_identity (ark_mul_bigint ark_GEN r_limbs) = true /\ is_identity ark_GEN = false /\ Znumtheory.prime r /\
  aff (ark_mul_bigint ark_GEN r_limbs) = E_nsmul (Z.to_nat r) (aff ark_GEN).
Proof.
  split; [|split; [|split]].
  - pose proof rG_is_identity_aux as H. destruct (is_identity (ark_mul_bigint ark_GEN r_limbs)); [reflexivity|discriminate].
  - apply feqb_false. intro E. apply (f_equal val) in E. vm_compute in E. discriminate.
  - exact r_prime.
  - rewrite <- nval_r_limbs. exact (proj2 (C05_ark_mul_bigint ark_GEN r_limbs (proj1 V_ark_GEN) r_limbs_ok)).
Qed.
(* "r times any element is the identity" for every element needs the group order #E(F_q) = 4r, which is not
   provable with the means at hand (point counting); it is stated with that single named premise. *)
Theorem C05_order_divides_r_conditional :
  (forall P, on_curve fq_a ark_D P -> E_nsmul (4 * Z.to_nat r) P = @ed_zero FqF) ->
  forall p, wfP p -> E_nsmul 4 (aff (ark_mul_bigint p r_limbs)) = @ed_zero FqF.
Proof.
  intros Hord p W.
  destruct (C05_ark_mul_bigint p r_limbs W r_limbs_ok) as [_ E]. rewrite E, nval_r_limbs.
  pose proof (@wf_on_curve FqF ark_D p W) as OC.
  unfold E_nsmul.
  rewrite <- (@ed_nsmul_mul FqF fq_a ark_D m1_sq d_ns add11_nz 4 (Z.to_nat r) (aff p) OC).
  exact (Hord (aff p) OC).
Qed.
