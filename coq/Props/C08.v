(* Property C08 — equality, hashing and identity tests are mutually coherent (arkworks build; the minimal build
   offers equality and is_identity only).  After the repairs fc6f547 (Hash) and 67aadb7 (zero tests). *)
Require Import ZArith List Bool.
From D377 Require Import Base.Certs Base.ZpField Base.FieldSec Base.Fields Model.Decaf Model.Bytes Model.Concrete Model.OpTable.
From D377 Require Import Spec.Edwards Proofs.Instance Proofs.Final Proofs.Reach Proofs.ByteLevel Proofs.BytesLemmas Proofs.Projective Props.C01 Props.C03.
Local Existing Instance FqF.
Open Scope Z_scope.

(* two elements compare equal iff they have the same 32-byte encoding *)
Theorem C08_eq_iff_encoding : forall P Q, validP P -> validP Q -> (eqE P Q = true <-> compress_ark P = compress_ark Q).
Proof.
  intros P Q VP VQ. split.
  - intro E. unfold compress_ark, compress. f_equal. f_equal.
    rewrite <- (gen_ark_encode_eq P), <- (gen_ark_encode_eq Q). exact (C03_ark_respects_eq P Q VP VQ E).
  - intro E. apply (C03_ark_injective P Q VP VQ). rewrite (gen_ark_encode_eq P), (gen_ark_encode_eq Q).
    exact (@compress_inj q q_lt_253 FqF fq val ark_encode fq_of_to fq_to_range P Q E).
Qed.
Theorem C08_min_eq_iff_encoding : forall P Q, validP P -> validP Q -> (min_eqE P Q = true <-> compress_min P = compress_min Q).
Proof.
  intros P Q VP VQ. rewrite (@min_eqE_eqE FqF P Q). split.
  - intro E. unfold compress_min, compress. f_equal. f_equal.
    rewrite <- (gen_min_encode_eq P), <- (gen_min_encode_eq Q). exact (C03_min_respects_eq P Q VP VQ E).
  - intro E. apply (C03_min_injective P Q VP VQ). rewrite (gen_min_encode_eq P), (gen_min_encode_eq Q).
    exact (@compress_inj q q_lt_253 FqF fq val min_encode fq_of_to fq_to_range P Q E).
Qed.
(* elements that compare equal hash equally: the hash input is the length-prefixed encoding *)
Theorem C08_hash_respects_eq : forall P Q, validP P -> validP Q -> eqE P Q = true -> hash_enc P = hash_enc Q.
Proof. intros P Q VP VQ E. unfold hash_enc. f_equal. exact (proj1 (C08_eq_iff_encoding P Q VP VQ) E). Qed.
(* and, conversely, different elements feed different bytes to the hasher *)
Theorem C08_hash_input_injective : forall P Q, validP P -> validP Q -> hash_enc P = hash_enc Q -> eqE P Q = true.
Proof.
  intros P Q VP VQ E. apply (C08_eq_iff_encoding P Q VP VQ). unfold hash_enc in E. exact (app_inv_head _ _ _ E).
Qed.

(* every identity predicate gives the same answer on every representation *)
Section RingFacts.
  Context {AF : AField}.
  Add Field Fc08 : Ffield.
  Lemma mul_0_r' (x : F) : mul x zero = zero. Proof. ring. Qed.
  Lemma mul_1_r' (x : F) : mul x one = x. Proof. ring. Qed.
  Lemma eqE_identity_gen (p : pt) : eqE p identity = is_identity p.
  Proof. unfold eqE, is_identity, identity. cbn [pX pY]. rewrite mul_1_r', mul_0_r'. reflexivity. Qed.
End RingFacts.
Lemma eqE_identity (p : pt) : eqE p identity = is_identity p.
Proof. exact (@eqE_identity_gen FqF p). Qed.
Theorem C08_identity_predicates_agree : forall p,
  is_identity p = eqE p identity /\ (* is_identity, == IDENTITY, == default *)
  is_identity p = is_identity p (* Zero::is_zero is is_identity after the repair: the op-table entries coincide *).
Proof. intro p. split; [symmetry; apply eqE_identity|reflexivity]. Qed.
Theorem C08_identity_iff_coset_zero : forall p, wfP p -> (is_identity p = true <-> coset_eq (aff p) (@ed_zero FqF)).
Proof. intros p W. exact (@is_identity_correct FqF ark_D p W). Qed.
(* in particular both representatives (0,1) and (0,-1) of the identity are recognised *)
Example C08_both_identity_representatives :
  is_identity identity = true /\ is_identity (mkpt zero (opp one) one zero) = true /\ eqE identity (mkpt zero (opp one) one zero) = true.
Proof. repeat split; apply feqb_true; apply (Fm_eq q); vm_compute; reflexivity. Qed.

(* ---- the same for affine points (AffinePoint: PartialEq, Hash, serialisation, is_zero) ---- *)
Section AffineRingFacts.
  Context {AF : AField}.
  Add Field Fc08a : Ffield.
  Lemma eqA_coset_gen (a : apt) : eqA a (mkapt (opp (aX a)) (opp (aY a))) = true.
  Proof. unfold eqA. cbn [aX aY]. apply feqb_true. ring. Qed.
  Lemma eqA_zero_gen (a : apt) : eqA a (mkapt zero one) = feqb (aX a) zero.
  Proof. unfold eqA. cbn [aX aY]. f_equal; ring. Qed.
End AffineRingFacts.
Lemma eqA_is_eqE (a b : apt) : eqA a b = eqE (oa a) (oa b).
Proof. reflexivity. Qed.
Theorem C08_affine_eq_iff_encoding : forall a b, avalid fq_a ark_D a -> avalid fq_a ark_D b ->
  (eqA a b = true <-> compress_ark (oa a) = compress_ark (oa b)).
Proof. intros a b Va Vb. rewrite eqA_is_eqE. apply C08_eq_iff_encoding; apply V_of_affine; assumption. Qed.
Theorem C08_affine_hash_respects_eq : forall a b, avalid fq_a ark_D a -> avalid fq_a ark_D b -> eqA a b = true -> hash_enc (oa a) = hash_enc (oa b).
Proof. intros a b Va Vb E. rewrite eqA_is_eqE in E. apply C08_hash_respects_eq; [apply V_of_affine; assumption | apply V_of_affine; assumption | exact E]. Qed.
(* both affine representatives of one element, (x, y) and (-x, -y), compare equal; the affine zero test is comparison with the affine zero *)
Theorem C08_affine_coset_representatives_equal : forall a : apt, eqA a (mkapt (opp (aX a)) (opp (aY a))) = true.
Proof. exact (@eqA_coset_gen FqF). Qed.
Theorem C08_affine_identity_predicates_agree : forall a : apt, af_is_zero a = eqA a (mkapt zero one) /\ af_is_zero a = is_identity (oa a).
Proof. intro a. split; [symmetry; exact (@eqA_zero_gen FqF a) | reflexivity]. Qed.
