(* Property C06 — every public constructor yields a valid group element (arkworks build; the minimal build's
   constructors are the constants, decoding and hash-to-group, covered by C01_reachable_valid_min).
   After the repair be00c53 (from_random_bytes doubles the recovered curve point). *)
Require Import ZArith List Bool.
From D377 Require Import Base.Certs Base.ZpField Base.FieldSec Base.Fields Model.Decaf Model.Bytes Model.Concrete Model.OpTable.
From D377 Require Import Spec.Edwards Spec.DecafSpec Proofs.Instance Proofs.Final Proofs.Reach Proofs.ByteLevel Proofs.Projective Proofs.Constructors Props.C01.
Local Existing Instance FqF.
Open Scope Z_scope.

Definition avalidP := avalid fq_a ark_D.

(* constants *)
Theorem C06_constants : validP ark_GEN /\ validP identity /\ validP min_GEN /\ avalidP (to_affine ark_GEN) /\ avalidP (to_affine identity).
Proof.
  split; [exact V_ark_GEN|split; [exact V_identity|split; [exact V_min_GEN|split; [exact (V_to_affine _ V_ark_GEN)|exact (V_to_affine identity V_identity)]]]].
Qed.
(* decoding family and deserialisers: whatever they return is valid *)
Theorem C06_decoders : forall b P, (decompress32_ark b = DOk P -> validP P) /\ (decompress32_min b = DOk P -> validP P).
Proof.
  intros b P. split; intro H.
  - rewrite decompress32_ark_is in H. unfold decompress32 in H. destruct (negb _); [discriminate|].
    destruct (field_from_bytes_checked _ _ _) as [s|]; [|discriminate]. destruct (ark_decode s) as [P'|] eqn:E; [|discriminate].
    injection H as <-. exact (V_ark_decode s P' E).
  - unfold decompress32_min, decompress32 in H. destruct (negb _); [discriminate|].
    destruct (field_from_bytes_checked _ _ _) as [s|]; [|discriminate]. destruct (min_decode s) as [P'|] eqn:E; [|discriminate].
    injection H as <-. exact (V_min_decode s P' E).
Qed.
(* conversions, normalisation, batch conversion: affine images of valid elements are valid, and back *)
Theorem C06_conversions : forall p, validP p -> avalidP (to_affine p) /\ validP (of_affine (to_affine p)).
Proof. intros p V. split; [exact (V_to_affine p V)|exact (V_of_affine _ (V_to_affine p V))]. Qed.
Theorem C06_from_affine : forall a, avalidP a -> validP (of_affine a).
Proof. exact V_of_affine. Qed.

(* from_random_bytes: for EVERY byte string, the point handed out (if any) is valid — doubling maps every curve point
   into the group *)
Lemma min_sqrt1_ok : forall x2 r : @F FqF, x2 <> zero -> min_sr x2 one = (true, r) -> mul r r = x2.
Proof.
  intros x2 r0 E0 Esr. destruct min_sr_contract as (_ & _ & C3 & _).
  assert (H1 : (@one FqF) <> zero) by (intro E; apply (f_equal val) in E; vm_compute in E; discriminate).
  specialize (C3 x2 one E0 H1). rewrite Esr in C3. destruct C3 as [[_ Hr]|[Hf _]]; [|discriminate].
  rewrite <- Hr. symmetry. exact (mul_one_r_eq (mul r0 r0)).
Qed.
Lemma te_x_from_y_is y : te_x_from_y y = @te_x_gen FqF ark_A ark_D (fun x2 => min_sr x2 one) (fun u v => (val u <=? val v)%Z) y.
Proof. reflexivity. Qed.
Lemma te_x_on_curve (y x : @F FqF) : te_x_from_y y = Some x -> on_curve fq_a ark_D (mkapt x y).
Proof.
  rewrite te_x_from_y_is, <- ark_A_is_m1.
  exact (@te_x_gen_on_curve FqF ark_A ark_D (fun x2 => min_sr x2 one) (fun u v => (val u <=? val v)%Z) min_sqrt1_ok y x).
Qed.
Theorem C06_from_random_bytes : forall l a, af_from_random_bytes l = Some a -> avalidP a.
Proof.
  intros l a. unfold af_from_random_bytes. destruct (te_x_from_y (fq_mod_order l)) as [x|] eqn:E; [|discriminate].
  intro H. injection H as <-. apply V_to_affine.
  apply (@double_always_valid FqF ark_D d_ns m1_sq add11_nz).
  exact (proj1 (@of_affine_correct FqF ark_D _ (te_x_on_curve _ _ E))).
Qed.
(* samplers: for every RNG stream, the sampled element (if the rejection loop terminates within the model's fuel) is valid *)
Theorem C06_sampler : forall stream fuel P, el_rand_loop fuel stream = Some P -> validP P.
Proof.
  intros stream fuel. revert stream. induction fuel as [|f IH]; intros s P; cbn [el_rand_loop]; [discriminate|].
  cbv zeta. destruct (q <=? _); [apply IH|].
  destruct (te_x_from_y _) as [x|]; [|apply IH].
  destruct (negb _); [apply IH|].
  destruct (decompress32_ark _) as [p| | |] eqn:E; try apply IH.
  intro H. injection H as <-. exact (proj1 (C06_decoders _ p) E).
Qed.
