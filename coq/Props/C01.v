(* Property C01 — group-element encoding round-trips in both directions (both builds).
   Statements only; proofs are in Proofs/*.  [validP p] is "p is a well-formed extended-coordinate representative
   of a decaf377 element" (Spec/Edwards.v); every value the API can produce satisfies it (theorems C01_reachable_valid_ark and C01_reachable_valid_min). *)
Require Import ZArith List Bool.
From D377 Require Import Base.Certs Base.ZpField Base.FieldSec Base.Fields Model.Decaf Model.Bytes Model.Concrete Model.OpTable.
From D377 Require Import Spec.Edwards Proofs.Instance Proofs.Final Proofs.Reach Proofs.ByteLevel.
Local Existing Instance FqF.
Open Scope Z_scope.

(* --- field level, on the definitions regenerated from the Rust source --- *)
Theorem C01_ark_enc_dec : forall s P, gen_ark_decode s = Some P -> gen_ark_encode P = s.
Proof. intros s P. rewrite gen_ark_decode_eq, gen_ark_encode_eq, ark_encode_is. exact (F_enc_dec ark_sr ark_sr_contract s P). Qed.
Theorem C01_ark_dec_enc : forall P, validP P -> exists P', gen_ark_decode (gen_ark_encode P) = Some P' /\ eqE P P' = true.
Proof. intros P V. rewrite gen_ark_encode_eq, gen_ark_decode_eq, ark_encode_is. exact (F_dec_enc ark_sr ark_sr_contract P V). Qed.
Theorem C01_min_enc_dec : forall s P, gen_min_decode s = Some P -> gen_min_encode P = s.
Proof. intros s P. rewrite gen_min_decode_eq, gen_min_encode_eq, min_decode_is, min_encode_is. exact (F_enc_dec min_sr min_sr_contract s P). Qed.
Theorem C01_min_dec_enc : forall P, validP P -> exists P', gen_min_decode (gen_min_encode P) = Some P' /\ eqE P P' = true.
Proof. intros P V. rewrite gen_min_encode_eq, gen_min_decode_eq, min_decode_is, min_encode_is. exact (F_dec_enc min_sr min_sr_contract P V). Qed.

(* --- byte level (the 32-byte strings of the API), hand model of the byte layer over the same functions --- *)
Lemma ark_hyp_enc_dec : forall s P, ark_decode s = Some P -> ark_encode P = s.
Proof. intros s P. rewrite ark_encode_is. exact (F_enc_dec ark_sr ark_sr_contract s P). Qed.
Lemma ark_hyp_dec_enc : forall P, validP P -> exists P', ark_decode (ark_encode P) = Some P' /\ eqE P P' = true.
Proof. intros P V. rewrite ark_encode_is. exact (F_dec_enc ark_sr ark_sr_contract P V). Qed.
Lemma min_hyp_enc_dec : forall s P, min_decode s = Some P -> min_encode P = s.
Proof. intros s P. rewrite min_decode_is, min_encode_is. exact (F_enc_dec min_sr min_sr_contract s P). Qed.
Lemma min_hyp_dec_enc : forall P, validP P -> exists P', min_decode (min_encode P) = Some P' /\ eqE P P' = true.
Proof. intros P V. rewrite min_decode_is, min_encode_is. exact (F_dec_enc min_sr min_sr_contract P V). Qed.

Lemma decompress32_ark_is b : decompress32_ark b = decompress32 q fq ark_decode b.
Proof.
  unfold decompress32_ark, decompress32. destruct (negb _); [reflexivity|].
  destruct (@field_from_bytes_checked q FqF fq b) as [s|]; [|reflexivity]. rewrite ark_decode_new_eq. reflexivity.
Qed.

Theorem C01_ark_bytes_dec_enc : forall P, validP P -> exists P', decompress32_ark (compress_ark P) = DOk P' /\ eqE P P' = true.
Proof. intros P V. rewrite decompress32_ark_is. exact (bytes_dec_enc ark_decode ark_encode ark_hyp_dec_enc P V). Qed.
Theorem C01_ark_bytes_enc_dec : forall b P, bytes_ok b = true -> length b = 32%nat -> decompress32_ark b = DOk P -> compress_ark P = b.
Proof. intros b P Hb Hl. rewrite decompress32_ark_is. exact (bytes_enc_dec ark_decode ark_encode ark_hyp_enc_dec b P Hb Hl). Qed.
Theorem C01_min_bytes_dec_enc : forall P, validP P -> exists P', decompress32_min (compress_min P) = DOk P' /\ eqE P P' = true.
Proof. exact (bytes_dec_enc min_decode min_encode min_hyp_dec_enc). Qed.
Theorem C01_min_bytes_enc_dec : forall b P, bytes_ok b = true -> length b = 32%nat -> decompress32_min b = DOk P -> compress_min P = b.
Proof. exact (bytes_enc_dec min_decode min_encode min_hyp_enc_dec). Qed.

(* --- every element obtainable from constants, decoding, hash-to-group and arbitrary operation sequences is valid --- *)
Theorem C01_reachable_valid_ark : forall e p, eval_ark e = Some p -> validP p.
Proof. exact reachable_valid_ark. Qed.
Theorem C01_reachable_valid_min : forall e p, eval_min e = Some p -> validP p.
Proof. exact reachable_valid_min. Qed.
(* decoded elements are valid, so both directions compose into a bijection accepted strings <-> elements *)
Theorem C01_decoded_valid_ark : forall s P, gen_ark_decode s = Some P -> validP P.
Proof. intros s P. rewrite gen_ark_decode_eq. exact (V_ark_decode s P). Qed.
Theorem C01_decoded_valid_min : forall s P, gen_min_decode s = Some P -> validP P.
Proof. intros s P. rewrite gen_min_decode_eq. exact (V_min_decode s P). Qed.

(* non-vacuity: the generator and 2*generator meet the hypotheses *)
Example C01_generator_valid : validP ark_GEN /\ validP (ark_double ark_GEN) /\ validP (pneg (ark_double ark_GEN)).
Proof. split; [exact V_ark_GEN|split; [exact (V_double _ V_ark_GEN)|exact (V_neg _ (V_double _ V_ark_GEN))]]. Qed.
