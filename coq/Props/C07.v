(* Property C07 — hash-to-group equals the specified Elligator 2 map (both builds).
   elligatorSpec is the transcription of Decaf_1_1_Point.elligatorSpec of ristretto.sage (Spec/DecafSpec.v). *)
Require Import ZArith List Bool.
From D377 Require Import Base.Certs Base.ZpField Base.FieldSec Base.Fields Model.Decaf Model.Concrete Model.OpTable.
From D377 Require Import Spec.Edwards Spec.DecafSpec Proofs.Instance Proofs.Final Proofs.Reach Proofs.Projective.
Local Existing Instance FqF.

Definition ESpec := elligatorSpec fq_a ark_D ark_ZETA fq_neg.

(* on the definitions regenerated from the source *)
Theorem C07_min_valid : forall r0, validP (gen_min_elligator r0).
Proof. intro r0. rewrite gen_min_elligator_eq. exact (V_min_elligator r0). Qed.
Theorem C07_ark_valid : forall r0, validP (gen_ark_elligator_raw r0).
Proof. intro r0. rewrite gen_ark_elligator_raw_eq. exact (V_ark_elligator_raw r0). Qed.
Theorem C07_min_neg_invariant : forall r0, gen_min_elligator (opp r0) = gen_min_elligator r0.
Proof. intro r0. rewrite (gen_min_elligator_eq (opp r0)), (gen_min_elligator_eq r0), (min_elligator_is (opp r0)), (min_elligator_is r0). exact (F_elligator_neg min_sr r0). Qed.
Theorem C07_ark_neg_invariant : forall r0, gen_ark_elligator_raw (opp r0) = gen_ark_elligator_raw r0.
Proof. intro r0. rewrite (gen_ark_elligator_raw_eq (opp r0)), (gen_ark_elligator_raw_eq r0), (ark_elligator_raw_is (opp r0)), (ark_elligator_raw_is r0). exact (F_elligator_neg ark_sr r0). Qed.
(* equal to the specification's unoptimised map: the same curve point for r0 <> 0, the same group element always *)
Theorem C07_min_spec : forall r0, exists p, ESpec r0 p /\ coset_eq p (aff (gen_min_elligator r0)).
Proof. intro r0. rewrite gen_min_elligator_eq, min_elligator_is. exact (F_elligator_spec min_sr min_sr_contract r0). Qed.
Theorem C07_ark_spec : forall r0, exists p, ESpec r0 p /\ coset_eq p (aff (gen_ark_elligator_raw r0)).
Proof. intro r0. rewrite gen_ark_elligator_raw_eq, ark_elligator_raw_is. exact (F_elligator_spec ark_sr ark_sr_contract r0). Qed.
Theorem C07_min_spec_exact : forall r0, r0 <> zero -> ESpec r0 (aff (gen_min_elligator r0)).
Proof. intro r0. rewrite gen_min_elligator_eq, min_elligator_is. exact (F_elligator_spec_eq min_sr min_sr_contract r0). Qed.
Theorem C07_ark_spec_exact : forall r0, r0 <> zero -> ESpec r0 (aff (gen_ark_elligator_raw r0)).
Proof. intro r0. rewrite gen_ark_elligator_raw_eq, ark_elligator_raw_is. exact (F_elligator_spec_eq ark_sr ark_sr_contract r0). Qed.
(* the arkworks build passes the result through Projective::new: it never panics and yields the normalised representative *)
Theorem C07_ark_api_total : forall r0, exists p, ark_elligator r0 = Some p /\ validP p.
Proof. exact ark_elligator_total. Qed.
Theorem C07_ark_api_value : forall r0, ark_elligator r0 = Some (of_affine (to_affine (ark_elligator_raw r0))).
Proof. intro r0. exact (proj1 (ark_new_valid _ (V_ark_elligator_raw r0))). Qed.
(* two-input hash = group sum of the one-input map applied to each input: by definition of the op table entries
   "el.hash_to_curve" (Model/OpTable.v), which the correspondence check compares with the implementation *)
