(* Property C11 — field-element encodings and conversions are canonical and consistent (model level; the tie to
   both backends is the correspondence check over byte strings of every length 0..=200, flags, limbs, decimal strings). *)
Require Import ZArith List Bool Znumtheory Lia.
From D377 Require Import Base.Certs Model.CVal Model.Bytes Model.FieldTable Proofs.FieldLemmas Proofs.BytesLemmas.
Open Scope Z_scope.

(* reduction of byte strings of ANY length (either endianness) equals the integer modulo the prime; this uses the
   extracted constant FIELD_SIZE_POWER_OF_TWO, proved equal to 2^(8 N_8) mod m *)
Theorem C11_fq_from_le_bytes : forall l, from_le_bytes_mod_order q 32 (f_fsp2 cfg_fq) l = of_le_bytes l mod q.
Proof. exact fq_from_le_bytes_mod_order. Qed.
Theorem C11_fr_from_le_bytes : forall l, from_le_bytes_mod_order r 32 (f_fsp2 cfg_fr) l = of_le_bytes l mod r.
Proof. exact fr_from_le_bytes_mod_order. Qed.
Theorem C11_fp_from_le_bytes : forall l, from_le_bytes_mod_order p 48 (f_fsp2 cfg_fp) l = of_le_bytes l mod p.
Proof. exact fp_from_le_bytes_mod_order. Qed.
Theorem C11_fsp2 : f_fsp2 cfg_fq = 2 ^ 256 mod q /\ f_fsp2 cfg_fr = 2 ^ 256 mod r /\ f_fsp2 cfg_fp = 2 ^ 384 mod p.
Proof. exact (conj fsp2_fq (conj fsp2_fr fsp2_fp)). Qed.

Section AnyModulus.
  Variables (m : Z) (n8 : nat).
  Hypothesis m_gt1 : 1 < m.
  Hypothesis m_fits : m < 2 ^ (8 * Z.of_nat n8).
  (* checked parsing accepts exactly the integers below m *)
  Theorem C11_from_bytes_checked : forall l v, bytes_ok l = true -> length l = n8 ->
    (from_bytes_checked m n8 l = Some v <-> of_le_bytes l < m /\ v = of_le_bytes l).
  Proof. exact (from_bytes_checked_spec m m_gt1 n8 m_fits). Qed.
  (* serialisation emits the canonical little-endian form and parses back *)
  Theorem C11_to_bytes_round_trip : forall x, 0 <= x < m -> from_bytes_checked m n8 (to_bytes_le n8 x) = Some x.
  Proof. exact (from_bytes_checked_to_bytes m m_gt1 n8 m_fits). Qed.
  Theorem C11_to_bytes_value : forall x, 0 <= x < m -> of_le_bytes (to_bytes_le n8 x) = x /\ length (to_bytes_le n8 x) = n8.
  Proof.
    intros x Hx. split; [|apply le_bytes_length].
    unfold to_bytes_le. apply of_le_le_bytes. lia.
  Qed.
End AnyModulus.

(* big-integer (limb) conversions *)
Theorem C11_from_bigint : forall m l v, from_bigint m l = Some v <-> limbs64 l < m /\ v = limbs64 l.
Proof. exact from_bigint_spec. Qed.
Theorem C11_limbs_round_trip : forall n x, 0 <= x < 2 ^ (64 * Z.of_nat n) -> limbs64 (limbs_of n x) = x.
Proof. exact limbs64_limbs_of. Qed.
(* decimal strings *)
Theorem C11_from_str : forall m ds, 1 < m -> from_digits m ds = decimal_value ds mod m.
Proof. intros m ds H. exact (from_digits_spec m H ds). Qed.
(* serialisation with flag bits round-trips value and flags, for the standard flag types, in each field *)
Theorem C11_fq_flags : forall ty bits mask id x, In (ty, bits, mask, id) flag_combos -> 0 <= x < q ->
  deser_flags q 32 ty (ser_flags q 32 bits mask x) = 1 :: x :: id :: nil.
Proof. exact fq_deser_ser_flags. Qed.
Theorem C11_fr_flags : forall ty bits mask id x, In (ty, bits, mask, id) flag_combos -> 0 <= x < r ->
  deser_flags r 32 ty (ser_flags r 32 bits mask x) = 1 :: x :: id :: nil.
Proof. exact fr_deser_ser_flags. Qed.
Theorem C11_fp_flags : forall ty bits mask id x, In (ty, bits, mask, id) flag_combos -> 0 <= x < p ->
  deser_flags p 48 ty (ser_flags p 48 bits mask x) = 1 :: x :: id :: nil.
Proof. exact fp_deser_ser_flags. Qed.
(* the flag deserialiser returns a value below the modulus or one of three errors, nothing else *)
Theorem C11_deser_total : forall m n8 ty l,
  deser_flags m n8 ty l = 0 :: 3 :: nil \/ deser_flags m n8 ty l = 0 :: 4 :: nil \/ deser_flags m n8 ty l = 0 :: 1 :: nil \/
  exists v fl, deser_flags m n8 ty l = 1 :: v :: fl :: nil /\ v < m.
Proof. exact deser_flags_cases. Qed.
