(* Property C02 — decoding accepts exactly the canonical encodings of the specification (both builds).
   decodeSpec is the transcription of Decaf_1_1_Point.decodeSpec of ristretto.sage (Spec/DecafSpec.v). *)
Require Import ZArith List Bool.
From D377 Require Import Base.Certs Base.ZpField Base.FieldSec Base.Fields Model.Decaf Model.Bytes Model.Concrete Model.OpTable.
From D377 Require Import Spec.Edwards Spec.DecafSpec Proofs.Instance Proofs.Final Proofs.Reach Proofs.ByteLevel Proofs.BytesLemmas Props.C01.
Local Existing Instance FqF.
Open Scope Z_scope.

(* field level: the decoder accepts s iff the specification does, and returns the specified point *)
Theorem C02_ark_decode_iff_spec : forall s P,
  gen_ark_decode s = Some P <-> exists p, decodeSpec fq_a ark_D fq_neg s p /\ P = of_affine p.
Proof. intros s P. rewrite gen_ark_decode_eq. exact (F_decode_iff_spec ark_sr ark_sr_contract ark_sr_11 s P). Qed.
Theorem C02_min_decode_iff_spec : forall s P,
  gen_min_decode s = Some P <-> exists p, decodeSpec fq_a ark_D fq_neg s p /\ P = of_affine p.
Proof. intros s P. rewrite gen_min_decode_eq, min_decode_is. exact (F_decode_iff_spec min_sr min_sr_contract min_sr_11 s P). Qed.

(* hence the two builds give the same verdict and the same element *)
Theorem C02_builds_agree : forall s, gen_ark_decode s = gen_min_decode s.
Proof.
  intro s. destruct (gen_ark_decode s) as [P|] eqn:Ha.
  - symmetry. apply C02_min_decode_iff_spec. apply C02_ark_decode_iff_spec. exact Ha.
  - destruct (gen_min_decode s) as [P|] eqn:Hm; [|reflexivity].
    apply C02_min_decode_iff_spec, C02_ark_decode_iff_spec in Hm. rewrite Hm in Ha. discriminate.
Qed.

(* rejected classes *)
Theorem C02_rejects_negative : forall s, fq_neg s = true -> gen_ark_decode s = None /\ gen_min_decode s = None.
Proof.
  intros s H. rewrite gen_ark_decode_eq, gen_min_decode_eq, min_decode_is.
  split; [exact (F_decode_rejects_negative ark_sr s H)|exact (F_decode_rejects_negative min_sr s H)].
Qed.
Theorem C02_rejects_minus_one : gen_ark_decode (opp one) = None /\ gen_min_decode (opp one) = None.
Proof.
  rewrite gen_ark_decode_eq, gen_min_decode_eq, min_decode_is.
  split; [exact (F_decode_rejects_minus_one ark_sr ark_sr_contract)|exact (F_decode_rejects_minus_one min_sr min_sr_contract)].
Qed.

(* byte level *)
Theorem C02_ark_bytes_accept_iff : forall b P, bytes_ok b = true -> length b = 32%nat ->
  (decompress32_ark b = DOk P <-> of_le_bytes b < q /\ ark_decode (fq (of_le_bytes b)) = Some P).
Proof. intros b P Hb Hl. rewrite decompress32_ark_is. exact (bytes_accept_iff ark_decode b P Hb Hl). Qed.
Theorem C02_min_bytes_accept_iff : forall b P, bytes_ok b = true -> length b = 32%nat ->
  (decompress32_min b = DOk P <-> of_le_bytes b < q /\ min_decode (fq (of_le_bytes b)) = Some P).
Proof. exact (bytes_accept_iff min_decode). Qed.
Theorem C02_bytes_reject_not_below_modulus : forall b, q <= of_le_bytes b ->
  decompress32_ark b = DErrEncoding /\ decompress32_min b = DErrEncoding.
Proof. intros b H. rewrite decompress32_ark_is. split; [exact (bytes_reject_ge_q ark_decode b H)|exact (bytes_reject_ge_q min_decode b H)]. Qed.
Theorem C02_bytes_reject_high_bits : forall b, Z.shiftr (List.nth 31 b 0) 5 <> 0 ->
  decompress32_ark b = DErrEncoding /\ decompress32_min b = DErrEncoding.
Proof. intros b H. rewrite decompress32_ark_is. split; [exact (bytes_reject_high_bits ark_decode b H)|exact (bytes_reject_high_bits min_decode b H)]. Qed.
(* total: an element or an encoding error, never anything else (and the table-driven square root never panics) *)
Theorem C02_bytes_total : forall b,
  (decompress32_ark b = DErrEncoding \/ exists P, decompress32_ark b = DOk P) /\
  (decompress32_min b = DErrEncoding \/ exists P, decompress32_min b = DOk P).
Proof. intro b. rewrite decompress32_ark_is. split; [exact (bytes_total ark_decode b)|exact (bytes_total min_decode b)]. Qed.
Theorem C02_sqrt_never_panics : forall num den : Fq, exists r, ark_sr_opt num den = Some r.
Proof. exact ark_sr_total. Qed.
Theorem C02_constructor_never_panics : forall s, ark_decode_new s = Some (ark_decode s).
Proof. exact ark_decode_new_eq. Qed.

(* slices of any other length are length errors; stream deserialisation reads exactly 32 bytes *)
Theorem C02_slice_length : forall dec b, length b <> 32%nat -> decompress_slice q fq dec b = DErrLength.
Proof. intros dec b. exact (@decompress_slice_len q FqF fq dec b). Qed.
Theorem C02_slice_32 : forall dec b, length b = 32%nat -> decompress_slice q fq dec b = decompress32 q fq dec b.
Proof. intros dec b. exact (@decompress_slice_32 q FqF fq dec b). Qed.
Theorem C02_stream_short : forall dec b, (length b < 32)%nat -> deserialize_stream q fq dec b = DErrIo.
Proof. intros dec b. exact (@deserialize_stream_short q FqF fq dec b). Qed.
Theorem C02_stream_prefix : forall dec b, (32 <= length b)%nat -> deserialize_stream q fq dec b = decompress32 q fq dec (firstn 32 b).
Proof. intros dec b. exact (@deserialize_stream_prefix q FqF fq dec b). Qed.
