(* Reference models of the two square-root-of-ratio routines.
     src/min_curve/invsqrt.rs : pow_le_limbs, our_sqrt (constant-time Tonelli-Shanks), non_arkworks_sqrt_ratio_zeta
     src/ark_curve/invsqrt.rs : SquareRootTables::new, sqrt_ratio_zeta (Sarkar's table-driven algorithm)
   HashMap lookups are modelled as [option] (None = the Rust code would panic). *)
Require Import ZArith List Bool.
From D377 Require Import Base.FieldSec.
Import ListNotations.

Section Sqrt.
  Context {AF : AField}.
  Local Notation "0" := zero. Local Notation "1" := one.
  Local Infix "+" := add. Local Infix "*" := mul. Local Infix "-" := sub. Local Infix "/" := div.
  Local Notation "- x" := (opp x).

  (* ---------- min_curve ---------- *)
  Definition limb_bits (limb : Z) : list bool := map (fun i => Z.testbit limb (Z.of_nat i)) (seq 0 64).
  Definition limbs_bits (limbs : list Z) : list bool := flat_map limb_bits limbs.

  (* pow_le_limbs: acc = 1, insert = x; for each bit (LSB first): if bit { acc *= insert }; insert *= insert *)
  Definition pow_le_bits (x : F) (bits : list bool) : F :=
    fst (fold_left (fun (st : F * F) (b : bool) =>
                      let '(acc, insert) := st in
                      ((if b then acc * insert else acc), insert * insert)) bits (1, x)).
  Definition pow_le_limbs (x : F) (limbs : list Z) : F := pow_le_bits x (limbs_bits limbs).

  Fixpoint sq_n (n : nat) (b : F) : F := match n with O => b | S n' => sq_n n' (b * b) end.

  (* one iteration of the outer loop  for i in (2..=TWO_ADICITY).rev() *)
  Definition ts_step (st : F * F * F * F) (i : nat) : F * F * F * F :=
    let '(z, t, b, c) := st in
    let b := sq_n (i - 2) b in
    let ne := negb (feqb b 1) in
    let z := if ne then z * c else z in
    let c := c * c in
    let t := if ne then t * c else t in
    (z, t, t, c).

  Definition our_sqrt (trace_m1_d2 : list Z) (qnr_to_trace : F) (two_adicity : nat) (x : F) : F :=
    let z := pow_le_limbs x trace_m1_d2 in
    let t := z * z * x in
    let z := z * x in
    let b := t in
    let c := qnr_to_trace in
    let '(z, _, _, _) := fold_left ts_step (rev (seq 2 (two_adicity - 1))) (z, t, b, c) in
    z.

  Definition min_sqrt_ratio (trace_m1_d2 mod_m1_d2 : list Z) (qnr_to_trace zeta : F) (two_adicity : nat)
             (num den : F) : bool * F :=
    if feqb num 0 then (true, num) else
    if feqb den 0 then (false, den) else
    let x := num * inv den in
    let symbol := pow_le_limbs x mod_m1_d2 in
    if feqb symbol 1 then (true, our_sqrt trace_m1_d2 qnr_to_trace two_adicity x)
    else (false, our_sqrt trace_m1_d2 qnr_to_trace two_adicity (zeta * x)).

  (* ---------- ark_curve (Sarkar) ---------- *)
  Record tables := { s_keys : list F;       (* s_keys[nu] = (G^(nu * 2^(N-W)))^-1, nu = 0..255 *)
                     g0 : list F; g8 : list F; g16 : list F; g24 : list F; g32 : list F; g40 : list F;
                     nonsq : list F }.      (* [1; zeta^((1-M)/2)] *)

  (* table of x^0, x^1, ..., x^(n-1) *)
  Fixpoint powers (x acc : F) (n : nat) : list F :=
    match n with O => [] | S n' => acc :: powers x (acc * x) n' end.

  Definition mk_tables (G zeta_to_one_minus_m_div_two : F) (N W : Z) : tables :=
    let gt k := powers (fpow G (2 ^ k)) 1 256 in
    {| s_keys := map inv (powers (fpow G (2 ^ (N - W))) 1 256);
       g0 := gt 0%Z; g8 := gt 8%Z; g16 := gt 16%Z; g24 := gt 24%Z; g32 := gt 32%Z; g40 := gt 40%Z;
       nonsq := [1; zeta_to_one_minus_m_div_two] |}.

  Fixpoint find_index (x : F) (l : list F) (i : Z) : option Z :=
    match l with [] => None | k :: r => if feqb k x then Some i else find_index x r (i + 1)%Z end.
  Definition s_lookup (T : tables) (x : F) : option Z := find_index x (s_keys T) 0%Z.
  Definition tab (l : list F) (i : Z) : F := List.nth (Z.to_nat i) l zero.
  Definition byte (t : Z) (k : Z) : Z := Z.land (Z.shiftr t k) 255.

  Definition bind {A B} (o : option A) (f : A -> option B) : option B :=
    match o with Some a => f a | None => None end.

  Definition ark_sqrt_ratio (T : tables) (m_minus_one_div_two : Z) (N : Z) (num den : F) : option (bool * F) :=
    if feqb num 0 then Some (true, num) else
    if feqb den 0 then Some (false, den) else
    let s := fpow den (2 ^ N - 1) in
    let t := s * s * den in
    let w := fpow (num * t) m_minus_one_div_two * s in
    let v := w * den in
    let uv := w * num in
    let x5 := uv * v in
    let x4 := fpow x5 256 in
    let x3 := fpow x4 256 in
    let x2 := fpow x3 256 in
    let x1 := fpow x2 256 in
    let x0 := fpow x1 128 in
    bind (s_lookup T x0) (fun q0' =>
    let t := q0' in
    let alpha_1 := x1 * tab (g32 T) (byte t 0) in
    bind (s_lookup T alpha_1) (fun q1' =>
    let t := (t + Z.shiftl q1' 7)%Z in
    let alpha_2 := x2 * tab (g24 T) (byte t 0) * tab (g32 T) (byte t 8) in
    bind (s_lookup T alpha_2) (fun q2 =>
    let t := (t + Z.shiftl q2 15)%Z in
    let alpha_3 := x3 * tab (g16 T) (byte t 0) * tab (g24 T) (byte t 8) * tab (g32 T) (byte t 16) in
    bind (s_lookup T alpha_3) (fun q3 =>
    let t := (t + Z.shiftl q3 23)%Z in
    let alpha_4 := x4 * tab (g8 T) (byte t 0) * tab (g16 T) (byte t 8) * tab (g24 T) (byte t 16) * tab (g32 T) (byte t 24) in
    bind (s_lookup T alpha_4) (fun q4 =>
    let t := (t + Z.shiftl q4 31)%Z in
    let alpha_5 := x5 * tab (g0 T) (byte t 0) * tab (g8 T) (byte t 8) * tab (g16 T) (byte t 16) * tab (g24 T) (byte t 24) * tab (g32 T) (byte t 32) in
    bind (s_lookup T alpha_5) (fun q5 =>
    let t := (t + Z.shiftl q5 39)%Z in
    let t := Z.shiftr (t + 1) 1 in
    let res := uv * tab (nonsq T) (Z.land q0' 1) * tab (g0 T) (byte t 0) * tab (g8 T) (byte t 8) * tab (g16 T) (byte t 16)
               * tab (g24 T) (byte t 24) * tab (g32 T) (byte t 32) * tab (g40 T) (byte t 40) in
    Some (Z.eqb (Z.land q0' 1) 0, res))))))).
End Sqrt.
