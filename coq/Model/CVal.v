(* Structured constant values as extracted from the Rust sources by translator/consts.py *)
Require Import ZArith List String Bool.
Import ListNotations.
Open Scope Z_scope. Open Scope bool_scope.

Inductive cval :=
| CInt (z : Z)                      (* integer literal *)
| CDec (z : Z)                      (* MontFp!("decimal") *)
| CInts (l : list Z)                (* array of integer literals *)
| CMont (ty : string) (l : list Z)  (* T::from_montgomery_limbs([..]) *)
| CRef (path : string)              (* reference to another constant *)
| CStr (s : string)
| CBool (b : bool)
| CList (l : list cval)
| CNode (tag : string) (args : list cval)
| CExpr (raw : string).             (* outside the extractor's grammar *)

Definition limbs_val (w : Z) (l : list Z) : Z := fold_right (fun x acc => x + 2 ^ w * acc) 0 l.
Definition limbs64 := limbs_val 64.
Definition limbs32 := limbs_val 32.
Definition limbs_in_range (w : Z) (l : list Z) : bool := forallb (fun x => (0 <=? x) && (x <? 2 ^ w)) l.

(* [l] is the (canonical) Montgomery representation, with [n] limbs of [w] bits, of the integer [v] modulo [m] *)
Definition mont_repr (m w : Z) (n : nat) (l : list Z) (v : Z) : bool :=
  (Nat.eqb (List.length l) n) && limbs_in_range w l && (limbs_val w l =? (v * 2 ^ (w * Z.of_nat n)) mod m).

Definition get_mont (c : cval) : list Z := match c with CMont _ l => l | _ => [] end.
Definition get_ints (c : cval) : list Z := match c with CInts l => l | _ => [] end.
Definition get_int (c : cval) : Z := match c with CInt z => z | CDec z => z | _ => -1 end.
Definition is_mont (c : cval) : bool := match c with CMont _ _ => true | _ => false end.
Definition is_ints (c : cval) : bool := match c with CInts _ => true | _ => false end.
Definition is_int (c : cval) : bool := match c with CInt _ => true | CDec _ => true | _ => false end.
Definition is_ref (c : cval) (s : string) : bool := match c with CRef p => String.eqb p s | _ => false end.

(* limb-array constant equal to an integer *)
Definition ints_are (c : cval) (n : nat) (v : Z) : bool :=
  is_ints c && Nat.eqb (List.length (get_ints c)) n && limbs_in_range 64 (get_ints c) && (limbs64 (get_ints c) =? v).
Definition int_is (c : cval) (v : Z) : bool := is_int c && (get_int c =? v).
Definition mont_is (m : Z) (n : nat) (c : cval) (v : Z) : bool :=
  is_mont c && mont_repr m 64 n (get_mont c) v.

(* modular exponentiation on plain integers *)
Fixpoint powm_pos (a : Z) (e : positive) (m : Z) : Z :=
  match e with
  | xH => a mod m
  | xO e' => let y := powm_pos a e' m in (y * y) mod m
  | xI e' => let y := powm_pos a e' m in (a * ((y * y) mod m)) mod m
  end.
Definition powm (a e m : Z) : Z := match e with Z0 => 1 mod m | Zpos p => powm_pos a p m | Zneg _ => 0 end.

(* m - 1 = 2^s * t with t odd *)
Fixpoint two_adic_split (fuel : nat) (n s : Z) : Z * Z :=
  match fuel with
  | O => (s, n)
  | S f => if Z.even n then two_adic_split f (n / 2) (s + 1) else (s, n)
  end.
Definition two_adicity (m : Z) : Z := fst (two_adic_split 400 (m - 1) 0).
Definition trace (m : Z) : Z := snd (two_adic_split 400 (m - 1) 0).
Definition bit_size (m : Z) : Z := Z.log2 m + 1.

(* structural equality of extracted constants *)
Fixpoint cval_eqb (a b : cval) {struct a} : bool :=
  let fix list_eqb (l1 l2 : list cval) {struct l1} : bool :=
    match l1, l2 with
    | [], [] => true
    | x :: r1, y :: r2 => cval_eqb x y && list_eqb r1 r2
    | _, _ => false
    end in
  let zl_eqb (l1 l2 : list Z) := (Nat.eqb (List.length l1) (List.length l2)) && forallb (fun p => fst p =? snd p) (combine l1 l2) in
  match a, b with
  | CInt x, CInt y => x =? y
  | CDec x, CDec y => x =? y
  | CInts x, CInts y => zl_eqb x y
  | CMont s x, CMont t y => String.eqb s t && zl_eqb x y
  | CRef s, CRef t => String.eqb s t
  | CStr s, CStr t => String.eqb s t
  | CBool x, CBool y => Bool.eqb x y
  | CList x, CList y => list_eqb x y
  | CNode s x, CNode t y => String.eqb s t && list_eqb x y
  | CExpr s, CExpr t => String.eqb s t
  | _, _ => false
  end.

Definition mont_limbs_ok (m : Z) (n : nat) (c : cval) : bool :=
  is_mont c && Nat.eqb (List.length (get_mont c)) n && limbs_in_range 64 (get_mont c) && (limbs64 (get_mont c) <? m).
(* value denoted by a canonical Montgomery constant, given R^-1 mod m *)
Definition mont_val (m rinv : Z) (c : cval) : Z := (limbs64 (get_mont c) * rinv) mod m.
Definition rinv_ok (m : Z) (n : nat) (rinv : Z) : bool := ((rinv * 2 ^ (64 * Z.of_nat n)) mod m =? 1).

Definition is_qnr (m a : Z) : bool := powm a ((m - 1) / 2) m =? m - 1.
Definition is_qr (m a : Z) : bool := powm a ((m - 1) / 2) m =? 1.
(* a is the least quadratic non-residue >= 2 *)
Definition least_qnr (m a : Z) : bool :=
  is_qnr m a && forallb (fun k => is_qr m (Z.of_nat k + 2)) (seq 0 (Z.to_nat (a - 2))).
Definition factors_ok (n : Z) (fs : list (Z * Z)) : bool :=
  fold_right (fun f acc => fst f ^ snd f * acc) 1 fs =? n.
Definition prim_root (m g : Z) (fs : list (Z * Z)) : bool :=
  factors_ok (m - 1) fs && forallb (fun f => negb (powm g ((m - 1) / fst f) m =? 1)) fs.

Definition names_covered (all : list (string * cval)) (cov : list string) : list string :=
  map fst (filter (fun nc => negb (existsb (String.eqb (fst nc)) cov)) all).
