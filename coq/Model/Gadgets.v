(* Relational/executable model of the R1CS gadgets of src/ark_curve/r1cs/{fqvar_ext,inner,lazy}.rs (C13, C14).
   A gadget is modelled by (i) the boolean "the constraint system is satisfied" and (ii) the values of its
   output variables, both as functions of the input values and of the PROVER-SUPPLIED hints (the witnesses the
   gadget allocates with values computed out of circuit: the square-root witness y and its flag was_square, the
   coordinates and the encoding offered when an element is witnessed).  Every other variable of the circuit is
   determined by the constraints of the r1cs-std primitive that creates it (product, inverse, is_eq, select,
   bit decomposition with the in-field check, boolean and/or/not) — this determinism of the ark-r1cs-std 0.4
   primitives is the trusted part of the model, tied to the implementation by the correspondence check
   (hint substitution hook + random witness perturbation in the harness). *)
Require Import ZArith List Bool.
From D377 Require Import Base.FieldSec Model.Decaf.

Section Gadgets.
  Context {AF : AField}.
  Variables (cA cD zeta : F).
  Variable neg : F -> bool.              (* is_negative: lowest bit of the canonical bit decomposition *)
  Variable sr : F -> F -> bool * F.      (* the out-of-circuit sqrt_ratio_zeta used by an honest prover *)
  Local Notation "0" := zero. Local Notation "1" := one.
  Local Infix "+" := add. Local Infix "*" := mul. Local Infix "-" := sub.
  Local Notation "- x" := (opp x).

  (* FqVarExtension::isqrt on input x with hints (was_square, y): constraints satisfied? *)
  Definition isqrt_sat (x : F) (ws : bool) (y : F) : bool :=
    let yy := y * y in
    let den_is_zero := feqb x 0 in
    let den := if den_is_zero then 1 else x in
    let den_inv := inv den in
    let in_case_1 := ws in
    let c1 := implb in_case_1 (feqb yy den_inv) in
    let in_case_3 := negb ws && den_is_zero in
    let c3 := implb in_case_3 (feqb yy 0) in
    let in_case_4 := negb ws && negb den_is_zero in
    let c4 := implb in_case_4 (feqb yy (zeta * den_inv)) in
    let in_case := in_case_1 || in_case_3 || in_case_4 in
    c1 && c3 && c4 && in_case.
  Definition honest_hint (x : F) : bool * F := sr 1 x.

  Definition gabs (x : F) : F := if negb (neg x) then x else - x.   (* select(is_nonnegative, x, -x) *)

  (* ElementVar::decompress_from_field.  Returns (satisfied, x, y). *)
  Definition decode_g (s : F) (ws : bool) (v0 : F) : bool * F * F :=
    let nonneg := negb (neg s) in
    let ss := s * s in
    let u_1 := 1 - ss in
    let u_2 := u_1 * u_1 - (cD * fofZ 4) * ss in
    let den := u_2 * (u_1 * u_1) in
    let sat_isqrt := isqrt_sat den ws v0 in
    let two_s_u_1 := (1 + 1) * s * u_1 in
    let check := two_s_u_1 * v0 in
    let v := if neg check then - v0 else v0 in
    let x := two_s_u_1 * (v * v) * u_2 in
    let y := (1 + ss) * v * u_1 in
    (nonneg && sat_isqrt && ws, x, y).

  (* ElementVar::compress_to_field on affine (x, y).  Returns (satisfied, s). *)
  Definition encode_g (x y : F) (ws : bool) (v : F) : bool * F :=
    let T := x * y in
    let A_MINUS_D := cA - cD in
    let u_1 := (x + T) * (x - T) in
    let den := u_1 * A_MINUS_D * (x * x) in
    let sat := isqrt_sat den ws v in
    let u_2 := gabs (v * u_1) in
    let u_3 := u_2 * 1 - T in
    (sat, gabs (A_MINUS_D * v * u_3 * x)).

  (* ElementVar::elligator_map.  Returns (satisfied, x, y); the two field inversions need non-zero arguments. *)
  Definition elligator_g (r_0 : F) (iss : bool) (isri0 : F) : bool * F * F :=
    let r := zeta * (r_0 * r_0) in
    let den := (cD * r - (cD - cA)) * ((cD - cA) * r - cD) in
    let num := (r + 1) * (cA - (1 + 1) * cD) in
    let x := num * den in
    let sat_isqrt := isqrt_sat x iss isri0 in
    let sgn := if iss then 1 else - (1) in
    let twiddle := if iss then 1 else r_0 in
    let isri := isri0 * twiddle in
    let s := isri * num in
    let t := - sgn * isri * s * (r - 1) * ((cA - (1 + 1) * cD) * (cA - (1 + 1) * cD)) - 1 in
    let cond_negate := Bool.eqb (neg s) iss in
    let s := if cond_negate then - s else s in
    let x_den := 1 + cA * (s * s) in
    let ax := ((1 + 1) * s) * inv x_den in
    let ay := (1 - cA * (s * s)) * inv t in
    (sat_isqrt && negb (feqb x_den 0) && negb (feqb t 0), ax, ay).

  (* EqGadget::is_eq and the enforcing variants *)
  Definition is_eq_g (x1 y1 x2 y2 : F) : bool := feqb (x1 * y2) (x2 * y1).

  (* curve equation enforced by AffineVar::new_variable_omit_prime_order_check for witnesses/inputs *)
  Definition on_curve_g (x y : F) : bool :=
    feqb (cA * (x * x) + y * y) (1 + cD * (x * x) * (y * y)).

  (* AllocVar<Element>::new_variable, mode Witness: the prover offers coordinates (px,py), an encoding s' and the
     isqrt hints of the in-circuit decode.  Returns (satisfied, x, y) of the RETURNED (decoded) variable. *)
  Definition new_witness_g (px py s' : F) (ws : bool) (v0 : F) : bool * F * F :=
    let '(sat_d, x, y) := decode_g s' ws v0 in
    (on_curve_g px py && sat_d && is_eq_g x y px py, x, y).

  (* honest synthesis *)
  Definition decode_honest (s : F) : bool * F * F :=
    let ss := s * s in let u_1 := 1 - ss in let u_2 := u_1 * u_1 - (cD * fofZ 4) * ss in
    let '(ws, v) := honest_hint (u_2 * (u_1 * u_1)) in decode_g s ws v.
  Definition encode_honest (x y : F) : bool * F :=
    let T := x * y in let u_1 := (x + T) * (x - T) in
    let '(ws, v) := honest_hint (u_1 * (cA - cD) * (x * x)) in encode_g x y ws v.
  Definition elligator_honest (r_0 : F) : bool * F * F :=
    let r := zeta * (r_0 * r_0) in
    let den := (cD * r - (cD - cA)) * ((cD - cA) * r - cD) in
    let num := (r + 1) * (cA - (1 + 1) * cD) in
    let '(iss, isri) := honest_hint (num * den) in elligator_g r_0 iss isri.

  (* ---- the lazily evaluated variable of r1cs/lazy.rs as a state machine ---- *)
  Inductive lazy_state := LEnc | LElt | LBoth.
  Inductive lazy_op := ForceElement | ForceEncoding.
  (* constraint-emitting events, in order: *)
  Inductive lazy_event := EvDecode | EvEncode.
  Definition lazy_step (st : lazy_state) (o : lazy_op) : lazy_state * list lazy_event :=
    match st, o with
    | LEnc, ForceElement => (LBoth, EvDecode :: nil)
    | LEnc, ForceEncoding => (LEnc, nil)
    | LElt, ForceElement => (LElt, nil)
    | LElt, ForceEncoding => (LBoth, EvEncode :: nil)
    | LBoth, _ => (LBoth, nil)
    end.
  Definition lazy_run (st : lazy_state) (ops : list lazy_op) : lazy_state * list lazy_event :=
    fold_left (fun (acc : lazy_state * list lazy_event) o =>
                 let '(s, evs) := acc in let '(s', e) := lazy_step s o in (s', evs ++ e)) ops (st, nil).
End Gadgets.
