(* The models instantiated at the concrete field Fq with the constants extracted from the source. *)
Require Import ZArith List Bool String.
From D377 Require Import Base.Certs Base.ZpField Base.FieldSec Base.Fields Model.CVal Generated.Consts Model.Decaf Model.Sqrt.
Import ListNotations.
Open Scope Z_scope.

Definition q_Rinv : Z := Eval vm_compute in powm (2 ^ 256 mod q) (q - 2) q.
Definition fq_of_mont (c : cval) : Fq := fq (mont_val q q_Rinv c).
Definition dec_of (c : cval) : Z := match c with CDec z => z | CNode _ [CDec z] => z | CInt z => z | _ => 0 end.

Local Existing Instance FqF.

(* constants, ark build *)
Definition ark_A : Fq := fq_of_mont c_ark_curve_edwards_rs__TECurveConfig_for_Decaf377EdwardsConfig__COEFF_A.
Definition ark_D : Fq := fq_of_mont c_ark_curve_edwards_rs__TECurveConfig_for_Decaf377EdwardsConfig__COEFF_D.
Definition ark_ZETA : Fq := fq_of_mont c_ark_curve_constants_rs__top__ZETA.
Definition ark_N : Z := dec_of c_ark_curve_constants_rs__top__N.
Definition ark_W : Z := dec_of c_ark_curve_constants_rs__top__SQRT_W.
Definition ark_M : Z := dec_of c_ark_curve_constants_rs__top__M.
Definition ark_M_MINUS_ONE_DIV_TWO : Z := dec_of c_ark_curve_constants_rs__top__M_MINUS_ONE_DIV_TWO.
Definition ark_ZETA_TO_ONE_MINUS_M_DIV_TWO : Fq := fq (dec_of c_ark_curve_constants_rs__top__ZETA_TO_ONE_MINUS_M_DIV_TWO).
Definition ark_G : Fq := fpow ark_ZETA ark_M.
Definition ark_tables : tables := mk_tables ark_G ark_ZETA_TO_ONE_MINUS_M_DIV_TWO ark_N ark_W.
Definition ark_GEN : pt := mkpt (fq_of_mont c_ark_curve_constants_rs__top__B_X) (fq_of_mont c_ark_curve_constants_rs__top__B_Y)
                                (one) (fq_of_mont c_ark_curve_constants_rs__top__B_T).

(* constants, minimal build *)
Definition min_A : Fq := fq_of_mont c_min_curve_constants_rs__top__COEFF_A.
Definition min_D : Fq := fq_of_mont c_min_curve_constants_rs__top__COEFF_D.
Definition min_K : Fq := fq_of_mont c_min_curve_constants_rs__top__COEFF_K.
Definition min_ZETA : Fq := fq_of_mont c_min_curve_constants_rs__top__ZETA.
Definition fq_TRACE_M1_D2 : list Z := get_ints c_fields_fq_rs__Fq__TRACE_MINUS_ONE_DIV_TWO_LIMBS.
Definition fq_MOD_M1_D2 : list Z := get_ints c_fields_fq_rs__Fq__MODULUS_MINUS_ONE_DIV_TWO_LIMBS.
Definition fq_QNR_TO_TRACE : Fq := fq_of_mont c_fields_fq_rs__Fq__QUADRATIC_NON_RESIDUE_TO_TRACE.
Definition fq_TWO_ADICITY : nat := Z.to_nat (dec_of c_fields_fq_rs__Fq__TWO_ADICITY).

(* Sign::is_negative for Fq: low bit of the canonical integer *)
Definition fq_neg (x : Fq) : bool := Z.odd (val x).

(* square roots *)
Definition ark_sr_opt (num den : Fq) : option (bool * Fq) :=
  ark_sqrt_ratio ark_tables ark_M_MINUS_ONE_DIV_TWO ark_N num den.
Definition ark_sr (num den : Fq) : bool * Fq :=
  match ark_sr_opt num den with Some r => r | None => (false, zero) end.
Definition min_sr (num den : Fq) : bool * Fq :=
  min_sqrt_ratio fq_TRACE_M1_D2 fq_MOD_M1_D2 fq_QNR_TO_TRACE min_ZETA fq_TWO_ADICITY num den.

(* curve functions *)
Definition ark_decode := decode ark_D fq_neg ark_sr.
Definition ark_encode := encode ark_A ark_D fq_neg ark_sr.
Definition ark_elligator_raw := elligator ark_A ark_D ark_ZETA fq_neg ark_sr.
Definition min_decode := decode min_D fq_neg min_sr.
Definition min_encode := encode min_A min_D fq_neg min_sr.
Definition min_elligator := elligator min_A min_D min_ZETA fq_neg min_sr.

(* ---- integer-level interface used by the correspondence driver (extracted) ---- *)
Definition pt_of (x y z t : Z) : pt := mkpt (fq x) (fq y) (fq z) (fq t).
Definition pt_out (p : pt) : list Z := [val (pX p); val (pY p); val (pZ p); val (pT p)].
Definition opt_pt_out (o : option pt) : list Z := match o with Some p => 1 :: pt_out p | None => (0 :: nil) end.
Definition b2z (b : bool) : Z := if b then 1 else 0.

Definition arg1 (f : Z -> list Z) (l : list Z) : list Z := match l with cons a nil => f a | _ => cons (-1) nil end.
Definition arg2 (f : Z -> Z -> list Z) (l : list Z) : list Z := match l with cons a (cons b nil) => f a b | _ => cons (-1) nil end.
Definition arg4 (f : pt -> list Z) (l : list Z) : list Z :=
  match l with cons x (cons y (cons z (cons t nil))) => f (pt_of x y z t) | _ => cons (-1) nil end.
Definition arg8 (f : pt -> pt -> list Z) (l : list Z) : list Z :=
  match l with cons x (cons y (cons z (cons t (cons x' (cons y' (cons z' (cons t' nil))))))) => f (pt_of x y z t) (pt_of x' y' z' t')
  | _ => cons (-1) nil end.

Definition ops : list (string * (list Z -> list Z)) :=
  [ ("ark.decode"%string, arg1 (fun s => opt_pt_out (ark_decode (fq s))));
    ("min.decode"%string, arg1 (fun s => opt_pt_out (min_decode (fq s))));
    ("ark.encode"%string, arg4 (fun p => (val (ark_encode p) :: nil)));
    ("min.encode"%string, arg4 (fun p => (val (min_encode p) :: nil)));
    ("ark.elligator_raw"%string, arg1 (fun r => pt_out (ark_elligator_raw (fq r))));
    ("min.elligator"%string, arg1 (fun r => pt_out (min_elligator (fq r))));
    ("ark.sr"%string, arg2 (fun n d => match ark_sr_opt (fq n) (fq d) with Some (b, y) => [1; b2z b; val y] | None => (0 :: nil) end));
    ("min.sr"%string, arg2 (fun n d => let '(b, y) := min_sr (fq n) (fq d) in [1; b2z b; val y]));
    ("ark.add"%string, arg8 (fun p p' => pt_out (ark_add ark_D p p')));
    ("ark.double"%string, arg4 (fun p => pt_out (ark_double p)));
    ("min.add"%string, arg8 (fun p p' => pt_out (min_add min_K p p')));
    ("min.double"%string, arg4 (fun p => pt_out (min_double p)));
    ("neg"%string, arg4 (fun p => pt_out (pneg p)));
    ("eq"%string, arg8 (fun p p' => (b2z (eqE p p') :: nil))) ].

Definition run_op (op : string) (args : list Z) : list Z :=
  match find (fun e => String.eqb (fst e) op) ops with
  | Some e => snd e args
  | None => ((-1) :: nil)
  end.
