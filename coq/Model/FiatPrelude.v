(* Machine-integer semantics used by the translation of the fiat-crypto code (translator/rs2v_fiat.py):
   Rust integer types as (signedness, width); `wrap` is the release-build (two's complement) result of an arithmetic
   operation computed in that type; `cast` is `as`.  Both are the same function on Z: reduce mod 2^n, then
   re-centre for signed types. *)
Require Import ZArith.
Open Scope Z_scope.

Inductive ity := U8 | I8 | U16 | I16 | U32 | I32 | U64 | I64 | U128 | I128.
Definition bits (t : ity) : Z :=
  match t with U8 | I8 => 8 | U16 | I16 => 16 | U32 | I32 => 32 | U64 | I64 => 64 | U128 | I128 => 128 end.
Definition signed (t : ity) : bool :=
  match t with I8 | I16 | I32 | I64 | I128 => true | _ => false end.
Definition wrap (t : ity) (x : Z) : Z :=
  if signed t then (x + 2 ^ (bits t - 1)) mod 2 ^ bits t - 2 ^ (bits t - 1) else x mod 2 ^ bits t.
Definition cast (t : ity) (x : Z) : Z := wrap t x.
Definition in_ty (t : ity) (x : Z) : Prop :=
  if signed t then - 2 ^ (bits t - 1) <= x < 2 ^ (bits t - 1) else 0 <= x < 2 ^ bits t.
