(* Operator/constructor tables of the two builds: one entry per harness op (harness/PROTOCOL.md), giving the
   model's semantics of that API entry point over the integer-level wire format of the correspondence driver.
   Hand-written model of Rust trait dispatch and of the arkworks generic code the crate delegates to
   (ark-ec 0.4.2 twisted_edwards::{Projective, Affine}); the arithmetic it bottoms out in is Model/Decaf.v. *)
Require Import ZArith List Bool String Ascii.
From D377 Require Import Base.Certs Base.ZpField Base.FieldSec Base.Fields Model.CVal Generated.Consts
                         Model.Decaf Model.Sqrt Model.Bytes Model.Concrete.
From D377 Require Model.FieldTable.
Import ListNotations.
Open Scope Z_scope.
Local Existing Instance FqF.

(* ------------------------------------------------------------------ scalar multiplication *)
(* big-endian bits of a little-endian u64 limb list, leading zeros dropped (ark_ff::BitIteratorBE::without_leading_zeros) *)
Fixpoint drop_false (l : list bool) : list bool :=
  match l with false :: r => drop_false r | _ => l end.
Definition bits_be_nlz (limbs : list Z) : list bool := drop_false (rev (limbs_bits limbs)).

(* ark-ec TECurveConfig::mul_projective: res = 0; for b in bits { res.double_in_place(); if b { res += base } } *)
Definition ark_mul_bigint (p : pt) (limbs : list Z) : pt :=
  fold_left (fun res (b : bool) => let res := ark_double res in if b then ark_add ark_D res p else res)
            (bits_be_nlz limbs) identity.
Definition ark_mul_affine (p : apt) (limbs : list Z) : pt :=
  fold_left (fun res (b : bool) => let res := ark_double res in if b then ark_madd ark_D res p else res)
            (bits_be_nlz limbs) identity.
(* min_curve scalar_mul_both (LSB first, conditional add, double the running base) *)
Definition min_scalar_mul (p : pt) (limbs : list Z) : pt :=
  fst (fold_left (fun (st : pt * pt) (b : bool) =>
                    let '(acc, ins) := st in ((if b then min_add min_K acc ins else acc), min_double ins))
                 (limbs_bits limbs) (identity, p)).
(* Fr -> its four canonical little-endian limbs (into_bigint / to_le_limbs) *)
Definition fr_limbs (k : Z) : list Z := map (fun i => ((k mod r) / 2 ^ (64 * Z.of_nat i)) mod 2 ^ 64) (seq 0 4).
Definition ark_smul (p : pt) (k : Z) : pt := ark_mul_bigint p (fr_limbs k).
Definition min_smul (p : pt) (k : Z) : pt := min_scalar_mul p (fr_limbs k).

(* ------------------------------------------------------------------ ark conversions and Projective::new *)
Definition aff_on_curve (p : apt) : bool :=
  feqb (add (mul ark_A (mul (aX p) (aX p))) (mul (aY p) (aY p)))
       (add one (mul (mul ark_D (mul (aX p) (aX p))) (mul (aY p) (aY p)))).
(* Projective::new(x,y,t,z): into_affine, assert on curve, back to projective.  None = the assert fires / 1/0 *)
Definition ark_new (p : pt) : option pt :=
  if feqb (pZ p) zero && negb (ark_is_zero p) then None else
  let a := to_affine p in if aff_on_curve a then Some (of_affine a) else None.
Definition ark_elligator (r0 : Fq) : option pt := ark_new (ark_elligator_raw r0).
Definition ark_decode_new (s : Fq) : option (option pt) :=   (* outer None = panic *)
  match ark_decode s with None => Some None | Some p => match ark_new p with Some p' => Some (Some p') | None => None end end.

(* ------------------------------------------------------------------ wire format *)
Inductive value := VE (p : pt) | VA (p : apt) | VF (x : Z) | VL (l : list Z) | VLE (l : list pt) | VLA (l : list apt) | VLF (l : list Z).

Definition take_pt (l : list Z) : option (pt * list Z) :=
  match l with x :: y :: z :: t :: r => Some (pt_of x y z t, r) | _ => None end.
Definition take_apt (l : list Z) : option (apt * list Z) :=
  match l with x :: y :: r => Some (mkapt (fq x) (fq y), r) | _ => None end.
Fixpoint take_n {A} (f : list Z -> option (A * list Z)) (n : nat) (l : list Z) : option (list A * list Z) :=
  match n with
  | O => Some (nil, l)
  | S n' => match f l with
            | Some (a, r) => match take_n f n' r with Some (as_, r') => Some (a :: as_, r') | None => None end
            | None => None end
  end.
Definition take_z (l : list Z) : option (Z * list Z) := match l with x :: r => Some (x, r) | _ => None end.

(* kinds: "E" element, "A" affine, "F" integer (field element / scalar / bool), "L" length-prefixed integer list
   (limbs or bytes), "X" length-prefixed list of elements, "Y" length-prefixed list of affine points *)
Fixpoint parse (kinds : list ascii) (l : list Z) : option (list value) :=
  match kinds with
  | nil => match l with nil => Some nil | _ => None end
  | k :: ks =>
    let cont {A} (mk : A -> value) (o : option (A * list Z)) :=
      match o with Some (a, r) => match parse ks r with Some vs => Some (mk a :: vs) | None => None end | None => None end in
    if Ascii.eqb k "E"%char then cont VE (take_pt l)
    else if Ascii.eqb k "A"%char then cont VA (take_apt l)
    else if Ascii.eqb k "F"%char then cont VF (take_z l)
    else if Ascii.eqb k "L"%char then
      match l with n :: r => cont VL (take_n take_z (Z.to_nat n) r) | _ => None end
    else if Ascii.eqb k "X"%char then
      match l with n :: r => cont VLE (take_n take_pt (Z.to_nat n) r) | _ => None end
    else if Ascii.eqb k "Y"%char then
      match l with n :: r => cont VLA (take_n take_apt (Z.to_nat n) r) | _ => None end
    else None
  end.

Definition out_pt (p : pt) : list Z := pt_out p.
Definition out_apt (p : apt) : list Z := val (aX p) :: val (aY p) :: nil.
Definition out_opt_pt (o : option pt) : list Z := match o with Some p => 1 :: out_pt p | None => 0 :: nil end.
Definition out_bool (b : bool) : list Z := b2z b :: nil.
Definition out_dec (d : dec_result) : list Z :=
  match d with DOk p => 1 :: out_pt p | DErrEncoding => 0 :: 1 :: nil | DErrLength => 0 :: 2 :: nil | DErrIo => 0 :: 3 :: nil end.
Definition panic : list Z := (-7) :: nil.
Definition bad : list Z := (-1) :: nil.

(* ------------------------------------------------------------------ ark build *)
Definition oa (p : apt) : pt := of_affine p.
Definition ark_sum_E (l : list pt) : pt := fold_left (ark_add ark_D) l identity.
Definition ark_sum_A (l : list apt) : pt := fold_left (fun acc a => ark_add ark_D acc (oa a)) l identity.
Definition ark_msm_vartime (ks : list Z) (ps : list pt) : pt :=
  fold_left (fun acc (kp : Z * pt) => ark_add ark_D acc (ark_smul (snd kp) (fst kp))) (combine ks ps) identity.
(* affine +/- affine inside ark-ec: into_group then mixed addition, then back to affine *)
Definition af_add (p q : apt) : apt := to_affine (ark_madd ark_D (oa p) q).
Definition af_sub (p q : apt) : apt := to_affine (ark_madd ark_D (oa p) (aneg q)).
Definition af_smul (p : apt) (k : Z) : apt := to_affine (ark_smul (oa p) k).

Definition compress_ark (p : pt) : list Z := compress val ark_encode p.
Definition decompress32_ark := decompress32 q fq (fun s => match ark_decode_new s with Some o => o | None => None end).
Definition hash_bytes (p : pt) : list Z := let a := to_affine p in le_bytes 32 (val (aX a)) ++ le_bytes 32 (val (aY a)).


(* ---- C08: hashing and identity tests (after the fix: commits fc6f547, 67aadb7) ---- *)
Definition le64 (n : Z) : list Z := le_bytes 8 n.
(* Hash for [u8; 32]: length prefix (usize) then the bytes; the recording hasher of the harness logs usize as 8 LE bytes *)
Definition hash_enc (p : pt) : list Z := le64 32 ++ compress_ark p.
Definition af_is_zero (a : apt) : bool := feqb (aX a) zero.

(* ---- C06: constructors ---- *)
(* Affine::get_xs_from_y_unchecked: the smaller root x of x^2 = (1 - y^2)/(a - d y^2) *)
Definition te_x_from_y (y : Fq) : option Fq :=
  let y2 := mul y y in
  let den := sub ark_A (mul y2 ark_D) in
  if feqb den zero then None else
  let x2 := mul (inv den) (sub one y2) in
  if feqb x2 zero then Some zero else
  let '(b, x) := min_sr x2 one in
  if b then Some (if val x <=? val (opp x) then x else opp x) else None.
Definition fq_mod_order (l : list Z) : Fq :=
  fq (FieldTable.from_le_bytes_mod_order q 32 (FieldTable.f_fsp2 FieldTable.cfg_fq) l).
(* AffinePoint::from_random_bytes after the fix (commit be00c53): recover a curve point, then double it *)
Definition af_from_random_bytes (l : list Z) : option apt :=
  let y := fq_mod_order l in
  match te_x_from_y y with
  | Some x => Some (to_affine (ark_double (of_affine (mkapt x y))))
  | None => None
  end.

(* byte-replay RNG of the harness: the given bytes, then a xorshift64 stream seeded with the length *)
Definition mask64 (x : Z) : Z := x mod 2 ^ 64.
Definition xs_next (x : Z) : Z :=
  let x := Z.lxor x (mask64 (Z.shiftl x 13)) in
  let x := Z.lxor x (Z.shiftr x 7) in
  Z.lxor x (mask64 (Z.shiftl x 17)).
Fixpoint xs_bytes (n : nat) (x : Z) : list Z :=
  match n with O => nil | S n' => let x' := xs_next x in (x' mod 256) :: xs_bytes n' x' end.
Definition rng_stream (given : list Z) (n : nat) : list Z :=
  given ++ xs_bytes n (Z.lxor 11400714819323198485 (Z.of_nat (length given))).
(* Distribution<Element> for Standard: rejection loop over EdwardsProjective::rand -> serialize -> decaf decode *)
Fixpoint el_rand_loop (fuel : nat) (s : list Z) : option pt :=
  match fuel with
  | O => None
  | S f =>
    let limbs := firstn 32 s in let s1 := skipn 32 s in
    let v := of_le_bytes (firstn 31 limbs ++ (Z.land (List.nth 31 limbs 0) 31 :: nil)) in
    if q <=? v then el_rand_loop f s1 else      (* Fq::rand rejection *)
    let y := fq v in
    let greatest := Z.testbit (of_le_bytes (firstn 4 s1)) 31 in
    let s2 := skipn 4 s1 in
    match te_x_from_y y with
    | None => el_rand_loop f s2
    | Some x =>
      (* serialize_compressed of the curve point: y with the sign-of-x flag in the top bit; then decaf decoding *)
      let xx := if greatest then opp x else x in
      let flag := negb (val xx <=? val (opp xx)) in
      if flag then el_rand_loop f s2 else
      match decompress32_ark (le_bytes 32 (val y)) with
      | DOk p => Some p
      | _ => el_rand_loop f s2
      end
    end
  end.
Definition el_rand (given : list Z) : option pt := el_rand_loop 700 (rng_stream given 30000).

Definition bin (f : pt -> pt -> list Z) (vs : list value) : list Z := match vs with [VE p; VE p'] => f p p' | _ => bad end.
Definition binEA (f : pt -> apt -> list Z) (vs : list value) : list Z := match vs with [VE p; VA p'] => f p p' | _ => bad end.
Definition binAE (f : apt -> pt -> list Z) (vs : list value) : list Z := match vs with [VA p; VE p'] => f p p' | _ => bad end.
Definition binAA (f : apt -> apt -> list Z) (vs : list value) : list Z := match vs with [VA p; VA p'] => f p p' | _ => bad end.
Definition un (f : pt -> list Z) (vs : list value) : list Z := match vs with VE p :: nil => f p | _ => bad end.
Definition unA (f : apt -> list Z) (vs : list value) : list Z := match vs with VA p :: nil => f p | _ => bad end.
Definition unF (f : Z -> list Z) (vs : list value) : list Z := match vs with VF x :: nil => f x | _ => bad end.
Definition unL (f : list Z -> list Z) (vs : list value) : list Z := match vs with VL x :: nil => f x | _ => bad end.
Definition nul (r : list Z) (vs : list value) : list Z := match vs with nil => r | _ => bad end.
Definition EF (f : pt -> Z -> list Z) (vs : list value) : list Z := match vs with [VE p; VF k] => f p k | _ => bad end.
Definition AFk (f : apt -> Z -> list Z) (vs : list value) : list Z := match vs with [VA p; VF k] => f p k | _ => bad end.
Definition EL (f : pt -> list Z -> list Z) (vs : list value) : list Z := match vs with [VE p; VL k] => f p k | _ => bad end.
Definition AL (f : apt -> list Z -> list Z) (vs : list value) : list Z := match vs with [VA p; VL k] => f p k | _ => bad end.

Definition addE p p' := out_pt (ark_add ark_D p p').
Definition subE p p' := out_pt (ark_sub ark_D p p').

Definition entry := (string * (string * (list value -> list Z)))%type.

Definition ark_ops : list entry :=
  [ ("el.const.GENERATOR", ("", nul (out_pt ark_GEN))); ("el.const.generator", ("", nul (out_pt ark_GEN)));
    ("el.const.IDENTITY", ("", nul (out_pt identity))); ("el.const.default", ("", nul (out_pt identity)));
    ("el.const.zero", ("", nul (out_pt identity)));
    ("af.const.zero", ("", nul (out_apt (mkapt zero one)))); ("af.const.default", ("", nul (out_apt (mkapt zero one))));
    ("af.const.generator", ("", nul (out_apt (to_affine ark_GEN))));
    (* additions, every impl of ops/projective.rs and ops/affine.rs *)
    ("el.add.ee", ("EE", bin addE)); ("el.add.Ee", ("EE", bin addE)); ("el.add.eE", ("EE", bin addE)); ("el.add.EE", ("EE", bin addE));
    ("el.add_assign.e", ("EE", bin addE)); ("el.add_assign.E", ("EE", bin addE));
    ("el.sub.ee", ("EE", bin subE)); ("el.sub.Ee", ("EE", bin subE)); ("el.sub.eE", ("EE", bin subE)); ("el.sub.EE", ("EE", bin subE));
    ("el.sub_assign.e", ("EE", bin subE)); ("el.sub_assign.E", ("EE", bin subE));
    ("el.add.Ea", ("EA", binEA (fun p a => addE p (oa a)))); ("el.add.EA", ("EA", binEA (fun p a => addE p (oa a))));
    ("el.add_assign.Ea", ("EA", binEA (fun p a => addE p (oa a)))); ("el.add_assign.EA", ("EA", binEA (fun p a => addE p (oa a))));
    ("el.sub.Ea", ("EA", binEA (fun p a => subE p (oa a)))); ("el.sub.EA", ("EA", binEA (fun p a => subE p (oa a))));
    ("el.sub_assign.Ea", ("EA", binEA (fun p a => subE p (oa a)))); ("el.sub_assign.EA", ("EA", binEA (fun p a => subE p (oa a))));
    ("el.add.AA", ("AA", binAA (fun a b => addE (oa a) (oa b))));
    ("el.add.AE", ("AE", binAE (fun a p => addE (oa a) p))); ("el.add.Ae", ("AE", binAE (fun a p => addE (oa a) p)));
    ("af.add.aa", ("AA", binAA (fun a b => out_apt (af_add a b)))); ("af.add.aA", ("AA", binAA (fun a b => out_apt (af_add a b))));
    ("af.add.Aa", ("AA", binAA (fun a b => out_pt (oa (af_add a b)))));
    ("af.add_assign.Aa", ("AA", binAA (fun a b => out_apt (af_add a b)))); ("af.add_assign.AA", ("AA", binAA (fun a b => out_apt (af_add a b))));
    ("af.sub.aa", ("AA", binAA (fun a b => out_apt (af_sub a b)))); ("af.sub.Aa", ("AA", binAA (fun a b => out_apt (af_sub a b))));
    ("af.sub.aA", ("AA", binAA (fun a b => out_apt (af_sub a b)))); ("af.sub.AA", ("AA", binAA (fun a b => out_apt (af_sub a b))));
    ("af.sub_assign.Aa", ("AA", binAA (fun a b => out_apt (af_sub a b)))); ("af.sub_assign.AA", ("AA", binAA (fun a b => out_apt (af_sub a b))));
    ("el.neg", ("E", un (fun p => out_pt (pneg p)))); ("el.negate", ("E", un (fun p => out_pt (pneg p))));
    ("af.neg", ("A", unA (fun a => out_apt (aneg a))));
    ("el.double", ("E", un (fun p => out_pt (ark_double p)))); ("el.double_in_place", ("E", un (fun p => out_pt (ark_double p))));
    (* sums *)
    ("el.sum.E", ("X", fun vs => match vs with VLE l :: nil => out_pt (ark_sum_E l) | _ => bad end));
    ("el.sum.e", ("X", fun vs => match vs with VLE l :: nil => out_pt (ark_sum_E l) | _ => bad end));
    ("el.sum.A", ("Y", fun vs => match vs with VLA l :: nil => out_pt (ark_sum_A l) | _ => bad end));
    ("el.sum.a", ("Y", fun vs => match vs with VLA l :: nil => out_pt (ark_sum_A l) | _ => bad end));
    (* the same sums driven by an iterator that reports no lower size bound (filter / from_fn): the result may not depend on the iterator's hints *)
    ("el.sum.E.lazy", ("X", fun vs => match vs with VLE l :: nil => out_pt (ark_sum_E l) | _ => bad end));
    ("el.sum.e.lazy", ("X", fun vs => match vs with VLE l :: nil => out_pt (ark_sum_E l) | _ => bad end));
    ("el.sum.A.lazy", ("Y", fun vs => match vs with VLA l :: nil => out_pt (ark_sum_A l) | _ => bad end));
    ("el.sum.a.lazy", ("Y", fun vs => match vs with VLA l :: nil => out_pt (ark_sum_A l) | _ => bad end));
    (* scalar multiplication *)
    ("el.smul.Ef", ("EF", EF (fun p k => out_pt (ark_smul p k)))); ("el.smul.Er", ("EF", EF (fun p k => out_pt (ark_smul p k))));
    ("el.smul.ef", ("EF", EF (fun p k => out_pt (ark_smul p k)))); ("el.smul.er", ("EF", EF (fun p k => out_pt (ark_smul p k))));
    ("el.smul.fE", ("EF", EF (fun p k => out_pt (ark_smul p k)))); ("el.smul.fe", ("EF", EF (fun p k => out_pt (ark_smul p k))));
    ("el.smul.rE", ("EF", EF (fun p k => out_pt (ark_smul p k)))); ("el.smul.re", ("EF", EF (fun p k => out_pt (ark_smul p k))));
    ("el.smul.assign_f", ("EF", EF (fun p k => out_pt (ark_smul p k)))); ("el.smul.assign_r", ("EF", EF (fun p k => out_pt (ark_smul p k))));
    ("af.smul.ar", ("AF", AFk (fun a k => out_apt (af_smul a k)))); ("af.smul.ra", ("AF", AFk (fun a k => out_apt (af_smul a k))));
    ("af.smul.af", ("AF", AFk (fun a k => out_apt (af_smul a k)))); ("af.smul.fa", ("AF", AFk (fun a k => out_apt (af_smul a k))));
    ("af.smul.rA", ("AF", AFk (fun a k => out_apt (af_smul a k)))); ("af.smul.fA", ("AF", AFk (fun a k => out_apt (af_smul a k))));
    ("af.smul.assign_r", ("AF", AFk (fun a k => out_apt (af_smul a k)))); ("af.smul.assign_f", ("AF", AFk (fun a k => out_apt (af_smul a k))));
    ("af.smul.Ar", ("AF", AFk (fun a k => out_pt (oa (af_smul a k))))); ("af.smul.Af", ("AF", AFk (fun a k => out_pt (oa (af_smul a k)))));
    ("el.mul_bigint", ("EL", EL (fun p l => out_pt (ark_mul_bigint p l))));
    ("af.mul_bigint", ("AL", AL (fun a l => out_pt (ark_mul_affine a l))));
    ("el.msm_vartime", ("LX", fun vs => match vs with [VL ks; VLE ps] => out_pt (ark_msm_vartime ks ps) | _ => bad end));
    (* conversions *)
    ("el.to_affine", ("E", un (fun p => out_apt (to_affine p)))); ("el.to_affine_ref", ("E", un (fun p => out_apt (to_affine p))));
    ("el.into_affine", ("E", un (fun p => out_apt (to_affine p))));
    ("af.to_element", ("A", unA (fun a => out_pt (oa a)))); ("af.to_element_ref", ("A", unA (fun a => out_pt (oa a))));
    ("af.into_group", ("A", unA (fun a => out_pt (oa a)))); ("af.mul_by_cofactor_to_group", ("A", unA (fun a => out_pt (oa a))));
    ("af.clear_cofactor", ("A", unA (fun a => out_apt a)));
    ("el.normalize_batch", ("X", fun vs => match vs with VLE l :: nil => flat_map (fun p => out_apt (to_affine p)) l | _ => bad end));
    ("el.batch_convert_to_mul_base", ("X", fun vs => match vs with VLE l :: nil => flat_map (fun p => out_apt (to_affine p)) l | _ => bad end));
    (* predicates *)
    ("el.eq", ("EE", bin (fun p p' => out_bool (eqE p p')))); ("af.eq", ("AA", binAA (fun a b => out_bool (eqA a b))));
    ("el.is_identity", ("E", un (fun p => out_bool (is_identity p))));
    ("el.eq_identity", ("E", un (fun p => out_bool (eqE p identity)))); ("el.eq_default", ("E", un (fun p => out_bool (eqE p identity))));
    (* codec *)
    ("el.enc.to_field", ("E", un (fun p => val (ark_encode p) :: nil)));
    ("el.enc", ("E", un compress_ark)); ("el.enc.from_elem", ("E", un compress_ark)); ("el.enc.from_ref", ("E", un compress_ark));
    ("el.enc.arr_from", ("E", un compress_ark)); ("el.ser", ("E", un compress_ark));
    ("af.ser", ("A", unA (fun a => compress_ark (oa a))));
    (* the uncompressed / unvalidated serialisation modes are NOT implemented by the crate: serialisation ignores the mode (always the
       canonical 32 bytes), the size query and every deserialisation in those modes stop with unimplemented!() and hand out nothing *)
    ("el.ser_uncompressed", ("E", un compress_ark)); ("af.ser_uncompressed", ("A", unA (fun a => compress_ark (oa a))));
    ("el.serialized_size_uncompressed", ("E", un (fun _ => panic))); ("af.serialized_size_uncompressed", ("A", unA (fun _ => panic)));
    ("el.deser_uncompressed", ("L", unL (fun _ => panic))); ("af.deser_uncompressed", ("L", unL (fun _ => panic)));
    ("el.deser_unchecked", ("L", unL (fun _ => panic))); ("af.deser_unchecked", ("L", unL (fun _ => panic)));
    ("el.dec", ("L", unL (fun b => out_dec (decompress32_ark b)))); ("el.dec.decompress", ("L", unL (fun b => out_dec (decompress32_ark b))));
    ("el.dec.tf_enc", ("L", unL (fun b => out_dec (decompress32_ark b)))); ("el.dec.tf_encref", ("L", unL (fun b => out_dec (decompress32_ark b))));
    ("el.dec.tf_arr", ("L", unL (fun b => out_dec (decompress32_ark b))));
    ("el.dec.tf_slice", ("L", unL (fun b => out_dec (if Nat.eqb (length b) 32 then decompress32_ark b else DErrLength))));
    ("el.dec.enc_tf_slice", ("L", unL (fun b => out_dec (if Nat.eqb (length b) 32 then decompress32_ark b else DErrLength))));
    ("el.deser", ("L", unL (fun b => out_dec (if Nat.ltb (length b) 32 then DErrIo else decompress32_ark (firstn 32 b)))));
    ("af.deser", ("L", unL (fun b => match (if Nat.ltb (length b) 32 then DErrIo else decompress32_ark (firstn 32 b)) with
                                    | DOk p => 1 :: out_apt (to_affine p) | e => out_dec e end)));
    (* the same stream deserialisers fed by a reader that delivers one byte per read call: the verdict may not depend on how the bytes arrive *)
    ("el.deser.drip", ("L", unL (fun b => out_dec (if Nat.ltb (length b) 32 then DErrIo else decompress32_ark (firstn 32 b)))));
    ("af.deser.drip", ("L", unL (fun b => match (if Nat.ltb (length b) 32 then DErrIo else decompress32_ark (firstn 32 b)) with
                                    | DOk p => 1 :: out_apt (to_affine p) | e => out_dec e end)));
    ("el.hash", ("E", un hash_enc)); ("af.hash", ("A", unA (fun a => hash_enc (oa a))));
    ("el.is_zero", ("E", un (fun p => out_bool (is_identity p)))); ("af.is_zero", ("A", unA (fun a => out_bool (af_is_zero a))));
    ("af.xy", ("A", unA (fun a => if af_is_zero a then 0 :: nil else 1 :: out_apt a)));
    ("af.from_random_bytes", ("L", unL (fun l => match af_from_random_bytes l with Some a => 1 :: out_apt a | None => 0 :: nil end)));
    ("el.rand", ("L", unL (fun l => match el_rand l with Some p => out_pt p | None => (-8) :: nil end)));
    ("af.rand", ("L", unL (fun l => match el_rand l with Some p => out_apt (to_affine p) | None => (-8) :: nil end)));
    (* hash to group *)
    ("el.elligator", ("F", unF (fun r => match ark_elligator (fq r) with Some p => out_pt p | None => panic end)));
    ("el.hash_to_curve", ("FF", fun vs => match vs with [VF r1; VF r2] =>
        match ark_elligator (fq r1), ark_elligator (fq r2) with Some p1, Some p2 => out_pt (ark_add ark_D p1 p2) | _, _ => panic end | _ => bad end));
    ("fq.sqrt_ratio_zeta", ("FF", fun vs => match vs with [VF n; VF d] =>
        match ark_sr_opt (fq n) (fq d) with Some (b, y) => b2z b :: val y :: nil | None => panic end | _ => bad end))
  ].

(* ------------------------------------------------------------------ minimal build *)
Definition compress_min (p : pt) : list Z := compress val min_encode p.
Definition decompress32_min := decompress32 q fq min_decode.
Definition maddE p p' := out_pt (min_add min_K p p').
Definition msubE p p' := out_pt (min_add min_K p (pneg p')).
Definition min_GEN : pt :=
  match c_min_curve_element_rs__Element__GENERATOR with
  | CNode _ [CNode _ [x]; CNode _ [y]; CNode _ [_]; CNode _ [t]] => mkpt (fq_of_mont x) (fq_of_mont y) one (fq_of_mont t)
  | _ => identity end.

Definition min_ops : list entry :=
  [ ("el.const.GENERATOR", ("", nul (out_pt min_GEN))); ("el.const.IDENTITY", ("", nul (out_pt identity)));
    ("el.add.ee", ("EE", bin maddE)); ("el.add.Ee", ("EE", bin maddE)); ("el.add.eE", ("EE", bin maddE)); ("el.add.EE", ("EE", bin maddE));
    ("el.add_assign.e", ("EE", bin maddE)); ("el.add_assign.E", ("EE", bin maddE));
    ("el.sub.ee", ("EE", bin msubE)); ("el.sub.Ee", ("EE", bin msubE)); ("el.sub.eE", ("EE", bin msubE)); ("el.sub.EE", ("EE", bin msubE));
    ("el.sub_assign.e", ("EE", bin msubE)); ("el.sub_assign.E", ("EE", bin msubE));
    ("el.neg", ("E", un (fun p => out_pt (pneg p)))); ("el.double", ("E", un (fun p => out_pt (min_double p))));
    ("el.smul.Ef", ("EF", EF (fun p k => out_pt (min_smul p k)))); ("el.smul.Er", ("EF", EF (fun p k => out_pt (min_smul p k))));
    ("el.smul.ef", ("EF", EF (fun p k => out_pt (min_smul p k)))); ("el.smul.er", ("EF", EF (fun p k => out_pt (min_smul p k))));
    ("el.smul.fE", ("EF", EF (fun p k => out_pt (min_smul p k)))); ("el.smul.fe", ("EF", EF (fun p k => out_pt (min_smul p k))));
    ("el.smul.rE", ("EF", EF (fun p k => out_pt (min_smul p k)))); ("el.smul.re", ("EF", EF (fun p k => out_pt (min_smul p k))));
    ("el.smul.assign_f", ("EF", EF (fun p k => out_pt (min_smul p k)))); ("el.smul.assign_r", ("EF", EF (fun p k => out_pt (min_smul p k))));
    ("el.scalar_mul", ("EL", EL (fun p l => out_pt (min_scalar_mul p l)))); ("el.scalar_mul_vartime", ("EL", EL (fun p l => out_pt (min_scalar_mul p l))));
    ("el.select", ("EEF", fun vs => match vs with [VE a; VE b; VF c] => out_pt (if c =? 1 then b else a) | _ => bad end));
    ("el.eq", ("EE", bin (fun p p' => out_bool (min_eqE p p'))));
    ("el.is_identity", ("E", un (fun p => out_bool (is_identity p)))); ("el.eq_identity", ("E", un (fun p => out_bool (min_eqE p identity))));
    ("el.enc.to_field", ("E", un (fun p => val (min_encode p) :: nil)));
    ("el.enc", ("E", un compress_min)); ("el.enc.from_elem", ("E", un compress_min)); ("el.enc.from_ref", ("E", un compress_min));
    ("el.enc.arr_from", ("E", un compress_min));
    ("el.dec", ("L", unL (fun b => out_dec (decompress32_min b))));
    ("el.dec.tf_enc", ("L", unL (fun b => out_dec (decompress32_min b)))); ("el.dec.tf_encref", ("L", unL (fun b => out_dec (decompress32_min b))));
    ("el.dec.tf_arr", ("L", unL (fun b => out_dec (decompress32_min b))));
    ("el.dec.tf_slice", ("L", unL (fun b => out_dec (if Nat.eqb (length b) 32 then decompress32_min b else DErrLength))));
    ("el.dec.enc_tf_slice", ("L", unL (fun b => out_dec (if Nat.eqb (length b) 32 then decompress32_min b else DErrLength))));
    ("el.elligator", ("F", unF (fun r => out_pt (min_elligator (fq r)))));
    ("el.hash_to_curve", ("FF", fun vs => match vs with [VF r1; VF r2] =>
        out_pt (min_add min_K (min_elligator (fq r1)) (min_elligator (fq r2))) | _ => bad end));
    ("fq.sqrt_ratio_zeta", ("FF", fun vs => match vs with [VF n; VF d] => let '(b, y) := min_sr (fq n) (fq d) in b2z b :: val y :: nil | _ => bad end))
  ].

Definition lookup (tbl : list entry) (op : string) : option (string * (list value -> list Z)) :=
  match find (fun e => String.eqb (fst e) op) tbl with Some e => Some (snd e) | None => None end.

(* op = "<build>:<harness op name>" is split by the driver: it passes build as the first integer (0 = ark, 1 = min) *)
Definition run (build : Z) (op : string) (args : list Z) : list Z :=
  match lookup (if build =? 0 then ark_ops else min_ops) op with
  | None => (-9) :: nil
  | Some (kinds, f) => match parse (list_ascii_of_string kinds) args with Some vs => f vs | None => bad end
  end.

Definition op_names (build : Z) : list string := map fst (if build =? 0 then ark_ops else min_ops).
Definition op_sigs (build : Z) : list (string * string) :=
  map (fun e => (fst e, fst (snd e))) (if build =? 0 then ark_ops else min_ops).
