(* Helper definitions referenced by the code that translator/rs2v.py emits. *)
Require Import ZArith List.
Import ListNotations.
Open Scope Z_scope.

(* a..b as the list of integers a, a+1, ..., b-1 *)
Definition zrange (a b : Z) : list Z := map (fun i => a + Z.of_nat i) (seq 0 (Z.to_nat (b - a))).
(* slice indexing with an integer index *)
Definition nthZ (l : list Z) (i : Z) : Z := nth (Z.to_nat i) l 0.

Lemma zrange_length a b : length (zrange a b) = Z.to_nat (b - a).
Proof. unfold zrange. rewrite map_length, seq_length. reflexivity. Qed.
