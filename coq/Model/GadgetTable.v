(* Wire-level table of the gadget model (Model/Gadgets.v) instantiated at Fq, for the correspondence check with
   the harness' r1.* ops.  Arguments are integers; hint present = 1 followed by (was_square, y), absent = 0 (honest). *)
Require Import ZArith List Bool String.
From D377 Require Import Base.Certs Base.ZpField Base.FieldSec Base.Fields Model.Decaf Model.Gadgets Model.Concrete.
Import ListNotations.
Open Scope Z_scope.
Local Existing Instance FqF.

Definition gb (b : bool) : Z := if b then 1 else 0.
Definition hint_of (has ws y : Z) (x : Fq) : bool * Fq := if has =? 1 then (ws =? 1, fq y) else ark_sr one x.

Definition decode_den (s : Fq) : Fq :=
  let ss := mul s s in let u_1 := sub one ss in let u_2 := sub (mul u_1 u_1) (mul (mul ark_D (fofZ 4)) ss) in mul u_2 (mul u_1 u_1).
Definition encode_den (x y : Fq) : Fq :=
  let T := mul x y in mul (mul (mul (add x T) (sub x T)) (sub ark_A ark_D)) (mul x x).
Definition elligator_den (r_0 : Fq) : Fq :=
  let r := mul ark_ZETA (mul r_0 r_0) in
  let den := mul (sub (mul ark_D r) (sub ark_D ark_A)) (sub (mul (sub ark_D ark_A) r) ark_D) in
  let num := mul (add r one) (sub ark_A (mul (add one one) ark_D)) in mul num den.

Definition run_gadget (op : string) (a : list Z) : list Z :=
  if String.eqb op "r1.isqrt" then
    match a with x :: has :: ws :: y :: nil =>
      let '(w, v) := hint_of has ws y (fq x) in gb (@isqrt_sat FqF ark_ZETA (fq x) w v) :: gb w :: val v :: nil
    | _ => (-1) :: nil end
  else if String.eqb op "r1.decode" then
    match a with s :: has :: ws :: y :: nil =>
      let '(w, v) := hint_of has ws y (decode_den (fq s)) in
      let '(sat, gx, gy) := @decode_g FqF ark_D ark_ZETA fq_neg (fq s) w v in gb sat :: val gx :: val gy :: nil
    | _ => (-1) :: nil end
  else if String.eqb op "r1.encode" then
    match a with x :: y :: has :: ws :: h :: nil =>
      let '(w, v) := hint_of has ws h (encode_den (fq x) (fq y)) in
      let '(sat, s) := @encode_g FqF ark_A ark_D ark_ZETA fq_neg (fq x) (fq y) w v in gb sat :: val s :: nil
    | _ => (-1) :: nil end
  else if String.eqb op "r1.elligator" then
    match a with r0 :: has :: ws :: y :: nil =>
      let '(w, v) := hint_of has ws y (elligator_den (fq r0)) in
      let '(sat, gx, gy) := @elligator_g FqF ark_A ark_D ark_ZETA fq_neg (fq r0) w v in gb sat :: val gx :: val gy :: nil
    | _ => (-1) :: nil end
  else if String.eqb op "r1.new" then
    match a with px :: py :: s' :: has :: ws :: y :: nil =>
      let '(w, v) := hint_of has ws y (decode_den (fq s')) in
      let '(sat, gx, gy) := @new_witness_g FqF ark_A ark_D ark_ZETA fq_neg (fq px) (fq py) (fq s') w v in gb sat :: val gx :: val gy :: nil
    | _ => (-1) :: nil end
  else if String.eqb op "r1.is_eq" then
    match a with x1 :: y1 :: x2 :: y2 :: nil => gb (@is_eq_g FqF (fq x1) (fq y1) (fq x2) (fq y2)) :: nil | _ => (-1) :: nil end
  else (-9) :: nil.
