(* Wire-level table of the gadget model (Model/Gadgets.v) instantiated at Fq, for the correspondence check with
   the harness' r1.* ops.  Arguments are integers; hint present = 1 followed by (was_square, y), absent = 0 (honest). *)
Require Import ZArith List Bool String.
From D377 Require Import Base.Certs Base.ZpField Base.FieldSec Base.Fields Model.Decaf Model.Sqrt Model.Gadgets Model.Wrapper Model.Concrete.
Import ListNotations.
Open Scope Z_scope.
Local Existing Instance FqF.

Definition gb (b : bool) : Z := if b then 1 else 0.
Definition hint_of (has ws y : Z) (x : Fq) : bool * Fq := if has =? 1 then (ws =? 1, fq y) else ark_sr one x.

Definition decode_den (s : Fq) : Fq :=
  let ss := mul s s in let u_1 := sub one ss in let u_2 := sub (mul u_1 u_1) (mul (mul ark_D (fofZ 4)) ss) in mul u_2 (mul u_1 u_1).
Definition encode_den (x y : Fq) : Fq :=
  let T := mul x y in mul (mul (mul (add x T) (sub x T)) (sub ark_A ark_D)) (mul x x).
Definition elligator_den (r_0 : Fq) : Fq :=
  let r := mul ark_ZETA (mul r_0 r_0) in
  let den := mul (sub (mul ark_D r) (sub ark_D ark_A)) (sub (mul (sub ark_D ark_A) r) ark_D) in
  let num := mul (add r one) (sub ark_A (mul (add one one) ark_D)) in mul num den.

(* ---- histories on one wrapper variable (Model/Wrapper.v), harness ops r1.hist / r1.hist.enc ---- *)
Definition w_decode_honest := @decode_honest FqF ark_D ark_ZETA fq_neg ark_sr.
Definition w_encode_honest := @encode_honest FqF ark_A ark_D ark_ZETA fq_neg ark_sr.
(* allocation of an element with affine coordinates (x, y): kind 0 constant, 2 witness, 3 public input;
   kind 1: allocation from the field element x (AllocVar<Fq>) *)
Definition hist_alloc (kind x y : Z) : bool * wstate :=
  if kind =? 0 then (true, WElt (mkapt (fq x) (fq y)))
  else if kind =? 1 then (true, WEnc (fq x))
  else if kind =? 2 then
    let s := snd (w_encode_honest (fq x) (fq y)) in      (* the encoding is computed out of circuit *)
    let '(sd, dx, dy) := w_decode_honest s in
    (sd && @on_curve_g FqF ark_A ark_D (fq x) (fq y) && @is_eq_g FqF dx dy (fq x) (fq y), WElt (mkapt dx dy))
  else (true, WEnc (snd (w_encode_honest (fq x) (fq y)))).
(* coordinates of the second operand as the element operations see them *)
Definition hist_operand (kind x y : Z) : bool * apt :=
  let w := hist_alloc kind x y in
  let '(w', p) := @force_elt FqF ark_D ark_ZETA fq_neg ark_sr w in (fst w', p).
(* q: coordinates of the second VARIABLE as allocated; qc: affine coordinates of the second operand as a constant *)
Definition hist_op (q qc : apt) (c : Z) : wop :=
  if c =? 9 then OAdd qc else if c =? 10 then OSub qc else if c =? 11 then OIsEq q else
  if c =? 0 then OForce else if c =? 1 then OReadEnc else if c =? 2 then OReadVal else if c =? 3 then OAdd q
  else if c =? 4 then OSub q else if c =? 5 then ODbl else if c =? 6 then ONeg else if c =? 7 then OSel q else OClone.
Definition hist_out (r : wout) : list Z :=
  match r with RdEnc s => 0 :: val s :: nil | RdVal p => 1 :: val (aX p) :: val (aY p) :: nil | RdBool b => 2 :: gb b :: nil end.
Definition run_hist (kind x y bkind bx by_ : Z) (codes : list Z) : list Z :=
  let w := hist_alloc kind x y in
  let '(bsat, q) := hist_operand bkind bx by_ in
  let uses_b := existsb (fun c => (c =? 3) || (c =? 4) || (c =? 7) || (c =? 11)) codes in
  let '(w', rs) := @wrun FqF ark_A ark_D ark_ZETA fq_neg ark_sr w (map (hist_op q (mkapt (fq bx) (fq by_))) codes) in
  gb (fst w' && (bsat || negb uses_b)) :: flat_map hist_out rs.

Definition run_gadget (op : string) (a : list Z) : list Z :=
  if String.eqb op "r1.scalar_mul" then
    (* CurveVar::scalar_mul_le on a variable allocated in mode `kind` from the affine point (x, y), bits = little-endian bits of the u64 limbs *)
    match a with kind :: x :: y :: limbs =>
      let '(sat, p) := hist_operand kind x y in
      let r := @gscalar_mul_le FqF ark_A ark_D p (Sqrt.limbs_bits limbs) in gb sat :: val (aX r) :: val (aY r) :: nil
    | _ => (-1) :: nil end
  else if String.eqb op "r1.hist" then
    match a with kind :: x :: y :: bkind :: bx :: by_ :: codes => run_hist kind x y bkind bx by_ codes | _ => (-1) :: nil end
  else
  if String.eqb op "r1.isqrt" then
    match a with x :: has :: ws :: y :: nil =>
      let '(w, v) := hint_of has ws y (fq x) in gb (@isqrt_sat FqF ark_ZETA (fq x) w v) :: gb w :: val v :: nil
    | _ => (-1) :: nil end
  else if String.eqb op "r1.decode" then
    match a with s :: has :: ws :: y :: nil =>
      let '(w, v) := hint_of has ws y (decode_den (fq s)) in
      let '(sat, gx, gy) := @decode_g FqF ark_D ark_ZETA fq_neg (fq s) w v in gb sat :: val gx :: val gy :: nil
    | _ => (-1) :: nil end
  else if String.eqb op "r1.encode" then
    match a with x :: y :: has :: ws :: h :: nil =>
      let '(w, v) := hint_of has ws h (encode_den (fq x) (fq y)) in
      let '(sat, s) := @encode_g FqF ark_A ark_D ark_ZETA fq_neg (fq x) (fq y) w v in gb sat :: val s :: nil
    | _ => (-1) :: nil end
  else if String.eqb op "r1.elligator" then
    match a with r0 :: has :: ws :: y :: nil =>
      let '(w, v) := hint_of has ws y (elligator_den (fq r0)) in
      let '(sat, gx, gy) := @elligator_g FqF ark_A ark_D ark_ZETA fq_neg (fq r0) w v in gb sat :: val gx :: val gy :: nil
    | _ => (-1) :: nil end
  else if String.eqb op "r1.new" then
    match a with px :: py :: s' :: has :: ws :: y :: nil =>
      let '(w, v) := hint_of has ws y (decode_den (fq s')) in
      let '(sat, gx, gy) := @new_witness_g FqF ark_A ark_D ark_ZETA fq_neg (fq px) (fq py) (fq s') w v in gb sat :: val gx :: val gy :: nil
    | _ => (-1) :: nil end
  else if String.eqb op "r1.new_affine" then
    (* AllocVar<AffinePoint> in witness mode = AllocVar<Element> of the same coordinates: the encoding hint is the NATIVE encoding of the
       offered coordinates (whatever they are), then the in-circuit decode, curve check and decaf equality of r1.new *)
    match a with px :: py :: has :: ws :: y :: nil =>
      let s' := snd (w_encode_honest (fq px) (fq py)) in
      let '(w, v) := hint_of has ws y (decode_den s') in
      let '(sat, gx, gy) := @new_witness_g FqF ark_A ark_D ark_ZETA fq_neg (fq px) (fq py) s' w v in gb sat :: val gx :: val gy :: nil
    | _ => (-1) :: nil end
  else if String.eqb op "r1.is_eq" then
    match a with x1 :: y1 :: x2 :: y2 :: nil => gb (@is_eq_g FqF (fq x1) (fq y1) (fq x2) (fq y2)) :: nil | _ => (-1) :: nil end
  else (-9) :: nil.
