(* Reference model of the field-level curve code of decaf377 — one definition per Rust function,
   in the shape the translator (translator/rs2v.py) emits, over an abstract field.
   Tie/*.v proves  Generated.<f> = Model.<f>;  Proofs/*.v reason about these definitions only.

   Sources mirrored:
     src/ark_curve/encoding.rs   vartime_decompress (field part), vartime_compress_to_field
     src/ark_curve/elligator.rs  elligator_map
     src/min_curve/element.rs    the same three, Add::add, double, Neg::neg, PartialEq::eq, is_identity
     ark-ec 0.4.2 twisted_edwards::Projective  add_assign(&Self), add_assign(Affine), double_in_place, neg,
                                               From<Affine>, Into<Affine>  (hand model of the dependency)  *)
Require Import ZArith Bool.
From D377 Require Import Base.FieldSec.

Section Decaf.
  Context {AF : AField}.
  Variables (cA cD zeta : F).            (* COEFF_A, COEFF_D, ZETA *)
  Variable neg : F -> bool.              (* Sign::is_negative *)
  Variable sr : F -> F -> bool * F.      (* sqrt_ratio_zeta *)

  Local Notation "0" := zero. Local Notation "1" := one.
  Local Infix "+" := add. Local Infix "*" := mul. Local Infix "-" := sub. Local Infix "/" := div.
  Local Notation "- x" := (opp x).

  Record pt := mkpt { pX : F; pY : F; pZ : F; pT : F }.
  Record apt := mkapt { aX : F; aY : F }.

  Definition fabs (x : F) : F := if neg x then - x else x.

  (* ---- decoding: field part of Encoding::vartime_decompress ---- *)
  Definition decode (s : F) : option pt :=
    if neg s then None else
    let ss := s * s in
    let u_1 := 1 - ss in
    let u_2 := u_1 * u_1 - (cD * fofZ 4) * ss in
    let '(was_square, v) := sr 1 (u_2 * (u_1 * u_1)) in
    if negb was_square then None else
    let two_s_u_1 := two * s * u_1 in
    let check := two_s_u_1 * v in
    let v := if neg check then - v else v in
    let x := two_s_u_1 * (v * v) * u_2 in
    let y := (1 + ss) * v * u_1 in
    let z := 1 in
    let t := x * y in
    Some (mkpt x y z t).

  (* ---- encoding: Element::vartime_compress_to_field ---- *)
  Definition encode (p : pt) : F :=
    let A_MINUS_D := cA - cD in
    let u_1 := (pX p + pT p) * (pX p - pT p) in
    let '(_always_square, v) := sr 1 (u_1 * A_MINUS_D * (pX p * pX p)) in
    let u_2 := fabs (v * u_1) in
    let u_3 := u_2 * pZ p - pT p in
    fabs (A_MINUS_D * v * u_3 * pX p).

  (* ---- Elligator 2: Element::elligator_map ---- *)
  Definition elligator (r_0 : F) : pt :=
    let r := zeta * (r_0 * r_0) in
    let den := (cD * r - (cD - cA)) * ((cD - cA) * r - cD) in
    let num := (r + 1) * (cA - two * cD) in
    let x := num * den in
    let '(iss, isri) := sr 1 x in
    let sgn := if iss then 1 else - (1) in
    let twiddle := if iss then 1 else r_0 in
    let isri := isri * twiddle in
    let s := isri * num in
    let t := - sgn * isri * s * (r - 1) * ((cA - two * cD) * (cA - two * cD)) - 1 in
    let s := if Bool.eqb (neg s) iss then - s else s in
    let E := two * s in
    let F_ := 1 + cA * (s * s) in
    let G := 1 - cA * (s * s) in
    let H := t in
    mkpt (E * H) (F_ * G) (F_ * H) (E * G).

  (* ---- group law, ark-ec Projective (extended coordinates), a = -1 via mul_by_a ---- *)
  Definition ark_add (p q : pt) : pt :=
    let a := pX p * pX q in
    let b := pY p * pY q in
    let c := cD * pT p * pT q in
    let d := pZ p * pZ q in
    let h := b - (- a) in
    let e := (pX p + pY p) * (pX q + pY q) - a - b in
    let f := d - c in
    let g := d + c in
    mkpt (e * f) (g * h) (f * g) (e * h).

  Definition ark_madd (p : pt) (q : apt) : pt :=
    let a := pX p * aX q in
    let b := pY p * aY q in
    let c := cD * pT p * aX q * aY q in
    let d := pZ p in
    let e := (pX p + pY p) * (aX q + aY q) - a - b in
    let f := d - c in
    let g := d + c in
    let h := b - (- a) in
    mkpt (e * f) (g * h) (f * g) (e * h).

  Definition ark_double (p : pt) : pt :=
    let a := pX p * pX p in
    let b := pY p * pY p in
    let c := (pZ p * pZ p) + (pZ p * pZ p) in
    let d := - a in
    let e := (pX p + pY p) * (pX p + pY p) - a - b in
    let g := d + b in
    let f := g - c in
    let h := d - b in
    mkpt (e * f) (g * h) (f * g) (e * h).

  Definition pneg (p : pt) : pt := mkpt (- pX p) (pY p) (pZ p) (- pT p).
  Definition ark_sub (p q : pt) : pt := ark_add p (pneg q).
  Definition aneg (p : apt) : apt := mkapt (- aX p) (aY p).

  Definition of_affine (p : apt) : pt := mkpt (aX p) (aY p) 1 (aX p * aY p).
  (* Projective -> Affine of ark-ec: zero stays zero, Z = 1 is copied, otherwise multiply by 1/Z *)
  Definition to_affine (p : pt) : apt :=
    if feqb (pX p) 0 && feqb (pY p) (pZ p) && negb (feqb (pY p) 0) && feqb (pT p) 0 then mkapt 0 1
    else if feqb (pZ p) 1 then mkapt (pX p) (pY p)
    else let zi := inv (pZ p) in mkapt (pX p * zi) (pY p * zi).

  (* ---- group law, min_curve ---- *)
  Definition min_add (cK : F) (p q : pt) : pt :=
    let a := (pY p - pX p) * (pY q - pX q) in
    let b := (pY p + pX p) * (pY q + pX q) in
    let c := cK * pT p * pT q in
    let d := (pZ p + pZ p) * pZ q in
    let e := b - a in
    let f := d - c in
    let g := d + c in
    let h := b + a in
    mkpt (e * f) (g * h) (f * g) (e * h).

  Definition min_double (p : pt) : pt :=
    let a := pX p * pX p in
    let b := pY p * pY p in
    let c := pZ p * pZ p in
    let c := c + c in
    let d := - a in
    let e := (pX p + pY p) * (pX p + pY p) - a - b in
    let g := d + b in
    let f := g - c in
    let h := d - b in
    mkpt (e * f) (g * h) (f * g) (e * h).

  (* ---- equality and identity tests (both backends: X1*Y2 == Y1*X2 up to commutation) ---- *)
  Definition eqE (p q : pt) : bool := feqb (pX p * pY q) (pY p * pX q).
  Definition min_eqE (p q : pt) : bool := feqb (pX p * pY q) (pX q * pY p).
  Definition eqA (p q : apt) : bool := feqb (aX p * aY q) (aY p * aX q).
  Definition is_identity (p : pt) : bool := feqb (pX p) 0.
  Definition identity : pt := mkpt 0 1 1 0.
  (* ark-ec Projective::is_zero *)
  Definition ark_is_zero (p : pt) : bool :=
    feqb (pX p) 0 && feqb (pY p) (pZ p) && negb (feqb (pY p) 0) && feqb (pT p) 0.

  Definition pt_eqb (p q : pt) : bool :=
    feqb (pX p) (pX q) && feqb (pY p) (pY q) && feqb (pZ p) (pZ q) && feqb (pT p) (pT q).
End Decaf.

Arguments mkpt {AF} _ _ _ _.
Arguments mkapt {AF} _ _.
Arguments pX {AF} _. Arguments pY {AF} _. Arguments pZ {AF} _. Arguments pT {AF} _.
Arguments aX {AF} _. Arguments aY {AF} _.
