(* Field layer (C10, C11): the model's semantics of every field API entry point of the three fields, as
   exact arithmetic on canonical integers in [0, m).  Hand-written model of the operator tables in
   src/fields/<f>/ops.rs, the inherent methods of src/fields/<f>.rs and the arkworks trait impls of
   src/fields/<f>/arkworks.rs; tied to both backends (u64 arkworks, u32 fiat) by the correspondence check.
   The loops [from_le_bytes_mod_order] and [power] mirror the Rust code step by step; Proofs/FieldLemmas.v shows
   they compute (integer mod m) and x^e. *)
Require Import ZArith List Bool String Ascii.
From D377 Require Import Base.Certs Model.CVal Model.Bytes Generated.Consts.
Import ListNotations.
Open Scope Z_scope. Open Scope list_scope.

Section FieldModel.
  Variable m : Z.           (* modulus *)
  Variable n8 : nat.        (* serialised size N_8 *)
  Variable n64 : nat.       (* number of u64 limbs *)
  Variable fsp2 : Z.        (* FIELD_SIZE_POWER_OF_TWO as an integer: the extracted constant *)

  Definition fadd x y := (x + y) mod m.
  Definition fsub x y := (x - y) mod m.
  Definition fmul x y := (x * y) mod m.
  Definition fneg x := (- x) mod m.
  Definition fpow_z (x e : Z) : Z := powm x e m.
  Definition finv x := fpow_z x (m - 2).

  (* chunks(N_8) *)
  Fixpoint chunks_aux (fuel : nat) (l : list Z) : list (list Z) :=
    match fuel with
    | O => nil
    | S f => match l with nil => nil | _ => firstn n8 l :: chunks_aux f (skipn n8 l) end
    end.
  Definition chunks (l : list Z) : list (list Z) := chunks_aux (S (List.length l)) l.
  (* from_raw_bytes on a zero-padded chunk: the little-endian integer reduced mod m *)
  Definition from_raw (c : list Z) : Z := of_le_bytes c mod m.
  (* bytes.chunks(N_8).map(pad, from_raw_bytes).rev().fold(ZERO, |acc, x| acc * FIELD_SIZE_POWER_OF_TWO + x) *)
  Definition from_le_bytes_mod_order (l : list Z) : Z :=
    fold_left (fun acc x => fadd (fmul acc fsp2) x) (rev (map from_raw (chunks l))) 0.
  Definition from_be_bytes_mod_order (l : list Z) : Z := from_le_bytes_mod_order (rev l).
  Definition to_bytes_le (x : Z) : list Z := le_bytes n8 x.
  (* from_bytes_checked: reduce, re-serialise, compare *)
  Definition list_eqb (a b : list Z) : bool := Nat.eqb (List.length a) (List.length b) && forallb (fun p => fst p =? snd p) (combine a b).
  Definition from_bytes_checked (l : list Z) : option Z :=
    let r := from_raw l in if list_eqb (to_bytes_le r) l then Some r else None.
  (* Fq::power after the fix: square-and-multiply, most significant limb and bit first *)
  Definition power (x : Z) (limbs : list Z) : Z :=
    fold_left (fun res limb =>
                 fold_left (fun res i => let res := fmul res res in
                                         if Z.land (Z.shiftr limb i) 1 =? 1 then fmul res x else res)
                           (rev (map Z.of_nat (seq 0 64))) res)
              (rev limbs) (1 mod m).
  Definition limbs_of (x : Z) : list Z := map (fun i => (x / 2 ^ (64 * Z.of_nat i)) mod 2 ^ 64) (seq 0 n64).
  Definition from_bigint (l : list Z) : option Z := let v := limbs64 l in if v <? m then Some v else None.
  (* FromStr: acc = 10*acc + digit *)
  Definition from_digits (ds : list Z) : Z := fold_left (fun acc d => fadd (fmul 10 acc) (d mod m)) ds 0.

  (* serialisation with flags: bit_size flags in the top bits of the last byte when they fit *)
  Definition ser_size (nbits : Z) : nat := Z.to_nat ((CVal.bit_size m + nbits + 7) / 8).
  Definition replace_last (l : list Z) (f : Z -> Z) : list Z :=
    match rev l with nil => nil | x :: r => rev (f x :: r) end.
  Definition ser_flags (nbits mask x : Z) : list Z :=
    let b := to_bytes_le x in
    if Nat.eqb (List.length b) (ser_size nbits) then replace_last b (fun y => Z.lor y mask) else b ++ (mask :: nil).
End FieldModel.

(* flag types of ark-serialize / ark-ec: (BIT_SIZE, from_u8 -> option (flag id, mask)) *)
Definition flags_from_u8 (ty : Z) (v : Z) : option (Z * Z) :=
  if ty =? 0 then Some (0, 0)                                     (* EmptyFlags *)
  else if ty =? 1 then                                            (* TEFlags: 0 XIsPositive, 1 XIsNegative *)
    if Z.testbit v 7 then Some (1, 128) else Some (0, 0)
  else                                                            (* SWFlags: 0 YIsPositive, 1 PointAtInfinity, 2 YIsNegative *)
    let n := Z.testbit v 7 in let i := Z.testbit v 6 in
    if n && i then None else if n then Some (2, 128) else if i then Some (1, 64) else Some (0, 0).
Definition flags_bits (ty : Z) : Z := if ty =? 0 then 0 else if ty =? 1 then 1 else 2.

Definition deser_flags (m : Z) (n8 : nat) (ty : Z) (l : list Z) : list Z :=
  let expected := Z.to_nat ((bit_size m + flags_bits ty + 7) / 8) in
  if Nat.ltb (List.length l) expected then 0 :: 3 :: nil else        (* IoError *)
  let b := firstn expected l ++ repeat 0 (n8 - expected) in
  let last := List.nth (n8 - 1) b 0 in
  match flags_from_u8 ty last with
  | None => 0 :: 4 :: nil                                        (* UnexpectedFlags *)
  | Some (fl, mask) =>
      let b' := firstn (n8 - 1) b ++ (Z.land last (Z.lnot mask mod 256) :: nil) in
      let v := of_le_bytes b' in
      if v <? m then 1 :: v :: fl :: nil else 0 :: 1 :: nil       (* InvalidData *)
  end.

Definition fsp2_of (c : cval) (m rinv : Z) : Z := mont_val m rinv c.
Definition q_Rinv' : Z := Eval vm_compute in powm (2 ^ 256 mod q) (q - 2) q.
Definition r_Rinv' : Z := Eval vm_compute in powm (2 ^ 256 mod r) (r - 2) r.
Definition p_Rinv' : Z := Eval vm_compute in powm (2 ^ 384 mod p) (p - 2) p.

Record fcfg := { f_m : Z; f_n8 : nat; f_n64 : nat; f_fsp2 : Z }.
Definition cfg_fq := {| f_m := q; f_n8 := 32; f_n64 := 4; f_fsp2 := fsp2_of c_fields_fq_rs__Fq__FIELD_SIZE_POWER_OF_TWO q q_Rinv' |}.
Definition cfg_fr := {| f_m := r; f_n8 := 32; f_n64 := 4; f_fsp2 := fsp2_of c_fields_fr_rs__Fr__FIELD_SIZE_POWER_OF_TWO r r_Rinv' |}.
Definition cfg_fp := {| f_m := p; f_n8 := 48; f_n64 := 6; f_fsp2 := fsp2_of c_fields_fp_rs__Fp__FIELD_SIZE_POWER_OF_TWO p p_Rinv' |}.

(* ---- wire-level table: op name (without the field prefix) -> function on integer lists.
   Arguments: field elements and small integers as single integers, byte/limb/element lists length-prefixed. ---- *)
Definition bad : list Z := (-1) :: nil.
Definition panic : list Z := (-7) :: nil.
Definition a1 (f : Z -> list Z) (l : list Z) := match l with x :: nil => f x | _ => bad end.
Definition a2 (f : Z -> Z -> list Z) (l : list Z) := match l with x :: y :: nil => f x y | _ => bad end.
Definition a3 (f : Z -> Z -> Z -> list Z) (l : list Z) := match l with x :: y :: z :: nil => f x y z | _ => bad end.
Definition aL (f : list Z -> list Z) (l : list Z) := match l with n :: r => if Nat.eqb (List.length r) (Z.to_nat n) then f r else bad | _ => bad end.
Definition aFL (f : Z -> list Z -> list Z) (l : list Z) :=
  match l with x :: n :: r => if Nat.eqb (List.length r) (Z.to_nat n) then f x r else bad | _ => bad end.
Definition one_ (z : Z) : list Z := z :: nil.
Definition opt_ (o : option Z) : list Z := match o with Some v => 1 :: v :: nil | None => 0 :: nil end.
Definition b2z (b : bool) : Z := if b then 1 else 0.

Definition field_ops (c : fcfg) : list (string * (list Z -> list Z)) :=
  let m := f_m c in
  let bin (names : list string) (f : Z -> Z -> list Z) := map (fun n => (n, a2 f)) names in
  let vrm (s : string) := [String.append s ".v"; String.append s ".r"; String.append s ".m";
                           String.append s "_assign.v"; String.append s "_assign.r"; String.append s "_assign.m"]%string in
  (bin (vrm "add"%string ++ ["inh.add"; "add.inherent"]%string) (fun x y => one_ (fadd m x y))) ++
  (bin (vrm "sub"%string ++ ["inh.sub"; "sub.inherent"]%string) (fun x y => one_ (fsub m x y))) ++
  (bin (vrm "mul"%string ++ ["inh.mul"; "mul.inherent"]%string) (fun x y => one_ (fmul m x y))) ++
  (bin (vrm "div"%string) (fun x y => if y mod m =? 0 then panic else one_ (fmul m x (finv m y)))) ++
  [ ("neg"%string, a1 (fun x => one_ (fneg m x))); ("inh.neg"%string, a1 (fun x => one_ (fneg m x))); ("neg.inherent"%string, a1 (fun x => one_ (fneg m x)));
    ("square"%string, a1 (fun x => one_ (fmul m x x)));
    ("inverse"%string, a1 (fun x => if x mod m =? 0 then 0 :: nil else 1 :: finv m x :: nil));
    ("sum.v"%string, aL (fun l => one_ (fold_left (fadd m) l 0))); ("sum.r"%string, aL (fun l => one_ (fold_left (fadd m) l 0)));
    ("product.v"%string, aL (fun l => one_ (fold_left (fmul m) l (1 mod m)))); ("product.r"%string, aL (fun l => one_ (fold_left (fmul m) l (1 mod m))));
    ("sum.lazy"%string, aL (fun l => one_ (fold_left (fadd m) l 0))); ("product.lazy"%string, aL (fun l => one_ (fold_left (fmul m) l (1 mod m))));
    ("cmp"%string, a2 (fun x y => one_ (match Z.compare x y with Lt => -1 | Eq => 0 | Gt => 1 end)));
    ("partial_cmp"%string, a2 (fun x y => one_ (match Z.compare x y with Lt => -1 | Eq => 0 | Gt => 1 end)));
    ("eq"%string, a2 (fun x y => one_ (b2z (x =? y)))); ("ct_eq"%string, a2 (fun x y => one_ (b2z (x =? y))));
    ("select"%string, a3 (fun x y ch => one_ (if ch =? 1 then y else x)));
    ("hash"%string, a1 (fun x => to_bytes_le (f_n8 c) x)); ("default"%string, fun _ => one_ 0);
    ("from_u128"%string, a1 (fun x => one_ (x mod m))); ("from_u64"%string, a1 (fun x => one_ (x mod m))); ("from_u32"%string, a1 (fun x => one_ (x mod m)));
    ("from_u16"%string, a1 (fun x => one_ (x mod m))); ("from_u8"%string, a1 (fun x => one_ (x mod m))); ("from_bool"%string, a1 (fun x => one_ (x mod m)));
    ("power"%string, aFL (fun x l => one_ (power m x l)));
    ("from_le_bytes_mod_order"%string, aL (fun l => one_ (from_le_bytes_mod_order m (f_n8 c) (f_fsp2 c) l)));
    ("from_bytes_checked"%string, aL (fun l => match from_bytes_checked m (f_n8 c) l with Some v => 1 :: v :: nil | None => 0 :: 1 :: nil end));
    ("to_bytes"%string, a1 (fun x => to_bytes_le (f_n8 c) x)); ("to_bytes_le"%string, a1 (fun x => to_bytes_le (f_n8 c) x));
    ("rand"%string, aL (fun l => one_ (from_le_bytes_mod_order m (f_n8 c) (f_fsp2 c) (firstn (f_n8 c + 16) (l ++ repeat 0 (f_n8 c + 16))))));
    (* arkworks traits *)
    ("ark.double"%string, a1 (fun x => one_ (fadd m x x))); ("ark.double_in_place"%string, a1 (fun x => one_ (fadd m x x)));
    ("ark.neg_in_place"%string, a1 (fun x => one_ (fneg m x))); ("ark.square"%string, a1 (fun x => one_ (fmul m x x)));
    ("ark.square_in_place"%string, a1 (fun x => one_ (fmul m x x)));
    ("ark.inverse"%string, a1 (fun x => if x mod m =? 0 then 0 :: nil else 1 :: finv m x :: nil));
    ("ark.inverse_in_place"%string, a1 (fun x => if x mod m =? 0 then 0 :: nil else 1 :: finv m x :: nil));
    ("ark.is_zero"%string, a1 (fun x => one_ (b2z (x =? 0)))); ("ark.is_one"%string, a1 (fun x => one_ (b2z (x =? 1))));
    ("ark.zero"%string, fun _ => one_ 0); ("ark.one"%string, fun _ => one_ (1 mod m));
    ("ark.from_bigint"%string, aL (fun l => opt_ (from_bigint m l))); ("ark.into_bigint"%string, a1 (fun x => limbs_of (f_n64 c) x));
    ("ark.from_bigint_conv"%string, aL (fun l => one_ (from_le_bytes_mod_order m (f_n8 c) (f_fsp2 c) (le_bytes (8 * f_n64 c) (limbs64 l)))));
    ("ark.into_bigint_conv"%string, a1 (fun x => limbs_of (f_n64 c) x));
    ("ark.from_be_bytes_mod_order"%string, aL (fun l => one_ (from_be_bytes_mod_order m (f_n8 c) (f_fsp2 c) l)));
    ("ark.from_le_bytes_mod_order"%string, aL (fun l => one_ (from_le_bytes_mod_order m (f_n8 c) (f_fsp2 c) l)));
    ("ark.from_str"%string, aL (fun ds => 1 :: from_digits m ds :: nil));
    ("ark.from_biguint"%string, a1 (fun x => one_ (x mod m))); ("ark.into_biguint"%string, a1 (fun x => one_ x));
    ("ark.ser"%string, a1 (fun x => to_bytes_le (f_n8 c) x));
    ("ark.deser"%string, aL (fun l => match deser_flags m (f_n8 c) 0 l with 1 :: v :: _ => 1 :: v :: nil | e => e end));
    ("ark.deser.drip"%string, aL (fun l => match deser_flags m (f_n8 c) 0 l with 1 :: v :: _ => 1 :: v :: nil | e => e end));
    ("ark.ser_flags"%string, a3 (fun bits mask x => ser_flags m (f_n8 c) bits mask x));
    ("ark.deser_flags"%string, aFL (fun ty l => deser_flags m (f_n8 c) ty l));
    ("ark.from_random_bytes"%string, aL (fun l => 1 :: from_le_bytes_mod_order m (f_n8 c) (f_fsp2 c) l :: nil));
    ("ark.legendre"%string, a1 (fun x => one_ (if x mod m =? 0 then 0 else if powm x ((m - 1) / 2) m =? 1 then 1 else -1)));
    ("legendre"%string, a1 (fun x => one_ (if x mod m =? 0 then 0 else if powm x ((m - 1) / 2) m =? 1 then 1 else -1)));
    ("pow"%string, aFL (fun x l => one_ (powm x (limbs64 l) m)))
  ].

Definition run_field (fid : Z) (op : string) (args : list Z) : list Z :=
  let c := if fid =? 0 then cfg_fq else if fid =? 1 then cfg_fr else cfg_fp in
  match find (fun e => String.eqb (fst e) op) (field_ops c) with
  | Some e => snd e args
  | None => (-9) :: nil
  end.
Definition field_op_names : list string := map fst (field_ops cfg_fq).
