(* Value-carrying model of the user-facing R1CS element variable: src/ark_curve/r1cs/{lazy,element,ops}.rs (C13).
   `ElementVar` wraps a `LazyElementVar`, a RefCell state machine  Encoding | Element | EncodingAndElement  that
   memoises the in-circuit decode / encode.  The model tracks, for ONE variable under honest synthesis,
     - whether every constraint emitted so far is satisfied (the conjunction of the gadget verdicts), and
     - the cache state with the VALUES of the cached encoding and element,
   and gives each wrapper operation (force, compress_to_field, value, +=, -=, double_in_place, negate, +, -,
   conditionally_select, clone) its effect on that state and the values it lets the caller read.
   The arithmetic of the element operations is that of ark-r1cs-std 0.4 twisted_edwards::AffineVar
   (add: impl_bounded_ops!, double_in_place, negate) — a hand model of the dependency.
   Tied to the implementation by the correspondence check (harness ops r1.hist / r1.hist.enc). *)
Require Import ZArith List Bool.
From D377 Require Import Base.FieldSec Model.Decaf Model.Gadgets.

Section Wrapper.
  Context {AF : AField}.
  Variables (cA cD zeta : F).
  Variable neg : F -> bool.
  Variable sr : F -> F -> bool * F.
  Local Notation "0" := zero. Local Notation "1" := one.
  Local Infix "+" := add. Local Infix "*" := mul. Local Infix "-" := sub.
  Local Notation "- x" := (opp x).

  (* AffineVar + AffineVar (non-constant case): the values of the witnesses x3, y3 *)
  Definition gadd (p q : apt) : apt :=
    let u1 := (aX p * - cA) + aY p in
    let u2 := aX q + aY q in
    let u := u1 * u2 in
    let v0 := aY q * aX p in
    let v1 := aX q * aY p in
    let v2 := v0 * v1 * cD in
    mkapt ((v0 + v1) * inv (1 + v2)) ((u + cA * v0 - v1) * inv (1 - v2)).
  Definition gneg (p : apt) : apt := mkapt (- aX p) (aY p).
  Definition gsub (p q : apt) : apt := gadd p (gneg q).
  Definition gdbl (p : apt) : apt :=
    let xy := aX p * aY p in
    let x2 := aX p * aX p in
    let y2 := aY p * aY p in
    let a_x2 := x2 * cA in
    mkapt ((xy + xy) * inv (cA * x2 + y2)) ((y2 - a_x2) * inv ((1 + 1) - a_x2 - y2)).

  (* CurveVar::scalar_mul_le (ark-r1cs-std default: little-endian double-and-add with a select per bit), on the element values:
       res = zero; multiple = self; for bit in bits { tmp = res + multiple; res = bit.select(tmp, res); multiple.double_in_place() } *)
  Definition gscalar_mul_le (p : apt) (bits : list bool) : apt :=
    fst (fold_left (fun (st : apt * apt) (b : bool) =>
                      let '(res, mult) := st in ((if b then gadd res mult else res), gdbl mult))
                   bits (mkapt 0 1, p)).

  (* LazyElementVar.inner with values *)
  Inductive wstate := WEnc (s : F) | WElt (p : apt) | WBoth (s : F) (p : apt).
  (* (all constraints so far satisfied, cache) *)
  Definition wvar := (bool * wstate)%type.

  Inductive wop :=
  | OForce                (* any use that needs the element: LazyElementVar::element() *)
  | OReadEnc              (* compress_to_field(): LazyElementVar::encoding(), value read by the caller *)
  | OReadVal              (* R1CSVar::value(): element(), coordinates read by the caller *)
  | OAdd (q : apt)        (* += / + with a variable or constant whose element has coordinates q *)
  | OSub (q : apt)
  | ODbl                  (* double_in_place *)
  | ONeg                  (* v = v.negate() *)
  | OSel (q : apt)        (* v = conditionally_select(true, v, q) *)
  | OIsEq (q : apt)       (* read v.is_eq(&w): needs the elements of both operands *)
  | OClone.               (* v = v.clone() *)
  Inductive wout := RdEnc (s : F) | RdVal (p : apt) | RdBool (b : bool).

  (* LazyElementVar::element *)
  Definition force_elt (w : wvar) : wvar * apt :=
    match snd w with
    | WEnc s => let '(sd, x, y) := decode_honest cD zeta neg sr s in ((fst w && sd, WBoth s (mkapt x y)), mkapt x y)
    | WElt p => (w, p)
    | WBoth _ p => (w, p)
    end.
  (* LazyElementVar::encoding *)
  Definition force_enc (w : wvar) : wvar * F :=
    match snd w with
    | WEnc s => (w, s)
    | WElt p => let '(se, s) := encode_honest cA cD zeta neg sr (aX p) (aY p) in ((fst w && se, WBoth s p), s)
    | WBoth s _ => (w, s)
    end.

  (* every element operation of element.rs / ops.rs reads the element and re-wraps the result with
     LazyElementVar::new_from_element: the cached encoding of the OLD value is dropped *)
  Definition rewrap (w : wvar) (f : apt -> apt) : wvar :=
    let '(w', p) := force_elt w in (fst w', WElt (f p)).

  Definition wstep (w : wvar) (o : wop) : wvar * list wout :=
    match o with
    | OForce => (fst (force_elt w), nil)
    | OReadEnc => let '(w', s) := force_enc w in (w', RdEnc s :: nil)
    | OReadVal => let '(w', p) := force_elt w in (w', RdVal p :: nil)
    | OAdd q => (rewrap w (fun p => gadd p q), nil)
    | OSub q => (rewrap w (fun p => gsub p q), nil)
    | ODbl => (rewrap w gdbl, nil)
    | ONeg => (rewrap w gneg, nil)
    | OSel q => (rewrap w (fun p => p), nil)
    | OIsEq q => let '(w', p) := force_elt w in (w', RdBool (is_eq_g (aX p) (aY p) (aX q) (aY q)) :: nil)
    | OClone => (w, nil)
    end.

  Fixpoint wrun (w : wvar) (ops : list wop) : wvar * list wout :=
    match ops with
    | nil => (w, nil)
    | o :: ops' => let '(w', r) := wstep w o in let '(w'', r') := wrun w' ops' in (w'', r ++ r')
    end.

  (* ---- the native side: the same history on a plain group element (affine specification level) ---- *)
  Variable nadd : apt -> apt -> apt.         (* the group law the native Element implements *)
  Variable nneg : apt -> apt.
  Variable nenc : apt -> F.                   (* vartime_compress_to_field *)
  Definition nstep (p : apt) (o : wop) : apt * list wout :=
    match o with
    | OForce | OSel _ | OClone => (p, nil)
    | OReadEnc => (p, RdEnc (nenc p) :: nil)
    | OReadVal => (p, RdVal p :: nil)
    | OAdd q => (nadd p q, nil)
    | OSub q => (nadd p (nneg q), nil)
    | ODbl => (nadd p p, nil)
    | ONeg => (nneg p, nil)
    | OIsEq q => (p, RdBool (is_eq_g (aX p) (aY p) (aX q) (aY q)) :: nil)
    end.
  Fixpoint nrun (p : apt) (ops : list wop) : apt * list wout :=
    match ops with
    | nil => (p, nil)
    | o :: ops' => let '(p', r) := nstep p o in let '(p'', r') := nrun p' ops' in (p'', r ++ r')
    end.
End Wrapper.
