(* Byte-level layer: little-endian (de)serialisation of field elements and the 32-byte element encoding,
   with the entry points of src/ark_curve/encoding.rs, src/ark_curve/serialize.rs, src/min_curve/encoding.rs.
   Hand-written model (trait dispatch and arkworks (de)serialisation are not arithmetic); tied to the code by
   the correspondence check. *)
Require Import ZArith List Bool.
From D377 Require Import Base.ZpField Base.FieldSec Model.Decaf.
Import ListNotations.
Open Scope Z_scope.

Definition le_bytes (n : nat) (z : Z) : list Z := map (fun i => (z / 2 ^ (8 * Z.of_nat i)) mod 256) (seq 0 n).
Definition of_le_bytes (l : list Z) : Z := fold_right (fun b acc => b + 256 * acc) 0 l.
Definition of_be_bytes (l : list Z) : Z := of_le_bytes (rev l).
Definition is_byte (b : Z) : bool := (0 <=? b) && (b <? 256).
Definition bytes_ok (l : list Z) : bool := forallb is_byte l.

Inductive dec_result {AF : AField} :=
| DOk (p : pt)
| DErrEncoding      (* EncodingError::InvalidEncoding / SerializationError::InvalidData *)
| DErrLength        (* EncodingError::InvalidSliceLength *)
| DErrIo.           (* SerializationError::IoError: reader exhausted *)

Section Bytes.
  Variable m : Z.
  Hypothesis m_pos : 0 < m.
  Local Notation Fm := (Fm m).
  Context {AF : AField}.
  Variable of_int : Z -> F.          (* canonical integer -> field element *)
  Variable to_int : F -> Z.          (* field element -> canonical integer *)
  Variable decode : F -> option pt.
  Variable encode : pt -> F.

  (* Fq::deserialize_compressed / Fq::from_bytes_checked on exactly 32 bytes: accept iff the integer is < m *)
  Definition field_from_bytes_checked (b : list Z) : option F :=
    let v := of_le_bytes b in if v <? m then Some (of_int v) else None.

  (* Encoding::vartime_decompress on a 32-byte array *)
  Definition decompress32 (b : list Z) : dec_result :=
    if negb (Z.shiftr (List.nth 31 b 0) 5 =? 0) then DErrEncoding else
    match field_from_bytes_checked b with
    | None => DErrEncoding
    | Some s => match decode s with Some p => DOk p | None => DErrEncoding end
    end.

  (* TryFrom<&[u8]> for Element / for Encoding *)
  Definition decompress_slice (b : list Z) : dec_result :=
    if Nat.eqb (length b) 32 then decompress32 b else DErrLength.

  (* CanonicalDeserialize for Element / AffinePoint: read_exact(32) from a reader holding [b] *)
  Definition deserialize_stream (b : list Z) : dec_result :=
    if Nat.ltb (length b) 32 then DErrIo else decompress32 (firstn 32 b).

  (* Element::vartime_compress: canonical little-endian bytes of the field encoding (top 3 bits are clear) *)
  Definition compress (p : pt) : list Z := le_bytes 32 (to_int (encode p)).
End Bytes.
