(* Tie: `Fq::power` (src/fields/fq.rs), regenerated from the source on every run (Generated/Curve.v, fq_power), is the exponentiation of the
   field op table (Model/FieldTable.v, power) that C10_power is about: on the concrete field Z/q the generated loop nest and the table entry
   compute the same canonical integer for every base and every limb list. *)
Require Import ZArith List Bool Lia.
From D377 Require Import Base.Certs Base.ZpField Base.FieldSec Base.Fields Model.FieldTable Model.GenPrelude Tie.Loops.
From D377 Require Generated.Curve.
Module G := Generated.Curve.
Open Scope Z_scope.

Lemma zrange_0_64 : zrange 0 64 = map Z.of_nat (seq 0 64).
Proof. reflexivity. Qed.

Theorem tie_fq_power (x : Fq) (limbs : list Z) : val (@G.fq_power FqF x limbs) = power q (val x) limbs.
Proof.
  unfold G.fq_power, power. cbv zeta. rewrite zrange_0_64.
  apply (fold_left_rel (fun (a : Fq) (z : Z) => val a = z) (fun _ => True)).
  - apply Forall_forall. intros; exact I.
  - intros a z limb _ Ha.
    apply (fold_left_rel (fun (a : Fq) (z : Z) => val a = z) (fun _ => True)).
    + apply Forall_forall. intros; exact I.
    + intros a' z' i _ Ha'. subst z'.
      destruct (Z.land (Z.shiftr limb i) 1 =? 1);
        first [ reflexivity       (* up to commuted / re-associated products of the source *)
              | unfold fmul; cbn [FieldSec.mul FqF Fm_AField]; unfold ZpField.mul; rewrite ?val_of_Z; rewrite ?Zmult_mod_idemp_l, ?Zmult_mod_idemp_r; f_equal; ring ].
    + exact Ha.
  - reflexivity.
Qed.
