(* Tie: the gadget bodies generated from src/ark_curve/r1cs/{fqvar_ext,inner}.rs (Generated/GadgetsGen.v, regenerated on
   every run by translator/rs2v_gadgets.py) are the relational gadget model Model/Gadgets.v that C13/C14 are proved about.
   Abstract field; no axioms. *)
Require Import ZArith List Bool.
From D377 Require Import Base.FieldSec Model.Decaf Model.Gadgets Generated.GadgetsGen.

Section TieGadgets.
  Context {AF : AField}.
  Add Field Ftieg : Ffield.
  Variables (cA cD zeta : F) (neg : F -> bool) (sr : F -> F -> bool * F).
  Local Notation "0" := zero. Local Notation "1" := one.

  Lemma tg_one_nz : feqb 1 0 = false.
  Proof. destruct (feqb_spec 1 0) as [E|E]; [|reflexivity]. exfalso. destruct Ffield as [_ H _ _]. exact (H E). Qed.

  (* the inversion inside isqrt is always defined: its argument is den, replaced by 1 when den = 0 *)
  (* constant input: the out-of-circuit square root, no constraint *)
  Theorem isqrt_gen_const_is x : isqrt_gen_const sr x = (true, sr 1 x).
  Proof. unfold isqrt_gen_const. destruct (sr 1 x). reflexivity. Qed.

  (* The ties below hold up to ring equalities and the order of the constraints (see Tie/Curve.v): ring-equal arguments of
     neg / isqrt_sat / feqb / inv are made syntactically equal, the sign tests are case-split, the satisfaction flags are compared
     as conjunctions up to permutation, and the output values by `ring`. *)
  Lemma feqb_sym x y : feqb x y = feqb y x.
  Proof. destruct (feqb_spec x y) as [E|E], (feqb_spec y x) as [E'|E']; try reflexivity; exfalso; [apply E'|apply E]; symmetry; assumption. Qed.
  Ltac unify1 f :=
    repeat match goal with
    | |- context [f ?a] =>
        match goal with
        | |- context [f ?b] => lazymatch a with b => fail | _ => replace a with b by ring end
        end
    end.
  Ltac unify_isqrt :=
    repeat match goal with
    | |- context [isqrt_sat zeta ?a ?w ?v] =>
        match goal with
        | |- context [isqrt_sat zeta ?b w v] => lazymatch a with b => fail | _ => replace a with b by ring end
        end
    end.
  Ltac unify_feqb :=
    repeat match goal with
    | |- context [feqb ?a ?c] =>
        match goal with
        | |- context [feqb ?b ?d] =>
            lazymatch constr:((a, c)) with (b, d) => fail
            | _ => first [ replace (feqb a c) with (feqb b d) by (f_equal; ring)
                         | replace (feqb a c) with (feqb d b) by (rewrite (feqb_sym d b); f_equal; ring) ] end
        end
    end.
  Ltac bool_perm := try reflexivity; apply eq_true_iff_eq; rewrite ?andb_true_iff; tauto.
  Theorem isqrt_gen_sat x ws y : fst (isqrt_gen zeta x ws y) = isqrt_sat zeta x ws y.
  Proof.
    unfold isqrt_gen, isqrt_sat. cbv zeta. cbn [fst snd].
    destruct (feqb x 0) eqn:E; destruct ws; cbn [negb andb orb implb]; rewrite ?tg_one_nz, ?E; cbn [negb andb orb implb];
      unify1 inv; unify_feqb; bool_perm.
  Qed.
  Theorem isqrt_gen_out x ws y : snd (isqrt_gen zeta x ws y) = (ws, y).
  Proof. reflexivity. Qed.
  Ltac gtie :=
    cbv zeta; rewrite ?isqrt_gen_sat, ?isqrt_gen_out; cbn [fst snd andb]; unfold gabs;
    repeat (first
      [ progress cbn [negb andb fst snd]
      | progress unify_isqrt
      | progress unify1 neg
      | match goal with |- context [neg ?a] => destruct (neg a) end
      | match goal with |- context [if ?b then _ else _] => is_var b; destruct b end
      | match goal with |- context [Bool.eqb ?x ?y] => destruct (Bool.eqb x y) end
      | progress unify1 inv
      | progress unify_feqb ]);
    repeat match goal with |- (_, _) = (_, _) => apply f_equal2 end;
    first [ bool_perm | ring ].

  Theorem decode_gen_is s ws y :
    decode_gen cD zeta neg s ws y = let '(sat, gx, gy) := decode_g cD zeta neg s ws y in (sat, (gx, gy)).
  Proof. unfold decode_gen, decode_g. gtie. Qed.
  Theorem encode_gen_is x y ws v :
    encode_gen cA cD zeta neg x y ws v = encode_g cA cD zeta neg x y ws v.
  Proof. unfold encode_gen, encode_g. gtie. Qed.
  Theorem elligator_gen_is r0 ws y :
    elligator_gen cA cD zeta neg r0 ws y = let '(sat, gx, gy) := elligator_g cA cD zeta neg r0 ws y in (sat, (gx, gy)).
  Proof. unfold elligator_gen, elligator_g. gtie. Qed.
End TieGadgets.

(* ---- the dependency: ark-r1cs-std AffineVar (twisted Edwards) addition and doubling, translated from the registry sources of the
   version pinned by Cargo.lock, ARE the arithmetic of Model/Wrapper.v: same output values, and the constraints they add are satisfied
   exactly when the two denominators are invertible (which Proofs/EdwardsLaw.v shows for points on the curve) ---- *)
From D377 Require Import Model.Wrapper.
Section TieAffineVar.
  Context {AF : AField}.
  Add Field Ftieav : Ffield.
  Variables (cA cD : F).
  Local Notation "0" := zero. Local Notation "1" := one.
  Local Infix "+" := add. Local Infix "*" := mul. Local Infix "-" := sub.
  Local Notation "- x" := (opp x).

  Lemma tav_inv_mul x : x <> 0 -> inv x * x = 1.
  Proof. destruct Ffield as [_ _ _ H]. exact (H x). Qed.

  Theorem affinevar_add_values p q :
    snd (affinevar_add_gen cA cD (aX p) (aY p) (aX q) (aY q)) = (aX (gadd cA cD p q), aY (gadd cA cD p q)).
  Proof. unfold affinevar_add_gen, gadd. cbv zeta. cbn [fst snd aX aY]. f_equal; f_equal; ring. Qed.

  Theorem affinevar_add_sat p q :
    let v2 := aY q * aX p * (aX q * aY p) * cD in
    1 + v2 <> 0 -> 1 - v2 <> 0 -> fst (affinevar_add_gen cA cD (aX p) (aY p) (aX q) (aY q)) = true.
  Proof.
    intros v2 H1 H2. unfold affinevar_add_gen. cbv zeta. cbn [fst snd andb].
    fold v2.
    assert (E1 : feqb (1 + v2) 0 = false) by (apply feqb_false; exact H1).
    assert (E2 : feqb (1 - v2) 0 = false) by (apply feqb_false; exact H2).
    rewrite E1, E2. cbn [negb andb].
    rewrite (proj2 (feqb_true _ _)); [rewrite (proj2 (feqb_true _ _)); [reflexivity|]|].
    - transitivity ((aX p * - cA + aY p) * (aX q + aY q) + aY q * aX p * cA - aX q * aY p) ; [|reflexivity].
      transitivity (((aX p * - cA + aY p) * (aX q + aY q) + cA * (aY q * aX p) - aX q * aY p) * (inv (1 - v2) * (1 - v2))); [ring|].
      rewrite (tav_inv_mul _ H2). ring.
    - transitivity ((aY q * aX p + aX q * aY p) * (inv (1 + v2) * (1 + v2))); [ring|]. rewrite (tav_inv_mul _ H1). ring.
  Qed.

  (* the same with the denominators in the form used by Proofs/EdwardsLaw.v (denoms_nonzero) *)
  Theorem affinevar_add_sat' p q :
    1 + cD * aX p * aY p * aX q * aY q <> 0 -> 1 - cD * aX p * aY p * aX q * aY q <> 0 ->
    fst (affinevar_add_gen cA cD (aX p) (aY p) (aX q) (aY q)) = true.
  Proof.
    intros H1 H2. apply affinevar_add_sat; intro E; [apply H1|apply H2]; rewrite <- E; ring.
  Qed.

  Theorem affinevar_double_values p :
    snd (affinevar_double_gen cA (aX p) (aY p)) = (aX (gdbl cA p), aY (gdbl cA p)).
  Proof. unfold affinevar_double_gen, gdbl. cbv zeta. cbn [fst snd aX aY]. f_equal; (f_equal; [ring | f_equal; ring]). Qed.
End TieAffineVar.
