(* Tie: the gadget bodies generated from src/ark_curve/r1cs/{fqvar_ext,inner}.rs (Generated/GadgetsGen.v, regenerated on
   every run by translator/rs2v_gadgets.py) are the relational gadget model Model/Gadgets.v that C13/C14 are proved about.
   Abstract field; no axioms. *)
Require Import ZArith List Bool.
From D377 Require Import Base.FieldSec Model.Decaf Model.Gadgets Generated.GadgetsGen.

Section TieGadgets.
  Context {AF : AField}.
  Add Field Ftieg : Ffield.
  Variables (cA cD zeta : F) (neg : F -> bool) (sr : F -> F -> bool * F).
  Local Notation "0" := zero. Local Notation "1" := one.

  Lemma tg_one_nz : feqb 1 0 = false.
  Proof. destruct (feqb_spec 1 0) as [E|E]; [|reflexivity]. exfalso. destruct Ffield as [_ H _ _]. exact (H E). Qed.

  (* the inversion inside isqrt is always defined: its argument is den, replaced by 1 when den = 0 *)
  Theorem isqrt_gen_sat x ws y : fst (isqrt_gen zeta x ws y) = isqrt_sat zeta x ws y.
  Proof.
    unfold isqrt_gen, isqrt_sat. cbv zeta. cbn [fst snd].
    destruct (feqb x 0) eqn:E; cbn [negb andb].
    - rewrite tg_one_nz. reflexivity.
    - rewrite E. reflexivity.
  Qed.
  Theorem isqrt_gen_out x ws y : snd (isqrt_gen zeta x ws y) = (ws, y).
  Proof. reflexivity. Qed.
  (* constant input: the out-of-circuit square root, no constraint *)
  Theorem isqrt_gen_const_is x : isqrt_gen_const sr x = (true, sr 1 x).
  Proof. unfold isqrt_gen_const. destruct (sr 1 x). reflexivity. Qed.

  Theorem decode_gen_is s ws y :
    decode_gen cD zeta neg s ws y = let '(sat, gx, gy) := decode_g cD zeta neg s ws y in (sat, (gx, gy)).
  Proof.
    unfold decode_gen, decode_g. cbv zeta. rewrite !isqrt_gen_sat. cbn [fst snd andb]. reflexivity.
  Qed.
  Theorem encode_gen_is x y ws v :
    encode_gen cA cD zeta neg x y ws v = encode_g cA cD zeta neg x y ws v.
  Proof.
    unfold encode_gen, encode_g. cbv zeta. rewrite !isqrt_gen_sat. cbn [fst snd andb]. reflexivity.
  Qed.
  Theorem elligator_gen_is r0 ws y :
    elligator_gen cA cD zeta neg r0 ws y = let '(sat, gx, gy) := elligator_g cA cD zeta neg r0 ws y in (sat, (gx, gy)).
  Proof.
    unfold elligator_gen, elligator_g. cbv zeta. rewrite !isqrt_gen_sat. cbn [fst snd andb]. reflexivity.
  Qed.
End TieGadgets.
