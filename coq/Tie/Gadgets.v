(* Tie: the gadget bodies generated from src/ark_curve/r1cs/{fqvar_ext,inner}.rs (Generated/GadgetsGen.v, regenerated on
   every run by translator/rs2v_gadgets.py) are the relational gadget model Model/Gadgets.v that C13/C14 are proved about.
   Abstract field; no axioms. *)
Require Import ZArith List Bool.
From D377 Require Import Base.FieldSec Model.Decaf Model.Gadgets Generated.GadgetsGen.

Section TieGadgets.
  Context {AF : AField}.
  Add Field Ftieg : Ffield.
  Variables (cA cD zeta : F) (neg : F -> bool) (sr : F -> F -> bool * F).
  Local Notation "0" := zero. Local Notation "1" := one.

  Lemma tg_one_nz : feqb 1 0 = false.
  Proof. destruct (feqb_spec 1 0) as [E|E]; [|reflexivity]. exfalso. destruct Ffield as [_ H _ _]. exact (H E). Qed.

  (* the inversion inside isqrt is always defined: its argument is den, replaced by 1 when den = 0 *)
  Theorem isqrt_gen_sat x ws y : fst (isqrt_gen zeta x ws y) = isqrt_sat zeta x ws y.
  Proof.
    unfold isqrt_gen, isqrt_sat. cbv zeta. cbn [fst snd].
    destruct (feqb x 0) eqn:E; cbn [negb andb].
    - rewrite tg_one_nz. reflexivity.
    - rewrite E. reflexivity.
  Qed.
  Theorem isqrt_gen_out x ws y : snd (isqrt_gen zeta x ws y) = (ws, y).
  Proof. reflexivity. Qed.
  (* constant input: the out-of-circuit square root, no constraint *)
  Theorem isqrt_gen_const_is x : isqrt_gen_const sr x = (true, sr 1 x).
  Proof. unfold isqrt_gen_const. destruct (sr 1 x). reflexivity. Qed.

  Theorem decode_gen_is s ws y :
    decode_gen cD zeta neg s ws y = let '(sat, gx, gy) := decode_g cD zeta neg s ws y in (sat, (gx, gy)).
  Proof.
    unfold decode_gen, decode_g. cbv zeta. rewrite !isqrt_gen_sat. cbn [fst snd andb]. reflexivity.
  Qed.
  Theorem encode_gen_is x y ws v :
    encode_gen cA cD zeta neg x y ws v = encode_g cA cD zeta neg x y ws v.
  Proof.
    unfold encode_gen, encode_g. cbv zeta. rewrite !isqrt_gen_sat. cbn [fst snd andb]. reflexivity.
  Qed.
  Theorem elligator_gen_is r0 ws y :
    elligator_gen cA cD zeta neg r0 ws y = let '(sat, gx, gy) := elligator_g cA cD zeta neg r0 ws y in (sat, (gx, gy)).
  Proof.
    unfold elligator_gen, elligator_g. cbv zeta. rewrite !isqrt_gen_sat. cbn [fst snd andb]. reflexivity.
  Qed.
End TieGadgets.

(* ---- the dependency: ark-r1cs-std AffineVar (twisted Edwards) addition and doubling, translated from the registry sources of the
   version pinned by Cargo.lock, ARE the arithmetic of Model/Wrapper.v: same output values, and the constraints they add are satisfied
   exactly when the two denominators are invertible (which Proofs/EdwardsLaw.v shows for points on the curve) ---- *)
From D377 Require Import Model.Wrapper.
Section TieAffineVar.
  Context {AF : AField}.
  Add Field Ftieav : Ffield.
  Variables (cA cD : F).
  Local Notation "0" := zero. Local Notation "1" := one.
  Local Infix "+" := add. Local Infix "*" := mul. Local Infix "-" := sub.
  Local Notation "- x" := (opp x).

  Lemma tav_inv_mul x : x <> 0 -> inv x * x = 1.
  Proof. destruct Ffield as [_ _ _ H]. exact (H x). Qed.

  Theorem affinevar_add_values p q :
    snd (affinevar_add_gen cA cD (aX p) (aY p) (aX q) (aY q)) = (aX (gadd cA cD p q), aY (gadd cA cD p q)).
  Proof. unfold affinevar_add_gen, gadd. cbv zeta. cbn [fst snd aX aY]. f_equal; f_equal; ring. Qed.

  Theorem affinevar_add_sat p q :
    let v2 := aY q * aX p * (aX q * aY p) * cD in
    1 + v2 <> 0 -> 1 - v2 <> 0 -> fst (affinevar_add_gen cA cD (aX p) (aY p) (aX q) (aY q)) = true.
  Proof.
    intros v2 H1 H2. unfold affinevar_add_gen. cbv zeta. cbn [fst snd andb].
    fold v2.
    assert (E1 : feqb (1 + v2) 0 = false) by (apply feqb_false; exact H1).
    assert (E2 : feqb (1 - v2) 0 = false) by (apply feqb_false; exact H2).
    rewrite E1, E2. cbn [negb andb].
    rewrite (proj2 (feqb_true _ _)); [rewrite (proj2 (feqb_true _ _)); [reflexivity|]|].
    - transitivity ((aX p * - cA + aY p) * (aX q + aY q) + aY q * aX p * cA - aX q * aY p) ; [|reflexivity].
      transitivity (((aX p * - cA + aY p) * (aX q + aY q) + cA * (aY q * aX p) - aX q * aY p) * (inv (1 - v2) * (1 - v2))); [ring|].
      rewrite (tav_inv_mul _ H2). ring.
    - transitivity ((aY q * aX p + aX q * aY p) * (inv (1 + v2) * (1 + v2))); [ring|]. rewrite (tav_inv_mul _ H1). ring.
  Qed.

  (* the same with the denominators in the form used by Proofs/EdwardsLaw.v (denoms_nonzero) *)
  Theorem affinevar_add_sat' p q :
    1 + cD * aX p * aY p * aX q * aY q <> 0 -> 1 - cD * aX p * aY p * aX q * aY q <> 0 ->
    fst (affinevar_add_gen cA cD (aX p) (aY p) (aX q) (aY q)) = true.
  Proof.
    intros H1 H2. apply affinevar_add_sat; intro E; [apply H1|apply H2]; rewrite <- E; ring.
  Qed.

  Theorem affinevar_double_values p :
    snd (affinevar_double_gen cA (aX p) (aY p)) = (aX (gdbl cA p), aY (gdbl cA p)).
  Proof. unfold affinevar_double_gen, gdbl. cbv zeta. cbn [fst snd aX aY]. f_equal; (f_equal; [ring | f_equal; ring]). Qed.
End TieAffineVar.
