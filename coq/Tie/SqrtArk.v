(* Tie lemma for the table-driven square root of the arkworks build: the routine regenerated from
   src/ark_curve/invsqrt.rs (sqrt_ratio_zeta) equals the model Proofs/SqrtSarkar.v reasons about.
   (The table construction SquareRootTables::new is a hand model, Model/Sqrt.v mk_tables, tied by correspondence.)
   Like the other ties it holds up to ring equalities of the field expressions (the arguments of the exponentiations and of the
   table look-ups are made syntactically equal by `ring` before the case split on each look-up). *)
Require Import ZArith List Bool Lia.
From D377 Require Import Base.FieldSec Model.Decaf Model.Sqrt Model.GenPrelude.
From D377 Require Generated.Curve.
Module G := Generated.Curve.

Section Tie.
  Context {AF : AField}.
  Add Field FTieS : Ffield.
  Ltac unify_fpow :=
    repeat match goal with
    | |- context [fpow ?a ?e] =>
        match goal with
        | |- context [fpow ?b e] => lazymatch a with b => fail | _ => replace a with b by ring end
        end
    end.
  Ltac unify_lookup T :=
    repeat match goal with
    | |- context [s_lookup T ?a] =>
        match goal with
        | |- context [s_lookup T ?b] => lazymatch a with b => fail | _ => replace a with b by ring end
        end
    end.
  Lemma tie_ark_sqrt_ratio (T : tables) (N mm : Z) (num den : F) :
    G.ark_sqrt_ratio T N mm num den = ark_sqrt_ratio T mm N num den.
  Proof.
    unfold G.ark_sqrt_ratio, ark_sqrt_ratio, byte. cbv zeta.
    first
      [ reflexivity
      | change (2 ^ 8)%Z with 256%Z; change (2 ^ 7)%Z with 128%Z;
        repeat match goal with |- context [if feqb ?a ?b then _ else _] => destruct (feqb a b) end; try reflexivity;
        repeat (rewrite ?Z.shiftr_0_r; unify_fpow; unify_lookup T;
                match goal with |- context [bind (s_lookup T ?a) _] => destruct (s_lookup T a); cbn [bind] end);
        try reflexivity; rewrite ?Z.shiftr_0_r; do 2 f_equal; ring ].
  Qed.
End Tie.
