(* Tie lemma for the table-driven square root of the arkworks build: the routine regenerated from
   src/ark_curve/invsqrt.rs (sqrt_ratio_zeta) equals the model Proofs/SqrtSarkar.v reasons about.
   (The table construction SquareRootTables::new is a hand model, Model/Sqrt.v mk_tables, tied by correspondence.) *)
Require Import ZArith List Bool Lia.
From D377 Require Import Base.FieldSec Model.Decaf Model.Sqrt Model.GenPrelude.
From D377 Require Generated.Curve.
Module G := Generated.Curve.

Section Tie.
  Context {AF : AField}.
  Lemma tie_ark_sqrt_ratio (T : tables) (N mm : Z) (num den : F) :
    G.ark_sqrt_ratio T N mm num den = ark_sqrt_ratio T mm N num den.
  Proof.
    unfold G.ark_sqrt_ratio, ark_sqrt_ratio, byte. cbv zeta.
    reflexivity.
  Qed.
End Tie.
