(* Tie lemmas for the translated loops (pow_le_limbs, our_sqrt, sqrt_ratio, scalar_mul_both). *)
Require Import ZArith List Bool Lia.
From D377 Require Import Base.FieldSec Model.Decaf Model.Sqrt Model.GenPrelude.
From D377 Require Generated.Curve.
Import ListNotations.
Module G := Generated.Curve.

Lemma land1_odd a : (Z.land a 1 =? 1)%Z = Z.odd a.
Proof.
  change 1%Z with (Z.ones 1) at 1. rewrite Z.land_ones by lia. change (2 ^ 1)%Z with 2%Z.
  rewrite Zmod_odd. destruct (Z.odd a); reflexivity.
Qed.

Lemma bit_test limb i : (Z.land (Z.shiftr limb i) 1 =? 1)%Z = Z.testbit limb i.
Proof. rewrite land1_odd. symmetry. apply Z.testbit_odd. Qed.

Lemma zrange_seq n : zrange 0 (Z.of_nat n) = map Z.of_nat (seq 0 n).
Proof. unfold zrange. rewrite Z.sub_0_r, Nat2Z.id. apply map_ext. intro; lia. Qed.

Lemma fold_left_map {A B C} (f : A -> C -> A) (g : B -> C) l a :
  fold_left f (map g l) a = fold_left (fun a b => f a (g b)) l a.
Proof. revert a. induction l as [|x l IH]; intro a; cbn; [reflexivity|apply IH]. Qed.

Lemma fold_left_ext {A B} (f g : A -> B -> A) l a : (forall a b, f a b = g a b) -> fold_left f l a = fold_left g l a.
Proof. intro H. revert a. induction l as [|x l IH]; intro a; cbn; [reflexivity|rewrite H; apply IH]. Qed.

Lemma fold_left_flat_map {A B C} (f : A -> C -> A) (g : B -> list C) l a :
  fold_left f (flat_map g l) a = fold_left (fun a b => fold_left f (g b) a) l a.
Proof. revert a. induction l as [|x l IH]; intro a; cbn [flat_map fold_left]; [reflexivity|]. rewrite fold_left_app. apply IH. Qed.

Lemma zrange_map a n : zrange a (a + Z.of_nat n) = map (fun i => (a + Z.of_nat i)%Z) (seq 0 n).
Proof. unfold zrange. replace (a + Z.of_nat n - a)%Z with (Z.of_nat n) by lia. rewrite Nat2Z.id. reflexivity. Qed.

Lemma zrange_seq_from (k n : nat) : zrange (Z.of_nat k) (Z.of_nat (k + n)) = map Z.of_nat (seq k n).
Proof.
  rewrite Nat2Z.inj_add, zrange_map. rewrite <- (seq_shift_gen k n) || idtac.
  revert k. induction n as [|n IH]; intro k; [reflexivity|].
  cbn [seq map]. f_equal; [lia|].
  rewrite <- seq_shift, map_map. specialize (IH (S k)). cbn [seq] in IH.
  rewrite <- IH. apply map_ext. intro i. lia.
Qed.

Lemma fold_left_rel {A A' B} (R : A -> A' -> Prop) (P : B -> Prop) (f : A -> B -> A) (f' : A' -> B -> A') l :
  Forall P l -> (forall a a' b, P b -> R a a' -> R (f a b) (f' a' b)) ->
  forall a a', R a a' -> R (fold_left f l a) (fold_left f' l a').
Proof.
  intros HP Hstep. induction HP as [|x l Px HP IH]; intros a a' Ha; cbn [fold_left]; [exact Ha|].
  apply IH. apply Hstep; assumption.
Qed.

Lemma zrange_2 (S : nat) : (1 <= S)%nat -> zrange 2 (Z.of_nat S + 1) = map Z.of_nat (seq 2 (S - 1)).
Proof.
  intro HS. replace (Z.of_nat S + 1)%Z with (Z.of_nat (2 + (S - 1))) by lia.
  exact (zrange_seq_from 2 (S - 1)).
Qed.

Section Tie.
  Context {AF : AField}.
  Add Field FTieL : Ffield.
  Local Notation "0" := zero. Local Notation "1" := one.
  Local Infix "+" := add. Local Infix "*" := mul. Local Infix "-" := sub.
  Local Notation "- x" := (opp x).

  Lemma tie_min_pow_le_limbs x limbs : G.min_pow_le_limbs x limbs = pow_le_limbs x limbs.
  Proof.
    unfold G.min_pow_le_limbs, pow_le_limbs, pow_le_bits, limbs_bits. cbv zeta.
    rewrite fold_left_flat_map.
    match goal with |- (let '(acc, _) := ?a in acc) = fst ?b => replace a with b; [destruct b; reflexivity|] end.
    apply fold_left_ext. intros [acc ins] limb.
    unfold limb_bits. change 64%Z with (Z.of_nat 64). rewrite zrange_seq, !fold_left_map.
    match goal with |- ?l = (let '(_, _) := ?r in _) => replace r with l; [destruct l; reflexivity|] end.
    apply fold_left_ext. intros [acc' ins'] i.
    rewrite bit_test. first [reflexivity | destruct (Z.testbit _ _); f_equal; ring].
  Qed.

  Lemma sq_fold (l : list Z) b : fold_left (fun (b : F) (_ : Z) => b * b) l b = sq_n (length l) b.
  Proof. revert b. induction l as [|x l IH]; intro b; cbn [fold_left length sq_n]; [reflexivity|apply IH]. Qed.

  Lemma tie_min_our_sqrt (S : nat) tm qnr x : (1 <= S)%nat ->
    G.min_our_sqrt (Z.of_nat S) tm qnr x = our_sqrt tm qnr S x.
  Proof.
    intro HS. unfold G.min_our_sqrt, our_sqrt. cbv zeta. rewrite tie_min_pow_le_limbs.
    rewrite (zrange_2 S HS), <- map_rev, fold_left_map.
    pose (R := fun (g : F * F * F * F) (m : F * F * F * F) =>
                 let '(b, z, c, t) := g in let '(z', t', b', c') := m in b = b' /\ z = z' /\ c = c' /\ t = t').
    lazymatch goal with |- ?L = ?Rr =>
      lazymatch L with context [fold_left ?f ?l ?i] =>
        lazymatch Rr with context [fold_left ?f' ?l ?i'] =>
          assert (HR : R (fold_left f l i) (fold_left f' l i'));
          [ | set (g := fold_left f l i) in *; set (m := fold_left f' l i') in *;
              destruct g as [[[b z] c] t], m as [[[z' t'] b'] c'];
              destruct HR as (_ & -> & _ & _); reflexivity ]
        end end end.
    apply (fold_left_rel R (fun n => (2 <= n)%nat)).
    - apply Forall_forall. intros n Hn. apply in_rev, in_seq in Hn. lia.
    - intros [[[b z] c] t] [[[z' t'] b'] c'] n Hn H. cbn in H. destruct H as (-> & -> & -> & ->).
      unfold ts_step. cbv beta iota zeta.
      rewrite sq_fold, zrange_length.
      replace (Z.to_nat (Z.of_nat n - 2 + 1 - 1)) with (n - 2)%nat by lia.
      repeat split;
        repeat (match goal with |- context [feqb ?a ?b] => destruct (feqb a b) end; cbn [negb]);
        first [reflexivity | ring].
    - unfold R. repeat split; first [reflexivity | ring].
  Qed.

  Ltac unify1 f :=
    repeat match goal with
    | |- context [f ?a] =>
        match goal with
        | |- context [f ?b] => lazymatch a with b => fail | _ => replace a with b by ring end
        end
    end.
  Ltac unify_pow :=
    repeat match goal with
    | |- context [pow_le_limbs ?a ?l] =>
        match goal with
        | |- context [pow_le_limbs ?b l] => lazymatch a with b => fail | _ => replace a with b by ring end
        end
    end.

  Lemma tie_min_sqrt_ratio (S : nat) tm mm qnr zeta num den : (1 <= S)%nat ->
    G.min_sqrt_ratio zeta (Z.of_nat S) tm mm qnr num den = min_sqrt_ratio tm mm qnr zeta S num den.
  Proof.
    intro HS. unfold G.min_sqrt_ratio, min_sqrt_ratio. cbv zeta.
    rewrite !tie_min_pow_le_limbs, !(tie_min_our_sqrt S) by exact HS.
    first [ reflexivity
          | unify_pow; unify1 (our_sqrt tm qnr S);
            repeat match goal with |- context [feqb ?a ?b] => destruct (feqb a b) end; reflexivity ].
  Qed.
End Tie.
