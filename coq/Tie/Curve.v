(* Tie lemmas: every function the translator emits from the Rust source (Generated/Curve.v) equals the
   reference model the proofs are about (Model/Decaf.v, Model/Sqrt.v).  A change of the Rust arithmetic
   changes the generated definition and breaks the corresponding lemma here. *)
Require Import ZArith List Bool Lia.
From D377 Require Import Base.FieldSec Model.Decaf Model.Sqrt Model.GenPrelude.
From D377 Require Generated.Curve.
Import ListNotations.
Module G := Generated.Curve.

Section Tie.
  Context {AF : AField}.
  Add Field FTie : Ffield.
  Variables (cA cD cK zeta : F) (neg : F -> bool) (sr : F -> F -> bool * F).
  Local Notation "0" := zero. Local Notation "1" := one.
  Local Infix "+" := add. Local Infix "*" := mul. Local Infix "-" := sub.
  Local Notation "- x" := (opp x).

  Lemma pt_ext (x y z t x' y' z' t' : F) : x = x' -> y = y' -> z = z' -> t = t' -> mkpt x y z t = mkpt x' y' z' t'.
  Proof. intros; subst; reflexivity. Qed.

  Ltac field_eq := try reflexivity; try (unfold two; ring).

  Lemma tie_ark_decode s : G.ark_decode cD neg sr mkpt s = decode cD neg sr s.
  Proof.
    unfold G.ark_decode, decode. cbv zeta. destruct (neg s); [reflexivity|].
    destruct (sr 1 _) as [b v]. destruct (negb b); [reflexivity|].
    destruct (neg _); f_equal.
  Qed.

  Lemma tie_min_decode s : G.min_decode cD neg sr mkpt s = decode cD neg sr s.
  Proof.
    unfold G.min_decode, decode. cbv zeta.
    destruct (neg s); [reflexivity|].
    replace (fofZ 4 * cD) with (cD * fofZ 4) by ring.
    destruct (sr 1 _) as [b v]. destruct (negb b); [reflexivity|].
    fold two.
    destruct (neg _); f_equal.
  Qed.

  Lemma tie_ark_encode p : G.ark_encode cA cD neg sr p = encode cA cD neg sr p.
  Proof. unfold G.ark_encode, encode. cbv zeta. destruct (sr 1 _) as [b v]. reflexivity. Qed.

  Lemma tie_min_encode p : G.min_encode cA cD neg sr p = encode cA cD neg sr p.
  Proof. unfold G.min_encode, encode. cbv zeta. destruct (sr 1 _) as [b v]. reflexivity. Qed.

  Lemma tie_ark_elligator r0 : G.ark_elligator cA cD zeta neg sr mkpt r0 = elligator cA cD zeta neg sr r0.
  Proof.
    unfold G.ark_elligator, elligator. cbv zeta. destruct (sr 1 _) as [b v].
    destruct b; destruct (Bool.eqb _ _); reflexivity.
  Qed.

  Lemma tie_min_elligator r0 : G.min_elligator cA cD zeta neg sr mkpt r0 = elligator cA cD zeta neg sr r0.
  Proof.
    unfold G.min_elligator, elligator. cbv zeta. fold two. destruct (sr 1 _) as [b v].
    destruct b; destruct (Bool.eqb _ _); reflexivity.
  Qed.

  Lemma tie_min_add p q : G.min_add cK mkpt p q = min_add cK p q.
  Proof. reflexivity. Qed.

  Lemma tie_min_double p : G.min_double mkpt p = min_double p.
  Proof. reflexivity. Qed.

  Lemma tie_min_eq p q : G.min_eq p q = min_eqE p q.
  Proof. reflexivity. Qed.

  Lemma tie_ark_eq p q : G.ark_eq p q = eqE p q.
  Proof. reflexivity. Qed.

  Lemma tie_min_is_identity p : G.min_is_identity p = is_identity p.
  Proof. reflexivity. Qed.

  Lemma tie_ark_is_identity p : G.ark_is_identity p = is_identity p.
  Proof. reflexivity. Qed.

  Lemma tie_sign_abs x : G.sign_abs neg x = fabs neg x.
  Proof. unfold G.sign_abs, fabs. destruct (neg x); reflexivity. Qed.

  (* ---- loops ---- *)
  Lemma zrange_seq n : zrange 0 (Z.of_nat n) = map Z.of_nat (seq 0 n).
  Proof. unfold zrange. rewrite Z.sub_0_r, Nat2Z.id. apply map_ext. intro; lia. Qed.

  Lemma fold_left_map {A B C} (f : A -> C -> A) (g : B -> C) l a :
    fold_left f (map g l) a = fold_left (fun a b => f a (g b)) l a.
  Proof. revert a. induction l as [|x l IH]; intro a; cbn; [reflexivity|apply IH]. Qed.

  Lemma fold_left_ext {A B} (f g : A -> B -> A) l a : (forall a b, f a b = g a b) -> fold_left f l a = fold_left g l a.
  Proof. intro H. revert a. induction l as [|x l IH]; intro a; cbn; [reflexivity|rewrite H; apply IH]. Qed.

  Lemma fold_left_flat_map {A B C} (f : A -> C -> A) (g : B -> list C) l a :
    fold_left f (flat_map g l) a = fold_left (fun a b => fold_left f (g b) a) l a.
  Proof. revert a. induction l as [|x l IH]; intro a; cbn; [reflexivity|]. rewrite fold_left_app. apply IH. Qed.

End Tie.
