(* Tie lemmas: every function the translator emits from the Rust source (Generated/Curve.v) equals the
   reference model the proofs are about (Model/Decaf.v, Model/Sqrt.v).  A change of the Rust arithmetic
   changes the generated definition and breaks the corresponding lemma here. *)
Require Import ZArith List Bool Lia.
From D377 Require Import Base.FieldSec Model.Decaf Model.Sqrt Model.GenPrelude.
From D377 Require Generated.Curve.
Import ListNotations.
Module G := Generated.Curve.

Section Tie.
  Context {AF : AField}.
  Add Field FTie : Ffield.
  Variables (cA cD cK zeta : F) (neg : F -> bool) (sr : F -> F -> bool * F).
  Local Notation "0" := zero. Local Notation "1" := one.
  Local Infix "+" := add. Local Infix "*" := mul. Local Infix "-" := sub.
  Local Notation "- x" := (opp x).

  Lemma pt_ext (x y z t x' y' z' t' : F) : x = x' -> y = y' -> z = z' -> t = t' -> mkpt x y z t = mkpt x' y' z' t'.
  Proof. intros; subst; reflexivity. Qed.

  Ltac field_eq := try reflexivity; try (unfold two; ring).

  (* The tie tactics work up to ring equalities, not syntactic identity: a semantics-preserving rewrite of the Rust
     arithmetic (commuted / re-associated products, a temporary introduced or removed, x.square() for x * x, a
     doubling written as an addition) leaves every lemma below provable.  `unify1 f` makes ring-equal arguments
     of two occurrences of the opaque function f syntactically equal; then the case split on f applies to both sides. *)
  Ltac unify1 f :=
    repeat match goal with
    | |- context [f ?a] =>
        match goal with
        | |- context [f ?b] => lazymatch a with b => fail | _ => replace a with b by (unfold two; ring) end
        end
    end.
  Ltac unify_feqb :=
    repeat match goal with
    | |- context [feqb ?a ?c] =>
        match goal with
        | |- context [feqb ?b ?d] =>
            lazymatch constr:((a, c)) with (b, d) => fail
            | _ => replace (feqb a c) with (feqb b d) by (f_equal; unfold two; ring) end
        end
    end.
  Ltac pt_eq := try reflexivity;
    first [ apply pt_ext; unfold two; ring
          | f_equal; apply pt_ext; unfold two; ring
          | f_equal; unfold two; ring
          | unfold two; ring ].
  Ltac tie :=
    cbv zeta; unfold two;
    repeat (first
      [ progress cbn [negb]
      | progress unify1 (sr 1)
      | match goal with |- context [sr 1 ?a] => destruct (sr 1 a) as [? ?] end
      | progress unify1 neg
      | match goal with |- context [if neg ?a then _ else _] => destruct (neg a) end
      | match goal with |- context [if negb ?b then _ else _] => destruct b; cbn [negb] end
      | match goal with |- context [if ?b then _ else _] => is_var b; destruct b end
      | match goal with |- context [Bool.eqb ?x ?y] => destruct (Bool.eqb x y) end ]);
    pt_eq.

  Lemma tie_ark_decode s : G.ark_decode cD neg sr mkpt s = decode cD neg sr s.
  Proof. unfold G.ark_decode, decode. tie. Qed.

  Lemma tie_min_decode s : G.min_decode cD neg sr mkpt s = decode cD neg sr s.
  Proof. unfold G.min_decode, decode. tie. Qed.

  Lemma tie_ark_encode p : G.ark_encode cA cD neg sr p = encode cA cD neg sr p.
  Proof. unfold G.ark_encode, encode, fabs. tie. Qed.

  Lemma tie_min_encode p : G.min_encode cA cD neg sr p = encode cA cD neg sr p.
  Proof. unfold G.min_encode, encode, fabs. tie. Qed.

  Lemma tie_ark_elligator r0 : G.ark_elligator cA cD zeta neg sr mkpt r0 = elligator cA cD zeta neg sr r0.
  Proof. unfold G.ark_elligator, elligator. tie. Qed.

  Lemma tie_min_elligator r0 : G.min_elligator cA cD zeta neg sr mkpt r0 = elligator cA cD zeta neg sr r0.
  Proof. unfold G.min_elligator, elligator. tie. Qed.

  Lemma tie_min_add p q : G.min_add cK mkpt p q = min_add cK p q.
  Proof. unfold G.min_add, min_add. tie. Qed.

  Lemma tie_min_double p : G.min_double mkpt p = min_double p.
  Proof. unfold G.min_double, min_double. tie. Qed.

  Lemma tie_min_eq p q : G.min_eq p q = min_eqE p q.
  Proof. unfold G.min_eq, min_eqE. cbv zeta. unify_feqb. reflexivity. Qed.

  Lemma tie_ark_eq p q : G.ark_eq p q = eqE p q.
  Proof. unfold G.ark_eq, eqE. cbv zeta. unify_feqb. reflexivity. Qed.

  Lemma tie_min_is_identity p : G.min_is_identity p = is_identity p.
  Proof. unfold G.min_is_identity, is_identity. cbv zeta. unify_feqb. reflexivity. Qed.

  Lemma tie_ark_is_identity p : G.ark_is_identity p = is_identity p.
  Proof. unfold G.ark_is_identity, is_identity. cbv zeta. unify_feqb. reflexivity. Qed.

  Lemma tie_sign_abs x : G.sign_abs neg x = fabs neg x.
  Proof. unfold G.sign_abs, fabs. tie. Qed.

  (* ---- loops ---- *)
  Lemma zrange_seq n : zrange 0 (Z.of_nat n) = map Z.of_nat (seq 0 n).
  Proof. unfold zrange. rewrite Z.sub_0_r, Nat2Z.id. apply map_ext. intro; lia. Qed.

  Lemma fold_left_map {A B C} (f : A -> C -> A) (g : B -> C) l a :
    fold_left f (map g l) a = fold_left (fun a b => f a (g b)) l a.
  Proof. revert a. induction l as [|x l IH]; intro a; cbn; [reflexivity|apply IH]. Qed.

  Lemma fold_left_ext {A B} (f g : A -> B -> A) l a : (forall a b, f a b = g a b) -> fold_left f l a = fold_left g l a.
  Proof. intro H. revert a. induction l as [|x l IH]; intro a; cbn; [reflexivity|rewrite H; apply IH]. Qed.

  Lemma fold_left_flat_map {A B C} (f : A -> C -> A) (g : B -> list C) l a :
    fold_left f (flat_map g l) a = fold_left (fun a b => fold_left f (g b) a) l a.
  Proof. revert a. induction l as [|x l IH]; intro a; cbn; [reflexivity|]. rewrite fold_left_app. apply IH. Qed.

End Tie.
