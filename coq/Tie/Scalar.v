(* Tie lemma for the translated scalar-multiplication loop of min_curve (scalar_mul_both, both CT variants). *)
Require Import ZArith List Bool Lia.
From D377 Require Import Base.FieldSec Model.Decaf Model.Sqrt Model.GenPrelude Tie.Loops Tie.Curve.
From D377 Require Generated.Curve.
Import ListNotations.
Module G := Generated.Curve.

Section Tie.
  Context {AF : AField}.
  Variable cK : F.

  Definition scalar_mul_model (p : pt) (limbs : list Z) : pt :=
    fst (fold_left (fun (st : pt * pt) (b : bool) =>
                      let '(acc, ins) := st in ((if b then min_add cK acc ins else acc), min_double ins))
                   (limbs_bits limbs) (identity, p)).

  Lemma tie_min_scalar_mul_both (CT : bool) p limbs :
    G.min_scalar_mul_both cK mkpt CT p limbs = scalar_mul_model p limbs.
  Proof.
    unfold G.min_scalar_mul_both, scalar_mul_model, limbs_bits. cbv zeta.
    rewrite fold_left_flat_map.
    match goal with |- (let '(acc, _) := ?a in acc) = fst ?b => replace a with b; [destruct b; reflexivity|] end.
    apply fold_left_ext. intros [acc ins] limb.
    unfold limb_bits. change 64%Z with (Z.of_nat 64). rewrite zrange_seq, !fold_left_map.
    match goal with |- ?l = (let '(_, _) := ?r in _) => replace r with l; [destruct l; reflexivity|] end.
    apply fold_left_ext. intros [acc' ins'] i.
    rewrite bit_test, ?(@tie_min_add AF), ?(@tie_min_double AF). destruct CT; reflexivity.
  Qed.
End Tie.
