(* Tie: the twisted Edwards formulas of the dependency ark-ec (translated from the cargo registry sources of the version pinned
   by Cargo.lock: Generated/Dep.v) with the crate's override mul_by_a (= negation) ARE the dependency model of Model/Decaf.v
   (ark_add, ark_madd, ark_double, pneg, of_affine, to_affine, ark_is_zero) that C04/C05/C06 are proved about. *)
Require Import ZArith List Bool.
From D377 Require Import Base.FieldSec Model.Decaf.
From D377 Require Generated.Dep.
Module GD := Generated.Dep.

Section TieDep.
  Context {AF : AField}.
  Variables (cD : F).
  Local Notation mul_by_a := (@GD.cfg_mul_by_a AF).

  Lemma tie_mul_by_a x : mul_by_a x = opp x.
  Proof. reflexivity. Qed.
  Lemma tie_dep_add p q : GD.dep_add cD mkpt mul_by_a p q = ark_add cD p q.
  Proof. reflexivity. Qed.
  Lemma tie_dep_madd p q : GD.dep_madd cD mkpt mul_by_a p q = ark_madd cD p q.
  Proof. reflexivity. Qed.
  Lemma tie_dep_double p : GD.dep_double mkpt mul_by_a p = ark_double p.
  Proof. reflexivity. Qed.
  Lemma tie_dep_neg p : GD.dep_neg mkpt p = pneg p.
  Proof. reflexivity. Qed.
  Lemma tie_dep_from_affine p : GD.dep_from_affine mkpt p = of_affine p.
  Proof. reflexivity. Qed.
  Lemma tie_dep_is_zero p : GD.dep_is_zero p = ark_is_zero p.
  Proof. reflexivity. Qed.
  Lemma tie_dep_to_affine p : GD.dep_to_affine p = to_affine p.
  Proof. reflexivity. Qed.
End TieDep.
