(* Every element the API can hand out is a valid representative: validity is an invariant of every
   constructor and operation (induction over API expressions), for both backends.  Also: the normalising
   constructor of the arkworks build (Projective::new) never fires its assertion on those values. *)
Require Import ZArith List Bool Lia.
From D377 Require Import Base.Certs Base.ZpField Base.FieldSec Base.Fields Model.CVal Model.Decaf Model.Sqrt Model.Bytes Model.Concrete Model.OpTable.
From D377 Require Import Spec.Edwards Spec.DecafSpec.
From D377 Require Import Generated.Consts Proofs.Instance Proofs.Projective Proofs.Final.
Import ListNotations.
Local Existing Instance FqF.

Lemma two_is : add one one = (two : Fq). Proof. reflexivity. Qed.
Lemma add11_nz : add (one : Fq) one <> zero. Proof. exact fq_two_nz. Qed.

Lemma V_add p q : validP p -> validP q -> validP (ark_add ark_D p q).
Proof. exact (@valid_add FqF ark_D d_ns m1_sq add11_nz p q). Qed.
Lemma V_sub p q : validP p -> validP q -> validP (ark_sub ark_D p q).
Proof. exact (@valid_sub FqF ark_D d_ns m1_sq add11_nz p q). Qed.
Lemma V_neg p : validP p -> validP (pneg p).
Proof. exact (@valid_neg FqF ark_D p). Qed.
Lemma V_double p : validP p -> validP (ark_double p).
Proof. exact (@valid_double FqF ark_D d_ns m1_sq add11_nz p). Qed.
Lemma V_min_add p q : validP p -> validP q -> validP (min_add min_K p q).
Proof. exact (@valid_min_add FqF ark_D d_ns m1_sq add11_nz min_K p q min_K_is_2D). Qed.
Lemma V_min_double p : validP p -> validP (min_double p).
Proof. exact (@valid_min_double FqF ark_D d_ns m1_sq add11_nz p). Qed.
Lemma V_identity : validP identity.
Proof. exact (@valid_identity FqF ark_D). Qed.
Lemma V_madd p q : validP p -> avalid fq_a ark_D q -> validP (ark_madd ark_D p q).
Proof. exact (@valid_madd FqF ark_D d_ns m1_sq add11_nz p q). Qed.
Lemma V_to_affine p : validP p -> avalid fq_a ark_D (to_affine p).
Proof. exact (@valid_to_affine FqF ark_D p). Qed.
Lemma V_of_affine q : avalid fq_a ark_D q -> validP (of_affine q).
Proof. exact (@valid_of_affine FqF ark_D q). Qed.

(* ---- decoders / hash-to-group produce valid elements ---- *)
Lemma V_ark_decode s p : ark_decode s = Some p -> validP p.
Proof. exact (F_decode_valid ark_sr ark_sr_contract s p). Qed.
Lemma V_min_decode s p : min_decode s = Some p -> validP p.
Proof. rewrite min_decode_is. exact (F_decode_valid min_sr min_sr_contract s p). Qed.
Lemma V_ark_elligator_raw r : validP (ark_elligator_raw r).
Proof. rewrite ark_elligator_raw_is. exact (F_elligator_valid ark_sr ark_sr_contract r). Qed.
Lemma V_min_elligator r : validP (min_elligator r).
Proof. rewrite min_elligator_is. exact (F_elligator_valid min_sr min_sr_contract r). Qed.

(* ---- Projective::new on a valid point: never panics, returns the normalised representative ---- *)
Lemma aff_on_curve_true (a : apt) : on_curve fq_a ark_D a -> aff_on_curve a = true.
Proof.
  intro H. unfold aff_on_curve. apply feqb_true. rewrite ark_A_is_m1. unfold on_curve in H. exact H.
Qed.

Lemma ark_new_valid p : validP p -> ark_new p = Some (of_affine (to_affine p)) /\ validP (of_affine (to_affine p)).
Proof.
  intro V. pose proof V as [W _]. unfold ark_new.
  assert (Hz : feqb (pZ p) zero = false) by (apply feqb_false; exact (proj1 W)).
  rewrite Hz. cbn [andb].
  destruct (@to_affine_correct FqF ark_D p W) as [_ Hoc].
  rewrite (aff_on_curve_true _ Hoc). split; [reflexivity|].
  apply V_of_affine, V_to_affine, V.
Qed.

Lemma ark_elligator_total r : exists p, ark_elligator r = Some p /\ validP p.
Proof.
  unfold ark_elligator. destruct (ark_new_valid _ (V_ark_elligator_raw r)) as [E V].
  eexists. split; [exact E|exact V].
Qed.

(* a decoded point is already normalised (Z = 1, T = X*Y), so Projective::new returns it unchanged *)
Lemma decode_shape (d : Fq) neg sr s p : decode d neg sr s = Some p -> pZ p = one /\ pT p = mul (pX p) (pY p).
Proof.
  unfold decode. destruct (neg s); [discriminate|]. cbv zeta.
  destruct (sr _ _) as [b v]. destruct (negb b); [discriminate|].
  intro H. injection H as <-. cbn [pZ pT pX pY]. split; reflexivity.
Qed.

Lemma ark_new_decoded s p : ark_decode s = Some p -> ark_new p = Some p.
Proof.
  intro H. pose proof (V_ark_decode s p H) as V. destruct (decode_shape _ _ _ _ _ H) as [HZ HT].
  destruct (ark_new_valid p V) as [E _]. rewrite E. f_equal.
  destruct p as [x y z t]. cbn [pZ pT pX pY] in HZ, HT. subst z t.
  unfold to_affine. cbn [pX pY pZ pT].
  destruct (feqb x zero && feqb y one && negb (feqb y zero) && feqb (mul x y) zero) eqn:Ez.
  - apply andb_prop in Ez. destruct Ez as [Ez _]. apply andb_prop in Ez. destruct Ez as [Ez _].
    apply andb_prop in Ez. destruct Ez as [Ex Ey]. apply feqb_true in Ex, Ey. subst x y.
    reflexivity.
  - rewrite feqb_refl. reflexivity.
Qed.

Lemma ark_decode_new_eq s : ark_decode_new s = Some (ark_decode s).
Proof.
  unfold ark_decode_new. destruct (ark_decode s) as [p|] eqn:H; [|reflexivity].
  rewrite (ark_new_decoded s p H). reflexivity.
Qed.

(* ---- scalar ladders preserve validity ---- *)
Lemma V_ark_mul_bigint p l : validP p -> validP (ark_mul_bigint p l).
Proof.
  intro V. unfold ark_mul_bigint. generalize (bits_be_nlz l). intro bs.
  assert (G : forall acc, validP acc -> validP (fold_left
     (fun res (b : bool) => let res := ark_double res in if b then ark_add ark_D res p else res) bs acc)).
  { induction bs as [|b bs IH]; intros acc Va; cbn [fold_left]; [exact Va|].
    apply IH. cbv zeta. destruct b; [apply V_add; [apply V_double, Va|exact V]|apply V_double, Va]. }
  apply G, V_identity.
Qed.

Lemma V_min_scalar_mul p l : validP p -> validP (min_scalar_mul p l).
Proof.
  intro V. unfold min_scalar_mul. generalize (limbs_bits l). intro bs.
  assert (G : forall acc ins, validP acc -> validP ins ->
     validP (fst (fold_left (fun (st : pt * pt) (b : bool) =>
                    let '(acc, ins) := st in ((if b then min_add min_K acc ins else acc), min_double ins)) bs (acc, ins)))).
  { induction bs as [|b bs IH]; intros acc ins Va Vi; cbn [fold_left fst]; [exact Va|].
    apply IH; [destruct b; [apply V_min_add; assumption|exact Va]|apply V_min_double, Vi]. }
  apply G; [apply V_identity|exact V].
Qed.

(* ---- the constants ---- *)
Lemma pt_out_inj (p p' : pt) : pt_out p = pt_out p' -> p = p'.
Proof.
  destruct p as [x y z t], p' as [x' y' z' t']. unfold pt_out. cbn [pX pY pZ pT].
  intro H. injection H as Hx Hy Hz Ht. apply (Fm_eq q) in Hx, Hy, Hz, Ht. subst. reflexivity.
Qed.

(* the conventional generator is the decoding of s = 8 (evaluated with the constant-time square root, which is
   cheap to run inside Coq; the table-driven routine would first build its 256-entry inverse table) *)
Lemma GEN_is_decode_8_aux : opt_pt_out (min_decode (fq 8)) = 1%Z :: pt_out ark_GEN.
Proof. vm_compute. reflexivity. Qed.
Lemma GEN_is_decode_8 : min_decode (fq 8) = Some ark_GEN.
Proof.
  pose proof GEN_is_decode_8_aux as H. destruct (min_decode (fq 8)) as [p|]; cbn [opt_pt_out] in H.
  - f_equal. apply pt_out_inj. exact (f_equal (@tl Z) H).
  - exfalso. apply (f_equal (@length Z)) in H. cbn in H. discriminate.
Qed.

Lemma V_ark_GEN : validP ark_GEN.
Proof. exact (V_min_decode _ _ GEN_is_decode_8). Qed.
Lemma min_GEN_is_ark_GEN : min_GEN = ark_GEN.
Proof. apply pt_out_inj. vm_compute. reflexivity. Qed.

Lemma Some_inj {A} (a b : A) : Some a = Some b -> a = b.
Proof. intro H. injection H as H. exact H. Qed.

(* ---- induction over API expressions ---- *)
Inductive expr :=
| EGen | EId
| EDec (s : Z)            (* decode of a field element / 32-byte string that decodes *)
| EEll (r : Z)            (* encode_to_curve *)
| EHash (r1 r2 : Z)       (* hash_to_curve *)
| EAdd (a b : expr) | ESub (a b : expr) | ENeg (a : expr) | EDbl (a : expr)
| EMul (k : list Z) (a : expr)      (* mul_bigint / scalar_mul with an integer of arbitrary length; Mul<Fr> *)
| EAff (a : expr).                  (* round trip through AffinePoint (ark) *)

Section Reach.
  (* the API of one backend *)
  Variables (GEN : pt) (dec ell : Z -> option pt) (addp subp : pt -> pt -> pt) (negp dbl affrt : pt -> pt)
            (mulp : pt -> list Z -> pt).
  Hypothesis HGEN : validP GEN.
  Hypothesis Hdec : forall s p, dec s = Some p -> validP p.
  Hypothesis Hell : forall r p, ell r = Some p -> validP p.
  Hypothesis Hadd : forall p q, validP p -> validP q -> validP (addp p q).
  Hypothesis Hsub : forall p q, validP p -> validP q -> validP (subp p q).
  Hypothesis Hneg : forall p, validP p -> validP (negp p).
  Hypothesis Hdbl : forall p, validP p -> validP (dbl p).
  Hypothesis Haff : forall p, validP p -> validP (affrt p).
  Hypothesis Hmul : forall p k, validP p -> validP (mulp p k).

  Fixpoint eval (e : expr) : option pt :=
    match e with
    | EGen => Some GEN | EId => Some identity
    | EDec s => dec s
    | EEll r => ell r
    | EHash r1 r2 => match ell r1, ell r2 with Some p1, Some p2 => Some (addp p1 p2) | _, _ => None end
    | EAdd a b => match eval a, eval b with Some p, Some p' => Some (addp p p') | _, _ => None end
    | ESub a b => match eval a, eval b with Some p, Some p' => Some (subp p p') | _, _ => None end
    | ENeg a => match eval a with Some p => Some (negp p) | None => None end
    | EDbl a => match eval a with Some p => Some (dbl p) | None => None end
    | EMul k a => match eval a with Some p => Some (mulp p k) | None => None end
    | EAff a => match eval a with Some p => Some (affrt p) | None => None end
    end.

  Theorem reachable_valid : forall e p, eval e = Some p -> validP p.
  Proof.
    induction e as [| |s|r|r1 r2|a IHa b IHb|a IHa b IHb|a IHa|a IHa|k a IHa|a IHa]; intros p H; cbn [eval] in H.
    - apply Some_inj in H. subst p. exact HGEN.
    - apply Some_inj in H. subst p. exact V_identity.
    - exact (Hdec s p H).
    - exact (Hell r p H).
    - destruct (ell r1) as [p1|] eqn:E1; [|discriminate]. destruct (ell r2) as [p2|] eqn:E2; [|discriminate].
      apply Some_inj in H. subst p. apply Hadd; [exact (Hell _ _ E1)|exact (Hell _ _ E2)].
    - destruct (eval a) as [pa|]; [|discriminate]. destruct (eval b) as [pb|]; [|discriminate].
      apply Some_inj in H; subst p. apply Hadd; [apply IHa|apply IHb]; reflexivity.
    - destruct (eval a) as [pa|]; [|discriminate]. destruct (eval b) as [pb|]; [|discriminate].
      apply Some_inj in H; subst p. apply Hsub; [apply IHa|apply IHb]; reflexivity.
    - destruct (eval a) as [pa|]; [|discriminate]. apply Some_inj in H; subst p. apply Hneg, IHa. reflexivity.
    - destruct (eval a) as [pa|]; [|discriminate]. apply Some_inj in H; subst p. apply Hdbl, IHa. reflexivity.
    - destruct (eval a) as [pa|]; [|discriminate]. apply Some_inj in H; subst p. apply Hmul, IHa. reflexivity.
    - destruct (eval a) as [pa|]; [|discriminate]. apply Some_inj in H; subst p. apply Haff, IHa. reflexivity.
  Qed.
End Reach.

Definition ark_dec_api (s : Z) : option pt := match ark_decode_new (fq s) with Some o => o | None => None end.
Definition ark_ell_api (r : Z) : option pt := ark_elligator (fq r).
Definition ark_affrt (p : pt) : pt := of_affine (to_affine p).
Definition eval_ark : expr -> option pt :=
  eval ark_GEN ark_dec_api ark_ell_api (ark_add ark_D) (ark_sub ark_D) pneg ark_double ark_affrt ark_mul_bigint.
Definition min_dec_api (s : Z) : option pt := min_decode (fq s).
Definition min_ell_api (r : Z) : option pt := Some (min_elligator (fq r)).
Definition min_sub (p q : pt) : pt := min_add min_K p (pneg q).
Definition eval_min : expr -> option pt :=
  eval min_GEN min_dec_api min_ell_api (min_add min_K) min_sub pneg min_double (fun p => p) min_scalar_mul.

Lemma RA_dec s p : ark_dec_api s = Some p -> validP p.
Proof. unfold ark_dec_api. rewrite ark_decode_new_eq. exact (V_ark_decode _ _). Qed.
Lemma RA_ell r p : ark_ell_api r = Some p -> validP p.
Proof.
  unfold ark_ell_api. destruct (ark_elligator_total (fq r)) as [p' [E V]]. rewrite E.
  intro H. apply Some_inj in H. subst p. exact V.
Qed.
Lemma RM_ell r p : min_ell_api r = Some p -> validP p.
Proof. unfold min_ell_api. intro H. apply Some_inj in H. subst p. apply V_min_elligator. Qed.
Lemma V_min_GEN : validP min_GEN. Proof. rewrite min_GEN_is_ark_GEN. exact V_ark_GEN. Qed.

Theorem reachable_valid_ark : forall e p, eval_ark e = Some p -> validP p.
Proof.
  exact (reachable_valid ark_GEN ark_dec_api ark_ell_api (ark_add ark_D) (ark_sub ark_D) pneg ark_double ark_affrt ark_mul_bigint
           V_ark_GEN RA_dec RA_ell V_add V_sub V_neg V_double (fun p V => V_of_affine _ (V_to_affine _ V))
           (fun p k V => V_ark_mul_bigint p k V)).
Qed.

Theorem reachable_valid_min : forall e p, eval_min e = Some p -> validP p.
Proof.
  exact (reachable_valid min_GEN min_dec_api min_ell_api (min_add min_K) min_sub pneg min_double (fun p => p) min_scalar_mul
           V_min_GEN (fun s p H => V_min_decode _ _ H) RM_ell V_min_add (fun p q Vp Vq => V_min_add _ _ Vp (V_neg _ Vq)) V_neg V_min_double
           (fun p V => V) (fun p k V => V_min_scalar_mul p k V)).
Qed.

(* small ring facts used by Props/C06.v, proved over an abstract field *)
Section RingFacts.
  Context {AF : AField}.
  Add Field Freach : Ffield.
  Lemma curve_from_x2_gen (a d y2 den di : F) : den = sub a (mul y2 d) -> mul di den = one ->
    add (mul a (mul di (sub one y2))) y2 = add one (mul (mul d (mul di (sub one y2))) y2).
  Proof.
    intros -> H.
    assert (E : mul (sub a (mul y2 d)) (mul di (sub one y2)) = sub one y2).
    { transitivity (mul (mul di (sub a (mul y2 d))) (sub one y2)); [ring|]. rewrite H. ring. }
    transitivity (add (mul (sub a (mul y2 d)) (mul di (sub one y2))) (add y2 (mul (mul d (mul di (sub one y2))) y2))); [ring|].
    rewrite E. ring.
  Qed.
  Lemma mul_zero_zero_gen : mul (zero : F) zero = zero. Proof. ring. Qed.
  Lemma mul_one_r_eq_gen (x : F) : mul x one = x. Proof. ring. Qed.
  Lemma opp_sq_gen (x : F) : mul (opp x) (opp x) = mul x x. Proof. ring. Qed.
End RingFacts.
Definition curve_from_x2 := @curve_from_x2_gen FqF.
Definition mul_zero_zero := @mul_zero_zero_gen FqF.
Definition mul_one_r_eq := @mul_one_r_eq_gen FqF.
Definition opp_sq := @opp_sq_gen FqF.
