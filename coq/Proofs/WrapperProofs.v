(* C13, histories on one lazily evaluated element variable (Model/Wrapper.v):
   every history of wrapper operations on a variable that starts from a curve point or from a decodable encoding
   keeps every constraint satisfied and lets the caller read exactly what the native history on a group element
   reads — whatever the order and repetition of forcing the encoding and the element; a variable that starts from
   a non-decodable encoding is unsatisfied as soon as any operation needs its element.  No axioms. *)
Require Import ZArith List Bool.
From D377 Require Import Base.FieldSec Model.Decaf Model.Gadgets Model.Wrapper Spec.Edwards Spec.DecafSpec.
From D377 Require Import Proofs.EdwardsLaw Proofs.Codec Proofs.GadgetProofs Proofs.Ladder.
Require Import Lia.

Section WrapperProofs.
  Context {AF : AField}.
  Add Field Fwrap : Ffield.
  Local Notation "0" := zero. Local Notation "1" := one.
  Local Infix "+" := add. Local Infix "*" := mul. Local Infix "-" := sub. Local Infix "/" := div.
  Local Notation "- x" := (opp x).

  Variables (d zeta : F) (neg : F -> bool) (sr : F -> F -> bool * F).
  Local Notation a := (opp one).

  Hypothesis Hsr : sqrt_ratio_contract zeta sr.
  Hypothesis zeta_ns : forall w, w * w <> zeta.
  Hypothesis neg0 : neg 0 = false.
  Hypothesis neg_opp : forall x, x <> 0 -> neg (- x) = negb (neg x).
  Hypothesis two_nz : two <> 0.
  Hypothesis d_ns : forall w, w * w <> d.
  Hypothesis amd_ns : forall w, w * w <> a - d.
  Hypothesis m1_sq : exists i, i * i = - (1).

  Local Notation on_curve := (on_curve a d).
  Local Notation ed_add := (ed_add a d).
  Local Notation decode := (decode d neg sr).
  Local Notation encode := (encode a d neg sr).
  Local Notation gadd := (gadd a d).
  Local Notation gsub := (gsub a d).
  Local Notation gdbl := (gdbl a).
  Local Notation wstep := (wstep a d zeta neg sr).
  Local Notation wrun := (wrun a d zeta neg sr).
  Local Notation force_elt := (force_elt d zeta neg sr).
  Local Notation force_enc := (force_enc a d zeta neg sr).

  (* the native side: the specified group law, and the native field encoding of the affine point *)
  Definition nenc (p : apt) : F := encode (of_affine p).
  Local Notation nstep := (nstep ed_add ed_neg nenc).
  Local Notation nrun := (nrun ed_add ed_neg nenc).

  Lemma w_a_sq : exists sa, sa * sa = a. Proof. exact m1_sq. Qed.
  Lemma w_two_nz : 1 + 1 <> 0. Proof. exact two_nz. Qed.

  (* ------------------------------------------------------------------ *)
  (* the AffineVar arithmetic is the specified law *)
  Lemma apt_ext (p q : apt) : aX p = aX q -> aY p = aY q -> p = q.
  Proof. destruct p, q; simpl; intros -> ->; reflexivity. Qed.

  Lemma gadd_spec p q : gadd p q = ed_add p q.
  Proof.
    unfold Wrapper.gadd, Edwards.ed_add. apply apt_ext; cbn [aX aY]; rewrite Codec.div_def.
    - f_equal; [ring|f_equal; ring].
    - f_equal; [ring|f_equal; ring].
  Qed.
  Lemma gneg_spec p : gneg p = ed_neg p. Proof. reflexivity. Qed.
  Lemma gsub_spec p q : gsub p q = ed_add p (ed_neg q).
  Proof. unfold Wrapper.gsub. rewrite gadd_spec. reflexivity. Qed.
  Lemma gdbl_spec p : on_curve p -> gdbl p = ed_add p p.
  Proof.
    intro Hp. unfold Edwards.on_curve in Hp. unfold Wrapper.gdbl, Edwards.ed_add.
    apply apt_ext; cbn [aX aY]; rewrite Codec.div_def.
    - f_equal; [ring|f_equal]. transitivity (a * (aX p * aX p) + aY p * aY p); [ring|]. rewrite Hp. ring.
    - f_equal; [ring|f_equal].
      transitivity ((1 + 1) - (a * (aX p * aX p) + aY p * aY p)); [ring|]. rewrite Hp. ring.
  Qed.

  (* ------------------------------------------------------------------ *)
  (* the scalar-multiplication gadget: for EVERY bit string (any length) the little-endian ladder returns the k-fold sum, k the
     integer the bits denote *)
  Lemma gsm_loop (P : apt) : on_curve P ->
    forall bits res mult n m, res = ed_nsmul a d n P -> mult = ed_nsmul a d m P ->
      fst (fold_left (fun (st : apt * apt) (b : bool) =>
                        let '(res, mult) := st in ((if b then gadd res mult else res), gdbl mult)) bits (res, mult))
      = ed_nsmul a d (n + m * le_nat bits) P.
  Proof.
    intro HP. induction bits as [|b r IH]; intros res mult n m Hr Hm.
    - cbn [fold_left fst le_nat]. rewrite Hr. f_equal. lia.
    - cbn [fold_left le_nat].
      assert (Hm2 : gdbl mult = ed_nsmul a d (2 * m) P).
      { rewrite gdbl_spec; [|rewrite Hm; apply (ed_nsmul_on_curve a d w_a_sq d_ns w_two_nz); exact HP].
        rewrite Hm. replace (2 * m)%nat with (m + m)%nat by lia. symmetry.
        apply (ed_nsmul_add a d w_a_sq d_ns w_two_nz). exact HP. }
      destruct b; cbn [b2n].
      + assert (Ha : gadd res mult = ed_nsmul a d (n + m) P).
        { rewrite gadd_spec, Hr, Hm. symmetry. apply (ed_nsmul_add a d w_a_sq d_ns w_two_nz). exact HP. }
        rewrite (IH _ _ _ _ Ha Hm2). f_equal. lia.
      + rewrite (IH _ _ _ _ Hr Hm2). f_equal. lia.
  Qed.
  Theorem gscalar_mul_le_correct P bits : on_curve P ->
    gscalar_mul_le a d P bits = ed_nsmul a d (le_nat bits) P.
  Proof.
    intro HP. unfold gscalar_mul_le.
    rewrite (gsm_loop P HP bits (mkapt 0 1) P 0%nat 1%nat); [f_equal; lia|reflexivity|symmetry; apply ed_nsmul_1].
  Qed.

  (* ------------------------------------------------------------------ *)
  (* decode: shape of accepted results *)
  Lemma decode_shape s P : decode s = Some P ->
    P = of_affine (mkapt (pX P) (pY P)) /\ on_curve (mkapt (pX P) (pY P)).
  Proof.
    intro H. assert (Hv : valid a d P) by (eapply (Codec.decode_wf_valid d zeta neg sr); eassumption).
    assert (Hd : exists k x, P = mkpt x k 1 (x * k)).
    { edestruct (Codec.decode_some d zeta neg sr) as (k & x & _ & _ & _ & _ & _ & E); [eassumption..|]. eexists; eexists; exact E. }
    destruct Hd as (k & x & ->).
    split; [reflexivity|].
    destruct Hv as [(_ & _ & Hc) _]. cbn [pX pY pZ pT] in Hc. unfold Edwards.on_curve. cbn [aX aY pX pY].
    rewrite Hc. ring.
  Qed.

  Lemma decode_honest_some s P : decode s = Some P ->
    decode_honest d zeta neg sr s = (true, pX P, pY P).
  Proof.
    intro H. pose proof (decode_honest_iff d zeta neg sr Hsr s) as Hi.
    destruct (decode_honest d zeta neg sr s) as [[sat x] y].
    destruct Hi as [[_ Hs] Hxy]. destruct (Hxy P H) as [-> ->]. rewrite Hs; [reflexivity|exists P; exact H].
  Qed.
  Lemma decode_honest_none s : decode s = None ->
    fst (fst (decode_honest d zeta neg sr s)) = false.
  Proof.
    intro H. pose proof (decode_honest_iff d zeta neg sr Hsr s) as Hi.
    destruct (decode_honest d zeta neg sr s) as [[sat x] y]. cbn [fst].
    destruct Hi as [[Hs _] _]. destruct sat; [|reflexivity].
    destruct (Hs eq_refl) as [P HP]. rewrite H in HP. discriminate.
  Qed.

  (* ------------------------------------------------------------------ *)
  (* the invariant of a variable under honest synthesis, and its abstraction to a group element *)
  Definition winv (st : wstate) : Prop :=
    match st with
    | WEnc s => exists P, decode s = Some P
    | WElt p => on_curve p
    | WBoth s p => on_curve p /\ s = nenc p
    end.
  Definition wabs (st : wstate) : apt :=
    match st with
    | WEnc s => match decode s with Some P => mkapt (pX P) (pY P) | None => mkapt 0 1 end
    | WElt p => p
    | WBoth _ p => p
    end.
  Definition op_ok (o : wop) : Prop :=
    match o with OAdd q | OSub q | OSel q => on_curve q | _ => True end.

  Lemma wabs_on_curve st : winv st -> on_curve (wabs st).
  Proof.
    destruct st as [s|p|s p]; cbn [winv wabs].
    - intros [P HP]. rewrite HP. exact (proj2 (decode_shape s P HP)).
    - auto.
    - intros [H _]; exact H.
  Qed.

  Lemma force_elt_ok w : winv (snd w) ->
    let '(w', p) := force_elt w in
    fst w' = fst w /\ winv (snd w') /\ wabs (snd w') = wabs (snd w) /\ p = wabs (snd w).
  Proof.
    destruct w as [b st]. cbn [snd fst]. destruct st as [s|p|s p]; unfold Wrapper.force_elt; cbn [snd fst winv wabs].
    - intros [P HP]. rewrite (decode_honest_some s P HP), HP. cbn [fst snd winv wabs].
      destruct (decode_shape s P HP) as [HPa Hc].
      assert (Hs : s = nenc (mkapt (pX P) (pY P))).
      { unfold nenc. rewrite <- HPa. symmetry.
        eapply (Codec.enc_dec d zeta neg sr); eassumption. }
      rewrite andb_true_r. repeat split; auto.
    - intro Hc. repeat split; auto.
    - intros [Hc Hs]. repeat split; auto.
  Qed.

  Lemma force_enc_ok w : winv (snd w) ->
    let '(w', s) := force_enc w in
    fst w' = fst w /\ winv (snd w') /\ wabs (snd w') = wabs (snd w) /\ s = nenc (wabs (snd w)).
  Proof.
    destruct w as [b st]. cbn [snd fst]. destruct st as [s|p|s p]; unfold Wrapper.force_enc; cbn [snd fst winv wabs].
    - intros [P HP]. cbn [fst snd winv wabs]. rewrite HP. repeat split; [eexists; reflexivity|].
      destruct (decode_shape s P HP) as [HPa _]. unfold nenc. rewrite <- HPa. symmetry.
      eapply (Codec.enc_dec d zeta neg sr); eassumption.
    - intro Hc. rewrite (encode_honest_eq d zeta neg sr Hsr (aX p) (aY p)). cbn [fst snd winv wabs].
      rewrite andb_true_r. assert (E : mkapt (aX p) (aY p) = p) by (destruct p; reflexivity). rewrite E.
      repeat split; auto.
    - intros [Hc Hs]. repeat split; auto.
  Qed.

  Lemma rewrap_ok w f g : winv (snd w) ->
    (forall p, on_curve p -> f p = g p /\ on_curve (g p)) ->
    let w' := rewrap d zeta neg sr w f in
    fst w' = fst w /\ winv (snd w') /\ wabs (snd w') = g (wabs (snd w)).
  Proof.
    intros Hi Hf. unfold Wrapper.rewrap. pose proof (force_elt_ok w Hi) as H.
    destruct (force_elt w) as [w1 p]. destruct H as (Hb & Hi1 & Ha & Hp).
    cbn [fst snd winv wabs]. subst p. destruct (Hf (wabs (snd w)) (wabs_on_curve _ Hi)) as [E Hc].
    rewrite E. repeat split; auto.
  Qed.

  (* one step: constraints stay satisfied, the invariant is kept, the step commutes with the abstraction and
     lets the caller read what the native step reads *)
  Theorem wstep_refines w o : winv (snd w) -> op_ok o ->
    let '(w', r) := wstep w o in
    fst w' = fst w /\ winv (snd w') /\ wabs (snd w') = fst (nstep (wabs (snd w)) o) /\ r = snd (nstep (wabs (snd w)) o).
  Proof.
    intros Hi Ho. pose proof (wabs_on_curve _ Hi) as Hc0.
    destruct o as [| | |q|q| | |q|q|]; cbn [Wrapper.wstep Wrapper.nstep fst snd op_ok] in *.
    - pose proof (force_elt_ok w Hi) as H. destruct (force_elt w) as [w1 p]. cbn [fst]. tauto.
    - pose proof (force_enc_ok w Hi) as H. destruct (force_enc w) as [w1 s]. destruct H as (? & ? & ? & ->). auto.
    - pose proof (force_elt_ok w Hi) as H. destruct (force_elt w) as [w1 p]. destruct H as (? & ? & ? & ->). auto.
    - destruct (rewrap_ok w (fun p => gadd p q) (fun p => ed_add p q) Hi) as (? & ? & ?); [|auto].
      intros p Hp. split; [apply gadd_spec|]. apply (ed_add_on_curve a d w_a_sq d_ns w_two_nz); assumption.
    - destruct (rewrap_ok w (fun p => gsub p q) (fun p => ed_add p (ed_neg q)) Hi) as (? & ? & ?); [|auto].
      intros p Hp. split; [apply gsub_spec|].
      apply (ed_add_on_curve a d w_a_sq d_ns w_two_nz); [assumption|]. apply ed_neg_on_curve. assumption.
    - destruct (rewrap_ok w gdbl (fun p => ed_add p p) Hi) as (? & ? & ?); [|auto].
      intros p Hp. split; [apply gdbl_spec; assumption|]. apply (ed_add_on_curve a d w_a_sq d_ns w_two_nz); assumption.
    - destruct (rewrap_ok w gneg ed_neg Hi) as (? & ? & ?); [|auto].
      intros p Hp. split; [reflexivity|]. apply ed_neg_on_curve. assumption.
    - destruct (rewrap_ok w (fun p => p) (fun p => p) Hi) as (? & ? & ?); [|auto].
      intros p Hp. split; [reflexivity|assumption].
    - pose proof (force_elt_ok w Hi) as H. destruct (force_elt w) as [w1 p]. destruct H as (? & ? & ? & ->). auto.
    - auto.
  Qed.

  (* every history *)
  Theorem wrun_refines ops : forall w, winv (snd w) -> Forall op_ok ops ->
    fst (fst (wrun w ops)) = fst w /\ winv (snd (fst (wrun w ops))) /\
    wabs (snd (fst (wrun w ops))) = fst (nrun (wabs (snd w)) ops) /\
    snd (wrun w ops) = snd (nrun (wabs (snd w)) ops).
  Proof.
    induction ops as [|o ops IH]; intros w Hi Hall.
    - cbn [Wrapper.wrun Wrapper.nrun fst snd]. auto.
    - inversion Hall as [|? ? Ho Hall']; subst.
      cbn [Wrapper.wrun Wrapper.nrun]. pose proof (wstep_refines w o Hi Ho) as Hs.
      destruct (wstep w o) as [w1 r1]. destruct Hs as (Hb & Hi1 & Ha & Hr).
      destruct (nstep (wabs (snd w)) o) as [p1 n1]. cbn [fst snd] in Ha, Hr. subst n1.
      specialize (IH w1 Hi1 Hall'). rewrite Ha in IH.
      destruct (wrun w1 ops) as [w2 r2]. destruct (nrun p1 ops) as [p2 n2]. cbn [fst snd] in *.
      destruct IH as (Hb2 & Hi2 & Ha2 & Hr2). rewrite Hb2, Hb, Hr2. auto.
  Qed.

  (* forcing order and repetition change no value: two histories that differ only by forcing operations and reads
     leave the variable denoting the same element *)
  Definition is_force (o : wop) : bool :=
    match o with OForce | OReadEnc | OReadVal | OIsEq _ | OClone => true | _ => false end.
  Lemma nrun_forces_id ops p : forallb is_force ops = true -> fst (nrun p ops) = p.
  Proof.
    revert p. induction ops as [|o ops IH]; intros p H; [reflexivity|].
    cbn [forallb] in H. apply andb_true_iff in H. destruct H as [Ho H].
    cbn [Wrapper.nrun]. destruct o; try discriminate; cbn [Wrapper.nstep];
      specialize (IH p H); destruct (nrun p ops) as [p' r']; cbn [fst] in *; exact IH.
  Qed.
  Theorem forcing_changes_no_value ops w : winv (snd w) -> forallb is_force ops = true ->
    wabs (snd (fst (wrun w ops))) = wabs (snd w) /\ fst (fst (wrun w ops)) = fst w.
  Proof.
    intros Hi Hf. assert (Hall : Forall op_ok ops).
    { apply Forall_forall. intros o Ho. rewrite forallb_forall in Hf. specialize (Hf o Ho). destruct o; try discriminate; exact I. }
    destruct (wrun_refines ops w Hi Hall) as (Hb & _ & Ha & _). rewrite Ha, nrun_forces_id; auto.
  Qed.

  (* ------------------------------------------------------------------ *)
  (* a variable allocated from a non-decodable encoding: unsatisfied as soon as its element is needed *)
  Definition needs_elt (o : wop) : bool := match o with OReadEnc | OClone => false | _ => true end.
  Lemma sat_monotone_step w o : fst w = false -> fst (fst (wstep w o)) = false.
  Proof.
    destruct w as [b st]. cbn [fst]. intros ->.
    destruct o; cbn [Wrapper.wstep]; unfold Wrapper.rewrap, Wrapper.force_elt, Wrapper.force_enc; cbn [fst snd];
      destruct st as [s|p|s p]; cbn [fst snd];
      try (destruct (decode_honest d zeta neg sr s) as [[sd x] y]); try (destruct (encode_honest a d zeta neg sr (aX p) (aY p)) as [se s']);
      reflexivity.
  Qed.
  Lemma sat_monotone ops : forall w, fst w = false -> fst (fst (wrun w ops)) = false.
  Proof.
    induction ops as [|o ops IH]; intros w H; [exact H|].
    cbn [Wrapper.wrun]. pose proof (sat_monotone_step w o H) as H1.
    destruct (wstep w o) as [w1 r1]. cbn [fst] in H1. specialize (IH w1 H1).
    destruct (wrun w1 ops) as [w2 r2]. exact IH.
  Qed.
  Theorem invalid_encoding_unsat s ops b : decode s = None -> existsb needs_elt ops = true ->
    fst (fst (wrun (b, WEnc s) ops)) = false.
  Proof.
    intros Hd. induction ops as [|o ops IH]; intro H; [discriminate|].
    cbn [existsb] in H. cbn [Wrapper.wrun].
    destruct (needs_elt o) eqn:Eo.
    - assert (H1 : fst (fst (wstep (b, WEnc s) o)) = false).
      { pose proof (decode_honest_none s Hd) as Hn.
        destruct o; try discriminate; cbn [Wrapper.wstep]; unfold Wrapper.rewrap, Wrapper.force_elt; cbn [fst snd];
          destruct (decode_honest d zeta neg sr s) as [[sd x] y]; cbn [fst snd] in *; subst sd; rewrite andb_false_r; reflexivity. }
      destruct (wstep (b, WEnc s) o) as [w1 r1]. cbn [fst] in H1. pose proof (sat_monotone ops w1 H1) as H2.
      destruct (wrun w1 ops) as [w2 r2]. exact H2.
    - cbn [orb] in H. specialize (IH H).
      destruct o; try discriminate; cbn [Wrapper.wstep]; unfold Wrapper.force_enc; cbn [fst snd];
        destruct (wrun (b, WEnc s) ops) as [w2 r2]; exact IH.
  Qed.
End WrapperProofs.
