(* Field layer lemmas (C10, C11): the executable field model of Model/FieldTable.v computes exact modular
   arithmetic.  Plain Z / list arithmetic; no axioms. *)
Require Import ZArith List Lia Bool Znumtheory.
From D377 Require Base.Fermat.
From D377 Require Import Base.Certs Model.CVal Model.Bytes Model.FieldTable Proofs.BytesLemmas.
Import ListNotations.
Open Scope Z_scope.

(* ------------------------------------------------------------------ *)
(* 0. generic helpers *)

Lemma fold_left_rev_fr {A B} (f : A -> B -> A) l i :
  fold_left f (rev l) i = fold_right (fun x a => f a x) i l.
Proof.
  induction l as [|x l IH]; cbn [rev fold_right]; [reflexivity|].
  rewrite fold_left_app. cbn [fold_left]. rewrite IH. reflexivity.
Qed.

Lemma pow_mod_l a e m : 0 < m -> 0 <= e -> (a mod m) ^ e mod m = a ^ e mod m.
Proof.
  intros Hm He. pattern e. apply natlike_ind; [reflexivity | | exact He].
  intros k Hk IH. rewrite !Z.pow_succ_r by exact Hk.
  rewrite Z.mul_mod, IH, Z.mod_mod, <- Z.mul_mod by lia. reflexivity.
Qed.

(* ------------------------------------------------------------------ *)
(* 1. powm *)

Lemma powm_pos_spec a e m : 0 < m -> powm_pos a e m = a ^ Zpos e mod m.
Proof.
  intro Hm. induction e as [e IH|e IH|]; cbn [powm_pos].
  - rewrite IH, Pos2Z.inj_xI.
    replace (2 * Z.pos e + 1) with (1 + Z.pos e + Z.pos e) by lia.
    rewrite !Z.pow_add_r, Z.pow_1_r by lia.
    rewrite <- Z.mul_mod, Zmult_mod_idemp_r by lia. f_equal. ring.
  - rewrite IH, Pos2Z.inj_xO.
    replace (2 * Z.pos e) with (Z.pos e + Z.pos e) by lia.
    rewrite Z.pow_add_r by lia. rewrite <- Z.mul_mod by lia. reflexivity.
  - rewrite Z.pow_1_r. reflexivity.
Qed.

Lemma powm_spec a e m : 0 < m -> 0 <= e -> powm a e m = a ^ e mod m.
Proof.
  intros Hm He. destruct e as [|e|e]; cbn [powm].
  - reflexivity.
  - apply powm_pos_spec. exact Hm.
  - lia.
Qed.

(* ------------------------------------------------------------------ *)
(* 2. arithmetic is exact and canonical; 3. iterators *)

Section Arith.
  Variable m : Z.
  Hypothesis m_gt1 : 1 < m.

  Lemma fadd_spec x y : 0 <= fadd m x y < m /\ fadd m x y = (x + y) mod m.
  Proof. unfold fadd. split; [apply Z.mod_pos_bound; lia | reflexivity]. Qed.
  Lemma fsub_spec x y : 0 <= fsub m x y < m /\ fsub m x y = (x - y) mod m.
  Proof. unfold fsub. split; [apply Z.mod_pos_bound; lia | reflexivity]. Qed.
  Lemma fmul_spec x y : 0 <= fmul m x y < m /\ fmul m x y = (x * y) mod m.
  Proof. unfold fmul. split; [apply Z.mod_pos_bound; lia | reflexivity]. Qed.
  Lemma fneg_spec x : 0 <= fneg m x < m /\ fneg m x = (- x) mod m.
  Proof. unfold fneg. split; [apply Z.mod_pos_bound; lia | reflexivity]. Qed.

  Lemma fpow_z_spec x e : 0 <= e -> fpow_z m x e = x ^ e mod m.
  Proof. intro He. unfold fpow_z. apply powm_spec; lia. Qed.

  Lemma fpow_z_range x e : 0 <= e -> 0 <= fpow_z m x e < m.
  Proof. intro He. rewrite fpow_z_spec by exact He. apply Z.mod_pos_bound; lia. Qed.

  Lemma finv_spec x : 2 <= m -> finv m x = x ^ (m - 2) mod m.
  Proof. intro H. unfold finv. apply fpow_z_spec. lia. Qed.

  Lemma finv_range x : 0 <= finv m x < m.
  Proof. unfold finv. apply fpow_z_range. lia. Qed.

  Lemma finv_correct : prime m -> forall x, 0 <= x < m -> x <> 0 -> fmul m x (finv m x) = 1.
  Proof.
    intros m_prime x Hx Hx0. unfold fmul. rewrite finv_spec by lia.
    rewrite Zmult_mod_idemp_r.
    replace (x * x ^ (m - 2)) with (x ^ (m - 1)).
    - apply Fermat.fermat_little; [exact m_prime|].
      intro D. apply Z.divide_pos_le in D; lia.
    - replace (m - 1) with (Z.succ (m - 2)) by lia. rewrite Z.pow_succ_r by lia. reflexivity.
  Qed.

  (* the same for non-canonical arguments (the table reduces its inputs nowhere else) *)
  Lemma finv_correct_mod : prime m -> forall x, x mod m <> 0 -> fmul m x (finv m x) = 1.
  Proof.
    intros m_prime x Hx0. unfold fmul. rewrite finv_spec by lia.
    rewrite Zmult_mod_idemp_r.
    replace (x * x ^ (m - 2)) with (x ^ (m - 1)).
    - apply Fermat.fermat_little; [exact m_prime|].
      intro D. apply Hx0. apply Z.mod_divide; [lia | exact D].
    - replace (m - 1) with (Z.succ (m - 2)) by lia. rewrite Z.pow_succ_r by lia. reflexivity.
  Qed.

  (* Sum / Product *)
  Lemma fold_fadd_gen l a : fold_left (fadd m) l (a mod m) = (a + fold_right Z.add 0 l) mod m.
  Proof.
    revert a. induction l as [|x l IH]; intro a; cbn [fold_left fold_right].
    - rewrite Z.add_0_r. reflexivity.
    - replace (fadd m (a mod m) x) with ((a + x) mod m)
        by (unfold fadd; rewrite Zplus_mod_idemp_l; reflexivity).
      rewrite IH. f_equal. ring.
  Qed.

  Lemma sum_spec l : fold_left (fadd m) l 0 = (fold_right Z.add 0 l) mod m.
  Proof. rewrite <- (Z.mod_0_l m) at 1 by lia. rewrite fold_fadd_gen. reflexivity. Qed.

  Lemma fold_fmul_gen l a : fold_left (fmul m) l (a mod m) = (a * fold_right Z.mul 1 l) mod m.
  Proof.
    revert a. induction l as [|x l IH]; intro a; cbn [fold_left fold_right].
    - rewrite Z.mul_1_r. reflexivity.
    - replace (fmul m (a mod m) x) with ((a * x) mod m)
        by (unfold fmul; rewrite Zmult_mod_idemp_l; reflexivity).
      rewrite IH. f_equal. ring.
  Qed.

  Lemma product_spec l : fold_left (fmul m) l (1 mod m) = (fold_right Z.mul 1 l) mod m.
  Proof. rewrite fold_fmul_gen. rewrite Z.mul_1_l. reflexivity. Qed.
End Arith.

(* ------------------------------------------------------------------ *)
(* 4. chunks and from_le_bytes_mod_order *)

Lemma of_le_bytes_app a b :
  of_le_bytes (a ++ b) = of_le_bytes a + 2 ^ (8 * Z.of_nat (length a)) * of_le_bytes b.
Proof.
  induction a as [|x a IH].
  - cbn [app length]. change (of_le_bytes nil) with 0. change (8 * Z.of_nat 0) with 0.
    rewrite Z.pow_0_r. lia.
  - cbn [app length]. rewrite !of_le_bytes_cons, IH, pow8_S. ring.
Qed.

Lemma bytes_ok_app a b : bytes_ok (a ++ b) = bytes_ok a && bytes_ok b.
Proof. unfold bytes_ok. apply forallb_app. Qed.

Lemma bytes_ok_rev l : bytes_ok (rev l) = bytes_ok l.
Proof.
  induction l as [|x l IH]; [reflexivity|].
  cbn [rev]. rewrite bytes_ok_app, IH. unfold bytes_ok. cbn [forallb].
  rewrite andb_true_r. apply andb_comm.
Qed.

Section Chunks.
  Variable n8 : nat.
  Hypothesis n8_pos : (0 < n8)%nat.

  Lemma chunks_nil : chunks n8 nil = nil.
  Proof. reflexivity. Qed.

  Lemma chunks_aux_nil fuel : chunks_aux n8 fuel nil = nil.
  Proof. destruct fuel; reflexivity. Qed.

  Lemma chunks_aux_cons fuel l : l <> nil ->
    chunks_aux n8 (S fuel) l = firstn n8 l :: chunks_aux n8 fuel (skipn n8 l).
  Proof. intro H. destruct l; [congruence | reflexivity]. Qed.

  Lemma skipn_shorter (l : list Z) : l <> nil -> (length (skipn n8 l) < length l)%nat.
  Proof.
    intro H. rewrite skipn_length. destruct l; [congruence|]. cbn [length]. lia.
  Qed.

  Lemma chunks_aux_concat fuel : forall l, (length l < fuel)%nat -> concat (chunks_aux n8 fuel l) = l.
  Proof.
    induction fuel as [|fuel IH]; intros l Hl; [lia|].
    destruct l as [|x l]; [reflexivity|].
    rewrite chunks_aux_cons by discriminate. cbn [concat].
    rewrite IH.
    - apply firstn_skipn.
    - pose proof (skipn_shorter (x :: l) ltac:(discriminate)). lia.
  Qed.

  Lemma chunks_concat l : concat (chunks n8 l) = l.
  Proof. unfold chunks. apply chunks_aux_concat. lia. Qed.

  Lemma chunks_aux_length fuel : forall l c, In c (chunks_aux n8 fuel l) -> (0 < length c <= n8)%nat.
  Proof.
    induction fuel as [|fuel IH]; intros l c Hc; [destruct Hc|].
    destruct l as [|x l]; [destruct Hc|].
    rewrite chunks_aux_cons in Hc by discriminate. destruct Hc as [<- | Hc].
    - rewrite firstn_length. cbn [length]. lia.
    - eapply IH. exact Hc.
  Qed.

  Lemma chunks_length l c : In c (chunks n8 l) -> (0 < length c <= n8)%nat.
  Proof. apply chunks_aux_length. Qed.

  (* every chunk but the last is full *)
  Lemma chunks_aux_full fuel : forall l, (length l < fuel)%nat ->
    forall cs c, chunks_aux n8 fuel l = cs ++ c :: nil ->
    Forall (fun c' => length c' = n8) cs.
  Proof.
    induction fuel as [|fuel IH]; intros l Hl cs c E; [lia|].
    destruct l as [|x l]; [destruct cs; discriminate|].
    rewrite chunks_aux_cons in E by discriminate.
    destruct cs as [|c0 cs]; [constructor|].
    cbn [app] in E. injection E as E0 E1. constructor.
    - subst c0. rewrite firstn_length.
      destruct (le_lt_dec n8 (length (x :: l))) as [Hle|Hlt]; [lia|].
      rewrite skipn_all2 in E1 by lia. rewrite chunks_aux_nil in E1. destruct cs; discriminate.
    - eapply IH; [|exact E1].
      pose proof (skipn_shorter (x :: l) ltac:(discriminate)). lia.
  Qed.

  Lemma chunks_full l cs c : chunks n8 l = cs ++ c :: nil -> Forall (fun c' => length c' = n8) cs.
  Proof. apply chunks_aux_full. lia. Qed.

  Lemma of_le_bytes_split (l : list Z) :
    of_le_bytes l = of_le_bytes (firstn n8 l) + 2 ^ (8 * Z.of_nat n8) * of_le_bytes (skipn n8 l).
  Proof.
    rewrite <- (firstn_skipn n8 l) at 1. rewrite of_le_bytes_app.
    destruct (le_lt_dec n8 (length l)) as [Hle|Hlt].
    - rewrite firstn_length, Nat.min_l by exact Hle. reflexivity.
    - rewrite skipn_all2 by lia. cbn [of_le_bytes fold_right]. lia.
  Qed.

  Variable m : Z.
  Hypothesis m_gt1 : 1 < m.
  Variable fsp2 : Z.
  Hypothesis fsp2_def : fsp2 = 2 ^ (8 * Z.of_nat n8) mod m.

  Lemma from_le_aux fuel : forall l, (length l < fuel)%nat ->
    fold_right (fun c acc => fadd m (fmul m acc fsp2) (from_raw m c)) 0 (chunks_aux n8 fuel l)
    = of_le_bytes l mod m.
  Proof.
    induction fuel as [|fuel IH]; intros l Hl; [lia|].
    destruct l as [|x l].
    { rewrite chunks_aux_nil. cbn [fold_right]. change (of_le_bytes nil) with 0.
      rewrite Z.mod_0_l by lia. reflexivity. }
    rewrite chunks_aux_cons by discriminate. cbn [fold_right].
    rewrite IH by (pose proof (skipn_shorter (x :: l) ltac:(discriminate)); lia).
    rewrite (of_le_bytes_split (x :: l)).
    unfold fadd, fmul, from_raw. rewrite fsp2_def.
    rewrite <- Z.mul_mod, <- Z.add_mod by lia. f_equal. ring.
  Qed.

  (* holds for every integer list; the bytes_ok form requested is the corollary below *)
  Lemma from_le_bytes_mod_order_spec_gen l :
    from_le_bytes_mod_order m n8 fsp2 l = of_le_bytes l mod m.
  Proof.
    unfold from_le_bytes_mod_order. rewrite fold_left_rev_fr.
    unfold chunks. rewrite <- (from_le_aux (S (length l)) l) by lia.
    induction (chunks_aux n8 (S (length l)) l) as [|c cs IH]; [reflexivity|].
    cbn [map fold_right]. rewrite IH. reflexivity.
  Qed.

  Lemma from_le_bytes_mod_order_spec l : bytes_ok l = true ->
    from_le_bytes_mod_order m n8 fsp2 l = of_le_bytes l mod m.
  Proof. intros _. apply from_le_bytes_mod_order_spec_gen. Qed.

  Lemma from_le_bytes_mod_order_range l : 0 <= from_le_bytes_mod_order m n8 fsp2 l < m.
  Proof. rewrite from_le_bytes_mod_order_spec_gen. apply Z.mod_pos_bound. lia. Qed.

  Lemma from_be_bytes_mod_order_spec_gen l :
    from_be_bytes_mod_order m n8 fsp2 l = of_be_bytes l mod m.
  Proof. unfold from_be_bytes_mod_order, of_be_bytes. apply from_le_bytes_mod_order_spec_gen. Qed.

  Lemma from_be_bytes_mod_order_spec l : bytes_ok l = true ->
    from_be_bytes_mod_order m n8 fsp2 l = of_be_bytes l mod m.
  Proof. intros _. apply from_be_bytes_mod_order_spec_gen. Qed.
End Chunks.

(* ------------------------------------------------------------------ *)
(* 5. power: square-and-multiply, most significant limb and bit first *)

Lemma land1_odd' a : (Z.land a 1 =? 1) = Z.odd a.
Proof.
  change 1 with (Z.ones 1) at 1. rewrite Z.land_ones by lia. change (2 ^ 1) with 2.
  rewrite Zmod_odd. destruct (Z.odd a); reflexivity.
Qed.

Lemma bit_test' limb i : (Z.land (Z.shiftr limb i) 1 =? 1) = Z.testbit limb i.
Proof. rewrite land1_odd'. symmetry. apply Z.testbit_odd. Qed.

Lemma mod_pow2_succ a k : 0 <= k ->
  a mod 2 ^ (Z.succ k) = a mod 2 ^ k + 2 ^ k * Z.b2z (Z.testbit a k).
Proof.
  intro Hk. rewrite Z.pow_succ_r by exact Hk. rewrite (Z.mul_comm 2).
  rewrite Z.rem_mul_r by (try apply Z.pow_nonzero; lia).
  rewrite Z.testbit_spec' by exact Hk. reflexivity.
Qed.

Lemma limbs64_cons a l : limbs64 (a :: l) = a + 2 ^ 64 * limbs64 l.
Proof. reflexivity. Qed.

Lemma limbs64_nonneg l : Forall (fun x => 0 <= x < 2 ^ 64) l -> 0 <= limbs64 l.
Proof.
  induction 1 as [|a l Ha _ IH]; [cbn; lia|]. rewrite limbs64_cons. lia.
Qed.

Lemma limbs64_range l : Forall (fun x => 0 <= x < 2 ^ 64) l ->
  0 <= limbs64 l < 2 ^ (64 * Z.of_nat (length l)).
Proof.
  induction 1 as [|a l Ha _ IH]; [cbn; lia|]. rewrite limbs64_cons. cbn [length].
  replace (64 * Z.of_nat (S (length l))) with (64 + 64 * Z.of_nat (length l)) by lia.
  rewrite Z.pow_add_r by lia. nia.
Qed.

Section Power.
  Variable m : Z.
  Hypothesis m_gt1 : 1 < m.
  Variable x : Z.

  Let step (limb : Z) (res i : Z) : Z :=
    let res := fmul m res res in if Z.land (Z.shiftr limb i) 1 =? 1 then fmul m res x else res.

  Lemma power_step limb E i : 0 <= E -> 0 <= i ->
    step limb (x ^ E mod m) i = x ^ (2 * E + Z.b2z (Z.testbit limb i)) mod m.
  Proof.
    intros HE Hi. unfold step. cbv zeta. rewrite bit_test'. unfold fmul.
    rewrite <- Z.mul_mod by lia. rewrite <- Z.pow_add_r by lia.
    replace (E + E) with (2 * E) by lia.
    destruct (Z.testbit limb i); cbn [Z.b2z].
    - rewrite Zmult_mod_idemp_l. rewrite Z.pow_add_r, Z.pow_1_r by lia. reflexivity.
    - rewrite Z.add_0_r. reflexivity.
  Qed.

  Lemma power_inner limb (k : nat) : forall E, 0 <= E ->
    fold_left (step limb) (rev (map Z.of_nat (seq 0 k))) (x ^ E mod m)
    = x ^ (E * 2 ^ Z.of_nat k + limb mod 2 ^ Z.of_nat k) mod m.
  Proof.
    induction k as [|k IH]; intros E HE.
    - cbn [seq map rev fold_left]. change (Z.of_nat 0) with 0. rewrite Z.pow_0_r, Z.mod_1_r.
      f_equal. f_equal. lia.
    - rewrite seq_S, map_app, rev_app_distr. cbn [map rev app fold_left Nat.add].
      rewrite power_step by lia.
      rewrite IH by (destruct (Z.testbit limb (Z.of_nat k)); cbn [Z.b2z]; lia).
      rewrite Nat2Z.inj_succ, mod_pow2_succ by lia.
      rewrite Z.pow_succ_r by lia. f_equal. f_equal. ring.
  Qed.

  Lemma power_limb limb E : 0 <= E -> 0 <= limb < 2 ^ 64 ->
    fold_left (step limb) (rev (map Z.of_nat (seq 0 64))) (x ^ E mod m)
    = x ^ (limb + 2 ^ 64 * E) mod m.
  Proof.
    intros HE Hl. rewrite power_inner by exact HE.
    change (Z.of_nat 64) with 64. rewrite (Z.mod_small limb) by exact Hl.
    f_equal. f_equal. ring.
  Qed.

  (* no hypothesis on x is needed *)
  Lemma power_spec limbs : Forall (fun l => 0 <= l < 2 ^ 64) limbs ->
    power m x limbs = x ^ (limbs64 limbs) mod m.
  Proof.
    intro H. unfold power. rewrite fold_left_rev_fr.
    induction H as [|a l Ha Hl IH].
    - reflexivity.
    - cbn [fold_right]. rewrite IH. rewrite limbs64_cons.
      apply (power_limb a (limbs64 l)); [apply limbs64_nonneg; exact Hl | exact Ha].
  Qed.

  Lemma power_powm limbs : Forall (fun l => 0 <= l < 2 ^ 64) limbs ->
    power m x limbs = powm x (limbs64 limbs) m.
  Proof.
    intro H. rewrite power_spec by exact H. symmetry.
    apply powm_spec; [lia | apply limbs64_nonneg; exact H].
  Qed.
End Power.

(* ------------------------------------------------------------------ *)
(* 6. from_bytes_checked / to_bytes_le *)

Lemma list_eqb_eq a : forall b, list_eqb a b = true <-> a = b.
Proof.
  unfold list_eqb. induction a as [|x a IH]; intros [|y b]; cbn [length Nat.eqb combine forallb andb fst snd];
    try (split; [discriminate | congruence]).
  - split; reflexivity.
  - specialize (IH b). split.
    + intro H. apply andb_true_iff in H. destruct H as [Hl H]. apply andb_true_iff in H. destruct H as [Hx H].
      apply Z.eqb_eq in Hx. subst y. f_equal. apply IH. rewrite Hl, H. reflexivity.
    + intro H. injection H as -> ->. destruct IH as [_ IH]. specialize (IH eq_refl).
      apply andb_true_iff in IH. destruct IH as [Hl H]. rewrite Hl, Z.eqb_refl, H. reflexivity.
Qed.

Section Checked.
  Variable m : Z.
  Hypothesis m_gt1 : 1 < m.
  Variable n8 : nat.
  Hypothesis m_fits : m < 2 ^ (8 * Z.of_nat n8).

  Lemma to_bytes_le_length x : length (to_bytes_le n8 x) = n8.
  Proof. apply le_bytes_length. Qed.

  Lemma to_bytes_le_ok x : bytes_ok (to_bytes_le n8 x) = true.
  Proof. apply le_bytes_ok. Qed.

  Lemma to_bytes_le_value x : 0 <= x < m -> of_le_bytes (to_bytes_le n8 x) = x.
  Proof. intro H. apply of_le_le_bytes. lia. Qed.

  Lemma to_bytes_le_inj x y : 0 <= x < m -> 0 <= y < m -> to_bytes_le n8 x = to_bytes_le n8 y -> x = y.
  Proof. intros Hx Hy. apply le_bytes_inj; lia. Qed.

  Lemma from_bytes_checked_unfold l : bytes_ok l = true -> length l = n8 ->
    from_bytes_checked m n8 l = if of_le_bytes l <? m then Some (of_le_bytes l) else None.
  Proof.
    intros Hok Hlen. unfold from_bytes_checked, from_raw, to_bytes_le. cbv zeta.
    pose proof (of_le_bytes_range l Hok) as Hr.
    pose proof (Z.mod_pos_bound (of_le_bytes l) m ltac:(lia)) as Hm.
    destruct (of_le_bytes l <? m) eqn:E.
    - apply Z.ltb_lt in E. rewrite Z.mod_small by lia.
      rewrite <- Hlen, le_of_le_bytes by exact Hok.
      destruct (list_eqb_eq l l) as [_ H]. rewrite H by reflexivity. reflexivity.
    - apply Z.ltb_ge in E.
      destruct (list_eqb (le_bytes n8 (of_le_bytes l mod m)) l) eqn:E2; [|reflexivity].
      apply list_eqb_eq in E2. exfalso.
      assert (of_le_bytes (le_bytes n8 (of_le_bytes l mod m)) = of_le_bytes l mod m)
        by (apply of_le_le_bytes; lia).
      rewrite E2 in H. lia.
  Qed.

  Lemma from_bytes_checked_spec l v : bytes_ok l = true -> length l = n8 ->
    (from_bytes_checked m n8 l = Some v <-> of_le_bytes l < m /\ v = of_le_bytes l).
  Proof.
    intros Hok Hlen. rewrite from_bytes_checked_unfold by assumption.
    destruct (of_le_bytes l <? m) eqn:E.
    - apply Z.ltb_lt in E. split; [intro H; inversion H; auto | intros [_ ->]; reflexivity].
    - apply Z.ltb_ge in E. split; [discriminate | lia].
  Qed.

  Lemma from_bytes_checked_none l : bytes_ok l = true -> length l = n8 ->
    (from_bytes_checked m n8 l = None <-> m <= of_le_bytes l).
  Proof.
    intros Hok Hlen. rewrite from_bytes_checked_unfold by assumption.
    destruct (of_le_bytes l <? m) eqn:E.
    - apply Z.ltb_lt in E. split; [discriminate | lia].
    - apply Z.ltb_ge in E. tauto.
  Qed.

  Lemma from_bytes_checked_range l v : bytes_ok l = true -> length l = n8 ->
    from_bytes_checked m n8 l = Some v -> 0 <= v < m.
  Proof.
    intros Hok Hlen H. apply from_bytes_checked_spec in H; [|assumption|assumption].
    pose proof (of_le_bytes_range l Hok). lia.
  Qed.

  Lemma from_bytes_checked_to_bytes x : 0 <= x < m ->
    from_bytes_checked m n8 (to_bytes_le n8 x) = Some x.
  Proof.
    intro Hx. apply from_bytes_checked_spec; [apply to_bytes_le_ok | apply to_bytes_le_length|].
    rewrite to_bytes_le_value by exact Hx. lia.
  Qed.

  (* canonical encoding: accepted strings are exactly the images of to_bytes_le *)
  Lemma to_bytes_from_bytes_checked l v : bytes_ok l = true -> length l = n8 ->
    from_bytes_checked m n8 l = Some v -> to_bytes_le n8 v = l.
  Proof.
    intros Hok Hlen H. apply from_bytes_checked_spec in H; [|assumption|assumption].
    destruct H as [_ ->]. unfold to_bytes_le. rewrite <- Hlen. apply le_of_le_bytes. exact Hok.
  Qed.
End Checked.

(* ------------------------------------------------------------------ *)
(* 7. bigint limbs, decimal strings *)

Lemma pow64_S (n : nat) : 2 ^ (64 * Z.of_nat (S n)) = 2 ^ 64 * 2 ^ (64 * Z.of_nat n).
Proof.
  replace (64 * Z.of_nat (S n)) with (64 + 64 * Z.of_nat n) by lia.
  rewrite Z.pow_add_r by lia. reflexivity.
Qed.

Lemma pow64_pos (n : nat) : 0 < 2 ^ (64 * Z.of_nat n).
Proof. apply Z.pow_pos_nonneg; lia. Qed.

Lemma limbs_of_S n x : limbs_of (S n) x = x mod 2 ^ 64 :: limbs_of n (x / 2 ^ 64).
Proof.
  unfold limbs_of. change (seq 0 (S n)) with (0%nat :: seq 1 n).
  rewrite <- seq_shift, map_cons, map_map. f_equal.
  - change (64 * Z.of_nat 0) with 0. rewrite Z.pow_0_r, Z.div_1_r. reflexivity.
  - apply map_ext. intro i. rewrite pow64_S.
    rewrite Z.div_div; [reflexivity | lia | apply pow64_pos].
Qed.

Lemma limbs_of_length n x : length (limbs_of n x) = n.
Proof. unfold limbs_of. rewrite map_length, seq_length. reflexivity. Qed.

Lemma limbs_of_range n : forall x, Forall (fun l => 0 <= l < 2 ^ 64) (limbs_of n x).
Proof.
  induction n as [|n IH]; intro x; [constructor|].
  rewrite limbs_of_S. constructor; [apply Z.mod_pos_bound; lia | apply IH].
Qed.

Lemma limbs64_limbs_of_mod n : forall x, limbs64 (limbs_of n x) = x mod 2 ^ (64 * Z.of_nat n).
Proof.
  induction n as [|n IH]; intro x.
  - cbn. rewrite Z.mod_1_r. reflexivity.
  - rewrite limbs_of_S, limbs64_cons, IH, pow64_S.
    rewrite Z.rem_mul_r; [reflexivity | lia | apply pow64_pos].
Qed.

Lemma limbs64_limbs_of n x : 0 <= x < 2 ^ (64 * Z.of_nat n) -> limbs64 (limbs_of n x) = x.
Proof. intro H. rewrite limbs64_limbs_of_mod. apply Z.mod_small. exact H. Qed.

Lemma limbs_of_limbs64 l : Forall (fun x => 0 <= x < 2 ^ 64) l -> limbs_of (length l) (limbs64 l) = l.
Proof.
  induction 1 as [|a l Ha Hl IH]; [reflexivity|].
  cbn [length]. rewrite limbs_of_S, limbs64_cons.
  replace ((a + 2 ^ 64 * limbs64 l) mod 2 ^ 64) with a
    by (rewrite Z.mul_comm, Z_mod_plus_full, Z.mod_small; lia).
  replace ((a + 2 ^ 64 * limbs64 l) / 2 ^ 64) with (limbs64 l)
    by (rewrite Z.mul_comm, Z_div_plus_full, Z.div_small; lia).
  rewrite IH. reflexivity.
Qed.

Definition decimal_value (ds : list Z) : Z := fold_left (fun acc d => 10 * acc + d) ds 0.

Section BigInt.
  Variable m : Z.
  Hypothesis m_gt1 : 1 < m.

  Lemma from_bigint_spec l v : from_bigint m l = Some v <-> limbs64 l < m /\ v = limbs64 l.
  Proof.
    unfold from_bigint. cbv zeta. destruct (limbs64 l <? m) eqn:E.
    - apply Z.ltb_lt in E. split; [intro H; inversion H; auto | intros [_ ->]; reflexivity].
    - apply Z.ltb_ge in E. split; [discriminate | lia].
  Qed.

  Lemma from_bigint_none l : from_bigint m l = None <-> m <= limbs64 l.
  Proof.
    unfold from_bigint. cbv zeta. destruct (limbs64 l <? m) eqn:E.
    - apply Z.ltb_lt in E. split; [discriminate | lia].
    - apply Z.ltb_ge in E. tauto.
  Qed.

  (* into_bigint then from_bigint *)
  Lemma from_bigint_limbs_of n64 x : m <= 2 ^ (64 * Z.of_nat n64) -> 0 <= x < m ->
    from_bigint m (limbs_of n64 x) = Some x.
  Proof.
    intros Hm Hx. apply from_bigint_spec. rewrite limbs64_limbs_of by lia. lia.
  Qed.

  Lemma from_digits_gen ds : forall a,
    fold_left (fun acc d => fadd m (fmul m 10 acc) (d mod m)) ds (a mod m)
    = fold_left (fun acc d => 10 * acc + d) ds a mod m.
  Proof.
    induction ds as [|d ds IH]; intro a; cbn [fold_left]; [reflexivity|].
    replace (fadd m (fmul m 10 (a mod m)) (d mod m)) with ((10 * a + d) mod m).
    - apply IH.
    - unfold fadd, fmul. rewrite Zmult_mod_idemp_r, <- Z.add_mod by lia. reflexivity.
  Qed.

  (* no hypothesis on the digits is needed *)
  Lemma from_digits_spec ds : from_digits m ds = decimal_value ds mod m.
  Proof.
    unfold from_digits, decimal_value. rewrite <- from_digits_gen. rewrite Z.mod_0_l by lia. reflexivity.
  Qed.
End BigInt.

(* ------------------------------------------------------------------ *)
(* 8. serialisation with flags *)

Definition all_bytes : list Z := map Z.of_nat (seq 0 256).

Lemma all_bytes_sound (f : Z -> bool) :
  forallb f all_bytes = true -> forall y, 0 <= y < 256 -> f y = true.
Proof.
  intros H y Hy. rewrite forallb_forall in H. apply H.
  unfold all_bytes. apply in_map_iff. exists (Z.to_nat y). split; [lia|].
  apply in_seq. lia.
Qed.

Lemma le_bytes_snoc k x : le_bytes (S k) x = le_bytes k x ++ [(x / 2 ^ (8 * Z.of_nat k)) mod 256].
Proof. unfold le_bytes. rewrite seq_S, map_app. reflexivity. Qed.

Lemma replace_last_snoc a y f : replace_last (a ++ [y]) f = a ++ [f y].
Proof.
  unfold replace_last. rewrite rev_app_distr. cbn [rev app]. rewrite rev_involutive. reflexivity.
Qed.

Lemma nth_snoc (a : list Z) y : nth (length a) (a ++ [y]) 0 = y.
Proof. rewrite app_nth2 by lia. rewrite Nat.sub_diag. reflexivity. Qed.

Lemma firstn_snoc (a : list Z) y : firstn (length a) (a ++ [y]) = a.
Proof. rewrite firstn_app, firstn_all, Nat.sub_diag. cbn [firstn]. apply app_nil_r. Qed.

Lemma nth_firstn_lt (l : list Z) : forall n i, (i < n)%nat -> nth i (firstn n l) 0 = nth i l 0.
Proof.
  induction l as [|x l IH]; intros n i H.
  - rewrite firstn_nil. reflexivity.
  - destruct n; [lia|]. destruct i; [reflexivity|]. cbn [firstn nth]. apply IH. lia.
Qed.

Lemma lt_pow2_bit_size m : 0 < m -> m < 2 ^ bit_size m.
Proof. intro H. unfold bit_size. apply (Z.log2_spec m H). Qed.

(* the boolean check discharged by computation for each concrete (flag type, mask) pair *)
Definition flag_chk (ty bits mask id y : Z) : bool :=
  implb (y <? 2 ^ (8 - bits))
        (match flags_from_u8 ty (Z.lor y mask) with
         | Some (i, mk) => (i =? id) && (mk =? mask)
         | None => false
         end && (Z.land (Z.lor y mask) (Z.lnot mask mod 256) =? y)).

Lemma flag_chk_sound ty bits mask id : forallb (flag_chk ty bits mask id) all_bytes = true ->
  forall y, 0 <= y < 256 -> y < 2 ^ (8 - bits) ->
    flags_from_u8 ty (Z.lor y mask) = Some (id, mask) /\ Z.land (Z.lor y mask) (Z.lnot mask mod 256) = y.
Proof.
  intros H y Hy Hlt. pose proof (all_bytes_sound _ H y Hy) as C. unfold flag_chk in C.
  apply Z.ltb_lt in Hlt. rewrite Hlt in C. cbn [implb] in C.
  apply andb_true_iff in C. destruct C as [C1 C2]. apply Z.eqb_eq in C2. split; [|exact C2].
  destruct (flags_from_u8 ty (Z.lor y mask)) as [[i mk]|]; [|discriminate].
  apply andb_true_iff in C1. destruct C1 as [Ci Cm]. apply Z.eqb_eq in Ci, Cm. subst. reflexivity.
Qed.

Definition flag_combos : list (Z * Z * Z * Z) :=    (* (flag type, BIT_SIZE, mask, flag id) *)
  [ (0, 0, 0, 0);                                   (* EmptyFlags *)
    (1, 1, 0, 0); (1, 1, 128, 1);                   (* TEFlags: XIsPositive, XIsNegative *)
    (2, 2, 0, 0); (2, 2, 64, 1); (2, 2, 128, 2) ].  (* SWFlags: YIsPositive, PointAtInfinity, YIsNegative *)

Section Flags.
  Variable m : Z.
  Hypothesis m_gt1 : 1 < m.
  Variable n8 : nat.

  (* rejections that need no size hypothesis *)
  Lemma deser_flags_short ty l :
    (length l < Z.to_nat ((bit_size m + flags_bits ty + 7) / 8))%nat -> deser_flags m n8 ty l = [0; 3].
  Proof. intro H. unfold deser_flags. cbv zeta. apply Nat.ltb_lt in H. rewrite H. reflexivity. Qed.

  Lemma deser_flags_cases ty l :
    deser_flags m n8 ty l = [0; 3] \/ deser_flags m n8 ty l = [0; 4] \/ deser_flags m n8 ty l = [0; 1] \/
    exists v fl, deser_flags m n8 ty l = [1; v; fl] /\ v < m.
  Proof.
    unfold deser_flags. cbv zeta.
    destruct (Nat.ltb _ _); [left; reflexivity|].
    destruct (flags_from_u8 _ _) as [[fl mask]|]; [|right; left; reflexivity].
    match goal with |- context [?v <? m] => destruct (v <? m) eqn:E end.
    - right; right; right. eexists; eexists. split; [reflexivity|]. apply Z.ltb_lt. exact E.
    - right; right; left. reflexivity.
  Qed.

  (* the flags share the last byte: bit_size m + BIT_SIZE <= 8 * n8 < bit_size m + 8 *)
  Variable ty : Z.
  Let bits := flags_bits ty.
  Hypothesis bits_fit : bit_size m + bits <= 8 * Z.of_nat n8.
  Hypothesis last_byte : 8 * Z.of_nat n8 < bit_size m + 8.

  Lemma flags_bits_range : 0 <= bits <= 2.
  Proof. unfold bits, flags_bits. destruct (ty =? 0); [lia|]. destruct (ty =? 1); lia. Qed.

  Lemma expected_eq : Z.to_nat ((bit_size m + flags_bits ty + 7) / 8) = n8.
  Proof.
    pose proof flags_bits_range as Hb. fold bits.
    replace ((bit_size m + bits + 7) / 8) with (Z.of_nat n8); [apply Nat2Z.id|].
    Z.div_mod_to_equations. lia.
  Qed.

  Lemma ser_size_eq : ser_size m bits = n8.
  Proof. unfold ser_size. apply expected_eq. Qed.

  Lemma n8_pos' : (0 < n8)%nat.
  Proof.
    pose proof flags_bits_range. assert (0 <= Z.log2 m) by apply Z.log2_nonneg.
    unfold bit_size in *. lia.
  Qed.

  Lemma m_fits' : m < 2 ^ (8 * Z.of_nat n8).
  Proof.
    pose proof flags_bits_range. pose proof (lt_pow2_bit_size m ltac:(lia)).
    assert (2 ^ bit_size m <= 2 ^ (8 * Z.of_nat n8)) by (apply Z.pow_le_mono_r; lia). lia.
  Qed.

  Lemma deser_flags_short' l : (length l < n8)%nat -> deser_flags m n8 ty l = [0; 3].
  Proof. intro H. apply deser_flags_short. rewrite expected_eq. exact H. Qed.

  (* shape of deser_flags once enough bytes are available (the reader may hold more) *)
  Lemma deser_flags_unfold l : (n8 <= length l)%nat ->
    deser_flags m n8 ty l =
    let b := firstn n8 l in
    let last := nth (n8 - 1) l 0 in
    match flags_from_u8 ty last with
    | None => [0; 4]
    | Some (fl, mask) =>
        let v := of_le_bytes (firstn (n8 - 1) b ++ [Z.land last (Z.lnot mask mod 256)]) in
        if v <? m then [1; v; fl] else [0; 1]
    end.
  Proof.
    intro H. pose proof n8_pos'. unfold deser_flags. cbv zeta. rewrite expected_eq.
    apply Nat.ltb_ge in H. rewrite H. rewrite Nat.sub_diag. cbn [repeat]. rewrite app_nil_r.
    rewrite nth_firstn_lt by lia. reflexivity.
  Qed.

  Lemma deser_flags_invalid l fl mask : (n8 <= length l)%nat ->
    flags_from_u8 ty (nth (n8 - 1) l 0) = Some (fl, mask) ->
    m <= of_le_bytes (firstn (n8 - 1) (firstn n8 l) ++ [Z.land (nth (n8 - 1) l 0) (Z.lnot mask mod 256)]) ->
    deser_flags m n8 ty l = [0; 1].
  Proof.
    intros H Hf Hv. rewrite deser_flags_unfold by exact H. cbv zeta. rewrite Hf.
    apply Z.ltb_ge in Hv. rewrite Hv. reflexivity.
  Qed.

  Lemma deser_flags_ok l fl mask : (n8 <= length l)%nat ->
    flags_from_u8 ty (nth (n8 - 1) l 0) = Some (fl, mask) ->
    of_le_bytes (firstn (n8 - 1) (firstn n8 l) ++ [Z.land (nth (n8 - 1) l 0) (Z.lnot mask mod 256)]) < m ->
    deser_flags m n8 ty l =
    [1; of_le_bytes (firstn (n8 - 1) (firstn n8 l) ++ [Z.land (nth (n8 - 1) l 0) (Z.lnot mask mod 256)]); fl].
  Proof.
    intros H Hf Hv. rewrite deser_flags_unfold by exact H. cbv zeta. rewrite Hf.
    apply Z.ltb_lt in Hv. rewrite Hv. reflexivity.
  Qed.

  Lemma deser_flags_unexpected l : (n8 <= length l)%nat ->
    flags_from_u8 ty (nth (n8 - 1) l 0) = None -> deser_flags m n8 ty l = [0; 4].
  Proof. intros H Hf. rewrite deser_flags_unfold by exact H. cbv zeta. rewrite Hf. reflexivity. Qed.

  (* round trip for an abstract (mask, id) that the flag type recognises *)
  Variables mask id : Z.
  Hypothesis flag_ok : forall y, 0 <= y < 256 -> y < 2 ^ (8 - bits) ->
    flags_from_u8 ty (Z.lor y mask) = Some (id, mask) /\ Z.land (Z.lor y mask) (Z.lnot mask mod 256) = y.

  Lemma top_byte_small x : 0 <= x < m ->
    0 <= (x / 2 ^ (8 * Z.of_nat (n8 - 1))) mod 256 < 256 /\
    (x / 2 ^ (8 * Z.of_nat (n8 - 1))) mod 256 < 2 ^ (8 - bits).
  Proof.
    intro Hx. pose proof flags_bits_range as Hb. pose proof n8_pos' as Hn.
    pose proof (lt_pow2_bit_size m ltac:(lia)) as Hm.
    assert (HP : 0 < 2 ^ (8 * Z.of_nat (n8 - 1))) by (apply Z.pow_pos_nonneg; lia).
    assert (HB : 2 ^ bit_size m <= 2 ^ (8 * Z.of_nat (n8 - 1) + (8 - bits)))
      by (apply Z.pow_le_mono_r; lia).
    rewrite Z.pow_add_r in HB by lia.
    assert (Hq : 0 <= x / 2 ^ (8 * Z.of_nat (n8 - 1)) < 2 ^ (8 - bits)).
    { split; [apply Z.div_pos; lia | apply Z.div_lt_upper_bound; lia]. }
    assert (2 ^ (8 - bits) <= 2 ^ 8) by (apply Z.pow_le_mono_r; lia).
    change (2 ^ 8) with 256 in *.
    rewrite Z.mod_small by lia. lia.
  Qed.

  Lemma ser_flags_eq x :
    ser_flags m n8 bits mask x =
    le_bytes (n8 - 1) x ++ [Z.lor ((x / 2 ^ (8 * Z.of_nat (n8 - 1))) mod 256) mask].
  Proof.
    pose proof n8_pos' as Hn. unfold ser_flags, to_bytes_le. cbv zeta.
    rewrite le_bytes_length, ser_size_eq, Nat.eqb_refl.
    replace n8 with (S (n8 - 1)) at 1 by lia. rewrite le_bytes_snoc.
    exact (replace_last_snoc _ _ (fun y => Z.lor y mask)).
  Qed.

  Lemma ser_flags_length x : length (ser_flags m n8 bits mask x) = n8.
  Proof.
    pose proof n8_pos'. rewrite ser_flags_eq, app_length, le_bytes_length. cbn [length]. lia.
  Qed.

  Lemma deser_ser_flags_gen x : 0 <= x < m ->
    deser_flags m n8 ty (ser_flags m n8 bits mask x) = [1; x; id].
  Proof.
    intro Hx. pose proof n8_pos' as Hn. pose proof m_fits' as Hf.
    pose proof (ser_flags_length x) as HL.
    destruct (top_byte_small x Hx) as [Hy1 Hy2].
    destruct (flag_ok _ Hy1 Hy2) as [F1 F2].
    rewrite ser_flags_eq in *. set (a := le_bytes (n8 - 1) x) in *.
    set (y := (x / 2 ^ (8 * Z.of_nat (n8 - 1))) mod 256) in *.
    assert (La : length a = (n8 - 1)%nat) by apply le_bytes_length.
    assert (Hnth : nth (n8 - 1) (a ++ [Z.lor y mask]) 0 = Z.lor y mask)
      by (rewrite <- La; apply nth_snoc).
    assert (Hfn : firstn (n8 - 1) (firstn n8 (a ++ [Z.lor y mask])) = a).
    { rewrite (firstn_all2 (n := n8)) by lia. rewrite <- La. apply firstn_snoc. }
    assert (Hv : of_le_bytes (a ++ [y]) = x).
    { unfold a, y. rewrite <- le_bytes_snoc. replace (S (n8 - 1)) with n8 by lia.
      apply of_le_le_bytes. lia. }
    rewrite (deser_flags_ok _ id mask).
    - rewrite Hnth, Hfn, F2, Hv. reflexivity.
    - lia.
    - rewrite Hnth. exact F1.
    - rewrite Hnth, Hfn, F2, Hv. lia.
  Qed.
End Flags.

(* the six concrete (flag type, BIT_SIZE, mask, flag id) combinations *)
Theorem deser_ser_flags m n8 ty bits mask id x :
  In (ty, bits, mask, id) flag_combos ->
  1 < m -> 0 <= x < m ->
  bit_size m + bits <= 8 * Z.of_nat n8 -> 8 * Z.of_nat n8 < bit_size m + 8 ->
  deser_flags m n8 ty (ser_flags m n8 bits mask x) = [1; x; id].
Proof.
  intros HIn Hm Hx H1 H2. cbn [flag_combos In] in HIn.
  destruct HIn as [E|[E|[E|[E|[E|[E|[]]]]]]]; injection E as <- <- <- <-.
  - apply (deser_ser_flags_gen m Hm n8 0 H1 H2 0 0); [apply flag_chk_sound; vm_compute; reflexivity | exact Hx].
  - apply (deser_ser_flags_gen m Hm n8 1 H1 H2 0 0); [apply flag_chk_sound; vm_compute; reflexivity | exact Hx].
  - apply (deser_ser_flags_gen m Hm n8 1 H1 H2 128 1); [apply flag_chk_sound; vm_compute; reflexivity | exact Hx].
  - apply (deser_ser_flags_gen m Hm n8 2 H1 H2 0 0); [apply flag_chk_sound; vm_compute; reflexivity | exact Hx].
  - apply (deser_ser_flags_gen m Hm n8 2 H1 H2 64 1); [apply flag_chk_sound; vm_compute; reflexivity | exact Hx].
  - apply (deser_ser_flags_gen m Hm n8 2 H1 H2 128 2); [apply flag_chk_sound; vm_compute; reflexivity | exact Hx].
Qed.

(* SWFlags with both top bits set *)
Lemma deser_flags_sw_both m n8 l : 1 < m ->
  bit_size m + 2 <= 8 * Z.of_nat n8 -> 8 * Z.of_nat n8 < bit_size m + 8 ->
  (n8 <= length l)%nat ->
  Z.testbit (nth (n8 - 1) l 0) 7 = true -> Z.testbit (nth (n8 - 1) l 0) 6 = true ->
  deser_flags m n8 2 l = [0; 4].
Proof.
  intros Hm H1 H2 HL B7 B6. apply deser_flags_unexpected; try assumption.
  unfold flags_from_u8. cbn [Z.eqb]. rewrite B7, B6. reflexivity.
Qed.

(* ------------------------------------------------------------------ *)
(* 9. the three concrete configurations of the crate: (q, 32), (r, 32), (p, 48) *)

Lemma flag_combos_bits ty bits mask id : In (ty, bits, mask, id) flag_combos -> 0 <= bits <= 2.
Proof.
  cbn [flag_combos In]. intros [E|[E|[E|[E|[E|[E|[]]]]]]]; injection E as <- <- <- <-; lia.
Qed.

Lemma q_gt1 : 1 < q. Proof. reflexivity. Qed.
Lemma r_gt1 : 1 < r. Proof. reflexivity. Qed.
Lemma p_gt1 : 1 < p. Proof. reflexivity. Qed.
Lemma q_fits : q < 2 ^ (8 * Z.of_nat 32). Proof. reflexivity. Qed.
Lemma r_fits : r < 2 ^ (8 * Z.of_nat 32). Proof. reflexivity. Qed.
Lemma p_fits : p < 2 ^ (8 * Z.of_nat 48). Proof. reflexivity. Qed.
Lemma bit_size_q : bit_size q = 253. Proof. vm_compute. reflexivity. Qed.
Lemma bit_size_r : bit_size r = 251. Proof. vm_compute. reflexivity. Qed.
Lemma bit_size_p : bit_size p = 377. Proof. vm_compute. reflexivity. Qed.
Lemma fsp2_fq : f_fsp2 cfg_fq = 2 ^ (8 * Z.of_nat 32) mod q. Proof. vm_compute. reflexivity. Qed.
Lemma fsp2_fr : f_fsp2 cfg_fr = 2 ^ (8 * Z.of_nat 32) mod r. Proof. vm_compute. reflexivity. Qed.
Lemma fsp2_fp : f_fsp2 cfg_fp = 2 ^ (8 * Z.of_nat 48) mod p. Proof. vm_compute. reflexivity. Qed.

Lemma fq_from_le_bytes_mod_order l : from_le_bytes_mod_order q 32 (f_fsp2 cfg_fq) l = of_le_bytes l mod q.
Proof. apply from_le_bytes_mod_order_spec_gen; [lia | exact q_gt1 | exact fsp2_fq]. Qed.
Lemma fr_from_le_bytes_mod_order l : from_le_bytes_mod_order r 32 (f_fsp2 cfg_fr) l = of_le_bytes l mod r.
Proof. apply from_le_bytes_mod_order_spec_gen; [lia | exact r_gt1 | exact fsp2_fr]. Qed.
Lemma fp_from_le_bytes_mod_order l : from_le_bytes_mod_order p 48 (f_fsp2 cfg_fp) l = of_le_bytes l mod p.
Proof. apply from_le_bytes_mod_order_spec_gen; [lia | exact p_gt1 | exact fsp2_fp]. Qed.

Lemma fq_deser_ser_flags ty bits mask id x : In (ty, bits, mask, id) flag_combos -> 0 <= x < q ->
  deser_flags q 32 ty (ser_flags q 32 bits mask x) = [1; x; id].
Proof.
  intros HIn Hx. pose proof (flag_combos_bits _ _ _ _ HIn).
  apply deser_ser_flags; try assumption; [exact q_gt1 | rewrite bit_size_q; lia | rewrite bit_size_q; lia].
Qed.
Lemma fr_deser_ser_flags ty bits mask id x : In (ty, bits, mask, id) flag_combos -> 0 <= x < r ->
  deser_flags r 32 ty (ser_flags r 32 bits mask x) = [1; x; id].
Proof.
  intros HIn Hx. pose proof (flag_combos_bits _ _ _ _ HIn).
  apply deser_ser_flags; try assumption; [exact r_gt1 | rewrite bit_size_r; lia | rewrite bit_size_r; lia].
Qed.
Lemma fp_deser_ser_flags ty bits mask id x : In (ty, bits, mask, id) flag_combos -> 0 <= x < p ->
  deser_flags p 48 ty (ser_flags p 48 bits mask x) = [1; x; id].
Proof.
  intros HIn Hx. pose proof (flag_combos_bits _ _ _ _ HIn).
  apply deser_ser_flags; try assumption; [exact p_gt1 | rewrite bit_size_p; lia | rewrite bit_size_p; lia].
Qed.

Print Assumptions powm_spec.
Print Assumptions finv_correct.
Print Assumptions chunks_concat.
Print Assumptions from_le_bytes_mod_order_spec.
Print Assumptions power_spec.
Print Assumptions from_bytes_checked_spec.
Print Assumptions from_bytes_checked_to_bytes.
Print Assumptions from_digits_spec.
Print Assumptions deser_ser_flags.
Print Assumptions deser_flags_sw_both.
Print Assumptions fp_from_le_bytes_mod_order.
Print Assumptions fp_deser_ser_flags.
