(* Concrete corollaries: the abstract theorems instantiated at Fq with the constants and code of the crate,
   for the hand model (Model/Concrete.v) and — through the Tie lemmas — for the definitions the translator
   regenerates from the Rust source on every run (Generated/Curve.v). *)
Require Import ZArith List Bool Lia.
From D377 Require Import Base.Certs Base.ZpField Base.FieldSec Base.Fields Model.CVal Model.Decaf Model.Sqrt Model.Concrete.
From D377 Require Import Spec.Edwards Spec.DecafSpec.
From D377 Require Import Proofs.Instance Proofs.Codec Proofs.Elligator Proofs.Projective Proofs.EdwardsLaw.
From D377 Require Import Generated.Consts Tie.Curve Tie.Loops.
From D377 Require Generated.Curve.
Module G := Generated.Curve.
Import ListNotations.
Local Existing Instance FqF.

Definition validP (p : pt) : Prop := valid fq_a ark_D p.
Definition wfP (p : pt) : Prop := wf fq_a ark_D p.

Create HintDb inst.
#[export] Hint Resolve fq_neg0 fq_neg_opp fq_two_nz d_ns amd_ns dma_ns zeta_ns m1_sq a2d_nz ratio1
  ark_sr_contract min_sr_contract ark_sr_11 min_sr_11 : inst.

(* ================= definitions regenerated from the source, instantiated ================= *)
Definition fq_TWO_ADICITY_Z : Z := dec_of c_fields_fq_rs__Fq__TWO_ADICITY.
Definition gen_min_sr : Fq -> Fq -> bool * Fq :=
  G.min_sqrt_ratio min_ZETA fq_TWO_ADICITY_Z fq_TRACE_M1_D2 fq_MOD_M1_D2 fq_QNR_TO_TRACE.
Definition gen_min_decode : Fq -> option pt := G.min_decode min_D fq_neg gen_min_sr mkpt.
Definition gen_min_encode : pt -> Fq := G.min_encode min_A min_D fq_neg gen_min_sr.
Definition gen_min_elligator : Fq -> pt := G.min_elligator min_A min_D min_ZETA fq_neg gen_min_sr mkpt.
Definition gen_min_add : pt -> pt -> pt := G.min_add min_K mkpt.
Definition gen_min_double : pt -> pt := G.min_double mkpt.
Definition gen_ark_decode : Fq -> option pt := G.ark_decode ark_D fq_neg ark_sr mkpt.
Definition gen_ark_encode : pt -> Fq := G.ark_encode ark_A ark_D fq_neg ark_sr.
Definition gen_ark_elligator_raw : Fq -> pt := G.ark_elligator ark_A ark_D ark_ZETA fq_neg ark_sr mkpt.

Lemma gen_min_sr_eq n d : gen_min_sr n d = min_sr n d.
Proof.
  unfold gen_min_sr, min_sr, fq_TWO_ADICITY_Z.
  replace (dec_of c_fields_fq_rs__Fq__TWO_ADICITY) with (Z.of_nat 47) by (vm_compute; reflexivity).
  rewrite adicity_47.
  exact (@tie_min_sqrt_ratio FqF 47%nat fq_TRACE_M1_D2 fq_MOD_M1_D2 fq_QNR_TO_TRACE min_ZETA n d ltac:(lia)).
Qed.

Lemma decode_ext (d : Fq) neg (sr sr' : Fq -> Fq -> bool * Fq) s :
  (forall n x, sr n x = sr' n x) -> decode d neg sr s = decode d neg sr' s.
Proof. intro H. unfold decode. rewrite H. reflexivity. Qed.
Lemma encode_ext (a d : Fq) neg (sr sr' : Fq -> Fq -> bool * Fq) p :
  (forall n x, sr n x = sr' n x) -> encode a d neg sr p = encode a d neg sr' p.
Proof. intro H. unfold encode. rewrite H. reflexivity. Qed.
Lemma elligator_ext (a d z : Fq) neg (sr sr' : Fq -> Fq -> bool * Fq) r :
  (forall n x, sr n x = sr' n x) -> elligator a d z neg sr r = elligator a d z neg sr' r.
Proof. intro H. unfold elligator. rewrite H. reflexivity. Qed.

Lemma gen_min_decode_eq s : gen_min_decode s = min_decode s.
Proof. unfold gen_min_decode, min_decode. rewrite (@tie_min_decode FqF). apply decode_ext, gen_min_sr_eq. Qed.
Lemma gen_min_encode_eq p : gen_min_encode p = min_encode p.
Proof. unfold gen_min_encode, min_encode. rewrite (@tie_min_encode FqF). apply encode_ext, gen_min_sr_eq. Qed.
Lemma gen_min_elligator_eq r : gen_min_elligator r = min_elligator r.
Proof. unfold gen_min_elligator, min_elligator. rewrite (@tie_min_elligator FqF). apply elligator_ext, gen_min_sr_eq. Qed.
Lemma gen_ark_decode_eq s : gen_ark_decode s = ark_decode s.
Proof. unfold gen_ark_decode, ark_decode. apply (@tie_ark_decode FqF). Qed.
Lemma gen_ark_encode_eq p : gen_ark_encode p = ark_encode p.
Proof. unfold gen_ark_encode, ark_encode. apply (@tie_ark_encode FqF). Qed.
Lemma gen_ark_elligator_raw_eq r : gen_ark_elligator_raw r = ark_elligator_raw r.
Proof. unfold gen_ark_elligator_raw, ark_elligator_raw. apply (@tie_ark_elligator FqF). Qed.
Lemma gen_min_add_eq p p' : gen_min_add p p' = min_add min_K p p'. Proof. apply (@tie_min_add FqF). Qed.
Lemma gen_min_double_eq p : gen_min_double p = min_double p. Proof. apply (@tie_min_double FqF). Qed.

(* the two backends run the same field-level functions on the same constants *)
Lemma min_decode_is s : min_decode s = decode ark_D fq_neg min_sr s.
Proof. unfold min_decode. rewrite min_D_is_ark_D. reflexivity. Qed.
Lemma min_encode_is p : min_encode p = encode fq_a ark_D fq_neg min_sr p.
Proof. unfold min_encode. rewrite min_D_is_ark_D, min_A_is_m1. reflexivity. Qed.
Lemma ark_encode_is p : ark_encode p = encode fq_a ark_D fq_neg ark_sr p.
Proof. unfold ark_encode. rewrite ark_A_is_m1. reflexivity. Qed.
Lemma min_elligator_is r : min_elligator r = elligator fq_a ark_D ark_ZETA fq_neg min_sr r.
Proof. unfold min_elligator. rewrite min_D_is_ark_D, min_A_is_m1, min_ZETA_is_ark_ZETA. reflexivity. Qed.
Lemma ark_elligator_raw_is r : ark_elligator_raw r = elligator fq_a ark_D ark_ZETA fq_neg ark_sr r.
Proof. unfold ark_elligator_raw. rewrite ark_A_is_m1. reflexivity. Qed.

Ltac inst :=
  lazymatch goal with
  | |- fq_neg zero = false => exact fq_neg0
  | |- forall x, x <> zero -> fq_neg (opp x) = _ => exact fq_neg_opp
  | |- two <> zero => exact fq_two_nz
  | |- forall w, mul w w <> ark_D => exact d_ns
  | |- forall w, mul w w <> sub (opp one) ark_D => exact amd_ns
  | |- forall w, mul w w <> sub ark_D (opp one) => exact dma_ns
  | |- forall w, mul w w <> ark_ZETA => exact zeta_ns
  | |- exists i, mul i i = opp one => exact m1_sq
  | |- sub (opp one) (mul two ark_D) <> zero => exact a2d_nz
  | |- exists w, mul w w = div _ _ => exact ratio1
  | |- _ => eassumption
  end.

(* ================= C01 / C02 / C03: codec ================= *)
Section Codec.
  Variable sr : Fq -> Fq -> bool * Fq.
  Hypothesis Hsr : sqrt_ratio_contract ark_ZETA sr.
  Hypothesis Hsr11 : sr one one = (true, one).
  Let dec := decode ark_D fq_neg sr.
  Let enc := encode fq_a ark_D fq_neg sr.

  Lemma F_enc_dec s P : dec s = Some P -> enc P = s.
  Proof. unfold dec, enc, fq_a. eapply (@enc_dec FqF ark_D ark_ZETA fq_neg sr); inst. Qed.
  Lemma F_dec_enc P : validP P -> exists P', dec (enc P) = Some P' /\ eqE P P' = true.
  Proof. unfold dec, enc, validP, fq_a. eapply (@dec_enc FqF ark_D ark_ZETA fq_neg sr); inst. Qed.
  Lemma F_decode_valid s P : dec s = Some P -> validP P.
  Proof. unfold dec, validP, fq_a. eapply (@decode_wf_valid FqF ark_D ark_ZETA fq_neg sr); inst. Qed.
  Lemma F_decode_iff_spec s P :
    dec s = Some P <-> exists p, decodeSpec fq_a ark_D fq_neg s p /\ P = of_affine p.
  Proof. unfold dec, fq_a. eapply (@decode_iff_spec FqF ark_D ark_ZETA fq_neg sr); inst. Qed.
  Lemma F_decode_rejects_negative s : fq_neg s = true -> dec s = None.
  Proof. unfold dec. apply decode_rejects_negative. Qed.
  Lemma F_decode_rejects_minus_one : dec (opp one) = None.
  Proof. unfold dec. eapply (@decode_rejects_minus_one FqF ark_D ark_ZETA fq_neg sr); inst. Qed.
  Lemma F_encode_respects_eq P Q : validP P -> validP Q -> eqE P Q = true -> enc P = enc Q.
  Proof. unfold enc, validP, fq_a. eapply (@encode_respects_eq FqF ark_D ark_ZETA fq_neg sr); inst. Qed.
  Lemma F_encode_injective P Q : validP P -> validP Q -> enc P = enc Q -> eqE P Q = true.
  Proof. unfold enc, validP, fq_a. eapply (@encode_injective FqF ark_D ark_ZETA fq_neg sr); inst. Qed.
  Lemma F_encode_is_spec P : validP P -> encodeSpec fq_a fq_neg (aff P) (enc P).
  Proof. unfold enc, validP, fq_a. eapply (@encode_is_spec FqF ark_D ark_ZETA fq_neg sr); inst. Qed.
  Lemma F_encode_nonneg P : fq_neg (enc P) = false.
  Proof. unfold enc. eapply (@encode_nonneg FqF ark_D fq_neg sr); inst. Qed.

  (* ---- C07 ---- *)
  Let ell := elligator fq_a ark_D ark_ZETA fq_neg sr.
  Lemma F_elligator_valid r0 : validP (ell r0).
  Proof. unfold ell, validP, fq_a. eapply (@elligator_valid FqF ark_D ark_ZETA fq_neg sr); inst. Qed.
  Lemma F_elligator_neg r0 : ell (opp r0) = ell r0.
  Proof. unfold ell. eapply (@elligator_neg FqF ark_D ark_ZETA fq_neg sr); inst. Qed.
  Lemma F_elligator_spec r0 : exists p, elligatorSpec fq_a ark_D ark_ZETA fq_neg r0 p /\ coset_eq p (aff (ell r0)).
  Proof. unfold ell, fq_a. eapply (@elligator_spec FqF ark_D ark_ZETA fq_neg sr); inst. Qed.
  Lemma F_elligator_spec_eq r0 : r0 <> zero -> elligatorSpec fq_a ark_D ark_ZETA fq_neg r0 (aff (ell r0)).
  Proof. unfold ell, fq_a. eapply (@elligator_spec_eq FqF ark_D ark_ZETA fq_neg sr); inst. Qed.
End Codec.
