(* Byte-level corollaries for the two builds (32-byte element encodings). *)
Require Import ZArith List Bool Lia.
From D377 Require Import Base.Certs Base.ZpField Base.FieldSec Base.Fields Model.CVal Model.Decaf Model.Sqrt Model.Bytes Model.Concrete Model.OpTable.
From D377 Require Import Spec.Edwards Spec.DecafSpec.
From D377 Require Import Proofs.Instance Proofs.Final Proofs.Reach Proofs.BytesLemmas.
Import ListNotations.
Local Existing Instance FqF.
Open Scope Z_scope.

Lemma q_lt_253 : q < 2 ^ 253. Proof. reflexivity. Qed.
Lemma fq_to_of v : 0 <= v < q -> val (fq v) = v.
Proof. intro H. unfold fq. rewrite val_of_Z. apply Z.mod_small. exact H. Qed.
Lemma fq_of_to (x : Fq) : fq (val x) = x.
Proof. apply of_Z_val. Qed.
Lemma fq_to_range (x : Fq) : 0 <= val x < q.
Proof. apply val_range. exact q_pos. Qed.

Section Build.
  Variables (dec : Fq -> option pt) (enc : pt -> Fq).
  Hypothesis enc_dec : forall s P, dec s = Some P -> enc P = s.
  Hypothesis dec_enc : forall P, validP P -> exists P', dec (enc P) = Some P' /\ eqE P P' = true.
  Let decompress := decompress32 q fq dec.
  Let compressb := compress val enc.

  (* C01, bytes: decode(encode P) is an element equal to P *)
  Theorem bytes_dec_enc P : validP P -> exists P', decompress (compressb P) = DOk P' /\ eqE P P' = true.
  Proof.
    intro V. destruct (dec_enc P V) as [P' [H E]]. exists P'. split; [|exact E].
    exact (@decompress32_compress q q_lt_253 FqF fq val dec enc fq_of_to fq_to_range P P' H).
  Qed.

  (* C01, bytes: re-encoding an accepted string reproduces it *)
  Theorem bytes_enc_dec b P : bytes_ok b = true -> length b = 32%nat -> decompress b = DOk P -> compressb P = b.
  Proof.
    intros Hb Hl H.
    exact (@compress_decompress32 q q_lt_253 FqF fq val dec enc fq_to_of b P Hb Hl H enc_dec).
  Qed.

  (* C02, bytes: acceptance criterion *)
  Theorem bytes_accept_iff b P : bytes_ok b = true -> length b = 32%nat ->
    (decompress b = DOk P <-> of_le_bytes b < q /\ dec (fq (of_le_bytes b)) = Some P).
  Proof. intros Hb Hl. exact (@decompress32_some_iff q q_lt_253 FqF fq dec b P Hb Hl). Qed.

  Theorem bytes_reject_ge_q b : q <= of_le_bytes b -> decompress b = DErrEncoding.
  Proof. exact (@decompress32_rejects_ge_m_gen q FqF fq dec b). Qed.
  Theorem bytes_reject_high_bits b : Z.shiftr (List.nth 31 b 0) 5 <> 0 -> decompress b = DErrEncoding.
  Proof. exact (@decompress32_rejects_high_bits q FqF fq dec b). Qed.
  Theorem bytes_total b : decompress b = DErrEncoding \/ exists P, decompress b = DOk P.
  Proof.
    destruct (@decompress32_cases q FqF fq dec b) as [H|H]; [right|left]; try exact H.
  Qed.

  (* C03, bytes: canonical little-endian form with the top three bits clear *)
  Theorem bytes_compress_canonical P :
    length (compressb P) = 32%nat /\ bytes_ok (compressb P) = true /\
    of_le_bytes (compressb P) = val (enc P) /\ Z.shiftr (List.nth 31 (compressb P) 0) 5 = 0.
  Proof.
    split; [|split; [|split]].
    - exact (@compress_length FqF val enc P).
    - exact (@compress_ok FqF val enc P).
    - exact (@compress_value q q_lt_253 FqF val enc fq_to_range P).
    - exact (@compress_top3 q q_lt_253 FqF val enc fq_to_range P).
  Qed.
End Build.
