(* The fiat-crypto primitives of the three 32-bit field backends, as translated from src/fields/{fq,fr,fp}/u32/fiat.rs on every run
   (Generated/Fiat*.v), meet their arithmetic specification for ALL arguments in range; and the limb-wise selection built from
   them returns exactly one of its operands. *)
Require Import ZArith List Lia.
From D377 Require Import Model.FiatPrelude Generated.FiatFq Generated.FiatFr Generated.FiatFp Proofs.FiatPrims Proofs.FiatLemmas.
Import ListNotations.
Open Scope Z_scope.

Lemma fq_addcarryx_spec : addcarryx_ok fq_addcarryx_u32. Proof. prove_addcarryx fq_addcarryx_u32. Qed.
Lemma fq_subborrowx_spec : subborrowx_ok fq_subborrowx_u32. Proof. prove_subborrowx fq_subborrowx_u32. Qed.
Lemma fq_mulx_spec : mulx_ok fq_mulx_u32. Proof. prove_mulx fq_mulx_u32. Qed.
Lemma fq_cmovznz_spec : cmovznz_ok fq_cmovznz_u32. Proof. prove_cmovznz fq_cmovznz_u32. Qed.
Lemma fr_addcarryx_spec : addcarryx_ok fr_addcarryx_u32. Proof. prove_addcarryx fr_addcarryx_u32. Qed.
Lemma fr_subborrowx_spec : subborrowx_ok fr_subborrowx_u32. Proof. prove_subborrowx fr_subborrowx_u32. Qed.
Lemma fr_mulx_spec : mulx_ok fr_mulx_u32. Proof. prove_mulx fr_mulx_u32. Qed.
Lemma fr_cmovznz_spec : cmovznz_ok fr_cmovznz_u32. Proof. prove_cmovznz fr_cmovznz_u32. Qed.
Lemma fp_addcarryx_spec : addcarryx_ok fp_addcarryx_u32. Proof. prove_addcarryx fp_addcarryx_u32. Qed.
Lemma fp_subborrowx_spec : subborrowx_ok fp_subborrowx_u32. Proof. prove_subborrowx fp_subborrowx_u32. Qed.
Lemma fp_mulx_spec : mulx_ok fp_mulx_u32. Proof. prove_mulx fp_mulx_u32. Qed.
Lemma fp_cmovznz_spec : cmovznz_ok fp_cmovznz_u32. Proof. prove_cmovznz fp_cmovznz_u32. Qed.

(* every primitive call is the linear relation between its inputs and outputs that the limb-level arguments use *)
Definition fq_al := addcarryx_ok_lin _ fq_addcarryx_spec.
Definition fq_sl := subborrowx_ok_lin _ fq_subborrowx_spec.
Definition fq_cl := cmovznz_ok_lin _ fq_cmovznz_spec.
Definition fr_cl := cmovznz_ok_lin _ fr_cmovznz_spec.
Definition fp_cl := cmovznz_ok_lin _ fp_cmovznz_spec.

Ltac selectznz_tac f cl :=
  let Q := fresh "Q" in
  match goal with |- ?oo = ?r => pose (Q := fun o : list Z => o = r); change (Q oo) end;
  cbv beta iota delta [f nth];
  repeat step1 cl;
  subst Q; cbv beta; subst;
  match goal with |- context [?c =? 0] => destruct (c =? 0) end; reflexivity.

Lemma fq_selectznz_spec c a b : 0 <= c <= 1 -> limbs_ok 8 a -> limbs_ok 8 b ->
  fq_selectznz c a b = if c =? 0 then a else b.
Proof.
  intros Hc Ha Hb. destruct (limbs_ok_8 a Ha) as (a0&a1&a2&a3&a4&a5&a6&a7&->&?&?&?&?&?&?&?&?).
  destruct (limbs_ok_8 b Hb) as (b0&b1&b2&b3&b4&b5&b6&b7&->&?&?&?&?&?&?&?&?). clear Ha Hb.
  selectznz_tac fq_selectznz fq_cl.
Qed.
Lemma fr_selectznz_spec c a b : 0 <= c <= 1 -> limbs_ok 8 a -> limbs_ok 8 b ->
  fr_selectznz c a b = if c =? 0 then a else b.
Proof.
  intros Hc Ha Hb. destruct (limbs_ok_8 a Ha) as (a0&a1&a2&a3&a4&a5&a6&a7&->&?&?&?&?&?&?&?&?).
  destruct (limbs_ok_8 b Hb) as (b0&b1&b2&b3&b4&b5&b6&b7&->&?&?&?&?&?&?&?&?). clear Ha Hb.
  selectznz_tac fr_selectznz fr_cl.
Qed.
Lemma fp_selectznz_spec c a b : 0 <= c <= 1 -> limbs_ok 12 a -> limbs_ok 12 b ->
  fp_selectznz c a b = if c =? 0 then a else b.
Proof.
  intros Hc Ha Hb. destruct (limbs_ok_12 a Ha) as (a0&a1&a2&a3&a4&a5&a6&a7&a8&a9&a10&a11&->&?&?&?&?&?&?&?&?&?&?&?&?).
  destruct (limbs_ok_12 b Hb) as (b0&b1&b2&b3&b4&b5&b6&b7&b8&b9&b10&b11&->&?&?&?&?&?&?&?&?&?&?&?&?). clear Ha Hb.
  selectznz_tac fp_selectznz fp_cl.
Qed.
