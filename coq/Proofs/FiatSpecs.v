(* The fiat-crypto primitives of the three 32-bit field backends, as translated from src/fields/{fq,fr,fp}/u32/fiat.rs on every run
   (Generated/Fiat*.v), meet their arithmetic specification for ALL arguments in range; and the limb-wise selection built from
   them returns exactly one of its operands. *)
Require Import ZArith List Lia.
From D377 Require Import Base.Certs Model.FiatPrelude Generated.FiatFq Generated.FiatFr Generated.FiatFp Proofs.FiatPrims Proofs.FiatLemmas.
Import ListNotations.
Open Scope Z_scope.

Lemma fq_addcarryx_spec : addcarryx_ok fq_addcarryx_u32. Proof. prove_addcarryx fq_addcarryx_u32. Qed.
Lemma fq_subborrowx_spec : subborrowx_ok fq_subborrowx_u32. Proof. prove_subborrowx fq_subborrowx_u32. Qed.
Lemma fq_mulx_spec : mulx_ok fq_mulx_u32. Proof. prove_mulx fq_mulx_u32. Qed.
Lemma fq_cmovznz_spec : cmovznz_ok fq_cmovznz_u32. Proof. prove_cmovznz fq_cmovznz_u32. Qed.
Lemma fr_addcarryx_spec : addcarryx_ok fr_addcarryx_u32. Proof. prove_addcarryx fr_addcarryx_u32. Qed.
Lemma fr_subborrowx_spec : subborrowx_ok fr_subborrowx_u32. Proof. prove_subborrowx fr_subborrowx_u32. Qed.
Lemma fr_mulx_spec : mulx_ok fr_mulx_u32. Proof. prove_mulx fr_mulx_u32. Qed.
Lemma fr_cmovznz_spec : cmovznz_ok fr_cmovznz_u32. Proof. prove_cmovznz fr_cmovznz_u32. Qed.
Lemma fp_addcarryx_spec : addcarryx_ok fp_addcarryx_u32. Proof. prove_addcarryx fp_addcarryx_u32. Qed.
Lemma fp_subborrowx_spec : subborrowx_ok fp_subborrowx_u32. Proof. prove_subborrowx fp_subborrowx_u32. Qed.
Lemma fp_mulx_spec : mulx_ok fp_mulx_u32. Proof. prove_mulx fp_mulx_u32. Qed.
Lemma fp_cmovznz_spec : cmovznz_ok fp_cmovznz_u32. Proof. prove_cmovznz fp_cmovznz_u32. Qed.

(* every primitive call is the linear relation between its inputs and outputs that the limb-level arguments use *)
Definition fq_al := addcarryx_ok_lin _ fq_addcarryx_spec.
Definition fq_sl := subborrowx_ok_lin _ fq_subborrowx_spec.
Definition fq_cl := cmovznz_ok_lin _ fq_cmovznz_spec.
Definition fr_al := addcarryx_ok_lin _ fr_addcarryx_spec.
Definition fr_sl := subborrowx_ok_lin _ fr_subborrowx_spec.
Definition fr_cl := cmovznz_ok_lin _ fr_cmovznz_spec.
Definition fp_al := addcarryx_ok_lin _ fp_addcarryx_spec.
Definition fp_sl := subborrowx_ok_lin _ fp_subborrowx_spec.
Definition fp_cl := cmovznz_ok_lin _ fp_cmovznz_spec.

Ltac selectznz_tac f cl :=
  let Q := fresh "Q" in
  match goal with |- ?oo = ?r => pose (Q := fun o : list Z => o = r); change (Q oo) end;
  cbv beta iota delta [f nth];
  repeat step1 cl;
  subst Q; cbv beta; subst;
  match goal with |- context [?c =? 0] => destruct (c =? 0) end; reflexivity.

Lemma fq_selectznz_spec c a b : 0 <= c <= 1 -> limbs_ok 8 a -> limbs_ok 8 b ->
  fq_selectznz c a b = if c =? 0 then a else b.
Proof.
  intros Hc Ha Hb. destruct (limbs_ok_8 a Ha) as (a0&a1&a2&a3&a4&a5&a6&a7&->&?&?&?&?&?&?&?&?).
  destruct (limbs_ok_8 b Hb) as (b0&b1&b2&b3&b4&b5&b6&b7&->&?&?&?&?&?&?&?&?). clear Ha Hb.
  selectznz_tac fq_selectznz fq_cl.
Qed.
Lemma fr_selectznz_spec c a b : 0 <= c <= 1 -> limbs_ok 8 a -> limbs_ok 8 b ->
  fr_selectznz c a b = if c =? 0 then a else b.
Proof.
  intros Hc Ha Hb. destruct (limbs_ok_8 a Ha) as (a0&a1&a2&a3&a4&a5&a6&a7&->&?&?&?&?&?&?&?&?).
  destruct (limbs_ok_8 b Hb) as (b0&b1&b2&b3&b4&b5&b6&b7&->&?&?&?&?&?&?&?&?). clear Ha Hb.
  selectznz_tac fr_selectznz fr_cl.
Qed.
Lemma fp_selectznz_spec c a b : 0 <= c <= 1 -> limbs_ok 12 a -> limbs_ok 12 b ->
  fp_selectznz c a b = if c =? 0 then a else b.
Proof.
  intros Hc Ha Hb. destruct (limbs_ok_12 a Ha) as (a0&a1&a2&a3&a4&a5&a6&a7&a8&a9&a10&a11&->&?&?&?&?&?&?&?&?&?&?&?&?).
  destruct (limbs_ok_12 b Hb) as (b0&b1&b2&b3&b4&b5&b6&b7&b8&b9&b10&b11&->&?&?&?&?&?&?&?&?&?&?&?&?). clear Ha Hb.
  selectznz_tac fp_selectznz fp_cl.
Qed.

(* fq_add, as translated: for all limb values in range with both operands below the modulus, the result limbs are in range and denote
   (a + b) mod q — the reduced sum, in particular again below the modulus. *)
Lemma fq_add_spec a b : limbs_ok 8 a -> limbs_ok 8 b -> ev a < q -> ev b < q ->
  limbs_ok 8 (fq_add a b) /\ ev (fq_add a b) = (ev a + ev b) mod q.
Proof.
  intros Ha Hb. destruct (limbs_ok_8 a Ha) as (a0&a1&a2&a3&a4&a5&a6&a7&->&?&?&?&?&?&?&?&?).
  destruct (limbs_ok_8 b Hb) as (b0&b1&b2&b3&b4&b5&b6&b7&->&?&?&?&?&?&?&?&?). clear Ha Hb.
  intros HA HB. cbv beta iota delta [ev fold_right] in HA, HB.
  match goal with |- limbs_ok 8 ?oo /\ ev ?oo = ?r => pose (Q := fun o => limbs_ok 8 o /\ ev o = r); change (Q oo) end.
  cbv beta iota delta [fq_add nth].
  do 8 step2 fq_al. eval_closed. do 9 step2 fq_sl. do 8 step1 fq_cl.
  subst Q; cbv beta iota delta [ev fold_right limbs_ok length].
  repeat match goal with H : _ /\ _ |- _ => destruct H end.
  assert (S : v + 2^32*v0 + 2^64*v1 + 2^96*v2 + 2^128*v3 + 2^160*v4 + 2^192*v5 + 2^224*v6 + 2^256*k6 =
    (a0 + 2^32*(a1 + 2^32*(a2 + 2^32*(a3 + 2^32*(a4 + 2^32*(a5 + 2^32*(a6 + 2^32*(a7 + 2^32*0)))))))) +
    (b0 + 2^32*(b1 + 2^32*(b2 + 2^32*(b3 + 2^32*(b4 + 2^32*(b5 + 2^32*(b6 + 2^32*(b7 + 2^32*0))))))))) by (clear HA HB; lia).
  assert (T : v7 + 2^32*v8 + 2^64*v9 + 2^96*v10 + 2^128*v11 + 2^160*v12 + 2^192*v13 + 2^224*v14 - 2^256*k14 =
    v + 2^32*v0 + 2^64*v1 + 2^96*v2 + 2^128*v3 + 2^160*v4 + 2^192*v5 + 2^224*v6 - q) by (clear HA HB S; unfold q; lia).
  assert (RL : 0 <= v + 2^32*v0 + 2^64*v1 + 2^96*v2 + 2^128*v3 + 2^160*v4 + 2^192*v5 + 2^224*v6 < 2^256) by (clear HA HB S T; lia).
  assert (RT : 0 <= v7 + 2^32*v8 + 2^64*v9 + 2^96*v10 + 2^128*v11 + 2^160*v12 + 2^192*v13 + 2^224*v14 < 2^256) by (clear HA HB S T RL; lia).
  assert (RA : 0 <= a0 + 2^32*(a1 + 2^32*(a2 + 2^32*(a3 + 2^32*(a4 + 2^32*(a5 + 2^32*(a6 + 2^32*(a7 + 2^32*0)))))))) by (clear HA HB S T RL RT; lia).
  assert (RB : 0 <= b0 + 2^32*(b1 + 2^32*(b2 + 2^32*(b3 + 2^32*(b4 + 2^32*(b5 + 2^32*(b6 + 2^32*(b7 + 2^32*0)))))))) by (clear HA HB S T RL RT RA; lia).
  split. { split. reflexivity. subst. repeat constructor; destruct (k15 =? 0); lia. }
  replace (r + 2^32*(r0 + 2^32*(r1 + 2^32*(r2 + 2^32*(r3 + 2^32*(r4 + 2^32*(r5 + 2^32*(r6 + 2^32*0))))))))
    with (if k15 =? 0 then v7 + 2^32*v8 + 2^64*v9 + 2^96*v10 + 2^128*v11 + 2^160*v12 + 2^192*v13 + 2^224*v14
          else v + 2^32*v0 + 2^64*v1 + 2^96*v2 + 2^128*v3 + 2^160*v4 + 2^192*v5 + 2^224*v6) by (subst; destruct (k15 =? 0); ring).
  set (A := a0 + 2^32*(a1 + 2^32*(a2 + 2^32*(a3 + 2^32*(a4 + 2^32*(a5 + 2^32*(a6 + 2^32*(a7 + 2^32*0)))))))) in *.
  set (B := b0 + 2^32*(b1 + 2^32*(b2 + 2^32*(b3 + 2^32*(b4 + 2^32*(b5 + 2^32*(b6 + 2^32*(b7 + 2^32*0)))))))) in *.
  set (L := v + 2^32*v0 + 2^64*v1 + 2^96*v2 + 2^128*v3 + 2^160*v4 + 2^192*v5 + 2^224*v6) in *.
  set (TL := v7 + 2^32*v8 + 2^64*v9 + 2^96*v10 + 2^128*v11 + 2^160*v12 + 2^192*v13 + 2^224*v14) in *.
  clearbody A B L TL.
  match goal with H : v15 - 2 ^ 32 * k15 = _ |- _ => rename H into EB end.
  assert (Hq : 0 < q < 2^256) by (unfold q; lia).
  assert (K6 : 0 <= k6 <= 1) by (split; assumption). assert (K14 : 0 <= k14 <= 1) by (split; assumption).
  assert (K15 : 0 <= k15 <= 1) by (split; assumption). assert (V15 : 0 <= v15 < 2 ^ 32) by (split; assumption). clear - S T RL RT RA RB HA HB EB Hq K6 K14 K15 V15. unfold q in *. split_bit k15; cbn [Z.eqb].
  - split_bit k6. all: split_bit k14.
    + apply mod_eq_1. { clear - S T RT HA HB. lia. } clear - S T. lia.
    + exfalso. clear - EB V15. lia.
    + exfalso. clear - S T RT HA HB Hq. lia.
    + apply mod_eq_1. { clear - S T RT HA HB. lia. } clear - S T. lia.
  - split_bit k6. all: split_bit k14.
    + exfalso. clear - EB V15. lia.
    + apply mod_eq_0. { clear - S T RL RT Hq. lia. } clear - S T. lia.
    + exfalso. clear - EB V15. lia.
    + exfalso. clear - EB V15. lia.
Qed.

(* fr_add, as translated: for all limb values in range with both operands below the modulus, the result limbs are in range and denote
   (a + b) mod r — the reduced sum, in particular again below the modulus. *)
Lemma fr_add_spec a b : limbs_ok 8 a -> limbs_ok 8 b -> ev a < Certs.r -> ev b < Certs.r ->
  limbs_ok 8 (fr_add a b) /\ ev (fr_add a b) = (ev a + ev b) mod Certs.r.
Proof.
  intros Ha Hb. destruct (limbs_ok_8 a Ha) as (a0&a1&a2&a3&a4&a5&a6&a7&->&?&?&?&?&?&?&?&?).
  destruct (limbs_ok_8 b Hb) as (b0&b1&b2&b3&b4&b5&b6&b7&->&?&?&?&?&?&?&?&?). clear Ha Hb.
  intros HA HB. cbv beta iota delta [ev fold_right] in HA, HB.
  match goal with |- limbs_ok 8 ?oo /\ ev ?oo = ?r => pose (Q := fun o => limbs_ok 8 o /\ ev o = r); change (Q oo) end.
  cbv beta iota delta [fr_add nth].
  do 8 step2 fr_al. eval_closed. do 9 step2 fr_sl. do 8 step1 fr_cl.
  subst Q; cbv beta iota delta [ev fold_right limbs_ok length].
  repeat match goal with H : _ /\ _ |- _ => destruct H end.
  assert (S : v + 2^32*v0 + 2^64*v1 + 2^96*v2 + 2^128*v3 + 2^160*v4 + 2^192*v5 + 2^224*v6 + 2^256*k6 =
    (a0 + 2^32*(a1 + 2^32*(a2 + 2^32*(a3 + 2^32*(a4 + 2^32*(a5 + 2^32*(a6 + 2^32*(a7 + 2^32*0)))))))) +
    (b0 + 2^32*(b1 + 2^32*(b2 + 2^32*(b3 + 2^32*(b4 + 2^32*(b5 + 2^32*(b6 + 2^32*(b7 + 2^32*0))))))))) by (clear HA HB; lia).
  assert (T : v7 + 2^32*v8 + 2^64*v9 + 2^96*v10 + 2^128*v11 + 2^160*v12 + 2^192*v13 + 2^224*v14 - 2^256*k14 =
    v + 2^32*v0 + 2^64*v1 + 2^96*v2 + 2^128*v3 + 2^160*v4 + 2^192*v5 + 2^224*v6 - Certs.r) by (clear HA HB S; unfold Certs.r; lia).
  assert (RL : 0 <= v + 2^32*v0 + 2^64*v1 + 2^96*v2 + 2^128*v3 + 2^160*v4 + 2^192*v5 + 2^224*v6 < 2^256) by (clear HA HB S T; lia).
  assert (RT : 0 <= v7 + 2^32*v8 + 2^64*v9 + 2^96*v10 + 2^128*v11 + 2^160*v12 + 2^192*v13 + 2^224*v14 < 2^256) by (clear HA HB S T RL; lia).
  assert (RA : 0 <= a0 + 2^32*(a1 + 2^32*(a2 + 2^32*(a3 + 2^32*(a4 + 2^32*(a5 + 2^32*(a6 + 2^32*(a7 + 2^32*0)))))))) by (clear HA HB S T RL RT; lia).
  assert (RB : 0 <= b0 + 2^32*(b1 + 2^32*(b2 + 2^32*(b3 + 2^32*(b4 + 2^32*(b5 + 2^32*(b6 + 2^32*(b7 + 2^32*0)))))))) by (clear HA HB S T RL RT RA; lia).
  split. { split. reflexivity. subst. repeat constructor; destruct (k15 =? 0); lia. }
  replace (r + 2^32*(r0 + 2^32*(r1 + 2^32*(r2 + 2^32*(r3 + 2^32*(r4 + 2^32*(r5 + 2^32*(r6 + 2^32*0))))))))
    with (if k15 =? 0 then v7 + 2^32*v8 + 2^64*v9 + 2^96*v10 + 2^128*v11 + 2^160*v12 + 2^192*v13 + 2^224*v14
          else v + 2^32*v0 + 2^64*v1 + 2^96*v2 + 2^128*v3 + 2^160*v4 + 2^192*v5 + 2^224*v6) by (subst; destruct (k15 =? 0); ring).
  set (A := a0 + 2^32*(a1 + 2^32*(a2 + 2^32*(a3 + 2^32*(a4 + 2^32*(a5 + 2^32*(a6 + 2^32*(a7 + 2^32*0)))))))) in *.
  set (B := b0 + 2^32*(b1 + 2^32*(b2 + 2^32*(b3 + 2^32*(b4 + 2^32*(b5 + 2^32*(b6 + 2^32*(b7 + 2^32*0)))))))) in *.
  set (L := v + 2^32*v0 + 2^64*v1 + 2^96*v2 + 2^128*v3 + 2^160*v4 + 2^192*v5 + 2^224*v6) in *.
  set (TL := v7 + 2^32*v8 + 2^64*v9 + 2^96*v10 + 2^128*v11 + 2^160*v12 + 2^192*v13 + 2^224*v14) in *.
  clearbody A B L TL.
  match goal with H : v15 - 2 ^ 32 * k15 = _ |- _ => rename H into EB end.
  assert (Hq : 0 < Certs.r < 2^256) by (unfold Certs.r; lia).
  assert (K6 : 0 <= k6 <= 1) by (split; assumption). assert (K14 : 0 <= k14 <= 1) by (split; assumption).
  assert (K15 : 0 <= k15 <= 1) by (split; assumption). assert (V15 : 0 <= v15 < 2 ^ 32) by (split; assumption). clear - S T RL RT RA RB HA HB EB Hq K6 K14 K15 V15. unfold Certs.r in *. split_bit k15; cbn [Z.eqb].
  - split_bit k6. all: split_bit k14.
    + apply mod_eq_1. { clear - S T RT HA HB. lia. } clear - S T. lia.
    + exfalso. clear - EB V15. lia.
    + exfalso. clear - S T RT HA HB Hq. lia.
    + apply mod_eq_1. { clear - S T RT HA HB. lia. } clear - S T. lia.
  - split_bit k6. all: split_bit k14.
    + exfalso. clear - EB V15. lia.
    + apply mod_eq_0. { clear - S T RL RT Hq. lia. } clear - S T. lia.
    + exfalso. clear - EB V15. lia.
    + exfalso. clear - EB V15. lia.
Qed.

(* fp_add (12 limbs), as translated: the same statement and the same argument as for the 8-limb fields *)
Lemma fp_add_spec a b : limbs_ok 12 a -> limbs_ok 12 b -> ev a < Certs.p -> ev b < Certs.p ->
  limbs_ok 12 (fp_add a b) /\ ev (fp_add a b) = (ev a + ev b) mod Certs.p.
Proof.
  intros Ha Hb. destruct (limbs_ok_12 a Ha) as (a0&a1&a2&a3&a4&a5&a6&a7&a8&a9&a10&a11&->&?&?&?&?&?&?&?&?&?&?&?&?).
  destruct (limbs_ok_12 b Hb) as (b0&b1&b2&b3&b4&b5&b6&b7&b8&b9&b10&b11&->&?&?&?&?&?&?&?&?&?&?&?&?). clear Ha Hb.
  intros HA HB. cbv beta iota delta [ev fold_right] in HA, HB.
  match goal with |- limbs_ok 12 ?oo /\ ev ?oo = ?rr => pose (Q := fun o => limbs_ok 12 o /\ ev o = rr); change (Q oo) end.
  cbv beta iota delta [fp_add nth].
  do 12 step2 fp_al. eval_closed. do 13 step2 fp_sl. do 12 step1 fp_cl.
  subst Q; cbv beta iota delta [ev fold_right limbs_ok length].
  repeat match goal with H : _ /\ _ |- _ => destruct H end.
  assert (S : v + 2^32*v0 + 2^64*v1 + 2^96*v2 + 2^128*v3 + 2^160*v4 + 2^192*v5 + 2^224*v6 + 2^256*v7 + 2^288*v8 + 2^320*v9 + 2^352*v10 + 2^384*k10 = (a0 + 2^32*(a1 + 2^32*(a2 + 2^32*(a3 + 2^32*(a4 + 2^32*(a5 + 2^32*(a6 + 2^32*(a7 + 2^32*(a8 + 2^32*(a9 + 2^32*(a10 + 2^32*(a11 + 2^32*0)))))))))))) + (b0 + 2^32*(b1 + 2^32*(b2 + 2^32*(b3 + 2^32*(b4 + 2^32*(b5 + 2^32*(b6 + 2^32*(b7 + 2^32*(b8 + 2^32*(b9 + 2^32*(b10 + 2^32*(b11 + 2^32*0))))))))))))) by (clear HA HB; lia).
  assert (T : v11 + 2^32*v12 + 2^64*v13 + 2^96*v14 + 2^128*v15 + 2^160*v16 + 2^192*v17 + 2^224*v18 + 2^256*v19 + 2^288*v20 + 2^320*v21 + 2^352*v22 - 2^384*k22 = v + 2^32*v0 + 2^64*v1 + 2^96*v2 + 2^128*v3 + 2^160*v4 + 2^192*v5 + 2^224*v6 + 2^256*v7 + 2^288*v8 + 2^320*v9 + 2^352*v10 - Certs.p) by (clear HA HB S; unfold Certs.p; lia).
  assert (RL : 0 <= v + 2^32*v0 + 2^64*v1 + 2^96*v2 + 2^128*v3 + 2^160*v4 + 2^192*v5 + 2^224*v6 + 2^256*v7 + 2^288*v8 + 2^320*v9 + 2^352*v10 < 2^384) by (clear HA HB S T; lia).
  assert (RT : 0 <= v11 + 2^32*v12 + 2^64*v13 + 2^96*v14 + 2^128*v15 + 2^160*v16 + 2^192*v17 + 2^224*v18 + 2^256*v19 + 2^288*v20 + 2^320*v21 + 2^352*v22 < 2^384) by (clear HA HB S T RL; lia).
  assert (RA : 0 <= a0 + 2^32*(a1 + 2^32*(a2 + 2^32*(a3 + 2^32*(a4 + 2^32*(a5 + 2^32*(a6 + 2^32*(a7 + 2^32*(a8 + 2^32*(a9 + 2^32*(a10 + 2^32*(a11 + 2^32*0)))))))))))) by (clear HA HB S T RL RT; lia).
  assert (RB : 0 <= b0 + 2^32*(b1 + 2^32*(b2 + 2^32*(b3 + 2^32*(b4 + 2^32*(b5 + 2^32*(b6 + 2^32*(b7 + 2^32*(b8 + 2^32*(b9 + 2^32*(b10 + 2^32*(b11 + 2^32*0)))))))))))) by (clear HA HB S T RL RT RA; lia).
  split. { split. reflexivity. subst. repeat constructor; destruct (k23 =? 0); lia. }
  replace (r + 2^32*(r0 + 2^32*(r1 + 2^32*(r2 + 2^32*(r3 + 2^32*(r4 + 2^32*(r5 + 2^32*(r6 + 2^32*(r7 + 2^32*(r8 + 2^32*(r9 + 2^32*(r10 + 2^32*0))))))))))))
    with (if k23 =? 0 then v11 + 2^32*v12 + 2^64*v13 + 2^96*v14 + 2^128*v15 + 2^160*v16 + 2^192*v17 + 2^224*v18 + 2^256*v19 + 2^288*v20 + 2^320*v21 + 2^352*v22 else v + 2^32*v0 + 2^64*v1 + 2^96*v2 + 2^128*v3 + 2^160*v4 + 2^192*v5 + 2^224*v6 + 2^256*v7 + 2^288*v8 + 2^320*v9 + 2^352*v10) by (subst; destruct (k23 =? 0); ring).
  set (A := a0 + 2^32*(a1 + 2^32*(a2 + 2^32*(a3 + 2^32*(a4 + 2^32*(a5 + 2^32*(a6 + 2^32*(a7 + 2^32*(a8 + 2^32*(a9 + 2^32*(a10 + 2^32*(a11 + 2^32*0)))))))))))) in *.
  set (B := b0 + 2^32*(b1 + 2^32*(b2 + 2^32*(b3 + 2^32*(b4 + 2^32*(b5 + 2^32*(b6 + 2^32*(b7 + 2^32*(b8 + 2^32*(b9 + 2^32*(b10 + 2^32*(b11 + 2^32*0)))))))))))) in *.
  set (L := v + 2^32*v0 + 2^64*v1 + 2^96*v2 + 2^128*v3 + 2^160*v4 + 2^192*v5 + 2^224*v6 + 2^256*v7 + 2^288*v8 + 2^320*v9 + 2^352*v10) in *.
  set (TL := v11 + 2^32*v12 + 2^64*v13 + 2^96*v14 + 2^128*v15 + 2^160*v16 + 2^192*v17 + 2^224*v18 + 2^256*v19 + 2^288*v20 + 2^320*v21 + 2^352*v22) in *.
  clearbody A B L TL.
  match goal with H : v23 - 2 ^ 32 * k23 = _ |- _ => rename H into EB end.
  assert (Hq : 0 < Certs.p < 2^384) by (unfold Certs.p; lia).
  assert (K6 : 0 <= k10 <= 1) by (split; assumption). assert (K14 : 0 <= k22 <= 1) by (split; assumption).
  assert (K15 : 0 <= k23 <= 1) by (split; assumption). assert (V15 : 0 <= v23 < 2 ^ 32) by (split; assumption).
  clear - S T RL RT RA RB HA HB EB Hq K6 K14 K15 V15. unfold Certs.p in *. split_bit k23; cbn [Z.eqb].
  - split_bit k10. all: split_bit k22.
    + apply mod_eq_1. { clear - S T RT HA HB. lia. } clear - S T. lia.
    + exfalso. clear - EB V15. lia.
    + exfalso. clear - S T RT HA HB Hq. lia.
    + apply mod_eq_1. { clear - S T RT HA HB. lia. } clear - S T. lia.
  - split_bit k10. all: split_bit k22.
    + exfalso. clear - EB V15. lia.
    + apply mod_eq_0. { clear - S T RL RT Hq. lia. } clear - S T. lia.
    + exfalso. clear - EB V15. lia.
    + exfalso. clear - EB V15. lia.
Qed.

(* fq_sub / fr_sub, as translated: 8 subtract-with-borrow, the mask 0 / 2^32-1 selected by the final borrow, 8 add-with-carry of the masked
   modulus limbs written in the source: for all limb values in range with both operands below the modulus the result limbs are in range and
   denote (a - b) mod m. *)
Lemma fq_sub_spec a b : limbs_ok 8 a -> limbs_ok 8 b -> ev a < q -> ev b < q ->
  limbs_ok 8 (fq_sub a b) /\ ev (fq_sub a b) = (ev a - ev b) mod q.
Proof.
  intros Ha Hb. destruct (limbs_ok_8 a Ha) as (a0&a1&a2&a3&a4&a5&a6&a7&->&?&?&?&?&?&?&?&?).
  destruct (limbs_ok_8 b Hb) as (b0&b1&b2&b3&b4&b5&b6&b7&->&?&?&?&?&?&?&?&?). clear Ha Hb.
  intros HA HB. cbv beta iota delta [ev fold_right] in HA, HB.
  match goal with |- limbs_ok 8 ?oo /\ ev ?oo = ?rr => pose (Q := fun o => limbs_ok 8 o /\ ev o = rr); change (Q oo) end.
  cbv beta iota delta [fq_sub nth].
  do 8 step2 fq_sl. eval_closed. step1 fq_cl.
  repeat match goal with H : _ /\ _ |- _ => destruct H end.
  assert (S : v + 2^32*v0 + 2^64*v1 + 2^96*v2 + 2^128*v3 + 2^160*v4 + 2^192*v5 + 2^224*v6 - 2^256*k6 =
    (a0 + 2^32*(a1 + 2^32*(a2 + 2^32*(a3 + 2^32*(a4 + 2^32*(a5 + 2^32*(a6 + 2^32*(a7 + 2^32*0)))))))) -
    (b0 + 2^32*(b1 + 2^32*(b2 + 2^32*(b3 + 2^32*(b4 + 2^32*(b5 + 2^32*(b6 + 2^32*(b7 + 2^32*0))))))))) by (clear HA HB; lia).
  assert (K6 : 0 <= k6 <= 1) by (split; assumption).
  split_bit k6; match goal with H : r = _ |- _ => cbn [Z.eqb] in H end; subst r; eval_closed.
  all: do 8 step2 fq_al.
  all: subst Q; cbv beta iota delta [ev fold_right limbs_ok length].
  all: repeat match goal with H : _ /\ _ |- _ => destruct H end.
  - assert (T : v7 + 2^32*v8 + 2^64*v9 + 2^96*v10 + 2^128*v11 + 2^160*v12 + 2^192*v13 + 2^224*v14 + 2^256*k13 = v + 2^32*v0 + 2^64*v1 + 2^96*v2 + 2^128*v3 + 2^160*v4 + 2^192*v5 + 2^224*v6 + 0) by (clear HA HB S; unfold q; lia).
    assert (RL : 0 <= v + 2^32*v0 + 2^64*v1 + 2^96*v2 + 2^128*v3 + 2^160*v4 + 2^192*v5 + 2^224*v6 < 2^256) by (clear HA HB S T; lia).
    assert (RT : 0 <= v7 + 2^32*v8 + 2^64*v9 + 2^96*v10 + 2^128*v11 + 2^160*v12 + 2^192*v13 + 2^224*v14 < 2^256) by (clear HA HB S T RL; lia).
    assert (RA : 0 <= a0 + 2^32*(a1 + 2^32*(a2 + 2^32*(a3 + 2^32*(a4 + 2^32*(a5 + 2^32*(a6 + 2^32*(a7 + 2^32*0)))))))) by (clear HA HB S T RL RT; lia).
    assert (RB : 0 <= b0 + 2^32*(b1 + 2^32*(b2 + 2^32*(b3 + 2^32*(b4 + 2^32*(b5 + 2^32*(b6 + 2^32*(b7 + 2^32*0)))))))) by (clear HA HB S T RL RT RA; lia).
    split. { split. reflexivity. repeat constructor; lia. }
    replace (v7 + 2^32*(v8 + 2^32*(v9 + 2^32*(v10 + 2^32*(v11 + 2^32*(v12 + 2^32*(v13 + 2^32*(v14 + 2^32*0))))))))
      with (v7 + 2^32*v8 + 2^64*v9 + 2^96*v10 + 2^128*v11 + 2^160*v12 + 2^192*v13 + 2^224*v14) by ring.
    set (A := a0 + 2^32*(a1 + 2^32*(a2 + 2^32*(a3 + 2^32*(a4 + 2^32*(a5 + 2^32*(a6 + 2^32*(a7 + 2^32*0)))))))) in *. set (B := b0 + 2^32*(b1 + 2^32*(b2 + 2^32*(b3 + 2^32*(b4 + 2^32*(b5 + 2^32*(b6 + 2^32*(b7 + 2^32*0)))))))) in *. set (L := v + 2^32*v0 + 2^64*v1 + 2^96*v2 + 2^128*v3 + 2^160*v4 + 2^192*v5 + 2^224*v6) in *. set (TL := v7 + 2^32*v8 + 2^64*v9 + 2^96*v10 + 2^128*v11 + 2^160*v12 + 2^192*v13 + 2^224*v14) in *.
    clearbody A B L TL.
    assert (Hq : 0 < q < 2^256) by (unfold q; lia).
    assert (K14 : 0 <= k13 <= 1) by (split; assumption).
    clear - S T RL RT RA RB HA HB Hq K14. unfold q in *.
    split_bit k13.
    + apply mod_eq_0. { clear - S T HA RB RT. lia. } clear - S T. lia.
    + exfalso. clear - S T RL RT. lia.
  - assert (T : v7 + 2^32*v8 + 2^64*v9 + 2^96*v10 + 2^128*v11 + 2^160*v12 + 2^192*v13 + 2^224*v14 + 2^256*k13 = v + 2^32*v0 + 2^64*v1 + 2^96*v2 + 2^128*v3 + 2^160*v4 + 2^192*v5 + 2^224*v6 + q) by (clear HA HB S; unfold q; lia).
    assert (RL : 0 <= v + 2^32*v0 + 2^64*v1 + 2^96*v2 + 2^128*v3 + 2^160*v4 + 2^192*v5 + 2^224*v6 < 2^256) by (clear HA HB S T; lia).
    assert (RT : 0 <= v7 + 2^32*v8 + 2^64*v9 + 2^96*v10 + 2^128*v11 + 2^160*v12 + 2^192*v13 + 2^224*v14 < 2^256) by (clear HA HB S T RL; lia).
    assert (RA : 0 <= a0 + 2^32*(a1 + 2^32*(a2 + 2^32*(a3 + 2^32*(a4 + 2^32*(a5 + 2^32*(a6 + 2^32*(a7 + 2^32*0)))))))) by (clear HA HB S T RL RT; lia).
    assert (RB : 0 <= b0 + 2^32*(b1 + 2^32*(b2 + 2^32*(b3 + 2^32*(b4 + 2^32*(b5 + 2^32*(b6 + 2^32*(b7 + 2^32*0)))))))) by (clear HA HB S T RL RT RA; lia).
    split. { split. reflexivity. repeat constructor; lia. }
    replace (v7 + 2^32*(v8 + 2^32*(v9 + 2^32*(v10 + 2^32*(v11 + 2^32*(v12 + 2^32*(v13 + 2^32*(v14 + 2^32*0))))))))
      with (v7 + 2^32*v8 + 2^64*v9 + 2^96*v10 + 2^128*v11 + 2^160*v12 + 2^192*v13 + 2^224*v14) by ring.
    set (A := a0 + 2^32*(a1 + 2^32*(a2 + 2^32*(a3 + 2^32*(a4 + 2^32*(a5 + 2^32*(a6 + 2^32*(a7 + 2^32*0)))))))) in *. set (B := b0 + 2^32*(b1 + 2^32*(b2 + 2^32*(b3 + 2^32*(b4 + 2^32*(b5 + 2^32*(b6 + 2^32*(b7 + 2^32*0)))))))) in *. set (L := v + 2^32*v0 + 2^64*v1 + 2^96*v2 + 2^128*v3 + 2^160*v4 + 2^192*v5 + 2^224*v6) in *. set (TL := v7 + 2^32*v8 + 2^64*v9 + 2^96*v10 + 2^128*v11 + 2^160*v12 + 2^192*v13 + 2^224*v14) in *.
    clearbody A B L TL.
    assert (Hq : 0 < q < 2^256) by (unfold q; lia).
    assert (K14 : 0 <= k13 <= 1) by (split; assumption).
    clear - S T RL RT RA RB HA HB Hq K14. unfold q in *.
    split_bit k13.
    + exfalso. clear - S T RL RT RA HB Hq. lia.
    + apply mod_eq_m1. { clear - S T RL RT RA HB. lia. } clear - S T. lia.
Qed.

Lemma fr_sub_spec a b : limbs_ok 8 a -> limbs_ok 8 b -> ev a < Certs.r -> ev b < Certs.r ->
  limbs_ok 8 (fr_sub a b) /\ ev (fr_sub a b) = (ev a - ev b) mod Certs.r.
Proof.
  intros Ha Hb. destruct (limbs_ok_8 a Ha) as (a0&a1&a2&a3&a4&a5&a6&a7&->&?&?&?&?&?&?&?&?).
  destruct (limbs_ok_8 b Hb) as (b0&b1&b2&b3&b4&b5&b6&b7&->&?&?&?&?&?&?&?&?). clear Ha Hb.
  intros HA HB. cbv beta iota delta [ev fold_right] in HA, HB.
  match goal with |- limbs_ok 8 ?oo /\ ev ?oo = ?rr => pose (Q := fun o => limbs_ok 8 o /\ ev o = rr); change (Q oo) end.
  cbv beta iota delta [fr_sub nth].
  do 8 step2 fr_sl. eval_closed. step1 fr_cl.
  repeat match goal with H : _ /\ _ |- _ => destruct H end.
  assert (S : v + 2^32*v0 + 2^64*v1 + 2^96*v2 + 2^128*v3 + 2^160*v4 + 2^192*v5 + 2^224*v6 - 2^256*k6 =
    (a0 + 2^32*(a1 + 2^32*(a2 + 2^32*(a3 + 2^32*(a4 + 2^32*(a5 + 2^32*(a6 + 2^32*(a7 + 2^32*0)))))))) -
    (b0 + 2^32*(b1 + 2^32*(b2 + 2^32*(b3 + 2^32*(b4 + 2^32*(b5 + 2^32*(b6 + 2^32*(b7 + 2^32*0))))))))) by (clear HA HB; lia).
  assert (K6 : 0 <= k6 <= 1) by (split; assumption).
  split_bit k6; match goal with H : r = _ |- _ => cbn [Z.eqb] in H end; subst r; eval_closed.
  all: do 8 step2 fr_al.
  all: subst Q; cbv beta iota delta [ev fold_right limbs_ok length].
  all: repeat match goal with H : _ /\ _ |- _ => destruct H end.
  - assert (T : v7 + 2^32*v8 + 2^64*v9 + 2^96*v10 + 2^128*v11 + 2^160*v12 + 2^192*v13 + 2^224*v14 + 2^256*k13 = v + 2^32*v0 + 2^64*v1 + 2^96*v2 + 2^128*v3 + 2^160*v4 + 2^192*v5 + 2^224*v6 + 0) by (clear HA HB S; unfold Certs.r; lia).
    assert (RL : 0 <= v + 2^32*v0 + 2^64*v1 + 2^96*v2 + 2^128*v3 + 2^160*v4 + 2^192*v5 + 2^224*v6 < 2^256) by (clear HA HB S T; lia).
    assert (RT : 0 <= v7 + 2^32*v8 + 2^64*v9 + 2^96*v10 + 2^128*v11 + 2^160*v12 + 2^192*v13 + 2^224*v14 < 2^256) by (clear HA HB S T RL; lia).
    assert (RA : 0 <= a0 + 2^32*(a1 + 2^32*(a2 + 2^32*(a3 + 2^32*(a4 + 2^32*(a5 + 2^32*(a6 + 2^32*(a7 + 2^32*0)))))))) by (clear HA HB S T RL RT; lia).
    assert (RB : 0 <= b0 + 2^32*(b1 + 2^32*(b2 + 2^32*(b3 + 2^32*(b4 + 2^32*(b5 + 2^32*(b6 + 2^32*(b7 + 2^32*0)))))))) by (clear HA HB S T RL RT RA; lia).
    split. { split. reflexivity. repeat constructor; lia. }
    replace (v7 + 2^32*(v8 + 2^32*(v9 + 2^32*(v10 + 2^32*(v11 + 2^32*(v12 + 2^32*(v13 + 2^32*(v14 + 2^32*0))))))))
      with (v7 + 2^32*v8 + 2^64*v9 + 2^96*v10 + 2^128*v11 + 2^160*v12 + 2^192*v13 + 2^224*v14) by ring.
    set (A := a0 + 2^32*(a1 + 2^32*(a2 + 2^32*(a3 + 2^32*(a4 + 2^32*(a5 + 2^32*(a6 + 2^32*(a7 + 2^32*0)))))))) in *. set (B := b0 + 2^32*(b1 + 2^32*(b2 + 2^32*(b3 + 2^32*(b4 + 2^32*(b5 + 2^32*(b6 + 2^32*(b7 + 2^32*0)))))))) in *. set (L := v + 2^32*v0 + 2^64*v1 + 2^96*v2 + 2^128*v3 + 2^160*v4 + 2^192*v5 + 2^224*v6) in *. set (TL := v7 + 2^32*v8 + 2^64*v9 + 2^96*v10 + 2^128*v11 + 2^160*v12 + 2^192*v13 + 2^224*v14) in *.
    clearbody A B L TL.
    assert (Hq : 0 < Certs.r < 2^256) by (unfold Certs.r; lia).
    assert (K14 : 0 <= k13 <= 1) by (split; assumption).
    clear - S T RL RT RA RB HA HB Hq K14. unfold Certs.r in *.
    split_bit k13.
    + apply mod_eq_0. { clear - S T HA RB RT. lia. } clear - S T. lia.
    + exfalso. clear - S T RL RT. lia.
  - assert (T : v7 + 2^32*v8 + 2^64*v9 + 2^96*v10 + 2^128*v11 + 2^160*v12 + 2^192*v13 + 2^224*v14 + 2^256*k13 = v + 2^32*v0 + 2^64*v1 + 2^96*v2 + 2^128*v3 + 2^160*v4 + 2^192*v5 + 2^224*v6 + Certs.r) by (clear HA HB S; unfold Certs.r; lia).
    assert (RL : 0 <= v + 2^32*v0 + 2^64*v1 + 2^96*v2 + 2^128*v3 + 2^160*v4 + 2^192*v5 + 2^224*v6 < 2^256) by (clear HA HB S T; lia).
    assert (RT : 0 <= v7 + 2^32*v8 + 2^64*v9 + 2^96*v10 + 2^128*v11 + 2^160*v12 + 2^192*v13 + 2^224*v14 < 2^256) by (clear HA HB S T RL; lia).
    assert (RA : 0 <= a0 + 2^32*(a1 + 2^32*(a2 + 2^32*(a3 + 2^32*(a4 + 2^32*(a5 + 2^32*(a6 + 2^32*(a7 + 2^32*0)))))))) by (clear HA HB S T RL RT; lia).
    assert (RB : 0 <= b0 + 2^32*(b1 + 2^32*(b2 + 2^32*(b3 + 2^32*(b4 + 2^32*(b5 + 2^32*(b6 + 2^32*(b7 + 2^32*0)))))))) by (clear HA HB S T RL RT RA; lia).
    split. { split. reflexivity. repeat constructor; lia. }
    replace (v7 + 2^32*(v8 + 2^32*(v9 + 2^32*(v10 + 2^32*(v11 + 2^32*(v12 + 2^32*(v13 + 2^32*(v14 + 2^32*0))))))))
      with (v7 + 2^32*v8 + 2^64*v9 + 2^96*v10 + 2^128*v11 + 2^160*v12 + 2^192*v13 + 2^224*v14) by ring.
    set (A := a0 + 2^32*(a1 + 2^32*(a2 + 2^32*(a3 + 2^32*(a4 + 2^32*(a5 + 2^32*(a6 + 2^32*(a7 + 2^32*0)))))))) in *. set (B := b0 + 2^32*(b1 + 2^32*(b2 + 2^32*(b3 + 2^32*(b4 + 2^32*(b5 + 2^32*(b6 + 2^32*(b7 + 2^32*0)))))))) in *. set (L := v + 2^32*v0 + 2^64*v1 + 2^96*v2 + 2^128*v3 + 2^160*v4 + 2^192*v5 + 2^224*v6) in *. set (TL := v7 + 2^32*v8 + 2^64*v9 + 2^96*v10 + 2^128*v11 + 2^160*v12 + 2^192*v13 + 2^224*v14) in *.
    clearbody A B L TL.
    assert (Hq : 0 < Certs.r < 2^256) by (unfold Certs.r; lia).
    assert (K14 : 0 <= k13 <= 1) by (split; assumption).
    clear - S T RL RT RA RB HA HB Hq K14. unfold Certs.r in *.
    split_bit k13.
    + exfalso. clear - S T RL RT RA HB Hq. lia.
    + apply mod_eq_m1. { clear - S T RL RT RA HB. lia. } clear - S T. lia.
Qed.

(* fq_opp / fr_opp, as translated: the borrow chain of 0 - a and the masked add-back: (- a) mod m, in particular opp 0 = 0 (canonical). *)
Lemma fq_opp_spec b : limbs_ok 8 b -> ev b < q ->
  limbs_ok 8 (fq_opp b) /\ ev (fq_opp b) = (- ev b) mod q.
Proof.
  intros Hb.
  destruct (limbs_ok_8 b Hb) as (b0&b1&b2&b3&b4&b5&b6&b7&->&?&?&?&?&?&?&?&?). clear Hb.
  intros HB. cbv beta iota delta [ev fold_right] in HB.
  match goal with |- limbs_ok 8 ?oo /\ ev ?oo = ?rr => pose (Q := fun o => limbs_ok 8 o /\ ev o = rr); change (Q oo) end.
  cbv beta iota delta [fq_opp nth]. eval_closed.
  do 8 step2 fq_sl. eval_closed. step1 fq_cl.
  repeat match goal with H : _ /\ _ |- _ => destruct H end.
  assert (S : v + 2^32*v0 + 2^64*v1 + 2^96*v2 + 2^128*v3 + 2^160*v4 + 2^192*v5 + 2^224*v6 - 2^256*k6 =
    - (b0 + 2^32*(b1 + 2^32*(b2 + 2^32*(b3 + 2^32*(b4 + 2^32*(b5 + 2^32*(b6 + 2^32*(b7 + 2^32*0))))))))) by (clear HB; lia).
  assert (K6 : 0 <= k6 <= 1) by (split; assumption).
  split_bit k6; match goal with H : r = _ |- _ => cbn [Z.eqb] in H end; subst r; eval_closed.
  all: do 8 step2 fq_al.
  all: subst Q; cbv beta iota delta [ev fold_right limbs_ok length].
  all: repeat match goal with H : _ /\ _ |- _ => destruct H end.
  - assert (T : v7 + 2^32*v8 + 2^64*v9 + 2^96*v10 + 2^128*v11 + 2^160*v12 + 2^192*v13 + 2^224*v14 + 2^256*k13 = v + 2^32*v0 + 2^64*v1 + 2^96*v2 + 2^128*v3 + 2^160*v4 + 2^192*v5 + 2^224*v6 + 0) by (clear HB S; unfold q; lia).
    assert (RL : 0 <= v + 2^32*v0 + 2^64*v1 + 2^96*v2 + 2^128*v3 + 2^160*v4 + 2^192*v5 + 2^224*v6 < 2^256) by (clear HB S T; lia).
    assert (RT : 0 <= v7 + 2^32*v8 + 2^64*v9 + 2^96*v10 + 2^128*v11 + 2^160*v12 + 2^192*v13 + 2^224*v14 < 2^256) by (clear HB S T RL; lia).
    assert (RB : 0 <= b0 + 2^32*(b1 + 2^32*(b2 + 2^32*(b3 + 2^32*(b4 + 2^32*(b5 + 2^32*(b6 + 2^32*(b7 + 2^32*0)))))))) by (clear HB S T RL RT; lia).
    split. { split. reflexivity. repeat constructor; lia. }
    replace (v7 + 2^32*(v8 + 2^32*(v9 + 2^32*(v10 + 2^32*(v11 + 2^32*(v12 + 2^32*(v13 + 2^32*(v14 + 2^32*0))))))))
      with (v7 + 2^32*v8 + 2^64*v9 + 2^96*v10 + 2^128*v11 + 2^160*v12 + 2^192*v13 + 2^224*v14) by ring.
    set (B := b0 + 2^32*(b1 + 2^32*(b2 + 2^32*(b3 + 2^32*(b4 + 2^32*(b5 + 2^32*(b6 + 2^32*(b7 + 2^32*0)))))))) in *. set (L := v + 2^32*v0 + 2^64*v1 + 2^96*v2 + 2^128*v3 + 2^160*v4 + 2^192*v5 + 2^224*v6) in *. set (TL := v7 + 2^32*v8 + 2^64*v9 + 2^96*v10 + 2^128*v11 + 2^160*v12 + 2^192*v13 + 2^224*v14) in *.
    clearbody B L TL.
    assert (Hq : 0 < q < 2^256) by (unfold q; lia).
    assert (K14 : 0 <= k13 <= 1) by (split; assumption).
    clear - S T RL RT RB HB Hq K14. unfold q in *.
    split_bit k13.
    + apply mod_eq_0. { clear - S T RB RT Hq. lia. } clear - S T. lia.
    + exfalso. clear - S T RL RT. lia.
  - assert (T : v7 + 2^32*v8 + 2^64*v9 + 2^96*v10 + 2^128*v11 + 2^160*v12 + 2^192*v13 + 2^224*v14 + 2^256*k13 = v + 2^32*v0 + 2^64*v1 + 2^96*v2 + 2^128*v3 + 2^160*v4 + 2^192*v5 + 2^224*v6 + q) by (clear HB S; unfold q; lia).
    assert (RL : 0 <= v + 2^32*v0 + 2^64*v1 + 2^96*v2 + 2^128*v3 + 2^160*v4 + 2^192*v5 + 2^224*v6 < 2^256) by (clear HB S T; lia).
    assert (RT : 0 <= v7 + 2^32*v8 + 2^64*v9 + 2^96*v10 + 2^128*v11 + 2^160*v12 + 2^192*v13 + 2^224*v14 < 2^256) by (clear HB S T RL; lia).
    assert (RB : 0 <= b0 + 2^32*(b1 + 2^32*(b2 + 2^32*(b3 + 2^32*(b4 + 2^32*(b5 + 2^32*(b6 + 2^32*(b7 + 2^32*0)))))))) by (clear HB S T RL RT; lia).
    split. { split. reflexivity. repeat constructor; lia. }
    replace (v7 + 2^32*(v8 + 2^32*(v9 + 2^32*(v10 + 2^32*(v11 + 2^32*(v12 + 2^32*(v13 + 2^32*(v14 + 2^32*0))))))))
      with (v7 + 2^32*v8 + 2^64*v9 + 2^96*v10 + 2^128*v11 + 2^160*v12 + 2^192*v13 + 2^224*v14) by ring.
    set (B := b0 + 2^32*(b1 + 2^32*(b2 + 2^32*(b3 + 2^32*(b4 + 2^32*(b5 + 2^32*(b6 + 2^32*(b7 + 2^32*0)))))))) in *. set (L := v + 2^32*v0 + 2^64*v1 + 2^96*v2 + 2^128*v3 + 2^160*v4 + 2^192*v5 + 2^224*v6) in *. set (TL := v7 + 2^32*v8 + 2^64*v9 + 2^96*v10 + 2^128*v11 + 2^160*v12 + 2^192*v13 + 2^224*v14) in *.
    clearbody B L TL.
    assert (Hq : 0 < q < 2^256) by (unfold q; lia).
    assert (K14 : 0 <= k13 <= 1) by (split; assumption).
    clear - S T RL RT RB HB Hq K14. unfold q in *.
    split_bit k13.
    + exfalso. clear - S T RL RT HB Hq. lia.
    + apply mod_eq_m1. { clear - S T RL RT HB. lia. } clear - S T. lia.
Qed.

Lemma fr_opp_spec b : limbs_ok 8 b -> ev b < Certs.r ->
  limbs_ok 8 (fr_opp b) /\ ev (fr_opp b) = (- ev b) mod Certs.r.
Proof.
  intros Hb.
  destruct (limbs_ok_8 b Hb) as (b0&b1&b2&b3&b4&b5&b6&b7&->&?&?&?&?&?&?&?&?). clear Hb.
  intros HB. cbv beta iota delta [ev fold_right] in HB.
  match goal with |- limbs_ok 8 ?oo /\ ev ?oo = ?rr => pose (Q := fun o => limbs_ok 8 o /\ ev o = rr); change (Q oo) end.
  cbv beta iota delta [fr_opp nth]. eval_closed.
  do 8 step2 fr_sl. eval_closed. step1 fr_cl.
  repeat match goal with H : _ /\ _ |- _ => destruct H end.
  assert (S : v + 2^32*v0 + 2^64*v1 + 2^96*v2 + 2^128*v3 + 2^160*v4 + 2^192*v5 + 2^224*v6 - 2^256*k6 =
    - (b0 + 2^32*(b1 + 2^32*(b2 + 2^32*(b3 + 2^32*(b4 + 2^32*(b5 + 2^32*(b6 + 2^32*(b7 + 2^32*0))))))))) by (clear HB; lia).
  assert (K6 : 0 <= k6 <= 1) by (split; assumption).
  split_bit k6; match goal with H : r = _ |- _ => cbn [Z.eqb] in H end; subst r; eval_closed.
  all: do 8 step2 fr_al.
  all: subst Q; cbv beta iota delta [ev fold_right limbs_ok length].
  all: repeat match goal with H : _ /\ _ |- _ => destruct H end.
  - assert (T : v7 + 2^32*v8 + 2^64*v9 + 2^96*v10 + 2^128*v11 + 2^160*v12 + 2^192*v13 + 2^224*v14 + 2^256*k13 = v + 2^32*v0 + 2^64*v1 + 2^96*v2 + 2^128*v3 + 2^160*v4 + 2^192*v5 + 2^224*v6 + 0) by (clear HB S; unfold Certs.r; lia).
    assert (RL : 0 <= v + 2^32*v0 + 2^64*v1 + 2^96*v2 + 2^128*v3 + 2^160*v4 + 2^192*v5 + 2^224*v6 < 2^256) by (clear HB S T; lia).
    assert (RT : 0 <= v7 + 2^32*v8 + 2^64*v9 + 2^96*v10 + 2^128*v11 + 2^160*v12 + 2^192*v13 + 2^224*v14 < 2^256) by (clear HB S T RL; lia).
    assert (RB : 0 <= b0 + 2^32*(b1 + 2^32*(b2 + 2^32*(b3 + 2^32*(b4 + 2^32*(b5 + 2^32*(b6 + 2^32*(b7 + 2^32*0)))))))) by (clear HB S T RL RT; lia).
    split. { split. reflexivity. repeat constructor; lia. }
    replace (v7 + 2^32*(v8 + 2^32*(v9 + 2^32*(v10 + 2^32*(v11 + 2^32*(v12 + 2^32*(v13 + 2^32*(v14 + 2^32*0))))))))
      with (v7 + 2^32*v8 + 2^64*v9 + 2^96*v10 + 2^128*v11 + 2^160*v12 + 2^192*v13 + 2^224*v14) by ring.
    set (B := b0 + 2^32*(b1 + 2^32*(b2 + 2^32*(b3 + 2^32*(b4 + 2^32*(b5 + 2^32*(b6 + 2^32*(b7 + 2^32*0)))))))) in *. set (L := v + 2^32*v0 + 2^64*v1 + 2^96*v2 + 2^128*v3 + 2^160*v4 + 2^192*v5 + 2^224*v6) in *. set (TL := v7 + 2^32*v8 + 2^64*v9 + 2^96*v10 + 2^128*v11 + 2^160*v12 + 2^192*v13 + 2^224*v14) in *.
    clearbody B L TL.
    assert (Hq : 0 < Certs.r < 2^256) by (unfold Certs.r; lia).
    assert (K14 : 0 <= k13 <= 1) by (split; assumption).
    clear - S T RL RT RB HB Hq K14. unfold Certs.r in *.
    split_bit k13.
    + apply mod_eq_0. { clear - S T RB RT Hq. lia. } clear - S T. lia.
    + exfalso. clear - S T RL RT. lia.
  - assert (T : v7 + 2^32*v8 + 2^64*v9 + 2^96*v10 + 2^128*v11 + 2^160*v12 + 2^192*v13 + 2^224*v14 + 2^256*k13 = v + 2^32*v0 + 2^64*v1 + 2^96*v2 + 2^128*v3 + 2^160*v4 + 2^192*v5 + 2^224*v6 + Certs.r) by (clear HB S; unfold Certs.r; lia).
    assert (RL : 0 <= v + 2^32*v0 + 2^64*v1 + 2^96*v2 + 2^128*v3 + 2^160*v4 + 2^192*v5 + 2^224*v6 < 2^256) by (clear HB S T; lia).
    assert (RT : 0 <= v7 + 2^32*v8 + 2^64*v9 + 2^96*v10 + 2^128*v11 + 2^160*v12 + 2^192*v13 + 2^224*v14 < 2^256) by (clear HB S T RL; lia).
    assert (RB : 0 <= b0 + 2^32*(b1 + 2^32*(b2 + 2^32*(b3 + 2^32*(b4 + 2^32*(b5 + 2^32*(b6 + 2^32*(b7 + 2^32*0)))))))) by (clear HB S T RL RT; lia).
    split. { split. reflexivity. repeat constructor; lia. }
    replace (v7 + 2^32*(v8 + 2^32*(v9 + 2^32*(v10 + 2^32*(v11 + 2^32*(v12 + 2^32*(v13 + 2^32*(v14 + 2^32*0))))))))
      with (v7 + 2^32*v8 + 2^64*v9 + 2^96*v10 + 2^128*v11 + 2^160*v12 + 2^192*v13 + 2^224*v14) by ring.
    set (B := b0 + 2^32*(b1 + 2^32*(b2 + 2^32*(b3 + 2^32*(b4 + 2^32*(b5 + 2^32*(b6 + 2^32*(b7 + 2^32*0)))))))) in *. set (L := v + 2^32*v0 + 2^64*v1 + 2^96*v2 + 2^128*v3 + 2^160*v4 + 2^192*v5 + 2^224*v6) in *. set (TL := v7 + 2^32*v8 + 2^64*v9 + 2^96*v10 + 2^128*v11 + 2^160*v12 + 2^192*v13 + 2^224*v14) in *.
    clearbody B L TL.
    assert (Hq : 0 < Certs.r < 2^256) by (unfold Certs.r; lia).
    assert (K14 : 0 <= k13 <= 1) by (split; assumption).
    clear - S T RL RT RB HB Hq K14. unfold Certs.r in *.
    split_bit k13.
    + exfalso. clear - S T RL RT HB Hq. lia.
    + apply mod_eq_m1. { clear - S T RL RT HB. lia. } clear - S T. lia.
Qed.

(* fp_sub / fp_opp (12 limbs): the same statements and the same argument *)
Lemma fp_sub_spec a b : limbs_ok 12 a -> limbs_ok 12 b -> ev a < Certs.p -> ev b < Certs.p ->
  limbs_ok 12 (fp_sub a b) /\ ev (fp_sub a b) = (ev a - ev b) mod Certs.p.
Proof.
  intros Ha Hb. destruct (limbs_ok_12 a Ha) as (a0&a1&a2&a3&a4&a5&a6&a7&a8&a9&a10&a11&->&?&?&?&?&?&?&?&?&?&?&?&?).
  destruct (limbs_ok_12 b Hb) as (b0&b1&b2&b3&b4&b5&b6&b7&b8&b9&b10&b11&->&?&?&?&?&?&?&?&?&?&?&?&?). clear Ha Hb.
  intros HA HB. cbv beta iota delta [ev fold_right] in HA, HB.
  match goal with |- limbs_ok 12 ?oo /\ ev ?oo = ?rr => pose (Q := fun o => limbs_ok 12 o /\ ev o = rr); change (Q oo) end.
  cbv beta iota delta [fp_sub nth]. eval_closed.
  do 12 step2 fp_sl. eval_closed. step1 fp_cl.
  repeat match goal with H : _ /\ _ |- _ => destruct H end.
  assert (S : v + 2^32*v0 + 2^64*v1 + 2^96*v2 + 2^128*v3 + 2^160*v4 + 2^192*v5 + 2^224*v6 + 2^256*v7 + 2^288*v8 + 2^320*v9 + 2^352*v10 - 2^384*k10 = (a0 + 2^32*(a1 + 2^32*(a2 + 2^32*(a3 + 2^32*(a4 + 2^32*(a5 + 2^32*(a6 + 2^32*(a7 + 2^32*(a8 + 2^32*(a9 + 2^32*(a10 + 2^32*(a11 + 2^32*0)))))))))))) - (b0 + 2^32*(b1 + 2^32*(b2 + 2^32*(b3 + 2^32*(b4 + 2^32*(b5 + 2^32*(b6 + 2^32*(b7 + 2^32*(b8 + 2^32*(b9 + 2^32*(b10 + 2^32*(b11 + 2^32*0))))))))))))) by (clear HA HB; lia).
  assert (KB : 0 <= k10 <= 1) by (split; assumption).
  split_bit k10; match goal with H : r = _ |- _ => cbn [Z.eqb] in H end; subst r; eval_closed.
  all: do 12 step2 fp_al.
  all: subst Q; cbv beta iota delta [ev fold_right limbs_ok length].
  all: repeat match goal with H : _ /\ _ |- _ => destruct H end.
  - assert (T : v11 + 2^32*v12 + 2^64*v13 + 2^96*v14 + 2^128*v15 + 2^160*v16 + 2^192*v17 + 2^224*v18 + 2^256*v19 + 2^288*v20 + 2^320*v21 + 2^352*v22 + 2^384*k21 = v + 2^32*v0 + 2^64*v1 + 2^96*v2 + 2^128*v3 + 2^160*v4 + 2^192*v5 + 2^224*v6 + 2^256*v7 + 2^288*v8 + 2^320*v9 + 2^352*v10 + 0) by (clear HA HB S; unfold Certs.p; lia).
    assert (RL : 0 <= v + 2^32*v0 + 2^64*v1 + 2^96*v2 + 2^128*v3 + 2^160*v4 + 2^192*v5 + 2^224*v6 + 2^256*v7 + 2^288*v8 + 2^320*v9 + 2^352*v10 < 2^384) by (clear HA HB S T; lia).
    assert (RT : 0 <= v11 + 2^32*v12 + 2^64*v13 + 2^96*v14 + 2^128*v15 + 2^160*v16 + 2^192*v17 + 2^224*v18 + 2^256*v19 + 2^288*v20 + 2^320*v21 + 2^352*v22 < 2^384) by (clear HA HB S T RL; lia).
    assert (RA : 0 <= a0 + 2^32*(a1 + 2^32*(a2 + 2^32*(a3 + 2^32*(a4 + 2^32*(a5 + 2^32*(a6 + 2^32*(a7 + 2^32*(a8 + 2^32*(a9 + 2^32*(a10 + 2^32*(a11 + 2^32*0)))))))))))) by (clear HA HB S T RL RT; lia).
    assert (RB : 0 <= b0 + 2^32*(b1 + 2^32*(b2 + 2^32*(b3 + 2^32*(b4 + 2^32*(b5 + 2^32*(b6 + 2^32*(b7 + 2^32*(b8 + 2^32*(b9 + 2^32*(b10 + 2^32*(b11 + 2^32*0)))))))))))) by (clear HA HB S T RL RT; lia).
    split. { split. reflexivity. repeat constructor; lia. }
    replace (v11 + 2^32*(v12 + 2^32*(v13 + 2^32*(v14 + 2^32*(v15 + 2^32*(v16 + 2^32*(v17 + 2^32*(v18 + 2^32*(v19 + 2^32*(v20 + 2^32*(v21 + 2^32*(v22 + 2^32*0)))))))))))) with (v11 + 2^32*v12 + 2^64*v13 + 2^96*v14 + 2^128*v15 + 2^160*v16 + 2^192*v17 + 2^224*v18 + 2^256*v19 + 2^288*v20 + 2^320*v21 + 2^352*v22) by ring.
    set (A := a0 + 2^32*(a1 + 2^32*(a2 + 2^32*(a3 + 2^32*(a4 + 2^32*(a5 + 2^32*(a6 + 2^32*(a7 + 2^32*(a8 + 2^32*(a9 + 2^32*(a10 + 2^32*(a11 + 2^32*0)))))))))))) in *. set (B := b0 + 2^32*(b1 + 2^32*(b2 + 2^32*(b3 + 2^32*(b4 + 2^32*(b5 + 2^32*(b6 + 2^32*(b7 + 2^32*(b8 + 2^32*(b9 + 2^32*(b10 + 2^32*(b11 + 2^32*0)))))))))))) in *. set (L := v + 2^32*v0 + 2^64*v1 + 2^96*v2 + 2^128*v3 + 2^160*v4 + 2^192*v5 + 2^224*v6 + 2^256*v7 + 2^288*v8 + 2^320*v9 + 2^352*v10) in *. set (TL := v11 + 2^32*v12 + 2^64*v13 + 2^96*v14 + 2^128*v15 + 2^160*v16 + 2^192*v17 + 2^224*v18 + 2^256*v19 + 2^288*v20 + 2^320*v21 + 2^352*v22) in *.
    clearbody A B L TL.
    assert (Hq : 0 < Certs.p < 2^384) by (unfold Certs.p; lia).
    assert (KC : 0 <= k21 <= 1) by (split; assumption).
    clear - S T RL RT RA HA RB HB Hq KC. unfold Certs.p in *.
    split_bit k21.
    + apply mod_eq_0. { clear - S T HA RB RT. lia. } clear - S T. lia.
    + exfalso. clear - S T RL RT. lia.
  - assert (T : v11 + 2^32*v12 + 2^64*v13 + 2^96*v14 + 2^128*v15 + 2^160*v16 + 2^192*v17 + 2^224*v18 + 2^256*v19 + 2^288*v20 + 2^320*v21 + 2^352*v22 + 2^384*k21 = v + 2^32*v0 + 2^64*v1 + 2^96*v2 + 2^128*v3 + 2^160*v4 + 2^192*v5 + 2^224*v6 + 2^256*v7 + 2^288*v8 + 2^320*v9 + 2^352*v10 + Certs.p) by (clear HA HB S; unfold Certs.p; lia).
    assert (RL : 0 <= v + 2^32*v0 + 2^64*v1 + 2^96*v2 + 2^128*v3 + 2^160*v4 + 2^192*v5 + 2^224*v6 + 2^256*v7 + 2^288*v8 + 2^320*v9 + 2^352*v10 < 2^384) by (clear HA HB S T; lia).
    assert (RT : 0 <= v11 + 2^32*v12 + 2^64*v13 + 2^96*v14 + 2^128*v15 + 2^160*v16 + 2^192*v17 + 2^224*v18 + 2^256*v19 + 2^288*v20 + 2^320*v21 + 2^352*v22 < 2^384) by (clear HA HB S T RL; lia).
    assert (RA : 0 <= a0 + 2^32*(a1 + 2^32*(a2 + 2^32*(a3 + 2^32*(a4 + 2^32*(a5 + 2^32*(a6 + 2^32*(a7 + 2^32*(a8 + 2^32*(a9 + 2^32*(a10 + 2^32*(a11 + 2^32*0)))))))))))) by (clear HA HB S T RL RT; lia).
    assert (RB : 0 <= b0 + 2^32*(b1 + 2^32*(b2 + 2^32*(b3 + 2^32*(b4 + 2^32*(b5 + 2^32*(b6 + 2^32*(b7 + 2^32*(b8 + 2^32*(b9 + 2^32*(b10 + 2^32*(b11 + 2^32*0)))))))))))) by (clear HA HB S T RL RT; lia).
    split. { split. reflexivity. repeat constructor; lia. }
    replace (v11 + 2^32*(v12 + 2^32*(v13 + 2^32*(v14 + 2^32*(v15 + 2^32*(v16 + 2^32*(v17 + 2^32*(v18 + 2^32*(v19 + 2^32*(v20 + 2^32*(v21 + 2^32*(v22 + 2^32*0)))))))))))) with (v11 + 2^32*v12 + 2^64*v13 + 2^96*v14 + 2^128*v15 + 2^160*v16 + 2^192*v17 + 2^224*v18 + 2^256*v19 + 2^288*v20 + 2^320*v21 + 2^352*v22) by ring.
    set (A := a0 + 2^32*(a1 + 2^32*(a2 + 2^32*(a3 + 2^32*(a4 + 2^32*(a5 + 2^32*(a6 + 2^32*(a7 + 2^32*(a8 + 2^32*(a9 + 2^32*(a10 + 2^32*(a11 + 2^32*0)))))))))))) in *. set (B := b0 + 2^32*(b1 + 2^32*(b2 + 2^32*(b3 + 2^32*(b4 + 2^32*(b5 + 2^32*(b6 + 2^32*(b7 + 2^32*(b8 + 2^32*(b9 + 2^32*(b10 + 2^32*(b11 + 2^32*0)))))))))))) in *. set (L := v + 2^32*v0 + 2^64*v1 + 2^96*v2 + 2^128*v3 + 2^160*v4 + 2^192*v5 + 2^224*v6 + 2^256*v7 + 2^288*v8 + 2^320*v9 + 2^352*v10) in *. set (TL := v11 + 2^32*v12 + 2^64*v13 + 2^96*v14 + 2^128*v15 + 2^160*v16 + 2^192*v17 + 2^224*v18 + 2^256*v19 + 2^288*v20 + 2^320*v21 + 2^352*v22) in *.
    clearbody A B L TL.
    assert (Hq : 0 < Certs.p < 2^384) by (unfold Certs.p; lia).
    assert (KC : 0 <= k21 <= 1) by (split; assumption).
    clear - S T RL RT RA HA RB HB Hq KC. unfold Certs.p in *.
    split_bit k21.
    + exfalso. clear - S T RL RT RA HB Hq. lia.
    + apply mod_eq_m1. { clear - S T RL RT RA HB. lia. } clear - S T. lia.
Qed.

Lemma fp_opp_spec b : limbs_ok 12 b -> ev b < Certs.p ->
  limbs_ok 12 (fp_opp b) /\ ev (fp_opp b) = (- ev b) mod Certs.p.
Proof.
  intros Hb. destruct (limbs_ok_12 b Hb) as (b0&b1&b2&b3&b4&b5&b6&b7&b8&b9&b10&b11&->&?&?&?&?&?&?&?&?&?&?&?&?). clear Hb.
  intros HB. cbv beta iota delta [ev fold_right] in HB.
  match goal with |- limbs_ok 12 ?oo /\ ev ?oo = ?rr => pose (Q := fun o => limbs_ok 12 o /\ ev o = rr); change (Q oo) end.
  cbv beta iota delta [fp_opp nth]. eval_closed.
  do 12 step2 fp_sl. eval_closed. step1 fp_cl.
  repeat match goal with H : _ /\ _ |- _ => destruct H end.
  assert (S : v + 2^32*v0 + 2^64*v1 + 2^96*v2 + 2^128*v3 + 2^160*v4 + 2^192*v5 + 2^224*v6 + 2^256*v7 + 2^288*v8 + 2^320*v9 + 2^352*v10 - 2^384*k10 = - (b0 + 2^32*(b1 + 2^32*(b2 + 2^32*(b3 + 2^32*(b4 + 2^32*(b5 + 2^32*(b6 + 2^32*(b7 + 2^32*(b8 + 2^32*(b9 + 2^32*(b10 + 2^32*(b11 + 2^32*0))))))))))))) by (clear HB; lia).
  assert (KB : 0 <= k10 <= 1) by (split; assumption).
  split_bit k10; match goal with H : r = _ |- _ => cbn [Z.eqb] in H end; subst r; eval_closed.
  all: do 12 step2 fp_al.
  all: subst Q; cbv beta iota delta [ev fold_right limbs_ok length].
  all: repeat match goal with H : _ /\ _ |- _ => destruct H end.
  - assert (T : v11 + 2^32*v12 + 2^64*v13 + 2^96*v14 + 2^128*v15 + 2^160*v16 + 2^192*v17 + 2^224*v18 + 2^256*v19 + 2^288*v20 + 2^320*v21 + 2^352*v22 + 2^384*k21 = v + 2^32*v0 + 2^64*v1 + 2^96*v2 + 2^128*v3 + 2^160*v4 + 2^192*v5 + 2^224*v6 + 2^256*v7 + 2^288*v8 + 2^320*v9 + 2^352*v10 + 0) by (clear HB S; unfold Certs.p; lia).
    assert (RL : 0 <= v + 2^32*v0 + 2^64*v1 + 2^96*v2 + 2^128*v3 + 2^160*v4 + 2^192*v5 + 2^224*v6 + 2^256*v7 + 2^288*v8 + 2^320*v9 + 2^352*v10 < 2^384) by (clear HB S T; lia).
    assert (RT : 0 <= v11 + 2^32*v12 + 2^64*v13 + 2^96*v14 + 2^128*v15 + 2^160*v16 + 2^192*v17 + 2^224*v18 + 2^256*v19 + 2^288*v20 + 2^320*v21 + 2^352*v22 < 2^384) by (clear HB S T RL; lia).
    assert (RB : 0 <= b0 + 2^32*(b1 + 2^32*(b2 + 2^32*(b3 + 2^32*(b4 + 2^32*(b5 + 2^32*(b6 + 2^32*(b7 + 2^32*(b8 + 2^32*(b9 + 2^32*(b10 + 2^32*(b11 + 2^32*0)))))))))))) by (clear HB S T RL RT; lia).
    split. { split. reflexivity. repeat constructor; lia. }
    replace (v11 + 2^32*(v12 + 2^32*(v13 + 2^32*(v14 + 2^32*(v15 + 2^32*(v16 + 2^32*(v17 + 2^32*(v18 + 2^32*(v19 + 2^32*(v20 + 2^32*(v21 + 2^32*(v22 + 2^32*0)))))))))))) with (v11 + 2^32*v12 + 2^64*v13 + 2^96*v14 + 2^128*v15 + 2^160*v16 + 2^192*v17 + 2^224*v18 + 2^256*v19 + 2^288*v20 + 2^320*v21 + 2^352*v22) by ring.
    set (B := b0 + 2^32*(b1 + 2^32*(b2 + 2^32*(b3 + 2^32*(b4 + 2^32*(b5 + 2^32*(b6 + 2^32*(b7 + 2^32*(b8 + 2^32*(b9 + 2^32*(b10 + 2^32*(b11 + 2^32*0)))))))))))) in *. set (L := v + 2^32*v0 + 2^64*v1 + 2^96*v2 + 2^128*v3 + 2^160*v4 + 2^192*v5 + 2^224*v6 + 2^256*v7 + 2^288*v8 + 2^320*v9 + 2^352*v10) in *. set (TL := v11 + 2^32*v12 + 2^64*v13 + 2^96*v14 + 2^128*v15 + 2^160*v16 + 2^192*v17 + 2^224*v18 + 2^256*v19 + 2^288*v20 + 2^320*v21 + 2^352*v22) in *.
    clearbody B L TL.
    assert (Hq : 0 < Certs.p < 2^384) by (unfold Certs.p; lia).
    assert (KC : 0 <= k21 <= 1) by (split; assumption).
    clear - S T RL RT RB HB Hq KC. unfold Certs.p in *.
    split_bit k21.
    + apply mod_eq_0. { clear - S T RB RT Hq. lia. } clear - S T. lia.
    + exfalso. clear - S T RL RT. lia.
  - assert (T : v11 + 2^32*v12 + 2^64*v13 + 2^96*v14 + 2^128*v15 + 2^160*v16 + 2^192*v17 + 2^224*v18 + 2^256*v19 + 2^288*v20 + 2^320*v21 + 2^352*v22 + 2^384*k21 = v + 2^32*v0 + 2^64*v1 + 2^96*v2 + 2^128*v3 + 2^160*v4 + 2^192*v5 + 2^224*v6 + 2^256*v7 + 2^288*v8 + 2^320*v9 + 2^352*v10 + Certs.p) by (clear HB S; unfold Certs.p; lia).
    assert (RL : 0 <= v + 2^32*v0 + 2^64*v1 + 2^96*v2 + 2^128*v3 + 2^160*v4 + 2^192*v5 + 2^224*v6 + 2^256*v7 + 2^288*v8 + 2^320*v9 + 2^352*v10 < 2^384) by (clear HB S T; lia).
    assert (RT : 0 <= v11 + 2^32*v12 + 2^64*v13 + 2^96*v14 + 2^128*v15 + 2^160*v16 + 2^192*v17 + 2^224*v18 + 2^256*v19 + 2^288*v20 + 2^320*v21 + 2^352*v22 < 2^384) by (clear HB S T RL; lia).
    assert (RB : 0 <= b0 + 2^32*(b1 + 2^32*(b2 + 2^32*(b3 + 2^32*(b4 + 2^32*(b5 + 2^32*(b6 + 2^32*(b7 + 2^32*(b8 + 2^32*(b9 + 2^32*(b10 + 2^32*(b11 + 2^32*0)))))))))))) by (clear HB S T RL RT; lia).
    split. { split. reflexivity. repeat constructor; lia. }
    replace (v11 + 2^32*(v12 + 2^32*(v13 + 2^32*(v14 + 2^32*(v15 + 2^32*(v16 + 2^32*(v17 + 2^32*(v18 + 2^32*(v19 + 2^32*(v20 + 2^32*(v21 + 2^32*(v22 + 2^32*0)))))))))))) with (v11 + 2^32*v12 + 2^64*v13 + 2^96*v14 + 2^128*v15 + 2^160*v16 + 2^192*v17 + 2^224*v18 + 2^256*v19 + 2^288*v20 + 2^320*v21 + 2^352*v22) by ring.
    set (B := b0 + 2^32*(b1 + 2^32*(b2 + 2^32*(b3 + 2^32*(b4 + 2^32*(b5 + 2^32*(b6 + 2^32*(b7 + 2^32*(b8 + 2^32*(b9 + 2^32*(b10 + 2^32*(b11 + 2^32*0)))))))))))) in *. set (L := v + 2^32*v0 + 2^64*v1 + 2^96*v2 + 2^128*v3 + 2^160*v4 + 2^192*v5 + 2^224*v6 + 2^256*v7 + 2^288*v8 + 2^320*v9 + 2^352*v10) in *. set (TL := v11 + 2^32*v12 + 2^64*v13 + 2^96*v14 + 2^128*v15 + 2^160*v16 + 2^192*v17 + 2^224*v18 + 2^256*v19 + 2^288*v20 + 2^320*v21 + 2^352*v22) in *.
    clearbody B L TL.
    assert (Hq : 0 < Certs.p < 2^384) by (unfold Certs.p; lia).
    assert (KC : 0 <= k21 <= 1) by (split; assumption).
    clear - S T RL RT RB HB Hq KC. unfold Certs.p in *.
    split_bit k21.
    + exfalso. clear - S T RL RT HB Hq. lia.
    + apply mod_eq_m1. { clear - S T RL RT HB. lia. } clear - S T. lia.
Qed.
