(* The affine twisted Edwards group law of Spec/Edwards.v is complete and is a commutative group law
   on the curve  a x^2 + y^2 = 1 + d x^2 y^2  when a is a square and d is a non-square.
   Associativity is proved from an explicit polynomial certificate (tools/assoc_cert.py). *)
Require Import ZArith Bool Lia.
From D377 Require Import Base.FieldSec Model.Decaf Spec.Edwards.

Section EdwardsLaw.
  Context {AF : AField}.
  Add Field FfEL : Ffield.
  Local Notation "0" := zero. Local Notation "1" := one.
  Local Infix "+" := add. Local Infix "*" := mul. Local Infix "-" := sub. Local Infix "/" := div.
  Local Notation "- x" := (opp x).

  Variables (a d : F).
  Hypothesis a_sq : exists sa, sa * sa = a.
  Hypothesis d_ns : forall w, w * w <> d.
  Hypothesis two_nz : 1 + 1 <> 0.

  Local Notation on_curve := (on_curve a d).
  Local Notation ed_add := (ed_add a d).

  (* ------------------------------------------------------------------ *)
  (* generic field helpers *)

  Lemma one_nz : 1 <> 0.
  Proof. destruct Ffield as [_ H _ _]. exact H. Qed.

  Lemma div_mul x y : x / y = x * inv y.
  Proof. destruct Ffield as [_ _ H _]. apply H. Qed.

  Lemma mul_nz x y : x <> 0 -> y <> 0 -> x * y <> 0.
  Proof. intros Hx Hy E. apply F_id in E. tauto. Qed.

  Lemma mul_cancel_r x y c : c <> 0 -> x * c = y * c -> x = y.
  Proof.
    intros Hc H.
    assert (E : (x - y) * c = 0) by (transitivity (x * c - y * c); [ring | rewrite H; ring]).
    apply F_id in E. destruct E as [E | E]; [| tauto].
    transitivity ((x - y) + y); [ring | rewrite E; ring].
  Qed.

  Lemma frac_eq n1 d1 n2 d2 : d1 <> 0 -> d2 <> 0 -> n1 * d2 = n2 * d1 -> n1 / d1 = n2 / d2.
  Proof.
    intros H1 H2 H. apply (mul_cancel_r _ _ (d1 * d2)); [apply mul_nz; assumption |].
    transitivity (n1 * d2); [field; assumption |]. rewrite H. field; assumption.
  Qed.

  Lemma frac_eq_1 n1 d1 : d1 <> 0 -> n1 = d1 -> n1 / d1 = 1.
  Proof. intros H1 ->. field; assumption. Qed.

  Lemma zero_div x : 0 / x = 0.
  Proof. rewrite div_mul. ring. Qed.

  Lemma opp_div x y : (- x) / y = - (x / y).
  Proof. rewrite !div_mul. ring. Qed.

  Lemma div_one x : x / 1 = x.
  Proof. field. exact one_nz. Qed.

  Lemma div_mul_cancel x y : y <> 0 -> (x / y) * y = x.
  Proof. intro H. field; assumption. Qed.

  Lemma apt_eq (p q : apt) : aX p = aX q -> aY p = aY q -> p = q.
  Proof. destruct p, q; simpl; intros -> ->; reflexivity. Qed.

  (* d u^2 = v^2 forces u = 0 because d is not a square *)
  Lemma d_nonsquare u v : d * (u * u) = v * v -> u = 0.
  Proof.
    intro H. destruct (F_dec u 0) as [E | Hu]; [exact E | exfalso].
    apply (d_ns (v / u)).
    transitivity ((v * v) / (u * u)); [field; assumption |].
    rewrite <- H. field; assumption.
  Qed.

  (* ------------------------------------------------------------------ *)
  (* 1. completeness: the denominators of ed_add never vanish on the curve *)

  Lemma eps_sq_ne_1 x1 y1 x2 y2 :
    a * (x1 * x1) + y1 * y1 = 1 + d * (x1 * x1) * (y1 * y1) ->
    a * (x2 * x2) + y2 * y2 = 1 + d * (x2 * x2) * (y2 * y2) ->
    (d * x1 * y1 * x2 * y2) * (d * x1 * y1 * x2 * y2) <> 1.
  Proof.
    intros H1 H2 He. destruct a_sq as [sa Hsa].
    remember (d * x1 * y1 * x2 * y2) as eps eqn:Eeps.
    (* key identity: d (x1 y1)^2 (a x2^2 + y2^2) = a x1^2 + y1^2 *)
    assert (K : d * ((x1 * y1) * (x1 * y1)) * (a * (x2 * x2) + y2 * y2) = a * (x1 * x1) + y1 * y1).
    { rewrite H2, H1.
      transitivity (d * (x1 * x1) * (y1 * y1) + (d * x1 * y1 * x2 * y2) * (d * x1 * y1 * x2 * y2)); [ring |].
      rewrite <- Eeps, He. ring. }
    assert (Up : (x1 * y1) * (sa * x2 + y2) = 0).
    { apply (d_nonsquare _ (sa * x1 + eps * y1)).
      transitivity (d * ((x1 * y1) * (x1 * y1)) * (a * (x2 * x2) + y2 * y2)
                    + (1 + 1) * sa * x1 * y1 * (d * x1 * y1 * x2 * y2));
        [rewrite <- Hsa; ring |].
      rewrite K, <- Eeps.
      transitivity (sa * sa * (x1 * x1) + (eps * eps) * (y1 * y1) + (1 + 1) * sa * x1 * y1 * eps);
        [rewrite He, Hsa; ring | ring]. }
    assert (Um : (x1 * y1) * (sa * x2 - y2) = 0).
    { apply (d_nonsquare _ (sa * x1 - eps * y1)).
      transitivity (d * ((x1 * y1) * (x1 * y1)) * (a * (x2 * x2) + y2 * y2)
                    - (1 + 1) * sa * x1 * y1 * (d * x1 * y1 * x2 * y2));
        [rewrite <- Hsa; ring |].
      rewrite K, <- Eeps.
      transitivity (sa * sa * (x1 * x1) + (eps * eps) * (y1 * y1) - (1 + 1) * sa * x1 * y1 * eps);
        [rewrite He, Hsa; ring | ring]. }
    assert (E2 : (1 + 1) * eps = 0).
    { rewrite Eeps.
      transitivity (d * x2 * ((x1 * y1) * (sa * x2 + y2) - (x1 * y1) * (sa * x2 - y2))); [ring |].
      rewrite Up, Um. ring. }
    apply F_id in E2. destruct E2 as [E2 | E2]; [exact (two_nz E2) |].
    apply one_nz. rewrite <- He, E2. ring.
  Qed.

  Lemma denoms_nonzero_xy x1 y1 x2 y2 :
    a * (x1 * x1) + y1 * y1 = 1 + d * (x1 * x1) * (y1 * y1) ->
    a * (x2 * x2) + y2 * y2 = 1 + d * (x2 * x2) * (y2 * y2) ->
    1 + d * x1 * y1 * x2 * y2 <> 0 /\ 1 - d * x1 * y1 * x2 * y2 <> 0.
  Proof.
    intros H1 H2. pose proof (eps_sq_ne_1 x1 y1 x2 y2 H1 H2) as Hne.
    remember (d * x1 * y1 * x2 * y2) as eps eqn:Eeps.
    split; intro E; apply Hne.
    - transitivity (1 - (1 + eps) * (1 - eps)); [ring | rewrite E; ring].
    - transitivity (1 - (1 + eps) * (1 - eps)); [ring | rewrite E; ring].
  Qed.

  Theorem denoms_nonzero p q : on_curve p -> on_curve q ->
    1 + d * aX p * aY p * aX q * aY q <> 0 /\ 1 - d * aX p * aY p * aX q * aY q <> 0.
  Proof. unfold Edwards.on_curve. apply denoms_nonzero_xy. Qed.

  (* ------------------------------------------------------------------ *)
  (* 2. closure *)

  Definition ecurve (x y : F) : F := a * (x * x) + y * y - 1 - d * (x * x) * (y * y).

  Lemma on_curve_ecurve p : on_curve p -> ecurve (aX p) (aY p) = 0.
  Proof. unfold Edwards.on_curve, ecurve. intros ->. ring. Qed.

  Lemma ecurve_on_curve x y : ecurve x y = 0 -> on_curve (mkapt x y).
  Proof.
    unfold Edwards.on_curve, ecurve; cbn [aX aY]. intro H.
    transitivity ((a * (x * x) + y * y - 1 - d * (x * x) * (y * y)) + (1 + d * (x * x) * (y * y))); [ring |].
    rewrite H. ring.
  Qed.

  Lemma eq_by_diff x y z : x - y = z -> z = 0 -> x = y.
  Proof. intros H ->. transitivity ((x - y) + y); [ring | rewrite H; ring]. Qed.

  (* numerators and denominators of the addition law *)
  Definition X_ (x1 y1 x2 y2 : F) : F := x1 * y2 + y1 * x2.
  Definition Y_ (x1 y1 x2 y2 : F) : F := y1 * y2 - a * x1 * x2.
  Definition Dx_ (x1 y1 x2 y2 : F) : F := 1 + d * x1 * y1 * x2 * y2.
  Definition Dy_ (x1 y1 x2 y2 : F) : F := 1 - d * x1 * y1 * x2 * y2.

  Lemma ed_add_XY p q :
    ed_add p q = mkapt (X_ (aX p) (aY p) (aX q) (aY q) / Dx_ (aX p) (aY p) (aX q) (aY q))
                       (Y_ (aX p) (aY p) (aX q) (aY q) / Dy_ (aX p) (aY p) (aX q) (aY q)).
  Proof. reflexivity. Qed.

  (* certificate cofactors (generated with sympy: multivariate division by the three curve equations) *)
  Definition cc1 (x1 y1 x2 y2 : F) : F := - a*a*d*x1*x1*x2*x2*x2*x2*y2*y2 - (1+1)*a*a*x2*x2*x2*x2*y2*y2 + a*a*x2*x2*x2*x2 + a*d*d*x1*x1*x2*x2*x2*x2*y2*y2*y2*y2 - a*d*x1*x1*x2*x2*y2*y2*y2*y2 - a*d*y1*y1*x2*x2*x2*x2*y2*y2 + (1+1)*a*d*x2*x2*x2*x2*y2*y2*y2*y2 - (1+1)*a*x2*x2*y2*y2*y2*y2 + (1+1+1+1)*a*x2*x2*y2*y2 + d*d*d*x1*x1*y1*y1*x2*x2*x2*x2*y2*y2*y2*y2 + d*d*y1*y1*x2*x2*x2*x2*y2*y2*y2*y2 - d*d*x2*x2*x2*x2*y2*y2*y2*y2 - d*y1*y1*x2*x2*y2*y2*y2*y2 - (1+1)*d*x2*x2*y2*y2 + y2*y2*y2*y2.
  Definition cc2 (x1 y1 x2 y2 : F) : F := a*a*d*x1*x1*x1*x1*x2*x2*y2*y2 + (1+1)*a*a*x1*x1*x2*x2*y2*y2 - a*a*x1*x1*x2*x2 - (1+1)*a*d*x1*x1*x2*x2*y2*y2 - a*x1*x1*y2*y2 + (1+1)*a*y1*y1*x2*x2*y2*y2 - a*y1*y1*x2*x2 - (1+1)*a*x2*x2*y2*y2 + a*x2*x2 + d*y1*y1*y1*y1*x2*x2*y2*y2 - (1+1)*d*y1*y1*x2*x2*y2*y2 + d*x2*x2*y2*y2 - y1*y1*y2*y2 + y2*y2 + 1.
  Definition cx1 (x1 y1 x2 y2 x3 y3 : F) : F := - a*a*d*x1*x2*x2*x2*x2*y2*x3*x3*y3 - a*a*d*x1*x2*x2*x2*y2*y2*x3*x3*x3 + a*d*d*x1*x2*x2*x2*x2*y2*y2*y2*x3*x3*y3 + a*d*x1*x2*x2*x2*y2*y2*x3 - a*d*y1*x2*x2*x2*x2*y2*x3*y3*y3 + a*d*y1*x2*x2*y2*y2*y2*x3*x3*x3 - d*d*x1*x2*x2*x2*y2*y2*y2*y2*x3*y3*y3 + d*d*y1*x2*x2*x2*x2*y2*y2*y2*x3*y3*y3 + d*d*y1*x2*x2*x2*y2*y2*y2*y2*x3*x3*y3 + d*x1*x2*x2*y2*y2*y2*y3*y3*y3 - d*x1*x2*x2*y2*y2*y2*y3 + d*x1*x2*y2*y2*y2*y2*x3*y3*y3 + d*y1*x2*x2*x2*y2*y2*y3*y3*y3 - d*y1*x2*x2*x2*y2*y2*y3 - d*y1*x2*x2*y2*y2*y2*x3 - d*y1*x2*y2*y2*y2*y2*x3*x3*y3.
  Definition cx2 (x1 y1 x2 y2 x3 y3 : F) : F := - a*a*a*x1*x1*x1*x2*x3*x3*x3 + a*a*d*x1*x1*x1*x2*x2*y2*x3*x3*y3 + a*a*d*x1*x1*x1*x2*x3*x3*x3*y3*y3 - a*a*x1*x1*x1*x2*x3*y3*y3 + a*a*x1*x1*x1*x2*x3 + a*a*x1*x1*x1*y2*x3*x3*y3 + a*a*x1*x1*y1*x2*x3*x3*y3 + a*a*x1*x1*y1*y2*x3*x3*x3 - a*a*x1*y1*y1*x2*x3*x3*x3 + a*a*x1*x2*x3*x3*x3 - a*d*d*x1*x1*y1*x2*x2*y2*x3*x3*x3*y3*y3 - a*d*x1*x1*x1*x2*y2*y2*x3*y3*y3 - a*d*x1*x1*x1*y2*x3*x3*y3*y3*y3 + a*d*x1*x1*y1*x2*x2*y2*x3*y3*y3 + a*d*x1*x1*y1*x2*y2*y2*x3*x3*y3 - a*d*x1*x1*y1*x2*x3*x3*y3*y3*y3 - a*d*x1*x1*y1*y2*x3*x3*x3*y3*y3 + a*d*x1*y1*y1*x2*x2*y2*x3*x3*y3 - a*d*x1*x2*x2*y2*x3*x3*y3 + a*d*x1*y1*y1*x2*x3*x3*x3*y3*y3 - a*d*x1*x2*x3*x3*x3*y3*y3 + a*x1*x1*x1*y2*y3*y3*y3 - a*x1*x1*x1*y2*y3 + a*x1*x1*y1*x2*y3*y3*y3 - a*x1*x1*y1*x2*y3 + a*x1*x1*y1*y2*x3*y3*y3 - a*x1*x1*y1*y2*x3 - a*x1*y1*y1*x2*x3*y3*y3 + a*x1*y1*y1*x2*x3 + a*x1*x2*x3*y3*y3 - a*x1*x2*x3 + a*x1*y1*y1*y2*x3*x3*y3 - a*x1*y2*x3*x3*y3 + a*y1*y1*y1*x2*x3*x3*y3 - a*y1*x2*x3*x3*y3 + a*y1*y1*y1*y2*x3*x3*x3 - a*y1*y2*x3*x3*x3 - d*d*x1*x1*y1*x2*y2*y2*x3*x3*y3*y3*y3 - d*d*x1*y1*y1*x2*x2*y2*x3*x3*y3*y3*y3 + d*d*x1*y1*y1*x2*y2*y2*x3*x3*x3*y3*y3 - d*x1*y1*y1*x2*y2*y2*x3*y3*y3 + d*x1*x2*y2*y2*x3*y3*y3 - d*x1*y1*y1*y2*x3*x3*y3*y3*y3 + d*x1*y2*x3*x3*y3*y3*y3 + d*y1*y1*y1*x2*x2*y2*x3*y3*y3 - d*y1*x2*x2*y2*x3*y3*y3 + d*y1*y1*y1*x2*y2*y2*x3*x3*y3 - d*y1*y1*y1*x2*x3*x3*y3*y3*y3 - d*y1*x2*y2*y2*x3*x3*y3 + d*y1*x2*x3*x3*y3*y3*y3 - d*y1*y1*y1*y2*x3*x3*x3*y3*y3 + d*y1*y2*x3*x3*x3*y3*y3 + x1*y1*y1*y2*y3*y3*y3 - x1*y1*y1*y2*y3 - x1*y2*y3*y3*y3 + x1*y2*y3 + y1*y1*y1*x2*y3*y3*y3 - y1*y1*y1*x2*y3 - y1*x2*y3*y3*y3 + y1*x2*y3 + y1*y1*y1*y2*x3*y3*y3 - y1*y1*y1*y2*x3 - y1*y2*x3*y3*y3 + y1*y2*x3.
  Definition cx3 (x1 y1 x2 y2 x3 y3 : F) : F := a*a*a*x1*x1*x1*x2*x2*x2*x3 - a*a*x1*x1*x1*x2*x2*y2*y3 + a*a*x1*x1*x1*x2*y2*y2*x3 - a*a*x1*x1*x1*x2*x3 - a*a*x1*x1*y1*x2*x2*x2*y3 - a*a*x1*x1*y1*x2*x2*y2*x3 + a*a*x1*y1*y1*x2*x2*x2*x3 - a*a*x1*x2*x2*x2*x3 + a*d*x1*x1*y1*x2*x2*y2*x3 - a*x1*x1*x1*y2*y2*y2*y3 + a*x1*x1*x1*y2*y3 - a*x1*x1*y1*x2*y2*y2*y3 + a*x1*x1*y1*x2*y3 - a*x1*x1*y1*y2*y2*y2*x3 + a*x1*x1*y1*y2*x3 - a*x1*y1*y1*x2*x2*y2*y3 + a*x1*x2*x2*y2*y3 + a*x1*y1*y1*x2*y2*y2*x3 - a*x1*y1*y1*x2*x3 - a*x1*x2*y2*y2*x3 + a*x1*x2*x3 - a*y1*y1*y1*x2*x2*x2*y3 + a*y1*x2*x2*x2*y3 - a*y1*y1*y1*x2*x2*y2*x3 + a*y1*x2*x2*y2*x3 + d*x1*x1*y1*x2*y2*y2*y3 + d*x1*y1*y1*x2*x2*y2*y3 - d*x1*y1*y1*x2*y2*y2*x3 - x1*y1*y1*y2*y2*y2*y3 + x1*y1*y1*y2*y3 + x1*y2*y2*y2*y3 - x1*y2*y3 - y1*y1*y1*x2*y2*y2*y3 + y1*y1*y1*x2*y3 + y1*x2*y2*y2*y3 - y1*x2*y3 - y1*y1*y1*y2*y2*y2*x3 + y1*y1*y1*y2*x3 + y1*y2*y2*y2*x3 - y1*y2*x3.
  Definition cy1 (x1 y1 x2 y2 x3 y3 : F) : F := a*a*d*x1*x2*x2*x2*x2*y2*x3*y3*y3 - a*a*d*x1*x2*x2*y2*y2*y2*x3*x3*x3 - a*a*d*y1*x2*x2*x2*x2*y2*x3*x3*y3 - a*a*d*y1*x2*x2*x2*y2*y2*x3*x3*x3 - a*d*d*x1*x2*x2*x2*x2*y2*y2*y2*x3*y3*y3 - a*d*d*x1*x2*x2*x2*y2*y2*y2*y2*x3*x3*y3 + a*d*d*y1*x2*x2*x2*x2*y2*y2*y2*x3*x3*y3 - a*d*x1*x2*x2*x2*y2*y2*y3*y3*y3 + a*d*x1*x2*x2*x2*y2*y2*y3 + a*d*x1*x2*x2*y2*y2*y2*x3 + a*d*x1*x2*y2*y2*y2*y2*x3*x3*y3 + a*d*y1*x2*x2*x2*y2*y2*x3 - d*d*y1*x2*x2*x2*y2*y2*y2*y2*x3*y3*y3 + d*y1*x2*x2*y2*y2*y2*y3*y3*y3 - d*y1*x2*x2*y2*y2*y2*y3 + d*y1*x2*y2*y2*y2*y2*x3*y3*y3.
  Definition cy2 (x1 y1 x2 y2 x3 y3 : F) : F := - a*a*a*x1*x1*x1*x2*x3*x3*y3 - a*a*a*x1*x1*x1*y2*x3*x3*x3 - a*a*a*x1*x1*y1*x2*x3*x3*x3 - a*a*d*x1*x1*x1*x2*x2*y2*x3*y3*y3 - a*a*d*x1*x1*x1*x2*y2*y2*x3*x3*y3 + a*a*d*x1*x1*x1*x2*x3*x3*y3*y3*y3 + a*a*d*x1*x1*x1*y2*x3*x3*x3*y3*y3 + a*a*d*x1*x1*y1*x2*x2*y2*x3*x3*y3 + a*a*d*x1*x1*y1*x2*x3*x3*x3*y3*y3 - a*a*x1*x1*x1*x2*y3*y3*y3 + a*a*x1*x1*x1*x2*y3 - a*a*x1*x1*x1*y2*x3*y3*y3 + a*a*x1*x1*x1*y2*x3 - a*a*x1*x1*y1*x2*x3*y3*y3 + a*a*x1*x1*y1*x2*x3 + a*a*x1*x1*y1*y2*x3*x3*y3 - a*a*x1*y1*y1*x2*x3*x3*y3 + a*a*x1*x2*x3*x3*y3 - a*a*x1*y1*y1*y2*x3*x3*x3 + a*a*x1*y2*x3*x3*x3 - a*a*y1*y1*y1*x2*x3*x3*x3 + a*a*y1*x2*x3*x3*x3 - a*d*d*x1*x1*y1*x2*x2*y2*x3*x3*y3*y3*y3 + a*d*d*x1*x1*y1*x2*y2*y2*x3*x3*x3*y3*y3 + a*d*d*x1*y1*y1*x2*x2*y2*x3*x3*x3*y3*y3 - a*d*x1*x1*y1*x2*y2*y2*x3*y3*y3 - a*d*x1*x1*y1*y2*x3*x3*y3*y3*y3 - a*d*x1*y1*y1*x2*x2*y2*x3*y3*y3 + a*d*x1*x2*x2*y2*x3*y3*y3 - a*d*x1*y1*y1*x2*y2*y2*x3*x3*y3 + a*d*x1*y1*y1*x2*x3*x3*y3*y3*y3 + a*d*x1*x2*y2*y2*x3*x3*y3 - a*d*x1*x2*x3*x3*y3*y3*y3 + a*d*x1*y1*y1*y2*x3*x3*x3*y3*y3 - a*d*x1*y2*x3*x3*x3*y3*y3 + a*d*y1*y1*y1*x2*x2*y2*x3*x3*y3 - a*d*y1*x2*x2*y2*x3*x3*y3 + a*d*y1*y1*y1*x2*x3*x3*x3*y3*y3 - a*d*y1*x2*x3*x3*x3*y3*y3 + a*x1*x1*y1*y2*y3*y3*y3 - a*x1*x1*y1*y2*y3 - a*x1*y1*y1*x2*y3*y3*y3 + a*x1*y1*y1*x2*y3 + a*x1*x2*y3*y3*y3 - a*x1*x2*y3 - a*x1*y1*y1*y2*x3*y3*y3 + a*x1*y1*y1*y2*x3 + a*x1*y2*x3*y3*y3 - a*x1*y2*x3 - a*y1*y1*y1*x2*x3*y3*y3 + a*y1*y1*y1*x2*x3 + a*y1*x2*x3*y3*y3 - a*y1*x2*x3 + a*y1*y1*y1*y2*x3*x3*y3 - a*y1*y2*x3*x3*y3 + d*d*x1*y1*y1*x2*y2*y2*x3*x3*y3*y3*y3 - d*y1*y1*y1*x2*y2*y2*x3*y3*y3 + d*y1*x2*y2*y2*x3*y3*y3 - d*y1*y1*y1*y2*x3*x3*y3*y3*y3 + d*y1*y2*x3*x3*y3*y3*y3 + y1*y1*y1*y2*y3*y3*y3 - y1*y1*y1*y2*y3 - y1*y2*y3*y3*y3 + y1*y2*y3.
  Definition cy3 (x1 y1 x2 y2 x3 y3 : F) : F := a*a*a*x1*x1*x1*x2*x2*x2*y3 + a*a*a*x1*x1*x1*x2*x2*y2*x3 + a*a*a*x1*x1*y1*x2*x2*x2*x3 + a*a*x1*x1*x1*x2*y2*y2*y3 - a*a*x1*x1*x1*x2*y3 + a*a*x1*x1*x1*y2*y2*y2*x3 - a*a*x1*x1*x1*y2*x3 - a*a*x1*x1*y1*x2*x2*y2*y3 + a*a*x1*x1*y1*x2*y2*y2*x3 - a*a*x1*x1*y1*x2*x3 + a*a*x1*y1*y1*x2*x2*x2*y3 - a*a*x1*x2*x2*x2*y3 + a*a*x1*y1*y1*x2*x2*y2*x3 - a*a*x1*x2*x2*y2*x3 + a*a*y1*y1*y1*x2*x2*x2*x3 - a*a*y1*x2*x2*x2*x3 + a*d*x1*x1*y1*x2*x2*y2*y3 - a*d*x1*x1*y1*x2*y2*y2*x3 - a*d*x1*y1*y1*x2*x2*y2*x3 - a*x1*x1*y1*y2*y2*y2*y3 + a*x1*x1*y1*y2*y3 + a*x1*y1*y1*x2*y2*y2*y3 - a*x1*y1*y1*x2*y3 - a*x1*x2*y2*y2*y3 + a*x1*x2*y3 + a*x1*y1*y1*y2*y2*y2*x3 - a*x1*y1*y1*y2*x3 - a*x1*y2*y2*y2*x3 + a*x1*y2*x3 - a*y1*y1*y1*x2*x2*y2*y3 + a*y1*x2*x2*y2*y3 + a*y1*y1*y1*x2*y2*y2*x3 - a*y1*y1*y1*x2*x3 - a*y1*x2*y2*y2*x3 + a*y1*x2*x3 - d*x1*y1*y1*x2*y2*y2*y3 - y1*y1*y1*y2*y2*y2*y3 + y1*y1*y1*y2*y3 + y1*y2*y2*y2*y3 - y1*y2*y3.

  Lemma closure_cert x1 y1 x2 y2 :
    (a * (X_ x1 y1 x2 y2 * X_ x1 y1 x2 y2) * (Dy_ x1 y1 x2 y2 * Dy_ x1 y1 x2 y2)
     + (Y_ x1 y1 x2 y2 * Y_ x1 y1 x2 y2) * (Dx_ x1 y1 x2 y2 * Dx_ x1 y1 x2 y2))
    - ((Dx_ x1 y1 x2 y2 * Dx_ x1 y1 x2 y2) * (Dy_ x1 y1 x2 y2 * Dy_ x1 y1 x2 y2)
       + d * (X_ x1 y1 x2 y2 * X_ x1 y1 x2 y2) * (Y_ x1 y1 x2 y2 * Y_ x1 y1 x2 y2))
    = cc1 x1 y1 x2 y2 * ecurve x1 y1 + cc2 x1 y1 x2 y2 * ecurve x2 y2.
  Proof. unfold cc1, cc2, ecurve, X_, Y_, Dx_, Dy_. ring. Qed.

  Lemma on_curve_frac X Dx Y Dy : Dx <> 0 -> Dy <> 0 ->
    a * (X * X) * (Dy * Dy) + (Y * Y) * (Dx * Dx) = (Dx * Dx) * (Dy * Dy) + d * (X * X) * (Y * Y) ->
    a * ((X / Dx) * (X / Dx)) + (Y / Dy) * (Y / Dy) = 1 + d * ((X / Dx) * (X / Dx)) * ((Y / Dy) * (Y / Dy)).
  Proof.
    intros Hx Hy H.
    apply (mul_cancel_r _ _ ((Dx * Dx) * (Dy * Dy))); [repeat apply mul_nz; assumption |].
    transitivity (a * (X * X) * (Dy * Dy) + (Y * Y) * (Dx * Dx)); [field; split; assumption |].
    rewrite H. field; split; assumption.
  Qed.

  Theorem ed_add_on_curve p q : on_curve p -> on_curve q -> on_curve (ed_add p q).
  Proof.
    intros Hp Hq. destruct (denoms_nonzero p q Hp Hq) as [Dx Dy].
    apply on_curve_ecurve in Hp. apply on_curve_ecurve in Hq.
    destruct p as [x1 y1], q as [x2 y2]. cbn [aX aY] in *.
    unfold Edwards.on_curve, Edwards.ed_add; cbn [aX aY].
    apply on_curve_frac; [exact Dx | exact Dy |].
    apply (eq_by_diff _ _ _ (closure_cert x1 y1 x2 y2)).
    rewrite Hp, Hq. ring.
  Qed.

  Lemma ed_neg_on_curve p : on_curve p -> on_curve (ed_neg p).
  Proof.
    unfold Edwards.on_curve, ed_neg; cbn [aX aY]. intro H.
    replace (- aX p * - aX p) with (aX p * aX p) by ring. exact H.
  Qed.

  Lemma ed_zero_on_curve : on_curve ed_zero.
  Proof. unfold Edwards.on_curve, ed_zero; cbn [aX aY]. ring. Qed.

  (* ------------------------------------------------------------------ *)
  (* 3. commutativity, neutral element, inverses *)

  Lemma ed_add_comm p q : ed_add p q = ed_add q p.
  Proof. unfold Edwards.ed_add. apply apt_eq; cbn [aX aY]; f_equal; ring. Qed.

  Lemma ed_add_zero_r p : ed_add p ed_zero = p.
  Proof.
    unfold Edwards.ed_add, ed_zero. apply apt_eq; cbn [aX aY].
    - transitivity (aX p / 1); [f_equal; ring | apply div_one].
    - transitivity (aY p / 1); [f_equal; ring | apply div_one].
  Qed.

  Lemma ed_add_zero_l p : ed_add ed_zero p = p.
  Proof. rewrite ed_add_comm. apply ed_add_zero_r. Qed.

  Lemma ed_add_neg_r p : on_curve p -> ed_add p (ed_neg p) = ed_zero.
  Proof.
    intro Hp. destruct (denoms_nonzero p (ed_neg p) Hp (ed_neg_on_curve p Hp)) as [_ Dy].
    unfold Edwards.on_curve in Hp.
    unfold Edwards.ed_add, ed_neg, ed_zero in *. cbn [aX aY] in *. apply apt_eq; cbn [aX aY].
    - transitivity (0 / (1 + d * aX p * aY p * - aX p * aY p)); [f_equal; ring | apply zero_div].
    - apply frac_eq_1; [exact Dy |].
      transitivity (a * (aX p * aX p) + aY p * aY p); [ring | rewrite Hp; ring].
  Qed.

  Lemma ed_add_neg_l p : on_curve p -> ed_add (ed_neg p) p = ed_zero.
  Proof. intro Hp. rewrite ed_add_comm. apply ed_add_neg_r. exact Hp. Qed.

  (* these two hold for arbitrary pairs of field elements, on the curve or not *)
  Lemma ed_neg_add p q : ed_neg (ed_add p q) = ed_add (ed_neg p) (ed_neg q).
  Proof.
    unfold Edwards.ed_add, ed_neg. apply apt_eq; cbn [aX aY].
    - rewrite <- opp_div. f_equal; ring.
    - f_equal; ring.
  Qed.

  Lemma ed_neg_involutive p : ed_neg (ed_neg p) = p.
  Proof. unfold ed_neg. apply apt_eq; cbn [aX aY]; ring. Qed.

  Lemma ed_neg_zero : ed_neg ed_zero = ed_zero.
  Proof. unfold ed_neg, ed_zero. apply apt_eq; cbn [aX aY]; ring. Qed.

  (* ------------------------------------------------------------------ *)
  (* 4. associativity from the polynomial certificate *)

  Lemma assoc_x_cert x1 y1 x2 y2 x3 y3 :
    (X_ x1 y1 x2 y2 * Dy_ x1 y1 x2 y2 * y3 + Y_ x1 y1 x2 y2 * Dx_ x1 y1 x2 y2 * x3)
    * (Dx_ x2 y2 x3 y3 * Dy_ x2 y2 x3 y3 + d * x1 * y1 * X_ x2 y2 x3 y3 * Y_ x2 y2 x3 y3)
    - (x1 * Y_ x2 y2 x3 y3 * Dx_ x2 y2 x3 y3 + y1 * X_ x2 y2 x3 y3 * Dy_ x2 y2 x3 y3)
      * (Dx_ x1 y1 x2 y2 * Dy_ x1 y1 x2 y2 + d * X_ x1 y1 x2 y2 * Y_ x1 y1 x2 y2 * x3 * y3)
    = cx1 x1 y1 x2 y2 x3 y3 * ecurve x1 y1 + cx2 x1 y1 x2 y2 x3 y3 * ecurve x2 y2
      + cx3 x1 y1 x2 y2 x3 y3 * ecurve x3 y3.
  Proof. unfold cx1, cx2, cx3, ecurve, X_, Y_, Dx_, Dy_. ring. Qed.

  Lemma assoc_y_cert x1 y1 x2 y2 x3 y3 :
    (Y_ x1 y1 x2 y2 * Dx_ x1 y1 x2 y2 * y3 - a * X_ x1 y1 x2 y2 * Dy_ x1 y1 x2 y2 * x3)
    * (Dx_ x2 y2 x3 y3 * Dy_ x2 y2 x3 y3 - d * x1 * y1 * X_ x2 y2 x3 y3 * Y_ x2 y2 x3 y3)
    - (y1 * Y_ x2 y2 x3 y3 * Dx_ x2 y2 x3 y3 - a * x1 * X_ x2 y2 x3 y3 * Dy_ x2 y2 x3 y3)
      * (Dx_ x1 y1 x2 y2 * Dy_ x1 y1 x2 y2 - d * X_ x1 y1 x2 y2 * Y_ x1 y1 x2 y2 * x3 * y3)
    = cy1 x1 y1 x2 y2 x3 y3 * ecurve x1 y1 + cy2 x1 y1 x2 y2 x3 y3 * ecurve x2 y2
      + cy3 x1 y1 x2 y2 x3 y3 * ecurve x3 y3.
  Proof. unfold cy1, cy2, cy3, ecurve, X_, Y_, Dx_, Dy_. ring. Qed.

  Lemma assoc_coord x1 y1 x2 y2 x3 y3 :
    ecurve x1 y1 = 0 -> ecurve x2 y2 = 0 -> ecurve x3 y3 = 0 ->
    Dx_ x1 y1 x2 y2 <> 0 -> Dy_ x1 y1 x2 y2 <> 0 ->
    Dx_ x2 y2 x3 y3 <> 0 -> Dy_ x2 y2 x3 y3 <> 0 ->
    Dx_ (X_ x1 y1 x2 y2 / Dx_ x1 y1 x2 y2) (Y_ x1 y1 x2 y2 / Dy_ x1 y1 x2 y2) x3 y3 <> 0 ->
    Dy_ (X_ x1 y1 x2 y2 / Dx_ x1 y1 x2 y2) (Y_ x1 y1 x2 y2 / Dy_ x1 y1 x2 y2) x3 y3 <> 0 ->
    Dx_ x1 y1 (X_ x2 y2 x3 y3 / Dx_ x2 y2 x3 y3) (Y_ x2 y2 x3 y3 / Dy_ x2 y2 x3 y3) <> 0 ->
    Dy_ x1 y1 (X_ x2 y2 x3 y3 / Dx_ x2 y2 x3 y3) (Y_ x2 y2 x3 y3 / Dy_ x2 y2 x3 y3) <> 0 ->
    X_ (X_ x1 y1 x2 y2 / Dx_ x1 y1 x2 y2) (Y_ x1 y1 x2 y2 / Dy_ x1 y1 x2 y2) x3 y3
    / Dx_ (X_ x1 y1 x2 y2 / Dx_ x1 y1 x2 y2) (Y_ x1 y1 x2 y2 / Dy_ x1 y1 x2 y2) x3 y3
    = X_ x1 y1 (X_ x2 y2 x3 y3 / Dx_ x2 y2 x3 y3) (Y_ x2 y2 x3 y3 / Dy_ x2 y2 x3 y3)
      / Dx_ x1 y1 (X_ x2 y2 x3 y3 / Dx_ x2 y2 x3 y3) (Y_ x2 y2 x3 y3 / Dy_ x2 y2 x3 y3)
    /\
    Y_ (X_ x1 y1 x2 y2 / Dx_ x1 y1 x2 y2) (Y_ x1 y1 x2 y2 / Dy_ x1 y1 x2 y2) x3 y3
    / Dy_ (X_ x1 y1 x2 y2 / Dx_ x1 y1 x2 y2) (Y_ x1 y1 x2 y2 / Dy_ x1 y1 x2 y2) x3 y3
    = Y_ x1 y1 (X_ x2 y2 x3 y3 / Dx_ x2 y2 x3 y3) (Y_ x2 y2 x3 y3 / Dy_ x2 y2 x3 y3)
      / Dy_ x1 y1 (X_ x2 y2 x3 y3 / Dx_ x2 y2 x3 y3) (Y_ x2 y2 x3 y3 / Dy_ x2 y2 x3 y3).
  Proof.
    intros E1 E2 E3 Hdx12 Hdy12 Hdx23 Hdy23.
    pose proof (assoc_x_cert x1 y1 x2 y2 x3 y3) as CX.
    pose proof (assoc_y_cert x1 y1 x2 y2 x3 y3) as CY.
    rewrite E1, E2, E3 in CX, CY.
    remember (X_ x1 y1 x2 y2) as X12 eqn:EX12. remember (Y_ x1 y1 x2 y2) as Y12 eqn:EY12.
    remember (Dx_ x1 y1 x2 y2) as dx12 eqn:Edx12. remember (Dy_ x1 y1 x2 y2) as dy12 eqn:Edy12.
    remember (X_ x2 y2 x3 y3) as X23 eqn:EX23. remember (Y_ x2 y2 x3 y3) as Y23 eqn:EY23.
    remember (Dx_ x2 y2 x3 y3) as dx23 eqn:Edx23. remember (Dy_ x2 y2 x3 y3) as dy23 eqn:Edy23.
    clear EX12 EY12 Edx12 Edy12 EX23 EY23 Edx23 Edy23 E1 E2 E3.
    unfold X_, Y_, Dx_, Dy_.
    intros HDxL HDyL HDxR HDyR.
    assert (Hnz : (dx12 * dy12) * (dx23 * dy23) <> 0) by (repeat apply mul_nz; assumption).
    split.
    - apply frac_eq; [exact HDxL | exact HDxR |].
      apply (mul_cancel_r _ _ _ Hnz).
      transitivity ((X12 * dy12 * y3 + Y12 * dx12 * x3) * (dx23 * dy23 + d * x1 * y1 * X23 * Y23));
        [field; repeat split; assumption |].
      transitivity ((x1 * Y23 * dx23 + y1 * X23 * dy23) * (dx12 * dy12 + d * X12 * Y12 * x3 * y3));
        [| field; repeat split; assumption].
      apply (eq_by_diff _ _ _ CX). ring.
    - apply frac_eq; [exact HDyL | exact HDyR |].
      apply (mul_cancel_r _ _ _ Hnz).
      transitivity ((Y12 * dx12 * y3 - a * X12 * dy12 * x3) * (dx23 * dy23 - d * x1 * y1 * X23 * Y23));
        [field; repeat split; assumption |].
      transitivity ((y1 * Y23 * dx23 - a * x1 * X23 * dy23) * (dx12 * dy12 - d * X12 * Y12 * x3 * y3));
        [| field; repeat split; assumption].
      apply (eq_by_diff _ _ _ CY). ring.
  Qed.

  Theorem ed_add_assoc p q r : on_curve p -> on_curve q -> on_curve r ->
    ed_add (ed_add p q) r = ed_add p (ed_add q r).
  Proof.
    intros Hp Hq Hr.
    destruct (denoms_nonzero p q Hp Hq) as [Hdx12 Hdy12].
    destruct (denoms_nonzero q r Hq Hr) as [Hdx23 Hdy23].
    destruct (denoms_nonzero (ed_add p q) r (ed_add_on_curve p q Hp Hq) Hr) as [HDxL HDyL].
    destruct (denoms_nonzero p (ed_add q r) Hp (ed_add_on_curve q r Hq Hr)) as [HDxR HDyR].
    apply on_curve_ecurve in Hp. apply on_curve_ecurve in Hq. apply on_curve_ecurve in Hr.
    destruct p as [x1 y1], q as [x2 y2], r as [x3 y3].
    destruct (assoc_coord x1 y1 x2 y2 x3 y3 Hp Hq Hr Hdx12 Hdy12 Hdx23 Hdy23 HDxL HDyL HDxR HDyR)
      as [EX EY].
    apply apt_eq; [exact EX | exact EY].
  Qed.

  (* ------------------------------------------------------------------ *)
  (* 5. natural-number multiples *)

  Local Notation ed_nsmul := (ed_nsmul a d).

  Lemma ed_nsmul_on_curve n p : on_curve p -> on_curve (ed_nsmul n p).
  Proof.
    intro Hp. induction n as [| n IH]; cbn [Edwards.ed_nsmul].
    - apply ed_zero_on_curve.
    - apply ed_add_on_curve; assumption.
  Qed.

  Lemma ed_nsmul_1 p : ed_nsmul 1 p = p.
  Proof. cbn [Edwards.ed_nsmul]. apply ed_add_zero_r. Qed.

  Lemma ed_nsmul_zero n : ed_nsmul n ed_zero = ed_zero.
  Proof.
    induction n as [| n IH]; cbn [Edwards.ed_nsmul]; [reflexivity |].
    rewrite IH. apply ed_add_zero_l.
  Qed.

  Lemma ed_nsmul_add n m p : on_curve p ->
    ed_nsmul (Nat.add n m) p = ed_add (ed_nsmul n p) (ed_nsmul m p).
  Proof.
    intro Hp. induction n as [| n IH].
    - cbn [Nat.add Edwards.ed_nsmul]. symmetry. apply ed_add_zero_l.
    - cbn [Nat.add Edwards.ed_nsmul]. rewrite IH. symmetry.
      apply ed_add_assoc; [exact Hp | apply ed_nsmul_on_curve; exact Hp ..].
  Qed.

  Lemma ed_nsmul_mul n m p : on_curve p ->
    ed_nsmul (Nat.mul n m) p = ed_nsmul n (ed_nsmul m p).
  Proof.
    intro Hp. induction n as [| n IH].
    - reflexivity.
    - cbn [Nat.mul Edwards.ed_nsmul]. rewrite ed_nsmul_add by exact Hp. rewrite IH. reflexivity.
  Qed.

  Lemma ed_nsmul_neg n p : ed_nsmul n (ed_neg p) = ed_neg (ed_nsmul n p).
  Proof.
    induction n as [| n IH]; cbn [Edwards.ed_nsmul].
    - symmetry. apply ed_neg_zero.
    - rewrite IH. symmetry. apply ed_neg_add.
  Qed.

  Lemma ed_add_swap4 p q r s : on_curve p -> on_curve q -> on_curve r -> on_curve s ->
    ed_add (ed_add p q) (ed_add r s) = ed_add (ed_add p r) (ed_add q s).
  Proof.
    intros Hp Hq Hr Hs.
    rewrite (ed_add_assoc p q (ed_add r s)) by (try assumption; apply ed_add_on_curve; assumption).
    rewrite <- (ed_add_assoc q r s) by assumption.
    rewrite (ed_add_comm q r).
    rewrite (ed_add_assoc r q s) by assumption.
    rewrite <- (ed_add_assoc p r (ed_add q s)) by (try assumption; apply ed_add_on_curve; assumption).
    reflexivity.
  Qed.

  Lemma ed_nsmul_add_distr n p q : on_curve p -> on_curve q ->
    ed_nsmul n (ed_add p q) = ed_add (ed_nsmul n p) (ed_nsmul n q).
  Proof.
    intros Hp Hq. induction n as [| n IH]; cbn [Edwards.ed_nsmul].
    - symmetry. apply ed_add_zero_l.
    - rewrite IH. apply ed_add_swap4; try assumption; apply ed_nsmul_on_curve; assumption.
  Qed.

  (* ------------------------------------------------------------------ *)
  (* 6. the 2-torsion point (0,-1) and the coset relation *)

  Definition ed_T2 : apt := mkapt 0 (- (1)).
  Definition ed_t2 (p : apt) : apt := mkapt (- aX p) (- aY p).

  Lemma ed_T2_on_curve : on_curve ed_T2.
  Proof. unfold Edwards.on_curve, ed_T2; cbn [aX aY]. ring. Qed.

  Lemma ed_add_T2 p : ed_add p ed_T2 = mkapt (- aX p) (- aY p).
  Proof.
    unfold Edwards.ed_add, ed_T2. apply apt_eq; cbn [aX aY].
    - transitivity ((- aX p) / 1); [f_equal; ring | apply div_one].
    - transitivity ((- aY p) / 1); [f_equal; ring | apply div_one].
  Qed.

  Lemma ed_add_T2_l p : ed_add ed_T2 p = mkapt (- aX p) (- aY p).
  Proof. rewrite ed_add_comm. apply ed_add_T2. Qed.

  Lemma ed_T2_double : ed_add ed_T2 ed_T2 = ed_zero.
  Proof. rewrite ed_add_T2. unfold ed_T2, ed_zero. apply apt_eq; cbn [aX aY]; ring. Qed.

  Lemma ed_neg_T2 : ed_neg ed_T2 = ed_T2.
  Proof. unfold ed_neg, ed_T2. apply apt_eq; cbn [aX aY]; ring. Qed.

  Lemma ed_t2_on_curve p : on_curve p -> on_curve (ed_t2 p).
  Proof.
    unfold Edwards.on_curve, ed_t2; cbn [aX aY]. intro H.
    replace (- aX p * - aX p) with (aX p * aX p) by ring.
    replace (- aY p * - aY p) with (aY p * aY p) by ring. exact H.
  Qed.

  Lemma coset_eq_iff p q : coset_eq p q <-> p = q \/ p = ed_add q ed_T2.
  Proof.
    rewrite ed_add_T2. unfold coset_eq. split.
    - intros [[Hx Hy] | [Hx Hy]]; [left | right]; apply apt_eq; assumption.
    - intros [-> | ->]; [left | right]; split; reflexivity.
  Qed.

  Lemma coset_eq_refl p : coset_eq p p.
  Proof. left. split; reflexivity. Qed.

  Lemma coset_eq_sym p q : coset_eq p q -> coset_eq q p.
  Proof.
    unfold coset_eq. intros [[Hx Hy] | [Hx Hy]]; [left | right]; rewrite Hx, Hy; split; ring.
  Qed.

  Lemma coset_eq_trans p q r : coset_eq p q -> coset_eq q r -> coset_eq p r.
  Proof.
    unfold coset_eq.
    intros [[Hx Hy] | [Hx Hy]] [[Hx' Hy'] | [Hx' Hy']]; rewrite Hx, Hy, Hx', Hy';
      [left | right | right | left]; split; ring.
  Qed.

  Global Instance coset_eq_Equivalence : RelationClasses.Equivalence (@coset_eq AF).
  Proof.
    constructor.
    - exact coset_eq_refl.
    - exact coset_eq_sym.
    - exact coset_eq_trans.
  Qed.

  Lemma coset_eq_on_curve p q : coset_eq p q -> on_curve q -> on_curve p.
  Proof.
    unfold coset_eq, Edwards.on_curve. intros [[Hx Hy] | [Hx Hy]] H; rewrite Hx, Hy; [exact H |].
    replace (- aX q * - aX q) with (aX q * aX q) by ring.
    replace (- aY q * - aY q) with (aY q * aY q) by ring. exact H.
  Qed.

  (* compatibility holds without any side condition: x / y is x * inv y *)
  Lemma coset_eq_add p p' q q' : coset_eq p p' -> coset_eq q q' ->
    coset_eq (ed_add p q) (ed_add p' q').
  Proof.
    unfold coset_eq, Edwards.ed_add; cbn [aX aY].
    intros [[Hx Hy] | [Hx Hy]] [[Hx' Hy'] | [Hx' Hy']]; rewrite Hx, Hy, Hx', Hy';
      [left | right | right | left]; split; rewrite <- ?opp_div; f_equal; ring.
  Qed.

  Lemma coset_eq_neg p p' : coset_eq p p' -> coset_eq (ed_neg p) (ed_neg p').
  Proof.
    unfold coset_eq, ed_neg; cbn [aX aY].
    intros [[Hx Hy] | [Hx Hy]]; rewrite Hx, Hy; [left | right]; split; ring.
  Qed.

  Lemma coset_eq_nsmul n p p' : coset_eq p p' -> coset_eq (ed_nsmul n p) (ed_nsmul n p').
  Proof.
    intro H. induction n as [| n IH]; cbn [Edwards.ed_nsmul].
    - apply coset_eq_refl.
    - apply coset_eq_add; assumption.
  Qed.

  Print Assumptions ed_add_assoc.
End EdwardsLaw.

Print Assumptions ed_add_assoc.
