(* C13 / C14 : the R1CS gadgets of decaf377 (Model.Gadgets) against the native functions (Model.Decaf).
     C13  honest synthesis is satisfied and computes what the native code computes (completeness),
     C14  for EVERY prover hint that satisfies the constraints the outputs are the native ones (soundness),
          with the exact shape of the one hole: isqrt accepts (was_square = true, y = +-1) for input 0.
   Abstract field, a = -1; the Legendre-symbol facts are section hypotheses.  No axioms. *)
Require Import ZArith List Bool Lia.
From D377 Require Import Base.FieldSec Model.Decaf Model.Gadgets Spec.Edwards Spec.DecafSpec
                         Proofs.Codec Proofs.Elligator.

(* ====================================================================== *)
(* 6.  the lazily evaluated variable (no field needed)                      *)
Section Lazy.
  Definition lazy_event_dec (x y : lazy_event) : {x = y} + {x <> y}.
  Proof. decide equality. Defined.

  Local Notation stepf :=
    (fun (acc : lazy_state * list lazy_event) o =>
       let '(s, evs) := acc in let '(s', e) := lazy_step s o in (s', evs ++ e)).

  Lemma lazy_fold_acc ops : forall st acc,
    fold_left stepf ops (st, acc) =
    (fst (fold_left stepf ops (st, nil)), acc ++ snd (fold_left stepf ops (st, nil))).
  Proof.
    induction ops as [|o ops IH]; intros st acc; simpl.
    - rewrite app_nil_r. reflexivity.
    - destruct (lazy_step st o) as [s' e]. rewrite (IH s' (acc ++ e)), (IH s' e).
      simpl. rewrite app_assoc. reflexivity.
  Qed.

  Lemma lazy_run_nil st : lazy_run st nil = (st, nil).
  Proof. reflexivity. Qed.

  Lemma lazy_run_cons st o ops :
    lazy_run st (o :: ops) =
    (fst (lazy_run (fst (lazy_step st o)) ops),
     snd (lazy_step st o) ++ snd (lazy_run (fst (lazy_step st o)) ops)).
  Proof.
    unfold lazy_run. simpl. destruct (lazy_step st o) as [s' e]. simpl.
    apply lazy_fold_acc.
  Qed.

  (* running ops ++ ops' = running ops, then ops' from the state reached; the events are appended,
     i.e. what has been emitted is never changed by later operations *)
  Theorem lazy_run_app st ops ops' :
    lazy_run st (ops ++ ops') =
    (fst (lazy_run (fst (lazy_run st ops)) ops'),
     snd (lazy_run st ops) ++ snd (lazy_run (fst (lazy_run st ops)) ops')).
  Proof.
    revert st. induction ops as [|o ops IH]; intro st.
    - change (nil ++ ops') with ops'. change (lazy_run st nil) with (st, @nil lazy_event).
      cbn [fst snd app]. destruct (lazy_run st ops'); reflexivity.
    - simpl app. rewrite !lazy_run_cons, IH. simpl. rewrite app_assoc. reflexivity.
  Qed.

  Lemma lazy_from_both ops : lazy_run LBoth ops = (LBoth, nil).
  Proof.
    induction ops as [|o ops IH]; [reflexivity|].
    rewrite lazy_run_cons. destruct o; simpl; rewrite IH; reflexivity.
  Qed.

  Lemma lazy_from_enc ops :
    lazy_run LEnc ops = (LEnc, nil) \/ lazy_run LEnc ops = (LBoth, EvDecode :: nil).
  Proof.
    induction ops as [|o ops IH]; [left; reflexivity|].
    rewrite lazy_run_cons. destruct o; simpl.
    - right. rewrite lazy_from_both. reflexivity.
    - destruct IH as [-> | ->]; [left|right]; reflexivity.
  Qed.

  Lemma lazy_from_elt ops :
    lazy_run LElt ops = (LElt, nil) \/ lazy_run LElt ops = (LBoth, EvEncode :: nil).
  Proof.
    induction ops as [|o ops IH]; [left; reflexivity|].
    rewrite lazy_run_cons. destruct o; simpl.
    - destruct IH as [-> | ->]; [left|right]; reflexivity.
    - right. rewrite lazy_from_both. reflexivity.
  Qed.

  (* each of the two constraint blocks is emitted at most once, whatever is done in whatever order *)
  Theorem lazy_events_once st ops :
    count_occ lazy_event_dec (snd (lazy_run st ops)) EvDecode <= 1 /\
    count_occ lazy_event_dec (snd (lazy_run st ops)) EvEncode <= 1.
  Proof.
    destruct st.
    - destruct (lazy_from_enc ops) as [-> | ->]; simpl; lia.
    - destruct (lazy_from_elt ops) as [-> | ->]; simpl; lia.
    - rewrite lazy_from_both. simpl. lia.
  Qed.

  (* a variable created from an encoding never emits the encoding constraints, and conversely *)
  Theorem lazy_from_enc_no_encode ops : ~ In EvEncode (snd (lazy_run LEnc ops)).
  Proof.
    destruct (lazy_from_enc ops) as [-> | ->]; simpl; intuition discriminate.
  Qed.

  Theorem lazy_from_elt_no_decode ops : ~ In EvDecode (snd (lazy_run LElt ops)).
  Proof.
    destruct (lazy_from_elt ops) as [-> | ->]; simpl; intuition discriminate.
  Qed.

  (* idempotence: forcing the same thing a second time changes nothing and emits nothing ... *)
  Theorem lazy_force_idem st o :
    lazy_step (fst (lazy_step st o)) o = (fst (lazy_step st o), nil).
  Proof. destruct st, o; reflexivity. Qed.

  Theorem lazy_run_idem st ops o :
    lazy_run st (ops ++ o :: o :: nil) = lazy_run st (ops ++ o :: nil).
  Proof.
    rewrite !lazy_run_app. rewrite !lazy_run_cons, !lazy_run_nil. simpl.
    rewrite lazy_force_idem. simpl. reflexivity.
  Qed.

  (* ... also when other operations happen in between: once [o] has been forced, no later operation
     list makes a later [o] emit anything *)
  Theorem lazy_force_once st o ops :
    let st1 := fst (lazy_run (fst (lazy_step st o)) ops) in
    lazy_step st1 o = (st1, nil).
  Proof.
    destruct st, o; simpl.
    - rewrite lazy_from_both. reflexivity.
    - destruct (lazy_from_enc ops) as [-> | ->]; reflexivity.
    - destruct (lazy_from_elt ops) as [-> | ->]; reflexivity.
    - rewrite lazy_from_both. reflexivity.
    - rewrite lazy_from_both. reflexivity.
    - rewrite lazy_from_both. reflexivity.
  Qed.

  (* the final state records exactly what has been emitted *)
  Theorem lazy_state_events st ops :
    match st, fst (lazy_run st ops) with
    | LEnc, LEnc | LElt, LElt | LBoth, LBoth => snd (lazy_run st ops) = nil
    | LEnc, LBoth => snd (lazy_run st ops) = EvDecode :: nil
    | LElt, LBoth => snd (lazy_run st ops) = EvEncode :: nil
    | _, _ => False
    end.
  Proof.
    destruct st.
    - destruct (lazy_from_enc ops) as [-> | ->]; reflexivity.
    - destruct (lazy_from_elt ops) as [-> | ->]; reflexivity.
    - rewrite lazy_from_both. reflexivity.
  Qed.
End Lazy.

(* ====================================================================== *)
(* generic field helpers (kept in their own section so that they depend on nothing but the field) *)
Section GHelpers.
  Context {AF : AField}.
  Add Field Fghelp : Ffield.
  Local Notation "0" := zero. Local Notation "1" := one.
  Local Infix "+" := add. Local Infix "*" := mul. Local Infix "-" := sub. Local Infix "/" := div.
  Local Notation "- x" := (opp x).

  (* ------------------------------------------------------------------ *)
  (* generic field helpers (no hypothesis)                                *)
  Lemma g_one_nz : 1 <> 0. Proof. destruct Ffield; auto. Qed.
  Lemma g_mul_nz x y : x <> 0 -> y <> 0 -> x * y <> 0.
  Proof. intros Hx Hy E. apply F_id in E. tauto. Qed.
  Lemma g_inv_l x : x <> 0 -> inv x * x = 1.
  Proof. destruct Ffield as [_ _ _ H]. exact (H x). Qed.
  Lemma g_inv_1 : inv 1 = 1.
  Proof. transitivity (inv 1 * 1); [ring|]. apply g_inv_l. exact g_one_nz. Qed.
  Lemma g_sq0 y : y * y = 0 -> y = 0.
  Proof. intro H. apply F_id in H. tauto. Qed.
  Lemma g_cancel_r x y c : c <> 0 -> x * c = y * c -> x = y.
  Proof.
    intros Hc H. assert (E : (x - y) * c = 0) by (transitivity (x * c - y * c); [ring|rewrite H; ring]).
    apply F_id in E. destruct E as [E|E]; [|tauto]. transitivity ((x - y) + y); [ring|rewrite E; ring].
  Qed.
  Lemma g_sq_eq x y : x * x = y * y -> x = y \/ x = - y.
  Proof. exact (Codec.sq_eq x y). Qed.
  Lemma g_opp_opp x : - - x = x. Proof. ring. Qed.
  Lemma g_opp_0 : - 0 = 0. Proof. ring. Qed.
End GHelpers.

Section GadgetProofs.
  Context {AF : AField}.
  Add Field Fgadget : Ffield.
  Local Notation "0" := zero. Local Notation "1" := one.
  Local Infix "+" := add. Local Infix "*" := mul. Local Infix "-" := sub. Local Infix "/" := div.
  Local Notation "- x" := (opp x).

  Variables (d zeta : F) (neg : F -> bool) (sr : F -> F -> bool * F).
  Local Notation a := (opp one).

  (* ================================================================== *)
  (* 1.  isqrt                                                            *)
  (* the disjunction "some case applies" is a tautology *)
  Lemma isqrt_sat_char x ws y :
    isqrt_sat zeta x ws y = true <->
    (if feqb x 0
     then (if ws then y * y = inv 1 else y * y = 0)
     else (if ws then y * y = inv x else y * y = zeta * inv x)).
  Proof.
    unfold isqrt_sat. cbv zeta.
    destruct (feqb x 0), ws; simpl;
      rewrite ?andb_true_r, ?andb_true_l; apply feqb_true.
  Qed.

  (* (a) soundness away from 0 : needs nothing *)
  Theorem isqrt_sound x ws y :
    isqrt_sat zeta x ws y = true -> x <> 0 ->
    (ws = true /\ y * y * x = 1) \/ (ws = false /\ y * y * x = zeta).
  Proof.
    intros H Hx. apply isqrt_sat_char in H.
    apply feqb_false in Hx. rewrite Hx in H. apply feqb_false in Hx.
    pose proof (g_inv_l x Hx) as Hi.
    destruct ws; [left|right]; (split; [reflexivity|]); rewrite H.
    - exact Hi.
    - transitivity (zeta * (inv x * x)); [ring|]. rewrite Hi. ring.
  Qed.

  (* (b) at 0 : exactly the hints (true, +-1) and (false, 0) are accepted *)
  Theorem isqrt_zero_iff ws y :
    isqrt_sat zeta 0 ws y = true <-> (ws = true /\ y * y = 1) \/ (ws = false /\ y = 0).
  Proof.
    rewrite isqrt_sat_char, feqb_refl, g_inv_1. destruct ws; split.
    - intro H. left. split; [reflexivity|exact H].
    - intros [[_ H]|[H _]]; [exact H|discriminate].
    - intro H. right. split; [reflexivity|exact (g_sq0 y H)].
    - intros [[H _]|[_ H]]; [discriminate|]. rewrite H. ring.
  Qed.

  (* KNOWN FINDING (C14): the native contract demands (false, 0) for input 0 *)
  Theorem isqrt_unsound_at_zero : isqrt_sat zeta 0 true 1 = true.
  Proof. apply isqrt_zero_iff. left. split; [reflexivity|ring]. Qed.

  Theorem isqrt_unsound_at_zero' : isqrt_sat zeta 0 true (- (1)) = true.
  Proof. apply isqrt_zero_iff. left. split; [reflexivity|ring]. Qed.

  (* converse of (a) *)
  Lemma isqrt_intro x ws y : x <> 0 ->
    (ws = true /\ y * y * x = 1) \/ (ws = false /\ y * y * x = zeta) ->
    isqrt_sat zeta x ws y = true.
  Proof.
    intros Hx H. apply isqrt_sat_char.
    apply feqb_false in Hx. rewrite Hx. apply feqb_false in Hx.
    pose proof (g_inv_l x Hx) as Hi.
    destruct H as [[-> H]|[-> H]].
    - transitivity ((y * y * x) * inv x); [|rewrite H; ring].
      transitivity (y * y * (inv x * x)); [rewrite Hi; ring|ring].
    - transitivity ((y * y * x) * inv x); [|rewrite H; ring].
      transitivity (y * y * (inv x * x)); [rewrite Hi; ring|ring].
  Qed.

  Hypothesis Hsr : sqrt_ratio_contract zeta sr.

  Lemma g_sr_den0 : sr 1 0 = (false, 0).
  Proof. exact (Codec.sr_den0 zeta sr Hsr 1 g_one_nz). Qed.
  Lemma g_sr_nz x : x <> 0 ->
    (fst (sr 1 x) = true /\ snd (sr 1 x) * snd (sr 1 x) * x = 1) \/
    (fst (sr 1 x) = false /\ snd (sr 1 x) * snd (sr 1 x) * x = zeta).
  Proof.
    intro Hx. destruct (Codec.sr_nz zeta sr Hsr 1 x g_one_nz Hx) as [[H1 H2]|[H1 H2]]; [left|right];
      (split; [exact H1|]); rewrite H2; ring.
  Qed.

  (* (c) completeness : the honest hint always satisfies *)
  Theorem isqrt_complete x : let '(ws, y) := sr 1 x in isqrt_sat zeta x ws y = true.
  Proof.
    destruct (F_dec x 0) as [->|Hx].
    - rewrite g_sr_den0. apply isqrt_zero_iff. right. split; reflexivity.
    - pose proof (g_sr_nz x Hx) as H. destruct (sr 1 x) as [ws y]. simpl in H.
      apply isqrt_intro; assumption.
  Qed.

  Corollary isqrt_complete' x : isqrt_sat zeta x (fst (sr 1 x)) (snd (sr 1 x)) = true.
  Proof. pose proof (isqrt_complete x) as H. destruct (sr 1 x). exact H. Qed.

  (* ================================================================== *)
  (* a satisfying hint versus the native square root                      *)
  Hypothesis zeta_ns : forall w, w * w <> zeta.

  Lemma g_zeta_nz : zeta <> 0.
  Proof. intro E. apply (zeta_ns 0). rewrite E. ring. Qed.

  (* for a non-zero argument the flag is forced and the root is the native one up to sign *)
  Lemma hint_vs_native x ws y : x <> 0 -> isqrt_sat zeta x ws y = true ->
    ws = fst (sr 1 x) /\ (y = snd (sr 1 x) \/ y = - snd (sr 1 x)).
  Proof.
    intros Hx H.
    destruct (isqrt_sound x ws y H Hx) as [[-> Hy]|[-> Hy]];
      destruct (g_sr_nz x Hx) as [[-> Hv]|[-> Hv]].
    - split; [reflexivity|]. apply g_sq_eq. apply (g_cancel_r _ _ x Hx). rewrite Hy, Hv. reflexivity.
    - exfalso. apply (zeta_ns (snd (sr 1 x) * y * x)).
      transitivity ((snd (sr 1 x) * snd (sr 1 x) * x) * (y * y * x)); [ring|]. rewrite Hy, Hv. ring.
    - exfalso. apply (zeta_ns (snd (sr 1 x) * y * x)).
      transitivity ((snd (sr 1 x) * snd (sr 1 x) * x) * (y * y * x)); [ring|]. rewrite Hy, Hv. ring.
    - split; [reflexivity|]. apply g_sq_eq. apply (g_cancel_r _ _ x Hx). rewrite Hy, Hv. reflexivity.
  Qed.

  (* ------------------------------------------------------------------ *)
  (* signs                                                                *)
  Hypothesis neg0 : neg 0 = false.
  Hypothesis neg_opp : forall x, x <> 0 -> neg (- x) = negb (neg x).

  Lemma gabs_fabs x : gabs neg x = fabs neg x.
  Proof. unfold gabs, fabs. destruct (neg x); reflexivity. Qed.
  Lemma g_fabs_opp x : fabs neg (- x) = fabs neg x.
  Proof. exact (Codec.fabs_opp neg neg0 neg_opp x). Qed.
  Lemma g_fabs0 : fabs neg 0 = 0.
  Proof. exact (Codec.fabs0 neg neg0). Qed.

  (* the sign normalisation  v := if neg (c v) then -v else v  forgets the sign of v unless c v = 0 *)
  Lemma norm_sign c v : c * v <> 0 ->
    (if neg (c * - v) then - - v else - v) = (if neg (c * v) then - v else v).
  Proof.
    intro H. replace (c * - v) with (- (c * v)) by ring. rewrite (neg_opp _ H).
    destruct (neg (c * v)); simpl; ring.
  Qed.
  Lemma norm_zero c v : c * v = 0 ->
    (if neg (c * - v) then - - v else - v) = - v /\ (if neg (c * v) then - v else v) = v.
  Proof.
    intro H. replace (c * - v) with (- (c * v)) by ring. rewrite H, g_opp_0, neg0. split; reflexivity.
  Qed.

  (* ================================================================== *)
  (* 2.  the decode gadget                                                *)
  Hypothesis neg_m1 : neg (- (1)) = false.      (* q - 1 is even *)
  Hypothesis two_nz : two <> 0.
  Hypothesis d_ns : forall w, w * w <> d.

  Lemma neg_1 : neg 1 = true.
  Proof.
    pose proof (neg_opp 1 g_one_nz) as H. rewrite neg_m1 in H. destruct (neg 1); [reflexivity|discriminate].
  Qed.

  Local Notation U1 s := (1 - s * s).
  Local Notation U2 s := ((1 - s * s) * (1 - s * s) - d * (two * two) * (s * s)).

  Lemma u2_nz s : U2 s <> 0.
  Proof.
    intro E. destruct (F_dec s 0) as [Hs|Hs].
    - apply g_one_nz. rewrite <- E, Hs. ring.
    - assert (Hc : two * s <> 0) by (apply g_mul_nz; assumption).
      apply (d_ns (U1 s * inv (two * s))). apply (Codec.sq_div d (two * s) (U1 s) Hc).
      transitivity (U1 s * U1 s - U2 s); [rewrite E; ring|ring].
  Qed.

  Lemma u1_zero s : U1 s = 0 -> s = 1 \/ s = - (1).
  Proof. intro E. apply g_sq_eq. transitivity (1 - U1 s); [ring|rewrite E; ring]. Qed.

  (* the argument of isqrt vanishes only at s = +-1, and s = 1 is negative *)
  Lemma dec_den_nz s : neg s = false -> s <> - (1) -> U2 s * (U1 s * U1 s) <> 0.
  Proof.
    intros Hn Hs.
    assert (H1 : U1 s <> 0).
    { intro E. destruct (u1_zero s E) as [E1|E1]; [|exact (Hs E1)]. rewrite E1, neg_1 in Hn. discriminate. }
    repeat apply g_mul_nz; try assumption. apply u2_nz.
  Qed.

  (* (a) soundness for every hint.  For s = 0 the circuit accepts both roots +-1 of 1 whereas the native
     decoder returns the one its square-root routine produces: same decaf element, possibly the other
     representative (0, -y).  [decode_g_zero_both] shows the weaker conclusion cannot be avoided. *)
  Theorem decode_g_sound s ws v x y : s <> - (1) ->
    decode_g d zeta neg s ws v = (true, x, y) ->
    exists P, decode d neg sr s = Some P /\ x = pX P /\ (y = pY P \/ (s = 0 /\ y = - pY P)).
  Proof.
    intro Hs1. unfold decode_g, decode. cbv zeta. rewrite fofZ_4. change (1 + 1) with two.
    remember (s * s) as ss eqn:Ess. remember (1 - ss) as u1 eqn:Eu1.
    remember (u1 * u1 - d * (two * two) * ss) as u2 eqn:Eu2.
    intro H. injection H as Hsat Hx Hy.
    apply andb_true_iff in Hsat. destruct Hsat as [Hsat ->].
    apply andb_true_iff in Hsat. destruct Hsat as [Hn Hsat].
    apply negb_true_iff in Hn. rewrite Hn.
    assert (Hden : u2 * (u1 * u1) <> 0) by (subst u2 u1 ss; apply dec_den_nz; assumption).
    assert (Hu1 : u1 <> 0) by (intro Z0; apply Hden; rewrite Z0; ring).
    destruct (hint_vs_native _ _ _ Hden Hsat) as [Hb Hv].
    destruct (g_sr_nz _ Hden) as [[_ Hv0]|[Hf _]]; [|rewrite Hf in Hb; discriminate].
    destruct (sr 1 (u2 * (u1 * u1))) as [b v0]. simpl in Hb, Hv, Hv0. subst b. simpl.
    eexists. split; [reflexivity|]. cbn [pX pY]. subst x y.
    destruct Hv as [->| ->]; [split; [reflexivity|left; reflexivity]|].
    destruct (F_dec (two * s * u1 * v0) 0) as [Hc|Hc].
    - destruct (norm_zero _ _ Hc) as [-> ->]. split; [ring|]. right. split; [|ring].
      assert (Hv0nz : v0 <> 0) by (intro Z0; rewrite Z0 in Hv0; apply g_one_nz; rewrite <- Hv0; ring).
      apply F_id in Hc. destruct Hc as [Hc|Hc]; [|contradiction].
      apply F_id in Hc. destruct Hc as [Hc|Hc]; [|contradiction].
      apply F_id in Hc. destruct Hc as [Hc|Hc]; [contradiction|exact Hc].
    - rewrite (norm_sign _ _ Hc). split; [reflexivity|left; reflexivity].
  Qed.

  (* both roots are accepted at s = 0, with outputs (0, 1) and (0, -1) *)
  Theorem decode_g_zero_both :
    fst (fst (decode_g d zeta neg 0 true 1)) = true /\
    fst (fst (decode_g d zeta neg 0 true (- (1)))) = true /\
    snd (decode_g d zeta neg 0 true 1) = - snd (decode_g d zeta neg 0 true (- (1))) /\
    snd (decode_g d zeta neg 0 true 1) <> snd (decode_g d zeta neg 0 true (- (1))).
  Proof.
    unfold decode_g. cbv zeta. cbn [fst snd]. rewrite fofZ_4. change (1 + 1) with two.
    replace (two * 0 * (1 - 0 * 0) * 1) with 0 by ring.
    replace (two * 0 * (1 - 0 * 0) * - (1)) with 0 by ring.
    match goal with |- context [isqrt_sat zeta ?r true 1] => replace r with 1 by ring end.
    rewrite neg0. cbn [negb andb].
    assert (H1 : isqrt_sat zeta 1 true 1 = true)
      by (apply isqrt_intro; [exact g_one_nz|left; split; [reflexivity|ring]]).
    assert (H2 : isqrt_sat zeta 1 true (- (1)) = true)
      by (apply isqrt_intro; [exact g_one_nz|left; split; [reflexivity|ring]]).
    rewrite H1, H2. repeat split; try ring.
    intro E. apply (g_mul_nz _ _ two_nz g_one_nz).
    transitivity ((1 + 0 * 0) * 1 * (1 - 0 * 0) - (1 + 0 * 0) * - (1) * (1 - 0 * 0)); [unfold two; ring|].
    rewrite E. ring.
  Qed.

  (* (b) KNOWN FINDING at gadget level: the string s = -1 (i.e. q - 1), which the native decoder rejects,
     is accepted in circuit with the hint (true, 1), and yields the non-point (0, 0) *)
  Theorem decode_g_minus_one :
    fst (fst (decode_g d zeta neg (- (1)) true 1)) = true /\
    snd (fst (decode_g d zeta neg (- (1)) true 1)) = 0 /\
    snd (decode_g d zeta neg (- (1)) true 1) = 0 /\
    decode d neg sr (- (1)) = None.
  Proof.
    split; [|split; [|split]].
    - unfold decode_g. cbv zeta. cbn [fst snd]. rewrite neg_m1.
      match goal with |- context [isqrt_sat zeta ?r true 1] => replace r with 0 by ring end.
      rewrite isqrt_unsound_at_zero. reflexivity.
    - unfold decode_g. cbv zeta. cbn [fst snd].
      match goal with |- context [neg ?c] => destruct (neg c) end; ring.
    - unfold decode_g. cbv zeta. cbn [fst snd].
      match goal with |- context [neg ?c] => destruct (neg c) end; ring.
    - exact (Codec.decode_rejects_minus_one d zeta neg sr Hsr).
  Qed.

  (* (c) honest synthesis: satisfied exactly when the native decoder accepts, same coordinates *)
  Theorem decode_honest_iff s :
    let '(sat, x, y) := decode_honest d zeta neg sr s in
    (sat = true <-> exists P, decode d neg sr s = Some P) /\
    (forall P, decode d neg sr s = Some P -> x = pX P /\ y = pY P).
  Proof.
    unfold decode_honest, honest_hint, decode_g, decode. cbv zeta. rewrite fofZ_4. change (1 + 1) with two.
    remember (s * s) as ss eqn:Ess. remember (1 - ss) as u1 eqn:Eu1.
    remember (u1 * u1 - d * (two * two) * ss) as u2 eqn:Eu2.
    pose proof (isqrt_complete' (u2 * (u1 * u1))) as Hc.
    destruct (sr 1 (u2 * (u1 * u1))) as [b v0]. simpl in Hc. rewrite Hc.
    destruct (neg s); simpl.
    - split; [split; [discriminate|intros (P & H); discriminate]|intros P H; discriminate].
    - destruct b; simpl.
      + split; [split; [intros _; eexists; reflexivity|reflexivity]|].
        intros P H. injection H as <-. split; reflexivity.
      + split; [split; [discriminate|intros (P & H); discriminate]|intros P H; discriminate].
  Qed.

  (* ================================================================== *)
  (* 3.  the encode gadget                                                *)
  Theorem encode_honest_eq x y :
    encode_honest a d zeta neg sr x y = (true, encode a d neg sr (of_affine (mkapt x y))).
  Proof.
    unfold encode_honest, honest_hint, encode_g, encode, of_affine. cbv zeta. cbn [pX pY pZ pT aX aY].
    match goal with |- context [sr 1 ?r] => pose proof (isqrt_complete' r) as Hc; destruct (sr 1 r) as [b v] end.
    simpl in Hc. rewrite Hc, !gabs_fabs. reflexivity.
  Qed.

  Hypothesis amd_ns : forall w, w * w <> a - d.

  Lemma g_amd_nz : a - d <> 0.
  Proof. intro E. apply (amd_ns 0). rewrite E. ring. Qed.

  (* on a curve point the argument of isqrt vanishes only for x = 0 *)
  Lemma enc_den_zero x y : on_curve a d (mkapt x y) ->
    (x + x * y) * (x - x * y) * (a - d) * (x * x) = 0 -> x = 0.
  Proof.
    unfold on_curve. cbn [aX aY]. intros Hc E.
    destruct (F_dec x 0) as [Hx|Hx]; [exact Hx|exfalso].
    apply F_id in E. destruct E as [E|E]; [|exact (g_mul_nz x x Hx Hx E)].
    apply F_id in E. destruct E as [E|E]; [|exact (g_amd_nz E)].
    assert (E2 : (x * x) * (x * x) * (a - d) = 0).
    { transitivity ((x * x) * ((a * (x * x) + y * y) - (1 + d * (x * x) * (y * y)))
                    + ((x + x * y) * (x - x * y)) * (1 - d * (x * x))); [ring|].
      rewrite Hc, E. ring. }
    apply F_id in E2. destruct E2 as [E2|E2]; [|exact (g_amd_nz E2)].
    exact (g_mul_nz _ _ (g_mul_nz x x Hx Hx) (g_mul_nz x x Hx Hx) E2).
  Qed.

  (* soundness for every satisfying hint, on every curve point (validity is not needed: for a non-zero
     argument the flag is forced, and the flag is not used by the encoder) *)
  Theorem encode_g_sound x y ws v s : on_curve a d (mkapt x y) ->
    encode_g a d zeta neg x y ws v = (true, s) -> s = encode a d neg sr (of_affine (mkapt x y)).
  Proof.
    intro Hc. pose proof (enc_den_zero x y Hc) as Hz. clear Hc.
    unfold encode_g, encode, of_affine. cbv zeta. cbn [pX pY pZ pT aX aY]. rewrite !gabs_fabs.
    remember ((x + x * y) * (x - x * y)) as u1 eqn:Eu1.
    remember (u1 * (a - d) * (x * x)) as den eqn:Eden.
    intro H. injection H as Hsat <-.
    destruct (F_dec den 0) as [Hd|Hd].
    - rewrite (Hz Hd). destruct (sr 1 den) as [b v'].
      match goal with |- fabs neg ?A = fabs neg ?B => replace A with 0 by ring; replace B with 0 by ring end.
      reflexivity.
    - destruct (hint_vs_native den ws v Hd Hsat) as [_ Hv].
      destruct (sr 1 den) as [b v']. simpl in Hv. destruct Hv as [->| ->]; [reflexivity|].
      replace (- v' * u1) with (- (v' * u1)) by ring. rewrite g_fabs_opp.
      match goal with |- fabs neg ?A = fabs neg ?B => replace A with (- B) by ring end.
      apply g_fabs_opp.
  Qed.

  (* ================================================================== *)
  (* 5.  witness allocation                                               *)
  Theorem new_witness_sound px py s' ws v x y : s' <> - (1) ->
    new_witness_g a d zeta neg px py s' ws v = (true, x, y) ->
    exists P, decode d neg sr s' = Some P /\ x = pX P /\ (y = pY P \/ (s' = 0 /\ y = - pY P)) /\
              x * py = px * y /\ on_curve a d (mkapt px py).
  Proof.
    intros Hs. unfold new_witness_g.
    destruct (decode_g d zeta neg s' ws v) as [[sat x0] y0] eqn:E.
    intro H. injection H as Hsat -> ->.
    apply andb_true_iff in Hsat. destruct Hsat as [Hsat Heq].
    apply andb_true_iff in Hsat. destruct Hsat as [Hoc ->].
    destruct (decode_g_sound s' ws v x y Hs E) as (P & HP & Hx & Hy).
    exists P. repeat split; try assumption.
    - unfold is_eq_g in Heq. apply feqb_true in Heq. exact Heq.
    - unfold on_curve_g in Hoc. apply feqb_true in Hoc. exact Hoc.
  Qed.

  (* KNOWN FINDING, continued: with s' = -1 and the hint (true, 1) the returned variable is (0, 0), for which
     the equality constraint against the offered on-curve coordinates is 0 = 0 *)
  Theorem new_witness_minus_one px py : on_curve_g a d px py = true ->
    new_witness_g a d zeta neg px py (- (1)) true 1 = (true, 0, 0).
  Proof.
    intro Hoc. unfold new_witness_g.
    destruct decode_g_minus_one as (H1 & H2 & H3 & _).
    destruct (decode_g d zeta neg (- (1)) true 1) as [[sat x0] y0]. simpl in H1, H2, H3. subst sat x0 y0.
    rewrite Hoc. unfold is_eq_g. replace (0 * py) with 0 by ring. replace (px * 0) with 0 by ring.
    rewrite feqb_refl. reflexivity.
  Qed.

  (* and (0, 0) is not a curve point *)
  Lemma zero_zero_off_curve : ~ on_curve a d (mkapt 0 0).
  Proof. unfold on_curve. cbn [aX aY]. intro E. apply g_one_nz. transitivity (1 + d * (0 * 0) * (0 * 0)); [ring|]. rewrite <- E. ring. Qed.

  (* ================================================================== *)
  (* 4.  the Elligator gadget                                             *)
  Hypothesis dma_ns : forall w, w * w <> d - a.
  Hypothesis m1_sq : exists i, i * i = - (1).
  Hypothesis a2d_nz : a - two * d <> 0.
  Hypothesis ratio1 : exists w, w * w = (d - a) / d.

  Local Notation NUM r0 := (Elligator.num d zeta r0).
  Local Notation DEN r0 := (Elligator.den d zeta r0).
  Local Notation FS iss isri r0 := (fin_s d zeta neg iss isri r0).
  Local Notation TT iss isri r0 := (the_t d zeta iss isri r0).

  Lemma ell_arg_nz r0 : NUM r0 * DEN r0 <> 0.
  Proof.
    apply g_mul_nz.
    - exact (Elligator.num_nonzero d zeta zeta_ns m1_sq a2d_nz r0).
    - exact (Elligator.den_nonzero d zeta zeta_ns d_ns dma_ns ratio1 r0).
  Qed.

  (* the gadget in terms of the Jacobi-quartic coordinates (s, t) of Proofs/Elligator.v *)
  Lemma ell_g_shape r0 iss isri :
    elligator_g a d zeta neg r0 iss isri =
    (isqrt_sat zeta (NUM r0 * DEN r0) iss isri
       && negb (feqb (1 + a * (FS iss isri r0 * FS iss isri r0)) 0) && negb (feqb (TT iss isri r0) 0),
     (two * FS iss isri r0) * inv (1 + a * (FS iss isri r0 * FS iss isri r0)),
     (1 - a * (FS iss isri r0 * FS iss isri r0)) * inv (TT iss isri r0)).
  Proof. reflexivity. Qed.

  Lemma ell_honest_shape r0 :
    elligator_honest a d zeta neg sr r0 =
    let '(iss, isri) := sr 1 (NUM r0 * DEN r0) in elligator_g a d zeta neg r0 iss isri.
  Proof. reflexivity. Qed.

  (* (s, t) do not depend on the sign of the root *)
  Lemma pre_s_opp_i iss isri r0 : pre_s d zeta iss (- isri) r0 = - pre_s d zeta iss isri r0.
  Proof. cbv beta zeta delta [pre_s]. ring. Qed.
  Lemma the_t_opp_i iss isri r0 : TT iss (- isri) r0 = TT iss isri r0.
  Proof. cbv beta zeta delta [the_t pre_s]. ring. Qed.
  Lemma fin_s_opp_i iss isri r0 : FS iss (- isri) r0 = FS iss isri r0.
  Proof.
    cbv beta zeta delta [fin_s]. rewrite pre_s_opp_i.
    remember (pre_s d zeta iss isri r0) as p eqn:Ep.
    destruct (F_dec p 0) as [Hp|Hp].
    - rewrite Hp, !g_opp_0. reflexivity.
    - rewrite (neg_opp p Hp). destruct (neg p), iss; simpl; ring.
  Qed.

  Lemma aff_jq s t : 1 + a * (s * s) <> 0 -> t <> 0 ->
    aff (jq s t) = mkapt ((two * s) * inv (1 + a * (s * s))) ((1 - a * (s * s)) * inv t).
  Proof.
    intros HF HT. unfold aff. cbv beta zeta delta [jq]. cbn [pX pY pZ].
    f_equal; field; split; assumption.
  Qed.

  (* soundness for every hint *)
  Theorem elligator_g_sound r0 iss isri x y :
    elligator_g a d zeta neg r0 iss isri = (true, x, y) ->
    mkapt x y = aff (elligator a d zeta neg sr r0).
  Proof.
    rewrite ell_g_shape, Elligator.ell_eq. intro H. injection H as Hsat <- <-.
    apply andb_true_iff in Hsat. destruct Hsat as [Hsat HT].
    apply andb_true_iff in Hsat. destruct Hsat as [Hsat HF].
    apply negb_true_iff, feqb_false in HT. apply negb_true_iff, feqb_false in HF.
    destruct (hint_vs_native _ _ _ (ell_arg_nz r0) Hsat) as [Hb Hv].
    destruct (sr 1 (NUM r0 * DEN r0)) as [b v]. simpl in Hb, Hv. subst iss.
    assert (E : FS b isri r0 = FS b v r0 /\ TT b isri r0 = TT b v r0).
    { destruct Hv as [->| ->]; split; try reflexivity; [apply fin_s_opp_i|apply the_t_opp_i]. }
    destruct E as [E1 E2]. rewrite E1, E2 in *.
    symmetry. apply aff_jq; assumption.
  Qed.

  (* completeness: honest synthesis is satisfied (the two inversions are of non-zero values) and returns
     the affine coordinates of the native result *)
  Theorem elligator_honest_eq r0 :
    elligator_honest a d zeta neg sr r0 =
    (true, aX (aff (elligator a d zeta neg sr r0)), aY (aff (elligator a d zeta neg sr r0))).
  Proof.
    pose proof (Elligator.elligator_wf d zeta neg sr neg0 neg_opp two_nz zeta_ns Hsr d_ns dma_ns m1_sq
                  a2d_nz ratio1 r0) as Hwf.
    rewrite ell_honest_shape. rewrite Elligator.ell_eq in *.
    pose proof (isqrt_complete' (NUM r0 * DEN r0)) as Hc.
    destruct (sr 1 (NUM r0 * DEN r0)) as [b v]. simpl in Hc.
    destruct Hwf as (HZ & _). cbv beta zeta delta [jq] in HZ. cbn [pZ] in HZ.
    assert (HF : 1 + a * (FS b v r0 * FS b v r0) <> 0) by (intro Z0; apply HZ; rewrite Z0; ring).
    assert (HT : TT b v r0 <> 0) by (intro Z0; apply HZ; rewrite Z0; ring).
    rewrite ell_g_shape, Hc, (aff_jq _ _ HF HT). cbn [aX aY].
    apply feqb_false in HF. apply feqb_false in HT. rewrite HF, HT. reflexivity.
  Qed.

  (* ================================================================== *)
  (* consequences of the hole, and what it does not affect                *)

  (* every admissible hint at s = -1 gives (0, 0) *)
  Theorem decode_g_minus_one_all ws v x y :
    decode_g d zeta neg (- (1)) ws v = (true, x, y) -> x = 0 /\ y = 0.
  Proof.
    unfold decode_g. cbv zeta. intro H. injection H as _ <- <-.
    split; match goal with |- context [neg ?c] => destruct (neg c) end; ring.
  Qed.

  (* the in-circuit equality test accepts (0, 0) against anything *)
  Theorem is_eq_g_zero_zero x y : is_eq_g 0 0 x y = true /\ is_eq_g x y 0 0 = true.
  Proof. unfold is_eq_g. split; apply feqb_true; ring. Qed.

  (* in-circuit compression of anything with x = 0 (the identity, (0,-1), and the non-point (0,0))
     yields 0 whatever the hint: at the encoder the hole of isqrt is harmless *)
  Theorem encode_g_x0 y ws v : snd (encode_g a d zeta neg 0 y ws v) = 0.
  Proof.
    unfold encode_g. cbv zeta. cbn [snd]. rewrite !gabs_fabs.
    match goal with |- fabs neg ?A = 0 => replace A with 0 by ring end. apply g_fabs0.
  Qed.

  (* a witnessed element is, as a curve point, +- the offered coordinates *)
  Theorem new_witness_coset px py s' ws v x y : s' <> - (1) ->
    new_witness_g a d zeta neg px py s' ws v = (true, x, y) ->
    on_curve a d (mkapt x y) /\ exists e, e * e = 1 /\ px = e * x /\ py = e * y.
  Proof.
    intros Hs H. destruct (new_witness_sound px py s' ws v x y Hs H) as (P & HP & Hx & Hy & Heq & Hoc).
    pose proof (Codec.decode_wf_valid d zeta neg sr neg0 neg_opp Hsr s' P HP) as [Hwf _].
    destruct (Codec.decode_some d zeta neg sr neg0 neg_opp Hsr s' P HP) as (k & x1 & _ & _ & _ & _ & _ & EP).
    remember ((1 + s' * s') * k) as y1 eqn:Ey1. subst P. cbn [pX pY] in Hx, Hy.
    destruct Hwf as (_ & _ & HC). cbn [pX pY pZ pT] in HC.
    assert (HC' : a * (x * x) + y * y = 1 * 1 + d * ((x * y) * (x * y))).
    { subst x. destruct Hy as [->|[_ ->]]; [exact HC|].
      transitivity (a * (x1 * x1) + y1 * y1); [ring|]. rewrite HC. ring. }
    split.
    { unfold on_curve. cbn [aX aY]. rewrite HC'. ring. }
    assert (HwfR : wf a d (mkpt x y 1 (x * y))).
    { unfold wf. cbn [pX pY pZ pT]. split; [exact g_one_nz|]. split; [ring|exact HC']. }
    assert (HwfQ : wf a d (of_affine (mkapt px py))).
    { unfold wf, of_affine. cbn [pX pY pZ pT aX aY]. split; [exact g_one_nz|]. split; [ring|].
      unfold on_curve in Hoc. cbn [aX aY] in Hoc. rewrite Hoc. ring. }
    assert (HE : eqE (mkpt x y 1 (x * y)) (of_affine (mkapt px py)) = true).
    { unfold eqE, of_affine. cbn [pX pY aX aY]. apply feqb_true. rewrite Heq. ring. }
    destruct (Codec.eqE_coset_proj d d_ns _ _ HwfR HwfQ HE) as (e & He & H1 & H2).
    unfold of_affine in H1, H2. cbn [pX pY pZ aX aY] in H1, H2.
    exists e. split; [exact He|]. split.
    - transitivity (px * 1); [ring|]. rewrite H1. ring.
    - transitivity (py * 1); [ring|]. rewrite H2. ring.
  Qed.

End GadgetProofs.

Print Assumptions lazy_run_app.
Print Assumptions lazy_events_once.
Print Assumptions lazy_from_enc_no_encode.
Print Assumptions lazy_from_elt_no_decode.
Print Assumptions lazy_force_idem.
Print Assumptions lazy_run_idem.
Print Assumptions lazy_force_once.
Print Assumptions isqrt_sound.
Print Assumptions isqrt_zero_iff.
Print Assumptions isqrt_unsound_at_zero.
Print Assumptions isqrt_complete.
Print Assumptions decode_g_sound.
Print Assumptions decode_g_zero_both.
Print Assumptions decode_g_minus_one.
Print Assumptions decode_g_minus_one_all.
Print Assumptions decode_honest_iff.
Print Assumptions encode_honest_eq.
Print Assumptions encode_g_sound.
Print Assumptions encode_g_x0.
Print Assumptions elligator_honest_eq.
Print Assumptions elligator_g_sound.
Print Assumptions new_witness_sound.
Print Assumptions new_witness_coset.
Print Assumptions new_witness_minus_one.
Print Assumptions is_eq_g_zero_zero.
