(* Elligator 2 map of decaf377 (Model.Decaf.elligator, mirroring Element::elligator_map):
     - the denominators never vanish,
     - the result is a well-formed, decaf-valid extended point,
     - r0 and -r0 give literally the same point,
     - the result is the point selected by the sage specification elligatorSpec (up to the coset
       representative; equal whenever the Jacobi-quartic s-coordinate is non-zero, e.g. r0 <> 0).
   Everything is proved over an abstract field; the Legendre-symbol facts about the curve constants are
   section hypotheses, discharged numerically at instantiation. *)
Require Import ZArith Bool.
From D377 Require Import Base.FieldSec Model.Decaf Spec.Edwards Spec.DecafSpec.

Section Elligator.
  Context {AF : AField}.
  Add Field Fell : Ffield.
  Local Notation "0" := zero. Local Notation "1" := one.
  Local Infix "+" := add. Local Infix "*" := mul. Local Infix "-" := sub. Local Infix "/" := div.
  Local Notation "- x" := (opp x).

  Variables (d zeta : F).
  Variable neg : F -> bool.
  Variable sr : F -> F -> bool * F.
  Let a : F := opp one.

  Hypothesis neg0 : neg 0 = false.
  Hypothesis neg_opp : forall x, x <> 0 -> neg (- x) = negb (neg x).
  Hypothesis two_nz : two <> 0.
  Hypothesis zeta_ns : forall w, w * w <> zeta.
  Hypothesis Hsr : sqrt_ratio_contract zeta sr.
  Hypothesis d_ns : forall w, w * w <> d.
  Hypothesis dma_ns : forall w, w * w <> d - a.
  Hypothesis m1_sq : exists i, i * i = - (1).
  Hypothesis a2d_nz : a - two * d <> 0.
  Hypothesis ratio1 : exists w, w * w = (d - a) / d.

  Local Notation AA := ((a - two * d) * (a - two * d)).

  (* ------------------------------------------------------------------ *)
  (* generic field helpers                                               *)
  Lemma one_nz : 1 <> 0. Proof. destruct Ffield; auto. Qed.

  Lemma mul_nz x y : x <> 0 -> y <> 0 -> x * y <> 0.
  Proof. intros Hx Hy E. apply F_id in E. tauto. Qed.

  Lemma sub0_eq x y : x - y = 0 -> x = y.
  Proof. intro E. transitivity ((x - y) + y); [ring | rewrite E; ring]. Qed.

  Lemma mul_cancel_r x y c : c <> 0 -> x * c = y * c -> x = y.
  Proof.
    intros Hc H. assert (E : (x - y) * c = 0) by (transitivity (x * c - y * c); [ring | rewrite H; ring]).
    apply F_id in E. destruct E as [E | E]; [| tauto]. apply sub0_eq. exact E.
  Qed.

  Lemma eq_div x D N : D <> 0 -> x * D = N -> x = N / D.
  Proof. intros HD E. rewrite <- E. field. exact HD. Qed.

  (* a non-square cannot be a ratio of squares *)
  Lemma ns_contra x y z : (forall w, w * w <> z) -> y <> 0 -> x * x = y * y * z -> False.
  Proof.
    intros Hns Hy E. apply (Hns (x / y)).
    transitivity (x * x / (y * y)); [field; exact Hy |]. rewrite E. field. exact Hy.
  Qed.

  Lemma d_nz : d <> 0.
  Proof. intro E. apply (d_ns 0). rewrite E. ring. Qed.

  Lemma dma_nz : d - a <> 0.
  Proof. intro E. apply (dma_ns 0). rewrite E. ring. Qed.

  (* ------------------------------------------------------------------ *)
  (* 1. the denominators                                                 *)
  Definition rr (r0 : F) : F := zeta * (r0 * r0).
  Definition den (r0 : F) : F := (d * rr r0 - (d - a)) * ((d - a) * rr r0 - d).
  Definition num (r0 : F) : F := (rr r0 + 1) * (a - two * d).

  Lemma den1_nz r0 : d * rr r0 - (d - a) <> 0.
  Proof.
    intro E. apply sub0_eq in E. unfold rr in E.
    destruct (F_dec r0 0) as [Hr | Hr].
    - apply dma_nz. rewrite <- E, Hr. ring.
    - destruct ratio1 as [w Hw].
      apply (zeta_ns (w / r0)).
      transitivity (w * w / (r0 * r0)); [field; exact Hr |].
      rewrite Hw, <- E. field. repeat split; auto using d_nz.
  Qed.

  Lemma den2_nz r0 : (d - a) * rr r0 - d <> 0.
  Proof.
    intro E. apply sub0_eq in E. unfold rr in E.
    destruct (F_dec r0 0) as [Hr | Hr].
    - apply d_nz. rewrite <- E, Hr. ring.
    - destruct ratio1 as [w Hw].
      assert (Hwnz : w <> 0).
      { intro Z0. apply dma_nz. transitivity (((d - a) / d) * d); [field; exact d_nz |].
        rewrite <- Hw, Z0. ring. }
      apply (zeta_ns (1 / (w * r0))).
      assert (Hd : d = (w * w) * (zeta * (r0 * r0)) * d).
      { rewrite Hw. transitivity ((d - a) * (zeta * (r0 * r0))); [symmetry; exact E |].
        field. exact d_nz. }
      assert (H1 : (w * w) * (zeta * (r0 * r0)) = 1).
      { apply (mul_cancel_r _ _ d d_nz). rewrite <- Hd. ring. }
      transitivity (((w * w) * (zeta * (r0 * r0))) / ((w * r0) * (w * r0))).
      + rewrite H1. field. repeat split; assumption.
      + field. repeat split; assumption.
  Qed.

  Theorem den_nonzero r0 : den r0 <> 0.
  Proof. unfold den. apply mul_nz; [apply den1_nz | apply den2_nz]. Qed.

  Lemma rp1_nz r0 : rr r0 + 1 <> 0.
  Proof.
    intro E. unfold rr in E.
    destruct (F_dec r0 0) as [Hr | Hr].
    - apply one_nz. rewrite <- E, Hr. ring.
    - destruct m1_sq as [i Hi].
      apply (zeta_ns (i / r0)).
      transitivity (i * i / (r0 * r0)); [field; exact Hr |].
      rewrite Hi.
      assert (E' : - (1) = zeta * (r0 * r0)).
      { transitivity (zeta * (r0 * r0) - (zeta * (r0 * r0) + 1)); [ring | rewrite E; ring]. }
      rewrite E'. field. exact Hr.
  Qed.

  Theorem num_nonzero r0 : num r0 <> 0.
  Proof. unfold num. apply mul_nz; [apply rp1_nz | exact a2d_nz]. Qed.

  Lemma rr_opp r0 : rr (- r0) = rr r0.
  Proof. unfold rr. ring. Qed.
  Lemma den_opp r0 : den (- r0) = den r0.
  Proof. unfold den. rewrite rr_opp. reflexivity. Qed.
  Lemma num_opp r0 : num (- r0) = num r0.
  Proof. unfold num. rewrite rr_opp. reflexivity. Qed.

  (* ------------------------------------------------------------------ *)
  (* the shape of the code: Jacobi quartic point (s,t), then the 2-isogeny *)
  Definition jq (s t : F) : pt :=
    mkpt ((two * s) * t)
         ((1 + a * (s * s)) * (1 - a * (s * s)))
         ((1 + a * (s * s)) * t)
         ((two * s) * (1 - a * (s * s))).

  Definition pre_s (iss : bool) (isri r0 : F) : F :=
    isri * (if iss then 1 else r0) * num r0.
  Definition the_t (iss : bool) (isri r0 : F) : F :=
    - (if iss then 1 else - (1)) * (isri * (if iss then 1 else r0)) * pre_s iss isri r0
      * (rr r0 - 1) * AA - 1.
  Definition fin_s (iss : bool) (isri r0 : F) : F :=
    if Bool.eqb (neg (pre_s iss isri r0)) iss then - pre_s iss isri r0 else pre_s iss isri r0.

  Lemma ell_eq r0 :
    elligator a d zeta neg sr r0 =
    let '(iss, isri) := sr 1 (num r0 * den r0) in jq (fin_s iss isri r0) (the_t iss isri r0).
  Proof.
    unfold elligator. fold (rr r0). fold (den r0). fold (num r0).
    destruct (sr 1 (num r0 * den r0)) as [iss isri]. reflexivity.
  Qed.

  Lemma sr_cases r0 iss isri :
    sr 1 (num r0 * den r0) = (iss, isri) ->
    (iss = true /\ isri * isri * (num r0 * den r0) = 1) \/
    (iss = false /\ isri * isri * (num r0 * den r0) = zeta * 1).
  Proof.
    intro E. destruct Hsr as (_ & _ & C3 & _).
    assert (Hx : num r0 * den r0 <> 0) by (apply mul_nz; [apply num_nonzero | apply den_nonzero]).
    specialize (C3 1 (num r0 * den r0) one_nz Hx). rewrite E in C3. exact C3.
  Qed.

  (* characterisation of the (s,t) computed by the code *)
  Lemma ell_char r0 : exists s t,
    elligator a d zeta neg sr r0 = jq s t /\
    ((s * s * den r0 = num r0 /\ neg s = false /\
      (t + 1) * den r0 = - (rr r0 - 1) * AA) \/
     ((forall w, w * w * den r0 <> num r0) /\
      s * s * den r0 = rr r0 * num r0 /\ neg (- s) = false /\
      (t + 1) * den r0 = rr r0 * (rr r0 - 1) * AA)).
  Proof.
    rewrite ell_eq.
    destruct (sr 1 (num r0 * den r0)) as [iss isri] eqn:Hs.
    destruct (sr_cases r0 iss isri Hs) as [[-> Hi] | [-> Hi]].
    - exists (fin_s true isri r0), (the_t true isri r0). split; [reflexivity |]. left.
      assert (Hpre : pre_s true isri r0 * pre_s true isri r0 * den r0 = num r0).
      { unfold pre_s. transitivity ((isri * isri * (num r0 * den r0)) * num r0); [ring |].
        rewrite Hi. ring. }
      split; [| split].
      + unfold fin_s. destruct (Bool.eqb (neg (pre_s true isri r0)) true); [| exact Hpre].
        rewrite <- Hpre. ring.
      + unfold fin_s. destruct (neg (pre_s true isri r0)) eqn:Hn; simpl.
        * rewrite neg_opp, Hn; [reflexivity |]. intro Z0. rewrite Z0, neg0 in Hn. discriminate.
        * exact Hn.
      + unfold the_t, pre_s.
        transitivity (- (rr r0 - 1) * AA * (isri * isri * (num r0 * den r0))); [ring |].
        rewrite Hi. ring.
    - exists (fin_s false isri r0), (the_t false isri r0). split; [reflexivity |]. right.
      assert (Hpre : pre_s false isri r0 * pre_s false isri r0 * den r0 = rr r0 * num r0).
      { unfold pre_s. transitivity ((isri * isri * (num r0 * den r0)) * (r0 * r0 * num r0)); [ring |].
        rewrite Hi. unfold rr. ring. }
      split; [| split; [| split]].
      + intros w Hw. apply (zeta_ns (isri * w * den r0)).
        transitivity (isri * isri * ((w * w * den r0) * den r0)); [ring |].
        rewrite Hw. rewrite Hi. ring.
      + unfold fin_s. destruct (Bool.eqb (neg (pre_s false isri r0)) false); [| exact Hpre].
        rewrite <- Hpre. ring.
      + unfold fin_s. destruct (neg (pre_s false isri r0)) eqn:Hn; simpl.
        * rewrite neg_opp, Hn; [reflexivity |]. intro Z0. rewrite Z0, neg0 in Hn. discriminate.
        * replace (- - pre_s false isri r0) with (pre_s false isri r0) by ring. exact Hn.
      + unfold the_t, pre_s.
        transitivity ((rr r0 - 1) * AA * (r0 * r0) * (isri * isri * (num r0 * den r0))); [ring |].
        rewrite Hi. unfold rr. ring.
  Qed.

  (* ------------------------------------------------------------------ *)
  (* 2. the Jacobi quartic equation  t^2 = a^2 s^4 + 2(a-2d) s^2 + 1  and its consequences *)
  Definition quartic (s t : F) : Prop :=
    t * t = a * a * (s * s * s * s) + two * (a - two * d) * (s * s) + 1.

  Lemma quartic_sq r D s t :
    D = (d * r - (d - a)) * ((d - a) * r - d) -> D <> 0 ->
    (s * s) * D = (r + 1) * (a - two * d) -> (t + 1) * D = - (r - 1) * AA ->
    quartic s t.
  Proof.
    intros HD HDnz Hs Ht. unfold quartic.
    assert (HDD : D * D <> 0) by (apply mul_nz; assumption).
    apply (mul_cancel_r _ _ (D * D) HDD).
    transitivity (((t + 1) * D - D) * ((t + 1) * D - D)); [ring |]. rewrite Ht.
    transitivity (a * a * ((s * s * D) * (s * s * D)) + two * (a - two * d) * (s * s * D) * D + D * D);
      [| ring].
    rewrite Hs. rewrite HD. unfold two. ring.
  Qed.

  Lemma quartic_ns r D s t :
    D = (d * r - (d - a)) * ((d - a) * r - d) -> D <> 0 ->
    (s * s) * D = r * ((r + 1) * (a - two * d)) -> (t + 1) * D = r * (r - 1) * AA ->
    quartic s t.
  Proof.
    intros HD HDnz Hs Ht. unfold quartic.
    assert (HDD : D * D <> 0) by (apply mul_nz; assumption).
    apply (mul_cancel_r _ _ (D * D) HDD).
    transitivity (((t + 1) * D - D) * ((t + 1) * D - D)); [ring |]. rewrite Ht.
    transitivity (a * a * ((s * s * D) * (s * s * D)) + two * (a - two * d) * (s * s * D) * D + D * D);
      [| ring].
    rewrite Hs. rewrite HD. unfold two. ring.
  Qed.

  Lemma quartic_t_nz s t : quartic s t -> t <> 0.
  Proof.
    unfold quartic. intros Q Ht. rewrite Ht in Q.
    destruct (F_dec s 0) as [Hs | Hs].
    - rewrite Hs in Q. apply one_nz. transitivity (0 * 0); [| ring]. rewrite Q. ring.
    - apply (ns_contra (1 + a * (s * s)) (two * s) d d_ns).
      + apply mul_nz; assumption.
      + transitivity ((a * a * (s * s * s * s) + two * (a - two * d) * (s * s) + 1)
                      + two * s * (two * s) * d); [unfold two; ring |].
        rewrite <- Q. ring.
  Qed.

  Lemma quartic_F_nz s t : quartic s t -> 1 + a * (s * s) <> 0.
  Proof.
    unfold quartic. intros Q HF.
    destruct m1_sq as [i Hi].
    assert (Hinz : i <> 0).
    { intro Z0. rewrite Z0 in Hi. apply one_nz. transitivity (- (0 * 0)); [rewrite Hi; ring | ring]. }
    assert (Hs : s <> 0).
    { intro Z0. rewrite Z0 in HF. apply one_nz. rewrite <- HF. ring. }
    apply (ns_contra t (i * (two * s)) d d_ns).
    - apply mul_nz; [exact Hinz | apply mul_nz; assumption].
    - rewrite Q.
      transitivity ((1 + a * (s * s)) * (1 + a * (s * s)) + (- (1)) * (two * s) * (two * s) * d);
        [unfold two; ring |].
      rewrite HF, <- Hi. ring.
  Qed.

  Lemma jq_wf s t : quartic s t -> wf a d (jq s t).
  Proof.
    intro Q. pose proof (quartic_t_nz s t Q) as Ht. pose proof (quartic_F_nz s t Q) as HF.
    unfold wf, jq; simpl. split; [| split].
    - apply mul_nz; assumption.
    - ring.
    - unfold quartic in Q.
      transitivity ((1 + a * (s * s)) * t * ((1 + a * (s * s)) * t)
                    + (1 - a * (s * s)) * (1 - a * (s * s))
                      * (a * a * (s * s * s * s) + two * (a - two * d) * (s * s) + 1 - t * t)
                    + d * (two * s * (1 - a * (s * s)) * (two * s * (1 - a * (s * s)))));
        [unfold two; ring |].
      rewrite <- Q. unfold two. ring.
  Qed.

  Lemma jq_valid s t : quartic s t -> valid a d (jq s t).
  Proof.
    intro Q. split; [exact (jq_wf s t Q) |].
    exists ((a - d) * ((1 + a * (s * s)) * (1 + a * (s * s)))).
    unfold jq; simpl. unfold quartic in Q.
    transitivity ((a - d) * ((1 + a * (s * s)) * (1 + a * (s * s)))
                  * (a * (a * a * (s * s * s * s) + two * (a - two * d) * (s * s) + 1)
                     - d * ((1 - a * (s * s)) * (1 - a * (s * s)))));
      [unfold two; ring |].
    rewrite <- Q. ring.
  Qed.

  Lemma ell_quartic r0 : exists s t,
    elligator a d zeta neg sr r0 = jq s t /\ quartic s t.
  Proof.
    destruct (ell_char r0) as (s & t & Heq & [(H1 & _ & H2) | (_ & H1 & _ & H2)]);
      exists s, t; (split; [exact Heq |]).
    - exact (quartic_sq (rr r0) (den r0) s t eq_refl (den_nonzero r0) H1 H2).
    - exact (quartic_ns (rr r0) (den r0) s t eq_refl (den_nonzero r0) H1 H2).
  Qed.

  Theorem elligator_wf r0 : wf a d (elligator a d zeta neg sr r0).
  Proof. destruct (ell_quartic r0) as (s & t & -> & Q). exact (jq_wf s t Q). Qed.

  Theorem elligator_valid r0 : valid a d (elligator a d zeta neg sr r0).
  Proof. destruct (ell_quartic r0) as (s & t & -> & Q). exact (jq_valid s t Q). Qed.

  (* ------------------------------------------------------------------ *)
  (* 3. r0 and -r0 give the same coordinates                              *)
  Lemma pre_s_opp_true isri r0 : pre_s true isri (- r0) = pre_s true isri r0.
  Proof. unfold pre_s. rewrite num_opp. reflexivity. Qed.
  Lemma pre_s_opp_false isri r0 : pre_s false isri (- r0) = - pre_s false isri r0.
  Proof. unfold pre_s. rewrite num_opp. ring. Qed.
  Lemma the_t_opp iss isri r0 : the_t iss isri (- r0) = the_t iss isri r0.
  Proof. destruct iss; unfold the_t, pre_s; rewrite num_opp, rr_opp; ring. Qed.
  Lemma fin_s_opp iss isri r0 : fin_s iss isri (- r0) = fin_s iss isri r0.
  Proof.
    destruct iss; unfold fin_s.
    - rewrite pre_s_opp_true. reflexivity.
    - rewrite pre_s_opp_false.
      remember (pre_s false isri r0) as s eqn:Es.
      destruct (F_dec s 0) as [Hz | Hnz].
      + rewrite Hz. assert (E0 : - 0 = 0) by ring. rewrite !E0. reflexivity.
      + rewrite (neg_opp s Hnz). destruct (neg s); simpl; ring.
  Qed.

  Theorem elligator_neg r0 :
    elligator a d zeta neg sr (- r0) = elligator a d zeta neg sr r0.
  Proof.
    rewrite !ell_eq. rewrite num_opp, den_opp.
    destruct (sr 1 (num r0 * den r0)) as [iss isri].
    rewrite fin_s_opp, the_t_opp. reflexivity.
  Qed.

  (* ------------------------------------------------------------------ *)
  (* 4. agreement with the sage specification                             *)
  Lemma fjq_aff s t : quartic s t -> s <> 0 -> fromJacobiQuartic a s t = aff (jq s t).
  Proof.
    intros Q Hs. pose proof (quartic_t_nz s t Q) as Ht. pose proof (quartic_F_nz s t Q) as HF.
    unfold fromJacobiQuartic. destruct (feqb_spec s 0) as [E | _]; [contradiction |].
    unfold aff, jq; simpl. f_equal; field; repeat split; assumption.
  Qed.

  Lemma fjq_aff0 : coset_eq (fromJacobiQuartic a 0 (- (1))) (aff (jq 0 (- (1)))).
  Proof.
    unfold fromJacobiQuartic. rewrite feqb_refl. unfold coset_eq, aff, jq; simpl. right.
    assert (E1 : two * 0 * - (1) = 0) by ring.
    assert (E2 : (1 + a * (0 * 0)) * - (1) = - (1)) by ring.
    assert (E3 : (1 + a * (0 * 0)) * (1 - a * (0 * 0)) = 1) by ring.
    rewrite E1, E2, E3.
    assert (Hm : - (1) <> 0).
    { intro Z0. apply one_nz. transitivity (- - (1)); [ring | rewrite Z0; ring]. }
    split; field; exact Hm.
  Qed.

  Lemma zeta_nz : zeta <> 0.
  Proof. intro E. apply (zeta_ns 0). rewrite E. ring. Qed.

  Lemma ell_spec_aux r0 : exists s t,
    elligator a d zeta neg sr r0 = jq s t /\ quartic s t /\
    elligatorSpec a d zeta neg r0 (fromJacobiQuartic a s t) /\
    (s = 0 -> r0 = 0 /\ t = - (1)).
  Proof.
    pose proof (den_nonzero r0) as HD.
    destruct (ell_char r0) as (s & t & Heq & [(H1 & Hn & H2) | (Hns & H1 & Hn & H2)]);
      exists s, t; (split; [exact Heq |]).
    - (* num*den is a square *)
      assert (Q : quartic s t) by exact (quartic_sq (rr r0) (den r0) s t eq_refl HD H1 H2).
      assert (Ht : t = - (rr r0 - 1) * AA / den r0 - 1).
      { transitivity ((t + 1) - 1); [ring |]. rewrite (eq_div (t + 1) _ _ HD H2). reflexivity. }
      split; [exact Q |]. split.
      + unfold elligatorSpec. right. split; [exact HD |]. left.
        exists s. split; [split |].
        * exact (eq_div (s * s) (den r0) (num r0) HD H1).
        * exact Hn.
        * f_equal. exact Ht.
      + intro Z0. exfalso. apply (num_nonzero r0). rewrite <- H1, Z0. ring.
    - (* num*den is not a square *)
      assert (Q : quartic s t) by exact (quartic_ns (rr r0) (den r0) s t eq_refl HD H1 H2).
      assert (Ht : t = rr r0 * (rr r0 - 1) * AA / den r0 - 1).
      { transitivity ((t + 1) - 1); [ring |]. rewrite (eq_div (t + 1) _ _ HD H2). reflexivity. }
      split; [exact Q |]. split.
      + unfold elligatorSpec. right. split; [exact HD |]. right. split.
        * intros [w Hw]. change (w * w = num r0 / den r0) in Hw.
          apply (Hns w). rewrite Hw. field. exact HD.
        * exists (- s). split; [split |].
          -- change (- s * - s = rr r0 * (num r0 / den r0)).
             transitivity (s * s); [ring |].
             rewrite (eq_div (s * s) _ _ HD H1). field. exact HD.
          -- exact Hn.
          -- f_equal; [ring | exact Ht].
      + intro Z0. rewrite Z0 in H1.
        assert (E : rr r0 * num r0 = 0) by (rewrite <- H1; ring).
        apply F_id in E. destruct E as [E | E]; [| exfalso; exact (num_nonzero r0 E)].
        split.
        * unfold rr in E. apply F_id in E. destruct E as [E | E]; [exfalso; exact (zeta_nz E) |].
          apply F_id in E. tauto.
        * rewrite E in H2.
          assert (E' : (t + 1) * den r0 = 0) by (rewrite H2; ring).
          apply F_id in E'. destruct E' as [E' | E']; [| contradiction].
          transitivity ((t + 1) - 1); [ring | rewrite E'; ring].
  Qed.

  (* the specification selects a point in the coset of the computed one ... *)
  Theorem elligator_spec r0 : exists p,
    elligatorSpec a d zeta neg r0 p /\ coset_eq p (aff (elligator a d zeta neg sr r0)).
  Proof.
    destruct (ell_spec_aux r0) as (s & t & -> & Q & Hspec & H0).
    exists (fromJacobiQuartic a s t). split; [exact Hspec |].
    destruct (F_dec s 0) as [Hs | Hs].
    - destruct (H0 Hs) as [_ Ht]. rewrite Hs, Ht. exact fjq_aff0.
    - left. rewrite (fjq_aff s t Q Hs). split; reflexivity.
  Qed.

  (* ... and exactly the computed one for every non-zero input *)
  Theorem elligator_spec_eq r0 : r0 <> 0 ->
    elligatorSpec a d zeta neg r0 (aff (elligator a d zeta neg sr r0)).
  Proof.
    intro Hr. destruct (ell_spec_aux r0) as (s & t & -> & Q & Hspec & H0).
    assert (Hs : s <> 0) by (intro Z0; destruct (H0 Z0) as [E _]; exact (Hr E)).
    rewrite <- (fjq_aff s t Q Hs). exact Hspec.
  Qed.

  (* r0 = 0: the computed representative is (0, -1) or a point with s <> 0; in both cases the
     specification holds up to the coset (elligator_spec). *)

End Elligator.

Print Assumptions den_nonzero.
Print Assumptions num_nonzero.
Print Assumptions elligator_wf.
Print Assumptions elligator_valid.
Print Assumptions elligator_neg.
Print Assumptions elligator_spec.
Print Assumptions elligator_spec_eq.
