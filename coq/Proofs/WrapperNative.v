(* C13, histories — the native side made concrete: the same history on a native `Element` in extended projective coordinates
   (ark-ec Projective: ark_add / ark_sub / ark_double / pneg of Model/Decaf.v, tied to the dependency source by Tie/Dep.v) reads
   exactly what the gadget history reads: `compress_to_field` gives `encode P`, `value` gives the affine point of P.  No axioms. *)
Require Import ZArith List Bool.
From D377 Require Import Base.FieldSec Model.Decaf Model.Gadgets Model.Wrapper Spec.Edwards Spec.DecafSpec.
From D377 Require Import Proofs.EdwardsLaw Proofs.Projective Proofs.Codec Proofs.GadgetProofs Proofs.WrapperProofs.

Section WrapperNative.
  Context {AF : AField}.
  Add Field Fwn : Ffield.
  Local Notation "0" := zero. Local Notation "1" := one.
  Local Infix "+" := add. Local Infix "*" := mul. Local Infix "-" := sub. Local Infix "/" := div.
  Local Notation "- x" := (opp x).

  Variables (d zeta : F) (neg : F -> bool) (sr : F -> F -> bool * F).
  Local Notation a := (opp one).
  Hypothesis Hsr : sqrt_ratio_contract zeta sr.
  Hypothesis zeta_ns : forall w, w * w <> zeta.
  Hypothesis neg0 : neg 0 = false.
  Hypothesis neg_opp : forall x, x <> 0 -> neg (- x) = negb (neg x).
  Hypothesis two_nz : two <> 0.
  Hypothesis d_ns : forall w, w * w <> d.
  Hypothesis amd_ns : forall w, w * w <> a - d.
  Hypothesis m1_sq : exists i, i * i = - (1).

  Local Notation valid := (valid a d).
  Local Notation aff := (@aff AF).
  Local Notation encode := (encode a d neg sr).
  Local Notation nenc := (nenc d neg sr).
  Local Notation nrun := (nrun (ed_add a d) (@ed_neg AF) nenc).
  Local Notation nstep := (nstep (ed_add a d) (@ed_neg AF) nenc).

  (* operations with the second operand given as a native element *)
  Inductive pop := PForce | PReadEnc | PReadVal | PAdd (Q : pt) | PSub (Q : pt) | PDbl | PNeg | PSel (Q : pt) | PIsEq (Q : pt) | PClone.
  Definition to_wop (o : pop) : wop :=
    match o with
    | PForce => OForce | PReadEnc => OReadEnc | PReadVal => OReadVal
    | PAdd Q => OAdd (aff Q) | PSub Q => OSub (aff Q) | PDbl => ODbl | PNeg => ONeg | PSel Q => OSel (aff Q) | PIsEq Q => OIsEq (aff Q) | PClone => OClone
    end.
  Definition pop_ok (o : pop) : Prop := match o with PAdd Q | PSub Q | PSel Q | PIsEq Q => valid Q | _ => True end.
  (* the history on a native Element *)
  Definition pstep (P : pt) (o : pop) : pt * list wout :=
    match o with
    | PForce | PSel _ | PClone => (P, nil)
    | PReadEnc => (P, RdEnc (encode P) :: nil)
    | PReadVal => (P, RdVal (aff P) :: nil)
    | PAdd Q => (ark_add d P Q, nil)
    | PSub Q => (ark_sub d P Q, nil)
    | PDbl => (ark_double P, nil)
    | PNeg => (pneg P, nil)
    | PIsEq Q => (P, RdBool (eqE P Q) :: nil)        (* native ==  *)
    end.
  Fixpoint prun (P : pt) (ops : list pop) : pt * list wout :=
    match ops with
    | nil => (P, nil)
    | o :: ops' => let '(P', r) := pstep P o in let '(P'', r') := prun P' ops' in (P'', r ++ r')
    end.

  Lemma wn_two_nz : 1 + 1 <> 0. Proof. exact two_nz. Qed.
  Ltac pj := first [eassumption | exact wn_two_nz | exact d_ns | exact m1_sq].

  (* the field encoding only depends on the affine point *)
  Lemma nenc_aff P : valid P -> nenc (aff P) = encode P.
  Proof.
    intro V. pose proof V as [W _]. unfold WrapperProofs.nenc.
    assert (Va : valid (of_affine (aff P))).
    { eapply (@valid_of_affine AF d); try pj. eapply (@valid_iff_avalid AF d); try pj. }
    eapply (Codec.encode_respects_eq d zeta neg sr); try eassumption.
    unfold eqE, of_affine, Edwards.aff. cbn [pX pY aX aY]. apply feqb_true.
    destruct W as (Hz & _ & _). field. exact Hz.
  Qed.

  Lemma valid_wf P : valid P -> wf a d P. Proof. intros [W _]; exact W. Qed.

  (* the equality gadget on the affine coordinates decides what the native == decides *)
  Lemma is_eq_aff P Q : wf a d P -> wf a d Q ->
    is_eq_g (aX (aff P)) (aY (aff P)) (aX (aff Q)) (aY (aff Q)) = eqE P Q.
  Proof.
    intros (Hz1 & _) (Hz2 & _). unfold is_eq_g, eqE, Edwards.aff. cbn [aX aY].
    destruct (feqb_spec (pX P * pY Q) (pY P * pX Q)) as [E|E].
    - apply feqb_true. transitivity (pX P * pY Q / (pZ P * pZ Q)); [field; auto|]. rewrite E. field; auto.
    - apply feqb_false. intro E'. apply E.
      transitivity ((pX P / pZ P * (pY Q / pZ Q)) * (pZ P * pZ Q)); [field; auto|]. rewrite E'. field; auto.
  Qed.

  Theorem pstep_matches P o : valid P -> pop_ok o ->
    valid (fst (pstep P o)) /\ fst (nstep (aff P) (to_wop o)) = aff (fst (pstep P o)) /\ snd (nstep (aff P) (to_wop o)) = snd (pstep P o).
  Proof.
    intros V Ho. pose proof (valid_wf P V) as W.
    destruct o as [| | |Q|Q| | |Q|Q|]; cbn [pstep to_wop Wrapper.nstep fst snd pop_ok] in *.
    - auto.
    - split; [exact V|split; [reflexivity|]]. rewrite (nenc_aff P V). reflexivity.
    - auto.
    - split; [eapply (@valid_add AF d); pj|split; [|reflexivity]].
      symmetry. eapply (@ark_add_correct AF d); try pj. apply valid_wf; exact Ho.
    - split; [eapply (@valid_sub AF d); pj|split; [|reflexivity]].
      symmetry. eapply (@ark_sub_correct AF d); try pj. apply valid_wf; exact Ho.
    - split; [eapply (@valid_double AF d); pj|split; [|reflexivity]].
      symmetry. eapply (@ark_double_correct AF d); pj.
    - split; [eapply (@valid_neg AF d); pj|split; [|reflexivity]].
      symmetry. eapply (@pneg_correct AF d); pj.
    - auto.
    - split; [exact V|split; [reflexivity|]]. rewrite (is_eq_aff P Q W (valid_wf Q Ho)). reflexivity.
    - auto.
  Qed.

  Theorem prun_matches ops : forall P, valid P -> Forall pop_ok ops ->
    valid (fst (prun P ops)) /\ fst (nrun (aff P) (map to_wop ops)) = aff (fst (prun P ops)) /\
    snd (nrun (aff P) (map to_wop ops)) = snd (prun P ops).
  Proof.
    induction ops as [|o ops IH]; intros P V Hall.
    - cbn. auto.
    - inversion Hall as [|? ? Ho Hall']; subst.
      cbn [prun map Wrapper.nrun]. destruct (pstep_matches P o V Ho) as (V1 & E1 & R1).
      destruct (pstep P o) as [P1 r1]. destruct (nstep (aff P) (to_wop o)) as [p1 n1]. cbn [fst snd] in *. subst p1 n1.
      specialize (IH P1 V1 Hall'). destruct (prun P1 ops) as [P2 r2]. destruct (nrun (aff P1) (map to_wop ops)) as [p2 n2].
      cbn [fst snd] in *. destruct IH as (V2 & E2 & R2). subst. auto.
  Qed.

  (* operands of a valid native element are fine for the gadget history *)
  Lemma pop_ok_op_ok o : pop_ok o -> op_ok d (to_wop o).
  Proof.
    destruct o as [| | |Q|Q| | |Q|Q|]; cbn [pop_ok to_wop op_ok]; auto;
      intros [W _]; eapply (@wf_on_curve AF d); pj.
  Qed.

  (* the gadget history on a variable holding the element P reads what the native history on P reads, stays satisfied, and
     ends denoting the native result *)
  Theorem gadget_history_is_native_history ops P b : valid P -> Forall pop_ok ops ->
    let w := (b, WElt (aff P)) in
    fst (fst (wrun a d zeta neg sr w (map to_wop ops))) = b /\
    wabs d neg sr (snd (fst (wrun a d zeta neg sr w (map to_wop ops)))) = aff (fst (prun P ops)) /\
    snd (wrun a d zeta neg sr w (map to_wop ops)) = snd (prun P ops).
  Proof.
    intros V Hall w.
    assert (Hi : winv d neg sr (snd w)).
    { cbn [snd w winv]. eapply (@wf_on_curve AF d); try pj. exact (valid_wf P V). }
    assert (Hall' : Forall (op_ok d) (map to_wop ops)).
    { apply Forall_forall. intros o Ho. apply in_map_iff in Ho. destruct Ho as (o' & <- & Ho').
      apply pop_ok_op_ok. rewrite Forall_forall in Hall. exact (Hall o' Ho'). }
    destruct (wrun_refines d zeta neg sr Hsr zeta_ns neg0 neg_opp two_nz d_ns amd_ns m1_sq (map to_wop ops) w Hi Hall') as (Hb & _ & Ha & Hr).
    destruct (prun_matches ops P V Hall) as (_ & E & R).
    cbn [snd w wabs] in Ha, Hr. rewrite Ha, Hr, E, R. auto.
  Qed.
End WrapperNative.
