(* Byte-level lemmas: little-endian (de)serialisation round trips and the 32-byte codec entry points
   of Model/Bytes.v.  Plain Z / list arithmetic; no axioms. *)
Require Import ZArith List Lia Bool.
From D377 Require Import Base.ZpField Base.FieldSec Model.Decaf Model.Bytes.
Open Scope Z_scope.

(* ------------------------------------------------------------------ *)
(* 0. powers of 256 *)

Lemma pow8_S : forall n : nat, 2 ^ (8 * Z.of_nat (S n)) = 256 * 2 ^ (8 * Z.of_nat n).
Proof.
  intros n. replace (8 * Z.of_nat (S n)) with (8 + 8 * Z.of_nat n) by lia.
  rewrite Z.pow_add_r by lia. reflexivity.
Qed.

Lemma pow8_pos : forall n : nat, 0 < 2 ^ (8 * Z.of_nat n).
Proof. intros n. apply Z.pow_pos_nonneg; lia. Qed.

Lemma is_byte_iff : forall b, is_byte b = true <-> 0 <= b < 256.
Proof.
  intros b. unfold is_byte. rewrite andb_true_iff, Z.leb_le, Z.ltb_lt. tauto.
Qed.

Lemma bytes_ok_cons : forall b l, bytes_ok (b :: l) = true <-> 0 <= b < 256 /\ bytes_ok l = true.
Proof.
  intros b l. unfold bytes_ok. simpl. rewrite andb_true_iff, is_byte_iff. tauto.
Qed.

(* ------------------------------------------------------------------ *)
(* 1. le_bytes: shape *)

Lemma le_bytes_0 : forall z, le_bytes 0 z = nil.
Proof. reflexivity. Qed.

Lemma le_bytes_S : forall n z, le_bytes (S n) z = z mod 256 :: le_bytes n (z / 256).
Proof.
  intros n z. unfold le_bytes.
  change (seq 0 (S n)) with (0%nat :: seq 1 n).
  rewrite <- seq_shift, map_cons, map_map.
  f_equal.
  - change (8 * Z.of_nat 0) with 0. rewrite Z.pow_0_r, Z.div_1_r. reflexivity.
  - apply map_ext. intros i. rewrite pow8_S.
    rewrite Z.div_div; [reflexivity | lia | apply pow8_pos].
Qed.

Lemma le_bytes_length : forall n z, length (le_bytes n z) = n.
Proof. intros n z. unfold le_bytes. rewrite map_length, seq_length. reflexivity. Qed.

Lemma le_bytes_ok : forall n z, bytes_ok (le_bytes n z) = true.
Proof.
  induction n as [|n IH]; intros z.
  - reflexivity.
  - rewrite le_bytes_S. apply bytes_ok_cons. split; [apply Z.mod_pos_bound; lia | apply IH].
Qed.

(* ------------------------------------------------------------------ *)
(* 2. of_le_bytes: range *)

Lemma of_le_bytes_cons : forall b l, of_le_bytes (b :: l) = b + 256 * of_le_bytes l.
Proof. reflexivity. Qed.

Lemma of_le_bytes_range : forall l, bytes_ok l = true ->
  0 <= of_le_bytes l < 2 ^ (8 * Z.of_nat (length l)).
Proof.
  induction l as [|b l IH]; intros H.
  - simpl. lia.
  - apply bytes_ok_cons in H. destruct H as [Hb Hl]. specialize (IH Hl).
    rewrite of_le_bytes_cons. cbn [length]. rewrite pow8_S. lia.
Qed.

(* ------------------------------------------------------------------ *)
(* 3. of_le_bytes after le_bytes *)

Lemma of_le_le_bytes_mod : forall n z, of_le_bytes (le_bytes n z) = z mod 2 ^ (8 * Z.of_nat n).
Proof.
  induction n as [|n IH]; intros z.
  - simpl. rewrite Z.mod_1_r. reflexivity.
  - rewrite le_bytes_S, of_le_bytes_cons, IH, pow8_S.
    rewrite Z.rem_mul_r; [reflexivity | lia | apply pow8_pos].
Qed.

Lemma of_le_le_bytes : forall n z, 0 <= z < 2 ^ (8 * Z.of_nat n) -> of_le_bytes (le_bytes n z) = z.
Proof. intros n z H. rewrite of_le_le_bytes_mod. apply Z.mod_small. exact H. Qed.

(* ------------------------------------------------------------------ *)
(* 4. le_bytes after of_le_bytes *)

Lemma le_of_le_bytes : forall l, bytes_ok l = true -> le_bytes (length l) (of_le_bytes l) = l.
Proof.
  induction l as [|b l IH]; intros H.
  - reflexivity.
  - apply bytes_ok_cons in H. destruct H as [Hb Hl].
    cbn [length]. rewrite le_bytes_S, of_le_bytes_cons.
    replace ((b + 256 * of_le_bytes l) mod 256) with b
      by (rewrite Z.mul_comm, Z_mod_plus_full, Z.mod_small; lia).
    replace ((b + 256 * of_le_bytes l) / 256) with (of_le_bytes l)
      by (rewrite Z.mul_comm, Z_div_plus_full, Z.div_small; lia).
    rewrite IH by exact Hl. reflexivity.
Qed.

(* ------------------------------------------------------------------ *)
(* 5. injectivity *)

Lemma le_bytes_inj : forall n x y,
  0 <= x < 2 ^ (8 * Z.of_nat n) -> 0 <= y < 2 ^ (8 * Z.of_nat n) ->
  le_bytes n x = le_bytes n y -> x = y.
Proof.
  intros n x y Hx Hy E.
  rewrite <- (of_le_le_bytes n x Hx), <- (of_le_le_bytes n y Hy), E. reflexivity.
Qed.

Lemma of_le_bytes_inj : forall l l', bytes_ok l = true -> bytes_ok l' = true ->
  length l = length l' -> of_le_bytes l = of_le_bytes l' -> l = l'.
Proof.
  intros l l' H H' HL E.
  rewrite <- (le_of_le_bytes l H), <- (le_of_le_bytes l' H'), HL, E. reflexivity.
Qed.

(* ------------------------------------------------------------------ *)
(* 6. individual bytes; the top byte of a 32-byte string *)

Lemma nth_le_bytes : forall n z i, (i < n)%nat ->
  List.nth i (le_bytes n z) 0 = (z / 2 ^ (8 * Z.of_nat i)) mod 256.
Proof.
  intros n z i Hi. unfold le_bytes.
  set (f := fun i : nat => (z / 2 ^ (8 * Z.of_nat i)) mod 256).
  rewrite (nth_indep _ 0 (f 0%nat)) by (rewrite map_length, seq_length; exact Hi).
  rewrite map_nth, seq_nth by exact Hi. reflexivity.
Qed.

Lemma pow2_253 : 2 ^ 253 = 32 * 2 ^ 248.
Proof. change 253 with (5 + 248). rewrite Z.pow_add_r by lia. reflexivity. Qed.

Lemma pow2_256 : 2 ^ 256 = 256 * 2 ^ 248.
Proof. change 256 with (8 + 248) at 1. rewrite Z.pow_add_r by lia. reflexivity. Qed.

Lemma pow2_248_pos : 0 < 2 ^ 248.
Proof. apply Z.pow_pos_nonneg; lia. Qed.

Lemma top3_clear : forall z, 0 <= z < 2 ^ 253 -> Z.shiftr (List.nth 31 (le_bytes 32 z) 0) 5 = 0.
Proof.
  intros z Hz. rewrite nth_le_bytes by lia.
  change (8 * Z.of_nat 31) with 248.
  rewrite Z.shiftr_div_pow2 by lia. change (2 ^ 5) with 32.
  rewrite pow2_253 in Hz. pose proof pow2_248_pos as HP.
  assert (Hq : 0 <= z / 2 ^ 248 < 32).
  { split; [apply Z.div_pos; lia | apply Z.div_lt_upper_bound; lia]. }
  rewrite (Z.mod_small (z / 2 ^ 248) 256) by lia.
  apply Z.div_small. exact Hq.
Qed.

Lemma top3_clear_conv : forall l, bytes_ok l = true -> length l = 32%nat ->
  Z.shiftr (List.nth 31 l 0) 5 = 0 -> of_le_bytes l < 2 ^ 253.
Proof.
  intros l Hok Hlen Hs.
  pose proof (of_le_bytes_range l Hok) as Hr. rewrite Hlen in Hr.
  change (8 * Z.of_nat 32) with 256 in Hr.
  pose proof (le_of_le_bytes l Hok) as Hl. rewrite Hlen in Hl.
  rewrite <- Hl in Hs. rewrite nth_le_bytes in Hs by lia.
  change (8 * Z.of_nat 31) with 248 in Hs.
  rewrite Z.shiftr_div_pow2 in Hs by lia. change (2 ^ 5) with 32 in Hs.
  set (v := of_le_bytes l) in *.
  rewrite pow2_256 in Hr. rewrite pow2_253. pose proof pow2_248_pos as HP.
  assert (Hq : 0 <= v / 2 ^ 248 < 256).
  { split; [apply Z.div_pos; lia | apply Z.div_lt_upper_bound; lia]. }
  rewrite (Z.mod_small (v / 2 ^ 248) 256) in Hs by lia.
  assert (Hq' : v / 2 ^ 248 < 32).
  { pose proof (Z.div_mod (v / 2 ^ 248) 32 ltac:(lia)) as E.
    pose proof (Z.mod_pos_bound (v / 2 ^ 248) 32 ltac:(lia)). lia. }
  pose proof (Z.div_mod v (2 ^ 248) ltac:(lia)) as E.
  pose proof (Z.mod_pos_bound v (2 ^ 248) HP). nia.
Qed.

(* the high-bit test is exactly "< 2^253" on well-formed 32-byte strings *)
Lemma top3_clear_iff : forall l, bytes_ok l = true -> length l = 32%nat ->
  (Z.shiftr (List.nth 31 l 0) 5 = 0 <-> of_le_bytes l < 2 ^ 253).
Proof.
  intros l Hok Hlen. split.
  - apply top3_clear_conv; assumption.
  - intros Hlt. pose proof (of_le_bytes_range l Hok) as Hr.
    pose proof (le_of_le_bytes l Hok) as Hl. rewrite Hlen in Hl.
    rewrite <- Hl. apply top3_clear. lia.
Qed.

(* ------------------------------------------------------------------ *)
(* 7. codec round trips at byte level *)

Section BytesLemmas.
  Variable m : Z.
  Hypothesis m_pos : 0 < m.
  Hypothesis m_lt : m < 2 ^ 253.
  Context {AF : AField}.
  Variable of_int : Z -> F.
  Variable to_int : F -> Z.
  Variable decode : F -> option pt.
  Variable encode : pt -> F.

  Hypothesis to_of : forall v, 0 <= v < m -> to_int (of_int v) = v.
  Hypothesis of_to : forall x, of_int (to_int x) = x.
  Hypothesis to_range : forall x, 0 <= to_int x < m.

  Local Notation decompress32 := (decompress32 m of_int decode).
  Local Notation decompress_slice := (decompress_slice m of_int decode).
  Local Notation deserialize_stream := (deserialize_stream m of_int decode).
  Local Notation compress := (compress to_int encode).
  Local Notation field_from_bytes_checked := (field_from_bytes_checked m of_int).

  Lemma pow_256_eq : 2 ^ (8 * Z.of_nat 32) = 2 ^ 256.
  Proof. reflexivity. Qed.

  Lemma lt_253_256 : 2 ^ 253 < 2 ^ 256.
  Proof. apply Z.pow_lt_mono_r; lia. Qed.

  Lemma compress_length : forall p, length (compress p) = 32%nat.
  Proof. intros p. apply le_bytes_length. Qed.

  Lemma compress_ok : forall p, bytes_ok (compress p) = true.
  Proof. intros p. apply le_bytes_ok. Qed.

  Lemma compress_value : forall p, of_le_bytes (compress p) = to_int (encode p).
  Proof.
    intros p. unfold Bytes.compress. apply of_le_le_bytes.
    pose proof (to_range (encode p)). pose proof lt_253_256. rewrite pow_256_eq. lia.
  Qed.

  Lemma compress_top3 : forall p, Z.shiftr (List.nth 31 (compress p) 0) 5 = 0.
  Proof.
    intros p. unfold Bytes.compress. apply top3_clear.
    pose proof (to_range (encode p)). lia.
  Qed.

  Lemma compress_inj : forall p p', compress p = compress p' -> encode p = encode p'.
  Proof.
    intros p p' E. rewrite <- (of_to (encode p)), <- (of_to (encode p')).
    rewrite <- !compress_value, E. reflexivity.
  Qed.

  (* field deserialisation *)
  Lemma field_from_bytes_checked_some : forall b x,
    field_from_bytes_checked b = Some x <-> of_le_bytes b < m /\ x = of_int (of_le_bytes b).
  Proof.
    intros b x. unfold Bytes.field_from_bytes_checked. cbv zeta.
    destruct (of_le_bytes b <? m) eqn:E.
    - apply Z.ltb_lt in E. split.
      + intros H. inversion H. auto.
      + intros [_ H]. rewrite H. reflexivity.
    - apply Z.ltb_ge in E. split; [discriminate | lia].
  Qed.

  Lemma field_from_bytes_checked_none : forall b,
    field_from_bytes_checked b = None <-> m <= of_le_bytes b.
  Proof.
    intros b. unfold Bytes.field_from_bytes_checked. cbv zeta.
    destruct (of_le_bytes b <? m) eqn:E.
    - apply Z.ltb_lt in E. split; [discriminate | lia].
    - apply Z.ltb_ge in E. tauto.
  Qed.

  (* unfolding of decompress32 once the high-bit test passes *)
  Lemma decompress32_top_ok : forall b, Z.shiftr (List.nth 31 b 0) 5 = 0 ->
    decompress32 b =
    (if of_le_bytes b <? m
     then match decode (of_int (of_le_bytes b)) with Some p => DOk p | None => DErrEncoding end
     else DErrEncoding).
  Proof.
    intros b H. unfold Bytes.decompress32, Bytes.field_from_bytes_checked. cbv zeta.
    rewrite H. cbn [Z.eqb negb].
    destruct (of_le_bytes b <? m); reflexivity.
  Qed.

  (* (a) *)
  Lemma decompress32_compress : forall p p', decode (encode p) = Some p' ->
    decompress32 (compress p) = DOk p'.
  Proof.
    intros p p' H. rewrite decompress32_top_ok by apply compress_top3.
    rewrite compress_value. pose proof (to_range (encode p)) as Hr.
    replace (to_int (encode p) <? m) with true by (symmetry; apply Z.ltb_lt; lia).
    rewrite of_to, H. reflexivity.
  Qed.

  (* (c) *)
  Lemma decompress32_rejects_high_bits : forall b,
    Z.shiftr (List.nth 31 b 0) 5 <> 0 -> decompress32 b = DErrEncoding.
  Proof.
    intros b H. unfold Bytes.decompress32.
    apply Z.eqb_neq in H. rewrite H. reflexivity.
  Qed.

  (* holds for every b (no well-formedness needed); the requested hypotheses are kept in the _wf form below *)
  Lemma decompress32_rejects_ge_m_gen : forall b, m <= of_le_bytes b -> decompress32 b = DErrEncoding.
  Proof.
    intros b H. unfold Bytes.decompress32.
    destruct (negb (Z.shiftr (List.nth 31 b 0) 5 =? 0)); [reflexivity|].
    apply field_from_bytes_checked_none in H. rewrite H. reflexivity.
  Qed.

  Lemma decompress32_rejects_ge_m : forall b, bytes_ok b = true -> length b = 32%nat ->
    m <= of_le_bytes b -> decompress32 b = DErrEncoding.
  Proof. intros b _ _. apply decompress32_rejects_ge_m_gen. Qed.

  Lemma decompress32_some_iff : forall b p, bytes_ok b = true -> length b = 32%nat ->
    (decompress32 b = DOk p <-> of_le_bytes b < m /\ decode (of_int (of_le_bytes b)) = Some p).
  Proof.
    intros b p Hok Hlen. split.
    - intros H.
      destruct (Z.eq_dec (Z.shiftr (List.nth 31 b 0) 5) 0) as [Ht|Ht].
      + rewrite decompress32_top_ok in H by exact Ht.
        destruct (of_le_bytes b <? m) eqn:E; [|discriminate].
        apply Z.ltb_lt in E. split; [exact E|].
        destruct (decode (of_int (of_le_bytes b))); [|discriminate].
        inversion H. reflexivity.
      + rewrite decompress32_rejects_high_bits in H by exact Ht. discriminate.
    - intros [Hlt Hd].
      assert (Ht : Z.shiftr (List.nth 31 b 0) 5 = 0).
      { apply top3_clear_iff; [assumption | assumption | lia]. }
      rewrite decompress32_top_ok by exact Ht.
      replace (of_le_bytes b <? m) with true by (symmetry; apply Z.ltb_lt; lia).
      rewrite Hd. reflexivity.
  Qed.

  (* never accepts anything but DOk / DErrEncoding *)
  Lemma decompress32_cases : forall b, (exists p, decompress32 b = DOk p) \/ decompress32 b = DErrEncoding.
  Proof.
    intros b. unfold Bytes.decompress32.
    destruct (negb _); [right; reflexivity|].
    destruct (field_from_bytes_checked b); [|right; reflexivity].
    destruct (decode f); [left; eexists; reflexivity | right; reflexivity].
  Qed.

  (* (b) *)
  Lemma compress_decompress32 : forall b p, bytes_ok b = true -> length b = 32%nat ->
    decompress32 b = DOk p ->
    (forall s q, decode s = Some q -> encode q = s) ->
    compress p = b.
  Proof.
    intros b p Hok Hlen H Henc.
    apply decompress32_some_iff in H; [|assumption|assumption].
    destruct H as [Hlt Hd].
    pose proof (of_le_bytes_range b Hok) as Hr.
    unfold Bytes.compress. rewrite (Henc _ _ Hd).
    rewrite to_of by lia.
    rewrite <- Hlen. apply le_of_le_bytes. exact Hok.
  Qed.

  (* canonicity: two accepted well-formed 32-byte strings decoding to the same point are equal *)
  Lemma decompress32_canonical : forall b b' p,
    bytes_ok b = true -> length b = 32%nat -> bytes_ok b' = true -> length b' = 32%nat ->
    (forall s q, decode s = Some q -> encode q = s) ->
    decompress32 b = DOk p -> decompress32 b' = DOk p -> b = b'.
  Proof.
    intros b b' p Hok Hlen Hok' Hlen' Henc H H'.
    rewrite <- (compress_decompress32 b p Hok Hlen H Henc).
    apply (compress_decompress32 b' p Hok' Hlen' H' Henc).
  Qed.

  (* (d) *)
  Lemma decompress_slice_len : forall b, length b <> 32%nat -> decompress_slice b = DErrLength.
  Proof.
    intros b H. unfold Bytes.decompress_slice.
    apply Nat.eqb_neq in H. rewrite H. reflexivity.
  Qed.

  Lemma decompress_slice_32 : forall b, length b = 32%nat -> decompress_slice b = decompress32 b.
  Proof.
    intros b H. unfold Bytes.decompress_slice.
    apply Nat.eqb_eq in H. rewrite H. reflexivity.
  Qed.

  Lemma deserialize_stream_short : forall b, (length b < 32)%nat -> deserialize_stream b = DErrIo.
  Proof.
    intros b H. unfold Bytes.deserialize_stream.
    apply Nat.ltb_lt in H. rewrite H. reflexivity.
  Qed.

  Lemma deserialize_stream_prefix : forall b, (32 <= length b)%nat ->
    deserialize_stream b = decompress32 (firstn 32 b).
  Proof.
    intros b H. unfold Bytes.deserialize_stream.
    apply Nat.ltb_ge in H. rewrite H. reflexivity.
  Qed.

  Lemma deserialize_stream_32 : forall b, length b = 32%nat -> deserialize_stream b = decompress32 b.
  Proof.
    intros b H. rewrite deserialize_stream_prefix by lia.
    rewrite <- H, firstn_all. reflexivity.
  Qed.

  (* the three entry points agree on compress output *)
  Lemma decompress_slice_compress : forall p p', decode (encode p) = Some p' ->
    decompress_slice (compress p) = DOk p'.
  Proof.
    intros p p' H. rewrite decompress_slice_32 by apply compress_length.
    apply decompress32_compress. exact H.
  Qed.

  Lemma deserialize_stream_compress : forall p p' rest, decode (encode p) = Some p' ->
    deserialize_stream (compress p ++ rest) = DOk p'.
  Proof.
    intros p p' rest H.
    rewrite deserialize_stream_prefix by (rewrite app_length, compress_length; lia).
    rewrite <- (compress_length p) at 1. rewrite firstn_app, firstn_all, Nat.sub_diag.
    cbn [firstn]. rewrite app_nil_r. apply decompress32_compress. exact H.
  Qed.
End BytesLemmas.

Print Assumptions le_of_le_bytes.
Print Assumptions of_le_le_bytes_mod.
Print Assumptions top3_clear_iff.
Print Assumptions decompress32_compress.
Print Assumptions compress_decompress32.
Print Assumptions decompress32_some_iff.
Print Assumptions decompress32_canonical.
Print Assumptions deserialize_stream_compress.
