(* C09 for the constant-time routine (src/min_curve/invsqrt.rs):
     pow_le_limbs = exponentiation by the little-endian limb value,
     our_sqrt     = constant-time Tonelli-Shanks, correct on squares,
     min_sqrt_ratio satisfies sqrt_ratio_contract.
   Only an integral domain, Fermat's little theorem and the orders of the two constants are used
   (no cyclicity of the multiplicative group). *)
Require Import ZArith List Bool Lia.
From D377 Require Import Base.FieldSec Model.Decaf Model.Sqrt Spec.Edwards Spec.DecafSpec.
Import ListNotations.

(* ---------- pure Z / list facts ---------- *)
Definition limbs_value (l : list Z) : Z := fold_right (fun x acc => x + 2 ^ 64 * acc)%Z 0%Z l.
Definition limbs_ok (l : list Z) : Prop := Forall (fun x => 0 <= x < 2 ^ 64)%Z l.

Fixpoint bits_value (l : list bool) : Z :=
  match l with [] => 0%Z | b :: r => (Z.b2z b + 2 * bits_value r)%Z end.

Definition pw (k : nat) : Z := (2 ^ Z.of_nat k)%Z.

Lemma pw_0 : pw 0 = 1%Z. Proof. reflexivity. Qed.
Lemma pw_S k : pw (S k) = (2 * pw k)%Z.
Proof. unfold pw. rewrite Nat2Z.inj_succ, Z.pow_succ_r by apply Nat2Z.is_nonneg. reflexivity. Qed.
Lemma pw_pos k : (0 < pw k)%Z.
Proof. unfold pw. apply Z.pow_pos_nonneg; [lia | apply Nat2Z.is_nonneg]. Qed.
Lemma pw_pred k : (1 <= k)%nat -> pw k = (2 * pw (k - 1))%Z.
Proof. destruct k as [|k]; [lia|]. intros _. replace (S k - 1)%nat with k by lia. apply pw_S. Qed.

Lemma bits_value_nonneg l : (0 <= bits_value l)%Z.
Proof. induction l as [|b r IH]; cbn [bits_value]; [lia|]. destruct b; cbn [Z.b2z]; lia. Qed.

Lemma bits_value_app l1 l2 :
  bits_value (l1 ++ l2) = (bits_value l1 + pw (length l1) * bits_value l2)%Z.
Proof.
  induction l1 as [|b r IH]; cbn [app bits_value length].
  - rewrite pw_0. lia.
  - rewrite IH, pw_S. ring.
Qed.

Lemma bits_value_testbits x : forall n k,
  bits_value (map (fun i => Z.testbit x (Z.of_nat i)) (seq k n)) = ((x / pw k) mod pw n)%Z.
Proof.
  induction n as [|n IH]; intro k; cbn [seq map bits_value].
  - rewrite pw_0, Z.mod_1_r. reflexivity.
  - rewrite IH, Z.testbit_spec' by apply Nat2Z.is_nonneg.
    fold (pw k). rewrite (pw_S k), (pw_S n).
    pose proof (pw_pos k) as Hk. pose proof (pw_pos n) as Hn.
    rewrite (Z.mul_comm 2 (pw k)), <- Z.div_div by lia.
    rewrite Z.rem_mul_r by lia. reflexivity.
Qed.

Lemma limb_bits_value x : (0 <= x < 2 ^ 64)%Z -> bits_value (limb_bits x) = x.
Proof.
  intro Hx. unfold limb_bits. rewrite bits_value_testbits.
  rewrite pw_0, Z.div_1_r. change (pw 64) with (2 ^ 64)%Z. apply Z.mod_small. exact Hx.
Qed.

Lemma limb_bits_length x : length (limb_bits x) = 64%nat.
Proof. unfold limb_bits. rewrite map_length, seq_length. reflexivity. Qed.

Lemma limbs_bits_value l : limbs_ok l -> bits_value (limbs_bits l) = limbs_value l.
Proof.
  unfold limbs_ok, limbs_bits. induction 1 as [|x l Hx Hl IH]; cbn [flat_map limbs_value fold_right].
  - reflexivity.
  - rewrite bits_value_app, limb_bits_length, limb_bits_value, IH by assumption.
    change (pw 64) with (2 ^ 64)%Z. reflexivity.
Qed.

Lemma limbs_value_nonneg l : limbs_ok l -> (0 <= limbs_value l)%Z.
Proof. intro H. rewrite <- limbs_bits_value by assumption. apply bits_value_nonneg. Qed.

(* q - 1 = 2^s * t with s >= 1:  (q-1)/2 = 2^(s-1) * t *)
Lemma half_eq_gen (s : nat) (t m : Z) :
  (1 <= s)%nat -> m = (2 ^ Z.of_nat s * t)%Z -> (m / 2)%Z = (pw (s - 1) * t)%Z /\ m = (2 * (m / 2))%Z.
Proof.
  intros Hs Hm. fold (pw s) in Hm. rewrite (pw_pred s Hs) in Hm.
  remember (pw (s - 1) * t)%Z as k eqn:Ek.
  assert (E : m = (2 * k)%Z) by (rewrite Hm, Ek; ring).
  clear Hm Ek. Z.div_mod_to_equations. lia.
Qed.
Lemma odd_split (t : Z) : (0 < t)%Z -> Z.odd t = true ->
  t = ((t - 1) / 2 + (t - 1) / 2 + 1)%Z /\ (0 <= (t - 1) / 2)%Z.
Proof. intros Ht Ho. apply Z.odd_spec in Ho. destruct Ho as [m Hm]. Z.div_mod_to_equations. lia. Qed.

(* ---------- exponentiation laws, pow_le_limbs, sq_n ---------- *)
Section FPow.
  Context {AF : AField}.
  Add Field Fts1 : Ffield.
  Local Notation "0" := zero. Local Notation "1" := one.
  Local Infix "+" := add. Local Infix "*" := mul. Local Infix "-" := sub. Local Infix "/" := div.
  Local Notation "- x" := (opp x).

  Fixpoint npow (x : F) (n : nat) : F := match n with O => 1 | S n' => x * npow x n' end.

  Lemma npow_add x a b : npow x (a + b)%nat = npow x a * npow x b.
  Proof. induction a as [|a IH]; cbn [Nat.add npow]; [ring | rewrite IH; ring]. Qed.
  Lemma npow_mul x a b : npow x (a * b)%nat = npow (npow x a) b.
  Proof.
    induction b as [|b IH].
    - rewrite Nat.mul_0_r. reflexivity.
    - rewrite Nat.mul_succ_r, Nat.add_comm, npow_add, IH. reflexivity.
  Qed.
  Lemma npow_mul_base x y n : npow (x * y) n = npow x n * npow y n.
  Proof. induction n as [|n IH]; cbn [npow]; [ring | rewrite IH; ring]. Qed.
  Lemma npow_1_l n : npow 1 n = 1.
  Proof. induction n as [|n IH]; cbn [npow]; [reflexivity | rewrite IH; ring]. Qed.
  Lemma npow_0_l n : npow 0 (S n) = 0.
  Proof. cbn [npow]. ring. Qed.

  Lemma fpow_pos_npow x p : fpow_pos x p = npow x (Pos.to_nat p).
  Proof.
    induction p as [p IH|p IH|].
    - rewrite Pos2Nat.inj_xI. cbn [fpow_pos npow].
      replace (2 * Pos.to_nat p)%nat with (Pos.to_nat p + Pos.to_nat p)%nat by lia.
      rewrite npow_add, IH. reflexivity.
    - rewrite Pos2Nat.inj_xO. cbn [fpow_pos].
      replace (2 * Pos.to_nat p)%nat with (Pos.to_nat p + Pos.to_nat p)%nat by lia.
      rewrite npow_add, IH. reflexivity.
    - rewrite Pos2Nat.inj_1. cbn [fpow_pos npow]. ring.
  Qed.

  Lemma fpow_npow x e : fpow x e = npow x (Z.to_nat e).
  Proof. destruct e as [|p|p]; cbn [fpow Z.to_nat]; [reflexivity | apply fpow_pos_npow | reflexivity]. Qed.

  Lemma fpow_add x a b : (0 <= a)%Z -> (0 <= b)%Z -> fpow x (a + b) = fpow x a * fpow x b.
  Proof. intros Ha Hb. rewrite !fpow_npow, Z2Nat.inj_add by assumption. apply npow_add. Qed.
  Lemma fpow_mul x a b : (0 <= a)%Z -> (0 <= b)%Z -> fpow x (a * b) = fpow (fpow x a) b.
  Proof. intros Ha Hb. rewrite !fpow_npow, Z2Nat.inj_mul by assumption. apply npow_mul. Qed.
  Lemma fpow_mul_base x y e : fpow (x * y) e = fpow x e * fpow y e.
  Proof. rewrite !fpow_npow. apply npow_mul_base. Qed.
  Lemma fpow_1_l e : fpow 1 e = 1.
  Proof. rewrite fpow_npow. apply npow_1_l. Qed.
  Lemma fpow_0_l e : (0 < e)%Z -> fpow 0 e = 0.
  Proof.
    intro He. rewrite fpow_npow. destruct (Z.to_nat e) as [|n] eqn:E; [lia|]. apply npow_0_l.
  Qed.
  Lemma fpow_0_r x : fpow x 0 = 1. Proof. reflexivity. Qed.
  Lemma fpow_1_r x : fpow x 1 = x. Proof. reflexivity. Qed.
  Lemma fpow_2_r x : fpow x 2 = x * x. Proof. reflexivity. Qed.
  Lemma fpow_double x e : (0 <= e)%Z -> fpow x (2 * e) = fpow (x * x) e.
  Proof. intro He. rewrite fpow_mul by lia. rewrite fpow_2_r. reflexivity. Qed.
  Lemma fpow_sq x e : (0 <= e)%Z -> fpow x (2 * e) = fpow x e * fpow x e.
  Proof. intro He. replace (2 * e)%Z with (e + e)%Z by lia. apply fpow_add; assumption. Qed.

  (* pow_le_limbs *)
  Lemma pow_le_bits_gen bits : forall acc ins,
    fst (fold_left (fun (st : F * F) (b : bool) =>
                      let '(acc, insert) := st in
                      ((if b then acc * insert else acc), insert * insert)) bits (acc, ins))
    = acc * fpow ins (bits_value bits).
  Proof.
    induction bits as [|b r IH]; intros acc ins; cbn [fold_left bits_value].
    - cbn [fst]. rewrite fpow_0_r. ring.
    - rewrite IH. pose proof (bits_value_nonneg r) as Hr.
      rewrite fpow_add, fpow_double by (try lia; destruct b; cbn [Z.b2z]; lia).
      destruct b; cbn [Z.b2z]; [rewrite fpow_1_r | rewrite fpow_0_r]; ring.
  Qed.

  Lemma pow_le_bits_spec x bits : pow_le_bits x bits = fpow x (bits_value bits).
  Proof. unfold pow_le_bits. etransitivity; [apply pow_le_bits_gen | ring]. Qed.

  Lemma pow_le_limbs_spec x l : limbs_ok l -> pow_le_limbs x l = fpow x (limbs_value l).
  Proof. intro H. unfold pow_le_limbs. rewrite pow_le_bits_spec, limbs_bits_value by assumption. reflexivity. Qed.

  (* sq_n *)
  Lemma sq_n_spec n : forall b, sq_n n b = fpow b (pw n).
  Proof.
    induction n as [|n IH]; intro b; cbn [sq_n].
    - rewrite pw_0. reflexivity.
    - rewrite IH, pw_S. symmetry. apply fpow_double. pose proof (pw_pos n). lia.
  Qed.

  (* small field facts *)
  Lemma one_nz : 1 <> 0. Proof. destruct Ffield; auto. Qed.
  Lemma sqrt_one b : b * b = 1 -> b = 1 \/ b = - (1).
  Proof.
    intro H. assert (E : (b - 1) * (b + 1) = 0).
    { transitivity (b * b - 1); [ring | rewrite H; ring]. }
    apply F_id in E. destruct E as [E|E]; [left|right].
    - transitivity ((b - 1) + 1); [ring | rewrite E; ring].
    - transitivity ((b + 1) - 1); [ring | rewrite E; ring].
  Qed.
  Lemma inv_nz x : x <> 0 -> inv x <> 0.
  Proof.
    intros Hx H0. apply one_nz. assert (E : inv x * x = 1) by (field; assumption).
    rewrite <- E, H0. ring.
  Qed.
  Lemma mul_nz x y : x <> 0 -> y <> 0 -> x * y <> 0.
  Proof. intros Hx Hy H. apply F_id in H. tauto. Qed.
End FPow.

(* ---------- Tonelli-Shanks and the sqrt_ratio contract ---------- *)
Section TS.
  Context {AF : AField}.
  Add Field Fts2 : Ffield.
  Local Notation "0" := zero. Local Notation "1" := one.
  Local Infix "+" := add. Local Infix "*" := mul. Local Infix "-" := sub. Local Infix "/" := div.
  Local Notation "- x" := (opp x).

  (* q - 1 = 2^Sa * T, T odd, Sa >= 2 *)
  Variables (Sa : nat) (T qm1 : Z).
  Hypothesis HS : (2 <= Sa)%nat.
  Hypothesis HT : (0 < T)%Z.
  Hypothesis HTodd : Z.odd T = true.
  Hypothesis Hq : qm1 = (2 ^ Z.of_nat Sa * T)%Z.
  Hypothesis fermat : forall x : F, x <> 0 -> fpow x qm1 = 1.
  Variable c0 : F.                                   (* QUADRATIC_NON_RESIDUE_TO_TRACE *)
  Hypothesis Hc0 : fpow c0 (2 ^ Z.of_nat (Sa - 1)) = - (1).
  Variable zeta : F.
  Hypothesis Hzeta : fpow zeta (qm1 / 2) = - (1).
  Hypothesis one_ne_m1 : 1 <> - (1).
  Variables tm1d2 mm1d2 : list Z.                    (* TRACE_MINUS_ONE_DIV_TWO_LIMBS, MODULUS_MINUS_ONE_DIV_TWO_LIMBS *)
  Hypothesis Htok : limbs_ok tm1d2.
  Hypothesis Hmok : limbs_ok mm1d2.
  Hypothesis Htl : limbs_value tm1d2 = ((T - 1) / 2)%Z.
  Hypothesis Hml : limbs_value mm1d2 = (qm1 / 2)%Z.

  (* exponent arithmetic *)
  Lemma half_eq : (qm1 / 2)%Z = (pw (Sa - 1) * T)%Z.
  Proof. apply (half_eq_gen Sa T qm1); [clear - HS; lia | exact Hq]. Qed.
  Lemma qm1_double : qm1 = (2 * (qm1 / 2))%Z.
  Proof. apply (half_eq_gen Sa T qm1); [clear - HS; lia | exact Hq]. Qed.
  Lemma half_pos : (0 < qm1 / 2)%Z.
  Proof. rewrite half_eq. apply Z.mul_pos_pos; [apply pw_pos | exact HT]. Qed.
  Lemma half_nonneg : (0 <= qm1 / 2)%Z.
  Proof. apply Z.lt_le_incl. exact half_pos. Qed.
  Lemma T_split : T = ((T - 1) / 2 + (T - 1) / 2 + 1)%Z /\ (0 <= (T - 1) / 2)%Z.
  Proof. exact (odd_split T HT HTodd). Qed.

  (* 4. Euler's criterion *)
  Lemma fpow_half_sq x : x <> 0 -> fpow x (qm1 / 2) * fpow x (qm1 / 2) = 1.
  Proof.
    intro Hx. rewrite <- fpow_sq by exact half_nonneg. rewrite <- qm1_double. apply fermat. exact Hx.
  Qed.

  Lemma euler x : x <> 0 -> fpow x (qm1 / 2) = 1 \/ fpow x (qm1 / 2) = - (1).
  Proof. intro Hx. apply sqrt_one. apply fpow_half_sq. exact Hx. Qed.

  Lemma sq_half x w : w <> 0 -> w * w = x -> fpow x (qm1 / 2) = 1.
  Proof.
    intros Hw E. rewrite <- E, <- fpow_double by exact half_nonneg.
    rewrite <- qm1_double. apply fermat. exact Hw.
  Qed.

  Lemma euler_square x : is_square x -> x <> 0 -> fpow x (qm1 / 2) = 1.
  Proof.
    intros [w Hw] Hx. apply (sq_half x w); [|exact Hw].
    intro Hw0. apply Hx. rewrite <- Hw, Hw0. ring.
  Qed.

  Lemma m1_nz : - (1) <> 0.
  Proof. intro H. apply (@one_nz AF). transitivity (- - (1)); [ring | rewrite H; ring]. Qed.

  Lemma euler_nonsquare x : fpow x (qm1 / 2) = - (1) -> forall w, w * w <> x.
  Proof.
    intros Hx w Hw. destruct (F_dec w 0) as [Hw0|Hw0].
    - apply m1_nz. rewrite <- Hx, <- Hw, Hw0.
      replace (0 * 0) with 0 by ring. apply fpow_0_l. exact half_pos.
    - apply one_ne_m1. rewrite <- Hx. symmetry. apply (sq_half x w); assumption.
  Qed.

  Lemma zeta_nonsquare : forall w, w * w <> zeta.
  Proof. apply euler_nonsquare. exact Hzeta. Qed.

  Lemma zeta_nz : zeta <> 0.
  Proof. intro H. apply (zeta_nonsquare 0). rewrite H. ring. Qed.

  (* 5. the Tonelli-Shanks loop *)
  Lemma ts_step_spec x n z t c :
    z * z = x * t -> fpow t (pw (S n)) = 1 -> fpow c (pw (S n)) = - (1) ->
    exists z' t' c', ts_step (z, t, t, c) (2 + n) = (z', t', t', c') /\
      z' * z' = x * t' /\ fpow t' (pw n) = 1 /\ fpow c' (pw n) = - (1).
  Proof.
    intros Hz Ht Hc. assert (Hn : (0 <= pw n)%Z) by (apply Z.lt_le_incl, pw_pos).
    rewrite pw_S in Ht, Hc.
    assert (Hc' : fpow (c * c) (pw n) = - (1)) by (rewrite <- fpow_double by exact Hn; exact Hc).
    unfold ts_step. replace (2 + n - 2)%nat with n by (clear; lia). rewrite sq_n_spec.
    remember (fpow t (pw n)) as b eqn:Eb.
    assert (Hb : b * b = 1) by (rewrite Eb, <- fpow_sq by exact Hn; exact Ht).
    destruct (feqb_spec b 1) as [Hb1|Hb1]; cbn [negb].
    - exists z, t, (c * c). repeat split; try assumption. rewrite <- Eb. exact Hb1.
    - destruct (sqrt_one b Hb) as [Hb2|Hb2]; [contradiction|].
      exists (z * c), (t * (c * c)), (c * c). repeat split.
      + transitivity (z * z * (c * c)); [ring | rewrite Hz; ring].
      + rewrite fpow_mul_base, <- Eb, Hb2, Hc'. ring.
      + exact Hc'.
  Qed.

  Lemma ts_loop x : forall n z t c,
    z * z = x * t -> fpow t (pw n) = 1 -> fpow c (pw n) = - (1) ->
    exists z' t' b' c', fold_left ts_step (rev (seq 2 n)) (z, t, t, c) = (z', t', b', c') /\ z' * z' = x.
  Proof.
    induction n as [|n IH]; intros z t c Hz Ht Hc.
    - exists z, t, t, c. split; [reflexivity|]. rewrite pw_0, fpow_1_r in Ht. rewrite Hz, Ht. ring.
    - rewrite seq_S, rev_app_distr. cbn [rev app fold_left].
      destruct (ts_step_spec x n z t c Hz Ht Hc) as (z' & t' & c' & E & Hz' & Ht' & Hc').
      rewrite E. apply IH; assumption.
  Qed.

  Theorem ts_correct x : x <> 0 -> fpow x (qm1 / 2) = 1 ->
    let z := our_sqrt tm1d2 c0 Sa x in z * z = x.
  Proof.
    intros Hx Hsym. cbv zeta.
    destruct T_split as [HTs Hh]. pose proof (pw_pos (Sa - 1)) as Hp.
    remember (pow_le_limbs x tm1d2) as z0 eqn:Ez0.
    assert (Ez0' : z0 = fpow x ((T - 1) / 2)) by (rewrite Ez0, pow_le_limbs_spec, Htl by assumption; reflexivity).
    assert (Et : z0 * z0 * x = fpow x T).
    { rewrite HTs at 1. rewrite !fpow_add, fpow_1_r by (clear - Hh; lia). rewrite <- Ez0'. reflexivity. }
    destruct (ts_loop x (Sa - 1) (z0 * x) (z0 * z0 * x) c0) as (z' & t' & b' & c' & E & Hz').
    - ring.
    - rewrite Et, <- fpow_mul by (clear - HT Hp; lia). rewrite Z.mul_comm, <- half_eq. exact Hsym.
    - exact Hc0.
    - unfold our_sqrt. cbv zeta. rewrite <- Ez0, E. exact Hz'.
  Qed.

  Lemma ts_square x : x <> 0 -> fpow x (qm1 / 2) = 1 -> is_square x.
  Proof. intros Hx H. exists (our_sqrt tm1d2 c0 Sa x). exact (ts_correct x Hx H). Qed.

  (* 7. consequences used elsewhere *)
  Lemma zeta_mul_half x : fpow x (qm1 / 2) = - (1) -> fpow (zeta * x) (qm1 / 2) = 1.
  Proof. intro H. rewrite fpow_mul_base, Hzeta, H. ring. Qed.

  Lemma sq_or_zeta_sq x : x <> 0 -> is_square x \/ is_square (zeta * x).
  Proof.
    intro Hx. destruct (euler x Hx) as [H|H]; [left|right].
    - apply ts_square; assumption.
    - apply ts_square; [apply mul_nz; [exact zeta_nz | exact Hx] | apply zeta_mul_half; exact H].
  Qed.

  Lemma nonsquare_half x : x <> 0 -> ~ is_square x -> fpow x (qm1 / 2) = - (1).
  Proof. intros Hx Hns. destruct (euler x Hx) as [H|H]; [|exact H]. exfalso. apply Hns. apply ts_square; assumption. Qed.

  Lemma ns_mul x y : x <> 0 -> y <> 0 -> ~ is_square x -> ~ is_square y -> is_square (x * y).
  Proof.
    intros Hx Hy Nx Ny. apply ts_square; [apply mul_nz; assumption|].
    rewrite fpow_mul_base, (nonsquare_half x Hx Nx), (nonsquare_half y Hy Ny). ring.
  Qed.

  (* 6. the contract *)
  Lemma msr_nz num den : num <> 0 -> den <> 0 ->
    let x := num * inv den in
    (fpow x (qm1 / 2) = 1 /\
     min_sqrt_ratio tm1d2 mm1d2 c0 zeta Sa num den = (true, our_sqrt tm1d2 c0 Sa x)) \/
    (fpow x (qm1 / 2) = - (1) /\
     min_sqrt_ratio tm1d2 mm1d2 c0 zeta Sa num den = (false, our_sqrt tm1d2 c0 Sa (zeta * x))).
  Proof.
    intros Hn Hd. cbv zeta. unfold min_sqrt_ratio.
    destruct (feqb_spec num 0) as [?|_]; [contradiction|].
    destruct (feqb_spec den 0) as [?|_]; [contradiction|].
    cbv zeta. rewrite pow_le_limbs_spec, Hml by assumption.
    assert (Hx : num * inv den <> 0) by (apply mul_nz; [exact Hn | apply inv_nz; exact Hd]).
    remember (num * inv den) as x eqn:Ex.
    destruct (feqb_spec (fpow x (qm1 / 2)) 1) as [H1|H1].
    - left. split; [exact H1 | reflexivity].
    - right. split; [|reflexivity]. destruct (euler x Hx) as [H|H]; [contradiction | exact H].
  Qed.

  Theorem min_sqrt_ratio_contract :
    sqrt_ratio_contract zeta (min_sqrt_ratio tm1d2 mm1d2 c0 zeta Sa).
  Proof.
    unfold sqrt_ratio_contract. split; [|split; [|split]].
    - intro den. unfold min_sqrt_ratio. rewrite feqb_refl. reflexivity.
    - intros num Hn. unfold min_sqrt_ratio.
      destruct (feqb_spec num 0) as [?|_]; [contradiction|]. rewrite feqb_refl. reflexivity.
    - intros num den Hn Hd.
      assert (Hx : num * inv den <> 0) by (apply mul_nz; [exact Hn | apply inv_nz; exact Hd]).
      destruct (msr_nz num den Hn Hd) as [[H E]|[H E]]; rewrite E.
      + left. split; [reflexivity|]. rewrite (ts_correct _ Hx H). field. exact Hd.
      + right. split; [reflexivity|].
        rewrite (ts_correct _ (mul_nz _ _ zeta_nz Hx) (zeta_mul_half _ H)). field. exact Hd.
    - intros num den Hn Hd.
      assert (Hx : num * inv den <> 0) by (apply mul_nz; [exact Hn | apply inv_nz; exact Hd]).
      assert (Ediv : num / den = num * inv den) by (field; exact Hd).
      rewrite Ediv.
      destruct (msr_nz num den Hn Hd) as [[H E]|[H E]]; rewrite E; cbn [fst]; split.
      + intros _. apply ts_square; assumption.
      + reflexivity.
      + discriminate.
      + intros [w Hw]. exfalso. exact (euler_nonsquare _ H w Hw).
  Qed.
End TS.

Print Assumptions pow_le_limbs_spec.
Print Assumptions sq_n_spec.
Print Assumptions ts_correct.
Print Assumptions min_sqrt_ratio_contract.
Print Assumptions zeta_nonsquare.
Print Assumptions euler_nonsquare.
Print Assumptions sq_or_zeta_sq.
Print Assumptions ns_mul.
