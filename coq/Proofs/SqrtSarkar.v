(* C09 for the table-driven routine (src/ark_curve/invsqrt.rs, Sarkar's square root):
     ark_sqrt_ratio never hits a missing HashMap key (totality), and satisfies sqrt_ratio_contract.
   Only an integral domain, Fermat's little theorem and the defining relations of the constants
   are used (no counting, no cyclicity of the whole multiplicative group: the cyclicity of the
   2-Sylow subgroup is derived from the integral-domain property). *)
Require Import ZArith List Bool Lia.
From D377 Require Import Base.FieldSec Model.Decaf Model.Sqrt Spec.Edwards Spec.DecafSpec Proofs.SqrtTS.
Import ListNotations.

(* ---------- pure Z facts ---------- *)
Lemma byte_eq t k : (0 <= k)%Z -> byte t k = ((t / 2 ^ k) mod 256)%Z.
Proof.
  intro Hk. unfold byte. change 255%Z with (Z.ones 8).
  rewrite Z.land_ones by lia. rewrite Z.shiftr_div_pow2 by lia. reflexivity.
Qed.

Lemma byte_range t k : (0 <= k)%Z -> (0 <= byte t k < 256)%Z.
Proof. intro Hk. rewrite byte_eq by assumption. apply Z.mod_pos_bound. lia. Qed.

Lemma land1 x : Z.land x 1 = (x mod 2)%Z.
Proof. change 1%Z with (Z.ones 1) at 1. rewrite Z.land_ones by lia. reflexivity. Qed.

Lemma pw_add a b : pw (a + b) = (pw a * pw b)%Z.
Proof. unfold pw. rewrite Nat2Z.inj_add, Z.pow_add_r by apply Nat2Z.is_nonneg. reflexivity. Qed.

Lemma pow2_pos k : (0 <= k)%Z -> (0 < 2 ^ k)%Z.
Proof. intro. apply Z.pow_pos_nonneg; lia. Qed.

(* ---------- generic field / list facts ---------- *)
Section Gen.
  Context {AF : AField}.
  Add Field Fsk1 : Ffield.
  Local Notation "0" := zero. Local Notation "1" := one.
  Local Infix "+" := add. Local Infix "*" := mul. Local Infix "-" := sub. Local Infix "/" := div.
  Local Notation "- x" := (opp x).

  Lemma npow_nz x n : x <> 0 -> npow x n <> 0.
  Proof. intro Hx. induction n as [|n IH]; cbn [npow]; [apply one_nz | apply mul_nz; assumption]. Qed.

  Lemma fpow_nz x e : x <> 0 -> fpow x e <> 0.
  Proof. intro Hx. rewrite fpow_npow. apply npow_nz. exact Hx. Qed.

  Lemma unit_nz y g : y * g = 1 -> g <> 0.
  Proof. intros H Hg. apply (@one_nz AF). rewrite <- H, Hg. ring. Qed.

  Lemma inv_unique y g : y * g = 1 -> inv g = y.
  Proof.
    intro H. pose proof (unit_nz y g H) as Hg.
    transitivity (inv g * (y * g)); [rewrite H; ring | field; exact Hg].
  Qed.

  Lemma inv_mul_one g y : g <> 0 -> inv g = y -> y * g = 1.
  Proof. intros Hg E. rewrite <- E. field. exact Hg. Qed.

  Lemma sq_eq y g : y * y = g * g -> y = g \/ y = - g.
  Proof.
    intro H. assert (E : (y - g) * (y + g) = 0).
    { transitivity (y * y - g * g); [ring | rewrite H; ring]. }
    apply F_id in E. destruct E as [E|E]; [left|right].
    - transitivity ((y - g) + g); [ring | rewrite E; ring].
    - transitivity ((y + g) - g); [ring | rewrite E; ring].
  Qed.

  Lemma powers_length x n : forall acc, length (powers x acc n) = n.
  Proof. induction n as [|n IH]; intro acc; cbn [powers length]; [reflexivity | rewrite IH; reflexivity]. Qed.

  Lemma powers_nth x n : forall acc i, (i < n)%nat -> List.nth i (powers x acc n) zero = acc * npow x i.
  Proof.
    induction n as [|n IH]; intros acc i Hi; [lia|].
    cbn [powers]. destruct i as [|i]; cbn [List.nth npow]; [ring|].
    rewrite IH by lia. ring.
  Qed.

  Lemma tab_powers x n nu : (0 <= nu < Z.of_nat n)%Z -> tab (powers x 1 n) nu = fpow x nu.
  Proof.
    intro H. unfold tab. rewrite powers_nth by lia. rewrite fpow_npow. ring.
  Qed.

  Lemma find_index_spec x : forall l s i, (i < length l)%nat -> List.nth i l zero = x ->
    exists j, find_index x l s = Some (s + Z.of_nat j)%Z /\ (j < length l)%nat /\ List.nth j l zero = x.
  Proof.
    induction l as [|k r IH]; intros s i Hi Hx; cbn [length] in Hi; [lia|].
    cbn [find_index]. destruct (feqb_spec k x) as [E|NE].
    - exists 0%nat. repeat split; [f_equal; cbn; lia | cbn [length]; lia | exact E].
    - destruct i as [|i]; [cbn [List.nth] in Hx; contradiction|].
      cbn [List.nth] in Hx. destruct (IH (s + 1)%Z i) as (j & E & Hj & Hn); [lia | exact Hx |].
      exists (S j). repeat split; [rewrite E; f_equal; lia | cbn [length]; lia | exact Hn].
  Qed.

  Lemma bind_some {A B} (o : option A) (f : A -> option B) a : o = Some a -> bind o f = f a.
  Proof. intro E. rewrite E. reflexivity. Qed.
End Gen.

(* ---------- Sarkar's algorithm ---------- *)
Section Sarkar.
  Context {AF : AField}.
  Add Field Fsk2 : Ffield.
  Local Notation "0" := zero. Local Notation "1" := one.
  Local Infix "+" := add. Local Infix "*" := mul. Local Infix "-" := sub. Local Infix "/" := div.
  Local Notation "- x" := (opp x).

  (* q - 1 = 2^47 * M, M odd *)
  Variables (M qm1 : Z).
  Hypothesis HM : (0 < M)%Z.
  Hypothesis HModd : Z.odd M = true.
  Hypothesis Hq : qm1 = (2 ^ 47 * M)%Z.
  Hypothesis fermat : forall x : F, x <> 0 -> fpow x qm1 = 1.
  Variable zeta : F.
  Hypothesis Hzeta : fpow zeta (qm1 / 2) = - (1).
  Hypothesis one_ne_m1 : 1 <> - (1).
  Variable z1 : F.                                    (* ZETA_TO_ONE_MINUS_M_DIV_TWO *)
  Hypothesis Hz1 : z1 * fpow zeta ((M - 1) / 2) = 1.

  Local Notation G := (fpow zeta M).
  Local Notation T := (mk_tables G z1 47 8).
  Local Notation h := ((M - 1) / 2)%Z.

  Local Arguments fpow : simpl never.

  (* exponent arithmetic *)
  Lemma M_split : M = (h + h + 1)%Z /\ (0 <= h)%Z.
  Proof. exact (odd_split M HM HModd). Qed.

  Lemma qm1_half : (qm1 / 2)%Z = (M * 2 ^ 46)%Z.
  Proof. rewrite Hq. change (2 ^ 47)%Z with (2 * 2 ^ 46)%Z. Z.div_mod_to_equations. lia. Qed.

  Lemma zeta_nz' : zeta <> 0.
  Proof. apply (zeta_nz 47%nat M qm1); try assumption. lia. Qed.

  Lemma zeta_ns : forall w, w * w <> zeta.
  Proof. apply (zeta_nonsquare 47%nat M qm1); try assumption. lia. Qed.

  Lemma G_nz e : fpow G e <> 0.
  Proof. apply fpow_nz, fpow_nz. exact zeta_nz'. Qed.

  Lemma G_half : fpow G (2 ^ 46) = - (1).
  Proof. rewrite <- fpow_mul by lia. rewrite <- qm1_half. exact Hzeta. Qed.

  Lemma G_full : fpow G (2 ^ 47) = 1.
  Proof. rewrite <- fpow_mul by lia. rewrite Z.mul_comm, <- Hq. apply fermat. exact zeta_nz'. Qed.

  (* 2. the 2-Sylow subgroup is cyclic, generated by G *)
  Lemma sylow (k : nat) : (k <= 47)%nat -> forall y, fpow y (pw k) = 1 ->
    exists j, (0 <= j < pw k)%Z /\ y = fpow G (j * pw (47 - k)).
  Proof.
    induction k as [|k IH]; intros Hk y Hy.
    - exists 0%Z. rewrite pw_0 in *. rewrite fpow_1_r in Hy. split; [lia|]. rewrite Hy. reflexivity.
    - rewrite pw_S in Hy. pose proof (pw_pos k) as Hpk.
      rewrite fpow_double in Hy by lia.
      destruct (IH ltac:(lia) (y * y) Hy) as (j & Hj & E).
      pose proof (pw_pos (47 - S k)) as Hp'.
      assert (Ep : pw (47 - k) = (2 * pw (47 - S k))%Z).
      { rewrite (pw_pred (47 - k)) by lia. do 2 f_equal. lia. }
      rewrite Ep in E. replace (j * (2 * pw (47 - S k)))%Z with (2 * (j * pw (47 - S k)))%Z in E by ring.
      rewrite fpow_sq in E by nia.
      destruct (sq_eq _ _ E) as [E1|E1].
      + exists j. split; [rewrite pw_S; lia | exact E1].
      + exists (pw k + j)%Z. split; [rewrite pw_S; lia|].
        rewrite E1. rewrite Z.mul_add_distr_r, fpow_add by nia.
        rewrite <- pw_add. replace (k + (47 - S k))%nat with 46%nat by lia.
        change (pw 46) with (2 ^ 46)%Z. rewrite G_half. ring.
  Qed.

  Lemma roots256 y : fpow y 256 = 1 -> exists j, (0 <= j < 256)%Z /\ y = fpow G (j * 2 ^ 39).
  Proof. intro H. exact (sylow 8 ltac:(lia) y H). Qed.

  (* 3. the tables *)
  Lemma tab_gt k nu : (0 <= k)%Z -> (0 <= nu < 256)%Z ->
    tab (powers (fpow G (2 ^ k)) 1 256) nu = fpow G (nu * 2 ^ k).
  Proof.
    intros Hk Hnu. rewrite tab_powers by lia. rewrite <- fpow_mul by lia.
    rewrite Z.mul_comm. reflexivity.
  Qed.

  Lemma tab_g0 t k : (0 <= k)%Z -> tab (g0 T) (byte t k) = fpow G (byte t k * 2 ^ 0).
  Proof. intro Hk. apply tab_gt; [lia | apply byte_range; exact Hk]. Qed.
  Lemma tab_g8 t k : (0 <= k)%Z -> tab (g8 T) (byte t k) = fpow G (byte t k * 2 ^ 8).
  Proof. intro Hk. apply tab_gt; [lia | apply byte_range; exact Hk]. Qed.
  Lemma tab_g16 t k : (0 <= k)%Z -> tab (g16 T) (byte t k) = fpow G (byte t k * 2 ^ 16).
  Proof. intro Hk. apply tab_gt; [lia | apply byte_range; exact Hk]. Qed.
  Lemma tab_g24 t k : (0 <= k)%Z -> tab (g24 T) (byte t k) = fpow G (byte t k * 2 ^ 24).
  Proof. intro Hk. apply tab_gt; [lia | apply byte_range; exact Hk]. Qed.
  Lemma tab_g32 t k : (0 <= k)%Z -> tab (g32 T) (byte t k) = fpow G (byte t k * 2 ^ 32).
  Proof. intro Hk. apply tab_gt; [lia | apply byte_range; exact Hk]. Qed.
  Lemma tab_g40 t k : (0 <= k)%Z -> tab (g40 T) (byte t k) = fpow G (byte t k * 2 ^ 40).
  Proof. intro Hk. apply tab_gt; [lia | apply byte_range; exact Hk]. Qed.

  Lemma keys_length : length (s_keys T) = 256%nat.
  Proof. cbn [s_keys mk_tables]. rewrite map_length, powers_length. reflexivity. Qed.

  Lemma keys_nth j : (j < 256)%nat ->
    List.nth j (s_keys T) zero = inv (fpow G (Z.of_nat j * 2 ^ 39)).
  Proof.
    intro Hj. cbn [s_keys mk_tables]. change (47 - 8)%Z with 39%Z.
    rewrite (nth_indep _ zero (inv zero)) by (rewrite map_length, powers_length; exact Hj).
    rewrite map_nth. f_equal.
    rewrite powers_nth by exact Hj. rewrite Z.mul_comm, fpow_mul by lia.
    rewrite (fpow_npow _ (Z.of_nat j)), Nat2Z.id. ring.
  Qed.

  Lemma s_lookup_spec y : fpow y 256 = 1 ->
    exists nu, s_lookup T y = Some nu /\ (0 <= nu < 256)%Z /\ y * fpow G (nu * 2 ^ 39) = 1.
  Proof.
    intro Hy. destruct (roots256 y Hy) as (j & Hj & Ey).
    set (i := (if Z.eqb j 0 then 0 else 256 - j)%Z).
    assert (Hi : (0 <= i < 256)%Z) by (unfold i; destruct (Z.eqb_spec j 0); lia).
    assert (Ei : y * fpow G (i * 2 ^ 39) = 1).
    { rewrite Ey, <- fpow_add, <- Z.mul_add_distr_r by lia.
      unfold i; destruct (Z.eqb_spec j 0) as [E0|N0].
      - rewrite E0. reflexivity.
      - replace (j + (256 - j))%Z with 256%Z by lia. exact G_full. }
    destruct (find_index_spec y (s_keys T) 0%Z (Z.to_nat i)) as (n & E & Hn & En).
    - rewrite keys_length. lia.
    - rewrite keys_nth by lia. rewrite Z2Nat.id by lia. apply inv_unique. exact Ei.
    - rewrite keys_length in Hn. exists (Z.of_nat n). split; [exact E|]. split; [lia|].
      rewrite keys_nth in En by exact Hn. apply inv_mul_one; [apply G_nz | exact En].
  Qed.

  (* 4. reading an exponent through its bytes *)
  Fixpoint lprod (acc : F) (t k s : Z) (m : nat) : F :=
    match m with
    | O => acc
    | S m' => lprod (acc * fpow G (byte t k * 2 ^ s)) t (k + 8) (s + 8) m'
    end.

  Lemma lprod_spec m : forall acc t k s, (0 <= t)%Z -> (0 <= k)%Z -> (0 <= s)%Z ->
    (t / 2 ^ k < 2 ^ (8 * Z.of_nat m))%Z ->
    lprod acc t k s m = acc * fpow G (t / 2 ^ k * 2 ^ s).
  Proof.
    induction m as [|m IH]; intros acc t k s Ht Hk Hs Hb; cbn [lprod].
    - change (2 ^ (8 * Z.of_nat 0))%Z with 1%Z in Hb.
      assert (E : (t / 2 ^ k)%Z = 0%Z).
      { pose proof (Z.div_pos t (2 ^ k) Ht (pow2_pos k Hk)). lia. }
      rewrite E. change (fpow G (0 * 2 ^ s)) with 1. ring.
    - pose proof (pow2_pos k Hk) as Hpk. pose proof (pow2_pos s Hs) as Hps.
      assert (Ek : (t / 2 ^ (k + 8))%Z = (t / 2 ^ k / 256)%Z).
      { rewrite Z.pow_add_r by lia. rewrite Z.div_div by lia. reflexivity. }
      assert (Ha : (0 <= t / 2 ^ k)%Z) by (apply Z.div_pos; lia).
      rewrite IH; try lia.
      + rewrite Ek, byte_eq by exact Hk. set (a := (t / 2 ^ k)%Z) in *.
        rewrite (Z.pow_add_r 2 s 8) by lia. change (2 ^ 8)%Z with 256%Z.
        pose proof (Z.mod_pos_bound a 256 ltac:(lia)) as Hm.
        assert (Hd : (0 <= a / 256)%Z) by (apply Z.div_pos; lia).
        replace (a * 2 ^ s)%Z with (a mod 256 * 2 ^ s + a / 256 * (2 ^ s * 256))%Z.
        * rewrite fpow_add by nia. ring.
        * rewrite (Z_div_mod_eq_full a 256) at 3. ring.
      + rewrite Ek. apply Z.div_lt_upper_bound; [lia|].
        replace (8 * Z.of_nat (S m))%Z with (8 + 8 * Z.of_nat m)%Z in Hb by lia.
        rewrite Z.pow_add_r in Hb by lia. exact Hb.
  Qed.

  Lemma lprod0 acc t s m : (0 <= t < 2 ^ (8 * Z.of_nat m))%Z -> (0 <= s)%Z ->
    lprod acc t 0 s m = acc * fpow G (t * 2 ^ s).
  Proof.
    intros Ht Hs. rewrite lprod_spec; try lia.
    - change (2 ^ 0)%Z with 1%Z. rewrite Z.div_1_r. reflexivity.
    - change (2 ^ 0)%Z with 1%Z. rewrite Z.div_1_r. lia.
  Qed.

  (* one lookup step: the previous invariant  x^(2^e) * G^(t 2^(s+e)) = 1  yields a table hit q and
     the next invariant  x * G^((t + q 2^r) 2^s) = 1,  r = 39 - s *)
  Lemma step x t s e r m : (0 <= t < 2 ^ (8 * Z.of_nat m))%Z -> (0 <= s)%Z -> (0 <= e <= 8)%Z ->
    (0 <= r)%Z -> (s + r = 39)%Z ->
    fpow x (2 ^ e) * fpow G (t * 2 ^ (s + e)) = 1 ->
    exists q, s_lookup T (lprod x t 0 s m) = Some q /\ (0 <= q < 256)%Z /\
              x * fpow G ((t + Z.shiftl q r) * 2 ^ s) = 1.
  Proof.
    intros Ht Hs He Hr Hsr Hinv. rewrite lprod0 by assumption.
    pose proof (pow2_pos s Hs) as Hps. pose proof (pow2_pos e ltac:(lia)) as Hpe.
    set (alpha := x * fpow G (t * 2 ^ s)).
    assert (Ha : fpow alpha (2 ^ e) = 1).
    { unfold alpha. rewrite fpow_mul_base, <- fpow_mul by nia.
      rewrite <- Z.mul_assoc, <- Z.pow_add_r by lia. exact Hinv. }
    assert (Ha256 : fpow alpha 256 = 1).
    { replace 256%Z with (2 ^ e * 2 ^ (8 - e))%Z by (rewrite <- Z.pow_add_r by lia; replace (e + (8 - e))%Z with 8%Z by lia; reflexivity).
      rewrite fpow_mul by (try lia; apply Z.lt_le_incl, pow2_pos; lia).
      rewrite Ha. apply fpow_1_l. }
    destruct (s_lookup_spec alpha Ha256) as (q & E & Hqr & Hqa).
    exists q. split; [exact E|]. split; [exact Hqr|].
    rewrite Z.shiftl_mul_pow2 by exact Hr.
    replace ((t + q * 2 ^ r) * 2 ^ s)%Z with (t * 2 ^ s + q * 2 ^ 39)%Z.
    - rewrite fpow_add by nia. rewrite <- Hqa. unfold alpha. ring.
    - rewrite <- Hsr, (Z.add_comm s r), Z.pow_add_r by lia. ring.
  Qed.

  (* the literal table products of the Rust code are instances of lprod *)
  Lemma a1 x t : x * tab (g32 T) (byte t 0) = lprod x t 0 32 1.
  Proof. cbn [lprod]. rewrite tab_g32 by lia. reflexivity. Qed.
  Lemma a2 x t : x * tab (g24 T) (byte t 0) * tab (g32 T) (byte t 8) = lprod x t 0 24 2.
  Proof. cbn [lprod]. rewrite tab_g24, tab_g32 by lia. reflexivity. Qed.
  Lemma a3 x t : x * tab (g16 T) (byte t 0) * tab (g24 T) (byte t 8) * tab (g32 T) (byte t 16)
                 = lprod x t 0 16 3.
  Proof. cbn [lprod]. rewrite tab_g16, tab_g24, tab_g32 by lia. reflexivity. Qed.
  Lemma a4 x t : x * tab (g8 T) (byte t 0) * tab (g16 T) (byte t 8) * tab (g24 T) (byte t 16)
                 * tab (g32 T) (byte t 24) = lprod x t 0 8 4.
  Proof. cbn [lprod]. rewrite tab_g8, tab_g16, tab_g24, tab_g32 by lia. reflexivity. Qed.
  Lemma a5 x t : x * tab (g0 T) (byte t 0) * tab (g8 T) (byte t 8) * tab (g16 T) (byte t 16)
                 * tab (g24 T) (byte t 24) * tab (g32 T) (byte t 32) = lprod x t 0 0 5.
  Proof. cbn [lprod]. rewrite tab_g0, tab_g8, tab_g16, tab_g24, tab_g32 by lia. reflexivity. Qed.
  Lemma a6 x t : x * tab (g0 T) (byte t 0) * tab (g8 T) (byte t 8) * tab (g16 T) (byte t 16)
                 * tab (g24 T) (byte t 24) * tab (g32 T) (byte t 32) * tab (g40 T) (byte t 40)
                 = lprod x t 0 0 6.
  Proof. cbn [lprod]. rewrite tab_g0, tab_g8, tab_g16, tab_g24, tab_g32, tab_g40 by lia. reflexivity. Qed.

  (* 1. the prologue *)
  Lemma prologue num den s t w uv x5 : num <> 0 -> den <> 0 ->
    s = fpow den (2 ^ 47 - 1) -> t = s * s * den -> w = fpow (num * t) h * s ->
    uv = w * num -> x5 = uv * (w * den) ->
    uv * uv * den = x5 * num /\ fpow x5 (2 ^ 47) = 1.
  Proof.
    intros Hn Hd Es Et Ew Euv Ex5. destruct M_split as [HMs Hh].
    split; [rewrite Ex5, Euv; ring|].
    assert (Esd : s * den = fpow den (2 ^ 47)).
    { rewrite Es. replace (2 ^ 47)%Z with (2 ^ 47 - 1 + 1)%Z at 2 by lia.
      rewrite fpow_add, fpow_1_r by lia. reflexivity. }
    assert (E1 : x5 = fpow (num * t) M).
    { replace (fpow (num * t) M) with (fpow (num * t) (h + h + 1)) by (rewrite <- HMs; reflexivity).
      rewrite !fpow_add, fpow_1_r by lia. rewrite Ex5, Euv, Ew, Et. ring. }
    assert (Esd1 : fpow (fpow den (2 ^ 47)) M = 1).
    { rewrite <- fpow_mul by lia. rewrite <- Hq. apply fermat. exact Hd. }
    assert (E2 : x5 * fpow den M = fpow num M).
    { rewrite E1, <- fpow_mul_base.
      replace (num * t * den) with (num * (fpow den (2 ^ 47) * fpow den (2 ^ 47)))
        by (rewrite <- Esd, Et; ring).
      rewrite !fpow_mul_base, Esd1. ring. }
    assert (E3 : fpow (x5 * fpow den M) (2 ^ 47) = fpow (fpow num M) (2 ^ 47)) by (rewrite E2; reflexivity).
    rewrite fpow_mul_base, <- !fpow_mul in E3 by lia.
    rewrite (Z.mul_comm M), <- Hq, !fermat in E3 by assumption.
    rewrite <- E3. ring.
  Qed.

  Lemma zeta_rel : z1 * z1 * G = zeta.
  Proof.
    destruct M_split as [HMs Hh].
    replace G with (fpow zeta (h + h + 1)) by (rewrite <- HMs; reflexivity).
    rewrite !fpow_add, fpow_1_r by lia.
    transitivity ((z1 * fpow zeta h) * (z1 * fpow zeta h) * zeta); [ring | rewrite Hz1; ring].
  Qed.

  Ltac shl := rewrite ?Z.shiftl_mul_pow2 by lia.

  (* 5. the whole routine on nonzero inputs *)
  Lemma ark_nz num den : num <> 0 -> den <> 0 ->
    exists b y, ark_sqrt_ratio T h 47 num den = Some (b, y) /\
      ((b = true /\ y * y * den = num) \/ (b = false /\ y * y * den = zeta * num)).
  Proof.
    intros Hn Hd. unfold ark_sqrt_ratio.
    destruct (feqb_spec num 0) as [?|_]; [contradiction|].
    destruct (feqb_spec den 0) as [?|_]; [contradiction|].
    cbv zeta.
    set (s := fpow den (2 ^ 47 - 1)). set (t := s * s * den). set (w := fpow (num * t) h * s).
    set (uv := w * num). set (x5 := uv * (w * den)).
    destruct (prologue num den s t w uv x5 Hn Hd eq_refl eq_refl eq_refl eq_refl eq_refl) as [Euv Ex5].
    clearbody x5 uv. clear s t w.
    set (x4 := fpow x5 256). set (x3 := fpow x4 256). set (x2 := fpow x3 256).
    set (x1 := fpow x2 256). set (x0 := fpow x1 128).
    (* i = 0 *)
    assert (H0 : fpow x0 256 = 1).
    { unfold x0, x1, x2, x3, x4. rewrite <- !fpow_mul by lia. exact Ex5. }
    destruct (s_lookup_spec x0 H0) as (q0 & E0 & R0 & I0).
    rewrite E0; cbn [bind].
    (* i = 1 *)
    rewrite (a1 x1 q0).
    destruct (step x1 q0 32 7 7 1 ltac:(change (2 ^ (8 * Z.of_nat 1))%Z with 256%Z; lia)
                ltac:(lia) ltac:(lia) ltac:(lia) ltac:(lia) I0) as (q1 & E1 & R1 & I1).
    rewrite E1; cbn [bind].
    set (t1 := (q0 + Z.shiftl q1 7)%Z) in *.
    assert (B1 : (0 <= t1 < 2 ^ (8 * Z.of_nat 2))%Z).
    { change (2 ^ (8 * Z.of_nat 2))%Z with 65536%Z. unfold t1. shl. lia. }
    (* i = 2 *)
    rewrite (a2 x2 t1).
    destruct (step x2 t1 24 8 15 2 B1 ltac:(lia) ltac:(lia) ltac:(lia) ltac:(lia) I1) as (q2 & E2 & R2 & I2).
    rewrite E2; cbn [bind].
    set (t2 := (t1 + Z.shiftl q2 15)%Z) in *.
    assert (B2 : (0 <= t2 < 2 ^ (8 * Z.of_nat 3))%Z).
    { change (2 ^ (8 * Z.of_nat 3))%Z with 16777216%Z. change (2 ^ (8 * Z.of_nat 2))%Z with 65536%Z in B1.
      unfold t2. shl. lia. }
    (* i = 3 *)
    rewrite (a3 x3 t2).
    destruct (step x3 t2 16 8 23 3 B2 ltac:(lia) ltac:(lia) ltac:(lia) ltac:(lia) I2) as (q3 & E3 & R3 & I3).
    rewrite E3; cbn [bind].
    set (t3 := (t2 + Z.shiftl q3 23)%Z) in *.
    assert (B3 : (0 <= t3 < 2 ^ (8 * Z.of_nat 4))%Z).
    { change (2 ^ (8 * Z.of_nat 4))%Z with 4294967296%Z. change (2 ^ (8 * Z.of_nat 3))%Z with 16777216%Z in B2.
      unfold t3. shl. lia. }
    (* i = 4 *)
    rewrite (a4 x4 t3).
    destruct (step x4 t3 8 8 31 4 B3 ltac:(lia) ltac:(lia) ltac:(lia) ltac:(lia) I3) as (q4 & E4 & R4 & I4).
    rewrite E4; cbn [bind].
    set (t4 := (t3 + Z.shiftl q4 31)%Z) in *.
    assert (B4 : (0 <= t4 < 2 ^ (8 * Z.of_nat 5))%Z).
    { change (2 ^ (8 * Z.of_nat 5))%Z with 1099511627776%Z. change (2 ^ (8 * Z.of_nat 4))%Z with 4294967296%Z in B3.
      unfold t4. shl. lia. }
    (* i = 5 *)
    rewrite (a5 x5 t4).
    destruct (step x5 t4 0 8 39 5 B4 ltac:(lia) ltac:(lia) ltac:(lia) ltac:(lia) I4) as (q5 & E5 & R5 & I5).
    rewrite E5; cbn [bind].
    set (t5 := (t4 + Z.shiftl q5 39)%Z) in *.
    change (2 ^ 0)%Z with 1%Z in I5. rewrite Z.mul_1_r in I5.
    assert (B5 : (0 <= t5 < 2 ^ 48)%Z).
    { change (2 ^ (8 * Z.of_nat 5))%Z with 1099511627776%Z in B4. unfold t5. shl. lia. }
    assert (Par : (t5 mod 2 = q0 mod 2)%Z).
    { unfold t5, t4, t3, t2, t1. shl.
      replace (q0 + q1 * 2 ^ 7 + q2 * 2 ^ 15 + q3 * 2 ^ 23 + q4 * 2 ^ 31 + q5 * 2 ^ 39)%Z
        with (q0 + (q1 * 2 ^ 6 + q2 * 2 ^ 14 + q3 * 2 ^ 22 + q4 * 2 ^ 30 + q5 * 2 ^ 38) * 2)%Z by lia.
      apply Z.mod_add. lia. }
    clearbody t5. clear I0 I1 I2 I3 I4 E0 E1 E2 E3 E4 E5 B1 B2 B3 B4 H0.
    (* epilogue *)
    set (tf := Z.shiftr (t5 + 1) 1).
    assert (Etf : tf = ((t5 + 1) / 2)%Z) by (unfold tf; rewrite Z.shiftr_div_pow2 by lia; reflexivity).
    clearbody tf.
    rewrite (a6 _ tf).
    rewrite lprod0 by (change (2 ^ (8 * Z.of_nat 6))%Z with (2 ^ 48)%Z; try lia; rewrite Etf; Z.div_mod_to_equations; lia).
    change (2 ^ 0)%Z with 1%Z. rewrite Z.mul_1_r.
    rewrite land1. do 2 eexists. split; [reflexivity|].
    assert (Htf : (0 <= tf)%Z) by (rewrite Etf; Z.div_mod_to_equations; lia).
    set (g := fpow G tf).
    assert (Hpar : (q0 mod 2 = 0 \/ q0 mod 2 = 1)%Z) by (Z.div_mod_to_equations; lia).
    destruct Hpar as [P|P]; rewrite P; [left|right]; (split; [reflexivity|]).
    - assert (Eg : g * g = fpow G t5).
      { unfold g. rewrite <- fpow_sq by exact Htf. f_equal. rewrite Etf. Z.div_mod_to_equations. lia. }
      change (tab (nonsq T) 0) with 1.
      transitivity (uv * uv * den * (g * g)); [ring|].
      rewrite Euv, Eg. transitivity (x5 * fpow G t5 * num); [ring | rewrite I5; ring].
    - assert (Eg : g * g = fpow G t5 * G).
      { unfold g. rewrite <- fpow_sq by exact Htf.
        replace (2 * tf)%Z with (t5 + 1)%Z by (rewrite Etf; Z.div_mod_to_equations; lia).
        rewrite fpow_add, fpow_1_r by lia. reflexivity. }
      change (tab (nonsq T) 1) with z1.
      transitivity (uv * uv * den * (z1 * z1) * (g * g)); [ring|].
      rewrite Euv, Eg. transitivity (x5 * fpow G t5 * (z1 * z1 * G) * num); [ring|].
      rewrite I5, zeta_rel. ring.
  Qed.

  (* (a) totality: no HashMap lookup ever fails *)
  Theorem ark_sqrt_ratio_total : forall num den, exists r, ark_sqrt_ratio T h 47 num den = Some r.
  Proof.
    intros num den. destruct (F_dec num 0) as [Hn|Hn].
    - exists (true, num). unfold ark_sqrt_ratio. rewrite Hn, feqb_refl. reflexivity.
    - destruct (F_dec den 0) as [Hd|Hd].
      + exists (false, den). unfold ark_sqrt_ratio.
        destruct (feqb_spec num 0) as [?|_]; [contradiction|]. rewrite Hd, feqb_refl. reflexivity.
      + destruct (ark_nz num den Hn Hd) as (b & y & E & _). exists (b, y). exact E.
  Qed.

  (* (b) the four-case contract *)
  Definition ark_sr (num den : F) : bool * F :=
    match ark_sqrt_ratio T h 47 num den with Some r => r | None => (false, 0) end.

  Theorem ark_sqrt_ratio_contract : sqrt_ratio_contract zeta ark_sr.
  Proof.
    unfold sqrt_ratio_contract, ark_sr. split; [|split; [|split]].
    - intro den. unfold ark_sqrt_ratio. rewrite feqb_refl. reflexivity.
    - intros num Hn. unfold ark_sqrt_ratio.
      destruct (feqb_spec num 0) as [?|_]; [contradiction|]. rewrite feqb_refl. reflexivity.
    - intros num den Hn Hd. destruct (ark_nz num den Hn Hd) as (b & y & E & H). rewrite E. exact H.
    - intros num den Hn Hd. destruct (ark_nz num den Hn Hd) as (b & y & E & H). rewrite E. cbn [fst].
      destruct H as [[Eb Hy]|[Eb Hy]]; rewrite Eb; split.
      + intros _. exists y. rewrite <- Hy. field. exact Hd.
      + reflexivity.
      + discriminate.
      + intros [w Hw]. exfalso.
        assert (Hw0 : w <> 0).
        { intro Hw0. apply Hn. transitivity (num / den * den); [field; exact Hd|].
          rewrite <- Hw, Hw0. ring. }
        apply (zeta_ns (y * inv w)).
        assert (En : num = w * w * den) by (rewrite Hw; field; exact Hd).
        assert (Ez : zeta * (w * w) * den = y * y * den) by (rewrite Hy, En; ring).
        assert (Ez' : zeta * (w * w) = y * y).
        { transitivity (zeta * (w * w) * den * inv den); [field; exact Hd|].
          rewrite Ez. field. exact Hd. }
        transitivity (y * y * inv (w * w)); [field; exact Hw0|].
        rewrite <- Ez'. field. exact Hw0.
  Qed.
End Sarkar.

(* Convenience form for instantiation: G given as a constant with G = zeta^M. *)
Corollary ark_sqrt_ratio_C09 {AF : AField} (M qm1 : Z) (zeta z1 G : F) :
  (0 < M)%Z -> Z.odd M = true -> qm1 = (2 ^ 47 * M)%Z ->
  (forall x : F, x <> zero -> fpow x qm1 = one) ->
  fpow zeta (qm1 / 2) = opp one -> one <> opp one ->
  mul z1 (fpow zeta ((M - 1) / 2)) = one ->
  G = fpow zeta M ->
  (forall num den, exists r, ark_sqrt_ratio (mk_tables G z1 47 8) ((M - 1) / 2) 47 num den = Some r) /\
  sqrt_ratio_contract zeta
    (fun num den => match ark_sqrt_ratio (mk_tables G z1 47 8) ((M - 1) / 2) 47 num den with
                    | Some r => r | None => (false, zero) end).
Proof.
  intros HM HMo Hq Hf Hz H1 Hz1 HG. subst G. split.
  - exact (ark_sqrt_ratio_total M qm1 HM HMo Hq Hf zeta Hz H1 z1 Hz1).
  - exact (ark_sqrt_ratio_contract M qm1 HM HMo Hq Hf zeta Hz H1 z1 Hz1).
Qed.

Print Assumptions sylow.
Print Assumptions s_lookup_spec.
Print Assumptions prologue.
Print Assumptions ark_sqrt_ratio_total.
Print Assumptions ark_sqrt_ratio_contract.
Check @ark_sqrt_ratio_total.
Check @ark_sqrt_ratio_contract.
Print Assumptions ark_sqrt_ratio_C09.
