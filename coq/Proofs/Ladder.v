(* C05: scalar multiplication is the module action.
     mul_bigint      ark-ec TECurveConfig::mul_projective (MSB first, leading zeros dropped, double-and-add)
     mul_affine      the same loop with mixed addition (TECurveConfig::mul_affine)
     scalar_mul_lsb  min_curve scalar_mul_both (LSB first, conditional add, running double)
   All three compute  [n] P  for the integer n denoted by a little-endian u64 limb list of ARBITRARY length,
   where [n] is the n-fold sum of the affine Edwards law (Spec.Edwards.ed_nsmul).  The module laws, the
   multi-scalar fold and compatibility with the decaf coset relation follow.

   The three definitions are re-stated over an abstract field; they are syntactically Model/OpTable.v's
   ark_mul_bigint / ark_mul_affine / min_scalar_mul with the constants ark_D / min_K abstracted. *)
Require Import ZArith List Bool Lia.
From D377 Require Import Base.FieldSec Model.Decaf Model.Sqrt Spec.Edwards
                         Proofs.EdwardsLaw Proofs.Projective Proofs.SqrtTS.
Import ListNotations.

(* ------------------------------------------------------------------ bit lists *)
Fixpoint drop_false (l : list bool) : list bool :=
  match l with false :: r => drop_false r | _ => l end.
Definition bits_be_nlz (limbs : list Z) : list bool := drop_false (rev (limbs_bits limbs)).

(* the integer denoted by a limb list, as a natural number *)
Definition nval (l : list Z) : nat := Z.to_nat (limbs_value l).

Definition b2n (b : bool) : nat := if b then 1%nat else 0%nat.
(* MSB-first (Horner) value starting from v, and LSB-first value *)
Definition be_nat (l : list bool) (v : nat) : nat := fold_left (fun v b => (2 * v + b2n b)%nat) l v.
Fixpoint le_nat (l : list bool) : nat := match l with [] => 0%nat | b :: r => (b2n b + 2 * le_nat r)%nat end.

Lemma be_nat_app l1 l2 v : be_nat (l1 ++ l2) v = be_nat l2 (be_nat l1 v).
Proof. unfold be_nat. apply fold_left_app. Qed.

Lemma be_nat_drop_false l : be_nat (drop_false l) 0 = be_nat l 0.
Proof.
  induction l as [|b r IH]; [reflexivity|].
  destruct b; [reflexivity|]. cbn [drop_false]. rewrite IH. reflexivity.
Qed.

Lemma be_nat_rev l : be_nat (rev l) 0 = le_nat l.
Proof.
  induction l as [|b r IH]; [reflexivity|].
  cbn [rev le_nat]. rewrite be_nat_app, IH. unfold be_nat; cbn [fold_left]. lia.
Qed.

Lemma le_nat_bits_value l : Z.of_nat (le_nat l) = bits_value l.
Proof.
  induction l as [|b r IH]; [reflexivity|].
  cbn [le_nat bits_value]. rewrite <- IH. destruct b; cbn [b2n Z.b2z]; lia.
Qed.

Lemma le_nat_limbs l : limbs_ok l -> le_nat (limbs_bits l) = nval l.
Proof.
  intro H. unfold nval. rewrite <- (limbs_bits_value l H), <- le_nat_bits_value.
  symmetry. apply Nat2Z.id.
Qed.

Lemma be_nat_nlz l : limbs_ok l -> be_nat (bits_be_nlz l) 0 = nval l.
Proof.
  intro H. unfold bits_be_nlz. rewrite be_nat_drop_false, be_nat_rev. apply le_nat_limbs. exact H.
Qed.

Lemma nval_add l1 l2 l3 : limbs_ok l1 -> limbs_ok l2 ->
  limbs_value l3 = (limbs_value l1 + limbs_value l2)%Z -> nval l3 = (nval l1 + nval l2)%nat.
Proof.
  intros H1 H2 E. unfold nval. rewrite E.
  apply Z2Nat.inj_add; apply limbs_value_nonneg; assumption.
Qed.

Lemma nval_mul l1 l2 l3 : limbs_ok l1 -> limbs_ok l2 ->
  limbs_value l3 = (limbs_value l1 * limbs_value l2)%Z -> nval l3 = (nval l1 * nval l2)%nat.
Proof.
  intros H1 H2 E. unfold nval. rewrite E.
  apply Z2Nat.inj_mul; apply limbs_value_nonneg; assumption.
Qed.

Lemma Forall_combine {A B} (P : A -> Prop) (Q : B -> Prop) (la : list A) : forall lb : list B,
  Forall P la -> Forall Q lb -> Forall (fun ab => P (fst ab) /\ Q (snd ab)) (combine la lb).
Proof.
  induction la as [|x la IH]; intros lb Ha Hb; cbn [combine]; [constructor|].
  destruct lb as [|y lb]; [constructor|].
  inversion Ha as [|? ? Hx Ha']; subst. inversion Hb as [|? ? Hy Hb']; subst.
  constructor; [split; assumption | apply IH; assumption].
Qed.

(* ------------------------------------------------------------------ the ladders *)
Section Ladder.
  Context {AF : AField}.
  Variable d : F.
  Local Notation a := (opp one).
  Hypothesis d_ns : forall w, mul w w <> d.
  Hypothesis m1_sq : exists i, mul i i = opp one.
  Hypothesis two_nz : add one one <> zero.

  Local Notation wf := (wf a d).
  Local Notation on_curve := (on_curve a d).
  Local Notation ed_add := (ed_add a d).
  Local Notation ed_nsmul := (ed_nsmul a d).

  (* ark-ec mul_projective: res = 0; for b in bits (MSB first) { res.double_in_place(); if b { res += base } } *)
  Definition mul_bigint (p : pt) (limbs : list Z) : pt :=
    fold_left (fun res (b : bool) => let res := ark_double res in if b then ark_add d res p else res)
              (bits_be_nlz limbs) identity.
  Definition mul_affine (p : apt) (limbs : list Z) : pt :=
    fold_left (fun res (b : bool) => let res := ark_double res in if b then ark_madd d res p else res)
              (bits_be_nlz limbs) identity.
  (* min_curve scalar_mul_both (LSB first, conditional add, double the running base) *)
  Definition scalar_mul_lsb (k : F) (p : pt) (limbs : list Z) : pt :=
    fst (fold_left (fun (st : pt * pt) (b : bool) =>
                      let '(acc, ins) := st in ((if b then min_add k acc ins else acc), min_double ins))
                   (limbs_bits limbs) (identity, p)).

  (* ---------- affine facts in the shape used below ---------- *)
  Let oc_add p q : on_curve p -> on_curve q -> on_curve (ed_add p q) :=
    ed_add_on_curve a d m1_sq d_ns two_nz p q.
  Let oc_ns n p : on_curve p -> on_curve (ed_nsmul n p) :=
    ed_nsmul_on_curve a d m1_sq d_ns two_nz n p.
  Let ns_add n m p : on_curve p -> ed_nsmul (n + m) p = ed_add (ed_nsmul n p) (ed_nsmul m p) :=
    ed_nsmul_add a d m1_sq d_ns two_nz n m p.
  Let ns_mul n m p : on_curve p -> ed_nsmul (n * m) p = ed_nsmul n (ed_nsmul m p) :=
    ed_nsmul_mul a d m1_sq d_ns two_nz n m p.

  Lemma ed_nsmul_double n P : on_curve P ->
    ed_add (ed_nsmul n P) (ed_nsmul n P) = ed_nsmul (2 * n) P.
  Proof. intro HP. replace (2 * n)%nat with (n + n)%nat by lia. symmetry. apply ns_add. exact HP. Qed.

  Lemma ed_nsmul_double_succ n P : on_curve P ->
    ed_add (ed_add (ed_nsmul n P) (ed_nsmul n P)) P = ed_nsmul (2 * n + 1) P.
  Proof.
    intro HP. rewrite (ns_add (2 * n) 1 P HP), ed_nsmul_1, ed_nsmul_double by exact HP. reflexivity.
  Qed.

  (* ---------- 1. MSB-first double-and-add ---------- *)
  (* one lemma for both loops: the addition step is abstract *)
  Lemma msb_loop (addp : pt -> pt) (P : apt) :
    on_curve P ->
    (forall r, wf r -> wf (addp r) /\ aff (addp r) = ed_add (aff r) P) ->
    forall bits res n, wf res -> aff res = ed_nsmul n P ->
      let out := fold_left (fun res (b : bool) => let res := ark_double res in if b then addp res else res) bits res in
      wf out /\ aff out = ed_nsmul (be_nat bits n) P.
  Proof.
    intros HP Hadd. induction bits as [|b r IH]; intros res n Wres Ares.
    - cbn [fold_left be_nat]. unfold be_nat; cbn [fold_left]. split; assumption.
    - cbn zeta. cbn [fold_left].
      destruct (ark_double_correct d d_ns m1_sq two_nz res Wres) as [Wd Ad].
      rewrite Ares, (ed_nsmul_double n P HP) in Ad.
      unfold be_nat; cbn [fold_left]. fold (be_nat r (2 * n + b2n b)).
      destruct b; cbn [b2n].
      + destruct (Hadd (ark_double res) Wd) as [Wa Aa].
        apply (IH _ (2 * n + 1)%nat Wa).
        rewrite Aa, Ad, <- (ed_nsmul_double n P HP). apply ed_nsmul_double_succ. exact HP.
      + apply (IH _ (2 * n + 0)%nat Wd). rewrite Ad. f_equal. lia.
  Qed.

  Theorem mul_bigint_correct p l : wf p -> limbs_ok l ->
    wf (mul_bigint p l) /\ aff (mul_bigint p l) = ed_nsmul (nval l) (aff p).
  Proof.
    intros Wp Hl. destruct (identity_correct d) as [Wi Ai].
    pose proof (msb_loop (fun r => ark_add d r p) (aff p) (wf_on_curve d p Wp)
                  (fun r Wr => ark_add_correct d d_ns m1_sq two_nz r p Wr Wp)
                  (bits_be_nlz l) identity 0%nat Wi Ai) as H.
    cbn zeta in H. rewrite (be_nat_nlz l Hl) in H. exact H.
  Qed.

  (* ---------- 2. the same loop with mixed addition ---------- *)
  Theorem mul_affine_correct P l : on_curve P -> limbs_ok l ->
    wf (mul_affine P l) /\ aff (mul_affine P l) = ed_nsmul (nval l) P.
  Proof.
    intros HP Hl. destruct (identity_correct d) as [Wi Ai].
    pose proof (msb_loop (fun r => ark_madd d r P) P HP
                  (fun r Wr => ark_madd_correct d d_ns m1_sq two_nz r P Wr HP)
                  (bits_be_nlz l) identity 0%nat Wi Ai) as H.
    cbn zeta in H. rewrite (be_nat_nlz l Hl) in H. exact H.
  Qed.

  Corollary mul_affine_as_bigint P l : on_curve P -> limbs_ok l ->
    aff (mul_affine P l) = aff (mul_bigint (of_affine P) l).
  Proof.
    intros HP Hl. destruct (of_affine_correct d P HP) as [Wo Ao].
    rewrite (proj2 (mul_affine_correct P l HP Hl)), (proj2 (mul_bigint_correct _ l Wo Hl)), Ao. reflexivity.
  Qed.

  (* ---------- 3. LSB-first add-and-double ---------- *)
  Lemma lsb_loop (k : F) (P : apt) : k = mul two d -> on_curve P ->
    forall bits acc ins n m, wf acc -> wf ins -> aff acc = ed_nsmul n P -> aff ins = ed_nsmul m P ->
      let out := fst (fold_left (fun (st : pt * pt) (b : bool) =>
                        let '(acc, ins) := st in ((if b then min_add k acc ins else acc), min_double ins))
                        bits (acc, ins)) in
      wf out /\ aff out = ed_nsmul (n + m * le_nat bits) P.
  Proof.
    intros Hk HP. induction bits as [|b r IH]; intros acc ins n m Wacc Wins Aacc Ains.
    - cbn zeta. cbn [fold_left fst le_nat]. split; [exact Wacc|]. rewrite Aacc. f_equal. lia.
    - cbn zeta. cbn [fold_left le_nat].
      destruct (min_double_correct d d_ns m1_sq two_nz ins Wins) as [Wd Ad].
      rewrite Ains, (ed_nsmul_double m P HP) in Ad.
      destruct b; cbn [b2n].
      + destruct (min_add_correct d d_ns m1_sq two_nz k acc ins Hk Wacc Wins) as [Wa Aa].
        rewrite Aacc, Ains, <- (ns_add n m P HP) in Aa.
        pose proof (IH _ _ _ _ Wa Wd Aa Ad) as H. cbn zeta in H.
        replace (n + m * (1 + 2 * le_nat r))%nat with (n + m + 2 * m * le_nat r)%nat by lia. exact H.
      + pose proof (IH _ _ _ _ Wacc Wd Aacc Ad) as H. cbn zeta in H.
        replace (n + m * (0 + 2 * le_nat r))%nat with (n + 2 * m * le_nat r)%nat by lia. exact H.
  Qed.

  Theorem scalar_mul_lsb_correct k p l : k = mul two d -> wf p -> limbs_ok l ->
    wf (scalar_mul_lsb k p l) /\ aff (scalar_mul_lsb k p l) = ed_nsmul (nval l) (aff p).
  Proof.
    intros Hk Wp Hl. destruct (identity_correct d) as [Wi Ai].
    assert (A1 : aff p = ed_nsmul 1 (aff p)) by (symmetry; apply ed_nsmul_1).
    pose proof (lsb_loop k (aff p) Hk (wf_on_curve d p Wp) (limbs_bits l) identity p 0%nat 1%nat Wi Wp Ai A1) as H.
    cbn zeta in H. rewrite (le_nat_limbs l Hl) in H.
    replace (0 + 1 * nval l)%nat with (nval l) in H by lia. exact H.
  Qed.

  (* the two backends agree *)
  Corollary scalar_mul_lsb_as_bigint k p l : k = mul two d -> wf p -> limbs_ok l ->
    aff (scalar_mul_lsb k p l) = aff (mul_bigint p l).
  Proof.
    intros Hk Wp Hl.
    rewrite (proj2 (scalar_mul_lsb_correct k p l Hk Wp Hl)), (proj2 (mul_bigint_correct p l Wp Hl)). reflexivity.
  Qed.

  (* ---------- 4. module laws ---------- *)
  Theorem mul_bigint_add p l1 l2 l3 : wf p -> limbs_ok l1 -> limbs_ok l2 -> limbs_ok l3 ->
    limbs_value l3 = (limbs_value l1 + limbs_value l2)%Z ->
    aff (mul_bigint p l3) = ed_add (aff (mul_bigint p l1)) (aff (mul_bigint p l2)).
  Proof.
    intros Wp H1 H2 H3 E.
    rewrite (proj2 (mul_bigint_correct p l1 Wp H1)), (proj2 (mul_bigint_correct p l2 Wp H2)),
            (proj2 (mul_bigint_correct p l3 Wp H3)), (nval_add l1 l2 l3 H1 H2 E).
    apply ns_add. apply wf_on_curve. exact Wp.
  Qed.

  Theorem mul_bigint_mul p l1 l2 l3 : wf p -> limbs_ok l1 -> limbs_ok l2 -> limbs_ok l3 ->
    limbs_value l3 = (limbs_value l1 * limbs_value l2)%Z ->
    aff (mul_bigint p l3) = aff (mul_bigint (mul_bigint p l2) l1).
  Proof.
    intros Wp H1 H2 H3 E.
    destruct (mul_bigint_correct p l2 Wp H2) as [W2 A2].
    rewrite (proj2 (mul_bigint_correct _ l1 W2 H1)), A2,
            (proj2 (mul_bigint_correct p l3 Wp H3)), (nval_mul l1 l2 l3 H1 H2 E).
    apply ns_mul. apply wf_on_curve. exact Wp.
  Qed.

  (* distributivity over the group law in the point argument *)
  Theorem mul_bigint_add_point p q l : wf p -> wf q -> limbs_ok l ->
    aff (mul_bigint (ark_add d p q) l) = ed_add (aff (mul_bigint p l)) (aff (mul_bigint q l)).
  Proof.
    intros Wp Wq Hl. destruct (ark_add_correct d d_ns m1_sq two_nz p q Wp Wq) as [Ws As].
    rewrite (proj2 (mul_bigint_correct _ l Ws Hl)), As,
            (proj2 (mul_bigint_correct p l Wp Hl)), (proj2 (mul_bigint_correct q l Wq Hl)).
    apply (ed_nsmul_add_distr a d m1_sq d_ns two_nz); apply wf_on_curve; assumption.
  Qed.

  Lemma mul_bigint_nil p : mul_bigint p [] = identity.
  Proof. reflexivity. Qed.

  Lemma bits_be_nlz_0 : bits_be_nlz [0%Z] = [].
  Proof. vm_compute. reflexivity. Qed.

  Lemma mul_bigint_0_eq p : mul_bigint p [0%Z] = identity.
  Proof. unfold mul_bigint. rewrite bits_be_nlz_0. reflexivity. Qed.

  Lemma limbs_ok_1 x : (0 <= x < 2 ^ 64)%Z -> limbs_ok [x].
  Proof. intro H. constructor; [exact H | constructor]. Qed.

  Theorem mul_bigint_0 p : wf p -> aff (mul_bigint p [0%Z]) = ed_zero.
  Proof.
    intro Wp. assert (H : limbs_ok [0%Z]) by (apply limbs_ok_1; cbv; split; congruence).
    rewrite (proj2 (mul_bigint_correct p _ Wp H)). reflexivity.
  Qed.

  Theorem mul_bigint_1 p : wf p -> aff (mul_bigint p [1%Z]) = aff p.
  Proof.
    intro Wp. assert (H : limbs_ok [1%Z]) by (apply limbs_ok_1; cbv; split; congruence).
    rewrite (proj2 (mul_bigint_correct p _ Wp H)).
    change (nval [1%Z]) with 1%nat. apply ed_nsmul_1.
  Qed.

  (* only the denoted integer matters (e.g. padding with zero limbs) *)
  Theorem mul_bigint_value_ext p l1 l2 : wf p -> limbs_ok l1 -> limbs_ok l2 ->
    limbs_value l1 = limbs_value l2 -> aff (mul_bigint p l1) = aff (mul_bigint p l2).
  Proof.
    intros Wp H1 H2 E.
    rewrite (proj2 (mul_bigint_correct p l1 Wp H1)), (proj2 (mul_bigint_correct p l2 Wp H2)).
    unfold nval. rewrite E. reflexivity.
  Qed.

  (* ---------- 5. multi-scalar multiplication as a fold ---------- *)
  (* generic in the scalar type: [lf] turns a scalar into its limbs (identity for limb lists, fr_limbs for Fr) *)
  Lemma msm_fold_correct {K} (lf : K -> list Z) (kps : list (K * pt)) :
    Forall (fun kp => limbs_ok (lf (fst kp)) /\ wf (snd kp)) kps ->
    forall acc, wf acc ->
      let out := fold_left (fun acc (kp : K * pt) => ark_add d acc (mul_bigint (snd kp) (lf (fst kp)))) kps acc in
      wf out /\
      aff out = fold_left (fun e (kp : K * pt) => ed_add e (ed_nsmul (nval (lf (fst kp))) (aff (snd kp)))) kps (aff acc).
  Proof.
    induction 1 as [|kp kps [Hk Wq] _ IH]; intros acc Wacc.
    - cbn zeta. cbn [fold_left]. split; [exact Wacc | reflexivity].
    - cbn zeta. cbn [fold_left].
      destruct (mul_bigint_correct (snd kp) (lf (fst kp)) Wq Hk) as [Wm Am].
      destruct (ark_add_correct d d_ns m1_sq two_nz acc _ Wacc Wm) as [Ws As].
      pose proof (IH _ Ws) as H. cbn zeta in H. rewrite As, Am in H. exact H.
  Qed.

  Definition msm (ks : list (list Z)) (ps : list pt) : pt :=
    fold_left (fun acc (kp : list Z * pt) => ark_add d acc (mul_bigint (snd kp) (fst kp))) (combine ks ps) identity.

  Theorem msm_correct ks ps : Forall limbs_ok ks -> Forall wf ps ->
    wf (msm ks ps) /\
    aff (msm ks ps) =
      fold_left (fun acc (kp : list Z * pt) => ed_add acc (ed_nsmul (nval (fst kp)) (aff (snd kp))))
                (combine ks ps) ed_zero.
  Proof.
    intros Hks Hps. destruct (identity_correct d) as [Wi Ai].
    pose proof (msm_fold_correct (fun l : list Z => l) (combine ks ps)
                  (Forall_combine limbs_ok wf ks ps Hks Hps) identity Wi) as H.
    cbn zeta in H. rewrite Ai in H. exact H.
  Qed.

  (* ---------- 6. compatibility with the decaf coset relation ---------- *)
  Theorem mul_bigint_coset p p' l : wf p -> wf p' -> limbs_ok l ->
    coset_eq (aff p) (aff p') -> coset_eq (aff (mul_bigint p l)) (aff (mul_bigint p' l)).
  Proof.
    intros Wp Wp' Hl E.
    rewrite (proj2 (mul_bigint_correct p l Wp Hl)), (proj2 (mul_bigint_correct p' l Wp' Hl)).
    apply coset_eq_nsmul. exact E.
  Qed.

  Theorem scalar_mul_lsb_coset k p p' l : k = mul two d -> wf p -> wf p' -> limbs_ok l ->
    coset_eq (aff p) (aff p') -> coset_eq (aff (scalar_mul_lsb k p l)) (aff (scalar_mul_lsb k p' l)).
  Proof.
    intros Hk Wp Wp' Hl E.
    rewrite (proj2 (scalar_mul_lsb_correct k p l Hk Wp Hl)), (proj2 (scalar_mul_lsb_correct k p' l Hk Wp' Hl)).
    apply coset_eq_nsmul. exact E.
  Qed.

  Theorem mul_affine_coset P P' l : on_curve P -> on_curve P' -> limbs_ok l ->
    coset_eq P P' -> coset_eq (aff (mul_affine P l)) (aff (mul_affine P' l)).
  Proof.
    intros HP HP' Hl E.
    rewrite (proj2 (mul_affine_correct P l HP Hl)), (proj2 (mul_affine_correct P' l HP' Hl)).
    apply coset_eq_nsmul. exact E.
  Qed.
End Ladder.

Print Assumptions mul_bigint_correct.
Print Assumptions mul_affine_correct.
Print Assumptions scalar_mul_lsb_correct.
Print Assumptions mul_bigint_add.
Print Assumptions mul_bigint_mul.
Print Assumptions mul_bigint_add_point.
Print Assumptions mul_bigint_0.
Print Assumptions mul_bigint_1.
Print Assumptions msm_correct.
Print Assumptions mul_bigint_coset.
Print Assumptions scalar_mul_lsb_coset.
