(* Projective (extended-coordinate) formulas of the model versus the affine reference law,
   the equality test, and closure of decaf validity.  Self-contained: the completeness and
   closure facts of the affine law that are needed here are proved locally. *)
Require Import ZArith Bool.
From D377 Require Import Base.FieldSec Model.Decaf Spec.Edwards.

Section Projective.
  Context {AF : AField}.
  Add Field Fproj : Ffield.
  Local Notation "0" := zero. Local Notation "1" := one.
  Local Infix "+" := add. Local Infix "*" := mul. Local Infix "-" := sub. Local Infix "/" := div.
  Local Notation "- x" := (opp x).

  Variable d : F.
  Local Notation a := (- (1)).
  Hypothesis d_ns : forall w, w * w <> d.
  Hypothesis m1_sq : exists i, i * i = - (1).
  Hypothesis two_nz : 1 + 1 <> 0.

  (* ------------------------------------------------------------------ *)
  (* field helpers *)
  Lemma one_nz : 1 <> 0. Proof. destruct Ffield; auto. Qed.
  Lemma mul_nz x y : x <> 0 -> y <> 0 -> x * y <> 0.
  Proof. intros Hx Hy E. apply F_id in E. tauto. Qed.
  Lemma mul_nz_l x y : x * y <> 0 -> x <> 0.
  Proof. intros H E. apply H. rewrite E. ring. Qed.
  Lemma mul_nz_r x y : x * y <> 0 -> y <> 0.
  Proof. intros H E. apply H. rewrite E. ring. Qed.
  Lemma opp_nz x : x <> 0 -> - x <> 0.
  Proof. intros H E. apply H. transitivity (- - x); [ring | rewrite E; ring]. Qed.
  Lemma sub_zero_eq x y : x - y = 0 -> x = y.
  Proof. intro E. transitivity ((x - y) + y); [ring | rewrite E; ring]. Qed.
  Lemma sq_eq x y : x * x = y * y -> x = y \/ x = - y.
  Proof.
    intro H. assert (E : (x - y) * (x + y) = 0)
      by (transitivity (x * x - y * y); [ring | rewrite H; ring]).
    apply F_id in E. destruct E as [E|E]; [left|right].
    - apply sub_zero_eq; exact E.
    - transitivity ((x + y) - y); [ring | rewrite E; ring].
  Qed.
  Lemma mul_cancel_r x y c : c <> 0 -> x * c = y * c -> x = y.
  Proof.
    intros Hc H. assert (E : (x - y) * c = 0)
      by (transitivity (x * c - y * c); [ring | rewrite H; ring]).
    apply F_id in E. destruct E as [E|E]; [|tauto]. apply sub_zero_eq; exact E.
  Qed.
  Lemma two_mul_zero x : (1 + 1) * x = 0 -> x = 0.
  Proof. intro E. apply F_id in E. tauto. Qed.
  Lemma div_mul x y : y <> 0 -> (x / y) * y = x.
  Proof. intro Hy. field. exact Hy. Qed.
  Lemma div_eq x y u v : y <> 0 -> v <> 0 -> x * v = u * y -> x / y = u / v.
  Proof.
    intros Hy Hv H. apply (mul_cancel_r _ _ (y * v)); [apply mul_nz; assumption|].
    transitivity (x / y * y * v); [ring|]. rewrite div_mul by exact Hy.
    transitivity (u / v * v * y); [|ring]. rewrite div_mul by exact Hv. exact H.
  Qed.
  Lemma div_one x : x / 1 = x.
  Proof. field. exact one_nz. Qed.
  Lemma div_same x : x <> 0 -> x / x = 1.
  Proof. intro H. field. exact H. Qed.
  Lemma zero_div x : x <> 0 -> 0 / x = 0.
  Proof. intro H. field. exact H. Qed.
  Lemma div_zero_num x y : y <> 0 -> x / y = 0 -> x = 0.
  Proof. intros Hy E. rewrite <- (div_mul x y Hy), E. ring. Qed.

  Lemma d_nz : d <> 0.
  Proof. intro E. apply (d_ns 0). rewrite E. ring. Qed.
  Lemma ns_ratio u v : v <> 0 -> u * u = d * (v * v) -> False.
  Proof.
    intros Hv H. apply (d_ns (u / v)).
    apply (mul_cancel_r _ _ (v * v)); [apply mul_nz; exact Hv|].
    transitivity ((u / v * v) * (u / v * v)); [ring|]. rewrite div_mul by exact Hv. exact H.
  Qed.
  Lemma amd_nz : a - d <> 0.
  Proof.
    intro E. destruct m1_sq as [i Hi]. apply (d_ns i). rewrite Hi.
    apply sub_zero_eq. exact E.
  Qed.

  (* squares *)
  Lemma sq_mul x y : is_square x -> is_square y -> is_square (x * y).
  Proof. intros [u Hu] [v Hv]. exists (u * v). rewrite <- Hu, <- Hv. ring. Qed.
  Lemma sq_sq x : is_square (x * x).
  Proof. exists x. reflexivity. Qed.
  (* u * v = w^2, u a nonzero square  ==>  v a square *)
  Lemma sq_quot u v w : u <> 0 -> is_square u -> u * v = w * w -> is_square v.
  Proof.
    intros Hu [s Hs] H. assert (Hs0 : s <> 0) by (intro E; apply Hu; rewrite <- Hs, E; ring).
    exists (w / s). apply (mul_cancel_r _ _ (s * s)); [apply mul_nz; exact Hs0|].
    transitivity ((w / s * s) * (w / s * s)); [ring|]. rewrite div_mul by exact Hs0.
    rewrite <- H, <- Hs. ring.
  Qed.
  Lemma sq_scale k x : k <> 0 -> (is_square (k * k * x) <-> is_square x).
  Proof.
    intro Hk. split.
    - intros [w Hw]. apply (sq_quot (k * k) x w).
      + apply mul_nz; exact Hk.
      + apply sq_sq.
      + symmetry. exact Hw.
    - intro H. apply sq_mul; [apply sq_sq | exact H].
  Qed.

  (* ------------------------------------------------------------------ *)
  (* affine law: completeness and closure (local copies) *)
  Definition oc (x y : F) : Prop := a * (x * x) + y * y = 1 + d * (x * x) * (y * y).

  Lemma complete_eps x1 y1 x2 y2 e :
    oc x1 y1 -> oc x2 y2 -> e * e = 1 -> d * x1 * y1 * x2 * y2 = e -> False.
  Proof.
    unfold oc. intros H1 H2 He Hd. destruct m1_sq as [i Hi].
    assert (Hp : (i * x1 + e * y1) * (i * x1 + e * y1)
                 = d * ((x1 * y1 * (i * x2 + y2)) * (x1 * y1 * (i * x2 + y2)))).
    { timeout 60 nsatz. }
    assert (Hm : (i * x1 - e * y1) * (i * x1 - e * y1)
                 = d * ((x1 * y1 * (i * x2 - y2)) * (x1 * y1 * (i * x2 - y2)))).
    { timeout 60 nsatz. }
    destruct (F_dec (x1 * y1 * (i * x2 + y2)) 0) as [Zp|Np]; [|exact (ns_ratio _ _ Np Hp)].
    destruct (F_dec (x1 * y1 * (i * x2 - y2)) 0) as [Zm|Nm]; [|exact (ns_ratio _ _ Nm Hm)].
    assert (E : (1 + 1) * (x1 * y1 * y2) = 0).
    { transitivity (x1 * y1 * (i * x2 + y2) - x1 * y1 * (i * x2 - y2)); [ring|].
      rewrite Zp, Zm. ring. }
    apply two_mul_zero in E.
    assert (E0 : e = 0) by (rewrite <- Hd; transitivity (d * x2 * (x1 * y1 * y2)); [ring | rewrite E; ring]).
    apply one_nz. rewrite <- He, E0. ring.
  Qed.

  Lemma complete_plus x1 y1 x2 y2 : oc x1 y1 -> oc x2 y2 -> 1 + d * x1 * y1 * x2 * y2 <> 0.
  Proof.
    intros H1 H2 E. apply (complete_eps x1 y1 x2 y2 (- (1)) H1 H2); [ring|].
    transitivity ((1 + d * x1 * y1 * x2 * y2) - 1); [ring | rewrite E; ring].
  Qed.
  Lemma complete_minus x1 y1 x2 y2 : oc x1 y1 -> oc x2 y2 -> 1 - d * x1 * y1 * x2 * y2 <> 0.
  Proof.
    intros H1 H2 E. apply (complete_eps x1 y1 x2 y2 1 H1 H2); [ring|].
    symmetry. apply sub_zero_eq. exact E.
  Qed.

  (* closure of the affine law *)
  Lemma oc_div n1 n2 d1 d2 : d1 <> 0 -> d2 <> 0 ->
    a * (n1 * n1) * (d2 * d2) + (n2 * n2) * (d1 * d1) = d1 * d1 * (d2 * d2) + d * (n1 * n1) * (n2 * n2) ->
    oc (n1 / d1) (n2 / d2).
  Proof.
    intros H1 H2 H. unfold oc.
    apply (mul_cancel_r _ _ ((d1 * d1) * (d2 * d2))); [repeat apply mul_nz; assumption|].
    transitivity (a * ((n1 / d1 * d1) * (n1 / d1 * d1)) * (d2 * d2)
                  + ((n2 / d2 * d2) * (n2 / d2 * d2)) * (d1 * d1)); [ring|].
    transitivity (d1 * d1 * (d2 * d2)
                  + d * ((n1 / d1 * d1) * (n1 / d1 * d1)) * ((n2 / d2 * d2) * (n2 / d2 * d2))); [|ring].
    rewrite !(div_mul n1 d1 H1), !(div_mul n2 d2 H2). exact H.
  Qed.

  Lemma oc_add x1 y1 x2 y2 : oc x1 y1 -> oc x2 y2 ->
    oc ((x1 * y2 + y1 * x2) / (1 + d * x1 * y1 * x2 * y2))
       ((y1 * y2 - a * x1 * x2) / (1 - d * x1 * y1 * x2 * y2)).
  Proof.
    intros H1 H2. apply oc_div.
    - apply complete_plus; assumption.
    - apply complete_minus; assumption.
    - unfold oc in H1, H2. timeout 120 nsatz.
  Qed.

  Lemma oc_neg x y : oc x y -> oc (- x) y.
  Proof. unfold oc. intro H. transitivity (a * (x * x) + y * y); [ring|]. rewrite H. ring. Qed.
  Lemma oc_zero : oc 0 1.
  Proof. unfold oc. ring. Qed.

  (* x = 0 on the curve forces y = +-1 *)
  Lemma oc_x0 y : oc 0 y -> y = 1 \/ y = - (1).
  Proof.
    unfold oc. intro H. apply sq_eq. transitivity (a * (0 * 0) + y * y); [ring|]. rewrite H. ring.
  Qed.

  (* the equality test on the curve: x1 y2 = y1 x2 iff (x2,y2) = +-(x1,y1) *)
  Lemma coset_affine x1 y1 x2 y2 : oc x1 y1 -> oc x2 y2 -> x1 * y2 = y1 * x2 ->
    (x1 = x2 /\ y1 = y2) \/ (x1 = - x2 /\ y1 = - y2).
  Proof.
    unfold oc. intros H1 H2 Hxy.
    assert (Hx : (x1 * x1 - x2 * x2) * (1 - d * ((x1 * y2) * (x1 * y2))) = 0) by (timeout 60 nsatz).
    assert (Hn : 1 - d * ((x1 * y2) * (x1 * y2)) <> 0).
    { intro E. apply sub_zero_eq in E.
      apply (ns_ratio 1 (x1 * y2)).
      - intro Z0. apply one_nz. rewrite E, Z0. ring.
      - rewrite <- E. ring. }
    apply F_id in Hx. destruct Hx as [Hx|Hx]; [|contradiction]. apply sub_zero_eq in Hx.
    assert (Hy : y1 * y1 = y2 * y2) by (timeout 60 nsatz).
    apply sq_eq in Hx. apply sq_eq in Hy.
    destruct Hx as [Hx|Hx], Hy as [Hy|Hy]; subst x1 y1; auto.
    - (* x1 = x2, y1 = -y2 *)
      assert (E : (1 + 1) * (x2 * y2) = 0) by (transitivity (x2 * y2 - - y2 * x2); [ring | rewrite Hxy; ring]).
      apply two_mul_zero in E. apply F_id in E. destruct E as [E|E]; rewrite E.
      + right. split; ring.
      + left. split; ring.
    - (* x1 = -x2, y1 = y2 *)
      assert (E : (1 + 1) * (x2 * y2) = 0) by (transitivity (y2 * x2 - - x2 * y2); [ring | rewrite Hxy; ring]).
      apply two_mul_zero in E. apply F_id in E. destruct E as [E|E]; rewrite E.
      + left. split; ring.
      + right. split; ring.
  Qed.

  (* ------------------------------------------------------------------ *)
  (* the validity character  M(P) = (a-d)(a - d y^2) *)
  Definition M (y : F) : F := (a - d) * (a - d * (y * y)).

  Lemma M_nz y : M y <> 0.
  Proof.
    unfold M. apply mul_nz; [exact amd_nz|]. intro E. apply sub_zero_eq in E.
    destruct m1_sq as [i Hi]. apply (ns_ratio i y).
    - intro Z0. apply one_nz. transitivity (- a); [ring|]. rewrite E, Z0. ring.
    - rewrite Hi. exact E.
  Qed.

  Lemma M_opp y : M (- y) = M y.
  Proof. unfold M. ring. Qed.

  (* M(P1) M(P2) M(P1+P2) is a square, with explicit root *)
  Lemma M_add_poly x1 y1 x2 y2 : oc x1 y1 -> oc x2 y2 ->
    M y1 * M y2 * ((a - d) * (a * ((1 - d * x1 * y1 * x2 * y2) * (1 - d * x1 * y1 * x2 * y2))
                              - d * ((y1 * y2 - a * x1 * x2) * (y1 * y2 - a * x1 * x2))))
    = ((a - d) * (a - d) * (a - d * (y1 * y1) * (y2 * y2))) * ((a - d) * (a - d) * (a - d * (y1 * y1) * (y2 * y2))).
  Proof. unfold oc, M. intros H1 H2. timeout 120 nsatz. Qed.

  Lemma M_add x1 y1 x2 y2 : oc x1 y1 -> oc x2 y2 ->
    exists w, M y1 * M y2 * M ((y1 * y2 - a * x1 * x2) / (1 - d * x1 * y1 * x2 * y2)) = w * w.
  Proof.
    intros H1 H2. pose proof (complete_minus _ _ _ _ H1 H2) as Hd2.
    pose proof (M_add_poly _ _ _ _ H1 H2) as HP.
    remember (1 - d * x1 * y1 * x2 * y2) as d2 eqn:Ed2.
    remember (y1 * y2 - a * x1 * x2) as n2 eqn:En2.
    remember ((a - d) * (a - d) * (a - d * (y1 * y1) * (y2 * y2))) as W eqn:EW.
    exists (W / d2).
    apply (mul_cancel_r _ _ (d2 * d2)); [apply mul_nz; exact Hd2|].
    transitivity ((W / d2 * d2) * (W / d2 * d2)); [|ring]. rewrite (div_mul W d2 Hd2), <- HP.
    unfold M at 3.
    transitivity (M y1 * M y2 * ((a - d) * (a * (d2 * d2) - d * ((n2 / d2 * d2) * (n2 / d2 * d2))))); [ring|].
    rewrite (div_mul n2 d2 Hd2). reflexivity.
  Qed.

  (* ------------------------------------------------------------------ *)
  (* projective representatives *)
  Definition rep (p : pt) (x y : F) : Prop :=
    pZ p <> 0 /\ pX p = x * pZ p /\ pY p = y * pZ p /\ pT p = x * y * pZ p.
  Definition pscale (l : F) (p : pt) : pt := mkpt (l * pX p) (l * pY p) (l * pZ p) (l * pT p).
  (* projective form of M *)
  Definition Mp (p : pt) : F := (a - d) * (a * (pZ p * pZ p) - d * (pY p * pY p)).

  Lemma apt_eq (p q : apt) : aX p = aX q -> aY p = aY q -> p = q.
  Proof. destruct p, q; simpl; intros; subst; reflexivity. Qed.
  Lemma pt_eq (p q : pt) : pX p = pX q -> pY p = pY q -> pZ p = pZ q -> pT p = pT q -> p = q.
  Proof. destruct p, q; simpl; intros; subst; reflexivity. Qed.

  Lemma on_curve_oc p : on_curve a d p <-> oc (aX p) (aY p).
  Proof. reflexivity. Qed.

  Lemma wf_rep p : wf a d p -> rep p (pX p / pZ p) (pY p / pZ p).
  Proof.
    destruct p as [X Y Z T]; unfold wf, rep; simpl. intros (Hz & Ht & _).
    split; [exact Hz|]. rewrite !(div_mul _ Z Hz). split; [reflexivity|]. split; [reflexivity|].
    apply (mul_cancel_r _ _ Z Hz).
    transitivity (Z * T); [ring|]. rewrite <- Ht.
    transitivity ((X / Z * Z) * (Y / Z * Z)); [|ring]. rewrite !(div_mul _ Z Hz). reflexivity.
  Qed.

  Lemma rep_wf_iff p x y : rep p x y -> (wf a d p <-> oc x y).
  Proof.
    destruct p as [X Y Z T]; unfold wf, rep, oc; simpl. intros (Hz & -> & -> & ->). split.
    - intros (_ & _ & Hc). apply (mul_cancel_r _ _ (Z * Z)); [apply mul_nz; exact Hz|].
      transitivity (a * (x * Z * (x * Z)) + y * Z * (y * Z)); [ring|]. rewrite Hc. ring.
    - intro H. split; [exact Hz|]. split; [ring|].
      transitivity ((a * (x * x) + y * y) * (Z * Z)); [ring|]. rewrite H. ring.
  Qed.

  Lemma rep_aff p x y : rep p x y -> aff p = mkapt x y.
  Proof.
    destruct p as [X Y Z T]; unfold rep, aff; simpl. intros (Hz & -> & -> & _).
    f_equal; field; exact Hz.
  Qed.

  Lemma wf_oc p : wf a d p -> oc (pX p / pZ p) (pY p / pZ p).
  Proof. intro H. apply (rep_wf_iff p _ _ (wf_rep p H)). exact H. Qed.

  Theorem wf_on_curve p : wf a d p -> on_curve a d (aff p).
  Proof. intro H. apply on_curve_oc. unfold aff; simpl. apply wf_oc. exact H. Qed.

  Lemma rep_Mp p x y : rep p x y -> Mp p = (pZ p * pZ p) * M y.
  Proof.
    destruct p as [X Y Z T]; unfold rep, Mp, M; simpl. intros (_ & _ & -> & _). ring.
  Qed.

  Lemma rep_sq p x y : rep p x y -> (is_square (Mp p) <-> is_square (M y)).
  Proof.
    intro R. rewrite (rep_Mp p x y R). apply sq_scale. destruct R as (Hz & _). exact Hz.
  Qed.

  Lemma rep_valid_iff p x y : rep p x y -> (valid a d p <-> oc x y /\ is_square (M y)).
  Proof.
    intro R. unfold valid. fold (Mp p). rewrite (rep_wf_iff p x y R), (rep_sq p x y R). reflexivity.
  Qed.

  (* validity transfers along aff *)
  Theorem valid_iff_avalid p : wf a d p -> (valid a d p <-> avalid a d (aff p)).
  Proof.
    intro H. pose proof (wf_rep p H) as R. rewrite (rep_valid_iff p _ _ R).
    unfold avalid. rewrite on_curve_oc. unfold aff; simpl. reflexivity.
  Qed.

  Lemma rep_intro p n1 n2 d1 d2 k : k <> 0 -> d1 <> 0 -> d2 <> 0 ->
    pX p = n1 * d2 * k -> pY p = n2 * d1 * k -> pZ p = d1 * d2 * k -> pT p = n1 * n2 * k ->
    rep p (n1 / d1) (n2 / d2).
  Proof.
    destruct p as [X Y Z T]; unfold rep; simpl. intros Hk H1 H2 -> -> -> ->.
    split; [repeat apply mul_nz; assumption|].
    split; [|split].
    - transitivity ((n1 / d1 * d1) * d2 * k); [|ring]. rewrite (div_mul n1 d1 H1). reflexivity.
    - transitivity ((n2 / d2 * d2) * d1 * k); [|ring]. rewrite (div_mul n2 d2 H2). reflexivity.
    - transitivity ((n1 / d1 * d1) * (n2 / d2 * d2) * k); [|ring].
      rewrite (div_mul n1 d1 H1), (div_mul n2 d2 H2). reflexivity.
  Qed.

  Lemma rep_scale l p x y : l <> 0 -> rep p x y -> rep (pscale l p) x y.
  Proof.
    destruct p as [X Y Z T]; unfold rep, pscale; simpl. intros Hl (Hz & -> & -> & ->).
    split; [apply mul_nz; assumption|]. repeat split; ring.
  Qed.

  (* --- addition --- *)
  Lemma rep_ark_add p q x1 y1 x2 y2 : rep p x1 y1 -> rep q x2 y2 -> oc x1 y1 -> oc x2 y2 ->
    rep (ark_add d p q) ((x1 * y2 + y1 * x2) / (1 + d * x1 * y1 * x2 * y2))
                        ((y1 * y2 - a * x1 * x2) / (1 - d * x1 * y1 * x2 * y2)).
  Proof.
    destruct p as [X1 Y1 Z1 T1], q as [X2 Y2 Z2 T2]; unfold rep at 1 2; simpl.
    intros (Hz1 & -> & -> & ->) (Hz2 & -> & -> & ->) H1 H2.
    apply rep_intro with (k := (Z1 * Z2) * (Z1 * Z2)).
    - repeat apply mul_nz; assumption.
    - apply complete_plus; assumption.
    - apply complete_minus; assumption.
    - simpl. ring.
    - simpl. ring.
    - simpl. ring.
    - simpl. ring.
  Qed.

  Lemma rep_double p x y : rep p x y -> oc x y ->
    rep (ark_double p) ((x * y + y * x) / (1 + d * x * y * x * y))
                       ((y * y - a * x * x) / (1 - d * x * y * x * y)).
  Proof.
    destruct p as [X Y Z T]; unfold rep at 1; simpl.
    intros (Hz & -> & -> & ->) H.
    apply rep_intro with (k := - ((Z * Z) * (Z * Z))).
    - apply opp_nz. repeat apply mul_nz; assumption.
    - apply complete_plus; assumption.
    - apply complete_minus; assumption.
    - simpl. unfold oc in H. timeout 60 nsatz.
    - simpl. unfold oc in H. timeout 60 nsatz.
    - simpl. unfold oc in H. timeout 60 nsatz.
    - simpl. unfold oc in H. timeout 60 nsatz.
  Qed.

  Lemma rep_neg p x y : rep p x y -> rep (pneg p) (- x) y.
  Proof.
    destruct p as [X Y Z T]; unfold rep, pneg; simpl. intros (Hz & -> & -> & ->).
    split; [exact Hz|]. repeat split; ring.
  Qed.

  (* ================================================================== *)
  (* A. correctness of the projective formulas *)

  Theorem ark_add_correct p q : wf a d p -> wf a d q ->
    wf a d (ark_add d p q) /\ aff (ark_add d p q) = ed_add a d (aff p) (aff q).
  Proof.
    intros Hp Hq.
    pose proof (wf_rep p Hp) as Rp. pose proof (wf_rep q Hq) as Rq.
    pose proof (wf_oc p Hp) as Cp. pose proof (wf_oc q Hq) as Cq.
    pose proof (rep_ark_add p q _ _ _ _ Rp Rq Cp Cq) as R3.
    split.
    - apply (rep_wf_iff _ _ _ R3). apply oc_add; assumption.
    - rewrite (rep_aff _ _ _ R3). reflexivity.
  Qed.

  Theorem of_affine_correct q : on_curve a d q ->
    wf a d (of_affine q) /\ aff (of_affine q) = q.
  Proof.
    destruct q as [x y]. unfold on_curve, wf, of_affine, aff; simpl. intro H. split.
    - split; [exact one_nz|]. split; [ring|].
      transitivity (a * (x * x) + y * y); [ring|]. rewrite H. ring.
    - rewrite !div_one. reflexivity.
  Qed.

  Lemma ark_madd_as_add p q : ark_madd d p q = ark_add d p (of_affine q).
  Proof. apply pt_eq; destruct p, q; simpl; ring. Qed.

  Theorem ark_madd_correct p q : wf a d p -> on_curve a d q ->
    wf a d (ark_madd d p q) /\ aff (ark_madd d p q) = ed_add a d (aff p) q.
  Proof.
    intros Hp Hq. rewrite ark_madd_as_add.
    destruct (of_affine_correct q Hq) as [Wq Aq].
    destruct (ark_add_correct p (of_affine q) Hp Wq) as [W3 A3].
    split; [exact W3|]. rewrite A3, Aq. reflexivity.
  Qed.

  Theorem ark_double_correct p : wf a d p ->
    wf a d (ark_double p) /\ aff (ark_double p) = ed_add a d (aff p) (aff p).
  Proof.
    intros Hp. pose proof (wf_rep p Hp) as Rp. pose proof (wf_oc p Hp) as Cp.
    pose proof (rep_double p _ _ Rp Cp) as R3.
    split.
    - apply (rep_wf_iff _ _ _ R3). apply oc_add; assumption.
    - rewrite (rep_aff _ _ _ R3). reflexivity.
  Qed.

  Theorem pneg_correct p : wf a d p ->
    wf a d (pneg p) /\ aff (pneg p) = ed_neg (aff p).
  Proof.
    intros Hp. pose proof (wf_rep p Hp) as Rp. pose proof (wf_oc p Hp) as Cp.
    pose proof (rep_neg p _ _ Rp) as R3.
    split.
    - apply (rep_wf_iff _ _ _ R3). apply oc_neg; assumption.
    - rewrite (rep_aff _ _ _ R3). reflexivity.
  Qed.

  Theorem ark_sub_correct p q : wf a d p -> wf a d q ->
    wf a d (ark_sub d p q) /\ aff (ark_sub d p q) = ed_sub a d (aff p) (aff q).
  Proof.
    intros Hp Hq. destruct (pneg_correct q Hq) as [Wn An].
    destruct (ark_add_correct p (pneg q) Hp Wn) as [W3 A3].
    unfold ark_sub, ed_sub. split; [exact W3|]. rewrite A3, An. reflexivity.
  Qed.

  Theorem pscale_correct l p : l <> 0 -> wf a d p ->
    wf a d (pscale l p) /\ aff (pscale l p) = aff p.
  Proof.
    intros Hl Hp. pose proof (wf_rep p Hp) as Rp. pose proof (wf_oc p Hp) as Cp.
    pose proof (rep_scale l p _ _ Hl Rp) as R3.
    split.
    - apply (rep_wf_iff _ _ _ R3). exact Cp.
    - rewrite (rep_aff _ _ _ R3). reflexivity.
  Qed.

  Lemma four_nz : two * two <> 0.
  Proof. unfold two. apply mul_nz; exact two_nz. Qed.

  Lemma min_add_as_add k p q : k = two * d ->
    min_add k p q = pscale (two * two) (ark_add d p q).
  Proof. intros ->. unfold two. apply pt_eq; destruct p, q; simpl; ring. Qed.

  Theorem min_add_correct k p q : k = two * d -> wf a d p -> wf a d q ->
    wf a d (min_add k p q) /\ aff (min_add k p q) = ed_add a d (aff p) (aff q).
  Proof.
    intros Hk Hp Hq. rewrite (min_add_as_add k p q Hk).
    destruct (ark_add_correct p q Hp Hq) as [W3 A3].
    destruct (pscale_correct (two * two) _ four_nz W3) as [W4 A4].
    split; [exact W4|]. rewrite A4. exact A3.
  Qed.

  Lemma min_double_as_double p : min_double p = ark_double p.
  Proof. reflexivity. Qed.

  Theorem min_double_correct p : wf a d p ->
    wf a d (min_double p) /\ aff (min_double p) = ed_add a d (aff p) (aff p).
  Proof. rewrite min_double_as_double. apply ark_double_correct. Qed.

  Theorem to_affine_correct p : wf a d p ->
    to_affine p = aff p /\ on_curve a d (to_affine p).
  Proof.
    intro Hp. assert (E : to_affine p = aff p).
    { destruct Hp as (Hz & _ & _). destruct p as [X Y Z T]; unfold to_affine, aff; simpl in *.
      destruct (feqb X 0 && feqb Y Z && negb (feqb Y 0) && feqb T 0) eqn:E1.
      - rewrite !andb_true_iff, !feqb_true in E1. destruct E1 as (((-> & ->) & _) & _).
        rewrite (zero_div Z Hz), (div_same Z Hz). reflexivity.
      - destruct (feqb Z 1) eqn:E2.
        + rewrite feqb_true in E2. subst Z. rewrite !div_one. reflexivity.
        + f_equal; field; exact Hz. }
    split; [exact E|]. rewrite E. apply wf_on_curve. exact Hp.
  Qed.

  Theorem identity_correct : wf a d identity /\ aff identity = ed_zero.
  Proof.
    unfold identity, wf, aff, ed_zero; simpl. split.
    - split; [exact one_nz|]. split; ring.
    - rewrite !div_one. reflexivity.
  Qed.

  (* ================================================================== *)
  (* B. the equality tests *)

  Lemma rep_cross p q x1 y1 x2 y2 : rep p x1 y1 -> rep q x2 y2 ->
    (pX p * pY q = pY p * pX q <-> x1 * y2 = y1 * x2).
  Proof.
    destruct p as [X1 Y1 Z1 T1], q as [X2 Y2 Z2 T2]; unfold rep; simpl.
    intros (Hz1 & -> & -> & _) (Hz2 & -> & -> & _). split; intro H.
    - apply (mul_cancel_r _ _ (Z1 * Z2)); [apply mul_nz; assumption|].
      transitivity (x1 * Z1 * (y2 * Z2)); [ring|]. rewrite H. ring.
    - transitivity (x1 * y2 * (Z1 * Z2)); [ring|]. rewrite H. ring.
  Qed.

  Lemma coset_affine_iff x1 y1 x2 y2 : oc x1 y1 -> oc x2 y2 ->
    (x1 * y2 = y1 * x2 <-> coset_eq (mkapt x1 y1) (mkapt x2 y2)).
  Proof.
    intros H1 H2. unfold coset_eq; simpl. split.
    - apply coset_affine; assumption.
    - intros [[-> ->]|[-> ->]]; ring.
  Qed.

  Theorem eqE_correct p q : wf a d p -> wf a d q ->
    (eqE p q = true <-> coset_eq (aff p) (aff q)).
  Proof.
    intros Hp Hq.
    pose proof (wf_rep p Hp) as Rp. pose proof (wf_rep q Hq) as Rq.
    pose proof (wf_oc p Hp) as Cp. pose proof (wf_oc q Hq) as Cq.
    unfold eqE. rewrite feqb_true, (rep_cross p q _ _ _ _ Rp Rq).
    rewrite (rep_aff _ _ _ Rp), (rep_aff _ _ _ Rq).
    apply coset_affine_iff; assumption.
  Qed.

  Theorem min_eqE_eqE p q : min_eqE p q = eqE p q.
  Proof. unfold min_eqE, eqE. f_equal. ring. Qed.

  Theorem min_eqE_correct p q : wf a d p -> wf a d q ->
    (min_eqE p q = true <-> coset_eq (aff p) (aff q)).
  Proof. rewrite min_eqE_eqE. apply eqE_correct. Qed.

  Theorem eqA_correct p q : on_curve a d p -> on_curve a d q ->
    (eqA p q = true <-> coset_eq p q).
  Proof.
    destruct p as [x1 y1], q as [x2 y2]. intros Hp Hq.
    unfold eqA; simpl. rewrite feqb_true. apply coset_affine_iff; assumption.
  Qed.

  Theorem is_identity_correct p : wf a d p ->
    (is_identity p = true <-> coset_eq (aff p) ed_zero).
  Proof.
    intros Hp. pose proof (wf_rep p Hp) as Rp. pose proof (wf_oc p Hp) as Cp.
    rewrite (rep_aff _ _ _ Rp). unfold is_identity, coset_eq, ed_zero; simpl.
    rewrite feqb_true. destruct Rp as (Hz & Hx & _).
    remember (pX p / pZ p) as x eqn:Ex. remember (pY p / pZ p) as y eqn:Ey. split.
    - intro H0. assert (Hx0 : x = 0).
      { rewrite H0 in Hx. symmetry in Hx. apply F_id in Hx. tauto. }
      rewrite Hx0 in Cp. apply oc_x0 in Cp. rewrite Hx0. destruct Cp as [->| ->].
      + left. split; reflexivity.
      + right. split; [ring|reflexivity].
    - intros [[Hx0 _]|[Hx0 _]]; rewrite Hx, Hx0; ring.
  Qed.

  (* ark-ec's exact identity test *)
  Theorem ark_is_zero_correct p : wf a d p ->
    (ark_is_zero p = true <-> aff p = ed_zero).
  Proof.
    destruct p as [X Y Z T]; unfold wf, ark_is_zero, aff, ed_zero; simpl. intros (Hz & Ht & _).
    rewrite !andb_true_iff, negb_true_iff, !feqb_true, feqb_false. split.
    - intros (((-> & ->) & _) & _). rewrite (zero_div Z Hz), (div_same Z Hz). reflexivity.
    - intro E. injection E as Ex Ey. apply (div_zero_num X Z Hz) in Ex.
      assert (EY : Y = Z) by (rewrite <- (div_mul Y Z Hz), Ey; ring).
      subst X Y. repeat split; try assumption.
      assert (E0 : Z * T = 0) by (rewrite <- Ht; ring).
      apply F_id in E0. tauto.
  Qed.

  (* ================================================================== *)
  (* C. decaf validity is closed under the operations (no associativity, no group order) *)

  Lemma rep_valid_add x1 y1 x2 y2 : oc x1 y1 -> oc x2 y2 ->
    is_square (M y1) -> is_square (M y2) ->
    is_square (M ((y1 * y2 - a * x1 * x2) / (1 - d * x1 * y1 * x2 * y2))).
  Proof.
    intros H1 H2 S1 S2. destruct (M_add x1 y1 x2 y2 H1 H2) as [w Hw].
    apply (sq_quot (M y1 * M y2) _ w).
    - apply mul_nz; apply M_nz.
    - apply sq_mul; assumption.
    - exact Hw.
  Qed.

  Theorem valid_add p q : valid a d p -> valid a d q -> valid a d (ark_add d p q).
  Proof.
    intros Vp Vq. pose proof Vp as [Hp _]. pose proof Vq as [Hq _].
    pose proof (wf_rep p Hp) as Rp. pose proof (wf_rep q Hq) as Rq.
    pose proof (wf_oc p Hp) as Cp. pose proof (wf_oc q Hq) as Cq.
    pose proof (rep_ark_add p q _ _ _ _ Rp Rq Cp Cq) as R3.
    apply (rep_valid_iff _ _ _ Rp) in Vp. apply (rep_valid_iff _ _ _ Rq) in Vq.
    apply (rep_valid_iff _ _ _ R3). split.
    - apply oc_add; assumption.
    - apply rep_valid_add; tauto.
  Qed.

  Theorem valid_of_affine q : avalid a d q -> valid a d (of_affine q).
  Proof.
    intros Vq. pose proof Vq as [Hq _]. destruct (of_affine_correct q Hq) as [W A].
    apply (valid_iff_avalid _ W). rewrite A. exact Vq.
  Qed.

  Theorem valid_to_affine p : valid a d p -> avalid a d (to_affine p).
  Proof.
    intros Vp. pose proof Vp as [Hp _]. destruct (to_affine_correct p Hp) as [E _].
    rewrite E. apply (valid_iff_avalid _ Hp). exact Vp.
  Qed.

  Theorem valid_madd p q : valid a d p -> avalid a d q -> valid a d (ark_madd d p q).
  Proof.
    intros Vp Vq. rewrite ark_madd_as_add. apply valid_add; [exact Vp|]. apply valid_of_affine. exact Vq.
  Qed.

  Theorem valid_scale l p : valid a d p -> l <> 0 ->
    valid a d (mkpt (l * pX p) (l * pY p) (l * pZ p) (l * pT p)).
  Proof.
    intros Vp Hl. pose proof Vp as [Hp _].
    pose proof (wf_rep p Hp) as Rp.
    pose proof (rep_scale l p _ _ Hl Rp) as R3.
    apply (rep_valid_iff _ _ _ Rp) in Vp.
    change (valid a d (pscale l p)). apply (rep_valid_iff _ _ _ R3). exact Vp.
  Qed.

  Theorem valid_min_add k p q : k = two * d -> valid a d p -> valid a d q -> valid a d (min_add k p q).
  Proof.
    intros Hk Vp Vq. rewrite (min_add_as_add k p q Hk).
    apply (valid_scale (two * two) _ (valid_add p q Vp Vq) four_nz).
  Qed.

  Theorem valid_neg p : valid a d p -> valid a d (pneg p).
  Proof.
    intros Vp. pose proof Vp as [Hp _].
    pose proof (wf_rep p Hp) as Rp. pose proof (rep_neg p _ _ Rp) as R3.
    apply (rep_valid_iff _ _ _ Rp) in Vp. apply (rep_valid_iff _ _ _ R3).
    destruct Vp as [C S]. split; [apply oc_neg; exact C | exact S].
  Qed.

  Theorem valid_sub p q : valid a d p -> valid a d q -> valid a d (ark_sub d p q).
  Proof. intros Vp Vq. unfold ark_sub. apply valid_add; [exact Vp | apply valid_neg; exact Vq]. Qed.

  (* every double is valid, whether or not the input is *)
  Theorem double_always_valid p : wf a d p -> valid a d (ark_double p).
  Proof.
    intros Hp. pose proof (wf_rep p Hp) as Rp. pose proof (wf_oc p Hp) as Cp.
    pose proof (rep_double p _ _ Rp Cp) as R3.
    apply (rep_valid_iff _ _ _ R3). split.
    - apply oc_add; assumption.
    - destruct (M_add _ _ _ _ Cp Cp) as [w Hw].
      apply (sq_quot (M (pY p / pZ p) * M (pY p / pZ p)) _ w).
      + apply mul_nz; apply M_nz.
      + apply sq_sq.
      + exact Hw.
  Qed.

  Theorem valid_double p : valid a d p -> valid a d (ark_double p).
  Proof. intros [Hp _]. apply double_always_valid. exact Hp. Qed.

  Theorem min_double_always_valid p : wf a d p -> valid a d (min_double p).
  Proof. rewrite min_double_as_double. apply double_always_valid. Qed.

  Theorem valid_min_double p : valid a d p -> valid a d (min_double p).
  Proof. rewrite min_double_as_double. apply valid_double. Qed.

  Theorem valid_identity : valid a d identity.
  Proof.
    split; [apply identity_correct|]. unfold identity; simpl.
    exists (a - d). ring.
  Qed.

  Theorem valid_coset p q : wf a d p -> wf a d q -> coset_eq (aff p) (aff q) ->
    valid a d p -> valid a d q.
  Proof.
    intros Hp Hq Hc Vp.
    pose proof (wf_rep p Hp) as Rp. pose proof (wf_rep q Hq) as Rq.
    pose proof (wf_oc q Hq) as Cq.
    apply (rep_valid_iff _ _ _ Rp) in Vp. apply (rep_valid_iff _ _ _ Rq).
    split; [exact Cq|]. destruct Vp as [_ S].
    unfold coset_eq, aff in Hc; simpl in Hc. destruct Hc as [[_ Ey]|[_ Ey]].
    - rewrite <- Ey. exact S.
    - rewrite Ey, M_opp in S. exact S.
  Qed.

  (* ================================================================== *)
  (* D. the encoder's radicand  u1 * (a-d) * X^2,  u1 = (X+T)(X-T) *)
  Definition radicand (p : pt) : F :=
    ((pX p + pT p) * (pX p - pT p)) * (a - d) * (pX p * pX p).

  Lemma Mp_nz p : wf a d p -> Mp p <> 0.
  Proof.
    intro Hp. pose proof (wf_rep p Hp) as Rp. rewrite (rep_Mp _ _ _ Rp).
    destruct Rp as (Hz & _). apply mul_nz; [apply mul_nz; exact Hz | apply M_nz].
  Qed.

  Theorem radicand_identity p : wf a d p ->
    ((pZ p * pZ p) * (pZ p * pZ p)) * radicand p
    = ((pX p * pX p * pX p) * (pX p * pX p * pX p)) * Mp p.
  Proof.
    destruct p as [X Y Z T]; unfold wf, radicand, Mp; simpl. intros (_ & Ht & Hc).
    timeout 60 nsatz.
  Qed.

  Theorem radicand_x0 p : pX p = 0 -> radicand p = 0.
  Proof. unfold radicand. intros ->. ring. Qed.

  Theorem radicand_valid p : wf a d p -> pX p <> 0 ->
    radicand p <> 0 /\ (is_square (radicand p) <-> valid a d p).
  Proof.
    intros Hp Hx. pose proof (radicand_identity p Hp) as HI.
    pose proof Hp as (Hz & _).
    assert (Hzz : pZ p * pZ p <> 0) by (apply mul_nz; exact Hz).
    assert (Hxxx : pX p * pX p * pX p <> 0) by (repeat apply mul_nz; exact Hx).
    split.
    - intro E. rewrite E in HI. symmetry in HI.
      replace ((pZ p * pZ p) * (pZ p * pZ p) * 0) with 0 in HI by ring.
      apply F_id in HI. destruct HI as [HI|HI].
      + apply F_id in HI. tauto.
      + exact (Mp_nz p Hp HI).
    - rewrite <- (sq_scale (pZ p * pZ p) (radicand p) Hzz), HI.
      rewrite (sq_scale (pX p * pX p * pX p) (Mp p) Hxxx).
      unfold valid. fold (Mp p). tauto.
  Qed.

End Projective.

Print Assumptions ark_add_correct.
Print Assumptions ark_madd_correct.
Print Assumptions ark_double_correct.
Print Assumptions ark_sub_correct.
Print Assumptions min_add_correct.
Print Assumptions min_double_correct.
Print Assumptions to_affine_correct.
Print Assumptions of_affine_correct.
Print Assumptions eqE_correct.
Print Assumptions eqA_correct.
Print Assumptions is_identity_correct.
Print Assumptions valid_add.
Print Assumptions valid_min_add.
Print Assumptions valid_coset.
Print Assumptions double_always_valid.
Print Assumptions valid_scale.
Print Assumptions radicand_valid.
