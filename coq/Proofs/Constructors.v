(* C06 helper: the curve point recovered from a y-coordinate (ark-ec Affine::get_point_from_y_unchecked) is on the
   curve; proved over an abstract field, then instantiated. *)
Require Import ZArith List Bool.
From D377 Require Import Base.FieldSec Model.Decaf Spec.Edwards.

Section TeX.
  Context {AF : AField}.
  Add Field Fcons : Ffield.
  Variables (a d : F) (sqrt1 : F -> bool * F) (le : F -> F -> bool).
  Hypothesis sqrt1_ok : forall x2 r, x2 <> zero -> sqrt1 x2 = (true, r) -> mul r r = x2.

  Definition te_x_gen (y : F) : option F :=
    let y2 := mul y y in
    let den := sub a (mul y2 d) in
    if feqb den zero then None else
    let x2 := mul (inv den) (sub one y2) in
    if feqb x2 zero then Some zero else
    let '(b, x) := sqrt1 x2 in
    if b then Some (if le x (opp x) then x else opp x) else None.

  Lemma te_x_gen_on_curve y x : te_x_gen y = Some x -> on_curve a d (mkapt x y).
  Proof.
    unfold te_x_gen. cbv zeta.
    remember (mul y y) as y2 eqn:Ey2. remember (sub a (mul y2 d)) as den eqn:Eden.
    destruct (feqb den zero) eqn:Ed; [discriminate|]. apply feqb_false in Ed.
    remember (mul (inv den) (sub one y2)) as x2 eqn:Ex2.
    assert (Hinv : mul (inv den) den = one) by (destruct Ffield as [_ _ _ Hi]; exact (Hi den Ed)).
    assert (Hcurve : forall x0 : F, mul x0 x0 = x2 -> on_curve a d (mkapt x0 y)).
    { intros x0 Hx. unfold on_curve. cbn [aX aY]. rewrite <- Ey2, Hx.
      assert (E : mul den x2 = sub one y2).
      { rewrite Ex2. transitivity (mul (mul (inv den) den) (sub one y2)); [ring|]. rewrite Hinv. ring. }
      transitivity (add (mul den x2) (add y2 (mul (mul d x2) y2))); [rewrite Eden; ring|].
      rewrite E. ring. }
    destruct (feqb x2 zero) eqn:E0.
    - intro H. injection H as <-. apply feqb_true in E0. apply Hcurve. rewrite E0. ring.
    - apply feqb_false in E0. destruct (sqrt1 x2) as [b r0] eqn:Esr. destruct b; [|discriminate].
      pose proof (sqrt1_ok x2 r0 E0 Esr) as Hr.
      intro H. injection H as <-. destruct (le r0 (opp r0)); apply Hcurve; [exact Hr|].
      rewrite <- Hr. ring.
  Qed.
End TeX.
