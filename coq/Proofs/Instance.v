(* Discharge, at the concrete field Fq and with the constants extracted from the source, every hypothesis
   the abstract developments (Proofs/{Projective,Codec,Elligator,SqrtTS}.v) are parameterised by. *)
Require Import ZArith Znumtheory List Bool Lia.
From D377 Require Import Base.Certs Base.ZpField Base.FieldSec Base.Fields Model.CVal Model.Decaf Model.Sqrt Model.Concrete.
From D377 Require Import Spec.Edwards Spec.DecafSpec Proofs.SqrtTS.
Import ListNotations.
Open Scope Z_scope.

Local Existing Instance FqF.

Ltac fq_compute := apply (Fm_eq q); vm_compute; reflexivity.

(* generic fpow on the FqF instance is ZpField.pow *)
Lemma fq_fpow_pos (x : Fq) p : @fpow_pos FqF x p = ZpField.pow_pos q q_pos x p.
Proof. induction p as [p IH|p IH|]; cbn [fpow_pos ZpField.pow_pos]; rewrite ?IH; reflexivity. Qed.
Lemma fq_fpow (x : Fq) e : @fpow FqF x e = ZpField.pow q q_pos x e.
Proof. destruct e; cbn [fpow ZpField.pow]; [reflexivity|apply fq_fpow_pos|reflexivity]. Qed.

Definition qm1 : Z := q - 1.
Definition Tq : Z := Eval vm_compute in CVal.trace q.

Lemma fq_fermat (x : Fq) : x <> zero -> fpow x qm1 = one.
Proof. intro Hx. rewrite fq_fpow. exact (fermat_F q q_pos q_prime x Hx). Qed.

Lemma Hq_split : qm1 = 2 ^ Z.of_nat 47 * Tq. Proof. reflexivity. Qed.
Lemma HT_pos : 0 < Tq. Proof. reflexivity. Qed.
Lemma HT_odd : Z.odd Tq = true. Proof. reflexivity. Qed.
Lemma HS47 : (2 <= 47)%nat. Proof. lia. Qed.

Lemma fq_one_ne_m1 : (one : Fq) <> opp one.
Proof. intro E. apply (f_equal val) in E. vm_compute in E. discriminate. Qed.
Lemma fq_two_nz : (two : Fq) <> zero.
Proof. intro E. apply (f_equal val) in E. vm_compute in E. discriminate. Qed.

(* sign *)
Lemma fq_neg0 : fq_neg zero = false. Proof. reflexivity. Qed.
Lemma fq_neg_opp (x : Fq) : x <> zero -> fq_neg (opp x) = negb (fq_neg x).
Proof.
  intro Hx. unfold fq_neg. cbn [opp FqF Fm_AField]. unfold ZpField.opp. rewrite val_of_Z.
  pose proof (val_range q q_pos x) as R.
  assert (Hv : val x <> 0).
  { intro E. apply Hx. apply (Fm_eq q). rewrite E. reflexivity. }
  replace ((- val x) mod q) with (q - val x).
  - rewrite Z.odd_sub. change (Z.odd q) with true. destruct (Z.odd (val x)); reflexivity.
  - apply Z.mod_unique with (-1); lia.
Qed.

(* Euler's criterion as a non-squareness test *)
Lemma fq_nonsquare (x : Fq) : fpow x (qm1 / 2) = opp one -> forall w : Fq, mul w w <> x.
Proof.
  exact (@euler_nonsquare FqF 47 Tq qm1 HS47 HT_pos Hq_split fq_fermat fq_one_ne_m1 x).
Qed.

Definition fq_a : Fq := opp one.

Lemma ark_A_is_m1 : ark_A = fq_a. Proof. fq_compute. Qed.
Lemma min_A_is_m1 : min_A = fq_a. Proof. fq_compute. Qed.
Lemma min_D_is_ark_D : min_D = ark_D. Proof. fq_compute. Qed.
Lemma min_ZETA_is_ark_ZETA : min_ZETA = ark_ZETA. Proof. fq_compute. Qed.
Lemma min_K_is_2D : min_K = mul two ark_D. Proof. fq_compute. Qed.
Lemma ark_D_val : val ark_D = 3021. Proof. vm_compute. reflexivity. Qed.

Lemma d_ns : forall w : Fq, mul w w <> ark_D.
Proof. apply fq_nonsquare. fq_compute. Qed.
Lemma amd_ns : forall w : Fq, mul w w <> sub fq_a ark_D.
Proof. apply fq_nonsquare. fq_compute. Qed.
Lemma dma_ns : forall w : Fq, mul w w <> sub ark_D fq_a.
Proof. apply fq_nonsquare. fq_compute. Qed.
Lemma zeta_ns : forall w : Fq, mul w w <> ark_ZETA.
Proof. apply fq_nonsquare. fq_compute. Qed.
Lemma Hzeta : fpow ark_ZETA (qm1 / 2) = opp one. Proof. fq_compute. Qed.

Lemma m1_sq : exists i : Fq, mul i i = opp one.
Proof. exists (fq 880904806456922042258150504921383618666682042621506879489). fq_compute. Qed.
Lemma a2d_nz : sub fq_a (mul two ark_D) <> zero.
Proof. intro E. apply (f_equal val) in E. vm_compute in E. discriminate. Qed.
Lemma ratio1 : exists w : Fq, mul w w = div (sub ark_D fq_a) ark_D.
Proof. exists (fq 358047425760165211435386760607973295854317652283492115386926772599565548000). fq_compute. Qed.

(* ---- the constant-time Tonelli-Shanks routine of the minimal build meets the four-case contract ---- *)
Lemma limbs_ok_tm : limbs_ok fq_TRACE_M1_D2.
Proof. unfold limbs_ok. repeat constructor; vm_compute; try discriminate; reflexivity. Qed.
Lemma limbs_ok_mm : limbs_ok fq_MOD_M1_D2.
Proof. unfold limbs_ok. repeat constructor; vm_compute; try discriminate; reflexivity. Qed.
Lemma Htl : limbs_value fq_TRACE_M1_D2 = (Tq - 1) / 2. Proof. vm_compute. reflexivity. Qed.
Lemma Hml : limbs_value fq_MOD_M1_D2 = qm1 / 2. Proof. vm_compute. reflexivity. Qed.
Lemma Hc0 : fpow fq_QNR_TO_TRACE (2 ^ Z.of_nat (47 - 1)) = opp one. Proof. fq_compute. Qed.
Lemma adicity_47 : fq_TWO_ADICITY = 47%nat. Proof. vm_compute. reflexivity. Qed.

Theorem min_sr_contract : sqrt_ratio_contract ark_ZETA min_sr.
Proof.
  unfold min_sr. rewrite min_ZETA_is_ark_ZETA, adicity_47.
  exact (@min_sqrt_ratio_contract FqF 47 Tq qm1 HS47 HT_pos HT_odd Hq_split fq_fermat
           fq_QNR_TO_TRACE Hc0 ark_ZETA Hzeta fq_one_ne_m1 fq_TRACE_M1_D2 fq_MOD_M1_D2
           limbs_ok_tm limbs_ok_mm Htl Hml).
Qed.

Lemma min_sr_11 : min_sr (@one FqF) (@one FqF) = (true, @one FqF).
Proof.
  destruct (min_sr (@one FqF) (@one FqF)) as [b y] eqn:H.
  assert (Hb : b = true). { change b with (fst (b, y)). rewrite <- H. vm_compute. reflexivity. }
  assert (Hy : val y = 1). { change y with (snd (b, y)). rewrite <- H. vm_compute. reflexivity. }
  subst b. apply (f_equal (pair true)). apply (Fm_eq q). exact Hy.
Qed.

Lemma ark_sr_11 : ark_sr (@one FqF) (@one FqF) = (true, @one FqF).
Proof.
  (* call-by-need evaluation: only the first key of the lookup table is ever forced *)
  destruct (ark_sr (@one FqF) (@one FqF)) as [b y] eqn:H.
  assert (Hb : b = true). { change b with (fst (b, y)). rewrite <- H. lazy. reflexivity. }
  assert (Hy : val y = 1). { change y with (snd (b, y)). rewrite <- H. lazy. reflexivity. }
  subst b. apply (f_equal (pair true)). apply (Fm_eq q). exact Hy.
Qed.

(* ---- the table-driven (Sarkar) routine of the arkworks build: total ("never panics") and meets the contract ---- *)
From D377 Require Proofs.SqrtSarkar.

Lemma ark_M_is_T : ark_M = Tq. Proof. vm_compute. reflexivity. Qed.
Lemma ark_Mm1d2 : ark_M_MINUS_ONE_DIV_TWO = (Tq - 1) / 2. Proof. vm_compute. reflexivity. Qed.
Lemma ark_N_47 : ark_N = 47. Proof. vm_compute. reflexivity. Qed.
Lemma ark_W_8 : ark_W = 8. Proof. vm_compute. reflexivity. Qed.
Lemma Hq_split' : qm1 = 2 ^ 47 * Tq. Proof. reflexivity. Qed.
Lemma Hz1 : mul ark_ZETA_TO_ONE_MINUS_M_DIV_TWO (fpow ark_ZETA ((Tq - 1) / 2)) = one. Proof. fq_compute. Qed.
Lemma ark_G_def : ark_G = fpow ark_ZETA Tq. Proof. unfold ark_G. rewrite ark_M_is_T. reflexivity. Qed.

Theorem ark_sr_total : forall num den : Fq, exists r, ark_sr_opt num den = Some r.
Proof.
  intros num den. unfold ark_sr_opt, ark_tables. rewrite ark_Mm1d2, ark_N_47, ark_W_8.
  exact (proj1 (@SqrtSarkar.ark_sqrt_ratio_C09 FqF Tq qm1 ark_ZETA ark_ZETA_TO_ONE_MINUS_M_DIV_TWO ark_G
                  HT_pos HT_odd Hq_split' fq_fermat Hzeta fq_one_ne_m1 Hz1 ark_G_def) num den).
Qed.

Theorem ark_sr_contract : sqrt_ratio_contract ark_ZETA ark_sr.
Proof.
  unfold ark_sr, ark_sr_opt, ark_tables. rewrite ark_Mm1d2, ark_N_47, ark_W_8.
  exact (proj2 (@SqrtSarkar.ark_sqrt_ratio_C09 FqF Tq qm1 ark_ZETA ark_ZETA_TO_ONE_MINUS_M_DIV_TWO ark_G
                  HT_pos HT_odd Hq_split' fq_fermat Hzeta fq_one_ne_m1 Hz1 ark_G_def)).
Qed.
