(* Linear forms of the primitive specifications and the step tactics that turn the translated straight-line code
   into a context of linear equations (one per primitive call) over which `lia` decides the limb-level claims. *)
Require Import ZArith List Lia.
From D377 Require Import Model.FiatPrelude Proofs.FiatPrims.
Import ListNotations.
Open Scope Z_scope.

Definition ev (l : list Z) : Z := fold_right (fun x acc => x + 2 ^ 32 * acc) 0 l.
Definition evb (l : list Z) : Z := fold_right (fun x acc => x + 2 ^ 8 * acc) 0 l.
Definition limbs_ok (n : nat) (l : list Z) : Prop := length l = n /\ Forall (fun x => 0 <= x < 2 ^ 32) l.
Definition bytes_ok (n : nat) (l : list Z) : Prop := length l = n /\ Forall (fun x => 0 <= x < 2 ^ 8) l.

Definition addcarryx_lin (f : Z -> Z -> Z -> Z * Z) := forall c x y s k, 0 <= c <= 1 -> 0 <= x < 2 ^ 32 -> 0 <= y < 2 ^ 32 ->
  s = fst (f c x y) -> k = snd (f c x y) ->
  s + 2 ^ 32 * k = c + x + y /\ 0 <= s < 2 ^ 32 /\ 0 <= k <= 1.
Definition subborrowx_lin (f : Z -> Z -> Z -> Z * Z) := forall c x y s k, 0 <= c <= 1 -> 0 <= x < 2 ^ 32 -> 0 <= y < 2 ^ 32 ->
  s = fst (f c x y) -> k = snd (f c x y) ->
  s - 2 ^ 32 * k = x - c - y /\ 0 <= s < 2 ^ 32 /\ 0 <= k <= 1.
Definition cmovznz_lin (f : Z -> Z -> Z -> Z) := forall c x y r, 0 <= c <= 1 -> 0 <= x < 2 ^ 32 -> 0 <= y < 2 ^ 32 ->
  r = f c x y -> r = if c =? 0 then x else y.
Lemma cmovznz_ok_lin f : cmovznz_ok f -> cmovznz_lin f.
Proof. intros H c x y r Hc Hx Hy ->. apply H; assumption. Qed.

Lemma addcarryx_ok_lin f : addcarryx_ok f -> addcarryx_lin f.
Proof. intros H c x y s k Hc Hx Hy -> ->. destruct (H c x y Hc Hx Hy) as [-> ->].
  change (2 ^ 32) with 4294967296 in *. zdm. Qed.
Lemma subborrowx_ok_lin f : subborrowx_ok f -> subborrowx_lin f.
Proof. intros H c x y s k Hc Hx Hy -> ->. destruct (H c x y Hc Hx Hy) as [-> ->].
  change (2 ^ 32) with 4294967296 in *. zdm. Qed.

Lemma limbs_ok_8 l : limbs_ok 8 l -> exists a0 a1 a2 a3 a4 a5 a6 a7, l = [a0; a1; a2; a3; a4; a5; a6; a7] /\
  0 <= a0 < 2 ^ 32 /\ 0 <= a1 < 2 ^ 32 /\ 0 <= a2 < 2 ^ 32 /\ 0 <= a3 < 2 ^ 32 /\ 0 <= a4 < 2 ^ 32 /\ 0 <= a5 < 2 ^ 32 /\ 0 <= a6 < 2 ^ 32 /\ 0 <= a7 < 2 ^ 32.
Proof. intros [Hl Hf]. do 8 (destruct l as [|? l]; [discriminate|]). destruct l; [|discriminate].
  repeat match goal with H : Forall _ (_ :: _) |- _ => inversion H; clear H; subst end.
  do 8 eexists. split; [reflexivity|]. repeat split; lia. Qed.
Lemma limbs_ok_12 l : limbs_ok 12 l -> exists a0 a1 a2 a3 a4 a5 a6 a7 a8 a9 a10 a11, l = [a0; a1; a2; a3; a4; a5; a6; a7; a8; a9; a10; a11] /\
  0 <= a0 < 2 ^ 32 /\ 0 <= a1 < 2 ^ 32 /\ 0 <= a2 < 2 ^ 32 /\ 0 <= a3 < 2 ^ 32 /\ 0 <= a4 < 2 ^ 32 /\ 0 <= a5 < 2 ^ 32 /\ 0 <= a6 < 2 ^ 32 /\ 0 <= a7 < 2 ^ 32 /\
  0 <= a8 < 2 ^ 32 /\ 0 <= a9 < 2 ^ 32 /\ 0 <= a10 < 2 ^ 32 /\ 0 <= a11 < 2 ^ 32.
Proof. intros [Hl Hf]. do 12 (destruct l as [|? l]; [discriminate|]). destruct l; [|discriminate].
  repeat match goal with H : Forall _ (_ :: _) |- _ => inversion H; clear H; subst end.
  do 12 eexists. split; [reflexivity|]. repeat split; lia. Qed.

(* closed numerals *)
Ltac closed_num e :=
  lazymatch e with
  | Z0 => idtac | Zpos _ => idtac | Zneg _ => idtac
  | cast _ ?a => closed_num a | wrap _ ?a => closed_num a
  | Z.land ?a ?b => closed_num a; closed_num b | Z.lor ?a ?b => closed_num a; closed_num b
  | Z.lnot ?a => closed_num a
  | Z.shiftl ?a ?b => closed_num a; closed_num b | Z.shiftr ?a ?b => closed_num a; closed_num b
  | Z.add ?a ?b => closed_num a; closed_num b | Z.sub ?a ?b => closed_num a; closed_num b
  end.
Ltac eval_closed :=
  repeat match goal with
  | |- context [cast ?t ?e] => closed_num e; let v := eval vm_compute in (cast t e) in change (cast t e) with v
  | |- context [wrap ?t ?e] => closed_num e; let v := eval vm_compute in (wrap t e) in change (wrap t e) with v
  | |- context [Z.land ?a ?b] => closed_num a; closed_num b; let v := eval vm_compute in (Z.land a b) in change (Z.land a b) with v
  end.

Lemma cast_u32_small v : 0 <= v < 2 ^ 32 -> cast U32 v = v.
Proof. intros H. cbv [cast wrap signed bits]. apply Z.mod_small. exact H. Qed.
Lemma cast_u8_small v : 0 <= v < 2 ^ 8 -> cast U8 v = v.
Proof. intros H. cbv [cast wrap signed bits]. apply Z.mod_small. exact H. Qed.
Ltac rng := first [ assumption | lia ].
(* casts of variables already known to be in range *)
Ltac simp_casts :=
  repeat match goal with
  | |- context [cast U32 ?v] => is_var v; rewrite (cast_u32_small v) by lia
  | |- context [cast U8 ?v] => is_var v; rewrite (cast_u8_small v) by lia
  end.

(* The goal has the form  Q (let x := v in body).  The let is floated out with a lemma (no `change`: the kernel re-checks nothing but a
   beta step), the bound value becomes a universally quantified variable with its defining equation. *)
Lemma let_float {A B : Type} (v : A) (body : A -> B) (Q : B -> Prop) :
  (forall x, x = v -> Q (body x)) -> Q (let x := v in body x).
Proof. intros H. exact (H v eq_refl). Qed.

(* One primitive call with two outputs occupies two consecutive lets (fst / snd of the same call): both are introduced as variables
   together with the linear equation and the ranges. *)
Ltac step2 lin :=
  simp_casts;
  lazymatch goal with
  | |- ?Q (let x := fst (?f ?c ?a ?b) in @?body x) =>
      let x' := fresh "v" in let k' := fresh "k" in let H := fresh "E" in
      let Hx := fresh in let Hk := fresh in
      refine (let_float (fst (f c a b)) body Q _); intros x' Hx; cbv beta;
      lazymatch goal with
      | |- Q (let k := snd (f c a b) in @?body2 k) =>
          refine (let_float (snd (f c a b)) body2 Q _); intros k' Hk; cbv beta
      end;
      let R1 := fresh in let R2 := fresh in let R3 := fresh in
      assert (R1 : 0 <= c <= 1) by rng; assert (R2 : 0 <= a < 2 ^ 32) by rng; assert (R3 : 0 <= b < 2 ^ 32) by rng;
      pose proof (lin c a b x' k' R1 R2 R3 Hx Hk) as H;
      clear R1 R2 R3 Hx Hk
  end.
Ltac step1 cm :=
  simp_casts;
  lazymatch goal with
  | |- ?Q (let x := ?f ?c ?a ?b in @?body x) =>
      let x' := fresh "r" in let H := fresh "E" in let Hx := fresh in
      refine (let_float (f c a b) body Q _); intros x' Hx; cbv beta;
      let R1 := fresh in let R2 := fresh in let R3 := fresh in
      assert (R1 : 0 <= c <= 1) by rng; assert (R2 : 0 <= a < 2 ^ 32) by rng; assert (R3 : 0 <= b < 2 ^ 32) by rng;
      pose proof (cm c a b x' R1 R2 R3 Hx) as H;
      clear R1 R2 R3 Hx
  end.
(* a plain let (no primitive call): keep the definition as an equation *)
Ltac steplet :=
  lazymatch goal with
  | |- ?Q (let x := ?v in @?body x) =>
      let x' := fresh "w" in let H := fresh "D" in
      refine (let_float v body Q _); intros x' H; cbv beta
  end.

Lemma mod_eq_0 a m r : 0 <= r < m -> a = r -> r = a mod m.
Proof. intros H ->. symmetry. apply Z.mod_small. exact H. Qed.
Lemma mod_eq_1 a m r : 0 <= r < m -> a = m + r -> r = a mod m.
Proof. intros H ->. apply Z.mod_unique with 1; lia. Qed.
Lemma mod_eq_m1 a m r : 0 <= r < m -> a = r - m -> r = a mod m.
Proof. intros H ->. apply Z.mod_unique with (-1); lia. Qed.
Ltac split_bit k := let Hk := fresh in assert (Hk : k = 0 \/ k = 1) by lia; destruct Hk; subst k.
