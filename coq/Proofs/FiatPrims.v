(* Specifications of the four fiat-crypto primitives, proved about their TRANSLATED bodies (Generated/Fiat*.v), for all arguments
   in range.  One tactic per primitive, used for the three copies (fq_, fr_, fp_). *)
Require Import ZArith List Lia.
From D377 Require Import Model.FiatPrelude.
Open Scope Z_scope.

Lemma land_ones32 x : 0 <= x -> Z.land x 4294967295 = x mod 2 ^ 32.
Proof. intros _. change 4294967295 with (Z.ones 32). apply Z.land_ones. lia. Qed.
Lemma land_ones32_neg x : Z.land x 4294967295 = x mod 2 ^ 32.
Proof. change 4294967295 with (Z.ones 32). apply Z.land_ones. lia. Qed.
Lemma shiftr32 x : Z.shiftr x 32 = x / 2 ^ 32.
Proof. apply Z.shiftr_div_pow2. lia. Qed.

Ltac unwrap := cbv [cast wrap signed bits]; cbn [fst snd].
Ltac zdm := Z.div_mod_to_equations; lia.

(* generic statements, instantiated by conversion *)
Definition addcarryx_ok (f : Z -> Z -> Z -> Z * Z) := forall c x y, 0 <= c <= 1 -> 0 <= x < 2 ^ 32 -> 0 <= y < 2 ^ 32 ->
  fst (f c x y) = (c + x + y) mod 2 ^ 32 /\ snd (f c x y) = (c + x + y) / 2 ^ 32.
Definition subborrowx_ok (f : Z -> Z -> Z -> Z * Z) := forall c x y, 0 <= c <= 1 -> 0 <= x < 2 ^ 32 -> 0 <= y < 2 ^ 32 ->
  fst (f c x y) = (x - c - y) mod 2 ^ 32 /\ snd (f c x y) = - ((x - c - y) / 2 ^ 32).
Definition mulx_ok (f : Z -> Z -> Z * Z) := forall x y, 0 <= x < 2 ^ 32 -> 0 <= y < 2 ^ 32 ->
  fst (f x y) = (x * y) mod 2 ^ 32 /\ snd (f x y) = (x * y) / 2 ^ 32.
Definition cmovznz_ok (f : Z -> Z -> Z -> Z) := forall c x y, 0 <= c <= 1 -> 0 <= x < 2 ^ 32 -> 0 <= y < 2 ^ 32 ->
  f c x y = if c =? 0 then x else y.

Ltac prove_addcarryx f :=
  unfold addcarryx_ok, f; intros c x y Hc Hx Hy; unwrap;
  rewrite land_ones32_neg, shiftr32;
  change (2 ^ 64) with 18446744073709551616; change (2 ^ 32) with 4294967296; change (2 ^ 8) with 256;
  split; zdm.

Ltac prove_subborrowx f :=
  unfold subborrowx_ok, f; intros c x y Hc Hx Hy; unwrap;
  rewrite shiftr32;
  change (2 ^ 64) with 18446744073709551616; change (2 ^ 32) with 4294967296; change (2 ^ 8) with 256;
  change (2 ^ (64 - 1)) with 9223372036854775808; change (2 ^ (8 - 1)) with 128;
  change ((4294967295 + 9223372036854775808) mod 18446744073709551616 - 9223372036854775808) with 4294967295;
  rewrite land_ones32_neg; change (2 ^ 32) with 4294967296;
  split; zdm.

Ltac prove_mulx f :=
  unfold mulx_ok, f; intros x y Hx Hy; unwrap;
  rewrite land_ones32_neg, shiftr32;
  change (2 ^ 64) with 18446744073709551616; change (2 ^ 32) with 4294967296;
  assert (0 <= x * y <= 4294967295 * 4294967295) by nia;
  split; zdm.

Lemma land_mask_l x : 0 <= x < 2 ^ 32 -> Z.land 4294967295 x = x.
Proof. intros H. rewrite Z.land_comm, land_ones32_neg. apply Z.mod_small. exact H. Qed.

Ltac prove_cmovznz f :=
  unfold cmovznz_ok, f; intros c x y Hc Hx Hy;
  assert (Hc' : c = 0 \/ c = 1) by lia; destruct Hc' as [-> | ->]; unwrap; cbn [Z.eqb];
  match goal with |- context [Z.land ?a ?b mod 2 ^ 32] =>
    let v := eval vm_compute in (Z.land a b mod 2 ^ 32) in change (Z.land a b mod 2 ^ 32) with v end;
  match goal with |- context [Z.lnot ?a mod 2 ^ 32] =>
    let v := eval vm_compute in (Z.lnot a mod 2 ^ 32) in change (Z.lnot a mod 2 ^ 32) with v end;
  rewrite ?Z.land_0_l, ?Z.lor_0_l, ?Z.lor_0_r; apply land_mask_l; assumption.
