(* C01 / C02 / C03 : the decaf377 codec (field part of vartime_decompress / vartime_compress_to_field)
   against the specification Decaf_1_1_Point.{decodeSpec, encodeSpec}.
   Everything is proved over an abstract field with a = -1, d and a-d non-squares, and the four-clause
   contract of sqrt_ratio_zeta.  No axioms. *)
Require Import ZArith Bool.
From D377 Require Import Base.FieldSec Model.Decaf Spec.Edwards Spec.DecafSpec.

Section Codec.
  Context {AF : AField}.
  Add Field Fcodec : Ffield.
  Local Notation "0" := zero. Local Notation "1" := one.
  Local Infix "+" := add. Local Infix "*" := mul. Local Infix "-" := sub. Local Infix "/" := div.
  Local Notation "- x" := (opp x).

  Variables (d zeta : F) (neg : F -> bool) (sr : F -> F -> bool * F).
  Local Notation a := (opp one).
  Local Notation amd := (opp one - d).

  Hypothesis neg0 : neg 0 = false.
  Hypothesis neg_opp : forall x, x <> 0 -> neg (- x) = negb (neg x).
  Hypothesis two_nz : two <> 0.
  Hypothesis d_ns : forall w, w * w <> d.
  Hypothesis amd_ns : forall w, w * w <> a - d.
  Hypothesis m1_sq : exists i, i * i = - (1).
  Hypothesis zeta_ns : forall w, w * w <> zeta.
  Hypothesis Hsr : sqrt_ratio_contract zeta sr.

  Local Notation decode := (decode d neg sr).
  Local Notation encode := (encode a d neg sr).
  Local Notation fabs := (fabs neg).
  Local Notation valid := (valid a d).
  Local Notation wf := (wf a d).

  (* ------------------------------------------------------------------ *)
  (* the contract, clause by clause *)
  Lemma sr_num0 : forall den, sr 0 den = (true, 0).
  Proof. destruct Hsr as (H & _). exact H. Qed.
  Lemma sr_den0 : forall num, num <> 0 -> sr num 0 = (false, 0).
  Proof. destruct Hsr as (_ & H & _). exact H. Qed.
  Lemma sr_nz : forall num den, num <> 0 -> den <> 0 ->
     (fst (sr num den) = true /\ snd (sr num den) * snd (sr num den) * den = num) \/
     (fst (sr num den) = false /\ snd (sr num den) * snd (sr num den) * den = zeta * num).
  Proof.
    destruct Hsr as (_ & _ & H & _). intros num den Hn Hd. specialize (H num den Hn Hd).
    destruct (sr num den) as [b y]. exact H.
  Qed.

  (* ------------------------------------------------------------------ *)
  (* small field facts *)
  Lemma one_nz : 1 <> 0. Proof. destruct Ffield; auto. Qed.
  Lemma amd_nz : amd <> 0.
  Proof. intro E. apply (amd_ns 0). rewrite E. ring. Qed.
  Lemma d_nz : d <> 0.
  Proof. intro E. apply (d_ns 0). rewrite E. ring. Qed.
  Lemma mul_nz x y : x <> 0 -> y <> 0 -> x * y <> 0.
  Proof. intros Hx Hy E. apply F_id in E. tauto. Qed.
  Lemma mul_nz_l x y : x * y <> 0 -> x <> 0.
  Proof. intros H E. apply H. rewrite E. ring. Qed.
  Lemma mul_nz_r x y : x * y <> 0 -> y <> 0.
  Proof. intros H E. apply H. rewrite E. ring. Qed.
  Lemma sq_eq x y : x * x = y * y -> x = y \/ x = - y.
  Proof.
    intro H. assert (E : (x - y) * (x + y) = 0)
      by (replace ((x - y) * (x + y)) with (x * x - y * y) by ring; rewrite H; ring).
    apply F_id in E. destruct E as [E|E]; [left|right].
    - replace x with ((x - y) + y) by ring. rewrite E. ring.
    - replace x with ((x + y) - y) by ring. rewrite E. ring.
  Qed.
  Lemma mul_cancel_r x y c : c <> 0 -> x * c = y * c -> x = y.
  Proof.
    intros Hc H. assert (E : (x - y) * c = 0) by (transitivity (x * c - y * c); [ring|rewrite H; ring]).
    apply F_id in E. destruct E as [E|E]; [|tauto]. transitivity ((x - y) + y); [ring|rewrite E; ring].
  Qed.
  Lemma mul_cancel_l x y c : c <> 0 -> c * x = c * y -> x = y.
  Proof. intros Hc H. apply (mul_cancel_r x y c Hc). rewrite (r11 x c), (r11 y c). exact H. Qed.
  Lemma opp_nz x : x <> 0 -> - x <> 0.
  Proof. intros H E. apply H. transitivity (- - x); [ring|rewrite E; ring]. Qed.
  Lemma two_two_nz : two * two <> 0.
  Proof. apply mul_nz; exact two_nz. Qed.
  Lemma inv_l x : x <> 0 -> inv x * x = 1.
  Proof. destruct Ffield as [_ _ _ H]. exact (H x). Qed.
  Lemma div_def x y : x / y = x * inv y.
  Proof. destruct Ffield as [_ _ H _]. exact (H x y). Qed.
  Lemma div_eq x y z : y <> 0 -> x = z * y -> x / y = z.
  Proof. intros Hy ->. rewrite div_def. transitivity (z * (inv y * y)); [ring|]. rewrite inv_l by exact Hy. ring. Qed.
  Lemma div_mul x y : y <> 0 -> (x / y) * y = x.
  Proof. intro Hy. rewrite div_def. transitivity (x * (inv y * y)); [ring|]. rewrite inv_l by exact Hy. ring. Qed.
  Lemma div_0 y : 0 / y = 0.
  Proof. rewrite div_def. ring. Qed.
  (* z (c c) a square  ->  z a square *)
  Lemma sq_div z c w : c <> 0 -> w * w = z * (c * c) -> (w * inv c) * (w * inv c) = z.
  Proof.
    intros Hc H. transitivity (w * w * (inv c * inv c)); [ring|]. rewrite H.
    transitivity (z * ((inv c * c) * (inv c * c))); [ring|]. rewrite inv_l by exact Hc. ring.
  Qed.

  (* ------------------------------------------------------------------ *)
  (* signs *)
  Lemma fabs0 : fabs 0 = 0. Proof. unfold Decaf.fabs. rewrite neg0. reflexivity. Qed.
  Lemma fabs_nonneg x : neg x = false -> fabs x = x.
  Proof. unfold Decaf.fabs; intros ->; reflexivity. Qed.
  Lemma fabs_opp_nonneg x : neg x = false -> fabs (- x) = x.
  Proof.
    intro H. destruct (F_dec x 0) as [->|Hx].
    - replace (- 0) with 0 by ring. apply fabs0.
    - unfold Decaf.fabs. rewrite neg_opp, H by assumption. simpl. ring.
  Qed.
  Lemma neg_fabs x : neg (fabs x) = false.
  Proof.
    unfold Decaf.fabs. destruct (neg x) eqn:E; [|exact E].
    destruct (F_dec x 0) as [->|Hx]; [rewrite neg0 in E; discriminate|].
    rewrite neg_opp, E by exact Hx. reflexivity.
  Qed.
  Lemma fabs_opp x : fabs (- x) = fabs x.
  Proof.
    destruct (neg x) eqn:E.
    - assert (Hx : x <> 0) by (intros ->; rewrite neg0 in E; discriminate).
      unfold Decaf.fabs. rewrite neg_opp, E by exact Hx. reflexivity.
    - rewrite fabs_opp_nonneg, fabs_nonneg by exact E. reflexivity.
  Qed.
  Lemma fabs_cases x : fabs x = x \/ fabs x = - x.
  Proof. unfold Decaf.fabs. destruct (neg x); auto. Qed.
  (* a non-zero element and its opposite cannot both be non-negative *)
  Lemma neg_both x : x <> 0 -> neg x = false -> neg (- x) = false -> False.
  Proof. intros Hx H1 H2. rewrite neg_opp, H1 in H2 by exact Hx. discriminate. Qed.

  (* ================================================================== *)
  (* 1.  C01 : re-encoding any decoded string reproduces it              *)
  Theorem enc_dec s P : decode s = Some P -> encode P = s.
  Proof.
    unfold Decaf.decode. destruct (neg s) eqn:Hs; [discriminate|].
    cbv zeta. rewrite fofZ_4.
    remember (s * s) as ss eqn:Ess. remember (1 - ss) as u1 eqn:Eu1.
    remember (u1 * u1 - d * (two * two) * ss) as u2 eqn:Eu2.
    destruct (sr 1 (u2 * (u1 * u1))) as [sq v0] eqn:Hsr0.
    destruct sq; simpl; [|discriminate].
    remember (if neg (two * s * u1 * v0) then - v0 else v0) as v eqn:Ev.
    intro HP. injection HP as <-.
    assert (Hchk : neg (two * s * u1 * v) = false).
    { rewrite Ev. destruct (neg (two * s * u1 * v0)) eqn:Hc; [|exact Hc].
      replace (two * s * u1 * (- v0)) with (- (two * s * u1 * v0)) by ring.
      rewrite neg_opp, Hc; [reflexivity|]. intro Z0. rewrite Z0, neg0 in Hc. discriminate. }
    assert (Hvv : v * v = v0 * v0) by (rewrite Ev; destruct (neg (two * s * u1 * v0)); ring).
    clear Ev.
    destruct (F_dec (u2 * (u1 * u1)) 0) as [Hden|Hden].
    { rewrite Hden, sr_den0 in Hsr0 by exact one_nz. discriminate. }
    destruct (sr_nz 1 _ one_nz Hden) as [[_ Hv]|[Hf _]]; rewrite Hsr0 in *; simpl in *; [|discriminate].
    assert (Hk : (v * u1) * (v * u1) * u2 = 1) by (rewrite <- Hv, <- Hvv; ring).
    assert (Hu1 : u1 <> 0) by (intro Z0; apply Hden; rewrite Z0; ring).
    assert (Hu2 : u2 <> 0) by (intro Z0; apply Hden; rewrite Z0; ring).
    assert (Hvnz : v <> 0) by (intro Z0; rewrite Z0 in Hk; apply one_nz; rewrite <- Hk; ring).
    clear Hsr0 Hv Hvv v0 Hden.
    remember (v * u1) as k eqn:Ek.
    assert (Hknz : k <> 0) by (intro Z0; rewrite Z0 in Hk; apply one_nz; rewrite <- Hk; ring).
    unfold Decaf.encode. cbn [pX pY pZ pT].
    destruct (F_dec s 0) as [Hs0|Hs0].
    { subst s.
      replace (two * 0 * u1 * (v * v) * u2) with 0 by ring.
      replace (0 * ((1 + ss) * v * u1)) with 0 by ring.
      replace ((0 + 0) * (0 - 0) * amd * (0 * 0)) with 0 by ring.
      rewrite sr_den0 by exact one_nz.
      replace (0 * ((0 + 0) * (0 - 0))) with 0 by ring. rewrite fabs0.
      replace (amd * 0 * (0 * 1 - 0) * 0) with 0 by ring. apply fabs0. }
    set (x := two * s * u1 * (v * v) * u2).
    set (y := (1 + ss) * v * u1).
    assert (Hx : x * u1 = two * s).
    { unfold x. transitivity (two * s * ((v * u1) * (v * u1) * u2)); [ring|]. rewrite <- Ek, Hk. ring. }
    assert (Hy : y = (1 + ss) * k) by (unfold y; rewrite Ek; ring).
    assert (Hxnz : x <> 0).
    { intro Z0. rewrite Z0 in Hx. assert (E : two * s = 0) by (rewrite <- Hx; ring). apply F_id in E. tauto. }
    assert (Hy2 : 1 - y * y = two * two * amd * ss * (k * k)).
    { rewrite Hy.
      transitivity ((k * k * u2) - (1 + ss) * (1 + ss) * (k * k)); [rewrite <- Hk; ring|].
      rewrite Eu2, Eu1. unfold two. ring. }
    set (den := (x + x * y) * (x - x * y) * amd * (x * x)).
    set (w := amd * (x * x) * (two * s * k)).
    assert (Hdw : den = w * w).
    { unfold den, w. transitivity (amd * (x * x * x * x) * (1 - y * y)); [ring|]. rewrite Hy2, Ess. ring. }
    assert (Hwnz : w <> 0).
    { unfold w. repeat apply mul_nz; try assumption. exact amd_nz. }
    assert (Hdnz : den <> 0) by (rewrite Hdw; apply mul_nz; exact Hwnz).
    destruct (sr 1 den) as [b2 v2] eqn:Hsr2.
    destruct (sr_nz 1 den one_nz Hdnz) as [[_ Hv2]|[_ Hv2]]; rewrite Hsr2 in Hv2; simpl in Hv2.
    2:{ exfalso. apply (zeta_ns (v2 * w)). rewrite Hdw in Hv2. transitivity (zeta * 1); [|ring]. rewrite <- Hv2. ring. }
    assert (Hv2w : (v2 * w) * (v2 * w) = 1 * 1)
      by (transitivity (v2 * v2 * (w * w)); [ring | rewrite <- Hdw, Hv2; ring]).
    assert (Hu1' : (x + x * y) * (x - x * y) = x * x * (two * two * amd * ss * (k * k))) by (rewrite <- Hy2; ring).
    assert (Hchk' : neg (two * s * k) = false)
      by (rewrite Ek; replace (two * s * (v * u1)) with (two * s * u1 * v) by ring; exact Hchk).
    assert (A1 : (v2 * w) * (two * s * k) = v2 * ((x + x * y) * (x - x * y))).
    { rewrite Hu1'. unfold w. rewrite Ess. ring. }
    assert (Hxy : x * y * u1 = two * s * (1 + ss) * k)
      by (rewrite Hy; transitivity ((x * u1) * ((1 + ss) * k)); [ring|rewrite Hx; ring]).
    assert (Hwu : w * u1 <> 0) by (apply mul_nz; assumption).
    apply sq_eq in Hv2w. destruct Hv2w as [Hp|Hm].
    - assert (B1 : v2 * ((x + x * y) * (x - x * y)) = two * s * k) by (rewrite <- A1, Hp; ring).
      rewrite B1. rewrite (fabs_nonneg _ Hchk').
      assert (C : amd * v2 * (two * s * k * 1 - x * y) * x = - s).
      { assert (D : (amd * v2 * (two * s * k * 1 - x * y) * x) * (w * u1) = (- s) * (w * u1)).
        { transitivity ((v2 * w) * (amd * x * (two * s * k * u1 - x * y * u1))); [ring|].
          rewrite Hp, Hxy. unfold w. rewrite Eu1.
          transitivity (amd * x * (two * s * k) * (- (two) * ss)); [unfold two; ring|].
          transitivity (- (amd * (x * u1) * x * (two * s * k)) * s); [rewrite Hx, Ess; ring|].
          rewrite <- Eu1. ring. }
        exact (mul_cancel_r _ _ _ Hwu D). }
      rewrite C. apply fabs_opp_nonneg. exact Hs.
    - assert (B1 : v2 * ((x + x * y) * (x - x * y)) = - (two * s * k)) by (rewrite <- A1, Hm; ring).
      rewrite B1. rewrite (fabs_opp_nonneg _ Hchk').
      assert (C : amd * v2 * (two * s * k * 1 - x * y) * x = s).
      { assert (D : (amd * v2 * (two * s * k * 1 - x * y) * x) * (w * u1) = s * (w * u1)).
        { transitivity ((v2 * w) * (amd * x * (two * s * k * u1 - x * y * u1))); [ring|].
          rewrite Hm, Hxy. unfold w. rewrite Eu1.
          transitivity (- (amd * x * (two * s * k) * (- (two) * ss))); [unfold two; ring|].
          transitivity ((amd * (x * u1) * x * (two * s * k)) * s); [rewrite Hx, Ess; ring|].
          rewrite <- Eu1. ring. }
        exact (mul_cancel_r _ _ _ Hwu D). }
      rewrite C. apply fabs_nonneg. exact Hs.
  Qed.

  (* ================================================================== *)
  (* shape of a successful decoding *)
  Local Notation U1 s := (1 - s * s).
  Local Notation U2 s := ((1 - s * s) * (1 - s * s) - d * (two * two) * (s * s)).

  Lemma decode_some s P : decode s = Some P ->
    exists k x, neg s = false /\ U1 s <> 0 /\ k * k * U2 s = 1 /\ neg (two * s * k) = false /\
                x * U1 s = two * s /\ P = mkpt x ((1 + s * s) * k) 1 (x * ((1 + s * s) * k)).
  Proof.
    unfold Decaf.decode. destruct (neg s) eqn:Hs; [discriminate|].
    cbv zeta. rewrite fofZ_4.
    remember (s * s) as ss eqn:Ess. remember (1 - ss) as u1 eqn:Eu1.
    remember (u1 * u1 - d * (two * two) * ss) as u2 eqn:Eu2.
    destruct (sr 1 (u2 * (u1 * u1))) as [sq v0] eqn:Hsr0.
    destruct sq; simpl; [|discriminate].
    remember (if neg (two * s * u1 * v0) then - v0 else v0) as v eqn:Ev.
    intro HP. injection HP as <-.
    assert (Hchk : neg (two * s * u1 * v) = false).
    { rewrite Ev. destruct (neg (two * s * u1 * v0)) eqn:Hc; [|exact Hc].
      replace (two * s * u1 * (- v0)) with (- (two * s * u1 * v0)) by ring.
      rewrite neg_opp, Hc; [reflexivity|]. intro Z0. rewrite Z0, neg0 in Hc. discriminate. }
    assert (Hvv : v * v = v0 * v0) by (rewrite Ev; destruct (neg (two * s * u1 * v0)); ring).
    clear Ev.
    destruct (F_dec (u2 * (u1 * u1)) 0) as [Hden|Hden].
    { rewrite Hden, sr_den0 in Hsr0 by exact one_nz. discriminate. }
    destruct (sr_nz 1 _ one_nz Hden) as [[_ Hv]|[Hf _]]; rewrite Hsr0 in *; simpl in *; [|discriminate].
    assert (Hk : (v * u1) * (v * u1) * u2 = 1) by (rewrite <- Hv, <- Hvv; ring).
    assert (Hu1 : u1 <> 0) by (intro Z0; apply Hden; rewrite Z0; ring).
    exists (v * u1), (two * s * u1 * (v * v) * u2).
    repeat split.
    - exact Hu1.
    - exact Hk.
    - replace (two * s * (v * u1)) with (two * s * u1 * v) by ring. exact Hchk.
    - transitivity (two * s * ((v * u1) * (v * u1) * u2)); [ring|]. rewrite Hk. ring.
    - f_equal; ring.
  Qed.

  (* converse, for s <> 0 (for s = 0 the sign of the root returned by sr 1 1 matters) *)
  Lemma decode_intro s k x :
    neg s = false -> U1 s <> 0 -> k * k * U2 s = 1 -> x * U1 s = two * s ->
    (s <> 0 -> neg (two * s * k) = false) ->
    exists k', (s <> 0 -> k' = k) /\ k' * k' = k * k /\
      decode s = Some (mkpt x ((1 + s * s) * k') 1 (x * ((1 + s * s) * k'))).
  Proof.
    intros Hs Hu1 Hk Hx Hchk.
    unfold Decaf.decode. rewrite Hs. cbv zeta. rewrite fofZ_4.
    remember (s * s) as ss eqn:Ess. remember (1 - ss) as u1 eqn:Eu1.
    remember (u1 * u1 - d * (two * two) * ss) as u2 eqn:Eu2.
    assert (Hknz : k <> 0) by (intro Z0; rewrite Z0 in Hk; apply one_nz; rewrite <- Hk; ring).
    assert (Hu2 : u2 <> 0) by (intro Z0; rewrite Z0 in Hk; apply one_nz; rewrite <- Hk; ring).
    assert (Hden : u2 * (u1 * u1) <> 0) by (repeat apply mul_nz; assumption).
    destruct (sr 1 (u2 * (u1 * u1))) as [sq v0] eqn:Hsr0.
    destruct (sr_nz 1 _ one_nz Hden) as [[Hb Hv]|[Hb Hv]]; rewrite Hsr0 in *; simpl in Hb, Hv; subst sq; simpl.
    2:{ exfalso. apply (zeta_ns ((v0 * u1 * (k * u2)) * inv 1)). apply sq_div; [exact one_nz|].
        transitivity ((v0 * v0 * (u2 * (u1 * u1))) * (k * k * u2)); [ring|]. rewrite Hv, Hk. ring. }
    remember (if neg (two * s * u1 * v0) then - v0 else v0) as v eqn:Ev.
    assert (Hchk' : neg (two * s * u1 * v) = false).
    { rewrite Ev. destruct (neg (two * s * u1 * v0)) eqn:Hc; [|exact Hc].
      replace (two * s * u1 * (- v0)) with (- (two * s * u1 * v0)) by ring.
      rewrite neg_opp, Hc; [reflexivity|]. intro Z0. rewrite Z0, neg0 in Hc. discriminate. }
    assert (Hvv : v * v = v0 * v0) by (rewrite Ev; destruct (neg (two * s * u1 * v0)); ring).
    clear Ev.
    assert (Hk' : (v * u1) * (v * u1) * u2 = 1) by (rewrite <- Hv, <- Hvv; ring).
    assert (Hkk : (v * u1) * (v * u1) = k * k).
    { apply (mul_cancel_r _ _ u2 Hu2). rewrite Hk', Hk. reflexivity. }
    exists (v * u1). split; [|split].
    - intro Hs0. destruct (sq_eq _ _ Hkk) as [E|E]; [exact E|]. exfalso.
      apply (neg_both (two * s * k)).
      + repeat apply mul_nz; assumption.
      + exact (Hchk Hs0).
      + replace (- (two * s * k)) with (two * s * u1 * v); [exact Hchk'|].
        transitivity (two * s * (v * u1)); [ring|]. rewrite E. ring.
    - exact Hkk.
    - f_equal. assert (Ex : two * s * u1 * (v * v) * u2 = x).
      { apply (mul_cancel_r _ _ u1 Hu1). rewrite Hx.
        transitivity (two * s * ((v * u1) * (v * u1) * u2)); [ring|]. rewrite Hk'. ring. }
      rewrite Ex. f_equal; ring.
  Qed.

  (* ================================================================== *)
  (* 2.  decoded points are valid: on the curve, Z = 1, T = XY, and (a-d)(a - d y^2) = ((a-d) k u1)^2 *)
  Theorem decode_wf_valid s P : decode s = Some P -> valid P.
  Proof.
    intro H. destruct (decode_some s P H) as (k & x & Hs & Hu1 & Hk & Hchk & Hx & ->).
    remember (s * s) as ss eqn:Ess. remember (1 - ss) as u1 eqn:Eu1.
    unfold Edwards.valid, Edwards.wf. cbn [pX pY pZ pT]. repeat split.
    - exact one_nz.
    - ring.
    - apply (mul_cancel_r _ _ (u1 * u1) (mul_nz _ _ Hu1 Hu1)).
      transitivity (a * ((x * u1) * (x * u1)) + ((1 + ss) * (1 + ss)) * (u1 * u1) * (k * k)); [ring|].
      transitivity ((1 * 1) * (u1 * u1) + d * ((x * u1) * (x * u1)) * ((1 + ss) * (1 + ss)) * (k * k)); [|ring].
      rewrite Hx.
      transitivity (a * (two * s * (two * s)) * (k * k * (u1 * u1 - d * (two * two) * ss))
                    + (1 + ss) * (1 + ss) * (u1 * u1) * (k * k)); [rewrite Hk; ring|].
      transitivity (u1 * u1 * (k * k * (u1 * u1 - d * (two * two) * ss))
                    + d * (two * s * (two * s)) * ((1 + ss) * (1 + ss)) * (k * k)); [|rewrite Hk; ring].
      subst u1 ss. unfold two. ring.
    - exists (amd * k * u1).
      transitivity (amd * (a * (k * k * (u1 * u1 - d * (two * two) * ss)) - d * ((1 + ss) * k * ((1 + ss) * k)))).
      + rewrite Eu1. unfold two. ring.
      + rewrite Hk. ring.
  Qed.

  (* ================================================================== *)
  (* 3.  C02 : the decoder accepts exactly what decodeSpec accepts, and returns that point *)
  Theorem decode_rejects_negative s : neg s = true -> decode s = None.
  Proof. intro H. unfold Decaf.decode. rewrite H. reflexivity. Qed.

  Theorem decode_rejects_minus_one : decode (- (1)) = None.
  Proof.
    unfold Decaf.decode. destruct (neg (- (1))); [reflexivity|]. cbv zeta.
    replace (1 - - (1) * - (1)) with 0 by ring.
    match goal with |- context [sr 1 ?r] => replace r with 0 by ring end.
    rewrite sr_den0 by exact one_nz. reflexivity.
  Qed.

  (* without any assumption on which root of 1 the square-root routine returns *)
  Lemma decode_zero_gen : exists y, y * y = 1 /\ decode 0 = Some (mkpt 0 y 1 0).
  Proof.
    destruct (decode_intro 0 1 0) as (k' & _ & Hkk & Hd).
    - exact neg0.
    - replace (1 - 0 * 0) with 1 by ring. exact one_nz.
    - ring.
    - ring.
    - intro H. exfalso. apply H. reflexivity.
    - exists k'. split; [rewrite Hkk; ring|]. rewrite Hd. f_equal. f_equal; ring.
  Qed.

  Lemma spec_poly s :
    a * a * (s * s * s * s) + two * (a - two * d) * (s * s) + 1 = U2 s.
  Proof. unfold two. ring. Qed.

  (* the case s <> 0 needs no assumption on sr 1 1 *)
  Lemma decode_iff_spec_nz s P : s <> 0 ->
    (decode s = Some P <-> exists p, decodeSpec a d neg s p /\ P = of_affine p).
  Proof.
    intro Hs0. split.
    - intro H. destruct (decode_some s P H) as (k & x & Hs & Hu1 & Hk & Hchk & Hx & ->).
      assert (Hknz : k <> 0) by (intro Z0; rewrite Z0 in Hk; apply one_nz; rewrite <- Hk; ring).
      assert (Hik : inv k * k = 1) by (apply inv_l; exact Hknz).
      assert (Hiknz : inv k <> 0) by (intro Z0; rewrite Z0 in Hik; apply one_nz; rewrite <- Hik; ring).
      assert (Hu1' : 1 + a * (s * s) <> 0) by (replace (1 + a * (s * s)) with (1 - s * s) by ring; exact Hu1).
      assert (Ex : two * s / (1 + a * (s * s)) = x).
      { apply div_eq; [exact Hu1'|]. rewrite <- Hx. ring. }
      assert (Ey : (1 - a * (s * s)) / inv k = (1 + s * s) * k).
      { apply div_eq; [exact Hiknz|]. transitivity ((1 + s * s) * (inv k * k)); [rewrite Hik; ring|ring]. }
      exists (mkapt (two * s / (1 + a * (s * s))) ((1 - a * (s * s)) / inv k)).
      split.
      + split; [exact Hs|]. right. split; [exact Hs0|]. exists (inv k). repeat split.
        * rewrite spec_poly. transitivity ((inv k * k) * (inv k * k) * U2 s); [|rewrite Hik; ring].
          transitivity (inv k * inv k * (k * k * U2 s)); [rewrite Hk; ring|ring].
        * exact Hiknz.
        * exact Hu1'.
        * replace (two * s / inv k) with (two * s * k); [exact Hchk|].
          symmetry. apply div_eq; [exact Hiknz|]. transitivity (two * s * (inv k * k)); [rewrite Hik; ring|ring].
      + unfold of_affine. cbn [aX aY]. rewrite Ex, Ey. reflexivity.
    - intros (p & (Hs & [[E _]|(_ & t & Ht & Htnz & Hu1' & Hchk & ->)]) & ->); [contradiction|].
      assert (Hit : inv t * t = 1) by (apply inv_l; exact Htnz).
      assert (Hu1 : U1 s <> 0) by (replace (1 - s * s) with (1 + a * (s * s)) by ring; exact Hu1').
      rewrite spec_poly in Ht.
      destruct (decode_intro s (inv t) (two * s / (1 + a * (s * s)))) as (k' & Hk' & _ & Hd).
      + exact Hs.
      + exact Hu1.
      + rewrite <- Ht. transitivity ((inv t * t) * (inv t * t)); [ring|rewrite Hit; ring].
      + replace (1 - s * s) with (1 + a * (s * s)) by ring. apply div_mul. exact Hu1'.
      + intros _. rewrite <- div_def. exact Hchk.
      + rewrite Hd, (Hk' Hs0). unfold of_affine. cbn [aX aY].
        replace ((1 - a * (s * s)) / t) with ((1 + s * s) * inv t); [reflexivity|].
        rewrite div_def. ring.
  Qed.

  (* acceptance sets coincide, whatever root of 1 the square-root routine returns *)
  Theorem decode_accepts_iff s : (exists P, decode s = Some P) <-> (exists p, decodeSpec a d neg s p).
  Proof.
    destruct (F_dec s 0) as [->|Hs0].
    - split; intros _.
      + exists (mkapt 0 1). split; [exact neg0|]. left. split; reflexivity.
      + destruct decode_zero_gen as (y & _ & H). exists (mkpt 0 y 1 0). exact H.
    - split.
      + intros (P & H). apply (decode_iff_spec_nz s P Hs0) in H. destruct H as (p & H & _). exists p. exact H.
      + intros (p & H). exists (of_affine p). apply (decode_iff_spec_nz s _ Hs0). exists p. split; [exact H|reflexivity].
  Qed.

  (* the decoded point is the specification's point; for s = 0 possibly (0,-1) instead of (0,1) *)
  Theorem decode_sound_gen s P : decode s = Some P ->
    exists p e, decodeSpec a d neg s p /\ e * e = 1 /\ (s <> 0 -> e = 1) /\
                P = mkpt (e * aX p) (e * aY p) 1 (aX p * aY p).
  Proof.
    intro H. destruct (F_dec s 0) as [->|Hs0].
    - destruct decode_zero_gen as (y & Hy & Hd). rewrite Hd in H. injection H as <-.
      exists (mkapt 0 1), y. split; [|split; [exact Hy|split]].
      + split; [exact neg0|]. left. split; reflexivity.
      + intro E. exfalso. apply E. reflexivity.
      + cbn [aX aY]. f_equal; ring.
    - apply (decode_iff_spec_nz s P Hs0) in H. destruct H as (p & H & ->).
      exists p, 1. split; [exact H|]. split; [ring|]. split; [reflexivity|].
      unfold of_affine. f_equal; ring.
  Qed.

  (* ================================================================== *)
  (* 5a.  encodings are non-negative *)
  Theorem encode_nonneg P : neg (encode P) = false.
  Proof.
    unfold Decaf.encode.
    match goal with |- context [sr 1 ?r] => destruct (sr 1 r) as [b v] end. apply neg_fabs.
  Qed.

  (* ================================================================== *)
  (* facts about valid points *)
  Local Notation W Y Z := (a * (Z * Z) - d * (Y * Y)).

  Lemma valid_Y_nz P : valid P -> pY P <> 0.
  Proof.
    destruct P as [X Y Z T]. intros ((HZ & HT & HC) & (w & Hw)) HY. cbn [pX pY pZ pT] in *. subst Y.
    assert (T0 : T = 0).
    { assert (E : Z * T = 0) by (rewrite <- HT; ring). apply F_id in E. tauto. }
    subst T.
    assert (E : X * X = - (Z * Z)).
    { transitivity (- (a * (X * X) + 0 * 0)); [ring|]. rewrite HC. ring. }
    assert (HX : X <> 0).
    { intros ->. apply (mul_nz Z Z HZ HZ). transitivity (- (0 * 0)); [rewrite E|]; ring. }
    apply (amd_ns (w * inv X)). apply sq_div; [exact HX|]. rewrite Hw, E. ring.
  Qed.

  (* homogeneous curve equation without T *)
  Lemma wf_hom X Y Z T : wf (mkpt X Y Z T) ->
    a * (X * X) * (Z * Z) + Y * Y * (Z * Z) = Z * Z * (Z * Z) + d * (X * X) * (Y * Y).
  Proof.
    intros (HZ & HT & HC). cbn [pX pY pZ pT] in *.
    transitivity ((a * (X * X) + Y * Y) * (Z * Z)); [ring|]. rewrite HC.
    transitivity (Z * Z * (Z * Z) + d * ((Z * T) * (Z * T))); [ring|]. rewrite <- HT. ring.
  Qed.

  Lemma hom_K2 X Y Z :
    a * (X * X) * (Z * Z) + Y * Y * (Z * Z) = Z * Z * (Z * Z) + d * (X * X) * (Y * Y) ->
    Z * Z * (Z * Z - Y * Y) = X * X * W Y Z.
  Proof.
    intro H. transitivity (Z * Z * (Z * Z) - Y * Y * (Z * Z)); [ring|].
    transitivity (Z * Z * (Z * Z) - (a * (X * X) * (Z * Z) + Y * Y * (Z * Z)) + a * (X * X) * (Z * Z)); [ring|].
    rewrite H. ring.
  Qed.

  Lemma W_nz Y Z : Z <> 0 -> Y <> 0 -> W Y Z <> 0.
  Proof.
    intros HZ HY E. destruct m1_sq as (i & Hi).
    apply (d_ns ((i * Z) * inv Y)). apply sq_div; [exact HY|].
    transitivity ((i * i) * (Z * Z)); [ring|]. rewrite Hi.
    transitivity (a * (Z * Z) - W Y Z); [rewrite E|]; ring.
  Qed.

  (* ================================================================== *)
  (* algebra of the encoder: e1, e2 are the two signs (of the root returned by sr, and of fabs) *)
  Lemma encode_alg X Y Z T m0 v e1 e2 :
    Z <> 0 -> X <> 0 -> X * Y = Z * T ->
    a * (X * X) * (Z * Z) + Y * Y * (Z * Z) = Z * Z * (Z * Z) + d * (X * X) * (Y * Y) ->
    m0 * m0 = amd * W Y Z ->
    v * (X * X * X) * m0 = e1 * (Z * Z) -> e1 * e1 = 1 -> e2 * e2 = 1 ->
    (e1 * e2 * m0) * (e1 * e2 * m0) = amd * W Y Z /\
    (e2 * (v * ((X + T) * (X - T)))) * amd * (Z * Z) = X * (e1 * e2 * m0) /\
    (e2 * (amd * v * (e2 * (v * ((X + T) * (X - T))) * Z - T) * X)) * X * (e1 * e2 * m0)
      = Z * (e1 * e2 * m0 - amd * Y).
  Proof.
    intros HZ HX HT HK3 Hm Hg He1 He2.
    pose proof (hom_K2 X Y Z HK3) as HK2.
    remember (W Y Z) as w eqn:Ew.
    assert (HK1 : (Z * Z) * (Z * Z) * ((X + T) * (X - T)) = X * X * (X * X) * w).
    { transitivity (Z * Z * (X * X) * (Z * Z) - (Z * Z) * ((Z * T) * (Z * T))); [ring|]. rewrite <- HT.
      transitivity (X * X * (Z * Z * (Z * Z - Y * Y))); [ring|]. rewrite HK2. ring. }
    remember ((X + T) * (X - T)) as u1 eqn:Eu1.
    assert (HA : (e2 * (v * u1)) * amd * (Z * Z) = X * (e1 * e2 * m0)).
    { apply (mul_cancel_l _ _ (Z * Z) (mul_nz _ _ HZ HZ)).
      transitivity (e2 * v * amd * ((Z * Z) * (Z * Z) * u1)); [ring|]. rewrite HK1.
      transitivity (e2 * v * (X * X * (X * X)) * (amd * w)); [ring|]. rewrite <- Hm.
      transitivity (e2 * X * m0 * (v * (X * X * X) * m0)); [ring|]. rewrite Hg. ring. }
    split; [|split].
    - transitivity ((e1 * e1) * (e2 * e2) * (m0 * m0)); [ring|]. rewrite He1, He2, Hm. ring.
    - exact HA.
    - apply (mul_cancel_l _ _ X HX).
      transitivity ((e2 * e2) * e1 * (amd * (e2 * (v * u1) * Z - T)) * (v * (X * X * X) * m0)); [ring|].
      rewrite Hg, He2.
      transitivity ((e1 * e1) * ((e2 * (v * u1) * amd * (Z * Z)) * Z - amd * (Z * T) * Z)); [ring|].
      rewrite He1, HA, <- HT. ring.
  Qed.

  Lemma fabs_sign x : exists e, e * e = 1 /\ fabs x = e * x.
  Proof.
    destruct (fabs_cases x) as [E|E]; [exists 1|exists (- (1))]; split; try ring; rewrite E; ring.
  Qed.

  (* characterisation of the encoder output on a valid point with X <> 0 *)
  Lemma encode_char X Y Z T : valid (mkpt X Y Z T) -> X <> 0 ->
    exists m r u2,
      m * m = amd * W Y Z /\ u2 * amd * (Z * Z) = X * m /\ neg u2 = false /\
      r * X * m = Z * (m - amd * Y) /\
      (encode (mkpt X Y Z T) = r \/ encode (mkpt X Y Z T) = - r).
  Proof.
    intros HV HX. pose proof (valid_Y_nz _ HV) as HY. destruct HV as (Hwf & (m0 & Hm0)).
    pose proof (wf_hom _ _ _ _ Hwf) as HK3. destruct Hwf as (HZ & HT & HC).
    cbn [pX pY pZ pT] in *.
    pose proof (hom_K2 X Y Z HK3) as HK2.
    pose proof (W_nz Y Z HZ HY) as HW.
    assert (Hm0nz : m0 <> 0).
    { intro E. apply (mul_nz _ _ amd_nz HW). rewrite <- Hm0, E. ring. }
    unfold Decaf.encode. cbn [pX pY pZ pT].
    remember ((X + T) * (X - T)) as u1 eqn:Eu1.
    assert (HR : (Z * Z) * (Z * Z) * (u1 * amd * (X * X)) = (X * X * X * m0) * (X * X * X * m0)).
    { rewrite Eu1.
      transitivity (amd * (X * X) * (Z * Z * (X * X) * (Z * Z) - (Z * Z) * ((Z * T) * (Z * T)))); [ring|].
      rewrite <- HT.
      transitivity (amd * (X * X) * (X * X) * (Z * Z * (Z * Z - Y * Y))); [ring|]. rewrite HK2.
      transitivity (X * X * X * (X * X * X) * (amd * W Y Z)); [ring|]. rewrite <- Hm0. ring. }
    assert (HX3m : X * X * X * m0 <> 0) by (repeat apply mul_nz; assumption).
    assert (HRnz : u1 * amd * (X * X) <> 0).
    { intro E. apply (mul_nz _ _ HX3m HX3m). rewrite <- HR, E. ring. }
    destruct (sr 1 (u1 * amd * (X * X))) as [b v] eqn:Hsr0.
    destruct (sr_nz 1 _ one_nz HRnz) as [[_ Hv]|[_ Hv]]; rewrite Hsr0 in Hv; simpl in Hv.
    2:{ exfalso. apply (zeta_ns ((v * (X * X * X * m0)) * inv (Z * Z))).
        apply sq_div; [exact (mul_nz _ _ HZ HZ)|].
        transitivity (v * v * ((X * X * X * m0) * (X * X * X * m0))); [ring|]. rewrite <- HR.
        transitivity ((v * v * (u1 * amd * (X * X))) * (Z * Z * (Z * Z))); [ring|]. rewrite Hv. ring. }
    assert (Hg : (v * (X * X * X) * m0) * (v * (X * X * X) * m0) = (Z * Z) * (Z * Z)).
    { transitivity (v * v * ((X * X * X * m0) * (X * X * X * m0))); [ring|]. rewrite <- HR.
      transitivity ((v * v * (u1 * amd * (X * X))) * (Z * Z * (Z * Z))); [ring|]. rewrite Hv. ring. }
    assert (He1 : exists e1, e1 * e1 = 1 /\ v * (X * X * X) * m0 = e1 * (Z * Z)).
    { destruct (sq_eq _ _ Hg) as [E|E]; [exists 1|exists (- (1))]; split; try ring; rewrite E; ring. }
    destruct He1 as (e1 & He1 & Hg1).
    destruct (fabs_sign (v * u1)) as (e2 & He2 & Hf2). rewrite Hf2.
    destruct (encode_alg X Y Z T m0 v e1 e2 HZ HX HT HK3 Hm0 Hg1 He1 He2) as (R1 & R2 & R3).
    rewrite <- Eu1 in R2, R3.
    exists (e1 * e2 * m0), (e2 * (amd * v * (e2 * (v * u1) * Z - T) * X)), (e2 * (v * u1)).
    split; [exact R1|]. split; [exact R2|]. split; [rewrite <- Hf2; apply neg_fabs|]. split; [exact R3|].
    remember (amd * v * (e2 * (v * u1) * Z - T) * X) as s0 eqn:Es0.
    assert (He2' : e2 = 1 \/ e2 = - (1)) by (apply sq_eq; rewrite He2; ring).
    destruct He2' as [->| ->]; destruct (fabs_cases s0) as [E|E]; rewrite E.
    - left; ring.
    - right; ring.
    - right; ring.
    - left; ring.
  Qed.

  Lemma sub_0 x y : x - y = 0 -> x = y.
  Proof. intro H. transitivity ((x - y) + y); [ring|rewrite H; ring]. Qed.

  (* decoding the (non-negative) value r characterised by [encode_char] gives -(X/Z, Y/Z) *)
  Lemma decode_char X Y Z m r u2 :
    Z <> 0 -> X <> 0 -> Y <> 0 ->
    a * (X * X) * (Z * Z) + Y * Y * (Z * Z) = Z * Z * (Z * Z) + d * (X * X) * (Y * Y) ->
    m * m = amd * W Y Z -> u2 * amd * (Z * Z) = X * m -> neg u2 = false ->
    r * X * m = Z * (m - amd * Y) -> neg r = false ->
    exists x' y', decode r = Some (mkpt x' y' 1 (x' * y')) /\ x' * Z = - X /\ y' * Z = - Y.
  Proof.
    intros HZ HX HY HK3 Hm Hu2 Hnu2 Hr Hnr.
    pose proof (hom_K2 X Y Z HK3) as HK2.
    pose proof (W_nz Y Z HZ HY) as HW.
    assert (Hmnz : m <> 0).
    { intro E. apply (mul_nz _ _ amd_nz HW). rewrite <- Hm, E. ring. }
    assert (E0 : X * X * (m * m) + Z * Z * (m * m) - Z * Z * amd * amd * (Y * Y) = 0).
    { rewrite Hm. transitivity (amd * (X * X * W Y Z - Z * Z * (Z * Z - Y * Y))); [ring|]. rewrite HK2. ring. }
    assert (Hr0 : r <> 0).
    { intro E. rewrite E in Hr.
      assert (E1 : Z * (m - amd * Y) = 0) by (rewrite <- Hr; ring).
      apply F_id in E1. destruct E1 as [E1|E1]; [tauto|]. apply sub_0 in E1.
      assert (E2 : amd * (Z * Z - Y * Y) = 0).
      { transitivity (amd * amd * (Y * Y) - amd * W Y Z); [ring|]. rewrite <- Hm, E1. ring. }
      apply F_id in E2. destruct E2 as [E2|E2]; [exact (amd_nz E2)|].
      apply (mul_nz _ _ (mul_nz _ _ HX HX) HW). rewrite <- HK2, E2. ring. }
    assert (I1 : (1 - r * r) * X = - (two * r * Z)).
    { apply (mul_cancel_r _ _ (X * (m * m)) (mul_nz _ _ HX (mul_nz _ _ Hmnz Hmnz))).
      transitivity (X * X * (m * m) - (r * X * m) * (r * X * m)); [ring|].
      transitivity (- (two * Z * m * (r * X * m))); [|ring].
      rewrite Hr. apply sub_0.
      transitivity (X * X * (m * m) + Z * Z * (m * m) - Z * Z * amd * amd * (Y * Y)); [unfold two; ring|exact E0]. }
    assert (I1' : (1 + r * r) * X = two * X + two * r * Z).
    { transitivity (two * X - (1 - r * r) * X); [unfold two; ring|]. rewrite I1. ring. }
    assert (Hu1 : 1 - r * r <> 0).
    { intro E. rewrite E in I1. apply (mul_nz _ _ (mul_nz _ _ two_nz Hr0) HZ).
      transitivity (- (0 * X)); [rewrite I1|]; ring. }
    assert (HK3' : Y * Y * (Z * Z) - d * (X * X) * (Y * Y) = Z * Z * (Z * Z) - a * (X * X) * (Z * Z)).
    { transitivity ((a * (X * X) * (Z * Z) + Y * Y * (Z * Z)) - d * (X * X) * (Y * Y) - a * (X * X) * (Z * Z)); [ring|].
      rewrite HK3. ring. }
    assert (I3 : Y * Y * U2 r = ((1 + r * r) * Z) * ((1 + r * r) * Z)).
    { apply (mul_cancel_r _ _ (X * X) (mul_nz _ _ HX HX)).
      transitivity (Y * Y * (((1 - r * r) * X) * ((1 - r * r) * X) - d * (two * two) * (r * r) * (X * X))); [ring|].
      transitivity ((((1 - r * r) * X) * ((1 - r * r) * X) + two * two * (r * r) * (X * X)) * (Z * Z)); [|unfold two; ring].
      rewrite I1.
      transitivity (two * two * (r * r) * (Y * Y * (Z * Z) - d * (X * X) * (Y * Y))); [ring|].
      rewrite HK3'. ring. }
    assert (Hq0 : 1 + r * r <> 0).
    { intro E. rewrite E in I3.
      assert (E1 : Y * Y * U2 r = 0) by (rewrite I3; ring).
      apply F_id in E1. destruct E1 as [E1|E1]; [exact (mul_nz _ _ HY HY E1)|].
      apply (mul_nz _ _ (mul_nz _ _ two_two_nz amd_nz) (mul_nz _ _ Hr0 Hr0)).
      rewrite <- E1. transitivity (U2 r - (1 + r * r) * (1 + r * r)); [unfold two; ring|rewrite E; ring]. }
    assert (I4 : - (two * r * Y) = (1 + r * r) * Z * u2).
    { apply (mul_cancel_r _ _ (X * X * (amd * Z * m))).
      { repeat apply mul_nz; try assumption. exact amd_nz. }
      transitivity (- (two * Y * Z * amd * X * (r * X * m))); [ring|].
      transitivity (((1 + r * r) * X) * (u2 * amd * (Z * Z)) * (X * m)); [|ring].
      rewrite I1', Hu2.
      transitivity (two * (X * X * m + Z * (r * X * m)) * (X * m)); [|ring].
      rewrite Hr. apply sub_0.
      transitivity (- (two * X * (X * X * (m * m) + Z * Z * (m * m) - Z * Z * amd * amd * (Y * Y)))); [ring|].
      rewrite E0. ring. }
    remember ((1 + r * r) * Z) as q eqn:Eq.
    assert (Hq : q <> 0) by (rewrite Eq; apply mul_nz; assumption).
    assert (Hiq : inv q * q = 1) by (apply inv_l; exact Hq).
    assert (HiZ : inv Z * Z = 1) by (apply inv_l; exact HZ).
    destruct (decode_intro r (- (Y * inv q)) (- (X * inv Z))) as (k' & Hk' & _ & Hd).
    - exact Hnr.
    - exact Hu1.
    - transitivity (inv q * inv q * (Y * Y * U2 r)); [ring|]. rewrite I3.
      transitivity ((inv q * q) * (inv q * q)); [ring|]. rewrite Hiq. ring.
    - transitivity (- (inv Z * ((1 - r * r) * X))); [ring|]. rewrite I1.
      transitivity (two * r * (inv Z * Z)); [ring|]. rewrite HiZ. ring.
    - intros _. replace (two * r * - (Y * inv q)) with u2; [exact Hnu2|].
      transitivity (- (two * r * Y) * inv q); [|ring]. rewrite I4.
      transitivity (u2 * (inv q * q)); [rewrite Hiq|]; ring.
    - rewrite (Hk' Hr0) in Hd.
      exists (- (X * inv Z)), ((1 + r * r) * - (Y * inv q)). split; [exact Hd|]. split.
      + transitivity (- (X * (inv Z * Z))); [ring|]. rewrite HiZ. ring.
      + transitivity (- (Y * (inv q * ((1 + r * r) * Z)))); [ring|]. rewrite <- Eq, Hiq. ring.
  Qed.

  (* ================================================================== *)
  (* 4.  C01, other direction *)
  Lemma sgn_sq e : e = 1 \/ e = - (1) -> e * e = 1.
  Proof. intros [->| ->]; ring. Qed.
  Lemma sgn_of_sq e : e * e = 1 -> e = 1 \/ e = - (1).
  Proof. intro H. apply sq_eq. rewrite H. ring. Qed.
  Lemma sgn_nz e : e * e = 1 -> e <> 0.
  Proof. intros H E. rewrite E in H. apply one_nz. rewrite <- H. ring. Qed.

  Lemma wf_X0 X Y Z T : wf (mkpt X Y Z T) -> X = 0 -> T = 0 /\ (Y = Z \/ Y = - Z).
  Proof.
    intros (HZ & HT & HC) ->. cbn [pX pY pZ pT] in *.
    assert (T0 : T = 0).
    { assert (E : Z * T = 0) by (rewrite <- HT; ring). apply F_id in E. tauto. }
    split; [exact T0|]. subst T. apply sq_eq.
    transitivity (a * (0 * 0) + Y * Y); [ring|]. rewrite HC. ring.
  Qed.

  Lemma encode_X0 X Y Z T : wf (mkpt X Y Z T) -> X = 0 -> encode (mkpt X Y Z T) = 0.
  Proof.
    intros Hwf HX. destruct (wf_X0 _ _ _ _ Hwf HX) as (-> & _). subst X.
    unfold Decaf.encode. cbn [pX pY pZ pT].
    match goal with |- context [sr 1 ?r] => replace r with 0 by ring end.
    rewrite sr_den0 by exact one_nz.
    replace (0 * ((0 + 0) * (0 - 0))) with 0 by ring. rewrite fabs0.
    replace (amd * 0 * (0 * Z - 0) * 0) with 0 by ring. apply fabs0.
  Qed.

  (* strong form: the decoded point is +-(X/Z, Y/Z) *)
  Theorem dec_enc_strong P : valid P ->
    exists x' y' e, e * e = 1 /\ decode (encode P) = Some (mkpt x' y' 1 (x' * y')) /\
                    x' * pZ P = e * pX P /\ y' * pZ P = e * pY P.
  Proof.
    intro HV. destruct P as [X Y Z T]. cbn [pX pY pZ pT].
    destruct (F_dec X 0) as [HX|HX].
    - destruct HV as (Hwf & _). rewrite (encode_X0 _ _ _ _ Hwf HX).
      destruct (wf_X0 _ _ _ _ Hwf HX) as (_ & HYZ). subst X.
      destruct decode_zero_gen as (y0 & Hy0 & Hd).
      exists 0, y0, (y0 * Y * inv Z).
      destruct Hwf as (HZ & _). cbn [pZ] in HZ.
      assert (HiZ : inv Z * Z = 1) by (apply inv_l; exact HZ).
      assert (HYY : Y * Y = Z * Z) by (destruct HYZ as [->| ->]; ring).
      split; [|split; [|split]].
      + transitivity ((y0 * y0) * (Y * Y) * (inv Z * inv Z)); [ring|]. rewrite Hy0, HYY.
        transitivity ((inv Z * Z) * (inv Z * Z)); [ring|]. rewrite HiZ. ring.
      + rewrite Hd. f_equal. f_equal. ring.
      + ring.
      + symmetry. transitivity (y0 * (Y * Y) * inv Z); [ring|]. rewrite HYY.
        transitivity (y0 * Z * (inv Z * Z)); [ring|rewrite HiZ; ring].
    - pose proof (valid_Y_nz _ HV) as HY. cbn [pY] in HY.
      destruct (encode_char X Y Z T HV HX) as (m & r & u2 & Hm & Hu2 & Hnu2 & Hr & Henc).
      pose proof (encode_nonneg (mkpt X Y Z T)) as Hnn.
      destruct HV as (Hwf & _). pose proof (wf_hom _ _ _ _ Hwf) as HK3.
      destruct Hwf as (HZ & _). cbn [pZ] in HZ.
      destruct Henc as [E|E]; rewrite E in *.
      + destruct (decode_char X Y Z m r u2 HZ HX HY HK3 Hm Hu2 Hnu2 Hr Hnn) as (x' & y' & Hd & Hx' & Hy').
        exists x', y', (- (1)). split; [ring|]. split; [exact Hd|]. split; [rewrite Hx'|rewrite Hy']; ring.
      + destruct (decode_char (- X) (- Y) Z (- m) (- r) u2) as (x' & y' & Hd & Hx' & Hy').
        * exact HZ.
        * exact (opp_nz _ HX).
        * exact (opp_nz _ HY).
        * transitivity (a * (X * X) * (Z * Z) + Y * Y * (Z * Z)); [ring|]. rewrite HK3. ring.
        * transitivity (m * m); [ring|]. rewrite Hm. ring.
        * rewrite Hu2. ring.
        * exact Hnu2.
        * transitivity (- (r * X * m)); [ring|]. rewrite Hr. ring.
        * exact Hnn.
        * exists x', y', 1. split; [ring|]. split; [exact Hd|]. split; [rewrite Hx'|rewrite Hy']; ring.
  Qed.

  Theorem dec_enc P : valid P -> exists P', decode (encode P) = Some P' /\ eqE P P' = true.
  Proof.
    intro HV. destruct (dec_enc_strong P HV) as (x' & y' & e & He & Hd & Hx & Hy).
    exists (mkpt x' y' 1 (x' * y')). split; [exact Hd|].
    unfold eqE. cbn [pX pY pZ pT]. apply feqb_true.
    destruct HV as ((HZ & _) & _).
    apply (mul_cancel_r _ _ (pZ P) HZ).
    transitivity (pX P * (y' * pZ P)); [ring|]. rewrite Hy.
    transitivity (pY P * (x' * pZ P)); [|ring]. rewrite Hx. ring.
  Qed.

  (* ================================================================== *)
  (* 5b.  C03 : the encoding depends only on the decaf element, and separates elements *)
  Lemma encode_neg2 X Y Z T : encode (mkpt (- X) (- Y) Z T) = encode (mkpt X Y Z T).
  Proof.
    unfold Decaf.encode. cbn [pX pY pZ pT].
    replace ((- X + T) * (- X - T)) with ((X + T) * (X - T)) by ring.
    replace (- X * - X) with (X * X) by ring.
    match goal with |- context [sr 1 ?r] => destruct (sr 1 r) as [b v] end.
    match goal with |- fabs (?t * - X) = _ => replace (t * - X) with (- (t * X)) by ring end.
    apply fabs_opp.
  Qed.

  Lemma coset_core A B C D Wd :
    Wd <> 0 ->
    a * (B * B) * (Wd * Wd) + D * D * (Wd * Wd) = Wd * Wd * (Wd * Wd) + d * (B * B) * (D * D) ->
    a * (A * A) * (Wd * Wd) + C * C * (Wd * Wd) = Wd * Wd * (Wd * Wd) + d * (A * A) * (C * C) ->
    B * C = D * A ->
    exists e, e * e = 1 /\ A = e * B /\ C = e * D.
  Proof.
    intros HW H1 H2 HBC.
    assert (HWW : Wd * Wd <> 0) by (apply mul_nz; exact HW).
    destruct (F_dec B 0) as [HB|HB].
    - subst B.
      assert (HD : D * D = Wd * Wd).
      { apply (mul_cancel_r _ _ (Wd * Wd) HWW).
        transitivity (a * (0 * 0) * (Wd * Wd) + D * D * (Wd * Wd)); [ring|]. rewrite H1. ring. }
      assert (HDnz : D <> 0) by (intro E; apply HWW; rewrite <- HD, E; ring).
      assert (HA : A = 0).
      { assert (E : D * A = 0) by (rewrite <- HBC; ring). apply F_id in E. tauto. }
      subst A.
      assert (HC : C * C = D * D).
      { rewrite HD. apply (mul_cancel_r _ _ (Wd * Wd) HWW).
        transitivity (a * (0 * 0) * (Wd * Wd) + C * C * (Wd * Wd)); [ring|]. rewrite H2. ring. }
      destruct (sq_eq _ _ HC) as [->| ->]; [exists 1|exists (- (1))]; repeat split; ring.
    - assert (E : (A * A - B * B) * (Wd * Wd * (Wd * Wd) - d * (A * A) * (D * D)) = 0).
      { transitivity (A * A * (Wd * Wd * (Wd * Wd) + d * (B * B) * (D * D))
                      - d * (A * A) * (A * A) * (D * D) - B * B * (Wd * Wd * (Wd * Wd))); [ring|].
        rewrite <- H1.
        transitivity (a * (A * A) * (B * B) * (Wd * Wd) + (D * A) * (D * A) * (Wd * Wd)
                      - d * (A * A) * ((D * A) * (D * A)) - B * B * (Wd * Wd * (Wd * Wd))); [ring|].
        rewrite <- HBC.
        transitivity (B * B * ((a * (A * A) * (Wd * Wd) + C * C * (Wd * Wd))
                               - Wd * Wd * (Wd * Wd) - d * (A * A) * (C * C))); [ring|].
        rewrite H2. ring. }
      apply F_id in E. destruct E as [E|E].
      + apply sub_0 in E. destruct (sq_eq _ _ E) as [EA|EA].
        * exists 1. split; [ring|]. split; [rewrite EA; ring|].
          apply (mul_cancel_l _ _ B HB). rewrite HBC, EA. ring.
        * exists (- (1)). split; [ring|]. split; [rewrite EA; ring|].
          apply (mul_cancel_l _ _ B HB). rewrite HBC, EA. ring.
      + exfalso. apply sub_0 in E.
        assert (HAD : A * D <> 0).
        { intro E1. apply (mul_nz _ _ HWW HWW). rewrite E.
          transitivity (d * ((A * D) * (A * D))); [ring|]. rewrite E1. ring. }
        apply (d_ns ((Wd * Wd) * inv (A * D))). apply sq_div; [exact HAD|]. rewrite E. ring.
  Qed.

  (* on the curve, the equality test X1 Y2 = Y1 X2 identifies exactly (x,y) ~ (-x,-y) *)
  Lemma eqE_coset_proj P Q : wf P -> wf Q -> eqE P Q = true ->
    exists e, e * e = 1 /\ pX Q * pZ P = e * (pX P * pZ Q) /\ pY Q * pZ P = e * (pY P * pZ Q).
  Proof.
    destruct P as [X1 Y1 Z1 T1], Q as [X2 Y2 Z2 T2]. intros HP HQ HE.
    pose proof (wf_hom _ _ _ _ HP) as K1. pose proof (wf_hom _ _ _ _ HQ) as K2.
    destruct HP as (HZ1 & _), HQ as (HZ2 & _).
    unfold eqE in HE. apply feqb_true in HE. cbn [pX pY pZ pT] in *.
    apply (coset_core (X2 * Z1) (X1 * Z2) (Y2 * Z1) (Y1 * Z2) (Z1 * Z2)).
    - apply mul_nz; assumption.
    - transitivity ((a * (X1 * X1) * (Z1 * Z1) + Y1 * Y1 * (Z1 * Z1)) * (Z2 * Z2 * (Z2 * Z2))); [ring|].
      rewrite K1. ring.
    - transitivity ((a * (X2 * X2) * (Z2 * Z2) + Y2 * Y2 * (Z2 * Z2)) * (Z1 * Z1 * (Z1 * Z1))); [ring|].
      rewrite K2. ring.
    - transitivity ((X1 * Y2) * (Z1 * Z2)); [ring|]. rewrite HE. ring.
  Qed.

  Theorem encode_respects_eq P Q : valid P -> valid Q -> eqE P Q = true -> encode P = encode Q.
  Proof.
    intros HP HQ HE.
    destruct (dec_enc_strong P HP) as (xp & yp & ep & Hep & Hdp & Hxp & Hyp).
    destruct (dec_enc_strong Q HQ) as (xq & yq & eq & Heq & Hdq & Hxq & Hyq).
    destruct (eqE_coset_proj P Q (proj1 HP) (proj1 HQ) HE) as (e & He & HX & HY).
    destruct HP as ((HZp & _) & _), HQ as ((HZq & _) & _).
    rewrite <- (enc_dec _ _ Hdp), <- (enc_dec _ _ Hdq).
    assert (Hx : xq = (eq * e * ep) * xp).
    { apply (mul_cancel_r _ _ (pZ P * pZ Q) (mul_nz _ _ HZp HZq)).
      transitivity ((xq * pZ Q) * pZ P); [ring|]. rewrite Hxq.
      transitivity (eq * (pX Q * pZ P)); [ring|]. rewrite HX.
      transitivity (eq * e * (ep * ep) * pX P * pZ Q); [rewrite Hep; ring|].
      transitivity (eq * e * ep * (ep * pX P) * pZ Q); [ring|]. rewrite <- Hxp. ring. }
    assert (Hy : yq = (eq * e * ep) * yp).
    { apply (mul_cancel_r _ _ (pZ P * pZ Q) (mul_nz _ _ HZp HZq)).
      transitivity ((yq * pZ Q) * pZ P); [ring|]. rewrite Hyq.
      transitivity (eq * (pY Q * pZ P)); [ring|]. rewrite HY.
      transitivity (eq * e * (ep * ep) * pY P * pZ Q); [rewrite Hep; ring|].
      transitivity (eq * e * ep * (ep * pY P) * pZ Q); [ring|]. rewrite <- Hyp. ring. }
    assert (Hs : (eq * e * ep) * (eq * e * ep) = 1).
    { transitivity ((eq * eq) * (e * e) * (ep * ep)); [ring|]. rewrite Heq, He, Hep. ring. }
    destruct (sgn_of_sq _ Hs) as [E|E]; rewrite E in Hx, Hy.
    - f_equal. f_equal; subst xq yq; ring.
    - replace (mkpt xq yq 1 (xq * yq)) with (mkpt (- xp) (- yp) 1 (xp * yp)).
      + symmetry. apply encode_neg2.
      + subst xq yq. f_equal; ring.
  Qed.

  Theorem encode_injective P Q : valid P -> valid Q -> encode P = encode Q -> eqE P Q = true.
  Proof.
    intros HP HQ HE.
    destruct (dec_enc_strong P HP) as (xp & yp & ep & Hep & Hdp & Hxp & Hyp).
    destruct (dec_enc_strong Q HQ) as (xq & yq & eq & Heq & Hdq & Hxq & Hyq).
    rewrite HE, Hdq in Hdp. injection Hdp as Ex Ey _.
    unfold eqE. apply feqb_true.
    destruct HP as ((HZp & _) & _), HQ as ((HZq & _) & _).
    apply (mul_cancel_l _ _ (ep * eq) (mul_nz _ _ (sgn_nz _ Hep) (sgn_nz _ Heq))).
    transitivity ((ep * pX P) * (eq * pY Q)); [ring|]. rewrite <- Hxp, <- Hyq.
    transitivity ((ep * pY P) * (eq * pX Q)); [|ring]. rewrite <- Hyp, <- Hxq.
    rewrite Ex, Ey. ring.
  Qed.

  (* ================================================================== *)
  (* 6.  C03 : the encoder output is the specification's canonical encoding of the affine point *)
  Lemma inv_nz x : x <> 0 -> inv x <> 0.
  Proof. intros Hx E. apply one_nz. rewrite <- (inv_l x Hx), E. ring. Qed.

  Theorem encode_is_spec P : valid P -> encodeSpec a neg (aff P) (encode P).
  Proof.
    intro HV. destruct P as [X Y Z T]. unfold encodeSpec, aff. cbn [pX pY pZ pT aX aY].
    destruct (F_dec X 0) as [HX|HX].
    { left. destruct HV as (Hwf & _). rewrite (encode_X0 _ _ _ _ Hwf HX). subst X.
      split; [left; apply div_0|reflexivity]. }
    right.
    pose proof (valid_Y_nz _ HV) as HY. cbn [pY] in HY.
    destruct (encode_char X Y Z T HV HX) as (m & r & u2 & Hm & Hu2 & Hnu2 & Hr & Henc).
    pose proof (encode_nonneg (mkpt X Y Z T)) as Hnn.
    destruct HV as (Hwf & _). pose proof (wf_hom _ _ _ _ Hwf) as HK3.
    destruct Hwf as (HZ & _). cbn [pZ] in HZ.
    pose proof (W_nz Y Z HZ HY) as HW.
    assert (Hmnz : m <> 0).
    { intro E. apply (mul_nz _ _ amd_nz HW). rewrite <- Hm, E. ring. }
    assert (HiZ : inv Z * Z = 1) by (apply inv_l; exact HZ).
    assert (Him : inv m * m = 1) by (apply inv_l; exact Hmnz).
    assert (HiZnz : inv Z <> 0) by (apply inv_nz; exact HZ).
    assert (Himnz : inv m <> 0) by (apply inv_nz; exact Hmnz).
    rewrite !div_def.
    remember (X * inv Z) as x eqn:Ex. remember (Y * inv Z) as y eqn:Ey.
    assert (Hxnz : x <> 0) by (rewrite Ex; apply mul_nz; assumption).
    assert (Hynz : y <> 0) by (rewrite Ey; apply mul_nz; assumption).
    assert (HxZ : x * Z = X) by (rewrite Ex; transitivity (X * (inv Z * Z)); [ring|rewrite HiZ; ring]).
    assert (HyZ : y * Z = Y) by (rewrite Ey; transitivity (Y * (inv Z * Z)); [ring|rewrite HiZ; ring]).
    split; [exact Hxnz|]. split; [exact Hynz|].
    (* the encoder's value is |r| *)
    assert (Hfr : encode (mkpt X Y Z T) = fabs r).
    { destruct Henc as [E|E]; rewrite E in *.
      - symmetry. apply fabs_nonneg. exact Hnn.
      - rewrite <- fabs_opp. symmetry. apply fabs_nonneg. exact Hnn. }
    rewrite Hfr. clear Hfr Henc Hnn.
    remember (amd * Y * inv m) as w0 eqn:Ew0.
    assert (Hw0nz : w0 <> 0).
    { rewrite Ew0. repeat apply mul_nz; try assumption. exact amd_nz. }
    assert (Hw0m : w0 * m = amd * Y).
    { rewrite Ew0. transitivity (amd * Y * (inv m * m)); [ring|rewrite Him; ring]. }
    assert (Hw0sq : w0 * w0 = 1 - a * (x * x)).
    { apply (mul_cancel_r _ _ (Z * Z * (m * m))).
      { repeat apply mul_nz; assumption. }
      transitivity ((w0 * m) * (w0 * m) * (Z * Z)); [ring|]. rewrite Hw0m.
      transitivity ((Z * Z - a * ((x * Z) * (x * Z))) * (m * m)); [|ring]. rewrite HxZ, Hm.
      apply sub_0.
      transitivity (- (amd * ((a * (X * X) * (Z * Z) + Y * Y * (Z * Z))
                              - (Z * Z * (Z * Z) + d * (X * X) * (Y * Y))))); [ring|].
      rewrite HK3. ring. }
    (* x y = u2 w0   and   1 - w0 = r x *)
    assert (Hxy : x * y = u2 * w0).
    { apply (mul_cancel_r _ _ (Z * Z * m)).
      { repeat apply mul_nz; assumption. }
      transitivity ((x * Z) * (y * Z) * m); [ring|]. rewrite HxZ, HyZ.
      transitivity (u2 * (Z * Z) * (w0 * m)); [|ring]. rewrite Hw0m.
      transitivity ((u2 * amd * (Z * Z)) * Y); [|ring]. rewrite Hu2. ring. }
    assert (Hrx : 1 - w0 = r * x).
    { apply (mul_cancel_r _ _ (Z * m) (mul_nz _ _ HZ Hmnz)).
      transitivity (Z * (m - w0 * m)); [ring|]. rewrite Hw0m, <- Hr, <- HxZ. ring. }
    assert (Hu2nz : u2 <> 0).
    { intro E. rewrite E in Hu2. apply (mul_nz _ _ HX Hmnz). rewrite <- Hu2. ring. }
    assert (Hix : inv x * x = 1) by (apply inv_l; exact Hxnz).
    assert (Hrdiv : (1 - w0) * inv x = r).
    { rewrite Hrx. transitivity (r * (inv x * x)); [ring|rewrite Hix; ring]. }
    destruct (neg w0) eqn:Hnw0.
    - (* w = - w0 *)
      exists (- w0). split.
      + split; [rewrite <- Hw0sq; ring|]. rewrite neg_opp, Hnw0 by exact Hw0nz. reflexivity.
      + assert (Hiw : inv (- w0) * - w0 = 1) by (apply inv_l, opp_nz; exact Hw0nz).
        assert (Hq : x * y * inv (- w0) = - u2).
        { rewrite Hxy. transitivity (- u2 * (inv (- w0) * - w0)); [ring|rewrite Hiw; ring]. }
        rewrite !div_def, Hq, neg_opp, Hnu2 by exact Hu2nz. simpl.
        replace (1 + - w0) with (1 - w0) by ring. rewrite Hrdiv. reflexivity.
    - exists w0. split.
      + split; [exact Hw0sq|exact Hnw0].
      + assert (Hiw : inv w0 * w0 = 1) by (apply inv_l; exact Hw0nz).
        assert (Hq : x * y * inv w0 = u2).
        { rewrite Hxy. transitivity (u2 * (inv w0 * w0)); [ring|rewrite Hiw; ring]. }
        rewrite !div_def, Hq, Hnu2. rewrite Hrdiv. reflexivity.
  Qed.

  (* ================================================================== *)
  (* exact agreement with decodeSpec at s = 0 needs to know that sqrt_ratio_zeta(1,1) returns the
     root +1 and not -1 (the contract does not fix the sign; the Rust code does not normalise it).
     This is a closed computation at instantiation.  Only the two theorems below depend on it. *)
  Hypothesis sr_11 : sr 1 1 = (true, 1).

  Theorem decode_zero : decode 0 = Some identity.
  Proof.
    unfold Decaf.decode, identity. rewrite neg0. cbv zeta.
    replace (1 - 0 * 0) with 1 by ring.
    match goal with |- context [sr 1 ?r] => replace r with 1 by ring end.
    rewrite sr_11. simpl.
    replace (two * 0 * 1 * 1) with 0 by ring. rewrite neg0. f_equal. f_equal; ring.
  Qed.

  Theorem decode_iff_spec s P :
    decode s = Some P <-> exists p, decodeSpec a d neg s p /\ P = of_affine p.
  Proof.
    destruct (F_dec s 0) as [->|Hs0]; [|exact (decode_iff_spec_nz s P Hs0)].
    rewrite decode_zero. split.
    - intro H. injection H as <-. exists (mkapt 0 1). split.
      + split; [exact neg0|]. left. split; reflexivity.
      + unfold identity, of_affine. cbn [aX aY]. f_equal. ring.
    - intros (p & (_ & [[_ ->]|(H & _)]) & ->); [|exfalso; apply H; reflexivity].
      unfold identity, of_affine. cbn [aX aY]. f_equal. f_equal. ring.
  Qed.


End Codec.

Print Assumptions enc_dec.
Print Assumptions decode_wf_valid.
Print Assumptions decode_iff_spec.
Print Assumptions decode_iff_spec_nz.
Print Assumptions decode_accepts_iff.
Print Assumptions decode_sound_gen.
Print Assumptions decode_rejects_negative.
Print Assumptions decode_rejects_minus_one.
Print Assumptions decode_zero.
Print Assumptions decode_zero_gen.
Print Assumptions dec_enc_strong.
Print Assumptions dec_enc.
Print Assumptions encode_nonneg.
Print Assumptions encode_respects_eq.
Print Assumptions encode_injective.
Print Assumptions encode_is_spec.
Print Assumptions eqE_coset_proj.
