Require Import ZArith Znumtheory Zpow_facts Lia List Bool.
From D377 Require Import Base.Fermat.
Import ListNotations.
Open Scope Z_scope.

(* ---------- prime divisors ---------- *)
Lemma prime_divisor_small N : 1 < N -> exists n, prime n /\ (n | N) /\ (~ prime N -> n * n <= N).
Proof.
  intro H. assert (H0 : 0 <= N) by lia. revert H.
  pattern N. apply (Zlt_0_rec _ ); [|exact H0]. clear N H0.
  intros N IH _ HN.
  destruct (prime_dec N) as [Hp|Hnp].
  - exists N. split; [assumption|]. split; [apply Z.divide_refl | tauto].
  - destruct (not_prime_divide N HN Hnp) as [m [Hm [k Hk]]].
    assert (1 < k < N) by nia.
    destruct (Z_le_gt_dec m k) as [Hle|Hgt].
    + destruct (IH m) as [n [Pn [Dn _]]]; [lia|lia|].
      exists n. split; [assumption|]. split.
      * apply Z.divide_trans with m; [assumption|]. exists k. lia.
      * intros _. assert (n <= m) by (apply Z.divide_pos_le; [lia|assumption]).
        assert (0 < n) by (destruct Pn; lia). nia.
    + destruct (IH k) as [n [Pn [Dn _]]]; [lia|lia|].
      exists n. split; [assumption|]. split.
      * apply Z.divide_trans with k; [assumption|]. exists m. lia.
      * intros _. assert (n <= k) by (apply Z.divide_pos_le; [lia|assumption]).
        assert (0 < n) by (destruct Pn; lia). nia.
Qed.

Lemma prime_divide_pow p l e : prime p -> prime l -> 0 <= e -> (p | l ^ e) -> p = l.
Proof.
  intros Pp Pl He. pattern e. apply natlike_ind; [| |exact He].
  - rewrite Z.pow_0_r. intro D. apply Z.divide_1_r in D. destruct Pp; lia.
  - intros x Hx IH D. rewrite Z.pow_succ_r in D by assumption.
    apply prime_mult in D; [|assumption]. destruct D as [D|D]; [|auto].
    apply prime_div_prime in D; assumption.
Qed.

(* ---------- exponents with b^k = 1 (mod n) are closed under gcd ---------- *)
Section Order.
  Variables n b : Z.
  Hypothesis Hn : 1 < n.
  Definition one_at k := b ^ k mod n = 1.

  Lemma one_at_sub k j : 0 <= j <= k -> one_at k -> one_at j -> one_at (k - j).
  Proof.
    unfold one_at. intros Hjk Hk Hj.
    assert (E : b ^ k = b ^ (k - j) * b ^ j) by (rewrite <- Z.pow_add_r by lia; f_equal; lia).
    rewrite E, Z.mul_mod, Hj, Z.mul_1_r, Z.mod_mod in Hk by lia. exact Hk.
  Qed.

  Lemma one_at_gcd : forall k j, 0 <= k -> 0 <= j -> one_at k -> one_at j -> one_at (Z.gcd k j).
  Proof.
    intros k j Hk. revert j. pattern k. apply (Zlt_0_rec _); [|exact Hk]. clear k Hk.
    intros k IH Hk j Hj. revert k IH Hk. pattern j. apply (Zlt_0_rec _); [|exact Hj]. clear j Hj.
    intros j IHj Hj k IHk Hk Ok Oj.
    destruct (Z.eq_dec j 0) as [->|Hj0]; [rewrite Z.gcd_0_r, Z.abs_eq by lia; assumption|].
    destruct (Z.eq_dec k 0) as [->|Hk0]; [rewrite Z.gcd_0_l, Z.abs_eq by lia; assumption|].
    destruct (Z_le_gt_dec j k).
    - replace (Z.gcd k j) with (Z.gcd (k - j) j).
      + apply IHk; try lia; [apply one_at_sub; try lia; assumption | assumption].
      + rewrite (Z.gcd_comm (k-j)), Z.gcd_sub_diag_r, Z.gcd_comm. reflexivity.
    - replace (Z.gcd k j) with (Z.gcd k (j - k)).
      + apply IHj; try lia; [ | assumption | apply one_at_sub; try lia; assumption].
        intros. apply IHk; assumption.
      + rewrite Z.gcd_sub_diag_r. reflexivity.
  Qed.

  Lemma one_at_mul k m : 0 <= k -> 0 <= m -> one_at k -> one_at (k * m).
  Proof.
    unfold one_at. intros Hk Hm H. rewrite Z.pow_mul_r by assumption.
    rewrite Zpower_mod by lia. rewrite H. rewrite Z.pow_1_l by assumption. apply Z.mod_small; lia.
  Qed.
End Order.

(* ---------- the key step: l^e | n - 1 ---------- *)
Lemma order_step n b l e : prime n -> prime l -> 1 <= e ->
  b ^ (l ^ e) mod n = 1 -> b ^ (l ^ (e - 1)) mod n <> 1 -> (l ^ e | n - 1).
Proof.
  intros Pn Pl He H1 H2.
  assert (Hn : 1 < n) by (destruct Pn; lia).
  assert (Hl : 1 < l) by (destruct Pl; lia).
  assert (Hle : 0 < l ^ e) by (apply Z.pow_pos_nonneg; lia).
  assert (Hnb : ~ (n | b)).
  { intro D. assert (E : b mod n = 0) by (apply Z.mod_divide; [lia|assumption]).
    rewrite Zpower_mod, E, Z.pow_0_l, Z.mod_0_l in H1 by lia. lia. }
  pose proof (fermat_little n Pn b Hnb) as HF.
  pose proof (one_at_gcd n b Hn (l^e) (n-1) ltac:(lia) ltac:(lia) H1 HF) as Hg.
  set (g := Z.gcd (l^e) (n-1)) in *.
  assert (Dg : (g | l^e)) by apply Z.gcd_divide_l.
  assert (Dg2 : (g | n - 1)) by apply Z.gcd_divide_r.
  assert (Hgpos : 0 < g) by (assert (0 <= g) by apply Z.gcd_nonneg; assert (g <> 0) by (intro E; apply Z.gcd_eq_0_l in E; lia); lia).
  destruct Dg as [c Hc].
  assert (Hcpos : 0 < c) by nia.
  destruct (Z.eq_dec c 1) as [->|Hc1].
  { replace (l^e) with g by lia. exact Dg2. }
  exfalso. apply H2.
  destruct (prime_divisor_small c ltac:(lia)) as [p [Pp [Dp _]]].
  assert (p = l).
  { apply (prime_divide_pow p l e); try assumption; [lia|]. apply Z.divide_trans with c; [assumption|]. exists g. lia. }
  subst p. destruct Dp as [c' Hc'].
  assert (E : l ^ (e-1) = c' * g).
  { assert (E0 : l ^ e = l * l ^ (e-1)) by (rewrite <- Z.pow_succ_r by lia; f_equal; lia).
    assert (l * l^(e-1) = l * (c' * g)) by (rewrite <- E0, Hc, Hc'; ring). nia. }
  assert (0 < l^(e-1)) by (apply Z.pow_pos_nonneg; lia).
  rewrite E, Z.mul_comm. apply one_at_mul; [lia | lia | nia | exact Hg].
Qed.

(* ---------- fast modular exponentiation ---------- *)
Fixpoint powm_pos (a : Z) (e : positive) (m : Z) : Z :=
  match e with
  | xH => a mod m
  | xO e' => let r := powm_pos a e' m in (r * r) mod m
  | xI e' => let r := powm_pos a e' m in (((r * r) mod m) * a) mod m
  end.
Definition powm a e m := match e with Z0 => 1 mod m | Zpos p => powm_pos a p m | Zneg _ => 0 end.

Lemma powm_pos_spec a e m : 0 < m -> powm_pos a e m = a ^ (Zpos e) mod m.
Proof.
  intro Hm. induction e as [e IH|e IH|]; cbn [powm_pos].
  - rewrite IH. rewrite Pos2Z.inj_xI, (Z.mul_comm 2).
    rewrite Z.pow_add_r, Z.pow_1_r, Z.pow_mul_r, Z.pow_2_r by lia.
    rewrite <- (Z.mul_mod_idemp_l (a ^ Z.pos e * a ^ Z.pos e) a m) by lia.
    f_equal. f_equal. symmetry. apply Z.mul_mod. lia.
  - rewrite IH. rewrite Pos2Z.inj_xO, (Z.mul_comm 2). rewrite Z.pow_mul_r, Z.pow_2_r by lia.
    symmetry. apply Z.mul_mod. lia.
  - rewrite Z.pow_1_r. reflexivity.
Qed.
Lemma powm_spec a e m : 0 < m -> 0 <= e -> powm a e m = a ^ e mod m.
Proof. intros Hm He. destruct e; [reflexivity | apply powm_pos_spec; assumption | lia]. Qed.

(* ---------- certificate ---------- *)
Definition item := (Z * Z * Z)%type. (* prime l, exponent e, witness a *)
Definition Fof (its : list item) : Z := fold_right (fun '(l,e,_) acc => l ^ e * acc) 1 its.
Definition item_ok (N : Z) (it : item) : bool :=
  let '(l,e,a) := it in
  (1 <=? e) && (powm a (N-1) N =? 1) && (Z.gcd (powm a ((N-1)/l) N - 1) N =? 1).
Fixpoint increasing (prev : Z) (its : list item) : bool :=
  match its with [] => true | (l,_,_) :: r => (prev <? l) && increasing l r end.
Definition check (N : Z) (its : list item) : bool :=
  (1 <? N) && ((N-1) mod (Fof its) =? 0) && (N <? Fof its * Fof its)
  && forallb (item_ok N) its && increasing 1 its.

Lemma div_coprime a b m : rel_prime a b -> (a | m) -> (b | m) -> (a * b | m).
Proof.
  intros R [k ->] D. rewrite Z.mul_comm in D. apply Gauss in D; [|apply rel_prime_sym; exact R].
  destruct D as [j ->]. exists j. ring.
Qed.

Lemma Fof_divides m its :
  (forall l e a, In (l,e,a) its -> prime l /\ 0 <= e /\ (l ^ e | m)) ->
  forall prev, increasing prev its = true -> (Fof its | m) /\ (forall p, prime p -> p <= prev -> rel_prime p (Fof its)).
Proof.
  induction its as [|[[l e] a] its IH]; intros H prev Hinc.
  - simpl. split; [apply Z.divide_1_l | intros; apply rel_prime_sym, rel_prime_1].
  - cbn [increasing] in Hinc. apply andb_prop in Hinc. destruct Hinc as [Hlt Hinc]. apply Z.ltb_lt in Hlt.
    destruct (H l e a (or_introl eq_refl)) as [Pl [He Dl]].
    destruct (IH (fun l' e' a' Hin => H l' e' a' (or_intror Hin)) l Hinc) as [DF RF].
    cbn [Fof fold_right]. fold (Fof its). split.
    + apply div_coprime; [|assumption|assumption].
      apply rel_prime_sym. rewrite <- (Z.pow_1_r (Fof its)). apply rel_prime_Zpower; try lia.
      apply rel_prime_sym. apply RF; [assumption|lia].
    + intros p Pp Hp. apply rel_prime_mult; [|apply RF; [assumption|lia]].
      rewrite <- (Z.pow_1_r p). apply rel_prime_Zpower; try lia.
      apply prime_rel_prime; [assumption|]. intro D. apply prime_div_prime in D; try assumption. lia.
Qed.

Theorem pocklington N its :
  check N its = true -> (forall l e a, In (l,e,a) its -> prime l) -> prime N.
Proof.
  unfold check. intros Hc Hprimes.
  repeat (apply andb_prop in Hc; let H := fresh "C" in destruct Hc as [Hc H]).
  apply Z.ltb_lt in Hc. apply Z.eqb_eq in C2. apply Z.ltb_lt in C1.
  rewrite forallb_forall in C0.
  destruct (prime_dec N) as [|Hnp]; [assumption|exfalso].
  destruct (prime_divisor_small N Hc) as [n [Pn [Dn Hsq]]]. specialize (Hsq Hnp).
  assert (Hn : 1 < n) by (destruct Pn; lia).
  assert (HF0 : Fof its <> 0) by (intro E; rewrite E in C1; lia).
  assert (DFN : (Fof its | N - 1)) by (apply Z.mod_divide; assumption).
  assert (modn : forall x, (x mod N) mod n = x mod n).
  { intro x. symmetry. apply Zmod_div_mod; [lia|lia|assumption]. }
  assert (Hitems : forall l e a, In (l,e,a) its -> prime l /\ 0 <= e /\ (l ^ e | n - 1)).
  { intros l e a Hin. pose proof (Hprimes l e a Hin) as Pl. pose proof (C0 _ Hin) as Hok.
    unfold item_ok in Hok. repeat (apply andb_prop in Hok; let H := fresh "K" in destruct Hok as [Hok H]).
    apply Z.leb_le in Hok. apply Z.eqb_eq in K0. apply Z.eqb_eq in K.
    assert (Hl : 1 < l) by (destruct Pl; lia).
    split; [assumption|]. split; [lia|].
    (* l^e | Fof its | N-1 *)
    assert (DlF : (l ^ e | Fof its)).
    { clear -Hin. induction its as [|[[l' e'] a'] r IH]; [destruct Hin|].
      cbn [Fof fold_right]. fold (Fof r). destruct Hin as [E|Hin].
      - inversion E; subst. exists (Fof r). ring.
      - apply Z.divide_trans with (Fof r); [apply IH; assumption | exists (l'^e'); ring]. }
    assert (DlN : (l ^ e | N - 1)) by (apply Z.divide_trans with (Fof its); assumption).
    destruct DlN as [c Hcq].
    assert (Hle : 0 < l ^ e) by (apply Z.pow_pos_nonneg; lia).
    assert (Hc0 : 0 <= c) by nia.
    rewrite powm_spec in K0, K by (try lia; apply Z.div_pos; lia).
    apply (order_step n (a ^ c) l e Pn Pl Hok).
    - rewrite <- Z.pow_mul_r by lia. rewrite <- Hcq. rewrite <- modn, K0. apply Z.mod_small; lia.
    - rewrite <- Z.pow_mul_r by (try lia; apply Z.pow_nonneg; lia).
      assert (E : (N - 1) / l = c * l ^ (e - 1)).
      { rewrite Hcq. replace (c * l ^ e) with (c * l ^ (e-1) * l).
        - apply Z.div_mul. lia.
        - replace (l ^ e) with (l * l ^ (e-1)) by (rewrite <- Z.pow_succ_r by lia; f_equal; lia). ring. }
      rewrite <- E. intro B.
      assert (Dn1 : (n | a ^ ((N-1)/l) mod N - 1)).
      { apply Z.mod_divide; [lia|]. rewrite Zminus_mod, modn, B. rewrite (Z.mod_small 1 n) by lia. rewrite Z.sub_diag. apply Z.mod_0_l. lia. }
      assert (D1 : (n | 1)) by (rewrite <- K; apply Z.gcd_greatest; assumption).
      apply Z.divide_1_r in D1. lia. }
  destruct (Fof_divides (n-1) its Hitems 1 C) as [DF _].
  apply Z.divide_pos_le in DF; [|lia].
  assert (0 < Fof its).
  { clear -Hitems. induction its as [|[[l e] a] r IH]; [simpl; lia|].
    cbn [Fof fold_right]. fold (Fof r).
    destruct (Hitems l e a (or_introl eq_refl)) as [Pl [He _]].
    assert (0 < l ^ e) by (apply Z.pow_pos_nonneg; destruct Pl; lia).
    assert (0 < Fof r) by (apply IH; intros l0 e0 a0 Hin0; apply (Hitems l0 e0 a0); right; assumption). nia. }
  nia.
Qed.
Print Assumptions pocklington.


(* ---------- trial division for small primes ---------- *)
Fixpoint no_div (n : Z) (k : nat) (d : Z) : bool :=
  match k with
  | O => true
  | Datatypes.S k' => negb (n mod d =? 0) && no_div n k' (d + 1)
  end.
Definition trial (n : Z) : bool := (1 <? n) && no_div n (Z.to_nat (Z.sqrt n - 1)) 2.

Lemma no_div_spec n k d : no_div n k d = true ->
  forall c, d <= c < d + Z.of_nat k -> n mod c <> 0.
Proof.
  revert d. induction k as [|k IH]; intros d H c Hc; [lia|].
  cbn [no_div] in H. apply andb_prop in H. destruct H as [H1 H2].
  destruct (Z.eq_dec c d) as [->|Hne].
  - apply negb_true_iff in H1. apply Z.eqb_neq in H1. exact H1.
  - apply (IH (d + 1) H2). lia.
Qed.

Theorem trial_sound n : trial n = true -> prime n.
Proof.
  unfold trial. intro H. apply andb_prop in H. destruct H as [H1 H2].
  apply Z.ltb_lt in H1.
  destruct (prime_dec n) as [P|NP]; [exact P|exfalso].
  destruct (prime_divisor_small n H1) as [d [Pd [Dd Hsq]]].
  specialize (Hsq NP).
  assert (2 <= d) by (destruct Pd; lia).
  assert (d <= Z.sqrt n).
  { apply Z.sqrt_le_square; lia. }
  apply (no_div_spec n _ 2 H2 d).
  - rewrite Z2Nat.id by lia. lia.
  - apply Z.mod_divide; [lia|exact Dd].
Qed.
