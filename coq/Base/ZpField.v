(* Z/m as a concrete, computable field (m prime), with Leibniz equality.
   Elements are canonical integers carrying a boolean canonicity proof, so
   [val x = val y -> x = y] holds without axioms (UIP on bool). *)
Require Import ZArith Znumtheory Lia Bool Eqdep_dec.
Require Import Coq.setoid_ring.Field_theory Coq.setoid_ring.Ring_theory.
From D377 Require Import Base.Fermat Base.FieldSec.
Open Scope Z_scope.

Section Zp.
  Variable m : Z.
  Hypothesis m_pos : 0 < m.

  Record Fm := mkF { val : Z; canon : (val mod m =? val) = true }.

  Lemma val_range x : 0 <= val x < m.
  Proof. destruct x as [v c]; simpl. apply Z.eqb_eq in c. rewrite <- c. apply Z.mod_pos_bound. exact m_pos. Qed.

  Lemma val_mod x : val x mod m = val x.
  Proof. apply Z.mod_small, val_range. Qed.

  Lemma Fm_eq x y : val x = val y -> x = y.
  Proof.
    destruct x as [v c], y as [w c']; simpl. intros <-. f_equal.
    apply UIP_dec. apply bool_dec.
  Qed.

  Lemma canon_mod z : (z mod m mod m =? z mod m) = true.
  Proof. apply Z.eqb_eq. apply Z.mod_mod. lia. Qed.

  Definition of_Z (z : Z) : Fm := mkF (z mod m) (canon_mod z).
  Lemma val_of_Z z : val (of_Z z) = z mod m. Proof. reflexivity. Qed.
  Lemma of_Z_val x : of_Z (val x) = x.
  Proof. apply Fm_eq. simpl. apply val_mod. Qed.

  Definition zero := of_Z 0.
  Definition one := of_Z 1.
  Definition add x y := of_Z (val x + val y).
  Definition sub x y := of_Z (val x - val y).
  Definition mul x y := of_Z (val x * val y).
  Definition opp x := of_Z (- val x).

  Fixpoint pow_pos (x : Fm) (p : positive) : Fm :=
    match p with
    | xH => x
    | xO p' => let y := pow_pos x p' in mul y y
    | xI p' => let y := pow_pos x p' in mul x (mul y y)
    end.
  Definition pow (x : Fm) (e : Z) : Fm :=
    match e with Z0 => one | Zpos p => pow_pos x p | Zneg _ => one end.
  Definition inv x := pow x (m - 2).
  Definition div x y := mul x (inv y).
  Definition eqb x y := val x =? val y.

  Lemma eqb_spec x y : reflect (x = y) (eqb x y).
  Proof.
    unfold eqb. destruct (Z.eqb_spec (val x) (val y)) as [E|E]; constructor.
    - apply Fm_eq, E. - intros ->. apply E. reflexivity.
  Defined.

  Lemma Fm_dec (x y : Fm) : {x = y} + {x <> y}.
  Proof. destruct (eqb_spec x y); [left|right]; assumption. Qed.

  Lemma val_pow_pos x p : val (pow_pos x p) = (val x) ^ (Zpos p) mod m.
  Proof.
    induction p as [p IH|p IH|]; cbn [pow_pos].
    - unfold mul. rewrite !val_of_Z, IH.
      rewrite <- Zmult_mod, Zmult_mod_idemp_r.
      f_equal. rewrite Pos2Z.inj_xI, Z.pow_add_r, Z.pow_twice_r, Z.pow_1_r by lia. ring.
    - unfold mul. rewrite !val_of_Z, IH. rewrite <- Zmult_mod.
      f_equal. rewrite Pos2Z.inj_xO, Z.pow_twice_r. reflexivity.
    - rewrite Z.pow_1_r. symmetry. apply val_mod.
  Qed.

  Lemma val_pow x e : 0 <= e -> val (pow x e) = (val x) ^ e mod m.
  Proof.
    destruct e as [|p|p]; intro He; [|apply val_pow_pos|lia].
    reflexivity.
  Qed.

  (* ring laws *)
  Lemma add_0_l x : add zero x = x.
  Proof. apply Fm_eq. unfold add, zero. rewrite !val_of_Z. rewrite Zplus_mod_idemp_l. apply val_mod. Qed.
  Lemma add_comm x y : add x y = add y x.
  Proof. apply Fm_eq. unfold add. rewrite !val_of_Z. f_equal. ring. Qed.
  Lemma add_assoc x y z : add x (add y z) = add (add x y) z.
  Proof. apply Fm_eq. unfold add. rewrite !val_of_Z. rewrite Zplus_mod_idemp_l, Zplus_mod_idemp_r. f_equal. ring. Qed.
  Lemma mul_1_l x : mul one x = x.
  Proof. apply Fm_eq. unfold mul, one. rewrite !val_of_Z. rewrite Zmult_mod_idemp_l, Z.mul_1_l. apply val_mod. Qed.
  Lemma mul_comm x y : mul x y = mul y x.
  Proof. apply Fm_eq. unfold mul. rewrite !val_of_Z. f_equal. ring. Qed.
  Lemma mul_assoc x y z : mul x (mul y z) = mul (mul x y) z.
  Proof. apply Fm_eq. unfold mul. rewrite !val_of_Z. rewrite Zmult_mod_idemp_l, Zmult_mod_idemp_r. f_equal. ring. Qed.
  Lemma distr_l x y z : mul (add x y) z = add (mul x z) (mul y z).
  Proof.
    apply Fm_eq. unfold mul, add. rewrite !val_of_Z.
    rewrite Zmult_mod_idemp_l, <- Zplus_mod. f_equal. ring.
  Qed.
  Lemma sub_def x y : sub x y = add x (opp y).
  Proof.
    apply Fm_eq. unfold sub, add, opp. rewrite !val_of_Z.
    rewrite Zplus_mod_idemp_r. f_equal.
  Qed.
  Lemma opp_def x : add x (opp x) = zero.
  Proof.
    apply Fm_eq. unfold add, opp, zero. rewrite !val_of_Z.
    rewrite Zplus_mod_idemp_r. f_equal. ring.
  Qed.

  Lemma Fm_ring : ring_theory zero one add mul sub opp (@eq Fm).
  Proof.
    constructor.
    - exact add_0_l. - exact add_comm. - exact add_assoc.
    - exact mul_1_l. - exact mul_comm. - exact mul_assoc.
    - exact distr_l. - exact sub_def. - exact opp_def.
  Qed.

  Hypothesis m_prime : prime m.

  Lemma m_gt1 : 1 < m. Proof. destruct m_prime; assumption. Qed.

  Lemma one_neq_zero : one <> zero.
  Proof.
    intro E. apply (f_equal val) in E. unfold one, zero in E. rewrite !val_of_Z in E.
    pose proof m_gt1. rewrite Z.mod_small, Z.mod_small in E; lia.
  Qed.

  Lemma not_div_val x : x <> zero -> ~ (m | val x).
  Proof.
    intros Hx D. apply Hx. apply Fm_eq. unfold zero. rewrite val_of_Z.
    rewrite Z.mod_small by lia.
    pose proof (val_range x). destruct D as [k Hk].
    destruct (Z.eq_dec (val x) 0) as [E|E]; [assumption|].
    exfalso. assert (0 < k) by nia. nia.
  Qed.

  Lemma inv_l x : x <> zero -> mul (inv x) x = one.
  Proof.
    intro Hx. apply Fm_eq. unfold mul, inv, one. rewrite !val_of_Z.
    pose proof m_gt1.
    rewrite val_pow by lia. rewrite Zmult_mod_idemp_l.
    replace (val x ^ (m - 2) * val x) with (val x ^ (m - 1)).
    - rewrite (fermat_little m m_prime (val x) (not_div_val x Hx)). rewrite Z.mod_small; lia.
    - replace (m - 1) with (Z.succ (m - 2)) by lia. rewrite Z.pow_succ_r by lia. ring.
  Qed.

  Lemma Fm_field : field_theory zero one add mul sub opp div inv (@eq Fm).
  Proof.
    constructor.
    - exact Fm_ring.
    - exact one_neq_zero.
    - reflexivity.
    - exact inv_l.
  Qed.

  Lemma Fm_integral x y : mul x y = zero -> x = zero \/ y = zero.
  Proof.
    intro E. apply (f_equal val) in E. unfold mul, zero in E. rewrite !val_of_Z in E.
    pose proof m_gt1. rewrite (Z.mod_small 0) in E by lia.
    apply Z.mod_divide in E; [|lia].
    apply prime_mult in E; [|exact m_prime].
    destruct (Fm_dec x zero) as [Hx|Hx]; [left; exact Hx|].
    destruct (Fm_dec y zero) as [Hy|Hy]; [right; exact Hy|].
    exfalso. destruct E as [E|E]; [exact (not_div_val x Hx E)|exact (not_div_val y Hy E)].
  Qed.

  Definition Fm_AField : AField :=
    {| F := Fm; FieldSec.zero := zero; FieldSec.one := one;
       FieldSec.add := add; FieldSec.mul := mul; FieldSec.sub := sub; FieldSec.opp := opp;
       FieldSec.div := div; FieldSec.inv := inv;
       Ffield := Fm_field; F_id := Fm_integral; feqb := eqb; feqb_spec := eqb_spec |}.

  (* Fermat in the field: x <> 0 -> x^(m-1) = 1 *)
  Lemma fermat_F x : x <> zero -> pow x (m - 1) = one.
  Proof.
    intro Hx. apply Fm_eq. pose proof m_gt1. rewrite val_pow by lia.
    unfold one. rewrite val_of_Z.
    rewrite (fermat_little m m_prime (val x) (not_div_val x Hx)). rewrite Z.mod_small; lia.
  Qed.
End Zp.

Arguments val {m} _.
Arguments mkF {m} _ _.
