(* The three concrete fields of decaf377: Fq (base field of the curve, scalar field of BLS12-377),
   Fr (scalar field of decaf377), Fp (base field of BLS12-377). *)
Require Import ZArith Znumtheory Lia.
From D377 Require Import Base.Certs Base.ZpField Base.FieldSec.
Open Scope Z_scope.

Lemma q_pos : 0 < q. Proof. reflexivity. Qed.
Lemma r_pos : 0 < r. Proof. reflexivity. Qed.
Lemma p_pos : 0 < p. Proof. reflexivity. Qed.

Definition Fq := Fm q.
Definition Fr := Fm r.
Definition Fp := Fm p.

Definition FqF : AField := Fm_AField q q_pos q_prime.
Definition FrF : AField := Fm_AField r r_pos r_prime.
Definition FpF : AField := Fm_AField p p_pos p_prime.

Definition fq (z : Z) : Fq := of_Z q q_pos z.
Definition fr (z : Z) : Fr := of_Z r r_pos z.
Definition fp (z : Z) : Fp := of_Z p p_pos z.
