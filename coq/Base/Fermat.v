Require Import ZArith Znumtheory Lia List Permutation.
Import ListNotations.
Open Scope Z_scope.

Definition prodl (l : list Z) : Z := fold_right Z.mul 1 l.

Lemma prodl_perm l l' : Permutation l l' -> prodl l = prodl l'.
Proof. induction 1; simpl; try lia. Qed.

Lemma prodl_map_mul a p l : p <> 0 ->
  (prodl (map (fun x => (a * x) mod p) l)) mod p = (a ^ Z.of_nat (length l) * prodl l) mod p.
Proof.
  intro Hp. induction l as [|x l IH].
  - simpl. reflexivity.
  - cbn [map prodl fold_right length]. fold (prodl (map (fun x => (a*x) mod p) l)). fold (prodl l).
    rewrite Nat2Z.inj_succ, Z.pow_succ_r by lia.
    rewrite Z.mul_mod, IH, Z.mod_mod, <- Z.mul_mod by assumption.
    f_equal. ring.
Qed.

Lemma map_inj_in_NoDup {A B} (f : A -> B) l :
  (forall x y, In x l -> In y l -> f x = f y -> x = y) -> NoDup l -> NoDup (map f l).
Proof.
  induction l as [|a l IH]; intros Hinj Hnd; simpl; [constructor|].
  inversion Hnd as [|? ? Hna Hnd']; subst. constructor.
  - intro Hin. apply in_map_iff in Hin. destruct Hin as [y [E Hy]].
    apply Hinj in E; [subst; tauto | right; assumption | left; reflexivity].
  - apply IH; [|assumption]. intros x y Hx Hy. apply Hinj; right; assumption.
Qed.

Section Fermat.
  Variable p : Z.
  Hypothesis Hp : prime p.
  Let p_pos : 1 < p. Proof. destruct Hp; lia. Qed.

  Definition S := map Z.of_nat (seq 1 (Z.to_nat (p - 1))).

  Lemma in_S x : In x S <-> 1 <= x < p.
  Proof.
    unfold S. rewrite in_map_iff. split.
    - intros [n [<- Hn]]. apply in_seq in Hn. lia.
    - intro H. exists (Z.to_nat x). split; [lia|]. apply in_seq. lia.
  Qed.

  Lemma S_len : length S = Z.to_nat (p - 1).
  Proof. unfold S. rewrite map_length, seq_length. reflexivity. Qed.

  Lemma S_nodup : NoDup S.
  Proof. unfold S. apply FinFun.Injective_map_NoDup; [intros x y; lia | apply seq_NoDup]. Qed.

  Lemma rel_prime_S x : 1 <= x < p -> rel_prime p x.
  Proof.
    intro H. apply rel_prime_sym. apply rel_prime_le_prime; [exact Hp | lia].
  Qed.

  Lemma prodl_rel_prime l : (forall x, In x l -> rel_prime p x) -> rel_prime p (prodl l).
  Proof.
    induction l as [|x l IH]; intro H; simpl.
    - apply rel_prime_sym, rel_prime_1.
    - apply rel_prime_mult; [apply H; left; reflexivity | apply IH; intros; apply H; right; assumption].
  Qed.

  Theorem fermat_little a : ~ (p | a) -> a ^ (p - 1) mod p = 1.
  Proof.
    intro Ha.
    assert (Hrel : rel_prime p a) by (apply prime_rel_prime; assumption).
    set (fS := map (fun x => (a * x) mod p) S).
    assert (Hincl : incl fS S).
    { intros y Hy. unfold fS in Hy. apply in_map_iff in Hy. destruct Hy as [x [<- Hx]].
      apply in_S in Hx. apply in_S.
      assert (0 <= (a*x) mod p < p) by (apply Z.mod_pos_bound; lia).
      assert ((a*x) mod p <> 0).
      { intro E. apply Z.mod_divide in E; [|lia].
        apply prime_mult in E; [|exact Hp]. destruct E as [E|E]; [tauto|].
        apply Z.divide_pos_le in E; lia. }
      lia. }
    assert (Hnd : NoDup fS).
    { unfold fS. apply map_inj_in_NoDup; [|exact S_nodup].
      intros x y Hx Hy E. apply in_S in Hx. apply in_S in Hy.
      assert (D : (p | a * (x - y))).
      { apply Z.mod_divide; [lia|]. rewrite Z.mul_sub_distr_l, Zminus_mod, E, Z.sub_diag. apply Z.mod_0_l. lia. }
      apply Gauss in D; [|exact Hrel].
      destruct D as [k Hk]. assert (k = 0) by nia. lia. }
    assert (Hperm : Permutation fS S).
    { apply NoDup_Permutation_bis; [exact Hnd | | exact Hincl]. unfold fS. rewrite map_length. lia. }
    apply prodl_perm in Hperm.
    assert (E : (a ^ (p-1) * prodl S) mod p = (1 * prodl S) mod p).
    { rewrite Z.mul_1_l. transitivity (prodl fS mod p); [|rewrite Hperm; reflexivity].
      unfold fS. rewrite prodl_map_mul by lia. rewrite S_len, Z2Nat.id by lia. reflexivity. }
    assert (D : (p | (a^(p-1) - 1) * prodl S)).
    { apply Z.mod_divide; [lia|]. rewrite Z.mul_sub_distr_r, Zminus_mod, E, Z.sub_diag. apply Z.mod_0_l. lia. }
    rewrite Z.mul_comm in D. apply Gauss in D. 2:{ apply prodl_rel_prime. intros x Hx. apply rel_prime_S, in_S, Hx. }
    destruct D as [k Hk].
    replace (a^(p-1)) with (1 + k*p) by lia. rewrite Z_mod_plus_full. apply Z.mod_small. lia.
  Qed.
End Fermat.
Print Assumptions fermat_little.
