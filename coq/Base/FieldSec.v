(* Scratch prototype: abstract field section + nsatz instances *)
Require Export ZArith Field Ring Nsatz Lia Morphisms Bool.
Require Export Coq.setoid_ring.Field_theory Coq.setoid_ring.Cring Coq.setoid_ring.Integral_domain Coq.setoid_ring.Ncring.

Class AField := {
  F : Type;
  zero : F; one : F;
  add : F -> F -> F; mul : F -> F -> F; sub : F -> F -> F; opp : F -> F;
  div : F -> F -> F; inv : F -> F;
  Ffield : field_theory zero one add mul sub opp div inv (@eq F);
  F_id : forall x y : F, mul x y = zero -> x = zero \/ y = zero;
  feqb : F -> F -> bool;
  feqb_spec : forall x y : F, reflect (x = y) (feqb x y)
}.

Definition F_dec {AF : AField} (x y : F) : {x = y} + {x <> y} :=
  match feqb_spec x y with ReflectT _ e => left e | ReflectF _ n => right n end.

Section Inst.
  Context {AF : AField}.
  Add Field Ff : Ffield.
  Lemma r1 x : add zero x = x. Proof. ring. Qed.
  Lemma r2 x y : add x y = add y x. Proof. ring. Qed.
  Lemma r3 x y z : add x (add y z) = add (add x y) z. Proof. ring. Qed.
  Lemma r4 x : mul one x = x. Proof. ring. Qed.
  Lemma r5 x : mul x one = x. Proof. ring. Qed.
  Lemma r6 x y z : mul x (mul y z) = mul (mul x y) z. Proof. ring. Qed.
  Lemma r7 x y z : mul (add x y) z = add (mul x z) (mul y z). Proof. ring. Qed.
  Lemma r8 x y z : mul z (add x y) = add (mul z x) (mul z y). Proof. ring. Qed.
  Lemma r9 x y : sub x y = add x (opp y). Proof. ring. Qed.
  Lemma r10 x : add x (opp x) = zero. Proof. ring. Qed.
  Lemma r11 x y : mul x y = mul y x. Proof. ring. Qed.
  Global Instance Fops : @Ring_ops F zero one add mul sub opp (@eq F) := {}.
  Global Instance Fring : @Ring F zero one add mul sub opp (@eq F) Fops.
  Proof.
    constructor.
    - exact (@eq_equivalence F).
    - intros ? ? E1 ? ? E2; cbv in E1, E2; subst; reflexivity.
    - intros ? ? E1 ? ? E2; cbv in E1, E2; subst; reflexivity.
    - intros ? ? E1 ? ? E2; cbv in E1, E2; subst; reflexivity.
    - intros ? ? E1; cbv in E1; subst; reflexivity.
    - exact r1. - exact r2. - exact r3. - exact r4. - exact r5. - exact r6. - exact r7. - exact r8. - exact r9. - exact r10.
  Qed.
  Global Instance Fcring : @Cring F zero one add mul sub opp (@eq F) Fops Fring.
  Proof. exact r11. Qed.
  Global Instance Fid : @Integral_domain F zero one add mul sub opp (@eq F) Fops Fring Fcring.
  Proof. constructor. exact F_id. destruct Ffield; auto. Qed.
End Inst.

(* generic helpers over any AField *)
Section Generic.
  Context {AF : AField}.
  Add Field Ffg : Ffield.
  Fixpoint fof_pos (p : positive) : F :=
    match p with
    | xH => one
    | xO p' => let y := fof_pos p' in add y y
    | xI p' => let y := fof_pos p' in add one (add y y)
    end.
  Definition fofZ (z : Z) : F :=
    match z with Z0 => zero | Zpos p => fof_pos p | Zneg p => opp (fof_pos p) end.
  Fixpoint fpow_pos (x : F) (p : positive) : F :=
    match p with
    | xH => x
    | xO p' => let y := fpow_pos x p' in mul y y
    | xI p' => let y := fpow_pos x p' in mul x (mul y y)
    end.
  Definition fpow (x : F) (e : Z) : F :=
    match e with Z0 => one | Zpos p => fpow_pos x p | Zneg _ => one end.
  Definition two : F := add one one.
  Lemma fofZ_2 : fofZ 2 = two. Proof. reflexivity. Qed.
  Lemma fofZ_4 : fofZ 4 = mul two two. Proof. cbn. unfold two. ring. Qed.
  Lemma feqb_true x y : feqb x y = true <-> x = y.
  Proof. destruct (feqb_spec x y); split; intro; try assumption; try reflexivity; try discriminate; contradiction. Qed.
  Lemma feqb_false x y : feqb x y = false <-> x <> y.
  Proof. destruct (feqb_spec x y); split; intro; try assumption; try reflexivity; try discriminate; try contradiction. Qed.
  Lemma feqb_refl x : feqb x x = true. Proof. apply feqb_true. reflexivity. Qed.
End Generic.
