(* Scratch prototype: abstract field section + nsatz instances *)
Require Export ZArith Field Ring Nsatz Lia Morphisms Bool.
Require Export Coq.setoid_ring.Field_theory Coq.setoid_ring.Cring Coq.setoid_ring.Integral_domain Coq.setoid_ring.Ncring.

Class AField := {
  F : Type;
  zero : F; one : F;
  add : F -> F -> F; mul : F -> F -> F; sub : F -> F -> F; opp : F -> F;
  div : F -> F -> F; inv : F -> F;
  Ffield : field_theory zero one add mul sub opp div inv (@eq F);
  F_id : forall x y : F, mul x y = zero -> x = zero \/ y = zero;
  F_dec : forall x y : F, {x = y} + {x <> y}
}.

Section Inst.
  Context {AF : AField}.
  Add Field Ff : Ffield.
  Lemma r1 x : add zero x = x. Proof. ring. Qed.
  Lemma r2 x y : add x y = add y x. Proof. ring. Qed.
  Lemma r3 x y z : add x (add y z) = add (add x y) z. Proof. ring. Qed.
  Lemma r4 x : mul one x = x. Proof. ring. Qed.
  Lemma r5 x : mul x one = x. Proof. ring. Qed.
  Lemma r6 x y z : mul x (mul y z) = mul (mul x y) z. Proof. ring. Qed.
  Lemma r7 x y z : mul (add x y) z = add (mul x z) (mul y z). Proof. ring. Qed.
  Lemma r8 x y z : mul z (add x y) = add (mul z x) (mul z y). Proof. ring. Qed.
  Lemma r9 x y : sub x y = add x (opp y). Proof. ring. Qed.
  Lemma r10 x : add x (opp x) = zero. Proof. ring. Qed.
  Lemma r11 x y : mul x y = mul y x. Proof. ring. Qed.
  Global Instance Fops : @Ring_ops F zero one add mul sub opp (@eq F) := {}.
  Global Instance Fring : @Ring F zero one add mul sub opp (@eq F) Fops.
  Proof.
    constructor.
    - exact (@eq_equivalence F).
    - intros ? ? E1 ? ? E2; cbv in E1, E2; subst; reflexivity.
    - intros ? ? E1 ? ? E2; cbv in E1, E2; subst; reflexivity.
    - intros ? ? E1 ? ? E2; cbv in E1, E2; subst; reflexivity.
    - intros ? ? E1; cbv in E1; subst; reflexivity.
    - exact r1. - exact r2. - exact r3. - exact r4. - exact r5. - exact r6. - exact r7. - exact r8. - exact r9. - exact r10.
  Qed.
  Global Instance Fcring : @Cring F zero one add mul sub opp (@eq F) Fops Fring.
  Proof. exact r11. Qed.
  Global Instance Fid : @Integral_domain F zero one add mul sub opp (@eq F) Fops Fring Fcring.
  Proof. constructor. exact F_id. destruct Ffield; auto. Qed.
End Inst.
