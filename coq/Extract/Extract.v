(* Extraction of the executable model to OCaml.  Directives used (all part of the trusted base):
   ExtrOcamlBasic (bool, option, unit, list, prod, sumbool -> OCaml natives),
   ExtrOcamlString (string -> char list, ascii -> char),
   ExtrOcamlZBigInt (positive/N/Z -> Zarith's Big_int_Z.big_int with the arithmetic constants
   mapped to Big_int_Z functions — see /usr/lib/ocaml/coq/theories/extraction/ExtrOcamlZBigInt.v). *)
Require Coq.extraction.Extraction.
Require Import ExtrOcamlBasic ExtrOcamlString ExtrOcamlZBigInt.
From D377 Require Import Model.Concrete Model.OpTable Model.FieldTable Model.GadgetTable.
Extraction Language OCaml.
Extraction "model.ml" run_op OpTable.run op_sigs run_field field_op_names run_gadget.
