(* reads:  <build:0|1|-> <op> <int>*   one per line;  writes the resulting integer list, space separated.
   build "-" selects the low-level table Concrete.run_op (function-level ops), 0 = ark API table, 1 = min API table. *)
let explode s = List.init (String.length s) (String.get s)
let implode l = String.init (List.length l) (List.nth l)
let () =
  if Array.length Sys.argv > 1 && Sys.argv.(1) = "--list" then begin
    List.iter (fun b ->
      List.iter (fun (n, k) -> Printf.printf "%d %s %s\n" b (implode n) (implode k))
        (Model.op_sigs (Big_int_Z.big_int_of_int b))) [0; 1];
    List.iter (fun n -> Printf.printf "f %s\n" (implode n)) Model.field_op_names;
    exit 0 end;
  try
    while true do
      let line = input_line stdin in
      let toks = List.filter (fun s -> s <> "") (String.split_on_char ' ' line) in
      match toks with
      | b :: op :: args ->
        let zs = List.map (fun a -> Big_int_Z.big_int_of_string a) args in
        let res = (try
            if b = "-" then Model.run_op (explode op) zs
            else if b = "g" then Model.run_gadget (explode op) zs
            else if String.length b = 2 && b.[0] = 'f' then Model.run_field (Big_int_Z.big_int_of_int (Char.code b.[1] - 48)) (explode op) zs
            else Model.run (Big_int_Z.big_int_of_string b) (explode op) zs
          with Stack_overflow -> [Big_int_Z.big_int_of_int (-2)]) in
        print_endline (String.concat " " (List.map Big_int_Z.string_of_big_int res))
      | _ -> print_endline "-1"
    done
  with End_of_file -> ()
