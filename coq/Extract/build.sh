#!/bin/bash
# Extract the Coq model and build the OCaml model runner (needs the Coq tree built: Model/Concrete.vo)
set -e
cd "$(dirname "$0")"
coqc -Q .. D377 Extract.v > extract.log 2>&1 || { cat extract.log; exit 1; }
ocamlfind ocamlopt -O2 -package zarith -linkpkg -w -a model.mli model.ml driver.ml -o model_run 2> build.log || \
ocamlfind ocamlopt -package zarith -linkpkg -w -a model.mli model.ml driver.ml -o model_run 2>> build.log || { cat build.log; exit 1; }
echo "model_run built"
