#!/usr/bin/env python3
"""seed_meta.py <id> <demo-features> <check:result> ... : record in seeded/<id>/meta.json what was run to confirm the change and which checks reported it."""
import json, sys
sid, feat = sys.argv[1], sys.argv[2]
p = '/verif/seeded/%s/meta.json' % sid
m = json.load(open(p))
m['confirmed'] = {
  'how': 'tools/confirm_seed.sh /verif/seeded/%s %s  (scratch worktree of /repo HEAD under /tmp, removed afterwards)' % (sid, feat),
  'observed': ['demo passes on the unchanged tree', 'patch applies; cargo build --offline succeeds with default features, --features r1cs and --no-default-features',
               'cargo test --workspace --no-fail-fast --offline: 92+6+3 = 101 passed, 0 failed with the change', 'demo fails with the change']}
m['checks_run'] = {'how': 'tools/try_seed.sh /verif/seeded/%s/patch.diff <checks>  (git -C /repo apply; ./check <id>; git -C /repo checkout -- .)' % sid,
                   'results': dict(a.split(':', 1) for a in sys.argv[3:])}
json.dump(m, open(p, 'w'), indent=1)
