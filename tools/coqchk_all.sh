#!/bin/bash
# coqchk_all.sh: re-check the compiled development with the independent checker, one property module at a time (cumulative: coqchk
# re-checks dependencies each time, so the log shows which module first fails).  Output: /verif/.cache/coqchk/<module>.log
cd /verif/coq; mkdir -p /verif/.cache/coqchk
for m in "$@"; do
  ( /usr/bin/time -f "%es" timeout 14400 coqchk -o -silent -Q . D377 D377.$m ) > /verif/.cache/coqchk/$m.log 2>&1
  echo "$m rc=$? $(tail -1 /verif/.cache/coqchk/$m.log)"
done
