import sympy as sp, time
x1,y1,x2,y2,x3,y3,a,d=sp.symbols('x1 y1 x2 y2 x3 y3 a d')
def e(x,y): return a*x**2+y**2-1-d*x**2*y**2
e1,e2,e3=e(x1,y1),e(x2,y2),e(x3,y3)
def parts(xa,ya,xb,yb):
    return (xa*yb+ya*xb, ya*yb-a*xa*xb, 1+d*xa*xb*ya*yb, 1-d*xa*xb*ya*yb)
X12,Y12,dx12,dy12=parts(x1,y1,x2,y2)
X23,Y23,dx23,dy23=parts(x2,y2,x3,y3)
# x-coordinate
NLx = X12*dy12*y3 + Y12*dx12*x3 ; DLx = dx12*dy12 + d*X12*Y12*x3*y3
NRx = x1*Y23*dx23 + y1*X23*dy23 ; DRx = dx23*dy23 + d*x1*y1*X23*Y23
# y-coordinate
NLy = Y12*dx12*y3 - a*X12*dy12*x3 ; DLy = dx12*dy12 - d*X12*Y12*x3*y3
NRy = y1*Y23*dx23 - a*x1*X23*dy23 ; DRy = dx23*dy23 - d*x1*y1*X23*Y23
out=[]
for name,f in (('x',sp.expand(NLx*DRx-NRx*DLx)),('y',sp.expand(NLy*DRy-NRy*DLy))):
    t=time.time()
    # lex-like order making y_i^2 leading in e_i
    Q,R=sp.reduced(f,[e1,e2,e3],y1,y2,y3,x1,x2,x3,a,d,order='lex')
    print(name,'terms',len(f.as_ordered_terms()),'rem',R,'time',time.time()-t,[len(sp.expand(q).as_ordered_terms()) for q in Q])
    out.append((name,f,Q))
def coq(expr):
    s=sp.sstr(sp.expand(expr)); 
    import re
    s=re.sub(r'\*\*(\d+)', r'^\1', s)
    return s
with open('AssocCert.v','w') as fh:
    fh.write('Require Import ZArith Ring.\nOpen Scope Z_scope.\n')
    for name,f,Q in out:
        fh.write('Definition c%s1 (x1 y1 x2 y2 x3 y3 a d:Z) := %s.\n'%(name,coq(Q[0])))
        fh.write('Definition c%s2 (x1 y1 x2 y2 x3 y3 a d:Z) := %s.\n'%(name,coq(Q[1])))
        fh.write('Definition c%s3 (x1 y1 x2 y2 x3 y3 a d:Z) := %s.\n'%(name,coq(Q[2])))
    fh.write('''
Definition e (a d x y:Z) := a*x^2+y^2-1-d*x^2*y^2.
Lemma assoc_x_cert x1 y1 x2 y2 x3 y3 a d :
  let X12:=x1*y2+y1*x2 in let Y12:=y1*y2-a*x1*x2 in let dx12:=1+d*x1*x2*y1*y2 in let dy12:=1-d*x1*x2*y1*y2 in
  let X23:=x2*y3+y2*x3 in let Y23:=y2*y3-a*x2*x3 in let dx23:=1+d*x2*x3*y2*y3 in let dy23:=1-d*x2*x3*y2*y3 in
  (X12*dy12*y3 + Y12*dx12*x3)*(dx23*dy23 + d*x1*y1*X23*Y23) - (x1*Y23*dx23 + y1*X23*dy23)*(dx12*dy12 + d*X12*Y12*x3*y3)
  = cx1 x1 y1 x2 y2 x3 y3 a d * e a d x1 y1 + cx2 x1 y1 x2 y2 x3 y3 a d * e a d x2 y2 + cx3 x1 y1 x2 y2 x3 y3 a d * e a d x3 y3.
Proof. cbv zeta. unfold cx1,cx2,cx3,e. Time ring. Time Qed.
''')
print('written')
