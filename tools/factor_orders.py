import json
from sympy import factorint
p=0x01ae3a4617c510eac63b05c06ca1493b1a22d9f300f5138f1ef3622fba094800170b5d44300000008508c00000000001
q=0x12ab655e9a2ca55660b44d1e5c37b00159aa76fed00000010a11800000000001
r=0x4aad957a68b2955982d1347970dec005293a3afc43c8afeb95aee9ac33fd9ff
out={}
for n,N in (('q',q),('r',r),('p',p)):
    f=factorint(N-1)
    out[n]={str(k):v for k,v in f.items()}
    print(n,f,flush=True)
json.dump(out,open('order_factors.json','w'))
