#!/bin/bash
# op_audit.sh: run every quick check with op logging and list the harness ops that no check exercised
rm -f /tmp/oplog.txt; cd /verif
for c in C01 C02 C03 C04 C05 C06 C07 C08 C09 C10 C11 C12 C13 C14 C15 C16 C17; do VERIF_OPLOG=/tmp/oplog.txt ./check $c >/dev/null 2>&1; done
python3 - <<'PY'
from vlib import harness
used = {'ark': set(), 'min': set()}
for l in open('/tmp/oplog.txt'):
    t = l.split()
    if t[0] in used:
        used[t[0]].add(t[1])
        if t[1].startswith('r1.shape') and len(t) > 2: used[t[0]].add('r1.' + t[2])
for b in ('ark', 'min'):
    ops = set(harness.list_ops(b)); un = sorted(ops - used[b])
    print(b, len(ops), 'ops; not exercised by any check:', len(un)); print('  ', ' '.join(un))
PY
rm -f /tmp/oplog.txt
