#!/bin/bash
# Apply each semantics-preserving patch of /verif/harmless to /repo, run the given checks (default: all 17), expect silence; undo the patch.
# usage: tools/try_harmless.sh [patch ...] [-- Cxx ...]
cd /verif
patches=(); checks=()
while [ $# -gt 0 ]; do if [ "$1" = "--" ]; then shift; checks=("$@"); break; fi; patches+=("$1"); shift; done
[ ${#patches[@]} -eq 0 ] && patches=(harmless/*.diff)
[ ${#checks[@]} -eq 0 ] && checks=(C01 C02 C03 C04 C05 C06 C07 C08 C09 C10 C11 C12 C13 C14 C15 C16 C17)
rc=0
for p in "${patches[@]}"; do
  git -C /repo apply "$(realpath $p)" || { echo "cannot apply $p"; rc=1; continue; }
  for c in "${checks[@]}"; do
    ./check $c > /tmp/harmless_out.txt 2>&1; e=$?
    if [ $e -ne 0 ] || grep -q VIOLATION /tmp/harmless_out.txt; then echo "ALARM $p $c exit=$e: $(grep -A1 VIOLATION /tmp/harmless_out.txt | head -2 | tr '\n' ' ')"; rc=1; else echo "quiet $p $c"; fi
  done
  git -C /repo checkout -- .
done
rm -f /tmp/harmless_out.txt
exit $rc
