#!/bin/bash
# try_seed.sh <patch.diff> <Cxx> [Cyy ...] : apply a seeded change to /repo, run the checks, undo it.
P="$1"; shift
git -C /repo apply "$P" || { echo "PATCH DOES NOT APPLY"; exit 3; }
cd /verif
for c in "$@"; do echo "=== $c"; ./check $c 2>&1 | cut -c1-400 | head -12; echo "rc=${PIPESTATUS[0]}"; done
git -C /repo checkout -- .
git -C /repo status --short | head -3
