import sympy as sp, time
x1,y1,x2,y2,x3,y3,a,d=sp.symbols('x1 y1 x2 y2 x3 y3 a d')
def e(x,y): return a*x**2+y**2-1-d*x**2*y**2
e1,e2,e3=e(x1,y1),e(x2,y2),e(x3,y3)
def parts(xa,ya,xb,yb):
    return (xa*yb+ya*xb, ya*yb-a*xa*xb, 1+d*xa*ya*xb*yb, 1-d*xa*ya*xb*yb)
X12,Y12,dx12,dy12=parts(x1,y1,x2,y2)
X23,Y23,dx23,dy23=parts(x2,y2,x3,y3)
NLx = X12*dy12*y3 + Y12*dx12*x3 ; DLx = dx12*dy12 + d*X12*Y12*x3*y3
NRx = x1*Y23*dx23 + y1*X23*dy23 ; DRx = dx23*dy23 + d*x1*y1*X23*Y23
NLy = Y12*dx12*y3 - a*X12*dy12*x3 ; DLy = dx12*dy12 - d*X12*Y12*x3*y3
NRy = y1*Y23*dx23 - a*x1*X23*dy23 ; DRy = dx23*dy23 - d*x1*y1*X23*Y23
# closure: a Nx^2 Dy^2 + Ny^2 Dx^2 - Dx^2 Dy^2 - d Nx^2 Ny^2
clos = sp.expand(a*X12**2*dy12**2 + Y12**2*dx12**2 - dx12**2*dy12**2 - d*X12**2*Y12**2)
gens_order=[a,d,x1,y1,x2,y2,x3,y3]
def mono(term):
    c,m = term.as_coeff_Mul()
    c=int(c)
    pw = m.as_powers_dict() if m!=1 else {}
    fs=[]
    for g in gens_order:
        if g in pw:
            fs += [str(g)]*int(pw[g])
    neg = c<0; c=abs(c)
    if c!=1:
        fs = ['('+'+'.join(['1']*c)+')']+fs
    if not fs: fs=['1']
    return neg,'*'.join(fs)
def coq(expr):
    expr=sp.expand(expr)
    if expr==0: return '0'
    terms=expr.as_ordered_terms()
    s=''
    for i,t in enumerate(terms):
        neg,m=mono(t)
        if i==0: s += ('- ' if neg else '')+m
        else: s += (' - ' if neg else ' + ')+m
    return s
out=[]
t=time.time()
Q,R=sp.reduced(clos,[e1,e2],y1,y2,x1,x2,a,d,order='lex')
print('clos rem',R,time.time()-t,[len(sp.expand(q).as_ordered_terms()) for q in Q])
assert R==0
lines=[]
lines.append('  Definition cc1 (x1 y1 x2 y2 : F) : F := %s.'%coq(Q[0]))
lines.append('  Definition cc2 (x1 y1 x2 y2 : F) : F := %s.'%coq(Q[1]))
for name,f in (('x',sp.expand(NLx*DRx-NRx*DLx)),('y',sp.expand(NLy*DRy-NRy*DLy))):
    t=time.time()
    Q,R=sp.reduced(f,[e1,e2,e3],y1,y2,y3,x1,x2,x3,a,d,order='lex')
    print(name,'terms',len(f.as_ordered_terms()),'rem',R,'time',time.time()-t,[len(sp.expand(q).as_ordered_terms()) for q in Q])
    assert R==0
    for i in range(3):
        lines.append('  Definition c%s%d (x1 y1 x2 y2 x3 y3 : F) : F := %s.'%(name,i+1,coq(Q[i])))
open('/tmp/edlaw/cert_defs.v','w').write('\n'.join(lines)+'\n')
print('written')
