#!/bin/bash
# confirm_seed.sh <seed dir with patch.diff + demo.rs> <features for demo: default|r1cs|min>
# Confirms in a scratch worktree: builds in 3 configs, 101 tests pass, demo fails with the change and passes without.
set -u
SD="$1"; FEAT="${2:-default}"; DEMOFLAGS="${3:-}"   # third argument: RUSTFLAGS for the demo only (e.g. "--cfg decaf377_verif")
WT=/tmp/confirm_wt_$$
git -C /repo worktree add -q "$WT" HEAD || exit 2
cd "$WT"
export CARGO_NET_OFFLINE=true CARGO_TARGET_DIR=/tmp/confirm_target
case "$FEAT" in r1cs) F="--features r1cs";; min) F="--no-default-features";; *) F="";; esac
cp "$SD/demo.rs" tests/seed_demo.rs
echo "== original: demo"; RUSTFLAGS="$DEMOFLAGS" cargo test --offline $F --test seed_demo 2>&1 | grep -E "^test result|panicked|error(\[|:)" | head -5
git apply "$SD/patch.diff" || { echo "PATCH DOES NOT APPLY"; cd /; git -C /repo worktree remove --force "$WT"; exit 3; }
echo "== patched: builds"; for c in "" "--features r1cs" "--no-default-features"; do cargo build --offline $c 2>&1 | grep -E "^error|Finished" | head -2; done
echo "== patched: suite"; mv tests/seed_demo.rs /tmp/seed_demo_$$.rs; cargo test --workspace --no-fail-fast --offline 2>&1 | grep -E "^test result" ; mv /tmp/seed_demo_$$.rs tests/seed_demo.rs
echo "== patched: demo"; RUSTFLAGS="$DEMOFLAGS" cargo test --offline $F --test seed_demo 2>&1 | grep -E "^test result|panicked" | head -6
cd /; git -C /repo worktree remove --force "$WT"
