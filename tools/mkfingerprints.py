#!/usr/bin/env python3
"""mkfingerprints.py: record the sha256 of every source file of /repo the models were validated against (the pinned tree plus the recorded
fix: commits) in /verif/fingerprints.json.  The checks use it only to DEEPEN the exploration when a file differs (vlib/fingerprint.py):
a difference is never reported by itself."""
import hashlib, json, os, subprocess
REPO = '/repo'
files = subprocess.run(['git', '-C', REPO, 'ls-files', 'src', 'Cargo.toml', 'tests'], capture_output=True, text=True).stdout.split() + ['Cargo.lock']
fp = {f: hashlib.sha256(open(os.path.join(REPO, f), 'rb').read()).hexdigest() for f in files if os.path.isfile(os.path.join(REPO, f))}
head = subprocess.run(['git', '-C', REPO, 'rev-parse', 'HEAD'], capture_output=True, text=True).stdout.strip()
json.dump({'repo_head': head, 'files': fp}, open('/verif/fingerprints.json', 'w'), indent=0, sort_keys=True)
print('%d files at %s' % (len(fp), head[:10]))
