#!/usr/bin/env python3
# Development-time generator of Pocklington N-1 certificates for p, q, r (and
# every prime that appears in a chain).  Output: Coq source on stdout.  The
# certificates are *checked* by Coq (Base/Pock.v); this script is not trusted.
import sys, time
from sympy import factorint, isprime
from math import gcd
sys.setrecursionlimit(10000)
import json,os
certs={int(k):[tuple(x) for x in v] for k,v in json.load(open('pock_certs.json')).items()} if os.path.exists('pock_certs.json') else {}
SMALL=2**16
def cert(N):
    if N in certs or N < SMALL: return
    assert isprime(N), N
    f=factorint(N-1)
    F=1; used=[]
    for p in sorted(f, reverse=True):
        F*=p**f[p]; used.append(p)
        if F*F>N: break
    assert F*F>N
    wit={}
    for p in used:
        a=2
        while not (pow(a,N-1,N)==1 and gcd(pow(a,(N-1)//p,N)-1,N)==1): a+=1
        wit[p]=a
    certs[N]=[(p,f[p],wit[p]) for p in sorted(used)]
    for p in used: cert(p)
p=0x01ae3a4617c510eac63b05c06ca1493b1a22d9f300f5138f1ef3622fba094800170b5d44300000008508c00000000001
q=0x12ab655e9a2ca55660b44d1e5c37b00159aa76fed00000010a11800000000001
r=0x4aad957a68b2955982d1347970dec005293a3afc43c8afeb95aee9ac33fd9ff
extra=[int(x) for x in sys.argv[1:]]
for N in [q,r,p]+extra: cert(N)
json.dump({str(k):v for k,v in certs.items()}, open('pock_certs.json','w'))
print(len(certs),'certs')
