"""Rust side: build the two harness crates against /repo's working tree (hooks cfg on) and run op scripts."""
import os
from .core import *

BIN = {'ark': os.path.join(CACHE, 'target-ark', 'release', 'h_ark'),
       'min': os.path.join(CACHE, 'target-min', 'release', 'h_min'),
       'min-debug': os.path.join(CACHE, 'target-min', 'debug', 'h_min')}
_built = {}

def build(kind, timeout=3000):
    """cargo build (offline).  cargo's own change detection rebuilds from /repo's current working tree."""
    if _built.get(kind): return True, ''
    crate = 'h_ark' if kind == 'ark' else 'h_min'
    tdir = os.path.join(CACHE, 'target-ark' if kind == 'ark' else 'target-min')
    cmd = ['cargo', 'build', '--offline'] + ([] if kind == 'min-debug' else ['--release'])
    with Lock('cargo-' + crate):
        rc, o = run(cmd, cwd=os.path.join(VERIF, 'harness', crate), timeout=timeout,
                    env={'RUSTFLAGS': '--cfg decaf377_verif', 'CARGO_TARGET_DIR': tdir, 'CARGO_NET_OFFLINE': 'true'})
    if rc == 0: _built[kind] = True
    return rc == 0, o

def run_script(kind, lines, timeout=1800, env=None):
    """Returns list of output lines (one per op line) or raises."""
    ok, o = build(kind)
    if not ok: raise RuntimeError('harness build failed (%s):\n%s' % (kind, o[-4000:]))
    ops = [l for l in lines if l.strip() and not l.lstrip().startswith('#')]
    if os.environ.get('VERIF_OPLOG'):      # coverage audit: which harness ops do the checks exercise
        with open(os.environ['VERIF_OPLOG'], 'a') as fh:
            for l in ops: fh.write('%s %s\n' % (kind, ' '.join(l.split()[:3 if l.startswith('r1.shape') else 1])))
    e = {'H_OP_TIMEOUT_MS': '20000'}
    if env: e.update(env)
    res = []
    start = 0
    for attempt in range(200):
        rc, out = run([BIN[kind]], input='\n'.join(ops[start:]) + '\n', timeout=timeout, env=e, drop_stderr=True)
        part = out.split('\n')
        if part and part[-1] == '': part.pop()
        res += part
        if len(res) >= len(ops): break
        # the process died (watchdog exit after TIMEOUT, abort, stack overflow): mark the offending line and resume after it
        if not part or part[-1] != 'TIMEOUT': res.append('CRASH')
        start = len(res)
        if start >= len(ops): break
    return res[:len(ops)] + ['CRASH'] * (len(ops) - len(res))

def run_parallel(kind, lines, nproc=8, timeout=3000, env=None):
    """run_script over `nproc` harness processes (order preserved) — for ops that take seconds each (Groth16 proofs)"""
    import concurrent.futures
    ok, o = build(kind)
    if not ok: raise RuntimeError('harness build failed (%s):\n%s' % (kind, o[-4000:]))
    chunks = [lines[i::nproc] for i in range(nproc)]
    with concurrent.futures.ThreadPoolExecutor(max_workers=nproc) as ex:
        outs = list(ex.map(lambda c: run_script(kind, c, timeout=timeout, env=env) if c else [], chunks))
    res = [None] * len(lines)
    for i, c in enumerate(outs):
        for j, o in enumerate(c): res[i + j * nproc] = o
    return res

def list_ops(kind):
    ok, o = build(kind)
    if not ok: raise RuntimeError('harness build failed (%s):\n%s' % (kind, o[-4000:]))
    rc, out = run([BIN[kind], '--list-ops'], timeout=60)
    return [l.strip() for l in out.split('\n') if l.strip()]
