"""Independent Python reference (used only to SEARCH for failing inputs on the implementation and to classify
disagreements; never as evidence that a property holds): the sage specification of decaf377 in plain Python."""
from .gen import Q, R, ZETA, D

A = Q - 1
def inv(x): return pow(x % Q, -1, Q)
def is_sq(x): x %= Q; return x == 0 or pow(x, (Q - 1) // 2, Q) == 1
def neg(x): return (x % Q) & 1 == 1
def sqrt(x):
    """some square root of x mod Q (Tonelli-Shanks); None if non-square"""
    x %= Q
    if x == 0: return 0
    if not is_sq(x): return None
    s = 47; t = (Q - 1) >> 47
    z = pow(ZETA, t, Q)
    m = s; c = z; tt = pow(x, t, Q); r = pow(x, (t + 1) // 2, Q)
    while tt != 1:
        i = 0; y = tt
        while y != 1: y = y * y % Q; i += 1
        b = pow(c, 1 << (m - i - 1), Q)
        m = i; c = b * b % Q; tt = tt * c % Q; r = r * b % Q
    return r
def xsqrt(x):
    r = sqrt(x)
    if r is None: return None
    return Q - r if neg(r) else r

def ed_add(p, q):
    if p is None or q is None or len(p) != 2 or len(q) != 2: return None
    x1, y1 = p; x2, y2 = q
    k = D * x1 * y1 * x2 * y2 % Q
    return ((x1 * y2 + y1 * x2) * inv(1 + k) % Q, (y1 * y2 - A * x1 * x2) * inv(1 - k) % Q)
def ed_neg(p): return None if p is None or len(p) != 2 else ((-p[0]) % Q, p[1])
def on_curve(p): x, y = p; return (A * x * x + y * y - 1 - D * x * x * y * y) % Q == 0
def aff(c):
    X, Y, Z, T = c
    if Z % Q == 0: return ('Z=0', X % Q, Y % Q)      # not a point; never equal to anything (see coset_eq)
    zi = inv(Z); return (X * zi % Q, Y * zi % Q)
def wf(c):
    X, Y, Z, T = c
    return Z % Q != 0 and (X * Y - Z * T) % Q == 0 and (A * X * X + Y * Y - Z * Z - D * T * T) % Q == 0
def valid(c):
    X, Y, Z, T = c
    return wf(c) and is_sq((A - D) * (A * Z * Z - D * Y * Y))
def coset_eq(p, q):
    if p is None or q is None or len(p) != 2 or len(q) != 2: return False
    return p == q or p == ((-q[0]) % Q, (-q[1]) % Q)
def smul(k, p):
    acc = (0, 1)
    while k:
        if k & 1: acc = ed_add(acc, p)
        p = ed_add(p, p); k >>= 1
    return acc

def decode_spec(s):
    """Decaf_1_1_Point.decodeSpec on the integer of a 32-byte string; returns affine point or None"""
    if s >= Q: return None
    if neg(s): return None
    if s == 0: return (0, 1)
    t = xsqrt((A * A * pow(s, 4, Q) + 2 * (A - 2 * D) * s * s + 1) % Q)
    if t is None or t == 0: return None
    den = (1 + A * s * s) % Q
    if den == 0: return None
    if neg(2 * s * inv(t)): t = Q - t
    return (2 * s * inv(den) % Q, (1 - A * s * s) * inv(t) % Q)

def encode_spec(p):
    x, y = p
    if x == 0 or y == 0: return 0
    sr = xsqrt((1 - A * x * x) % Q)
    if sr is None: return None
    altx = x * y * inv(sr) % Q
    s = (1 + sr) * inv(x) % Q if neg(altx) else (1 - sr) * inv(x) % Q
    return Q - s if neg(s) else s

def from_jq(s, t):
    if s % Q == 0: return (0, 1)
    return (2 * s * inv(1 + A * s * s) % Q, (1 - A * s * s) * inv(t) % Q)

def elligator_spec(r0):
    r = ZETA * r0 * r0 % Q
    den = (D * r - (D - A)) * ((D - A) * r - D) % Q
    if den == 0: return (0, 1)
    n1 = (r + 1) * (A - 2 * D) * inv(den) % Q
    n2 = r * n1 % Q
    if is_sq(n1):
        s = xsqrt(n1); t = (-(r - 1) * (A - 2 * D) ** 2 * inv(den) - 1) % Q
    else:
        s = (-xsqrt(n2)) % Q; t = (r * (r - 1) * (A - 2 * D) ** 2 * inv(den) - 1) % Q
    return from_jq(s, t)

def contract_ok(num, den, b, y):
    num %= Q; den %= Q
    if num == 0: return b == 1 and y == 0
    if den == 0: return b == 0 and y == 0
    if b == 1: return y * y * den % Q == num and is_sq(num * inv(den))
    return y * y * den % Q == ZETA * num % Q and not is_sq(num * inv(den))
