"""Model side of the correspondence check: the Coq model extracted to OCaml (coq/Extract/model_run)."""
import os
from .core import *
from . import coq as coqmod

MODEL_BIN = os.path.join(COQ, 'Extract', 'model_run')
_built = {}

def build(timeout=1800):
    """(Re)extract and compile when Model/Concrete.vo is newer than the binary."""
    if _built.get('m'): return True, ''
    tables = ['Model/Concrete.vo', 'Model/OpTable.vo', 'Model/FieldTable.vo', 'Model/GadgetTable.vo']
    ok, o, _ = coqmod.make(tables)
    if not ok: return False, o
    newest = max(os.path.getmtime(os.path.join(COQ, t)) for t in tables)
    if (not os.path.exists(MODEL_BIN)) or os.path.getmtime(MODEL_BIN) < newest:
        with Lock('extract'):
            rc, o = run(['bash', os.path.join(COQ, 'Extract', 'build.sh')], timeout=timeout)
        if rc != 0: return False, o
    _built['m'] = True
    return True, ''

def run_model(lines, timeout=1800):
    """lines: 'op int int ...' (decimal).  Returns list of lists of ints (one per line)."""
    ok, o = build()
    if not ok: raise RuntimeError('model build failed:\n' + o[-4000:])
    rc, out = run([MODEL_BIN], input='\n'.join(lines) + '\n', timeout=timeout, env={'OCAMLRUNPARAM': 'l=8M'})
    res = []
    outl = out.split('\n')
    for l in outl[:len(lines)]:
        if l.strip() == '': res.append([]); continue
        try: res.append([int(x) for x in l.split()])
        except ValueError: res.append(['ERR', l])
    while len(res) < len(lines): res.append(['CRASH'])
    return res

def vm_eval(lines, timeout=3000):
    """Evaluate the same model ops inside Coq with vm_compute (no extraction involved) — used for replays and to
    cross-check the extracted binary.  Slow (seconds per square root)."""
    body = ['Require Import ZArith List String. From D377 Require Import Model.Concrete. Import ListNotations. Open Scope Z_scope. Open Scope string_scope.']
    for i, l in enumerate(lines):
        t = l.split()
        body.append('Eval vm_compute in (%d, run_op "%s" (%s)).' % (i, t[0], ' :: '.join(['(%s)' % x for x in t[1:]] + ['nil'])))
    rc, o = coqmod.eval_file('\n'.join(body) + '\n', 'vm_eval')
    if rc != 0: raise RuntimeError('vm_eval failed: ' + o[-2000:])
    import re
    res = {}
    for m in re.finditer(r'=\s*\((\d+),\s*(?:\[([^\]]*)\]|nil)\s*\)', o.replace('\n', ' ')):
        res[int(m.group(1))] = [int(x.strip().replace('(', '').replace(')', '')) for x in (m.group(2) or '').split(';') if x.strip()]
    return [res.get(i, ['MISSING']) for i in range(len(lines))]
