"""Shared machinery of the curve-level property checks (C01-C09, C12): structured pools of elements,
representatives and byte strings; script builders; the generic check flow
   proof stage  ->  correspondence (implementation vs extracted Coq model)  ->  on any break: search the
   implementation for a concrete failing input with the property's own predicate (Python reference of the
   sage specification, vlib/pyref.py)  ->  report."""
import os, json
from .core import *
from . import coq, harness, model, corr, gen, pyref
from .gen import Q, R

def E(c): return ','.join('%x' % (v % Q) for v in c)
def Af(c): return '%x,%x' % (c[0] % Q, c[1] % Q)
def parseE(s): return [int(x, 16) for x in s.split(',')]
def hexb(v, n=32): return (v % (1 << (8 * n))).to_bytes(n, 'little').hex()

IDENT = [0, 1, 1, 0]
T2REP = [0, Q - 1, 1, 0]           # the other representative of the identity: (0,-1)

def t2_translate(c): X, Y, Z, T = c; return [(-X) % Q, (-Y) % Q, Z, T]
def rescale(c, l): return [v * l % Q for v in c]
def neg_pt(c): X, Y, Z, T = c; return [(-X) % Q, Y, Z, (-T) % Q]

INVALID_SEEN = []     # (build, op line, output): invalid representatives handed out by the API while pools were built (reported by run_property)

class Pool:
    """valid elements of one build with their provenance, obtained through the real API"""
    def __init__(self, build, rng, n_rand=12):
        self.build = build
        lines = ['el.const.GENERATOR', 'el.const.IDENTITY']
        rs = [0, 1, Q - 1, 2, 3, 5] + [gen.rand_field(rng, Q) for _ in range(n_rand)]
        lines += ['el.elligator %x' % r for r in rs]
        ss = [0, 8] + [s for s in range(2, 200, 2)]
        lines += ['el.dec %s' % hexb(s) for s in ss]
        out = harness.run_script(build, lines)
        self.base = []; self.encodable = []
        def note(l, o, c):
            if len(c) != 4 or not pyref.valid(c): INVALID_SEEN.append((build, l, o))
        for l, o in zip(lines, out):
            if o.startswith('OK '):
                c = parseE(o[3:]); note(l, o, c); self.base.append(c); self.encodable.append(int.from_bytes(bytes.fromhex(l.split()[1]), 'little'))
            elif ',' in o and not o.startswith('ERR'): c = parseE(o); note(l, o, c); self.base.append(c)
            elif o.startswith('PANIC'): INVALID_SEEN.append((build, l, o))
        # derived: sums, doubles, scalar multiples (Z != 1), through the API
        lines = []
        b = self.base
        for i in range(min(len(b), 14)):
            lines.append('el.add.ee %s %s' % (E(b[i]), E(b[(i * 7 + 3) % len(b)])))
            lines.append('el.double %s' % E(b[i]))
            lines.append('el.smul.Ef %s %x' % (E(b[i]), [R - 1, 2, (R + 1) // 2, 5, gen.rand_field(rng, R)][i % 5]))
            if i % 3 == 0: lines.append('el.neg %s' % E(b[i]))          # unary minus and a subtraction: their results are operands too
            if i % 3 == 1: lines.append('el.sub.ee %s %s' % (E(b[i]), E(b[(i * 5 + 2) % len(b)])))
            if i % 3 == 2 and build == 'ark': lines.append('el.negate %s' % E(b[i]))
        if build == 'ark' and len(b) >= 3:
            # mixed projective / affine operations whose two operands are the SAME element (either coset representative) or opposite ones:
            # the exceptional inputs of every incomplete addition formula
            for c in b[2:5]:
                if not pyref.valid(c): continue
                a = pyref.aff(c); at = pyref.aff(t2_translate(c)); an = pyref.aff(neg_pt(c)); ant = pyref.aff(t2_translate(neg_pt(c)))
                lines += ['el.add.Ea %s %s' % (E(c), Af(a)), 'el.add.Ea %s %s' % (E(c), Af(at)), 'el.sub.Ea %s %s' % (E(c), Af(an)), 'el.sub.Ea %s %s' % (E(c), Af(ant)),
                          'el.add.Ea %s %s' % (E(c), Af(an)), 'el.sub.Ea %s %s' % (E(c), Af(at))]
            # multi-scalar results with ALIGNED scalars (all multiples of 16 / of 2^64: windowed and limb-wise algorithms end without a final
            # addition) and ordinary ones
            for ks in ([16, 32], [2**64, 3 * 2**64], [0x10, 0x100, 0x1000], [5, 7]):
                lines.append('el.msm_vartime %s %s' % (';'.join('%x' % k for k in ks), ';'.join(E(b[(3 * j + 1) % len(b)]) for j in range(len(ks)))))
        out = harness.run_script(build, lines)
        self.derived = [parseE(o) for o in out if ',' in o]
        for l, o in zip(lines, out):
            if ',' in o: note(l, o, parseE(o))
            elif o.startswith('PANIC'): INVALID_SEEN.append((build, l, o))
        # only valid representatives may seed further operations (an implementation that hands out an invalid one is reported by the
        # property predicates, which see the same operations; the generators must not crash on it)
        self.invalid = [c for c in self.base + self.derived if len(c) != 4 or not pyref.valid(c)]
        self.base = [c for c in self.base if len(c) == 4 and pyref.valid(c)]
        self.derived = [c for c in self.derived if len(c) == 4 and pyref.valid(c)]
        self.all = [IDENT, T2REP] + self.base + self.derived
    def reps(self, c, rng):
        """other representations of the same group element"""
        l = rng.below(Q - 2) + 2
        return [t2_translate(c), rescale(c, l), rescale(t2_translate(c), l)]
    def pick(self, rng):
        """uniform over the pool, except that one pick in six is a representative family member that random choice would
        almost never produce: either identity representative, rescaled (Z != 1), or the 2-torsion translate / a rescaling of a pool element"""
        r = rng.below(18)
        if r == 0: return T2REP
        if r == 1: return rescale(T2REP, rng.below(Q - 2) + 2)
        if r == 2: return rescale(IDENT, rng.below(Q - 2) + 2)
        c = rng.choice(self.all)
        if r == 3: return t2_translate(c)
        if r == 4: return rescale(c, rng.below(Q - 2) + 2)
        return c
    def batches(self, rng):
        """structured lists for the list-taking operations (sum, msm, normalize_batch, ...): both identity representatives,
        also rescaled, at every position among points with Z != 1"""
        d = (self.derived or self.base)[:4]; lam = rng.below(Q - 2) + 2
        long = [(self.derived + self.base)[i % len(self.derived + self.base)] for i in range(70)]      # longer than any plausible window (64)
        return [long, long[:65], [IDENT] * 3 + long[:66]] * (1 if rng is not None else 0) + [[T2REP] + d[:2], [d[0], rescale(T2REP, lam), d[1 % len(d)]], [IDENT] + d[:2], [d[0], rescale(IDENT, lam), d[1 % len(d)]], d[:2] + [T2REP],
                [T2REP, IDENT, d[0]], [rescale(T2REP, lam)] + [rescale(c, lam) for c in d[:2]], [d[0], neg_pt(d[0])], [d[0], t2_translate(neg_pt(d[0])), d[1 % len(d)]]]

def near_miss_strings(rng, valid_s, n_flip=24):
    """structured 32-byte strings: aliases s+q, q-s, bit flips, high-bit ORs, boundary values"""
    out = []
    for v in (0, 1, 2, 8, Q - 1, Q, Q + 1, Q - 2, (Q - 1) // 2, (Q + 1) // 2, 2**253, 2**253 - 1, 2**254, 2**255, 2**256 - 1, 2**252, 2 * Q, 2 * Q + 8):
        if v < 2**256: out.append(v)
    # strings whose decoding feeds the square root an argument with a structured 2-Sylow component (table windows, generator, roots of unity)
    out += gen.special_decode_strings(rng, 70)
    for s in valid_s[:10]:
        out.append(s)
        if s + Q < 2**256: out.append(s + Q)
        if s + 2 * Q < 2**256: out.append(s + 2 * Q)
        out.append((Q - s) % Q)
        out.append(s | (1 << 253)); out.append(s | (1 << 254)); out.append(s | (1 << 255)); out.append(s | (7 << 253))
        for _ in range(n_flip):
            out.append(s ^ (1 << rng.below(256)))
        out.append(s ^ 1)
    return out

# ------------------------------------------------------------------ generic flow
def correspondence(ctx, scripts, label=''):
    """scripts: {build: [lines]}.  Returns list of mismatches; fills ctx coverage."""
    mism_all = []; n_total = 0; distinct = set(); classes = {}
    for build, lines in scripts.items():
        if not lines: continue
        try:
            n, mism, hout, skipped = corr.compare(build, lines)
        except RuntimeError as e:
            ctx.violation('harness or model failed to build/run (%s): %s' % (build, str(e)[:300]),
                          {'stage': 'build', 'build': build, 'log': str(e)[-4000:]}, {'stage': 'build'}, found_input=False)
            continue
        n_total += n
        for l, o in zip(lines, hout):
            op = l.split()[0]
            classes.setdefault(build + ':' + op, [0, {}])
            classes[build + ':' + op][0] += 1
            kind = o.split()[0] if o.split() and o.split()[0] in ('OK', 'ERR', 'PANIC', 'SOME', 'NONE', 'UNSUPPORTED', 'BADINPUT') else 'value'
            if kind == 'ERR': kind = ' '.join(o.split()[:2])
            classes[build + ':' + op][1][kind] = classes[build + ':' + op][1].get(kind, 0) + 1
            args = l.split()[1:]
            if any(a not in ('0', '1', '-', E(IDENT)) for a in args): distinct.add(build + ' ' + l)
        if len(ctx.cov['samples']) < 24:
            for l, o in list(zip(lines, hout))[:3]:
                ctx.cov['samples'].append({'build': build, 'op': l[:160], 'implementation': o[:160]})
        mism_all += mism
    ctx.cov['evaluations'] += n_total
    ctx.cov['distinct_nontrivial'] += len(distinct)
    ctx.extra.setdefault('op_histogram', {}).update({k: {'n': v[0], 'outcomes': v[1]} for k, v in classes.items()})
    return mism_all

def finish_proof(ctx, st):
    """common reporting of the proof stage (hygiene, axioms).  Returns True when proofs are intact."""
    ok = True
    if not st['regen_ok']:
        ok = False
    if st['hygiene']:
        ctx.violation('forbidden vernacular in the Coq development: %s' % st['hygiene'][:5], {'stage': 'hygiene', 'items': st['hygiene']}, {'stage': 'hygiene'}, found_input=False)
    for t, ax in st.get('axioms', {}).items():
        extra = [a for a in ax if a not in coq.ALLOWED_AXIOMS]
        if extra:
            ctx.violation('theorem %s depends on axioms %s' % (t, extra), {'stage': 'axioms', 'theorem': t, 'axioms': extra}, {'stage': 'axioms', 'theorem': t}, found_input=False)
    return ok and st['make_ok']

def run_property(ctx, module, vo, files, build_scripts, search, what, always=None):
    """build_scripts(ctx, scale) -> {build: lines};  search(ctx, scale, hints) -> list of (desc, replay, key) concrete failures."""
    st = coq.proof_stage(ctx, module, vo, files)
    proofs_ok = finish_proof(ctx, st)
    scale = 1 if ctx.tier == 'quick' else int(os.environ.get('VERIF_THOROUGH_SCALE', '48'))
    if getattr(ctx, 'changed', None) and ctx.tier == 'quick': scale = 6     # the sources differ from the validated ones: explore more (vlib/fingerprint.py)
    try:
        scripts = build_scripts(ctx, scale)
        mism = correspondence(ctx, scripts)
    except RuntimeError as e:
        ctx.violation('harness or model failed to build/run: %s' % str(e)[:300], {'stage': 'build', 'log': str(e)[-4000:]}, {'stage': 'build'}, found_input=False)
        mism = []
    # values that the public API itself handed out while the operand pools were built (constants, decoded strings, hash-to-group
    # outputs, sums, doubles, scalar multiples of those) must be valid elements: the properties quantify over them
    seen = set()
    for b, l, o in INVALID_SEEN:
        if (b, l) in seen: continue
        seen.add((b, l))
        ctx.violation('%s: the API call %s returns %s, which is not a valid element (build %s)' % (what.split(' is no longer')[0], l[:100], o[:100], b),
                      {'stage': 'search', 'build': b, 'script': [l], 'output': [o]}, {'class': 'invalid_operand', 'build': b, 'op': l.split()[0]}, found_input=True)
        if len(seen) >= 4: break
    # predicates evaluated on every run (operations without a model op: vlib/surface.py)
    if always is not None:
        try:
            n_a, f_a = always(ctx, scale)
            ctx.cov['evaluations'] += n_a; ctx.cov['distinct_nontrivial'] += n_a
            for desc, replay, key in f_a[:8]: ctx.violation(desc, {'stage': 'search', **replay}, key, found_input=True)
        except RuntimeError as e:
            ctx.violation('harness failed: %s' % str(e)[:300], {'stage': 'build', 'log': str(e)[-3000:]}, {'stage': 'build'}, found_input=False)
    ctx.cov['rule'] = ('structured inputs named by the property quantifier (boundary field values, near-miss strings, both coset '
                       'representatives, projective rescalings, identity representatives, P/-P/P+P pairs) plus seeded random fill; a case is '
                       'non-trivial when some operand is not 0/1/identity; distinct by (build, op line)')
    broken = []
    if not st['regen_ok']:
        broken.append(('translator failed on the current source: ' + st.get('regen_log', '')[-400:], {'stage': 'translate', 'log': st.get('regen_log', '')[-3000:]}))
    elif not st['make_ok']:
        terr = st.get('translation_errors') or []
        broken.append(('Coq proof obligation no longer checks: %s%s' % (st['bad_file'] or '?', (' (' + '; '.join(e[:200] for e in terr[:3]) + ')') if terr else ''),
                       {'stage': 'proof', 'theorem_file': st['bad_file'], 'coq_log': st['make_log'][-3000:], 'translation_errors': terr}))
    for m in mism[:50]:
        broken.append(('model and implementation disagree on: %s' % m['line'][:200], {'stage': 'correspondence', **m}))
    if not broken and getattr(ctx, 'changed', None):
        # nothing broke although the sources changed: still evaluate the property's own predicate on the implementation
        fails = search(ctx, 2 * scale, [])
        seen = set()
        for desc, replay, key in fails:
            k = json.dumps(key, sort_keys=True)
            if k in seen: continue
            seen.add(k); ctx.violation(desc, {'stage': 'search', 'source_files_changed': ctx.changed, **replay}, key, found_input=True)
            if len(seen) >= 8: break
    if broken:
        # a tie is broken: is the PROPERTY violated?  search the implementation with the property's predicate
        fails = search(ctx, 10 * scale, mism)
        if fails:
            seen = set()
            for desc, replay, key in fails:
                k = json.dumps(key, sort_keys=True)
                if k in seen: continue
                seen.add(k)
                ctx.violation(desc, {'stage': 'search', 'broken_ties': [b[0] for b in broken][:10], **replay}, key, found_input=True)
                if len(seen) >= 8: break
        else:
            for desc, replay in broken[:5]:
                ctx.violation('%s — %s; no input violating the property was found on the implementation' % (what, desc),
                              replay, {'stage': replay.get('stage'), 'file': replay.get('theorem_file'), 'line': replay.get('line', '')[:80]}, found_input=False)
    ctx.assumptions += ['Coq kernel + vm_compute', 'translator/rs2v.py and consts.py render the Rust subset faithfully (a mistranslation shows up as a model/implementation disagreement)',
                        'hand models of arkworks-internal behaviour (ark-ec Projective/Affine, serialisation) are tied by the correspondence check only',
                        'extraction (ExtrOcamlBasic, ExtrOcamlString, ExtrOcamlZBigInt) of the model used for bulk evaluation']
