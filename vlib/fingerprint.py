"""Change-triggered deepening.  /verif/fingerprints.json holds the hashes of the /repo sources the hand models and generators were validated
against.  When a file differs, the checks of the properties that file can affect enlarge their structured/random exploration and run their
property predicates unconditionally (instead of only after a broken tie).  A difference by itself is never reported: only a broken proof
obligation, a model/implementation disagreement or a concrete failing input is."""
import hashlib, json, os
from .core import VERIF
REPO = os.environ.get('VERIF_REPO', '/repo')

# which source files can affect which property (coarse: by directory / file name)
def affects(path):
    p = set()
    if path.startswith('src/fields'): p |= {'C10', 'C11', 'C12', 'C17', 'C09'}
    if path.startswith('src/min_curve'): p |= {'C01', 'C02', 'C03', 'C04', 'C05', 'C06', 'C07', 'C08', 'C09', 'C12', 'C17'}
    if path.startswith('src/ark_curve/r1cs') or path == 'src/ark_curve/r1cs.rs': p |= {'C13', 'C14', 'C15'}
    elif path.startswith('src/ark_curve/bls12_377'): p |= {'C16', 'C15'}
    elif path.startswith('src/ark_curve'): p |= {'C01', 'C02', 'C03', 'C04', 'C05', 'C06', 'C07', 'C08', 'C09', 'C12', 'C13', 'C14', 'C15', 'C17'}
    if path in ('src/sign.rs', 'src/lib.rs', 'src/error.rs', 'src/fields.rs', 'Cargo.toml', 'Cargo.lock'): p |= {'C%02d' % i for i in range(1, 18)}
    if path.startswith('tests/'): p |= {'C15'}
    return p

_cache = {}
def changed_files():
    if 'c' in _cache: return _cache['c']
    out = []
    try:
        base = json.load(open(os.path.join(VERIF, 'fingerprints.json')))['files']
        seen = set()
        for root, _, fs in os.walk(os.path.join(REPO, 'src')):
            for f in fs:
                rel = os.path.relpath(os.path.join(root, f), REPO); seen.add(rel)
                h = hashlib.sha256(open(os.path.join(root, f), 'rb').read()).hexdigest()
                if base.get(rel) != h: out.append(rel)
        for rel in ('Cargo.toml', 'Cargo.lock'):
            pth = os.path.join(REPO, rel)
            if os.path.exists(pth) and base.get(rel) != hashlib.sha256(open(pth, 'rb').read()).hexdigest(): out.append(rel)
        out += [rel for rel in base if rel.startswith('src/') and rel not in seen]
    except Exception:
        out = []
    _cache['c'] = sorted(set(out))
    return _cache['c']

def deepen(prop):
    """files that differ from the validated sources and can affect `prop`"""
    if os.environ.get('VERIF_FORCE_DEEPEN'): return ['(forced by VERIF_FORCE_DEEPEN: self-test of the deepened path on an unchanged tree)']
    return [f for f in changed_files() if prop in affects(f)]
