"""R1CS gadget correspondence: harness r1.* ops (real constraint systems, hint-override hook) vs Model/GadgetTable.v"""
import re
from .core import *
from . import model, harness, pyref, gen
from .gen import Q, ZETA

def parse_r1(out):
    """'sat=1 ncons=.. val=X,Y raw=X,Y enc=..' -> dict"""
    d = {}
    for tok in out.split():
        if '=' in tok:
            k, v = tok.split('=', 1); d[k] = v
    return d

def hint_str(h): return '' if h is None else ' hint=%d,%x' % (h[0], h[1] % Q)

def model_line(op, args, hint):
    has, ws, y = (0, 0, 0) if hint is None else (1, hint[0], hint[1] % Q)
    if op == 'r1.new':
        px, py, s = args
        return 'g r1.new %d %d %d %d %d %d' % (px, py, s, has, ws, y)
    if op == 'r1.new_affine':
        return 'g r1.new_affine %d %d %d %d %d' % (args[0], args[1], has, ws, y)
    return 'g %s %s %d %d %d' % (op, ' '.join(str(a) for a in args), has, ws, y)

def compare(cases, timeout=1800):
    """cases: list of (op, protocol_args_string, model_args(list of ints), hint or None, extra protocol suffix).
    Returns (n, mismatches, parsed harness outputs)"""
    lines = []; mlines = []
    for op, pargs, margs, hint, extra in cases:
        lines.append('%s witness %s%s%s' % (op, pargs, hint_str(hint), extra))
        mlines.append(model_line(op, margs, hint))
    hout = harness.run_script('ark', lines, timeout=timeout)
    mout = model.run_model(mlines, timeout=timeout)
    mism = []; parsed = []
    for (op, pargs, margs, hint, extra), l, h, m in zip(cases, lines, hout, mout):
        d = parse_r1(h); parsed.append(d)
        if 'sat' not in d:
            mism.append({'line': l, 'implementation': h, 'model': m, 'why': 'no sat field'}); continue
        sat = 1 if d['sat'] == '1' else 0
        ok = (m and m[0] == sat)
        if ok and sat == 1:
            vals = d.get('raw') or d.get('val') or ''
            try:
                hv = [int(x, 16) for x in vals.split(',')] if vals not in ('', 'PANIC', 'ERR') else None
            except ValueError:
                hv = None
            if op == 'r1.isqrt': ok = hv == m[1:3]
            elif op == 'r1.encode': ok = hv == m[1:2]
            else: ok = hv == m[1:3]
        if not ok:
            mism.append({'line': l, 'implementation': h, 'model': m})
    return len(cases), mism, parsed, lines, hout

def sqrt_or_none(x): return pyref.sqrt(x % Q)

def hint_set(rng, x):
    """every (flag, y) able to satisfy some case equation of isqrt on argument x, plus arbitrary values"""
    ys = {0, 1, Q - 1, rng.below(Q)}
    if x % Q != 0:
        xi = pow(x, -1, Q)
        for t in (xi, ZETA * xi % Q):
            r = sqrt_or_none(t)
            if r is not None: ys.add(r); ys.add(Q - r)
    return [(f, y) for f in (0, 1) for y in sorted(ys)]
