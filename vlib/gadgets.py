"""R1CS gadget correspondence: harness r1.* ops (real constraint systems, hint-override hook) vs Model/GadgetTable.v"""
import re
from .core import *
from . import model, harness, pyref, gen
from .gen import Q, ZETA

def parse_r1(out):
    """'sat=1 ncons=.. val=X,Y raw=X,Y enc=..' -> dict"""
    d = {}
    for tok in out.split():
        if '=' in tok:
            k, v = tok.split('=', 1); d[k] = v
    return d

def hint_str(h): return '' if h is None else ' hint=%d,%x' % (h[0], h[1] % Q)

def model_line(op, args, hint):
    has, ws, y = (0, 0, 0) if hint is None else (1, hint[0], hint[1] % Q)
    if op == 'r1.new':
        px, py, s = args
        return 'g r1.new %d %d %d %d %d %d' % (px, py, s, has, ws, y)
    if op == 'r1.new_affine':
        return 'g r1.new_affine %d %d %d %d %d' % (args[0], args[1], has, ws, y)
    return 'g %s %s %d %d %d' % (op, ' '.join(str(a) for a in args), has, ws, y)

def compare(cases, timeout=1800):
    """cases: list of (op, protocol_args_string, model_args(list of ints), hint or None, extra protocol suffix).
    Returns (n, mismatches, parsed harness outputs)"""
    lines = []; mlines = []
    for op, pargs, margs, hint, extra in cases:
        lines.append('%s witness %s%s%s' % (op, pargs, hint_str(hint), extra))
        mlines.append(model_line(op, margs, hint))
    hout = harness.run_script('ark', lines, timeout=timeout)
    mout = model.run_model(mlines, timeout=timeout)
    mism = []; parsed = []
    for (op, pargs, margs, hint, extra), l, h, m in zip(cases, lines, hout, mout):
        d = parse_r1(h); parsed.append(d)
        if 'sat' not in d:
            mism.append({'line': l, 'implementation': h, 'model': m, 'why': 'no sat field'}); continue
        sat = 1 if d['sat'] == '1' else 0
        ok = (m and m[0] == sat)
        if ok and sat == 1:
            vals = d.get('raw') or d.get('val') or ''
            try:
                hv = [int(x, 16) for x in vals.split(',')] if vals not in ('', 'PANIC', 'ERR') else None
            except ValueError:
                hv = None
            if op == 'r1.isqrt': ok = hv == m[1:3]
            elif op == 'r1.encode': ok = hv == m[1:2]
            else: ok = hv == m[1:3]
        if not ok:
            mism.append({'line': l, 'implementation': h, 'model': m})
    return len(cases), mism, parsed, lines, hout

def sqrt_or_none(x): return pyref.sqrt(x % Q)

def hint_set(rng, x):
    """every (flag, y) able to satisfy some case equation of isqrt on argument x, plus arbitrary values"""
    ys = {0, 1, Q - 1, rng.below(Q)}
    if x % Q != 0:
        xi = pow(x, -1, Q)
        for t in (xi, ZETA * xi % Q):
            r = sqrt_or_none(t)
            if r is not None: ys.add(r); ys.add(Q - r)
    return [(f, y) for f in (0, 1) for y in sorted(ys)]

def equality_family(rng, pool, scale, E, t2_translate, rescale, neg_pt):
    """is_eq / is_neq / enforce_equal / enforce_not_equal / conditional variants between a variable (witness, input or constant: the
    canonical representative after the in-circuit decode) and a CONSTANT holding any representative of the same element (2-torsion
    translate, projective rescaling), its negation, or another element.  Returns (n, failures) with failures = (kind, desc, line, output):
    kind 'unsound' = satisfied / wrong value although the native relation says otherwise, 'incomplete' = an honest true statement is unsatisfiable."""
    from . import harness, pyref
    from .gen import Q
    lines = []; meta = []
    els = [c for c in ([pool.base[0]] + pool.base[2:5] + pool.derived[:2 + scale]) if pyref.valid(c)]
    ident = [0, 1, 1, 0]; t2 = [0, Q - 1, 1, 0]
    pairs = []
    for a in els:
        lam = rng.below(Q - 2) + 2
        pairs += [(a, a), (a, t2_translate(a)), (a, rescale(a, lam)), (a, rescale(t2_translate(a), lam)), (a, neg_pt(a)), (a, t2_translate(neg_pt(a)))]
    pairs += [(els[0], els[-1]), (ident, t2), (t2, ident), (ident, ident), (ident, els[0]), (els[0], t2)]
    for i, (a, b) in enumerate(pairs):
        eq = pyref.coset_eq(pyref.aff(a), pyref.aff(b))
        for mode in (('witness', 'input', 'const') if i % 3 == 0 else ('witness',)):
            for op in ('is_eq.mixed', 'is_neq.mixed', 'enforce_equal.mixed', 'enforce_not_equal.mixed', 'cond_enforce_equal.mixed', 'cond_enforce_not_equal.mixed'):
                lines.append('r1.%s %s %s %s' % (op, mode, E(a), E(b))); meta.append((op, eq))
    out = harness.run_script('ark', lines); fails = []
    for l, o, (op, eq) in zip(lines, out, meta):
        d = parse_r1(o); sat = d.get('sat') == '1' and 'err' not in d
        if op in ('is_eq.mixed', 'is_neq.mixed'):
            want = ('1' if eq else '0') if op == 'is_eq.mixed' else ('0' if eq else '1')
            v = d.get('val') or d.get('raw')
            if not sat: fails.append(('incomplete', '%s is not satisfied for honest inputs' % op, l, o))
            elif v != want: fails.append(('unsound', '%s returns %s, the native comparison gives %s' % (op, v, want), l, o))
        else:
            should = eq if 'not' not in op else not eq
            if sat and not should: fails.append(('unsound', '%s is satisfied although the operands are %s natively' % (op, 'equal' if eq else 'different'), l, o))
            if not sat and should: fails.append(('incomplete', '%s is unsatisfiable although the operands are %s natively' % (op, 'equal' if eq else 'different'), l, o))
    return len(lines), fails
