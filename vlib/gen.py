"""Structured input generators shared by the property checks."""
from .core import Rng

Q = 0x12ab655e9a2ca55660b44d1e5c37b00159aa76fed00000010a11800000000001
R = 0x4aad957a68b2955982d1347970dec005293a3afc43c8afeb95aee9ac33fd9ff
P = 0x01ae3a4617c510eac63b05c06ca1493b1a22d9f300f5138f1ef3622fba094800170b5d44300000008508c00000000001
ZETA = 2841681278031794617739547238867782961338435681360110683443920362658525667816
D = 3021

def hx(v): return '%x' % v
def le_hex(v, n): return v.to_bytes(n, 'little').hex() if n else '-'

def field_boundary(m):
    """the limb/boundary patterns the C10 quantifier names"""
    s = {0, 1, 2, 3, m - 1, m - 2, (m - 1) // 2, (m + 1) // 2, 2**32 - 1, 2**32, 2**64 - 1, 2**64, 2**128 - 1, 2**128 + 1}
    for k in (1, 8, 31, 33, 63, 65, 127, 192, 200, 250, 251, 252):
        if 2**k < m: s.add(2**k); s.add(2**k - 1)
        if 2**k + 1 < m: s.add(2**k + 1)
    s |= {m - 2**32, m - 2**64, (m >> 1) ^ 0x5555, m // 3}
    return sorted(x % m for x in s)

def rand_field(rng, m):
    c = rng.below(10)
    if c == 0: return rng.choice(field_boundary(m))
    if c == 1: return rng.below(2**16)
    if c == 2: return m - 1 - rng.below(2**16)
    if c == 3:   # sparse limb patterns
        v = 0
        for i in range((m.bit_length() + 63) // 64):
            v |= rng.choice([0, 1, 2**32 - 1, 2**64 - 1, 2**63, rng.bits(64)]) << (64 * i)
        return v % m
    return rng.below(m)

def is_sq(x, m=Q): return x % m == 0 or pow(x, (m - 1) // 2, m) == 1

def roots_of_unity_q():
    """elements of order 2^k for k = 0..47 in Fq: w_k = g^(T * 2^(47-k)), g = 22"""
    T = (Q - 1) >> 47
    w = pow(22, T, Q)
    out = []
    for k in range(47, -1, -1):
        out.append((k, w)); w = w * w % Q
    return out  # (order exponent k, element)

def sqrt_ratio_inputs(rng, n_random):
    """(num, den) pairs: zero operands, ratio 1, zeta^k, roots of unity of each order, every 8-bit digit of each window"""
    T = (Q - 1) >> 47
    g = pow(ZETA, T, Q)            # generator of the 2-Sylow subgroup used by the code (G = ZETA^M)
    pairs = [(0, 0), (0, 1), (1, 0), (0, Q - 1), (Q - 1, 0), (1, 1), (4, 1), (1, 4), (Q - 1, 1), (1, Q - 1), (2, 1), (ZETA, 1), (1, ZETA)]
    for k in range(0, 12): pairs.append((pow(ZETA, k, Q), 1))
    for k, w in roots_of_unity_q(): pairs.append((w, 1)); pairs.append((1, w))
    u = pow(rng.below(Q - 2) + 2, 2**47, Q)   # odd-order component
    for win in range(6):
        for digit in (0, 1, 2, 127, 128, 254, 255):
            e = digit << (8 * win) if win < 5 else (digit & 0x7f) << 40
            pairs.append((pow(g, e, Q) * u % Q, 1))
    # all-ones digits, single high digit
    for e in (2**47 - 1, 2**46, 2**46 - 1, 0x0000ff00ff00, 0x7fffffffff00):
        pairs.append((pow(g, e % 2**47, Q) * u % Q, rng.below(Q - 1) + 1))
    for _ in range(n_random):
        pairs.append((rand_field(rng, Q), rand_field(rng, Q)))
    return pairs

# ---------------------------------------------------------------- roots of small polynomials mod Q (Cantor-Zassenhaus), used to find
# Elligator inputs r0 whose inner square-root argument hits a prescribed value
def _pmod(a, f):
    a = a[:]
    while len(a) >= len(f):
        c = a[-1] * pow(f[-1], -1, Q) % Q
        if c:
            for i in range(len(f)): a[len(a) - len(f) + i] = (a[len(a) - len(f) + i] - c * f[i]) % Q
        a.pop()
    while a and a[-1] == 0: a.pop()
    return a
def _pmul(a, b, f):
    if not a or not b: return []
    r = [0] * (len(a) + len(b) - 1)
    for i, x in enumerate(a):
        if x:
            for j, y in enumerate(b): r[i + j] = (r[i + j] + x * y) % Q
    return _pmod(r, f)
def _ppow(a, e, f):
    r = [1]; a = _pmod(a, f)
    while e:
        if e & 1: r = _pmul(r, a, f)
        a = _pmul(a, a, f); e >>= 1
    return r
def _pgcd(a, b):
    while b: a, b = b, _pmod(a, b)
    if a:
        c = pow(a[-1], -1, Q); a = [x * c % Q for x in a]
    return a
def poly_roots(f, rng):
    """all roots in F_Q of the polynomial with coefficient list f (lowest degree first)"""
    f = _pmod(f[:], [0] * 0 + [1]) if False else f[:]
    while f and f[-1] % Q == 0: f.pop()
    if len(f) < 2: return []
    xq = _ppow([0, 1], Q, f)
    d = xq[:] + [0] * max(0, 2 - len(xq)); d[1] = (d[1] - 1) % Q
    while d and d[-1] == 0: d.pop()
    g = _pgcd(f, d) if d else f
    roots = []
    def split(g):
        if len(g) <= 1: return
        if len(g) == 2: roots.append((-g[0]) * pow(g[1], -1, Q) % Q); return
        while True:
            c = rng.below(Q)
            h = _ppow([c, 1], (Q - 1) // 2, g); h = h + [0] * max(0, 1 - len(h)); h[0] = (h[0] - 1) % Q
            while h and h[-1] == 0: h.pop()
            u = _pgcd(g, h) if h else g
            if 1 < len(u) < len(g):
                split(u); q, _ = [], None
                # g / u by repeated subtraction (degrees are tiny)
                rem = g[:]; quo = [0] * (len(g) - len(u) + 1)
                for i in range(len(g) - len(u), -1, -1):
                    cq = rem[i + len(u) - 1] * pow(u[-1], -1, Q) % Q; quo[i] = cq
                    for j in range(len(u)): rem[i + j] = (rem[i + j] - cq * u[j]) % Q
                split(quo); return
    split(g)
    return roots

def elligator_preimages(t, rng):
    """all r0 with  num(r)*den(r) = t  for r = ZETA*r0^2  (the argument of the square root inside the Elligator map)"""
    A = Q - 1
    def pm(a, b):
        r = [0] * (len(a) + len(b) - 1)
        for i, x in enumerate(a):
            for j, y in enumerate(b): r[i + j] = (r[i + j] + x * y) % Q
        return r
    num = [(A - 2 * D) % Q, (A - 2 * D) % Q]                         # (r + 1)(a - 2d)
    den = pm([(-(D - A)) % Q, D % Q], [(-D) % Q, (D - A) % Q])        # (d r - (d - a))((d - a) r - d)
    f = pm(num, den); f[0] = (f[0] - t) % Q
    out = []
    for r in poly_roots(f, rng):
        v = r * pow(ZETA, -1, Q) % Q
        if pow(v, (Q - 1) // 2, Q) in (0, 1):
            from . import pyref
            r0 = pyref.sqrt(v)
            if r0 is not None: out += [r0, (Q - r0) % Q]
    return out

def decode_preimages(t, rng):
    """all s with  u_2*u_1^2 = t  (u_1 = 1 - s^2, u_2 = u_1^2 - 4 d s^2): the argument of the square root inside decoding"""
    def pm(a, b):
        r = [0] * (len(a) + len(b) - 1)
        for i, x in enumerate(a):
            for j, y in enumerate(b): r[i + j] = (r[i + j] + x * y) % Q
        return r
    u1 = [1, Q - 1]                                   # 1 - w,  w = s^2
    u1sq = pm(u1, u1)
    u2 = u1sq[:]; u2[1] = (u2[1] - 4 * D) % Q
    f = pm(u2, u1sq); f[0] = (f[0] - t) % Q
    out = []
    from . import pyref
    for w in poly_roots(f, rng):
        s = pyref.sqrt(w)
        if s is not None: out += [s, (Q - s) % Q]
    return out

_SPECIAL_S = {}
def special_decode_strings(rng, n):
    """field elements s (as integers) whose decoding runs the square root on an argument with a structured 2-Sylow component"""
    import os, json
    seed0 = int(os.environ.get('VERIF_SEED', '1'))
    key = (n, seed0)
    cache = os.path.join(os.path.dirname(os.path.dirname(os.path.abspath(__file__))), '.cache', 'special_decode_%d_%d.json' % (seed0, n))
    if key not in _SPECIAL_S and os.path.exists(cache):
        try: _SPECIAL_S[key] = json.load(open(cache))
        except Exception: pass
    if key not in _SPECIAL_S:
        from .core import Rng
        out = []; prng = Rng(seed0).fork('decode-preimages')      # a deterministic function of the run seed only (cached on disk)
        for n_, d_ in sqrt_ratio_inputs(prng, 0):
            if n_ % Q == 0 or d_ % Q == 0: continue
            # the 2-Sylow component is what matters: multiply by odd-order elements until the argument has a preimage
            for attempt in range(6):
                u = pow(prng.below(Q - 2) + 2, 2**47, Q) if attempt else 1
                pre = decode_preimages(d_ * pow(n_, -1, Q) * u % Q, prng)
                ev = [s for s in pre if s % 2 == 0]
                if ev: out += ev[:1] + [s for s in pre if s % 2 == 1][:1]; break
            if len(out) >= n: break
        _SPECIAL_S[key] = out
        try:
            os.makedirs(os.path.dirname(cache), exist_ok=True); json.dump(out, open(cache, 'w'))
        except Exception: pass
    return _SPECIAL_S[key]
