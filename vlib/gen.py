"""Structured input generators shared by the property checks."""
from .core import Rng

Q = 0x12ab655e9a2ca55660b44d1e5c37b00159aa76fed00000010a11800000000001
R = 0x4aad957a68b2955982d1347970dec005293a3afc43c8afeb95aee9ac33fd9ff
P = 0x01ae3a4617c510eac63b05c06ca1493b1a22d9f300f5138f1ef3622fba094800170b5d44300000008508c00000000001
ZETA = 2841681278031794617739547238867782961338435681360110683443920362658525667816
D = 3021

def hx(v): return '%x' % v
def le_hex(v, n): return v.to_bytes(n, 'little').hex() if n else '-'

def field_boundary(m):
    """the limb/boundary patterns the C10 quantifier names"""
    s = {0, 1, 2, 3, m - 1, m - 2, (m - 1) // 2, (m + 1) // 2, 2**32 - 1, 2**32, 2**64 - 1, 2**64, 2**128 - 1, 2**128 + 1}
    for k in (1, 8, 31, 33, 63, 65, 127, 192, 200, 250, 251, 252):
        if 2**k < m: s.add(2**k); s.add(2**k - 1)
        if 2**k + 1 < m: s.add(2**k + 1)
    s |= {m - 2**32, m - 2**64, (m >> 1) ^ 0x5555, m // 3}
    return sorted(x % m for x in s)

def rand_field(rng, m):
    c = rng.below(10)
    if c == 0: return rng.choice(field_boundary(m))
    if c == 1: return rng.below(2**16)
    if c == 2: return m - 1 - rng.below(2**16)
    if c == 3:   # sparse limb patterns
        v = 0
        for i in range((m.bit_length() + 63) // 64):
            v |= rng.choice([0, 1, 2**32 - 1, 2**64 - 1, 2**63, rng.bits(64)]) << (64 * i)
        return v % m
    return rng.below(m)

def is_sq(x, m=Q): return x % m == 0 or pow(x, (m - 1) // 2, m) == 1

def roots_of_unity_q():
    """elements of order 2^k for k = 0..47 in Fq: w_k = g^(T * 2^(47-k)), g = 22"""
    T = (Q - 1) >> 47
    w = pow(22, T, Q)
    out = []
    for k in range(47, -1, -1):
        out.append((k, w)); w = w * w % Q
    return out  # (order exponent k, element)

def sqrt_ratio_inputs(rng, n_random):
    """(num, den) pairs: zero operands, ratio 1, zeta^k, roots of unity of each order, every 8-bit digit of each window"""
    T = (Q - 1) >> 47
    g = pow(ZETA, T, Q)            # generator of the 2-Sylow subgroup used by the code (G = ZETA^M)
    pairs = [(0, 0), (0, 1), (1, 0), (0, Q - 1), (Q - 1, 0), (1, 1), (4, 1), (1, 4), (Q - 1, 1), (1, Q - 1), (2, 1), (ZETA, 1), (1, ZETA)]
    for k in range(0, 12): pairs.append((pow(ZETA, k, Q), 1))
    for k, w in roots_of_unity_q(): pairs.append((w, 1)); pairs.append((1, w))
    u = pow(rng.below(Q - 2) + 2, 2**47, Q)   # odd-order component
    for win in range(6):
        for digit in (0, 1, 2, 127, 128, 254, 255):
            e = digit << (8 * win) if win < 5 else (digit & 0x7f) << 40
            pairs.append((pow(g, e, Q) * u % Q, 1))
    # all-ones digits, single high digit
    for e in (2**47 - 1, 2**46, 2**46 - 1, 0x0000ff00ff00, 0x7fffffffff00):
        pairs.append((pow(g, e % 2**47, Q) * u % Q, rng.below(Q - 1) + 1))
    for _ in range(n_random):
        pairs.append((rand_field(rng, Q), rand_field(rng, Q)))
    return pairs
